/-
  Rtp/Proofs/Ntp.lean — helper lemmas for C18.

  Method: (1) `toNtpTime` and `toTime` are characterised for ALL 64-bit inputs by closed formulas on
  `Nat` (`ntpNat`, `timeNat`: floor divisions by literals, wrap-around spelled as `% 2^64`);
  (2) the property's inequalities are then proved about these formulas, `omega` doing the
  linear steps between explicitly named floor-division bounds; (3) `Int64`/`UInt64` conversions at
  the boundary are no-ops on the stated ranges.

  Practical notes: powers are written as literals (elaborating `2 ^ 64` inside `rw`/`generalize`
  patterns runs into the recursion limit), and facts of the shape `(a * k + b) % k = b` are cleared
  before calling `omega` (they send it into the recursion limit as well).
-/
import Rtp.Model.Ntp
import Rtp.Pred.C18
import Rtp.Go.Bits
namespace Rtp.Proofs.Ntp
open Rtp Rtp.Model.Ntp

/-- `toNtpTime` as a closed formula on naturals (all inputs) -/
def ntpNat (u : Nat) : Nat :=
  (u / 1000000000 + 2208988800) % 4294967296 * 4294967296 + u % 1000000000 * 4294967296 / 1000000000
/-- `toTime` as a closed formula on naturals (all inputs) -/
def timeNat (t : Nat) : Nat :=
  ((t / 4294967296 + 18446744071500562816) % 18446744073709551616 * 1000000000 +
    t % 4294967296 * 1000000000 / 4294967296) % 18446744073709551616

theorem fr_lin (r f g : Nat) (hr : r < 1000000000)
    (h1 : 1000000000 * f ≤ r * 4294967296) (h2 : r * 4294967296 < 1000000000 * f + 1000000000)
    (h3 : 4294967296 * g ≤ f * 1000000000) (h4 : f * 1000000000 < 4294967296 * g + 4294967296) :
    f < 4294967296 ∧ g ≤ r ∧ r ≤ g + 1 := by
  omega

theorem div_bounds (a d : Nat) (hd : 0 < d) : d * (a / d) ≤ a ∧ a < d * (a / d) + d := by
  constructor
  · exact Nat.mul_div_le a d
  · have := Nat.lt_mul_div_succ a hd; rw [Nat.mul_add, Nat.mul_one] at this; exact this

/-- the fraction: ns → 2^-32 s → ns loses at most one nanosecond -/
theorem frac_roundtrip (r : Nat) (hr : r < 1000000000) :
    r * 4294967296 / 1000000000 < 4294967296 ∧
    r * 4294967296 / 1000000000 * 1000000000 / 4294967296 ≤ r ∧
    r ≤ r * 4294967296 / 1000000000 * 1000000000 / 4294967296 + 1 := by
  have a := div_bounds (r * 4294967296) 1000000000 (by decide)
  have b := div_bounds (r * 4294967296 / 1000000000 * 1000000000) 4294967296 (by decide)
  exact fr_lin r _ _ hr a.1 a.2 b.1 b.2

/-- the value `toTime` computes for an NTP time given as seconds and fraction -/
theorem timeNat_parts (s f : Nat) (hs : 2208988800 ≤ s) (hs' : s < 4294967296) (hf : f < 4294967296) :
    timeNat (s * 4294967296 + f) = (s - 2208988800) * 1000000000 + f * 1000000000 / 4294967296 := by
  have e1 : (s * 4294967296 + f) / 4294967296 = s := by omega
  have e2 : (s * 4294967296 + f) % 4294967296 = f := by omega
  have e3 : (s + 18446744071500562816) % 18446744073709551616 = s - 2208988800 := by omega
  have e4 : f * 1000000000 / 4294967296 < 1000000000 := by omega
  simp only [timeNat, e1, e2, e3]
  clear e1 e2 e3
  omega

theorem ntpNat_parts (u : Nat) (h : u < 2085978496 * 1000000000) :
    ntpNat u = (u / 1000000000 + 2208988800) * 4294967296 + u % 1000000000 * 4294967296 / 1000000000 := by
  have : (u / 1000000000 + 2208988800) % 4294967296 = u / 1000000000 + 2208988800 := by omega
  simp only [ntpNat, this]

theorem capture_nat (u : Nat) (h : u < 2085978496 * 1000000000) :
    timeNat (ntpNat u) ≤ u ∧ u ≤ timeNat (ntpNat u) + 1 := by
  obtain ⟨f1, f2, f3⟩ := frac_roundtrip (u % 1000000000) (Nat.mod_lt _ (by decide))
  rw [ntpNat_parts u h, timeNat_parts _ _ (by omega) (by omega) f1]
  omega

theorem mul_or (a t j : Nat) (ht : t < 2 ^ j) : a * 2 ^ j ||| t = a * 2 ^ j + t := by
  rw [← Bits.nat_shl_or _ _ _ ht, Nat.shiftLeft_eq]

theorem toNtpTime_toNat (u : UInt64) : (toNtpTime u).toNat = ntpNat u.toNat := by
  have hu := u.toNat_lt
  simp only [toNtpTime, ntpEpochOffset, UInt64.toNat_or, UInt64.toNat_shiftLeft, UInt64.toNat_div, UInt64.toNat_add,
    UInt64.toNat_mod, show (1000000000 : UInt64).toNat = 1000000000 from rfl,
    show (0x83AA7E80 : UInt64).toNat = 2208988800 from rfl, show (32 : UInt64).toNat % 64 = 32 from rfl,
    Nat.shiftLeft_eq, ntpNat]
  have hq : (u.toNat / 1000000000 + 2208988800) % 2 ^ 64 = u.toNat / 1000000000 + 2208988800 := by omega
  have hB : u.toNat % 1000000000 * 2 ^ 32 % 2 ^ 64 = u.toNat % 1000000000 * 4294967296 := by omega
  have hf : u.toNat % 1000000000 * 4294967296 / 1000000000 < 2 ^ 32 := by omega
  have hA : (u.toNat / 1000000000 + 2208988800) * 2 ^ 32 % 2 ^ 64 =
      (u.toNat / 1000000000 + 2208988800) % 4294967296 * 2 ^ 32 := by
    rw [show (2 : Nat) ^ 64 = 4294967296 * 2 ^ 32 from rfl, Nat.mul_mod_mul_right]
  rw [hq, hA, hB, mul_or _ _ 32 hf]

theorem toTime_toNat (t : UInt64) : (toTime t).toNat = timeNat t.toNat := by
  have ht := t.toNat_lt
  simp only [toTime, ntpEpochOffset, UInt64.toNat_add, UInt64.toNat_mul, UInt64.toNat_sub, UInt64.toNat_shiftRight,
    UInt64.toNat_and, show (1000000000 : UInt64).toNat = 1000000000 from rfl,
    show (0x83AA7E80 : UInt64).toNat = 2208988800 from rfl, show (32 : UInt64).toNat % 64 = 32 from rfl,
    show (0xFFFFFFFF : UInt64).toNat = 2 ^ 32 - 1 from rfl, Bits.nat_and_mask,
    Nat.shiftRight_eq_div_pow, timeNat]
  have h1 : t.toNat % 2 ^ 32 * 1000000000 % 2 ^ 64 = t.toNat % 4294967296 * 1000000000 := by omega
  have e : 2 ^ 64 - 2208988800 + t.toNat / 2 ^ 32 = t.toNat / 4294967296 + 18446744071500562816 := by omega
  rw [h1, e, Nat.mod_add_mod]

theorem int64_toInt (x : Int64) :
    x.toInt = if x.toUInt64.toNat < 9223372036854775808 then (x.toUInt64.toNat : Int)
      else (x.toUInt64.toNat : Int) - 18446744073709551616 := by
  rw [← Int64.toInt_toBitVec, BitVec.toInt_eq_toNat_cond]
  have : x.toBitVec.toNat = x.toUInt64.toNat := rfl
  rw [this]
  have h := x.toUInt64.toNat_lt
  split <;> split <;> omega

theorem toNat_of_nonneg (x : Int64) (h : 0 ≤ x.toInt) : (x.toUInt64.toNat : Int) = x.toInt := by
  have := int64_toInt x
  have h' := x.toUInt64.toNat_lt
  split at this <;> omega

theorem toInt_toInt64 (u : UInt64) (h : u.toNat < 9223372036854775808) : u.toInt64.toInt = u.toNat := by
  have := int64_toInt u.toInt64
  rw [UInt64.toUInt64_toInt64] at this
  rw [this, if_pos h]

theorem eraEndNs_eq : Rtp.Pred.C18.eraEndNs = 2085978496000000000 := by decide

open Rtp.Pred.C18 in
theorem capture_ok (t : Int64) (h : instantOk t.toInt = true) :
    0 ≤ t.toInt - (captureTime (captureTimestamp t)).toInt ∧ t.toInt - (captureTime (captureTimestamp t)).toInt ≤ 1 := by
  simp only [instantOk, eraEndNs_eq, Bool.and_eq_true, decide_eq_true_eq] at h
  obtain ⟨h0, h1⟩ := h
  have hn := toNat_of_nonneg t h0
  have hu : t.toUInt64.toNat < 2085978496 * 1000000000 := by omega
  have hc := capture_nat _ hu
  have hb : (captureTime (captureTimestamp t)).toInt = timeNat (ntpNat t.toUInt64.toNat) := by
    simp only [captureTime, captureTimestamp]
    rw [toInt_toInt64 _ (by rw [toTime_toNat, toNtpTime_toNat]; omega), toTime_toNat, toNtpTime_toNat]
  rw [hb]
  omega

/-- keeping the top 26 bits of a 64-bit number -/
theorem and_himask (x : Nat) (hx : x < 2 ^ 64) : x &&& 0xFFFFFFC000000000 = x / 2 ^ 38 * 2 ^ 38 := by
  have hm : (0xFFFFFFC000000000 : Nat) = (2 ^ 26 - 1) <<< 38 := by decide
  have h1 : (x &&& 0xFFFFFFC000000000) / 2 ^ 38 = x / 2 ^ 38 % 2 ^ 26 := by
    rw [hm, ← Nat.shiftRight_eq_div_pow, Bits.nat_and_shl_shr]
  have h2 : (x &&& 0xFFFFFFC000000000) % 2 ^ 38 = 0 := by
    rw [Nat.and_mod_two_pow, show (0xFFFFFFC000000000 : Nat) % 2 ^ 38 = 0 by decide, Nat.and_zero]
  have h3 := Nat.div_add_mod (x &&& 0xFFFFFFC000000000) (2 ^ 38)
  rw [h1, h2] at h3
  have h4 : x / 2 ^ 38 % 2 ^ 26 = x / 2 ^ 38 := by omega
  rw [h4] at h3
  omega

end Rtp.Proofs.Ntp
