/-
  Rtp/Proofs/Ntp.lean — helper lemmas for C18.

  Method: (1) `toNtpTime` and `toTime` are characterised for ALL 64-bit inputs by closed formulas on
  `Nat` (`ntpNat`, `timeNat`: floor divisions by literals, wrap-around spelled as `% 2^64`);
  (2) the property's inequalities are then proved about these formulas, `omega` doing the
  linear steps between explicitly named floor-division bounds; (3) `Int64`/`UInt64` conversions at
  the boundary are no-ops on the stated ranges.

  Practical notes: powers are written as literals (elaborating `2 ^ 64` inside `rw`/`generalize`
  patterns runs into the recursion limit), and facts of the shape `(a * k + b) % k = b` are cleared
  before calling `omega` (they send it into the recursion limit as well).
-/
import Rtp.Model.Ntp
import Rtp.Pred.C18
import Rtp.Go.Bits
namespace Rtp.Proofs.Ntp
open Rtp Rtp.Model.Ntp

/-- `toNtpTime` as a closed formula on naturals (all inputs) -/
def ntpNat (u : Nat) : Nat :=
  (u / 1000000000 + 2208988800) % 4294967296 * 4294967296 + u % 1000000000 * 4294967296 / 1000000000
/-- `toTime` as a closed formula on naturals (all inputs) -/
def timeNat (t : Nat) : Nat :=
  ((t / 4294967296 + 18446744071500562816) % 18446744073709551616 * 1000000000 +
    t % 4294967296 * 1000000000 / 4294967296) % 18446744073709551616

theorem fr_lin (r f g : Nat) (hr : r < 1000000000)
    (h1 : 1000000000 * f ≤ r * 4294967296) (h2 : r * 4294967296 < 1000000000 * f + 1000000000)
    (h3 : 4294967296 * g ≤ f * 1000000000) (h4 : f * 1000000000 < 4294967296 * g + 4294967296) :
    f < 4294967296 ∧ g ≤ r ∧ r ≤ g + 1 := by
  omega

theorem div_bounds (a d : Nat) (hd : 0 < d) : d * (a / d) ≤ a ∧ a < d * (a / d) + d := by
  constructor
  · exact Nat.mul_div_le a d
  · have := Nat.lt_mul_div_succ a hd; rw [Nat.mul_add, Nat.mul_one] at this; exact this

/-- the fraction: ns → 2^-32 s → ns loses at most one nanosecond -/
theorem frac_roundtrip (r : Nat) (hr : r < 1000000000) :
    r * 4294967296 / 1000000000 < 4294967296 ∧
    r * 4294967296 / 1000000000 * 1000000000 / 4294967296 ≤ r ∧
    r ≤ r * 4294967296 / 1000000000 * 1000000000 / 4294967296 + 1 := by
  have a := div_bounds (r * 4294967296) 1000000000 (by decide)
  have b := div_bounds (r * 4294967296 / 1000000000 * 1000000000) 4294967296 (by decide)
  exact fr_lin r _ _ hr a.1 a.2 b.1 b.2

/-- the value `toTime` computes for an NTP time given as seconds and fraction -/
theorem timeNat_parts (s f : Nat) (hs : 2208988800 ≤ s) (hs' : s < 4294967296) (hf : f < 4294967296) :
    timeNat (s * 4294967296 + f) = (s - 2208988800) * 1000000000 + f * 1000000000 / 4294967296 := by
  have e1 : (s * 4294967296 + f) / 4294967296 = s := by omega
  have e2 : (s * 4294967296 + f) % 4294967296 = f := by omega
  have e3 : (s + 18446744071500562816) % 18446744073709551616 = s - 2208988800 := by omega
  have e4 : f * 1000000000 / 4294967296 < 1000000000 := by omega
  simp only [timeNat, e1, e2, e3]
  clear e1 e2 e3
  omega

theorem ntpNat_parts (u : Nat) (h : u < 2085978496 * 1000000000) :
    ntpNat u = (u / 1000000000 + 2208988800) * 4294967296 + u % 1000000000 * 4294967296 / 1000000000 := by
  have : (u / 1000000000 + 2208988800) % 4294967296 = u / 1000000000 + 2208988800 := by omega
  simp only [ntpNat, this]

theorem capture_nat (u : Nat) (h : u < 2085978496 * 1000000000) :
    timeNat (ntpNat u) ≤ u ∧ u ≤ timeNat (ntpNat u) + 1 := by
  obtain ⟨f1, f2, f3⟩ := frac_roundtrip (u % 1000000000) (Nat.mod_lt _ (by decide))
  rw [ntpNat_parts u h, timeNat_parts _ _ (by omega) (by omega) f1]
  omega

theorem mul_or (a t j : Nat) (ht : t < 2 ^ j) : a * 2 ^ j ||| t = a * 2 ^ j + t := by
  rw [← Bits.nat_shl_or _ _ _ ht, Nat.shiftLeft_eq]

theorem toNtpTime_toNat (u : UInt64) : (toNtpTime u).toNat = ntpNat u.toNat := by
  have hu := u.toNat_lt
  simp only [toNtpTime, ntpEpochOffset, UInt64.toNat_or, UInt64.toNat_shiftLeft, UInt64.toNat_div, UInt64.toNat_add,
    UInt64.toNat_mod, show (1000000000 : UInt64).toNat = 1000000000 from rfl,
    show (0x83AA7E80 : UInt64).toNat = 2208988800 from rfl, show (32 : UInt64).toNat % 64 = 32 from rfl,
    Nat.shiftLeft_eq, ntpNat]
  have hq : (u.toNat / 1000000000 + 2208988800) % 2 ^ 64 = u.toNat / 1000000000 + 2208988800 := by omega
  have hB : u.toNat % 1000000000 * 2 ^ 32 % 2 ^ 64 = u.toNat % 1000000000 * 4294967296 := by omega
  have hf : u.toNat % 1000000000 * 4294967296 / 1000000000 < 2 ^ 32 := by omega
  have hA : (u.toNat / 1000000000 + 2208988800) * 2 ^ 32 % 2 ^ 64 =
      (u.toNat / 1000000000 + 2208988800) % 4294967296 * 2 ^ 32 := by
    rw [show (2 : Nat) ^ 64 = 4294967296 * 2 ^ 32 from rfl, Nat.mul_mod_mul_right]
  rw [hq, hA, hB, mul_or _ _ 32 hf]

theorem toTime_toNat (t : UInt64) : (toTime t).toNat = timeNat t.toNat := by
  have ht := t.toNat_lt
  simp only [toTime, ntpEpochOffset, UInt64.toNat_add, UInt64.toNat_mul, UInt64.toNat_sub, UInt64.toNat_shiftRight,
    UInt64.toNat_and, show (1000000000 : UInt64).toNat = 1000000000 from rfl,
    show (0x83AA7E80 : UInt64).toNat = 2208988800 from rfl, show (32 : UInt64).toNat % 64 = 32 from rfl,
    show (0xFFFFFFFF : UInt64).toNat = 2 ^ 32 - 1 from rfl, Bits.nat_and_mask,
    Nat.shiftRight_eq_div_pow, timeNat]
  have h1 : t.toNat % 2 ^ 32 * 1000000000 % 2 ^ 64 = t.toNat % 4294967296 * 1000000000 := by omega
  have e : 2 ^ 64 - 2208988800 + t.toNat / 2 ^ 32 = t.toNat / 4294967296 + 18446744071500562816 := by omega
  rw [h1, e, Nat.mod_add_mod]

theorem int64_toInt (x : Int64) :
    x.toInt = if x.toUInt64.toNat < 9223372036854775808 then (x.toUInt64.toNat : Int)
      else (x.toUInt64.toNat : Int) - 18446744073709551616 := by
  rw [← Int64.toInt_toBitVec, BitVec.toInt_eq_toNat_cond]
  have : x.toBitVec.toNat = x.toUInt64.toNat := rfl
  rw [this]
  have h := x.toUInt64.toNat_lt
  split <;> split <;> omega

theorem toNat_of_nonneg (x : Int64) (h : 0 ≤ x.toInt) : (x.toUInt64.toNat : Int) = x.toInt := by
  have := int64_toInt x
  have h' := x.toUInt64.toNat_lt
  split at this <;> omega

theorem toInt_toInt64 (u : UInt64) (h : u.toNat < 9223372036854775808) : u.toInt64.toInt = u.toNat := by
  have := int64_toInt u.toInt64
  rw [UInt64.toUInt64_toInt64] at this
  rw [this, if_pos h]

theorem eraEndNs_eq : Rtp.Pred.C18.eraEndNs = 2085978496000000000 := by decide

open Rtp.Pred.C18 in
theorem capture_ok (t : Int64) (h : instantOk t.toInt = true) :
    0 ≤ t.toInt - (captureTime (captureTimestamp t)).toInt ∧ t.toInt - (captureTime (captureTimestamp t)).toInt ≤ 1 := by
  simp only [instantOk, eraEndNs_eq, Bool.and_eq_true, decide_eq_true_eq] at h
  obtain ⟨h0, h1⟩ := h
  have hn := toNat_of_nonneg t h0
  have hu : t.toUInt64.toNat < 2085978496 * 1000000000 := by omega
  have hc := capture_nat _ hu
  have hb : (captureTime (captureTimestamp t)).toInt = timeNat (ntpNat t.toUInt64.toNat) := by
    simp only [captureTime, captureTimestamp]
    rw [toInt_toInt64 _ (by rw [toTime_toNat, toNtpTime_toNat]; omega), toTime_toNat, toNtpTime_toNat]
  rw [hb]
  omega

/-- keeping the top 26 bits of a 64-bit number -/
theorem and_himask (x : Nat) (hx : x < 2 ^ 64) : x &&& 0xFFFFFFC000000000 = x / 2 ^ 38 * 2 ^ 38 := by
  have hm : (0xFFFFFFC000000000 : Nat) = (2 ^ 26 - 1) <<< 38 := by decide
  have h1 : (x &&& 0xFFFFFFC000000000) / 2 ^ 38 = x / 2 ^ 38 % 2 ^ 26 := by
    rw [hm, ← Nat.shiftRight_eq_div_pow, Bits.nat_and_shl_shr]
  have h2 : (x &&& 0xFFFFFFC000000000) % 2 ^ 38 = 0 := by
    rw [Nat.and_mod_two_pow, show (0xFFFFFFC000000000 : Nat) % 2 ^ 38 = 0 by decide, Nat.and_zero]
  have h3 := Nat.div_add_mod (x &&& 0xFFFFFFC000000000) (2 ^ 38)
  rw [h1, h2] at h3
  have h4 : x / 2 ^ 38 % 2 ^ 26 = x / 2 ^ 38 := by omega
  rw [h4] at h3
  omega

/-! ### Estimate -/

/-- `Estimate` as a closed formula on naturals (all inputs): 2^38 = 274877906944 is one period of
    the 24-bit field in NTP units, 2^14 = 16384 its resolution, 2^64 − 2^38 = 18446743798831644672 -/
def estimateNat (ts recv : Nat) : Nat :=
  timeNat
    (if ntpNat recv < ntpNat recv / 274877906944 * 274877906944 + ts % 16777216 * 16384
     then (18446743798831644672 + (ntpNat recv / 274877906944 * 274877906944 + ts % 16777216 * 16384)) %
        18446744073709551616
     else ntpNat recv / 274877906944 * 274877906944 + ts % 16777216 * 16384)

theorem splice (S Rf : Nat) (h1 : S ≤ Rf) (h2 : Rf < S + 274877906944) (h3 : S < 18446744073709551616) :
    (if Rf % 18446744073709551616 <
        Rf % 18446744073709551616 / 274877906944 * 274877906944 + S % 274877906944
     then (18446743798831644672 + (Rf % 18446744073709551616 / 274877906944 * 274877906944 + S % 274877906944)) %
        18446744073709551616
     else Rf % 18446744073709551616 / 274877906944 * 274877906944 + S % 274877906944) = S := by
  split <;> omega

/-- `ntpNat` without the wrap of the seconds: the NTP time as an unbounded number -/
def ntpFull (u : Nat) : Nat := (u / 1000000000 + 2208988800) * 4294967296 + u % 1000000000 * 4294967296 / 1000000000

theorem ntpNat_eq_full_mod (u : Nat) : ntpNat u = ntpFull u % 18446744073709551616 := by
  unfold ntpNat ntpFull
  have a := div_bounds (u % 1000000000 * 4294967296) 1000000000 (by decide)
  have hr : u % 1000000000 < 1000000000 := Nat.mod_lt _ (by decide)
  have hf : u % 1000000000 * 4294967296 / 1000000000 < 4294967296 := by omega
  clear a hr
  omega

theorem ntp_diff_lin (qs rs fs qr rr fr delay : Nat)
    (a1 : 1000000000 * fs ≤ rs * 4294967296) (a2 : rs * 4294967296 < 1000000000 * fs + 1000000000)
    (b1 : 1000000000 * fr ≤ rr * 4294967296) (b2 : rr * 4294967296 < 1000000000 * fr + 1000000000)
    (e : 1000000000 * qs + rs + delay = 1000000000 * qr + rr) :
    (qs + 2208988800) * 4294967296 + fs ≤ (qr + 2208988800) * 4294967296 + fr ∧
    1000000000 * (((qr + 2208988800) * 4294967296 + fr) - ((qs + 2208988800) * 4294967296 + fs)) <
      delay * 4294967296 + 1000000000 := by
  omega

/-- the NTP images of two instants `delay` apart are less than `delay·2^32/10^9 + 1` apart, and ordered -/
theorem ntpFull_diff (send delay : Nat) :
    ntpFull send ≤ ntpFull (send + delay) ∧
    1000000000 * (ntpFull (send + delay) - ntpFull send) < delay * 4294967296 + 1000000000 := by
  unfold ntpFull
  have a := div_bounds (send % 1000000000 * 4294967296) 1000000000 (by decide)
  have b := div_bounds ((send + delay) % 1000000000 * 4294967296) 1000000000 (by decide)
  have e1 := Nat.div_add_mod send 1000000000
  have e2 := Nat.div_add_mod (send + delay) 1000000000
  exact ntp_diff_lin _ _ _ _ _ _ delay a.1 a.2 b.1 b.2 (by rw [e1, e2])

/-- truncating the fraction to the 2^-18 s grid and converting back loses at most 3815 ns -/
theorem grid_lin (rs fs g : Nat)
    (a1 : 1000000000 * fs ≤ rs * 4294967296) (a2 : rs * 4294967296 < 1000000000 * fs + 1000000000)
    (c1 : 4294967296 * g ≤ fs / 16384 * 16384 * 1000000000)
    (c2 : fs / 16384 * 16384 * 1000000000 < 4294967296 * g + 4294967296) :
    g ≤ rs ∧ rs ≤ g + 3815 := by
  omega

theorem grid_parts (q f : Nat) :
    (q * 4294967296 + f) / 16384 * 16384 = q * 4294967296 + f / 16384 * 16384 := by
  omega

theorem grid_field (x : Nat) : x / 16384 % 16777216 * 16384 = x / 16384 * 16384 % 274877906944 := by
  rw [show (274877906944 : Nat) = 16777216 * 16384 from rfl, Nat.mul_mod_mul_right]

theorem est_lin1 (send rs f : Nat) (hs : send < 2085978496 * 1000000000) (hf : f < 4294967296)
    (e : 1000000000 * (send / 1000000000) + rs = send) :
    2208988800 ≤ send / 1000000000 + 2208988800 ∧ send / 1000000000 + 2208988800 < 4294967296 ∧
    f / 16384 * 16384 < 4294967296 ∧
    (send / 1000000000 + 2208988800) * 4294967296 + f / 16384 * 16384 < 18446744073709551616 := by
  omega

theorem est_lin2 (send q rs g : Nat) (e : 1000000000 * q + rs = send) (h : g ≤ rs ∧ rs ≤ g + 3815) :
    (q + 2208988800 - 2208988800) * 1000000000 + g ≤ send ∧
    send ≤ (q + 2208988800 - 2208988800) * 1000000000 + g + 3815 := by
  omega

theorem est_lin3 (S S' R delay : Nat) (hS' : S' = S / 16384 * 16384)
    (d : S ≤ R ∧ 1000000000 * (R - S) < delay * 4294967296 + 1000000000)
    (hd : delay * 262144 + 1000000000 < 64 * 1000000000 * 262144) :
    S' ≤ R ∧ R < S' + 274877906944 := by
  omega

/-- the send instant rounded down to the field's 2^-18 s grid, via NTP units and back — what `Estimate` returns -/
def gridNs (send : Nat) : Nat :=
  send / 1000000000 * 1000000000 +
    send % 1000000000 * 4294967296 / 1000000000 / 16384 * 16384 * 1000000000 / 4294967296

theorem est_lin2' (q g : Nat) : (q + 2208988800 - 2208988800) * 1000000000 + g = q * 1000000000 + g := by
  omega

/-- `Estimate` does not depend on the delay at all, as long as it is in range -/
theorem estimate_nat_eq (send delay : Nat) (hs : send < 2085978496 * 1000000000)
    (hd : delay * 262144 + 1000000000 < 64 * 1000000000 * 262144) :
    estimateNat (ntpNat send / 16384) (send + delay) = gridNs send := by
  have hS : ntpNat send = ntpFull send := by rw [ntpNat_parts send hs]; rfl
  have fr := frac_roundtrip (send % 1000000000) (Nat.mod_lt _ (by decide))
  have e1 := Nat.div_add_mod send 1000000000
  obtain ⟨k1, k2, k3, k4⟩ := est_lin1 send _ _ hs fr.1 e1
  -- the grid point below the send time
  have hS' : ntpFull send / 16384 * 16384 =
      (send / 1000000000 + 2208988800) * 4294967296 + send % 1000000000 * 4294967296 / 1000000000 / 16384 * 16384 :=
    grid_parts _ _
  -- distance to the receive time
  obtain ⟨hlo, hhi⟩ := est_lin3 (ntpFull send) _ _ delay rfl (ntpFull_diff send delay) hd
  have hlt : ntpFull send / 16384 * 16384 < 18446744073709551616 := by
    rw [hS']; exact k4
  have hsp := splice _ _ hlo hhi hlt
  unfold estimateNat gridNs
  rw [hS, ntpNat_eq_full_mod (send + delay), grid_field, hsp, hS', timeNat_parts _ _ k1 k2 k3, est_lin2']

/-- the grid point is at most 3815 ns below the instant -/
theorem gridNs_bounds (send : Nat) : gridNs send ≤ send ∧ send ≤ gridNs send + 3815 := by
  have a := div_bounds (send % 1000000000 * 4294967296) 1000000000 (by decide)
  have e1 := Nat.div_add_mod send 1000000000
  have c := div_bounds (send % 1000000000 * 4294967296 / 1000000000 / 16384 * 16384 * 1000000000) 4294967296 (by decide)
  have g := grid_lin _ _ _ a.1 a.2 c.1 c.2
  unfold gridNs
  omega

/-- the core of `c18_estimate` on naturals -/
theorem estimate_nat (send delay : Nat) (hs : send < 2085978496 * 1000000000)
    (hd : delay * 262144 + 1000000000 < 64 * 1000000000 * 262144) :
    estimateNat (ntpNat send / 16384) (send + delay) ≤ send ∧
    send ≤ estimateNat (ntpNat send / 16384) (send + delay) + 3815 := by
  rw [estimate_nat_eq send delay hs hd]
  exact gridNs_bounds send

theorem ntpNat_lt (u : Nat) : ntpNat u < 18446744073709551616 := by
  unfold ntpNat
  have a := div_bounds (u % 1000000000 * 4294967296) 1000000000 (by decide)
  have : u % 1000000000 < 1000000000 := Nat.mod_lt _ (by decide)
  have : (u / 1000000000 + 2208988800) % 4294967296 < 4294967296 := Nat.mod_lt _ (by decide)
  omega

theorem estimate_toNat (ts recv : UInt64) : (estimate ts recv).toNat = estimateNat ts.toNat recv.toNat := by
  have hr := ntpNat_lt recv.toNat
  have hntp : ((toNtpTime recv &&& 0xFFFFFFC000000000) ||| ((ts &&& 0xFFFFFF) <<< (14 : UInt64))).toNat =
      ntpNat recv.toNat / 274877906944 * 274877906944 + ts.toNat % 16777216 * 16384 := by
    rw [UInt64.toNat_or, UInt64.toNat_and, UInt64.toNat_shiftLeft, UInt64.toNat_and, toNtpTime_toNat,
      show (0xFFFFFFC000000000 : UInt64).toNat = 0xFFFFFFC000000000 from rfl, and_himask _ hr,
      show (0xFFFFFF : UInt64).toNat = 2 ^ 24 - 1 from rfl, Bits.nat_and_mask,
      show (14 : UInt64).toNat % 64 = 14 from rfl, Nat.shiftLeft_eq]
    have h1 : ts.toNat % 2 ^ 24 * 2 ^ 14 % 2 ^ 64 = ts.toNat % 16777216 * 16384 := by omega
    have h2 : ts.toNat % 16777216 * 16384 < 2 ^ 38 := by omega
    rw [h1, mul_or _ _ 38 h2]
  unfold estimate estimateNat
  simp only []
  by_cases hlt : toNtpTime recv < ((toNtpTime recv &&& 0xFFFFFFC000000000) ||| ((ts &&& 0xFFFFFF) <<< (14 : UInt64)))
  · have hlt' := UInt64.lt_iff_toNat_lt.mp hlt
    rw [hntp, toNtpTime_toNat] at hlt'
    rw [if_pos hlt, if_pos hlt', toTime_toNat, UInt64.toNat_sub, hntp,
      show ((0x1000000 : UInt64) <<< (14 : UInt64)).toNat = 274877906944 from rfl]
  · have hlt' : ¬ _ := fun h => hlt (UInt64.lt_iff_toNat_lt.mpr h)
    rw [hntp, toNtpTime_toNat] at hlt'
    rw [if_neg hlt, if_neg hlt', toTime_toNat, hntp]

theorem estimateNat_mod (x r : Nat) : estimateNat (x % 16777216) r = estimateNat x r := by
  unfold estimateNat; rw [Nat.mod_mod]

theorem int_fin (s : Int) (n E k : Nat) (hs : (n : Int) = s) (hn : E ≤ n ∧ n ≤ E + k) :
    0 ≤ s - (E : Int) ∧ s - (E : Int) ≤ k := by
  omega

theorem wf_nat (s d : Int) (n m : Nat) (hs : (n : Int) = s) (hd : (m : Int) = d)
    (s1 : s < 2085978496000000000) (d1 : d * 2 ^ 18 + 1000000000 < 64 * 1000000000 * 2 ^ 18) :
    n < 2085978496 * 1000000000 ∧ m * 262144 + 1000000000 < 64 * 1000000000 * 262144 ∧
    (n + m) % 2 ^ 64 = n + m := by
  omega

open Rtp.Pred.C18 in
/-- on the property's ranges the estimate is the grid point below the send instant, whatever the delay -/
theorem estimate_eq (send delay : Int64) (h : estimateWF send delay = true) :
    (estimateNs (sendTimestamp send &&& 0xFFFFFF) (send + delay)).toInt = gridNs send.toUInt64.toNat := by
  simp only [estimateWF, instantOk, delayOk, eraEndNs_eq, Bool.and_eq_true, decide_eq_true_eq] at h
  obtain ⟨⟨s0, s1⟩, d0, d1⟩ := h
  have hs := toNat_of_nonneg send s0
  have hd := toNat_of_nonneg delay d0
  obtain ⟨hsN, hdN, hmod⟩ := wf_nat _ _ _ _ hs hd s1 d1
  have hsum : (send + delay).toUInt64.toNat = send.toUInt64.toNat + delay.toUInt64.toNat := by
    rw [Int64.toUInt64_add, UInt64.toNat_add, hmod]
  have hts : (sendTimestamp send &&& 0xFFFFFF).toNat = ntpNat send.toUInt64.toNat / 16384 % 16777216 := by
    simp only [sendTimestamp, newAbsSendTime]
    rw [UInt64.toNat_and, UInt64.toNat_shiftRight, toNtpTime_toNat, show (0xFFFFFF : UInt64).toNat = 2 ^ 24 - 1 from rfl,
      Bits.nat_and_mask, show (14 : UInt64).toNat % 64 = 14 from rfl, Nat.shiftRight_eq_div_pow]
  have hn := estimate_nat_eq _ _ hsN hdN
  have hb := gridNs_bounds send.toUInt64.toNat
  have e : (estimate (sendTimestamp send &&& 0xFFFFFF) (send + delay).toUInt64).toNat = gridNs send.toUInt64.toNat := by
    rw [estimate_toNat, hts, hsum, estimateNat_mod, hn]
  have hlt : (estimate (sendTimestamp send &&& 0xFFFFFF) (send + delay).toUInt64).toNat < 9223372036854775808 := by
    rw [e]; exact Nat.lt_of_le_of_lt hb.1 (Nat.lt_trans hsN (by decide))
  simp only [estimateNs]
  rw [toInt_toInt64 _ hlt, e]

open Rtp.Pred.C18 in
theorem estimate_ok (send delay : Int64) (h : estimateWF send delay = true) :
    0 ≤ send.toInt - (estimateNs (sendTimestamp send &&& 0xFFFFFF) (send + delay)).toInt ∧
    send.toInt - (estimateNs (sendTimestamp send &&& 0xFFFFFF) (send + delay)).toInt ≤ 3815 := by
  rw [estimate_eq send delay h]
  have h' := h
  simp only [estimateWF, instantOk, Bool.and_eq_true, decide_eq_true_eq] at h'
  exact int_fin _ _ _ 3815 (toNat_of_nonneg send h'.1.1) (gridNs_bounds _)

open Rtp.Pred.C18 in
/-- two receive instants within range of the same send instant give the same estimate -/
theorem estimate_indep (send d1 d2 : Int64) (h1 : estimateWF send d1 = true) (h2 : estimateWF send d2 = true) :
    estimateNs (sendTimestamp send &&& 0xFFFFFF) (send + d1) = estimateNs (sendTimestamp send &&& 0xFFFFFF) (send + d2) := by
  apply Int64.toInt_inj.mp
  rw [estimate_eq send d1 h1, estimate_eq send d2 h2]

/-! ### Int64 arithmetic on values that do not wrap -/

theorem bmod64 (n : Int) (h1 : -9223372036854775808 ≤ n) (h2 : n < 9223372036854775808) :
    n.bmod (2 ^ 64) = n := by
  apply Int.bmod_eq_of_le <;> omega

theorem toInt_of_toNat (x : Int64) (n : Nat) (h : x.toUInt64.toNat = n) (hn : n < 9223372036854775808) :
    x.toInt = n := by
  rw [int64_toInt, h, if_pos hn]

theorem i64_div (a b : Int64) (ha : 0 ≤ a.toInt) (hb : 0 < b.toInt) : (a / b).toInt = a.toInt / b.toInt := by
  rw [Int64.toInt_div, Int.tdiv_eq_ediv_of_nonneg ha]
  have h1 : 0 ≤ a.toInt / b.toInt := Int.ediv_nonneg ha (Int.le_of_lt hb)
  have h2 : a.toInt / b.toInt ≤ a.toInt := Int.ediv_le_self _ ha
  have h3 := Int64.toInt_lt a
  apply bmod64 <;> omega

theorem i64_mod (a b : Int64) (ha : 0 ≤ a.toInt) : (a % b).toInt = a.toInt % b.toInt := by
  rw [Int64.toInt_mod, Int.tmod_eq_emod_of_nonneg ha]

theorem i64_mul (a b : Int64) (h1 : -9223372036854775808 ≤ a.toInt * b.toInt)
    (h2 : a.toInt * b.toInt < 9223372036854775808) : (a * b).toInt = a.toInt * b.toInt := by
  rw [Int64.toInt_mul, bmod64 _ h1 h2]

theorem i64_add (a b : Int64) (h1 : -9223372036854775808 ≤ a.toInt + b.toInt)
    (h2 : a.toInt + b.toInt < 9223372036854775808) : (a + b).toInt = a.toInt + b.toInt := by
  rw [Int64.toInt_add, bmod64 _ h1 h2]

theorem i64_neg (a : Int64) (h : -9223372036854775808 < a.toInt) : (-a).toInt = -a.toInt := by
  rw [Int64.toInt_neg]
  have := Int64.toInt_lt a
  apply bmod64 <;> omega

theorem i64_and_mask32 (a : Int64) (h0 : 0 ≤ a.toInt) : (a &&& 0xFFFFFFFF).toInt = a.toInt % 4294967296 := by
  have hn := toNat_of_nonneg a h0
  have hl := Int64.toInt_lt a
  have e : (a &&& 0xFFFFFFFF).toUInt64.toNat = a.toUInt64.toNat % 4294967296 := by
    rw [Int64.toUInt64_and, UInt64.toNat_and, show ((0xFFFFFFFF : Int64).toUInt64).toNat = 2 ^ 32 - 1 from by decide,
      Bits.nat_and_mask]
  rw [toInt_of_toNat _ _ e (by omega)]
  omega

theorem i64_shl32 (a : Int64) (h0 : 0 ≤ a.toInt) (h1 : a.toInt < 2147483648) :
    (a <<< 32).toInt = a.toInt * 4294967296 := by
  have hn := toNat_of_nonneg a h0
  have e : (a <<< 32).toUInt64.toNat = a.toUInt64.toNat * 4294967296 := by
    show (a <<< 32).toBitVec.toNat = _
    rw [Int64.toBitVec_shiftLeft, show ((32 : Int64).toBitVec.smod 64) = 32#64 from by decide]
    show (a.toBitVec <<< 32).toNat = _
    rw [BitVec.toNat_shiftLeft, Nat.shiftLeft_eq]
    have : a.toBitVec.toNat = a.toUInt64.toNat := rfl
    rw [this]
    omega
  rw [toInt_of_toNat _ _ e (by omega)]
  omega

theorem i64_or (a b : Int64) (q f : Nat) (ha : a.toInt = q * 4294967296) (hb : b.toInt = f)
    (hq : q < 2147483648) (hf : f < 4294967296) : (a ||| b).toInt = q * 4294967296 + f := by
  have hna := toNat_of_nonneg a (by omega)
  have hnb := toNat_of_nonneg b (by omega)
  have e : (a ||| b).toUInt64.toNat = q * 4294967296 + f := by
    rw [Int64.toUInt64_or, UInt64.toNat_or, show a.toUInt64.toNat = q * 2 ^ 32 by omega,
      show b.toUInt64.toNat = f by omega, mul_or _ _ 32 hf]
  rw [toInt_of_toNat _ _ e (by omega)]
  omega

/-! the same with the operands' values given as naturals (so that no side goal mentions a cast) -/

theorem i64_div_nat (a b : Int64) (x y : Nat) (ha : a.toInt = x) (hb : b.toInt = y) (hy : 0 < y) :
    (a / b).toInt = (x / y : Nat) := by
  rw [i64_div a b (by rw [ha]; exact Int.natCast_nonneg x) (by rw [hb]; exact Int.natCast_pos.mpr hy), ha, hb]; rfl

theorem i64_mod_nat (a b : Int64) (x y : Nat) (ha : a.toInt = x) (hb : b.toInt = y) :
    (a % b).toInt = (x % y : Nat) := by
  rw [i64_mod a b (by rw [ha]; exact Int.natCast_nonneg x), ha, hb]; rfl

theorem i64_mul_nat (a b : Int64) (x y : Nat) (ha : a.toInt = x) (hb : b.toInt = y)
    (h : x * y < 9223372036854775808) : (a * b).toInt = (x * y : Nat) := by
  have e : a.toInt * b.toInt = ((x * y : Nat) : Int) := by rw [ha, hb, Int.natCast_mul]
  have h' : ((x * y : Nat) : Int) < 9223372036854775808 := by omega
  have h0 : (0 : Int) ≤ ((x * y : Nat) : Int) := Int.natCast_nonneg _
  rw [i64_mul a b (by rw [e]; omega) (by rw [e]; exact h'), e]

theorem i64_add_nat (a b : Int64) (x y : Nat) (ha : a.toInt = x) (hb : b.toInt = y)
    (h : x + y < 9223372036854775808) : (a + b).toInt = (x + y : Nat) := by
  rw [i64_add a b (by omega) (by omega), ha, hb]; omega

theorem i64_mask_nat (a : Int64) (x : Nat) (ha : a.toInt = x) : (a &&& 0xFFFFFFFF).toInt = (x % 4294967296 : Nat) := by
  rw [i64_and_mask32 a (by omega), ha]; omega

theorem i64_shl_nat (a : Int64) (x : Nat) (ha : a.toInt = x) (hx : x < 2147483648) :
    (a <<< 32).toInt = (x * 4294967296 : Nat) := by
  rw [i64_shl32 a (by omega) (by omega), ha]; omega

theorem i64_or_nat (a b : Int64) (q f : Nat) (ha : a.toInt = (q * 4294967296 : Nat)) (hb : b.toInt = f)
    (hq : q < 2147483648) (hf : f < 4294967296) : (a ||| b).toInt = (q * 4294967296 + f : Nat) := by
  rw [i64_or a b q f (by omega) hb hq hf]; omega

/-! ### the clock offset: duration → Q32.32 → duration -/

/-- Q32.32 image of a non-negative number of nanoseconds -/
def q32Nat (n : Nat) : Nat := n / 1000000000 * 4294967296 + n % 1000000000 * 4294967296 / 1000000000
/-- nanoseconds of a non-negative Q32.32 value -/
def nsNat (o : Nat) : Nat := o / 4294967296 * 1000000000 + o % 4294967296 * 1000000000 / 4294967296

theorem enc_lin (n : Nat) (hr : n < 2147483648 * 1000000000) :
    n / 1000000000 < 2147483648 ∧ n / 1000000000 % 4294967296 = n / 1000000000 ∧
    n % 1000000000 * 4294967296 < 9223372036854775808 ∧
    n % 1000000000 * 4294967296 / 1000000000 < 4294967296 ∧
    n % 1000000000 * 4294967296 / 1000000000 % 4294967296 = n % 1000000000 * 4294967296 / 1000000000 := by
  omega

/-- magnitude part of `encodeOffset` -/
theorem encode_mag (ns : Int64) (n : Nat) (hn : ns.toInt = n) (hr : n < 2147483648 * 1000000000) :
    ((((ns / 1000000000) &&& 0xFFFFFFFF) <<< 32) |||
      ((((ns % 1000000000) * 4294967296) / 1000000000) &&& 0xFFFFFFFF)).toInt = q32Nat n := by
  have c1 : (1000000000 : Int64).toInt = (1000000000 : Nat) := by decide
  have c2 : (4294967296 : Int64).toInt = (4294967296 : Nat) := by decide
  obtain ⟨l1, l2, l3, l4, l5⟩ := enc_lin n hr
  have hq := i64_div_nat _ _ _ _ hn c1 (by decide)
  have hlsb := i64_mask_nat _ _ hq
  rw [l2] at hlsb
  have hshl := i64_shl_nat _ _ hlsb l1
  have hr' := i64_mod_nat _ _ _ _ hn c1
  have hmul := i64_mul_nat _ _ _ _ hr' c2 l3
  have hdiv := i64_div_nat _ _ _ _ hmul c1 (by decide)
  have hmsb := i64_mask_nat _ _ hdiv
  rw [l5] at hmsb
  exact i64_or_nat _ _ _ _ hshl hmsb l1 l4

theorem dec_lin (n : Nat) (hr : n < 9223372036854775808) :
    n / 4294967296 * 1000000000 < 9223372036854775808 ∧
    n % 4294967296 * 1000000000 < 9223372036854775808 ∧
    n / 4294967296 * 1000000000 + n % 4294967296 * 1000000000 / 4294967296 < 9223372036854775808 := by
  omega

/-- magnitude part of `decodeOffset` -/
theorem decode_mag (o : Int64) (n : Nat) (ho : o.toInt = n) :
    ((o / 4294967296) * 1000000000 + ((o &&& 0xFFFFFFFF) * 1000000000) / 4294967296).toInt = nsNat n := by
  have c1 : (1000000000 : Int64).toInt = (1000000000 : Nat) := by decide
  have c2 : (4294967296 : Int64).toInt = (4294967296 : Nat) := by decide
  have hr : n < 9223372036854775808 := by have := Int64.toInt_lt o; omega
  obtain ⟨l1, l2, l3⟩ := dec_lin n hr
  have hq := i64_div_nat _ _ _ _ ho c2 (by decide)
  have hs := i64_mul_nat _ _ _ _ hq c1 l1
  have hm := i64_mask_nat _ _ ho
  have hmm := i64_mul_nat _ _ _ _ hm c1 l2
  have hf := i64_div_nat _ _ _ _ hmm c2 (by decide)
  exact i64_add_nat _ _ _ _ hs hf l3

theorem i64_zero : (0 : Int64).toInt = 0 := by decide

theorem encode_nonneg (d : Int64) (n : Nat) (hd : d.toInt = n) (hr : n < 2147483648 * 1000000000) :
    (encodeOffset d).toInt = q32Nat n := by
  have hneg : ¬ d < 0 := by rw [Int64.lt_iff_toInt_lt, i64_zero]; omega
  simp only [encodeOffset, hneg, if_false]
  exact encode_mag d n hd hr

theorem encode_neg (d : Int64) (n : Nat) (hd : d.toInt = -(n : Int)) (hn : 0 < n) (hr : n < 2147483648 * 1000000000) :
    (encodeOffset d).toInt = -(q32Nat n : Int) := by
  have hneg : d < 0 := by rw [Int64.lt_iff_toInt_lt, i64_zero]; omega
  have hd' : (-d).toInt = n := by rw [i64_neg d (by omega), hd]; omega
  simp only [encodeOffset, hneg, if_true]
  have hm := encode_mag (-d) n hd' hr
  rw [i64_neg _ (by rw [hm]; omega), hm]

theorem decode_nonneg (o : Int64) (n : Nat) (ho : o.toInt = n) : (decodeOffset o).toInt = nsNat n := by
  have hneg : ¬ o < 0 := by rw [Int64.lt_iff_toInt_lt, i64_zero]; omega
  simp only [decodeOffset, hneg, if_false]
  exact decode_mag o n ho

theorem decode_neg (o : Int64) (n : Nat) (ho : o.toInt = -(n : Int)) (hn : 0 < n) (hr : n < 9223372036854775808) :
    (decodeOffset o).toInt = -(nsNat n : Int) := by
  have hneg : o < 0 := by rw [Int64.lt_iff_toInt_lt, i64_zero]; omega
  have ho' : (-o).toInt = n := by rw [i64_neg o (by omega), ho]; omega
  simp only [decodeOffset, hneg, if_true]
  have hm := decode_mag (-o) n ho'
  rw [i64_neg _ (by rw [hm]; omega), hm]

/-- duration → Q32.32 → duration loses at most one nanosecond, towards zero -/
theorem offset_nat (n : Nat) (hr : n < 2147483648 * 1000000000) :
    q32Nat n < 9223372036854775808 ∧ (0 < n → 0 < q32Nat n) ∧ nsNat (q32Nat n) ≤ n ∧ n ≤ nsNat (q32Nat n) + 1 := by
  obtain ⟨f1, f2, f3⟩ := frac_roundtrip (n % 1000000000) (Nat.mod_lt _ (by decide))
  have a := div_bounds (n % 1000000000 * 4294967296) 1000000000 (by decide)
  have e1 : q32Nat n / 4294967296 = n / 1000000000 := by unfold q32Nat; omega
  have e2 : q32Nat n % 4294967296 = n % 1000000000 * 4294967296 / 1000000000 := by unfold q32Nat; omega
  have e3 := Nat.div_add_mod n 1000000000
  refine ⟨?_, ?_, ?_, ?_⟩
  · unfold q32Nat; omega
  · unfold q32Nat; omega
  · unfold nsNat; rw [e1, e2]; clear e1 e2; omega
  · unfold nsNat; rw [e1, e2]; clear e1 e2; omega

theorem int_cases (d : Int) : (∃ n : Nat, d = n) ∨ (∃ n : Nat, 0 < n ∧ d = -(n : Int)) := by
  by_cases h : 0 ≤ d
  · exact Or.inl ⟨d.toNat, by omega⟩
  · exact Or.inr ⟨(-d).toNat, by omega, by omega⟩

open Rtp.Pred.C18 in
/-- |d| < 2^31 s: the recovered duration is `d` or one nanosecond closer to zero -/
theorem offset_ok (d : Int64) (h : offsetOk d.toInt = true) :
    (0 ≤ d.toInt → 0 ≤ (decodeOffset (encodeOffset d)).toInt ∧ (decodeOffset (encodeOffset d)).toInt ≤ d.toInt ∧
        d.toInt - (decodeOffset (encodeOffset d)).toInt ≤ 1) ∧
    (d.toInt < 0 → (decodeOffset (encodeOffset d)).toInt ≤ 0 ∧ d.toInt ≤ (decodeOffset (encodeOffset d)).toInt ∧
        (decodeOffset (encodeOffset d)).toInt - d.toInt ≤ 1) := by
  simp only [offsetOk, Bool.and_eq_true, decide_eq_true_eq,
    show (2 : Int) ^ 31 * 1000000000 = 2147483648000000000 from by decide] at h
  obtain ⟨h1, h2⟩ := h
  rcases int_cases d.toInt with ⟨n, hn⟩ | ⟨n, hpos, hn⟩
  · have hr : n < 2147483648 * 1000000000 := by omega
    obtain ⟨o1, _, o3, o4⟩ := offset_nat n hr
    have he := encode_nonneg d n hn hr
    have hd := decode_nonneg _ _ he
    rw [hd, hn]
    omega
  · have hr : n < 2147483648 * 1000000000 := by omega
    obtain ⟨o1, o2, o3, o4⟩ := offset_nat n hr
    have he := encode_neg d n hn hpos hr
    have hd := decode_neg _ _ he (o2 hpos) o1
    rw [hd, hn]
    omega
/-! ### the conversions as single floors of the exact rational conversion -/

/-- dividing `q·d + r` scaled by `c`: the quotient splits exactly -/
theorem scaled_div (u c d : Nat) (hd : 0 < d) : u * c / d = u / d * c + u % d * c / d := by
  conv => lhs; rw [← Nat.div_add_mod u d]
  rw [Nat.add_mul, Nat.mul_assoc, Nat.mul_add_div hd]

/-- seconds-and-fraction arithmetic of `toNtpTime` = one floor of the exact rational conversion -/
theorem ntpFull_floor (u : Nat) : ntpFull u = u * 4294967296 / 1000000000 + 2208988800 * 4294967296 := by
  unfold ntpFull
  rw [scaled_div u 4294967296 1000000000 (by decide), Nat.add_mul]
  omega

theorem mod_mul_add_mod (x c g m : Nat) : (x % m * c + g) % m = (x * c + g) % m := by
  rw [Nat.add_mod, Nat.mul_mod, Nat.mod_mod, ← Nat.mul_mod, ← Nat.add_mod]

theorem timeNat_floor (t : Nat) :
    timeNat t = (t * 1000000000 / 4294967296 + 18446744071500562816 * 1000000000) % 18446744073709551616 := by
  unfold timeNat
  rw [mod_mul_add_mod, scaled_div t 1000000000 4294967296 (by decide), Nat.add_mul]
  congr 1
  omega

/-- nested floors: the 2^-18 s grid value of an instant -/
theorem grid_floor (u : Nat) : u * 4294967296 / 1000000000 / 16384 = u * 262144 / 1000000000 := by
  rw [Nat.div_div_eq_div_mul, show u * 4294967296 = u * 262144 * 16384 by omega,
    Nat.mul_div_mul_right _ _ (by decide)]

theorem toNtp_floor (u : UInt64) :
    (toNtpTime u).toNat =
      (u.toNat * 4294967296 / 1000000000 + 2208988800 * 4294967296) % 18446744073709551616 := by
  rw [toNtpTime_toNat, ntpNat_eq_full_mod, ntpFull_floor]

theorem toTime_floor (t : UInt64) :
    (toTime t).toNat =
      (t.toNat * 1000000000 / 4294967296 + 18446744071500562816 * 1000000000) % 18446744073709551616 := by
  rw [toTime_toNat, timeNat_floor]

theorem six18_lin (x : Nat) :
    (x + 2208988800 * 4294967296) % 18446744073709551616 / 16384 % 16777216 = x / 16384 % 16777216 := by
  omega

/-- the 24-bit abs-send-time of an instant is its 6.18 fixed-point number of seconds modulo 64 s -/
theorem abs_send_time_floor (u : UInt64) :
    (newAbsSendTime u &&& 0xFFFFFF).toNat = u.toNat * 262144 / 1000000000 % 16777216 := by
  simp only [newAbsSendTime]
  rw [UInt64.toNat_and, UInt64.toNat_shiftRight, toNtp_floor, show (0xFFFFFF : UInt64).toNat = 2 ^ 24 - 1 from rfl,
    Bits.nat_and_mask, show (14 : UInt64).toNat % 64 = 14 from rfl, Nat.shiftRight_eq_div_pow]
  rw [show (2 : Nat) ^ 14 = 16384 from rfl, show (2 : Nat) ^ 24 = 16777216 from rfl, six18_lin, grid_floor]
end Rtp.Proofs.Ntp
