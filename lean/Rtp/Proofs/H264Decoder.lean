/-
  Rtp/Proofs/H264Decoder.lean — the receiver model decodes what the RFC 6184 encoder of
  Spec/Rfc6184.lean produces, for every packetisation plan (towards `c10_decoder`).
-/
import Rtp.Proofs.H264Resync
import Rtp.Pred.C10
namespace Rtp.Proofs.H264
open Rtp Rtp.Model Rtp.Model.H264 Rtp.Spec.Rfc6184

/-! ### per-byte bridges -/

theorem single_type_bridge : ∀ h : UInt8,
    (decide (1 ≤ hType h ∧ hType h ≤ 23)) =
      (decide (0 < (h &&& naluTypeBitmask)) && decide ((h &&& naluTypeBitmask) < 24)) := by
  apply Rtp.Bits.forall_u8; decide +kernel

theorem hType_mkHdr (f nri typ : Nat) (ht : typ < 32) : hType (mkHdr f nri typ) = typ := by
  simp only [hType, mkHdr, Nat.toUInt8, UInt8.toNat_ofNat']
  omega

theorem fuS_fuHdr (s e : Bool) (typ : Nat) (ht : typ < 32) : fuS (fuHdr s e typ) = s := by
  cases s <;> cases e <;>
    simp only [fuS, fuHdr, Nat.toUInt8, UInt8.toNat_ofNat', if_true, if_false, Bool.false_eq_true] <;>
    simp <;> omega

theorem fuE_fuHdr (s e : Bool) (typ : Nat) (ht : typ < 32) : fuE (fuHdr s e typ) = e := by
  cases s <;> cases e <;>
    simp only [fuE, fuHdr, Nat.toUInt8, UInt8.toNat_ofNat', if_true, if_false, Bool.false_eq_true] <;>
    simp <;> omega

/-- FU-A reassembly rebuilds the unit's header octet when its F bit is clear -/
theorem rebuild_hdr (s e : Bool) : ∀ h : UInt8, hF h = 0 →
    ((mkHdr (hF h) (hNri h) 28) &&& naluRefIdcBitmask) |||
      ((fuHdr s e (hType h)) &&& naluTypeBitmask) = h := by
  cases s <;> cases e <;> (apply Rtp.Bits.forall_u8; decide +kernel)

/-! ### 16-bit sizes -/

theorem rd16_size16 (n : Nat) (hn : n < 65536) :
    (rd16 (n / 256).toUInt8 (n % 256).toUInt8).toNat = n := by
  simp only [rd16, UInt16.toNat_or, UInt16.toNat_shiftLeft, UInt8.toNat_toUInt16, Nat.toUInt8,
    UInt8.toNat_ofNat']
  have h1 : n / 256 % 2 ^ 8 = n / 256 := Nat.mod_eq_of_lt (by omega)
  have h2 : n % 256 % 2 ^ 8 = n % 256 := Nat.mod_eq_of_lt (by omega)
  rw [h1, h2]
  have h0 : UInt16.toNat 8 % 16 = 8 := by decide
  have h3 : (n / 256) <<< 8 % 2 ^ 16 = (n / 256) <<< 8 := by
    rw [Nat.shiftLeft_eq]; simp; omega
  rw [h0, h3, Rtp.Bits.nat_shl_or _ _ 8 (by omega)]
  omega

/-! ### unmarshal on the three packet kinds -/

theorem unmarshal_single (avc : Bool) (buf : Bytes) (h : UInt8) (body : Bytes)
    (ht : 1 ≤ hType h ∧ hType h ≤ 23) :
    unmarshal avc buf (h :: body) = (.ok (package avc (h :: body)), buf) := by
  have := single_type_bridge h
  simp only [ht, and_self, decide_true] at this
  simp only [unmarshal]
  rw [if_pos]
  simpa using this.symm

theorem unmarshal_stap (avc : Bool) (buf : Bytes) (h : UInt8) (rest : Bytes) (ht : hType h = 24) :
    unmarshal avc buf (h :: rest) = (stapLoop avc rest, buf) := by
  have e : h &&& naluTypeBitmask = 24 := type_of_hType (n := 24) (by decide) ht
  simp only [unmarshal, e]
  simp [stapaNALUType]

theorem stapLoop_enc (avc : Bool) (ns : List Bytes) (h : ∀ n ∈ ns, n.length < 65536) :
    stapLoop avc (encStapBody ns) = .ok (ns.flatMap (package avc)) := by
  induction ns with
  | nil => simp [encStapBody, stapLoop]
  | cons n ns ih =>
    have hn := h n (by simp)
    have ih' := ih (fun m hm => h m (by simp [hm]))
    simp only [encStapBody, size16, List.cons_append, List.nil_append]
    rw [stapLoop]
    simp only [rd16_size16 n.length hn, List.length_append, List.drop_left, List.take_left]
    rw [if_neg (by omega), ih']
    simp

/-! ### runs -/

theorem run_append (avc : Bool) (buf : Bytes) (a b : List Bytes) :
    run avc buf (a ++ b) =
      ((run avc buf a).1 ++ (run avc (run avc buf a).2 b).1, (run avc (run avc buf a).2 b).2) := by
  induction a generalizing buf with
  | nil => simp [run]
  | cons p ps ih => simp [run, ih]

/-- all results are values -/
def allOk (rs : List (Res Bytes)) : Bool := rs.all Res.isOk
/-- the bytes a result list delivers -/
def outBytes (rs : List (Res Bytes)) : Bytes := rs.flatMap Rtp.Pred.C10.resBytes

theorem allOk_append (a b : List (Res Bytes)) : allOk (a ++ b) = (allOk a && allOk b) := by
  simp [allOk]
theorem outBytes_append (a b : List (Res Bytes)) : outBytes (a ++ b) = outBytes a ++ outBytes b := by
  simp [outBytes]

/-- continuation fragments of a unit whose earlier payload bytes are in the buffer -/
theorem run_encFu_cont (avc : Bool) (ind : UInt8) (typ : Nat) (hi : hType ind = 28) (ht : typ < 32)
    (cs : List Bytes) (hc : cs ≠ []) (buf : Bytes) :
    allOk (run avc buf (encFu ind typ false cs)).1 = true ∧
    outBytes (run avc buf (encFu ind typ false cs)).1 =
      package avc (((ind &&& naluRefIdcBitmask) ||| ((fuHdr false true typ) &&& naluTypeBitmask)) ::
        (buf ++ cs.flatten)) ∧
    (run avc buf (encFu ind typ false cs)).2 = [] := by
  induction cs generalizing buf with
  | nil => exact absurd rfl hc
  | cons c cs ih =>
    cases cs with
    | nil =>
      simp only [encFu, run, unmarshal_fua avc buf ind _ c hi, fuS_fuHdr _ _ _ ht, fuE_fuHdr _ _ _ ht]
      simp [allOk, outBytes, Res.isOk, Rtp.Pred.C10.resBytes]
    | cons c2 cs2 =>
      have := ih (by simp) (buf ++ c)
      simp only [encFu, run, unmarshal_fua avc buf ind _ c hi, fuS_fuHdr _ _ _ ht, fuE_fuHdr _ _ _ ht]
      refine ⟨?_, ?_, ?_⟩
      · simpa [allOk, Res.isOk] using this.1
      · simpa [outBytes, Rtp.Pred.C10.resBytes] using this.2.1
      · simpa using this.2.2

theorem frame_eq (avc : Bool) (nals : List Bytes) : frame avc nals = nals.flatMap (package avc) := by
  cases avc <;> simp [frame, frameAvc, frameAnnexB] <;> rfl

theorem hNri_lt (h : UInt8) : hNri h < 4 := by simp only [hNri]; omega

/-- one plan item through the receiver, from any buffer -/
theorem run_item (avc : Bool) (it : Item) (hw : it.wf = true) (buf : Bytes) :
    allOk (run avc buf it.encode).1 = true ∧
    outBytes (run avc buf it.encode).1 = it.nals.flatMap (package avc) := by
  cases it with
  | single n =>
    cases n with
    | nil => simp [Item.wf, typeOf] at hw
    | cons h body =>
      simp only [Item.wf, typeOf] at hw
      have hw := of_decide_eq_true hw
      simp [Item.encode, Item.nals, run, unmarshal_single avc buf h body hw, allOk, outBytes, Res.isOk,
        Rtp.Pred.C10.resBytes]
  | stapA sh ns =>
    simp only [Item.wf, Bool.and_eq_true, List.all_eq_true, decide_eq_true_eq] at hw
    have ht : hType sh = 24 := hw.1.1
    simp [Item.encode, Item.nals, run, unmarshal_stap avc buf _ _ ht, stapLoop_enc avc ns hw.2, allOk,
      outBytes, Res.isOk, Rtp.Pred.C10.resBytes]
  | fuA h cs =>
    simp only [Item.wf, Bool.and_eq_true, decide_eq_true_eq] at hw
    obtain ⟨hF0, hlen⟩ := hw
    have hi : hType (mkHdr (hF h) (hNri h) 28) = 28 := hType_mkHdr _ _ 28 (by omega)
    have ht : hType h < 32 := by simp only [hType]; omega
    match cs, hlen with
    | c :: c2 :: cs2, _ =>
      have hc := run_encFu_cont avc _ (hType h) hi ht (c2 :: cs2) (by simp) ([] ++ c)
      rw [rebuild_hdr false true h hF0] at hc
      simp only [Item.encode, Item.nals, encFu, run, unmarshal_fua avc buf _ _ c hi,
        fuS_fuHdr _ _ _ ht, fuE_fuHdr _ _ _ ht]
      refine ⟨?_, ?_⟩
      · simpa [allOk, Res.isOk] using hc.1
      · simpa [outBytes, Rtp.Pred.C10.resBytes] using hc.2.1

/-- a whole plan through the receiver, from any buffer: every result is a value and the results
    concatenate to the framed units -/
theorem run_plan (avc : Bool) (plan : List Item) (hw : plan.all Item.wf = true) (buf : Bytes) :
    allOk (run avc buf (encode plan)).1 = true ∧
    outBytes (run avc buf (encode plan)).1 = frame avc (plan.flatMap Item.nals) := by
  rw [frame_eq]
  induction plan generalizing buf with
  | nil => simp [encode, run, allOk, outBytes]
  | cons it plan ih =>
    simp only [List.all_cons, Bool.and_eq_true] at hw
    have h1 := run_item avc it hw.1 buf
    have h2 := ih hw.2 (run avc buf it.encode).2
    simp only [encode] at h2
    simp only [encode, List.flatMap_cons, run_append, allOk_append, outBytes_append, h1.1, h1.2,
      h2.1, h2.2, Bool.and_self, true_and, List.flatMap_append]

/-! ### IsPartitionHead on encoded plans -/

theorem head_cont (ind : UInt8) (typ : Nat) (hi : hType ind = 28) (ht : typ < 32) (cs : List Bytes) :
    (encFu ind typ false cs).map isPartitionHead = List.replicate cs.length false := by
  have e : ind &&& naluTypeBitmask = 28 := type_of_hType (n := 28) (by decide) hi
  induction cs with
  | nil => rfl
  | cons c cs ih =>
    cases cs with
    | nil =>
      have := fuS_fuHdr false true typ ht
      rw [fuS_eq] at this
      simp [encFu, isPartitionHead, e, fuaNALUType, this]
    | cons c2 cs2 =>
      have := fuS_fuHdr false false typ ht
      rw [fuS_eq] at this
      simp only [encFu, List.map_cons, List.length_cons, List.replicate_succ]
      rw [ih]
      simp [isPartitionHead, e, fuaNALUType, this, List.replicate_succ]

theorem not_fu_of_single : ∀ h : UInt8, 1 ≤ hType h ∧ hType h ≤ 23 →
    (h &&& naluTypeBitmask == fuaNALUType || h &&& naluTypeBitmask == fubNALUType) = false := by
  apply Rtp.Bits.forall_u8; decide +kernel

theorem heads_item (it : Item) (hw : it.wf = true) (ha : Rtp.Pred.C10.headsApply it = true) :
    it.encode.map isPartitionHead = it.heads := by
  cases it with
  | single n =>
    match n, ha with
    | h :: b1 :: tl, _ =>
      simp only [Item.wf, typeOf] at hw
      have hw := of_decide_eq_true hw
      simp [Item.encode, Item.heads, isPartitionHead, not_fu_of_single h hw]
    | [_], ha => simp [Rtp.Pred.C10.headsApply] at ha
    | [], ha => simp [Rtp.Pred.C10.headsApply] at ha
  | stapA sh ns =>
    simp only [Item.wf, Bool.and_eq_true, decide_eq_true_eq] at hw
    have ht : hType sh = 24 := hw.1.1
    have e : sh &&& naluTypeBitmask = 24 := type_of_hType (n := 24) (by decide) ht
    cases ns with
    | nil => simp at hw
    | cons n ns =>
      simp [Item.encode, Item.heads, encStapBody, size16, isPartitionHead, e, fuaNALUType, fubNALUType]
  | fuA h cs =>
    simp only [Item.wf, Bool.and_eq_true, decide_eq_true_eq] at hw
    have hi : hType (mkHdr (hF h) (hNri h) 28) = 28 := hType_mkHdr _ _ 28 (by omega)
    have e : mkHdr (hF h) (hNri h) 28 &&& naluTypeBitmask = 28 := type_of_hType (n := 28) (by decide) hi
    have ht : hType h < 32 := by simp only [hType]; omega
    match cs, hw.2 with
    | c :: c2 :: cs2, _ =>
      have := fuS_fuHdr true false (hType h) ht
      rw [fuS_eq] at this
      have hc := head_cont _ (hType h) hi ht (c2 :: cs2)
      simp only [Item.encode, Item.heads, encFu, List.map_cons]
      rw [hc]
      simp [isPartitionHead, e, fuaNALUType, this]

theorem heads_plan (plan : List Item) (hw : plan.all Item.wf = true)
    (ha : plan.all Rtp.Pred.C10.headsApply = true) :
    (encode plan).map isPartitionHead = plan.flatMap Item.heads := by
  induction plan with
  | nil => rfl
  | cons it plan ih =>
    simp only [List.all_cons, Bool.and_eq_true] at hw ha
    simp only [encode, List.flatMap_cons, List.map_append, heads_item it hw.1 ha.1]
    rw [← ih hw.2 ha.2]; rfl

end Rtp.Proofs.H264
