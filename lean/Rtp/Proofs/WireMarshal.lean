/-
  Rtp/Proofs/WireMarshal.lean — encode-side lemmas: what `hdrMarshalTo` / `pktMarshal`
  (Model/Packet) write into a fresh zero buffer, as one concatenation, and that this is
  `Wire.encode` of the pad-free description of the packet.
-/
import Rtp.Proofs.WireParse
namespace Rtp.Proofs.Wire
open Rtp Rtp.Model Rtp.Spec.Wire

theorem writeAt_mid (a x b y : Bytes) (h : x.length = y.length) :
    writeAt (a ++ x ++ b) a.length y = a ++ y ++ b := by
  simp only [writeAt, List.length_append, List.append_assoc]
  rw [List.take_left]
  have h1 : a.length + (x.length + b.length) - a.length = x.length + b.length := by omega
  rw [h1]
  have h2 : y.take (x.length + b.length) = y := List.take_of_length_le (by omega)
  rw [h2]
  have h3 : (a ++ (x ++ b)).drop (a.length + y.length) = b := by
    rw [← h, ← List.append_assoc]
    have : a.length + x.length = (a ++ x).length := by simp
    rw [this, List.drop_left]
  rw [h3]

theorem rep_add (m n : Nat) (b : UInt8) : rep (m + n) b = rep m b ++ rep n b := by
  simp [rep, List.replicate_append_replicate]

theorem rep_length (m : Nat) (b : UInt8) : (rep m b).length = m := by simp [rep]

/-- writing into the zero tail of a buffer, at its boundary -/
theorem writeAt_zeros (pre src : Bytes) (m n : Nat) (hn : n = pre.length) (h : src.length ≤ m) :
    writeAt (pre ++ rep m 0) n src = pre ++ src ++ rep (m - src.length) 0 := by
  subst hn
  have : rep m 0 = rep src.length 0 ++ rep (m - src.length) 0 := by
    rw [← rep_add]; congr 1; omega
  rw [this, ← List.append_assoc]
  exact writeAt_mid pre _ _ src (by simp [rep])

/-- overwriting a stretch in the middle -/
theorem writeAt_mid' (a x b y : Bytes) (n : Nat) (hn : n = a.length) (h : x.length = y.length) :
    writeAt (a ++ x ++ b) n y = a ++ y ++ b := by
  subst hn; exact writeAt_mid a x b y h

theorem fixedBytes_length (h : Header) : (fixedBytes h).length = 12 + h.csrc.length * 4 := by
  simp only [fixedBytes, be16, be32, List.length_append, List.length_cons, List.length_nil, csrc_bytes_length]

theorem round4_facts (n : Nat) : n ≤ round4 n ∧ round4 n < n + 4 ∧ round4 n % 4 = 0 ∧ round4 (4 + n) = 4 + round4 n := by
  unfold round4; omega

/-- the extension block as MarshalTo lays it out -/
def extBytes (h : Header) (body : Bytes) : Bytes :=
  be16 h.extProfile ++ be16 (round4 body.length / 4).toUInt16 ++ body ++ rep (round4 body.length - body.length) 0

theorem extBytes_length (h : Header) (body : Bytes) : (extBytes h body).length = 4 + round4 body.length := by
  have := round4_facts body.length
  simp only [extBytes, be16, List.length_append, List.length_cons, List.length_nil, rep_length]
  omega

theorem hdrMarshalTo_zeros_ext (h : Header) (N : Nat) (body : Bytes) (hx : h.extension = true)
    (hb : extBodyBytes h = .ok body) (hbl : body.length = extBodySize h) (hN : hdrMarshalSize h ≤ N) :
    hdrMarshalTo h (rep N 0) =
      .ok (fixedBytes h ++ extBytes h body ++ rep (N - hdrMarshalSize h) 0, hdrMarshalSize h) := by
  obtain ⟨r1, r2, r3, r4⟩ := round4_facts body.length
  have hF := fixedBytes_length h
  have hsz : hdrMarshalSize h = 12 + h.csrc.length * 4 + 4 + round4 body.length := by
    simp only [hdrMarshalSize, hx, ↓reduceIte, ← hbl, r4]; omega
  have hgt : ¬ hdrMarshalSize h > (rep N 0).length := by rw [rep_length]; omega
  simp only [hdrMarshalTo, hgt, ↓reduceIte, hx, hb]
  -- the fixed part
  have d1 : writeAt (rep N 0) 0 (fixedBytes h) = fixedBytes h ++ rep (N - (12 + h.csrc.length * 4)) 0 := by
    have := writeAt_zeros [] (fixedBytes h) N 0 rfl (by omega)
    simpa [hF] using this
  rw [d1]
  -- the profile
  have d2 := writeAt_zeros (fixedBytes h) (be16 h.extProfile) (N - (12 + h.csrc.length * 4)) (12 + h.csrc.length * 4)
    hF.symm (by simp [be16]; omega)
  rw [d2]
  -- the elements, two bytes further on
  have e3 : rep (N - (12 + h.csrc.length * 4) - (be16 h.extProfile).length) 0 =
      rep 2 0 ++ rep (N - (12 + h.csrc.length * 4) - 4) 0 := by
    rw [← rep_add]; congr 1; simp [be16]; omega
  rw [e3, ← List.append_assoc]
  have d3 := writeAt_zeros (fixedBytes h ++ be16 h.extProfile ++ rep 2 0) body (N - (12 + h.csrc.length * 4) - 4)
    (12 + h.csrc.length * 4 + 4) (by simp [be16, rep_length, hF]) (by omega)
  rw [d3]
  -- the word count, back-patched
  have d4 := writeAt_mid' (fixedBytes h ++ be16 h.extProfile) (rep 2 0)
    (body ++ rep (N - (12 + h.csrc.length * 4) - 4 - body.length) 0)
    (be16 (round4 body.length / 4).toUInt16) (12 + h.csrc.length * 4 + 2) (by simp [be16, hF]) (by simp [be16, rep_length])
  rw [List.append_assoc _ body, d4]
  -- zero padding to the word boundary
  have e5 : rep (N - (12 + h.csrc.length * 4) - 4 - body.length) 0 =
      rep (round4 body.length - body.length) 0 ++ rep (N - hdrMarshalSize h) 0 := by
    rw [← rep_add]; congr 1; omega
  rw [e5]
  have d5 := writeAt_mid' (fixedBytes h ++ be16 h.extProfile ++ be16 (round4 body.length / 4).toUInt16 ++ body)
    (rep (round4 body.length - body.length) 0) (rep (N - hdrMarshalSize h) 0) (rep (round4 body.length - body.length) 0)
    (12 + h.csrc.length * 4 + 4 + body.length) (by simp [be16, hF]; omega) rfl
  rw [← List.append_assoc, ← List.append_assoc, d5]
  simp only [extBytes, List.append_assoc, hsz]


theorem hdrMarshalTo_zeros_noext (h : Header) (N : Nat) (hx : h.extension = false) (hN : hdrMarshalSize h ≤ N) :
    hdrMarshalTo h (rep N 0) = .ok (fixedBytes h ++ rep (N - hdrMarshalSize h) 0, hdrMarshalSize h) := by
  have hF := fixedBytes_length h
  have hsz : hdrMarshalSize h = 12 + h.csrc.length * 4 := by simp [hdrMarshalSize, hx]
  have hgt : ¬ hdrMarshalSize h > (rep N 0).length := by rw [rep_length]; omega
  simp only [hdrMarshalTo, hgt, ↓reduceIte, hx, Bool.false_eq_true]
  have d1 := writeAt_zeros [] (fixedBytes h) N 0 rfl (by omega)
  simp only [List.nil_append] at d1
  rw [d1, hF, hsz]

/-- header bytes: fixed part, CSRCs, extension block -/
def hdrBytes (h : Header) (body : Bytes) : Bytes :=
  fixedBytes h ++ (if h.extension then extBytes h body else [])

theorem hdrBytes_length (h : Header) (body : Bytes) (hbl : h.extension = true → body.length = extBodySize h) :
    (hdrBytes h body).length = hdrMarshalSize h := by
  obtain ⟨r1, r2, r3, r4⟩ := round4_facts body.length
  cases hx : h.extension with
  | false => simp [hdrBytes, hx, hdrMarshalSize, fixedBytes_length]
  | true =>
    simp only [hdrBytes, hx, ↓reduceIte, List.length_append, fixedBytes_length, extBytes_length, hdrMarshalSize, ← hbl hx, r4]

theorem hdrMarshalTo_zeros (h : Header) (N : Nat) (body : Bytes)
    (hb : h.extension = true → extBodyBytes h = .ok body ∧ body.length = extBodySize h) (hN : hdrMarshalSize h ≤ N) :
    hdrMarshalTo h (rep N 0) = .ok (hdrBytes h body ++ rep (N - hdrMarshalSize h) 0, hdrMarshalSize h) := by
  cases hx : h.extension with
  | false => simp [hdrBytes, hx, hdrMarshalTo_zeros_noext h N hx hN]
  | true =>
    obtain ⟨h1, h2⟩ := hb hx
    simp [hdrBytes, hx, hdrMarshalTo_zeros_ext h N body hx h1 h2 hN]

/-- the RTP padding as MarshalTo leaves it in a zero buffer -/
def padBytes (p : Packet) : Bytes :=
  if p.header.padding then rep (p.paddingSize.toNat - 1) 0 ++ [p.paddingSize] else []

theorem pktMarshal_bytes (p : Packet) (body : Bytes)
    (hb : p.header.extension = true → extBodyBytes p.header = .ok body ∧ body.length = extBodySize p.header)
    (hp1 : p.header.padding = true → 1 ≤ p.paddingSize.toNat)
    (hp0 : p.header.padding = false → p.paddingSize = 0) :
    pktMarshal p = .ok (hdrBytes p.header body ++ p.payload ++ padBytes p) := by
  have hH := hdrBytes_length p.header body (fun hx => (hb hx).2)
  have hinv : (p.header.padding && p.paddingSize == 0) = false := by
    cases hpad : p.header.padding with
    | false => rfl
    | true =>
      have := hp1 hpad
      have : (p.paddingSize == 0) = false := by
        rw [Bool.eq_false_iff]; intro h0; simp at h0; rw [h0] at this; simp at this
      simp [this]
  simp only [pktMarshal, pktMarshalTo, hinv, Bool.false_eq_true, ↓reduceIte,
    hdrMarshalTo_zeros p.header (pktMarshalSize p) body hb (by simp [pktMarshalSize]; omega)]
  have hgt : ¬ (hdrMarshalSize p.header + p.payload.length + p.paddingSize.toNat >
      (rep (pktMarshalSize p) 0).length) := by simp [rep_length, pktMarshalSize]
  simp only [hgt, ↓reduceIte]
  have e1 : pktMarshalSize p - hdrMarshalSize p.header = p.payload.length + p.paddingSize.toNat := by
    simp [pktMarshalSize]; omega
  have d1 := writeAt_zeros (hdrBytes p.header body) p.payload (p.payload.length + p.paddingSize.toNat)
    (hdrMarshalSize p.header) hH.symm (by omega)
  rw [e1, d1]
  have e2 : p.payload.length + p.paddingSize.toNat - p.payload.length = p.paddingSize.toNat := by omega
  rw [e2]
  cases hpad : p.header.padding with
  | false =>
    have := hp0 hpad
    simp only [padBytes, hpad, this, rep, Bool.false_eq_true, ↓reduceIte, List.append_nil, UInt8.toNat_zero, List.replicate_zero, Nat.add_zero]
    congr 1
    apply List.take_of_length_le
    simp [hH]
  | true =>
    have h1 := hp1 hpad
    have d2 := writeAt_mid' (hdrBytes p.header body ++ p.payload) (rep p.paddingSize.toNat 0) []
      (rep (p.paddingSize.toNat - 1) 0 ++ [p.paddingSize]) (hdrMarshalSize p.header + p.payload.length)
      (by simp [hH]) (by simp [rep_length]; omega)
    simp only [List.append_nil] at d2
    simp only [↓reduceIte, d2, padBytes, hpad]
    congr 1
    apply List.take_of_length_le
    simp [hH, rep_length]; omega
end Rtp.Proofs.Wire
