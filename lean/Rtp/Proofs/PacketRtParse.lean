/-
  Rtp/Proofs/PacketRtParse.lean — parse-of-serialise for the RFC 8285 element lists
  (DESIGN §6 C01 step 3): the parser walks the serialised elements back, whatever zero padding
  follows them.
-/
import Rtp.Proofs.PacketRtBits
import Rtp.Pred.C01
namespace Rtp.Proofs.PacketRt
open Rtp Rtp.Model

/-! ### one-byte profile -/

theorem parseOneByte_zeros (k : Nat) : parseOneByte (rep k 0) = .ok ([], 0) := by
  induction k with
  | zero => simp [rep, parseOneByte]
  | succ k ih =>
    have : rep (k + 1) 0 = 0 :: rep k 0 := by simp [rep, List.replicate_succ]
    rw [this, parseOneByte]; simpa using ih

def oneByteLegal (e : Ext) : Prop :=
  1 ≤ e.id.toNat ∧ e.id.toNat ≤ 14 ∧ 1 ≤ e.payload.length ∧ e.payload.length ≤ 16

/-- one serialised element in front of anything -/
theorem parseOneByte_elem (e : Ext) (he : oneByteLegal e) (l : Bytes) :
    parseOneByte ((oneByteHdr e.id e.payload.length :: e.payload) ++ l) =
      match parseOneByte l with
      | .ok (es, left) => .ok (e :: es, left)
      | .err k => .err k
      | .panic => .panic := by
  obtain ⟨h1, h2, h3, h4⟩ := he
  obtain ⟨hb, hid, h15, hlen⟩ := oneByteHdr_fields e.id e.payload.length h1 h2 h3 h4
  rw [List.cons_append, parseOneByte]
  have hb' : (oneByteHdr e.id e.payload.length == 0) = false := by simpa using hb
  have h15' : (e.id == 15) = false := by
    have : e.id ≠ 15 := by intro h0; rw [h0] at h2; simp at h2
    simpa using this
  simp only [hb', Bool.false_eq_true, if_false, h15', hlen, hid, List.length_append,
    List.take_left', List.drop_left']
  rw [if_neg (by omega)]
  rfl

theorem parseOneByte_body (es : List Ext) (hes : ∀ e ∈ es, oneByteLegal e) (k : Nat) :
    parseOneByte ((es.map fun e => (oneByteHdr e.id e.payload.length :: e.payload)).flatten ++ rep k 0)
      = .ok (es, 0) := by
  induction es with
  | nil => simpa using parseOneByte_zeros k
  | cons e es ih =>
    simp only [List.map_cons, List.flatten_cons, List.append_assoc]
    rw [parseOneByte_elem e (hes e (by simp)), ih (fun e' h' => hes e' (by simp [h']))]

/-! ### two-byte profile -/

theorem parseTwoByte_zeros (k : Nat) : parseTwoByte (rep k 0) = .ok [] := by
  induction k with
  | zero => simp [rep, parseTwoByte]
  | succ k ih =>
    have : rep (k + 1) 0 = 0 :: rep k 0 := by simp [rep, List.replicate_succ]
    rw [this, parseTwoByte.eq_def]; simpa using ih

def twoByteLegal (e : Ext) : Prop := 1 ≤ e.id.toNat ∧ e.payload.length ≤ 255

theorem parseTwoByte_elem (e : Ext) (he : twoByteLegal e) (l : Bytes) :
    parseTwoByte ((e.id :: e.payload.length.toUInt8 :: e.payload) ++ l) =
      match parseTwoByte l with
      | .ok es => .ok (e :: es)
      | .err k => .err k
      | .panic => .panic := by
  obtain ⟨h1, h2⟩ := he
  have hb : (e.id == 0) = false := by
    have : e.id ≠ 0 := by intro h0; rw [h0] at h1; simp at h1
    simpa using this
  rw [List.cons_append, List.cons_append, parseTwoByte.eq_def]
  simp only [hb, Bool.false_eq_true, if_false, lenByte_roundtrip _ h2, List.length_append,
    List.take_left', List.drop_left']
  rw [if_neg (by omega)]
  rfl

theorem parseTwoByte_body (es : List Ext) (hes : ∀ e ∈ es, twoByteLegal e) (k : Nat) :
    parseTwoByte ((es.map fun e => (e.id :: e.payload.length.toUInt8 :: e.payload)).flatten ++ rep k 0)
      = .ok es := by
  induction es with
  | nil => simpa using parseTwoByte_zeros k
  | cons e es ih =>
    simp only [List.map_cons, List.flatten_cons, List.append_assoc]
    rw [parseTwoByte_elem e (hes e (by simp)), ih (fun e' h' => hes e' (by simp [h']))]

/-! ### the extension block of a well-formed header -/

open Rtp.Pred.C01 in
/-- the block `Header.Marshal` writes (elements and zero padding) parses back to the element
    list, all of it consumed — for each of the three profiles -/
theorem parseExtBlock_wire (h : Header) (hwf : wfH h = true) (hx : h.extension = true) (body : Bytes)
    (hb : extBodyBytes h = .ok body) :
    parseExtBlock h.extProfile (body ++ rep (round4 body.length - body.length) 0)
      = .ok (h.exts, round4 body.length) := by
  have hge : body.length ≤ round4 body.length := by unfold round4; omega
  have hlen : (body ++ rep (round4 body.length - body.length) 0).length = round4 body.length := by
    simp [rep]; omega
  simp only [wfH, extsLegal, hx, Bool.not_true, Bool.false_eq_true, if_false, Bool.and_eq_true,
    decide_eq_true_eq] at hwf
  obtain ⟨⟨⟨_, _⟩, hl⟩, _⟩ := hwf
  unfold extBodyBytes at hb
  unfold parseExtBlock
  by_cases h1 : (h.extProfile == profileOneByte) = true
  · rw [if_pos h1] at hb hl ⊢
    injection hb with hb
    subst hb
    rw [parseOneByte_body h.exts _ _]
    · simp only [hlen]; rfl
    · intro e he
      have := List.all_eq_true.mp hl e he
      simp only [Bool.and_eq_true, decide_eq_true_eq] at this
      exact ⟨this.1.1.1, this.1.1.2, this.1.2, this.2⟩
  · rw [if_neg h1] at hb hl ⊢
    by_cases h2 : (h.extProfile == profileTwoByte) = true
    · rw [if_pos h2] at hb hl ⊢
      injection hb with hb
      subst hb
      rw [parseTwoByte_body h.exts _ _]
      · simp only [hlen]
      · intro e he
        have := List.all_eq_true.mp hl e he
        simp only [Bool.and_eq_true, decide_eq_true_eq] at this
        exact ⟨this.1, this.2⟩
    · rw [if_neg h2] at hb hl ⊢
      split at hl
      · next e heq =>
        simp only [Bool.and_eq_true, beq_iff_eq] at hl
        rw [heq] at hb ⊢
        have h4 : (e.payload.length % 4 != 0) = false := by simp [hl.2]
        simp only [h4, Bool.false_eq_true, if_false] at hb
        injection hb with hb
        subst hb
        have hr : round4 e.payload.length = e.payload.length := by unfold round4; omega
        simp only [hr, Nat.sub_self, rep, List.replicate_zero, List.append_nil]
        have : ({ id := 0, payload := e.payload } : Ext) = e := by
          cases e; simp_all
        rw [this]
      · cases hl

end Rtp.Proofs.PacketRt
