/-
  Rtp/Proofs/VLADec.lean — the shape of everything Unmarshal accepts: stream count 1–4, layers in
  strictly ascending (stream, spatial id) order with ids in range, 1–4 temporal layers each,
  resolution fields in their representable range (or zero when absent).  Hence a decoded
  allocation passes Marshal's validation again as soon as its RID is below the stream count.
-/
import Rtp.Proofs.VLA
import Rtp.Proofs.VLABuf
set_option linter.unusedSimpArgs false
namespace Rtp.Model.Vla
open Rtp Rtp.Spec.VlaSpec

/-- what every successful Unmarshal leaves in the receiver -/
def Decoded (v : VLA) : Prop :=
  1 ≤ v.count ∧ v.count ≤ 4 ∧ 0 ≤ v.rid ∧ v.rid ≤ 3 ∧
  v.layers.Pairwise Layer.before ∧
  (∀ l ∈ v.layers, LayerOk v.count l) ∧
  (v.hasRes = true → ∀ l ∈ v.layers, l.ResWF) ∧
  (v.hasRes = false → ∀ l ∈ v.layers, l.width = 0 ∧ l.height = 0 ∧ l.fps = 0)

def slotOf (l : Layer) : Int × Int := (l.stream, l.spatial)
def castSlot (p : Nat × Nat) : Int × Int := ((p.1 : Int), (p.2 : Int))

/-- a layer as the #tl loop creates it -/
def Fresh (l : Layer) : Prop :=
  1 ≤ l.rates.length ∧ l.rates.length ≤ 4 ∧ l.width = 0 ∧ l.height = 0 ∧ l.fps = 0

theorem and3_le (x : UInt8) : (x &&& 3).toNat ≤ 3 := by
  rw [UInt8.toNat_and]; exact Nat.and_le_right

/-! ### the slot enumeration is sorted and in range -/

theorem activeSlots_mem (count : Nat) (masks : List UInt8) (p : Nat × Nat)
    (h : p ∈ activeSlots count masks) : p.1 < count ∧ p.2 < 4 := by
  unfold activeSlots at h
  obtain ⟨s, hs, hp⟩ := List.mem_flatMap.mp h
  obtain ⟨k, hk, hf⟩ := List.mem_filterMap.mp hp
  split at hf
  · cases hf
  · cases hf
    exact ⟨List.mem_range.mp hs, List.mem_range.mp hk⟩

theorem activeSlots_sorted (count : Nat) (masks : List UInt8) :
    (activeSlots count masks).Pairwise (fun a b => a.1 < b.1 ∨ (a.1 = b.1 ∧ a.2 < b.2)) := by
  unfold activeSlots
  rw [List.pairwise_flatMap]
  refine ⟨?_, ?_⟩
  · intro s _
    apply List.Pairwise.filterMap _ _ (List.pairwise_lt_range (n := 4))
    intro k k' hkk b hb b' hb'
    split at hb
    · cases hb
    · split at hb'
      · cases hb'
      · cases hb; cases hb'
        right; exact ⟨rfl, hkk⟩
  · apply List.Pairwise.imp _ (List.pairwise_lt_range (n := count))
    intro s s' hss x hx y hy
    obtain ⟨k, _, hf⟩ := List.mem_filterMap.mp hx
    obtain ⟨k', _, hf'⟩ := List.mem_filterMap.mp hy
    split at hf
    · cases hf
    · split at hf'
      · cases hf'
      · cases hf; cases hf'
        left; exact hss

/-! ### stage by stage -/

theorem rdTl_shape (bs : Bytes) (slots : List (Nat × Nat)) :
    ∀ (idx off : Nat) (acc : List Layer) (o : Nat) (ls : List Layer),
      rdTl bs slots idx off acc = .ok o ls → (∀ l ∈ acc, Fresh l) →
      ls.map slotOf = acc.map slotOf ++ slots.map castSlot ∧ ∀ l ∈ ls, Fresh l := by
  induction slots with
  | nil =>
    intro idx off acc o ls h hacc
    simp only [rdTl, TlRes.ok.injEq] at h
    obtain ⟨_, rfl⟩ := h
    exact ⟨by simp, hacc⟩
  | cons p rest ih =>
    obtain ⟨s, k⟩ := p
    intro idx off acc o ls h hacc
    unfold rdTl at h
    dsimp only at h
    have fresh : ∀ x : UInt8, Fresh
        { stream := (s : Int), spatial := (k : Int), rates := List.replicate ((x &&& 3).toNat + 1) 0,
          width := 0, height := 0, fps := 0 } := by
      intro x
      have := and3_le x
      exact ⟨by simp, by simp only [List.length_replicate]; omega, rfl, rfl, rfl⟩
    split at h
    · split at h
      · cases h
      · split at h
        · cases h
        · obtain ⟨h1, h2⟩ := ih _ _ _ _ _ h (by
            intro l hl
            rcases List.mem_append.mp hl with hl | hl
            · exact hacc l hl
            · simp only [List.mem_singleton] at hl; subst hl; exact fresh _)
          refine ⟨?_, h2⟩
          rw [h1]; simp [slotOf, castSlot]
    · split at h
      · cases h
      · obtain ⟨h1, h2⟩ := ih _ _ _ _ _ h (by
          intro l hl
          rcases List.mem_append.mp hl with hl | hl
          · exact hacc l hl
          · simp only [List.mem_singleton] at hl; subst hl; exact fresh _)
        refine ⟨?_, h2⟩
        rw [h1]; simp [slotOf, castSlot]

theorem rdRates_length (bs : Bytes) (todo : List Int) :
    ∀ (off o : Nat) (ks : List Int), rdRates bs todo off = .ok o ks → ks.length = todo.length := by
  induction todo with
  | nil => intro off o ks h; simp only [rdRates, RtRes.ok.injEq] at h; rw [← h.2]
  | cons t todo ih =>
    intro off o ks h
    unfold rdRates at h
    split at h
    · cases h
    · split at h
      · cases h
      · split at h
        · cases h
        · split at h
          · rename_i o' ks' heq
            simp only [RtRes.ok.injEq] at h
            rw [← h.2]
            simp [ih _ _ _ heq]
          · cases h
          · cases h

theorem rdLayerRates_shape (bs : Bytes) (ls : List Layer) :
    ∀ (off o : Nat) (ls' : List Layer), rdLayerRates bs ls off = .ok o ls' → (∀ l ∈ ls, Fresh l) →
      ls'.map slotOf = ls.map slotOf ∧ ∀ l ∈ ls', Fresh l := by
  induction ls with
  | nil =>
    intro off o ls' h _
    simp only [rdLayerRates, RtRes.ok.injEq] at h
    rw [← h.2]; simp
  | cons l rest ih =>
    intro off o ls' h hf
    unfold rdLayerRates at h
    split at h
    · rename_i off' ks hk
      split at h
      · rename_i off'' ls'' hrest
        simp only [RtRes.ok.injEq] at h
        obtain ⟨h1, h2⟩ := ih _ _ _ hrest (fun x hx => hf x (by simp [hx]))
        rw [← h.2]
        have hlen := rdRates_length _ _ _ _ _ hk
        have hl := hf l (by simp)
        refine ⟨by simp [slotOf, h1], ?_⟩
        intro x hx
        rcases List.mem_cons.mp hx with rfl | hx
        · unfold Fresh at hl ⊢; simp only [hlen]; exact hl
        · exact h2 x hx
      · cases h
      · cases h
    · cases h
    · cases h

theorem rdRes_shape (bs : Bytes) (ls : List Layer) :
    ∀ (off o : Nat) (ls' : List Layer), rdRes bs ls off = some (o, ls') → (∀ l ∈ ls, Fresh l) →
      ls'.map slotOf = ls.map slotOf ∧
      ∀ l ∈ ls', 1 ≤ l.rates.length ∧ l.rates.length ≤ 4 ∧ l.ResWF := by
  induction ls with
  | nil =>
    intro off o ls' h _
    simp only [rdRes, Option.some.injEq, Prod.mk.injEq] at h
    rw [← h.2]; simp
  | cons l rest ih =>
    intro off o ls' h hf
    unfold rdRes at h
    split at h
    · cases h
    · split at h
      · cases h
      · rename_i off' ls'' hrest
        simp only [Option.some.injEq, Prod.mk.injEq] at h
        obtain ⟨h1, h2⟩ := ih _ _ _ hrest (fun x hx => hf x (by simp [hx]))
        have hl := hf l (by simp)
        rw [← h.2]
        refine ⟨by simp [slotOf, h1], ?_⟩
        intro x hx
        rcases List.mem_cons.mp hx with rfl | hx
        · unfold Fresh at hl
          refine ⟨hl.1, hl.2.1, ?_⟩
          unfold Layer.ResWF
          simp only
          have a := (rd16 (at' bs off) (at' bs (off + 1))).toNat_lt
          have b := (rd16 (at' bs (off + 2)) (at' bs (off + 3))).toNat_lt
          have c := (at' bs (off + 4)).toNat_lt
          omega
        · exact h2 x hx

/-! ### the whole decoder -/

theorem sorted_of_slots (ls : List Layer) (count : Nat) (masks : List UInt8)
    (h : ls.map slotOf = (activeSlots count masks).map castSlot) :
    ls.Pairwise Layer.before ∧ ∀ l ∈ ls, 0 ≤ l.stream ∧ l.stream < count ∧ 0 ≤ l.spatial ∧ l.spatial < 4 := by
  constructor
  · have h1 : (ls.map slotOf).Pairwise (fun a b => a.1 < b.1 ∨ (a.1 = b.1 ∧ a.2 < b.2)) := by
      rw [h, List.pairwise_map]
      apply List.Pairwise.imp _ (activeSlots_sorted count masks)
      intro a b hab
      simp only [castSlot]
      omega
    rw [List.pairwise_map] at h1
    exact h1
  · intro l hl
    have : slotOf l ∈ (activeSlots count masks).map castSlot := by
      rw [← h]; exact List.mem_map_of_mem hl
    obtain ⟨p, hp, he⟩ := List.mem_map.mp this
    have := activeSlots_mem count masks p hp
    simp only [castSlot, slotOf, Prod.mk.injEq] at he
    omega

theorem unmarshalTail_decoded (bs : Bytes) (rid count : Nat) (masks : List UInt8) (off n : Nat) (v : VLA)
    (hr : rid ≤ 3) (hc : 1 ≤ count ∧ count ≤ 4)
    (h : unmarshalTail bs rid count masks off = .ok n v) : Decoded v := by
  unfold unmarshalTail at h
  split at h
  · cases h
  · split at h
    · cases h
    · cases h
    · rename_i o1 ls1 htl
      obtain ⟨t1, t2⟩ := rdTl_shape _ _ _ _ _ _ _ htl (by simp)
      simp only [List.map_nil, List.nil_append] at t1
      split at h
      · cases h
      · cases h
      · rename_i o2 ls2 hrt
        obtain ⟨r1, r2⟩ := rdLayerRates_shape _ _ _ _ _ hrt t2
        split at h
        · -- no resolution block
          simp only [DRes.ok.injEq] at h
          obtain ⟨_, rfl⟩ := h
          obtain ⟨s1, s2⟩ := sorted_of_slots ls2 count masks (by rw [r1, t1])
          refine ⟨by simp; omega, by simp; omega, by simp, by simp; omega, s1, ?_, by simp, ?_⟩
          · intro l hl
            have a := s2 l hl; have b := r2 l hl
            unfold Fresh at b; unfold LayerOk
            simp only; omega
          · intro _ l hl
            have b := r2 l hl
            unfold Fresh at b
            exact ⟨b.2.2.1, b.2.2.2.1, b.2.2.2.2⟩
        · split at h
          · cases h
          · split at h
            · cases h
            · rename_i o3 ls3 hres
              obtain ⟨q1, q2⟩ := rdRes_shape _ _ _ _ _ hres r2
              simp only [DRes.ok.injEq] at h
              obtain ⟨_, rfl⟩ := h
              obtain ⟨s1, s2⟩ := sorted_of_slots ls3 count masks (by rw [q1, r1, t1])
              refine ⟨by simp; omega, by simp; omega, by simp, by simp; omega, s1, ?_, ?_, by simp⟩
              · intro l hl
                have a := s2 l hl; have b := q2 l hl
                unfold LayerOk
                simp only; omega
              · intro _ l hl
                exact (q2 l hl).2.2

theorem unmarshal_decoded (r : VLA) (bs : Bytes) (n : Nat) (v : VLA) (h : unmarshal r bs = .ok n v) :
    Decoded v := by
  unfold unmarshal at h
  split at h
  · cases h
  · split at h
    · cases h
    · have hr : ((at' bs 0 >>> 6) &&& 3).toNat ≤ 3 := and3_le _
      have hc : ((at' bs 0 >>> 4) &&& 3).toNat ≤ 3 := and3_le _
      dsimp only at h
      split at h
      · exact unmarshalTail_decoded _ _ _ _ _ _ _ hr (by omega) h
      · split at h
        · cases h
        · split at h
          · cases h
          · exact unmarshalTail_decoded _ _ _ _ _ _ _ hr (by omega) h

/-- whatever Unmarshal accepted passes Marshal's validation again once its RID is below the count -/
theorem decoded_marshals (v : VLA) (hd : Decoded v) (hr : v.rid < v.count) : ∃ b, marshalGo v = .ok b := by
  obtain ⟨hc1, hc4, hr0, _, hs, hw, _, _⟩ := hd
  rw [marshalGo_eq_marshal]
  apply marshal_ok_of_valid v ⟨hc1, hc4⟩ ⟨hr0, hr⟩
  rw [preprocess_none_iff]
  refine ⟨fun l hl => ⟨hw l hl, by simp⟩, ?_⟩
  apply List.Pairwise.imp _ hs
  intro a b hab hsame
  unfold Layer.before at hab; unfold SameSlot at hsame
  omega

/-! ### the length check after ReadLeb128 is dead code -/

theorem readLebGoLoop_le (bs : Bytes) : ∀ (acc : UInt64) (i : Nat) (v : UInt64) (n : Nat),
    readLebGoLoop bs acc i = some (v, n) → n ≤ i + bs.length := by
  induction bs with
  | nil => intro acc i v n h; simp [readLebGoLoop] at h
  | cons b rest ih =>
    intro acc i v n h
    unfold readLebGoLoop at h
    dsimp only at h
    split at h
    · simp only [Option.some.injEq, Prod.mk.injEq] at h
      simp only [List.length_cons]; omega
    · have := ih _ _ _ _ h
      simp only [List.length_cons]; omega

theorem readLebGo_le (bs : Bytes) (v : UInt64) (n : Nat) (h : readLebGo bs = some (v, n)) :
    n ≤ bs.length := by
  have := readLebGoLoop_le bs 0 0 v n h
  omega

/-- `if !ctx.checkRemainingLen(in)` after ReadLeb128 (vlaextension.go:299) can never fire:
    ReadLeb128 does not report more bytes than the slice it was given -/
theorem rdRates_never_tooShort (bs : Bytes) (todo : List Int) :
    ∀ (off o : Nat), off ≤ bs.length → rdRates bs todo off ≠ .fail o .tooShort := by
  induction todo with
  | nil => intro off o _ h; simp [rdRates] at h
  | cons t todo ih =>
    intro off o hoff h
    unfold rdRates at h
    have h1 : ¬ off > bs.length := by omega
    simp only [h1, if_false] at h
    split at h
    · cases h
    · rename_i kbps n hr
      have hn := readLebGo_le _ _ _ hr
      simp only [List.length_drop] at hn
      have h2 : off + n ≤ bs.length := by omega
      simp only [h2, not_true_eq_false, if_false] at h
      split at h
      · cases h
      · rename_i o' e heq
        simp only [RtRes.fail.injEq] at h
        obtain ⟨rfl, rfl⟩ := h
        exact ih (off + n) o' h2 heq
      · cases h

end Rtp.Model.Vla
