/-
  Rtp/Proofs/ProvAudio.lean — the provenance-level G711/G722/Opus payloaders
  (Rtp/Model/ProvAudio.lean): forgetting origins gives Model/Audio.lean, and every fragment is
  `fresh` when the step copies.
-/
import Rtp.Model.ProvAudio
import Rtp.Proofs.Prov
namespace Rtp.Proofs.ProvAudio
open Rtp Rtp.Model Rtp.Model.Prov Rtp.Model.ProvAudio Rtp.Proofs.Prov

theorem forget_pSplitGt (keep : PBytes → PBytes) (hk : ∀ x, (keep x).bytes = x.bytes) (k : Nat)
    (h0 : 0 < k) (l : PBytes) : forgetAll (pSplitGt keep k h0 l) = splitGt k h0 l.bytes := by
  fun_induction pSplitGt keep k h0 l with
  | case1 l h ih =>
    rw [splitGt, dif_pos h]
    simp [hk, ih]
  | case2 l h =>
    rw [splitGt, dif_neg h]
    simp [hk]

theorem owned_pSplitGt (keep : PBytes → PBytes) (hk : ∀ x, (keep x).origin = .fresh) (k : Nat)
    (h0 : 0 < k) (l : PBytes) : AllOwned (pSplitGt keep k h0 l) := by
  fun_induction pSplitGt keep k h0 l with
  | case1 l h ih => simp [hk, ih]
  | case2 l h => simp [hk]

/-- with `keep = id` every fragment has the argument's origin -/
theorem origin_pSplitGt_id (k : Nat) (h0 : 0 < k) (l : PBytes) :
    ∀ x ∈ pSplitGt id k h0 l, x.origin = l.origin := by
  fun_induction pSplitGt id k h0 l with
  | case1 l h ih =>
    intro x hx
    simp only [List.mem_cons] at hx
    rcases hx with rfl | hx
    · rfl
    · exact ih x hx
  | case2 l h => simp

theorem forget_pG711PayloadG (keep : PBytes → PBytes) (hk : ∀ x, (keep x).bytes = x.bytes)
    (mtu : UInt16) (i : Nat) (payload : Option Bytes) :
    forgetAll (pG711PayloadG keep mtu i payload) = g711Payload mtu payload := by
  unfold pG711PayloadG g711Payload
  cases payload with
  | none => rfl
  | some p =>
    dsimp only
    split
    · rfl
    · exact forget_pSplitGt keep hk _ _ _

theorem owned_pG711PayloadG (keep : PBytes → PBytes) (hk : ∀ x, (keep x).origin = .fresh)
    (mtu : UInt16) (i : Nat) (payload : Option Bytes) :
    AllOwned (pG711PayloadG keep mtu i payload) := by
  unfold pG711PayloadG
  cases payload with
  | none => simp
  | some p =>
    dsimp only
    split
    · simp
    · exact owned_pSplitGt keep hk _ _ _

theorem forget_pOpusPayloadG (keep : PBytes → PBytes) (hk : ∀ x, (keep x).bytes = x.bytes)
    (mtu : UInt16) (i : Nat) (payload : Option Bytes) :
    forgetAll (pOpusPayloadG keep mtu i payload) = opusPayload mtu payload := by
  cases payload <;> simp [pOpusPayloadG, opusPayload, hk]

theorem owned_pOpusPayloadG (keep : PBytes → PBytes) (hk : ∀ x, (keep x).origin = .fresh)
    (mtu : UInt16) (i : Nat) (payload : Option Bytes) :
    AllOwned (pOpusPayloadG keep mtu i payload) := by
  cases payload <;> simp [pOpusPayloadG, hk]

/-! ### histories of a payloader without state -/

theorem forget_pHistStateless (f : UInt16 → Nat → Option Bytes → List PBytes)
    (g : UInt16 → Option Bytes → List Bytes) (h : ∀ m i inp, forgetAll (f m i inp) = g m inp)
    (i : Nat) (calls : List (UInt16 × Option Bytes)) :
    (pHistStateless f i calls).map forgetAll = calls.map (fun c => g c.1 c.2) := by
  induction calls generalizing i with
  | nil => rfl
  | cons c cs ih =>
    obtain ⟨m, inp⟩ := c
    simp only [pHistStateless, List.map_cons, h, ih]

theorem owned_pHistStateless (f : UInt16 → Nat → Option Bytes → List PBytes)
    (h : ∀ m i inp, AllOwned (f m i inp)) (i : Nat) (calls : List (UInt16 × Option Bytes)) :
    ∀ o ∈ pHistStateless f i calls, AllOwned o := by
  induction calls generalizing i with
  | nil => simp [pHistStateless]
  | cons c cs ih =>
    obtain ⟨m, inp⟩ := c
    simp only [pHistStateless, List.mem_cons, forall_eq_or_imp]
    exact ⟨h m i inp, ih _⟩

end Rtp.Proofs.ProvAudio
