/-
  Rtp/Proofs/HeaderExt.lean — the accessors of Rtp/Model/HeaderExt.lean refine Rtp/Spec/OrderedMap.lean.
-/
import Rtp.Model.HeaderExt
import Rtp.Pred.C05
namespace Rtp.Proofs.HeaderExt
open Rtp Rtp.Model Rtp.Pred.C05
open Rtp.Spec.OrderedMap (Map Op)
namespace OM
export Rtp.Spec.OrderedMap (keys get set del has apply accepts selectProfile State reads trace oneByte twoByte)
end OM

/-! ### element lists vs. association lists -/

theorem keys_map (es : List Ext) : OM.keys (es.map toPair) = es.map (·.id) := by
  simp [OM.keys, toPair, Function.comp_def]

theorem get_map (es : List Ext) (id : UInt8) :
    OM.get (es.map toPair) id = (es.find? (·.id == id)).map (·.payload) := by
  induction es with
  | nil => rfl
  | cons e es ih =>
    simp only [List.map_cons, toPair, OM.get, List.find?_cons]
    cases h : e.id == id <;> simp
    · simpa [toPair] using ih

theorem set_map (es : List Ext) (id : UInt8) (v : Bytes) :
    OM.set (es.map toPair) id v = (upsertExt es id v).map toPair := by
  induction es with
  | nil => rfl
  | cons e es ih =>
    simp only [List.map_cons, toPair, OM.set, upsertExt]
    cases h : e.id == id <;> simp [toPair]
    · simpa [toPair] using ih

theorem erase_none (es : List Ext) (id : UInt8) :
    eraseExt es id = none ↔ OM.has (es.map toPair) id = false := by
  induction es with
  | nil => simp [eraseExt, OM.has, OM.keys]
  | cons e es ih =>
    simp only [eraseExt, List.map_cons, OM.has, OM.keys, toPair, List.contains_cons]
    have hsym : (id == e.id) = (e.id == id) := by
      rw [Bool.eq_iff_iff]; simp only [beq_iff_eq]; exact eq_comm
    cases h : e.id == id
    · simp only [Bool.false_eq_true, if_false, Option.map_eq_none_iff, hsym, h, Bool.false_or]
      simpa [OM.has, OM.keys, toPair] using ih
    · simp [hsym, h]

theorem erase_some (es es' : List Ext) (id : UInt8) (h : eraseExt es id = some es') :
    es'.map toPair = OM.del (es.map toPair) id := by
  induction es generalizing es' with
  | nil => simp [eraseExt] at h
  | cons e es ih =>
    simp only [eraseExt] at h
    simp only [List.map_cons, toPair, OM.del]
    cases hc : e.id == id
    · simp only [hc, Bool.false_eq_true, if_false, Option.map_eq_some_iff] at h
      obtain ⟨r, hr, rfl⟩ := h
      simp only [Bool.false_eq_true, if_false, List.map_cons, toPair]
      congr 1
      exact ih r hr
    · simp only [hc, if_true, Option.some.injEq] at h
      subst h
      simp

/-! ### acceptance table -/

theorem validate_accepts (p : UInt16) (id : UInt8) (len : Nat) :
    (validateExt p id len).isNone = OM.accepts p id len := by
  unfold validateExt Spec.OrderedMap.accepts
  have e1 : (p == profileOneByte) = (p == OM.oneByte) := rfl
  have e2 : (p == profileTwoByte) = (p == OM.twoByte) := rfl
  rw [e1, e2]
  have hlt1 : (id < 1) = (id.toNat < 1) := by simp [UInt8.lt_iff_toNat_lt]
  have hgt : (id > 14) = (14 < id.toNat) := by simp [UInt8.lt_iff_toNat_lt]
  split
  · by_cases a : id.toNat < 1 <;> by_cases b : 14 < id.toNat <;> by_cases c : len < 1 <;>
      by_cases d : len > 16 <;> simp [hlt1, hgt, a, b, c, d] <;> omega
  · split
    · by_cases a : id.toNat < 1 <;> by_cases d : len > 255 <;> simp [hlt1, a, d] <;> omega
    · by_cases a : id = 0 <;> simp [a]

/-! ### reads -/

theorem ids_view (h : Header) : getExtensionIDs h = OM.keys (view h) := by
  unfold getExtensionIDs view
  cases h.extension
  · rfl
  · simp only [Bool.not_true, Bool.false_eq_true, if_false, if_true, keys_map]

theorem get_view (h : Header) (id : UInt8) : getExtension h id = OM.get (view h) id := by
  unfold getExtension view
  cases h.extension
  · rfl
  · simp only [Bool.not_true, Bool.false_eq_true, if_false, if_true, get_map]

theorem readsOk_model (h : Header) (extra : List UInt8) :
    readsOk (view h) extra (modelReads h extra) = true := by
  simp only [readsOk, modelReads, ids_view, get_view, beq_self_eq_true, Bool.and_self]

/-! ### one operation -/

/-- c05_error_unchanged, SetExtension -/
theorem set_err_unchanged (h : Header) (id : UInt8) (v : Bytes) (e : Err) (h' : Header)
    (hs : setExtension h id v = (some e, h')) : h' = h := by
  unfold setExtension at hs
  simp only [] at hs
  split at hs
  · simp only [Prod.mk.injEq] at hs; exact hs.2.symm
  · split at hs <;> simp at hs

theorem del_err_unchanged (h : Header) (id : UInt8) (e : Err) (h' : Header)
    (hs : delExtension h id = (some e, h')) : h' = h := by
  unfold delExtension at hs
  split at hs
  · simp only [Prod.mk.injEq] at hs; exact hs.2.symm
  · split at hs
    · simp only [Prod.mk.injEq] at hs; exact hs.2.symm
    · simp at hs

theorem step_err_unchanged (h : Header) (op : Op) (e : Err) (h' : Header)
    (hs : modelStep h op = (some e, h')) : h' = h := by
  cases op with
  | set id v => exact set_err_unchanged h id v e h' hs
  | del id => exact del_err_unchanged h id e h' hs

/-- the profile SetExtension validates against -/
def setProfile (h : Header) (len : Nat) : UInt16 :=
  if h.extension then h.extProfile else OM.selectProfile h.extProfile len

theorem setExtension_eq (h : Header) (id : UInt8) (v : Bytes) :
    setExtension h id v =
      match validateExt (setProfile h v.length) id v.length with
      | some e => (some e, h)
      | none =>
        if !h.extension then
          (none, { h with extension := true, extProfile := setProfile h v.length,
                          exts := h.exts ++ [{ id := id, payload := v }] })
        else (none, { h with exts := upsertExt h.exts id v }) := by
  unfold setExtension setProfile Spec.OrderedMap.selectProfile
  rfl

/-- SetExtension refines `State.step (.set …)` -/
theorem set_refines (h : Header) (id : UInt8) (v : Bytes) (hg : noGhost h = true) :
    (setExtension h id v).1.isNone = ((abs h).step (.set id v)).1 ∧
    abs (setExtension h id v).2 = ((abs h).step (.set id v)).2 ∧
    noGhost (setExtension h id v).2 = true := by
  rw [setExtension_eq]
  simp only [Spec.OrderedMap.State.step, abs, setProfile, ← validate_accepts]
  by_cases hx : h.extension = true
  · simp only [hx, if_true, Bool.not_true, Bool.false_eq_true, if_false]
    cases hv : validateExt h.extProfile id v.length with
    | some e => simp [hx, hg]
    | none => simp [set_map, noGhost]
  · have hx' : h.extension = false := by simpa using hx
    have hn : h.exts = [] := by simpa [noGhost, hx'] using hg
    simp only [hx', Bool.false_eq_true, if_false, Bool.not_false, if_true]
    cases hv : validateExt (OM.selectProfile h.extProfile v.length) id v.length with
    | some e => simp [hx', hg]
    | none => simp [hn, toPair, OM.set, noGhost]

/-- DelExtension refines `State.step (.del …)` -/
theorem del_refines (h : Header) (id : UInt8) (hg : noGhost h = true) :
    (delExtension h id).1.isNone = ((abs h).step (.del id)).1 ∧
    abs (delExtension h id).2 = ((abs h).step (.del id)).2 ∧
    noGhost (delExtension h id).2 = true := by
  unfold delExtension
  simp only [Spec.OrderedMap.State.step, abs]
  by_cases hx : h.extension = true
  · simp only [hx, Bool.not_true, Bool.false_eq_true, if_false, Bool.true_and]
    cases he : eraseExt h.exts id with
    | none =>
      have := (erase_none h.exts id).mp he
      simp [this, hx, hg]
    | some es =>
      have hh : OM.has (h.exts.map toPair) id = true := by
        cases hc : OM.has (h.exts.map toPair) id
        · rw [(erase_none h.exts id).mpr hc] at he; cases he
        · rfl
      simp [hh, erase_some h.exts es id he, noGhost]
  · have hx' : h.extension = false := by simpa using hx
    simp [hx', hg]

theorem step_refines (h : Header) (op : Op) (hg : noGhost h = true) :
    (modelStep h op).1.isNone = ((abs h).step op).1 ∧
    abs (modelStep h op).2 = ((abs h).step op).2 ∧
    noGhost (modelStep h op).2 = true := by
  cases op with
  | set id v => exact set_refines h id v hg
  | del id => exact del_refines h id hg

theorem view_abs (h : Header) : view h = (abs h).view := rfl

/-- in the specification an accepted operation changes the visible map by `apply` -/
theorem spec_step_view (s : OM.State) (op : Op) (hg : s.enabled = false → s.items = [])
    (hok : (s.step op).1 = true) : (s.step op).2.view = OM.apply s.view op := by
  obtain ⟨en, prof, items⟩ := s
  simp only at hg
  cases op with
  | set id v =>
    simp only [Spec.OrderedMap.State.step] at hok ⊢
    generalize (if en = true then prof else OM.selectProfile prof v.length) = p at hok ⊢
    by_cases ha : OM.accepts p id v.length = true
    · simp only [ha, if_true, Spec.OrderedMap.State.view, OM.apply]
      cases en
      · simp [hg rfl]
      · simp
    · simp [ha] at hok
  | del id =>
    simp only [Spec.OrderedMap.State.step] at hok ⊢
    by_cases hc : (en && OM.has items id) = true
    · simp only [hc, if_true, Spec.OrderedMap.State.view, OM.apply]
      simp only [Bool.and_eq_true] at hc
      simp [hc.1]
    · simp [hc] at hok

/-- an accepted operation changes the visible map exactly as the specification says -/
theorem step_view (h : Header) (op : Op) (hg : noGhost h = true)
    (hok : (modelStep h op).1 = none) : view (modelStep h op).2 = OM.apply (view h) op := by
  obtain ⟨h1, h2, _⟩ := step_refines h op hg
  rw [hok] at h1
  rw [view_abs, h2, view_abs]
  refine spec_step_view (abs h) op ?_ h1.symm
  intro hx
  simp only [abs] at hx ⊢
  simpa [noGhost, hx] using hg

/-! ### histories -/

theorem modelSteps_cons (h : Header) (op : Op) (ops : List Op) :
    modelSteps h (op :: ops) =
      ({ res := resOfErr (modelStep h op).1, reads := modelReads (modelStep h op).2 [op.id] } ::
        (modelSteps (modelStep h op).2 ops).1, (modelSteps (modelStep h op).2 ops).2) := rfl

/-- the model's history satisfies the fold of the predicate, and ends in the map the final
    header shows -/
theorem foldOk_model (ops : List Op) : ∀ (h : Header), noGhost h = true →
    foldOk (view h) (h.extension, h.extProfile) ops (modelSteps h ops).1 =
      some (view (modelSteps h ops).2) ∧
    noGhost (modelSteps h ops).2 = true := by
  induction ops with
  | nil => intro h hg; exact ⟨rfl, hg⟩
  | cons op ops ih =>
    intro h hg
    rw [modelSteps_cons]
    obtain ⟨_, _, hg'⟩ := step_refines h op hg
    obtain ⟨ih1, ih2⟩ := ih (modelStep h op).2 hg'
    refine ⟨?_, ih2⟩
    simp only [foldOk]
    cases he : (modelStep h op).1 with
    | none =>
      simp only [resOfErr]
      rw [← step_view h op hg he, readsOk_model]
      simpa [modelReads] using ih1
    | some e =>
      have hu : (modelStep h op).2 = h :=
        step_err_unchanged h op e _ (by rw [← he])
      simp only [resOfErr]
      rw [hu] at ih1 ⊢
      rw [readsOk_model]
      simpa [modelReads] using ih1

/-- what a successful fold says at the surface: one observation per operation, none of them a panic -/
theorem foldOk_shape (ops : List Op) : ∀ (m : Map) (prev : Bool × UInt16) (steps : List StepObs) (mf : Map),
    foldOk m prev ops steps = some mf → steps.length = ops.length ∧ ∀ s ∈ steps, s.res ≠ .panic := by
  induction ops with
  | nil =>
    intro m prev steps mf h
    cases steps with
    | nil => simp
    | cons s ss => simp [foldOk] at h
  | cons op ops ih =>
    intro m prev steps mf h
    cases steps with
    | nil => simp [foldOk] at h
    | cons s ss =>
      simp only [foldOk] at h
      cases hr : s.res with
      | panic => simp [hr] at h
      | ok u =>
        simp only [hr] at h
        split at h
        · obtain ⟨h1, h2⟩ := ih _ _ ss mf h
          refine ⟨by simp [h1], fun t ht => ?_⟩
          rcases List.mem_cons.mp ht with rfl | ht
          · simp [hr]
          · exact h2 t ht
        · simp at h
      | err e =>
        simp only [hr] at h
        split at h
        · obtain ⟨h1, h2⟩ := ih _ _ ss mf h
          refine ⟨by simp [h1], fun t ht => ?_⟩
          rcases List.mem_cons.mp ht with rfl | ht
          · simp [hr]
          · exact h2 t ht
        · simp at h

/-- the trace the model produces: per operation accepted?, ids, and GetExtension for every listed
    id and the operation's id (nil and empty distinguished) -/
def modelTrace (h : Header) : List Op → List (Bool × List UInt8 × List (UInt8 × Option Bytes))
  | [] => []
  | op :: ops =>
    let r := modelStep h op
    let ids := getExtensionIDs r.2
    (r.1.isNone, ids, (ids ++ [op.id]).map fun id => (id, getExtension r.2 id)) :: modelTrace r.2 ops

theorem trace_refines (ops : List Op) : ∀ (h : Header), noGhost h = true →
    modelTrace h ops = OM.trace (abs h) ops := by
  induction ops with
  | nil => intro h _; rfl
  | cons op ops ih =>
    intro h hg
    obtain ⟨h1, h2, hg'⟩ := step_refines h op hg
    simp only [modelTrace, Spec.OrderedMap.trace, ih (modelStep h op).2 hg', ← h2, ← h1, ← view_abs,
      Spec.OrderedMap.reads, ids_view, get_view]

end Rtp.Proofs.HeaderExt
