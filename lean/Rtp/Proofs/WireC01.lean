/-
  Rtp/Proofs/WireC01.lean — by-products for the neighbouring property C01 (owned by group corea):
  `Pred.C01.wfP ⊆ encodable`, and the packet round trip with the MarshalSize clause on the whole
  `encodable` class.  Not registered under C03; the integrator may use them to instantiate or
  cross-check c01_packet_roundtrip.
-/
import Rtp.Proofs.WireDecode
namespace Rtp.Proofs.Wire
open Rtp Rtp.Model Rtp.Spec.Wire
open Rtp.Pred.C01 (canonP canonH wfP wfH extsLegal)

/-- C01's domain (`Pred.C01.wfP`) lies inside `encodable` -/
theorem encodable_of_wfP (p : Packet) (h : wfP p = true) : encodable p = true := by
  simp only [wfP, wfH, Bool.and_eq_true, decide_eq_true_eq, beq_iff_eq] at h
  obtain ⟨⟨⟨⟨⟨hv, hpt⟩, hcc⟩, hleg⟩, hsz⟩, hpad⟩ := h
  rw [encodable_iff]
  simp only [hv, hpt, hcc, decide_true, Bool.true_and, Bool.and_eq_true]
  refine ⟨?_, ?_⟩
  · cases hp : p.header.padding with
    | false =>
      simp only [hp] at hpad
      have : ¬ 1 ≤ p.paddingSize.toNat := by simpa using hpad.symm
      have : p.paddingSize = 0 := UInt8.toNat_inj.mp (by simp; omega)
      simp [this]
    | true =>
      simp only [hp] at hpad
      have : 1 ≤ p.paddingSize.toNat := by simpa using hpad.symm
      simp [this]
  · simp only [extClause]
    simp only [extsLegal] at hleg
    cases hx : p.header.extension with
    | false => simpa [hx] using hleg
    | true =>
      simp only [hx, Bool.not_true, Bool.false_eq_true, ↓reduceIte] at hleg ⊢
      have hsz' : extBodySize p.header ≤ maxBody := by simpa [maxBody] using hsz
      by_cases h1 : p.header.extProfile == profileOneByte
      · simp only [h1, ↓reduceIte, Bool.and_eq_true, decide_eq_true_eq] at hleg ⊢
        refine ⟨?_, hsz'⟩
        rw [List.all_eq_true] at hleg ⊢
        intro e he
        have := hleg e he
        simp only [Bool.and_eq_true, decide_eq_true_eq] at this
        obtain ⟨⟨⟨a, b⟩, c⟩, d⟩ := this
        have hid : (e.id == 0) = false := by
          rw [Bool.eq_false_iff]; intro h0; simp at h0; rw [h0] at a; simp at a
        simp [extOk1, b, c, d, hid]
      · by_cases h2 : p.header.extProfile == profileTwoByte
        · simp only [h1, h2, ↓reduceIte, Bool.false_eq_true, Bool.and_eq_true, decide_eq_true_eq] at hleg ⊢
          refine ⟨?_, hsz'⟩
          rw [List.all_eq_true] at hleg ⊢
          intro e he
          have := hleg e he
          simp only [Bool.and_eq_true, decide_eq_true_eq] at this
          have hid : e.id ≠ 0 := by intro h0; rw [h0] at this; simp at this
          simp [extOk2, this.2, hid]
        · simp only [h1, h2, ↓reduceIte, Bool.false_eq_true] at hleg ⊢
          match hes : p.header.exts, hleg with
          | [e], hleg =>
            simp only [Bool.and_eq_true, beq_iff_eq] at hleg
            have : extBodySize p.header = e.payload.length := by simp [extBodySize, h1, h2, hes]
            simp [hleg.1, hleg.2]
            omega

theorem padBytes_length (p : Packet) (hp1 : p.header.padding = true → 1 ≤ p.paddingSize.toNat)
    (hp0 : p.header.padding = false → p.paddingSize = 0) : (padBytes p).length = p.paddingSize.toNat := by
  cases hp : p.header.padding with
  | false => simp [padBytes, hp, hp0 hp]
  | true => have := hp1 hp; simp [padBytes, hp, rep_length]; omega

/-- C01 (packet part) on the whole `encodable` class, hence on `Pred.C01.wfP`: Marshal succeeds with
    exactly MarshalSize bytes and Unmarshal of them, into any receiver, gives the packet back -/
theorem c01_packet_roundtrip_encodable (p : Packet) (h : encodable p = true) :
    ∃ bs, pktMarshal p = .ok bs ∧ bs.length = pktMarshalSize p ∧
      ∀ r, ∃ p', pktUnmarshal r bs = .ok p' ∧ canonP p' = canonP p := by
  have henc := pktMarshal_ofPacket p h
  refine ⟨_, henc, ?_, ?_⟩
  · have h' := h
    rw [encodable_iff] at h'
    simp only [Bool.and_eq_true, decide_eq_true_eq] at h'
    obtain ⟨⟨_, hpad⟩, hext⟩ := h'
    have hp1 : p.header.padding = true → 1 ≤ p.paddingSize.toNat := by intro hp; simpa [hp] using hpad
    have hp0 : p.header.padding = false → p.paddingSize = 0 := by intro hp; simpa [hp] using hpad
    cases hx : p.header.extension with
    | false =>
      have hb := pktMarshal_bytes p [] (by simp [hx]) hp1 hp0
      rw [henc] at hb
      injection hb with hb
      rw [hb]
      simp only [List.length_append, hdrBytes_length p.header [] (by simp [hx]), padBytes_length p hp1 hp0, pktMarshalSize]
    | true =>
      simp only [extClause, hx, ↓reduceIte] at hext
      obtain ⟨b, _, _, hb3, hb4⟩ := extBody_ofPacket p.header hx hext
      have hb := pktMarshal_bytes p b.body (fun _ => ⟨hb3, hb4⟩) hp1 hp0
      rw [henc] at hb
      injection hb with hb
      rw [hb]
      simp only [List.length_append, hdrBytes_length p.header b.body (fun _ => hb4), padBytes_length p hp1 hp0, pktMarshalSize]
  · intro r
    obtain ⟨bs, p', h1, h2, h3⟩ := marshal_unmarshal p h r
    rw [henc] at h1
    cases h1
    exact ⟨p', h2, h3⟩

end Rtp.Proofs.Wire
