/-
  Rtp/Proofs/H265Rt.lean — the payloader's output, packet by packet, is the RFC 7798 encoding of
  a sequence of well-formed packets whose reassembly is the input units (towards c14_roundtrip).
-/
import Rtp.Proofs.H265Parse
import Rtp.Proofs.H265Pay
import Rtp.Proofs.H265AnnexB
namespace Rtp.Model.H265
open Rtp Rtp.Bits Rtp.Spec.Rfc7798 Rtp.Pred

/-! ### bytes -/

theorem be16_eq_u16be (d : UInt16) : be16 d = u16be d.toNat := by
  have hd := d.toNat_lt
  simp only [be16, Rtp.be16, u16be, List.cons.injEq, and_true]
  constructor
  · rw [← UInt8.toNat_inj, UInt16.toNat_toUInt8, UInt16.toNat_shiftRight, toUInt8_toNat _ (by omega)]
    simp [Nat.shiftRight_eq_div_pow]
  · rw [← UInt8.toNat_inj, UInt16.toNat_toUInt8, toUInt8_toNat _ (by omega)]

theorem be16_len (n : Nat) (hn : n < 65536) : be16 n.toUInt16 = u16be n := by
  rw [be16_eq_u16be, toUInt16_toNat n hn]

theorem Hdr.ofWord_WF (n : Nat) : (Hdr.ofWord n).WF = true := by
  have h1 := toUInt8_toNat (n / 512 % 64) (by omega)
  have h2 := toUInt8_toNat (n / 8 % 64) (by omega)
  have h3 := toUInt8_toNat (n % 8) (by omega)
  simp [Hdr.WF, Hdr.ofWord, h1, h2, h3]
  omega

theorem Hdr.word_ofWord (n : Nat) (hn : n < 65536) : (Hdr.ofWord n).word = n := by
  simp only [Hdr.word, Hdr.ofWord]
  rw [toUInt8_toNat _ (by omega), toUInt8_toNat _ (by omega), toUInt8_toNat _ (by omega)]
  have : n / 32768 % 2 = 0 ∨ n / 32768 % 2 = 1 := by omega
  rcases this with h | h <;> simp [h] <;> omega

/-- the header fields of a unit's first two octets encode back to those octets -/
theorem Hdr.ofNal_bytes (a b : UInt8) (r : Bytes) : (Hdr.ofNal (a :: b :: r)).bytes = [a, b] := by
  have ha := a.toNat_lt; have hb := b.toNat_lt
  simp only [Hdr.ofNal, Hdr.bytes, Hdr.word_ofWord _ (show a.toNat * 256 + b.toNat < 65536 by omega), u16be,
    List.cons.injEq, and_true]
  constructor
  · rw [← UInt8.toNat_inj, toUInt8_toNat _ (by omega)]; omega
  · rw [← UInt8.toNat_inj, toUInt8_toNat _ (by omega)]; omega

theorem Hdr.ofNal_WF (n : Bytes) : (Hdr.ofNal n).WF = true := by
  unfold Hdr.ofNal
  split
  · exact Hdr.ofWord_WF _
  · decide

/-- the unit predicate of the property: header + ≥ 1 payload octet, F = 0, type 0–47 -/
def UnitOK (n : Bytes) : Prop := 3 ≤ n.length ∧ (Hdr.ofNal n).f = false ∧ (Hdr.ofNal n).type.toNat < 48

theorem unit_split (n : Bytes) (h : 3 ≤ n.length) : ∃ a b c r, n = a :: b :: c :: r := by
  match n, h with
  | a :: b :: c :: r, _ => exact ⟨a, b, c, r, rfl⟩

theorem nalOf_ofNal (n : Bytes) (h : 2 ≤ n.length) : nalOf (Hdr.ofNal n) (n.drop 2) = n := by
  match n, h with
  | a :: b :: r, _ => simp [nalOf, Hdr.ofNal_bytes]

/-! ### a single NAL unit packet -/

/-- the packet `flush` emits for one buffered unit -/
def singlePkt (cfg : Cfg) (d : UInt16) (n : Bytes) : Bytes :=
  if cfg.addDONL then n.take 2 ++ be16 d ++ n.drop 2 else n

def singleDesc (cfg : Cfg) (d : UInt16) (n : Bytes) : Packet :=
  .single (Hdr.ofNal n) (if cfg.addDONL then some d else none) (n.drop 2)

theorem single_encode (cfg : Cfg) (d : UInt16) (n : Bytes) (h : 2 ≤ n.length) :
    singlePkt cfg d n = encode (singleDesc cfg d n) := by
  match n, h with
  | a :: b :: r, _ =>
    cases hd : cfg.addDONL <;>
      simp [singlePkt, singleDesc, encode, hd, Hdr.ofNal_bytes, donlBytes, be16_eq_u16be]

theorem single_good (cfg : Cfg) (d : UInt16) (n : Bytes) (h : UnitOK n) :
    (singleDesc cfg d n).WF cfg.addDONL = true ∧ shapeOk cfg.addDONL (singleDesc cfg d n) = true := by
  obtain ⟨h3, hf, ht⟩ := h
  obtain ⟨a, b, c, r, rfl⟩ := unit_split n h3
  have t48 : (Hdr.ofNal (a :: b :: c :: r)).type ≠ 48 := by intro h; rw [h] at ht; simp at ht
  have t49 : (Hdr.ofNal (a :: b :: c :: r)).type ≠ 49 := by intro h; rw [h] at ht; simp at ht
  have t50 : (Hdr.ofNal (a :: b :: c :: r)).type ≠ 50 := by intro h; rw [h] at ht; simp at ht
  constructor
  · cases hd : cfg.addDONL <;> simp [singleDesc, Packet.WF, Hdr.ofNal_WF, hf, t48, t49, t50, hd]
  · cases hd : cfg.addDONL <;> simp [singleDesc, shapeOk, ht, hd]

theorem single_depack (cfg : Cfg) (d : UInt16) (n : Bytes) (h : 2 ≤ n.length) :
    depack none [singleDesc cfg d n] = some [n] := by
  simp [depack, singleDesc, nalOf_ofNal n h]

/-! ### an aggregation packet -/

theorem hdrView_ofNal (a b : UInt8) (r : Bytes) : hdrView (rd16 a b) = Hdr.ofNal (a :: b :: r) := by
  rw [hdrView_ofWord, rd16_toNat]; rfl

/-- one step of the layer/TID scan -/
def ltStep (acc : UInt8 × UInt8) (n : Bytes) : UInt8 × UInt8 :=
  let h := rd16 (n.getD 0 0) (n.getD 1 0)
  (if hdrLayer h < acc.1 then hdrLayer h else acc.1, if hdrTid h < acc.2 then hdrTid h else acc.2)

theorem minLayerTid_eq (ns : List Bytes) : minLayerTid ns = ns.foldl ltStep (255, 255) := rfl

theorem ltStep_spec (acc : UInt8 × UInt8) (n : Bytes) (hn : 2 ≤ n.length) :
    (ltStep acc n).1.toNat = min acc.1.toNat (Hdr.ofNal n).layer.toNat ∧
    (ltStep acc n).2.toNat = min acc.2.toNat (Hdr.ofNal n).tid.toNat := by
  match n, hn with
  | a :: b :: r, _ =>
    have hv := hdrView_ofNal a b r
    have e1 : hdrLayer (rd16 a b) = (Hdr.ofNal (a :: b :: r)).layer := by rw [← hv]; rfl
    have e2 : hdrTid (rd16 a b) = (Hdr.ofNal (a :: b :: r)).tid := by rw [← hv]; rfl
    simp only [ltStep, List.getD_cons_zero, List.getD_cons_succ, e1, e2, UInt8.lt_iff_toNat_lt]
    constructor <;> split <;> omega

theorem foldl_ltStep_spec (ns : List Bytes) (hlen : ∀ n ∈ ns, 2 ≤ n.length) (acc : UInt8 × UInt8)
    (l t : Nat) (hl : l = min 63 acc.1.toNat) (ht : t = min 7 acc.2.toNat) :
    ns.foldl (fun m u => min m (Hdr.ofNal u).layer.toNat) l = min 63 (ns.foldl ltStep acc).1.toNat ∧
    ns.foldl (fun m u => min m (Hdr.ofNal u).tid.toNat) t = min 7 (ns.foldl ltStep acc).2.toNat := by
  induction ns generalizing acc l t with
  | nil => simp [hl, ht]
  | cons n ns ih =>
    simp only [List.foldl_cons]
    obtain ⟨s1, s2⟩ := ltStep_spec acc n (hlen n (by simp))
    exact ih (fun m hm => hlen m (by simp [hm])) (ltStep acc n) _ _ (by rw [hl, s1]; omega) (by rw [ht, s2]; omega)

theorem foldl_ltStep_le (ns : List Bytes) (hlen : ∀ n ∈ ns, 2 ≤ n.length) (acc : UInt8 × UInt8) :
    (ns.foldl ltStep acc).1.toNat ≤ acc.1.toNat ∧ (ns.foldl ltStep acc).2.toNat ≤ acc.2.toNat := by
  induction ns generalizing acc with
  | nil => simp
  | cons n ns ih =>
    simp only [List.foldl_cons]
    obtain ⟨s1, s2⟩ := ltStep_spec acc n (hlen n (by simp))
    have := ih (fun m hm => hlen m (by simp [hm])) (ltStep acc n)
    omega

theorem ofNal_layer_le (n : Bytes) : (Hdr.ofNal n).layer.toNat ≤ 63 ∧ (Hdr.ofNal n).tid.toNat ≤ 7 := by
  have := Hdr.ofNal_WF n
  simp only [Hdr.WF, Bool.and_eq_true, decide_eq_true_eq] at this
  omega

/-- the payloader's scan finds the minimum LayerId / TID of the units (as RFC 7798 §4.4.2 asks) -/
theorem minLayerTid_spec (n : Bytes) (ns : List Bytes) (hlen : ∀ m ∈ n :: ns, 2 ≤ m.length) :
    (minLayerTid (n :: ns)).1.toNat = minLayer (n :: ns) ∧ (minLayerTid (n :: ns)).2.toNat = minTid (n :: ns) ∧
    (minLayerTid (n :: ns)).1.toNat ≤ 63 ∧ (minLayerTid (n :: ns)).2.toNat ≤ 7 := by
  obtain ⟨a1, a2⟩ := foldl_ltStep_spec (n :: ns) hlen (255, 255) 63 7 (by decide) (by decide)
  have hb : (minLayerTid (n :: ns)).1.toNat ≤ 63 ∧ (minLayerTid (n :: ns)).2.toNat ≤ 7 := by
    rw [minLayerTid_eq, List.foldl_cons]
    obtain ⟨s1, s2⟩ := ltStep_spec (255, 255) n (hlen n (by simp))
    have := foldl_ltStep_le ns (fun m hm => hlen m (by simp [hm])) (ltStep (255, 255) n)
    have := ofNal_layer_le n
    omega
  rw [← minLayerTid_eq] at a1 a2
  simp only [minLayer, minTid]
  omega

theorem apWord_toNat (l t : UInt8) (hl : l.toNat ≤ 63) (ht : t.toNat ≤ 7) :
    (((48 : UInt16) <<< 9) ||| (l.toUInt16 <<< 3) ||| t.toUInt16).toNat = 24576 + l.toNat * 8 + t.toNat := by
  simp only [UInt16.toNat_or, UInt16.toNat_shiftLeft, UInt8.toNat_toUInt16]
  have e1 : (48 : UInt16).toNat <<< ((9 : UInt16).toNat % 16) % 2 ^ 16 = 3072 <<< 3 := by decide
  have e2 : l.toNat <<< ((3 : UInt16).toNat % 16) % 2 ^ 16 = l.toNat <<< 3 := by
    simp [Nat.shiftLeft_eq]; omega
  rw [e1, e2, ← Nat.shiftLeft_or_distrib]
  have e3 : 3072 ||| l.toNat = 3072 + l.toNat := by
    have := nat_shl_or 48 l.toNat 6 (by omega)
    simpa using this
  rw [e3, nat_shl_or _ _ 3 (by omega)]; omega

/-- the aggregation units after the first, as descriptions -/
def restUnits (cfg : Cfg) : Nat → List Bytes → List (Option UInt8 × Bytes)
  | _, [] => []
  | i, n :: ns => ((if cfg.addDONL then some (i - 1).toUInt8 else none), n) :: restUnits cfg (i + 1) ns

theorem aggUnits_rest (cfg : Cfg) (d : UInt16) (i : Nat) (hi : i ≠ 0) (ns : List Bytes)
    (hlen : ∀ n ∈ ns, n.length < 65536) :
    aggUnits cfg d i ns = ((restUnits cfg i ns).map unitBytes).flatten := by
  induction ns generalizing i with
  | nil => rfl
  | cons n ns ih =>
    have hn := hlen n (by simp)
    simp only [aggUnits, restUnits, List.map_cons, List.flatten_cons, unitBytes, be16_len _ hn,
      ih (i + 1) (by omega) (fun m hm => hlen m (by simp [hm]))]
    have : (i == 0) = false := by simp [hi]
    cases hd : cfg.addDONL <;> simp [this, dondBytes]

def aggDesc (cfg : Cfg) (d : UInt16) (n : Bytes) (ns : List Bytes) : Packet :=
  .ap { f := false, type := 48, layer := (minLayerTid (n :: ns)).1, tid := (minLayerTid (n :: ns)).2 }
    (if cfg.addDONL then some d else none) n (restUnits cfg 1 ns)

theorem agg_encode (cfg : Cfg) (d : UInt16) (n : Bytes) (ns : List Bytes)
    (h2 : ∀ m ∈ n :: ns, 2 ≤ m.length) (hlen : ∀ m ∈ n :: ns, m.length < 65536) :
    aggPacket cfg d (n :: ns) = encode (aggDesc cfg d n ns) := by
  obtain ⟨_, _, hl, ht⟩ := minLayerTid_spec n ns h2
  have hw := apWord_toNat _ _ hl ht
  simp only [aggPacket, aggDesc, encode, Hdr.bytes, Hdr.word, be16_eq_u16be, hw, aggUnits,
    aggUnits_rest cfg d 1 (by decide) ns (fun m hm => hlen m (by simp [hm]))]
  cases hd : cfg.addDONL <;> simp [donlBytes, Nat.mod_eq_of_lt (hlen n (by simp))]

theorem restUnits_snd (cfg : Cfg) (i : Nat) (ns : List Bytes) : (restUnits cfg i ns).map (·.2) = ns := by
  induction ns generalizing i with
  | nil => rfl
  | cons n ns ih => simp [restUnits, ih]

theorem restUnits_all (cfg : Cfg) (i : Nat) (ns : List Bytes) (p : Bytes → Prop) (hp : ∀ n ∈ ns, p n) :
    ∀ u ∈ restUnits cfg i ns, u.1.isSome = cfg.addDONL ∧ p u.2 := by
  induction ns generalizing i with
  | nil => intro u hu; simp [restUnits] at hu
  | cons n ns ih =>
    intro u hu
    simp only [restUnits, List.mem_cons] at hu
    rcases hu with rfl | hu
    · refine ⟨?_, hp n (by simp)⟩
      cases hd : cfg.addDONL <;> simp
    · exact ih (i + 1) (fun m hm => hp m (by simp [hm])) u hu

theorem agg_good (cfg : Cfg) (d : UInt16) (n : Bytes) (ns : List Bytes) (hne : ns ≠ [])
    (h2 : ∀ m ∈ n :: ns, 2 ≤ m.length) (hlen : ∀ m ∈ n :: ns, m.length < 65536) :
    (aggDesc cfg d n ns).WF cfg.addDONL = true ∧ shapeOk cfg.addDONL (aggDesc cfg d n ns) = true := by
  obtain ⟨ml, mt, hl, ht⟩ := minLayerTid_spec n ns h2
  have hr1 := restUnits_all cfg 1 ns (fun m => m.length < 65536) (fun m hm => hlen m (by simp [hm]))
  have hr2 := restUnits_all cfg 1 ns (fun m => 2 ≤ m.length) (fun m hm => h2 m (by simp [hm]))
  have hne' : restUnits cfg 1 ns ≠ [] := by
    cases ns with
    | nil => exact absurd rfl hne
    | cons _ _ => simp [restUnits]
  have hd' : (if cfg.addDONL then some d else none : Option UInt16).isSome = cfg.addDONL := by
    cases hd : cfg.addDONL <;> simp
  have hl' : (minLayerTid (n :: ns)).1.toNat < 64 := by omega
  have ht' : (minLayerTid (n :: ns)).2.toNat < 8 := by omega
  have hn1 := hlen n (by simp)
  constructor
  · have hall : (restUnits cfg 1 ns).all
        (fun u => u.1.isSome == cfg.addDONL && decide (u.2.length < 65536)) = true := by
      simp only [List.all_eq_true, Bool.and_eq_true, beq_iff_eq, decide_eq_true_eq]; exact hr1
    simp [aggDesc, Packet.WF, Hdr.WF, hd', hall, hne', hl', ht', hn1]
  · have hall : (restUnits cfg 1 ns).all (fun u => u.1.isSome == cfg.addDONL) = true := by
      simp only [List.all_eq_true, beq_iff_eq]; intro u hu; exact (hr1 u hu).1
    have h2' : ∀ m ∈ ns, 2 ≤ m.length := fun m hm => h2 m (by simp [hm])
    have h2n := h2 n (by simp)
    simp [aggDesc, shapeOk, restUnits_snd, hd', hall, hne', ml, mt, h2n]
    exact h2'

theorem agg_depack (cfg : Cfg) (d : UInt16) (n : Bytes) (ns : List Bytes) :
    depack none [aggDesc cfg d n ns] = some (n :: ns) := by
  simp [depack, aggDesc, restUnits_snd]

/-! ### a fragmentation unit train (without DONL) -/

/-- payload header of the FUs of a unit whose header octets are `b0 b1`: Type 49, F/LayerId/TID kept -/
def fuHdr (b0 b1 : UInt8) : Hdr := { Hdr.ofNal [b0, b1] with type := 49 }

theorem u8_fu_hi : ∀ b0 : UInt8, ((b0 &&& (0x81 : UInt8)) ||| ((49 : UInt8) <<< 1)).toNat = b0.toNat / 128 * 128 + 98 + b0.toNat % 2 := by
  apply forall_u8; decide +kernel

theorem u8_fu_flag : ∀ t : UInt8, t.toNat < 64 →
    (t ||| 0x80 = (128 + t.toNat).toUInt8 ∧ t ||| 0x40 = (64 + t.toNat).toUInt8 ∧ t ||| 0 = t.toNat.toUInt8) := by
  apply forall_u8; decide +kernel

theorem fuHdr_word (b0 b1 : UInt8) :
    (fuHdr b0 b1).word = b0.toNat / 128 * 32768 + 25088 + (b0.toNat % 2) * 256 + b1.toNat := by
  have h0 := b0.toNat_lt; have h1 := b1.toNat_lt
  have e1 := toUInt8_toNat ((b0.toNat * 256 + b1.toNat) / 8 % 64) (by omega)
  have e2 := toUInt8_toNat ((b0.toNat * 256 + b1.toNat) % 8) (by omega)
  show (if ((b0.toNat * 256 + b1.toNat) / 32768 % 2 == 1) = true then 32768 else 0) + (49 : UInt8).toNat * 512 +
    ((b0.toNat * 256 + b1.toNat) / 8 % 64).toUInt8.toNat * 8 + ((b0.toNat * 256 + b1.toNat) % 8).toUInt8.toNat = _
  rw [e1, e2]
  split
  · rename_i h; simp only [beq_iff_eq] at h; simp; omega
  · rename_i h; simp only [beq_iff_eq] at h; simp; omega

theorem fuHdr_bytes (b0 b1 : UInt8) :
    (fuHdr b0 b1).bytes = [(b0 &&& (0x81 : UInt8)) ||| ((49 : UInt8) <<< 1), b1] := by
  have h0 := b0.toNat_lt; have h1 := b1.toNat_lt
  have hhi := u8_fu_hi b0
  simp only [Hdr.bytes, fuHdr_word, u16be, List.cons.injEq, and_true]
  constructor
  · rw [← UInt8.toNat_inj, hhi, toUInt8_toNat _ (by omega)]; omega
  · rw [← UInt8.toNat_inj, toUInt8_toNat _ (by omega)]; omega

/-- the FU train of `fuLoop`, as descriptions -/
def fuDescs (k : Nat) (b0 b1 : UInt8) : Nat → Bool → Bytes → List Packet
  | 0, _, _ => []
  | fuel + 1, first, l =>
    if l.isEmpty then []
    else
      let cur := if l.length > k then k else l.length
      .fu (fuHdr b0 b1) first (!first && (l.length - cur == 0)) (Hdr.ofNal [b0, b1]).type none (l.take cur) ::
        fuDescs k b0 b1 fuel false (l.drop cur)

theorem fu_encode (cfg : Cfg) (hd : cfg.addDONL = false) (k : Nat) (b0 b1 : UInt8) (fuel : Nat) (first : Bool)
    (d : UInt16) (l : Bytes) :
    (fuLoop cfg k b0 b1 fuel first d l).1 = (fuDescs k b0 b1 fuel first l).map encode := by
  induction fuel generalizing first d l with
  | zero => rfl
  | succ fuel ih =>
    simp only [fuLoop, fuDescs]
    split
    · rfl
    · have ht : hdrType (rd16 b0 b1) = (Hdr.ofNal [b0, b1]).type := by
        rw [← hdrView_ofNal b0 b1 []]; rfl
      have ht64 : (Hdr.ofNal [b0, b1]).type.toNat < 64 := by
        have := Hdr.ofNal_WF [b0, b1]
        simp only [Hdr.WF, Bool.and_eq_true, decide_eq_true_eq] at this; omega
      obtain ⟨g1, g2, g3⟩ := u8_fu_flag _ ht64
      simp only [hd, Bool.false_eq_true, if_false, List.append_nil, List.map_cons, encode, fuHdr_bytes,
        donlBytes, ih, ht, fuByte]
      congr 1
      cases first
      · by_cases he : (l.length - if l.length > k then k else l.length) = 0
        · simp [he, g2]
        · simp [he, g3]
      · simp [g1]

theorem fuHdr_WF (b0 b1 : UInt8) : (fuHdr b0 b1).WF = true := by
  have := Hdr.ofNal_WF [b0, b1]
  simp only [Hdr.WF, Bool.and_eq_true, decide_eq_true_eq] at this ⊢
  simp only [fuHdr]
  refine ⟨⟨by decide, this.1.2⟩, this.2⟩

theorem fu_good (k : Nat) (hk : 1 ≤ k) (b0 b1 : UInt8) (hf : (Hdr.ofNal [b0, b1]).f = false)
    (ht : (Hdr.ofNal [b0, b1]).type.toNat < 48) (fuel : Nat) (first : Bool) (l : Bytes) :
    ∀ p ∈ fuDescs k b0 b1 fuel first l, p.WF false = true ∧ shapeOk false p = true := by
  induction fuel generalizing first l with
  | zero => intro p hp; simp [fuDescs] at hp
  | succ fuel ih =>
    intro p hp
    simp only [fuDescs] at hp
    split at hp
    · simp at hp
    · rename_i hne
      simp only [List.mem_cons] at hp
      rcases hp with rfl | hp
      · have hl : 0 < l.length := by
          cases l with
          | nil => simp at hne
          | cons _ _ => simp
        have hne' : (List.take (if l.length > k then k else l.length) l) ≠ [] := by
          intro h0
          have : (List.take (if l.length > k then k else l.length) l).length = 0 := by rw [h0]; rfl
          rw [List.length_take] at this; split at this <;> omega
        have ht64 : (Hdr.ofNal [b0, b1]).type.toNat < 64 := by omega
        have hff : (fuHdr b0 b1).f = false := hf
        simp [Packet.WF, shapeOk, fuHdr_WF, hff, ht64, ht, hne']
        simp [fuHdr]
      · exact ih _ _ p hp

theorem fuHdr_unit (b0 b1 : UInt8) : { fuHdr b0 b1 with type := (Hdr.ofNal [b0, b1]).type } = Hdr.ofNal [b0, b1] := by
  simp [fuHdr]

/-- reassembly of the non-first fragments -/
theorem fu_depack_tail (k : Nat) (hk : 1 ≤ k) (b0 b1 : UInt8) (fuel : Nat) (l : Bytes) (hl : l ≠ [])
    (hfuel : l.length ≤ fuel) (acc : Bytes) (rest : List Packet) :
    depack (some (Hdr.ofNal [b0, b1], acc)) (fuDescs k b0 b1 fuel false l ++ rest) =
      (depack none rest).map (nalOf (Hdr.ofNal [b0, b1]) (acc ++ l) :: ·) := by
  induction fuel generalizing l acc with
  | zero =>
    cases l with
    | nil => exact absurd rfl hl
    | cons _ _ => simp at hfuel
  | succ fuel ih =>
    have hpos : 0 < l.length := by
      cases l with
      | nil => exact absurd rfl hl
      | cons _ _ => simp
    have hemp : l.isEmpty = false := by
      cases l with
      | nil => exact absurd rfl hl
      | cons _ _ => rfl
    simp only [fuDescs, hemp, Bool.false_eq_true, if_false, List.cons_append, depack, Bool.not_false,
      Bool.true_and, fuHdr_unit, beq_self_eq_true, if_true]
    by_cases hgt : l.length > k
    · have he : (l.length - k == 0) = false := by simp; omega
      simp only [hgt, if_true, he, Bool.false_eq_true, if_false]
      have hd : l.drop k ≠ [] := by
        intro h0
        have : (l.drop k).length = 0 := by rw [h0]; rfl
        rw [List.length_drop] at this; omega
      rw [ih (l.drop k) hd (by rw [List.length_drop]; omega)]
      simp [List.append_assoc, List.take_append_drop]
    · simp only [hgt, if_false, Nat.sub_self, beq_self_eq_true, if_true, List.take_length, List.drop_length]
      have : fuDescs k b0 b1 fuel false [] = [] := by cases fuel <;> simp [fuDescs]
      simp [this]

/-- reassembly of a whole train: at least two fragments, S on the first, E on the last -/
theorem fu_depack (k : Nat) (hk : 1 ≤ k) (b0 b1 : UInt8) (fuel : Nat) (l : Bytes) (hgt : l.length > k)
    (hfuel : l.length ≤ fuel) (rest : List Packet) :
    depack none (fuDescs k b0 b1 fuel true l ++ rest) =
      (depack none rest).map (nalOf (Hdr.ofNal [b0, b1]) l :: ·) := by
  cases fuel with
  | zero => omega
  | succ fuel =>
    have hemp : l.isEmpty = false := by
      cases l with
      | nil => simp at hgt
      | cons _ _ => rfl
    have hd : l.drop k ≠ [] := by
      intro h0
      have : (l.drop k).length = 0 := by rw [h0]; rfl
      rw [List.length_drop] at this; omega
    simp only [fuDescs, hemp, Bool.false_eq_true, if_false, hgt, if_true, List.cons_append, depack,
      Bool.not_true, Bool.false_and, Bool.not_false, Bool.and_self, fuHdr_unit]
    rw [fu_depack_tail k hk b0 b1 fuel (l.drop k) hd (by rw [List.length_drop]; omega)]
    simp [List.take_append_drop]

/-! ### a fragmentation unit train with AddDONL (the known finding: a DONL in every FU) -/

/-- what a receiver that expects a DONL in *every* FU — as `H265Payloader` writes them — takes as
    the payload of a non-first fragment: the two DONL octets are skipped.  (`H265Packet` and RFC 7798
    read a DONL only in the first fragment.) -/
def stripDonl (mode : Bool) : Packet → Packet
  | .fu h false e t none p => .fu h false e t none (if mode then p.drop 2 else p)
  | p => p

theorem stripDonl_false (p : Packet) : stripDonl false p = p := by
  cases p with
  | fu h s e t d q => cases s <;> cases d <;> simp [stripDonl]
  | _ => rfl

/-- the FU train of `fuLoop` with AddDONL, as `H265Packet` decodes it: a DONL on the first
    fragment, and on the others two more payload octets -/
def fuDescsD (k : Nat) (b0 b1 : UInt8) : Nat → Bool → UInt16 → Bytes → List Packet
  | 0, _, _, _ => []
  | fuel + 1, first, d, l =>
    if l.isEmpty then []
    else
      let cur := if l.length > k then k else l.length
      (if first then
        .fu (fuHdr b0 b1) true false (Hdr.ofNal [b0, b1]).type (some d) (l.take cur)
       else
        .fu (fuHdr b0 b1) false (l.length - cur == 0) (Hdr.ofNal [b0, b1]).type none (be16 d ++ l.take cur)) ::
        fuDescsD k b0 b1 fuel false (d + 1) (l.drop cur)

theorem fu_encodeD (cfg : Cfg) (hd : cfg.addDONL = true) (k : Nat) (b0 b1 : UInt8) (fuel : Nat) (first : Bool)
    (d : UInt16) (l : Bytes) :
    (fuLoop cfg k b0 b1 fuel first d l).1 = (fuDescsD k b0 b1 fuel first d l).map encode := by
  induction fuel generalizing first d l with
  | zero => rfl
  | succ fuel ih =>
    simp only [fuLoop, fuDescsD]
    split
    · rfl
    · have ht : hdrType (rd16 b0 b1) = (Hdr.ofNal [b0, b1]).type := by
        rw [← hdrView_ofNal b0 b1 []]; rfl
      have ht64 : (Hdr.ofNal [b0, b1]).type.toNat < 64 := by
        have := Hdr.ofNal_WF [b0, b1]
        simp only [Hdr.WF, Bool.and_eq_true, decide_eq_true_eq] at this; omega
      obtain ⟨g1, g2, g3⟩ := u8_fu_flag _ ht64
      simp only [List.map_cons, ih, ht]
      congr 1
      cases first
      · by_cases he : (l.length - if l.length > k then k else l.length) = 0
        · simp [he, g2, encode, fuHdr_bytes, donlBytes, fuByte]
        · simp [he, g3, encode, fuHdr_bytes, donlBytes, fuByte]
      · simp [g1, encode, fuHdr_bytes, donlBytes, fuByte, be16_eq_u16be]

theorem fu_goodD (k : Nat) (hk : 1 ≤ k) (b0 b1 : UInt8) (hf : (Hdr.ofNal [b0, b1]).f = false)
    (ht : (Hdr.ofNal [b0, b1]).type.toNat < 48) (fuel : Nat) (first : Bool) (d : UInt16) (l : Bytes) :
    ∀ p ∈ fuDescsD k b0 b1 fuel first d l, p.WF true = true ∧ shapeOk true p = true := by
  induction fuel generalizing first d l with
  | zero => intro p hp; simp [fuDescsD] at hp
  | succ fuel ih =>
    intro p hp
    simp only [fuDescsD] at hp
    split at hp
    · simp at hp
    · rename_i hne
      simp only [List.mem_cons] at hp
      rcases hp with rfl | hp
      · have hl : 0 < l.length := by
          cases l with
          | nil => simp at hne
          | cons _ _ => simp
        have hne' : (List.take (if l.length > k then k else l.length) l) ≠ [] := by
          intro h0
          have : (List.take (if l.length > k then k else l.length) l).length = 0 := by rw [h0]; rfl
          rw [List.length_take] at this; split at this <;> omega
        have ht64 : (Hdr.ofNal [b0, b1]).type.toNat < 64 := by omega
        have hff : (fuHdr b0 b1).f = false := hf
        have h49 : (fuHdr b0 b1).type = 49 := rfl
        cases first
        · simp [Packet.WF, shapeOk, fuHdr_WF, hff, ht64, ht, h49, be16, Rtp.be16]
        · simp [Packet.WF, shapeOk, fuHdr_WF, hff, ht64, ht, hne', h49]
      · exact ih _ _ _ p hp

/-- reassembly of the non-first fragments, the stray DONL octets skipped -/
theorem fu_depack_tailD (k : Nat) (hk : 1 ≤ k) (b0 b1 : UInt8) (fuel : Nat) (d : UInt16) (l : Bytes)
    (hl : l ≠ []) (hfuel : l.length ≤ fuel) (acc : Bytes) (rest : List Packet) :
    depack (some (Hdr.ofNal [b0, b1], acc)) ((fuDescsD k b0 b1 fuel false d l).map (stripDonl true) ++ rest) =
      (depack none rest).map (nalOf (Hdr.ofNal [b0, b1]) (acc ++ l) :: ·) := by
  induction fuel generalizing d l acc with
  | zero =>
    cases l with
    | nil => exact absurd rfl hl
    | cons _ _ => simp at hfuel
  | succ fuel ih =>
    have hpos : 0 < l.length := by
      cases l with
      | nil => exact absurd rfl hl
      | cons _ _ => simp
    have hemp : l.isEmpty = false := by
      cases l with
      | nil => exact absurd rfl hl
      | cons _ _ => rfl
    have hdrop2 : ∀ q : Bytes, List.drop 2 (be16 d ++ q) = q := by intro q; rfl
    simp only [fuDescsD, hemp, Bool.false_eq_true, if_false, List.map_cons, stripDonl, if_true, hdrop2,
      List.cons_append, depack, Bool.not_false, Bool.true_and, fuHdr_unit, beq_self_eq_true]
    by_cases hgt : l.length > k
    · have he : (l.length - k == 0) = false := by simp; omega
      simp only [hgt, if_true, he, Bool.false_eq_true, if_false]
      have hdn : l.drop k ≠ [] := by
        intro h0
        have : (l.drop k).length = 0 := by rw [h0]; rfl
        rw [List.length_drop] at this; omega
      rw [ih (d + 1) (l.drop k) hdn (by rw [List.length_drop]; omega)]
      simp [List.append_assoc, List.take_append_drop]
    · simp only [hgt, if_false, Nat.sub_self, beq_self_eq_true, if_true, List.take_length, List.drop_length]
      have : fuDescsD k b0 b1 fuel false (d + 1) [] = [] := by cases fuel <;> simp [fuDescsD]
      simp [this]

theorem fu_depackD (k : Nat) (hk : 1 ≤ k) (b0 b1 : UInt8) (fuel : Nat) (d : UInt16) (l : Bytes)
    (hgt : l.length > k) (hfuel : l.length ≤ fuel) (rest : List Packet) :
    depack none ((fuDescsD k b0 b1 fuel true d l).map (stripDonl true) ++ rest) =
      (depack none rest).map (nalOf (Hdr.ofNal [b0, b1]) l :: ·) := by
  cases fuel with
  | zero => omega
  | succ fuel =>
    have hemp : l.isEmpty = false := by
      cases l with
      | nil => simp at hgt
      | cons _ _ => rfl
    have hdn : l.drop k ≠ [] := by
      intro h0
      have : (l.drop k).length = 0 := by rw [h0]; rfl
      rw [List.length_drop] at this; omega
    simp only [fuDescsD, hemp, Bool.false_eq_true, if_false, hgt, if_true, List.map_cons, stripDonl,
      List.cons_append, depack, Bool.not_false, Bool.and_self, fuHdr_unit]
    rw [fu_depack_tailD k hk b0 b1 fuel (d + 1) (l.drop k) hdn (by rw [List.length_drop]; omega)]
    simp [List.take_append_drop]

/-! ### reassembly distributes over complete packet runs -/

theorem depack_append (st : Option (Hdr × Bytes)) (a b : List Packet) (x : List Bytes)
    (h : depack st a = some x) : depack st (a ++ b) = (depack none b).map (x ++ ·) := by
  induction a generalizing st x with
  | nil =>
    cases st with
    | none => simp [depack] at h; subst h; simp
    | some s => simp [depack] at h
  | cons p ps ih =>
    cases st with
    | none =>
      cases p with
      | single hh d pl =>
        simp only [depack, Option.map_eq_some_iff] at h
        obtain ⟨y, hy, rfl⟩ := h
        simp [depack, ih none y hy, Option.map_map, Function.comp_def]
      | ap hh d f r =>
        simp only [depack, Option.map_eq_some_iff] at h
        obtain ⟨y, hy, rfl⟩ := h
        simp [depack, ih none y hy, Option.map_map, Function.comp_def]
      | fu hh s e t d pl =>
        simp only [depack] at h
        split at h
        · rename_i hc
          simp [depack, hc, ih _ x h]
        · simp at h
      | paci hh a c phs f0 f1 f2 y phes pl =>
        simp only [depack] at h
        split at h
        · rename_i hc
          simp only [Option.map_eq_some_iff] at h
          obtain ⟨y', hy, rfl⟩ := h
          simp [depack, hc, ih none y' hy, Option.map_map, Function.comp_def]
        · simp at h
    | some s =>
      obtain ⟨uh, acc⟩ := s
      cases p with
      | fu hh s e t d pl =>
        simp only [depack] at h
        split at h
        · rename_i hc
          split at h
          · rename_i he
            simp only [Option.map_eq_some_iff] at h
            obtain ⟨y, hy, rfl⟩ := h
            simp [depack, hc, he, ih none y hy, Option.map_map, Function.comp_def]
          · rename_i he
            simp [depack, hc, he, ih _ x h]
        · simp at h
      | single hh d pl => simp [depack] at h
      | ap hh d f r => simp [depack] at h
      | paci hh a c phs f0 f1 f2 y phes pl => simp [depack] at h

/-! ### what a run of packets carries -/

/-- `pkts` is the wire form of well-formed, RFC 7798-shaped packets that reassemble to `units` —
    for a stream with AddDONL: once the stray DONL octets of non-first FUs are skipped
    (`stripDonl`, the identity on everything but a non-first FU of a DONL stream) -/
def Emits (cfg : Cfg) (pkts : List Bytes) (units : List Bytes) : Prop :=
  ∃ descs : List Packet, pkts = descs.map encode ∧
    (∀ p ∈ descs, p.WF cfg.addDONL = true ∧ shapeOk cfg.addDONL p = true) ∧
    depack none (descs.map (stripDonl cfg.addDONL)) = some units

theorem Emits.nil (cfg : Cfg) : Emits cfg [] [] := ⟨[], rfl, by simp, rfl⟩

theorem Emits.append {cfg : Cfg} {a b ua ub : List Bytes} (ha : Emits cfg a ua) (hb : Emits cfg b ub) :
    Emits cfg (a ++ b) (ua ++ ub) := by
  obtain ⟨da, ea, ga, ra⟩ := ha
  obtain ⟨db, eb, gb, rb⟩ := hb
  refine ⟨da ++ db, by simp [ea, eb], ?_, ?_⟩
  · intro p hp
    rcases List.mem_append.mp hp with h | h
    · exact ga p h
    · exact gb p h
  · rw [List.map_append, depack_append none _ _ ua ra, rb]; rfl

/-- what is buffered are units of the property, short enough for a 16-bit size field -/
def BufOK (l : List Bytes) : Prop := ∀ n ∈ l, UnitOK n ∧ n.length < 65536

theorem emits_single (cfg : Cfg) (d : UInt16) (n : Bytes) (h : UnitOK n) :
    Emits cfg [singlePkt cfg d n] [n] :=
  ⟨[singleDesc cfg d n], by simp [single_encode cfg d n (by have := h.1; omega)],
   by intro p hp; simp at hp; subst hp; exact single_good cfg d n h,
   by simpa [singleDesc, stripDonl] using single_depack cfg d n (by have := h.1; omega)⟩

theorem flush_rt (cfg : Cfg) (s : St) (hb : BufOK s.buf) : Emits cfg (flush cfg s).1 s.buf := by
  obtain ⟨buf, agg, donl⟩ := s
  simp only at hb
  match buf, hb with
  | [], _ => exact Emits.nil cfg
  | [n], hb =>
    have := emits_single cfg donl n (hb n (by simp)).1
    simp only [flush]
    split
    · rename_i hd; simpa [singlePkt, hd] using this
    · rename_i hd; simpa [singlePkt, hd] using this
  | n1 :: n2 :: ns, hb =>
    simp only [flush]
    have h2 : ∀ m ∈ n1 :: n2 :: ns, 2 ≤ m.length := fun m hm => by have := (hb m hm).1.1; omega
    have hl : ∀ m ∈ n1 :: n2 :: ns, m.length < 65536 := fun m hm => (hb m hm).2
    refine ⟨[aggDesc cfg donl n1 (n2 :: ns)], by simp [agg_encode cfg donl n1 (n2 :: ns) h2 hl], ?_,
      by simpa [aggDesc, stripDonl] using agg_depack cfg donl n1 (n2 :: ns)⟩
    intro p hp; simp at hp; subst hp
    exact agg_good cfg donl n1 (n2 :: ns) (by simp) h2 hl

theorem flush_donl_buf (cfg : Cfg) (s : St) : (flush cfg s).2.buf = [] ∨ (flush cfg s).2 = s := by
  obtain ⟨buf, agg, donl⟩ := s
  match buf with
  | [] => right; rfl
  | [n] => left; simp only [flush]; split <;> rfl
  | _ :: _ :: _ => left; rfl

theorem fuLoop_head_isFU (cfg : Cfg) (k : Nat) (b0 b1 : UInt8) (fuel : Nat) (first : Bool) (d : UInt16)
    (l : Bytes) (hl : l ≠ []) (hfuel : 1 ≤ fuel) :
    ∃ p ∈ (fuLoop cfg k b0 b1 fuel first d l).1, isFU p = true := by
  cases fuel with
  | zero => omega
  | succ fuel =>
    have hemp : l.isEmpty = false := by
      cases l with
      | nil => exact absurd rfl hl
      | cons _ _ => rfl
    simp only [fuLoop, hemp, Bool.false_eq_true, if_false]
    refine ⟨_, List.mem_cons_self, ?_⟩
    have h0 := b0.toNat_lt; have h1 := b1.toNat_lt
    have hhi := u8_fu_hi b0
    simp only [List.cons_append, isFU, hdrIsFU]
    have ht : hdrType (rd16 ((b0 &&& (0x81 : UInt8)) ||| ((49 : UInt8) <<< 1)) b1) = 49 := by
      rw [← UInt8.toNat_inj, hdrType_toNat, rd16_toNat, hhi]
      show _ = 49
      omega
    simp [ht]

theorem BufOK.push {l : List Bytes} {n : Bytes} (hb : BufOK l) (hn : UnitOK n) (hl : n.length < 65536) :
    BufOK (l ++ [n]) := by
  intro m hm
  rcases List.mem_append.mp hm with h | h
  · exact hb m h
  · simp at h; subst h; exact ⟨hn, hl⟩

theorem BufOK.nil : BufOK [] := by intro m hm; simp at hm

theorem flush_buf_nil (cfg : Cfg) (s : St) : (flush cfg s).2.buf = [] := by
  obtain ⟨buf, agg, donl⟩ := s
  match buf with
  | [] => rfl
  | [n] => simp only [flush]; split <;> rfl
  | _ :: _ :: _ => rfl

theorem flush_one (cfg : Cfg) (n : Bytes) (a : Nat) (d : UInt16) :
    (flush cfg { buf := [n], agg := a, donl := d }).1 = [singlePkt cfg d n] := by
  simp only [flush, singlePkt]; split <;> rfl

theorem step_rt (cfg : Cfg) (mtu : Nat) (s : St) (n : Bytes) (hb : BufOK s.buf)
    (hn : UnitOK n) (hmin : (if cfg.addDONL then 6 else 4) ≤ mtu) (hmax : mtu < 65536)
    (res : List Bytes × St) (hres : step cfg mtu s n = res) :
    ∃ e, Emits cfg res.1 e ∧ s.buf ++ [n] = e ++ res.2.buf ∧ BufOK res.2.buf := by
  have hn3 := hn.1
  have hn2 : ¬ n.length < 2 := by omega
  have hf1 := flush_rt cfg s hb
  have hfe := flush_buf_nil cfg s
  unfold step at hres
  simp only [hn2, if_false] at hres
  generalize flush cfg s = fs at hres hf1 hfe
  obtain ⟨o1, s1⟩ := fs
  simp only at hf1 hfe
  by_cases hfit : n.length + 2 + (if cfg.addDONL then 2 else 0) ≤ mtu
  · have hlen : n.length < 65536 := by omega
    simp only [hfit, if_true] at hres
    by_cases hov : s.agg + marginal cfg s.buf.length n.length > mtu
    · simp only [hov, if_true, hfe, List.nil_append] at hres
      cases hsk : cfg.skipAgg
      · simp only [hsk, Bool.false_eq_true, if_false] at hres
        subst hres
        exact ⟨s.buf, hf1, by simp, BufOK.nil.push hn hlen⟩
      · simp only [hsk, if_true] at hres
        subst hres
        refine ⟨s.buf ++ [n], ?_, ?_, ?_⟩
        · simp only [flush_one]; exact hf1.append (emits_single cfg _ n hn)
        · simp [flush_buf_nil]
        · simp only [flush_buf_nil]; exact BufOK.nil
    · simp only [hov, if_false] at hres
      cases hsk : cfg.skipAgg
      · simp only [hsk, Bool.false_eq_true, if_false] at hres
        subst hres
        exact ⟨[], Emits.nil cfg, by simp, hb.push hn hlen⟩
      · simp only [hsk, if_true] at hres
        subst hres
        have hb2 : BufOK (s.buf ++ [n]) := hb.push hn hlen
        refine ⟨s.buf ++ [n], ?_, ?_, ?_⟩
        · have := flush_rt cfg ⟨s.buf ++ [n], s.agg + marginal cfg s.buf.length n.length, s.donl⟩ hb2
          simpa using this
        · simp [flush_buf_nil]
        · simp only [flush_buf_nil]; exact BufOK.nil
  · simp only [hfit, if_false] at hres
    have hnd : ¬ ((decide (mtu ≤ 3 + (if cfg.addDONL then 2 else 0)) || n.length == 2) = true) := by
      simp only [Bool.or_eq_true, decide_eq_true_eq, beq_iff_eq, not_or, Nat.not_le]
      cases hd : cfg.addDONL <;> simp only [hd, Bool.false_eq_true, if_false, if_true] at hmin ⊢ <;> omega
    simp only [hnd, Bool.false_eq_true, if_false, hfe, List.nil_append] at hres
    by_cases hone : n.length - 2 ≤ mtu - (3 + (if cfg.addDONL then 2 else 0))
    · simp only [hone, if_true] at hres
      subst hres
      refine ⟨s.buf ++ [n], ?_, ?_, ?_⟩
      · simp only [flush_one]; exact hf1.append (emits_single cfg _ n hn)
      · simp [flush_buf_nil]
      · simp only [flush_buf_nil]; exact BufOK.nil
    · simp only [hone, if_false] at hres
      subst hres
      obtain ⟨a, b, c, r, rfl⟩ := unit_split n hn3
      simp only [List.getD_cons_zero, List.getD_cons_succ, List.drop_succ_cons, List.drop_zero,
        List.length_cons] at hone ⊢
      cases hd : cfg.addDONL
      · -- a fragmentation unit train
        simp only [hd, Bool.false_eq_true, if_false, Nat.add_zero] at hone hmin
        have hk : 1 ≤ mtu - 3 := by omega
        have hgt : (c :: r).length > mtu - 3 := by simp only [List.length_cons]; omega
        have e : r.length + 1 + 1 + 1 - 2 = (c :: r).length := by simp
        rw [e]
        have hfu : Emits cfg (fuLoop cfg (mtu - 3) a b (c :: r).length true s1.donl (c :: r)).1
            [a :: b :: c :: r] := by
          refine ⟨fuDescs (mtu - 3) a b (c :: r).length true (c :: r),
            fu_encode cfg hd _ a b _ true _ _, ?_, ?_⟩
          · have := fu_good (mtu - 3) hk a b hn.2.1 hn.2.2 (c :: r).length true (c :: r)
            simpa [hd] using this
          · have := fu_depack (mtu - 3) hk a b (c :: r).length (c :: r) hgt (Nat.le_refl _) []
            have hid : (fuDescs (mtu - 3) a b (c :: r).length true (c :: r)).map (stripDonl cfg.addDONL) =
                fuDescs (mtu - 3) a b (c :: r).length true (c :: r) := by
              rw [hd]
              have : stripDonl false = id := funext stripDonl_false
              simp [this]
            rw [hid]
            simpa [depack, nalOf, Hdr.ofNal_bytes] using this
        exact ⟨s.buf ++ [a :: b :: c :: r], hf1.append hfu, by simp, BufOK.nil⟩
      · -- with AddDONL: the train of the known finding (a DONL in every FU)
        simp only [hd, if_true] at hone hmin
        have hk : 1 ≤ mtu - (3 + 2) := by omega
        have hgt : (c :: r).length > mtu - (3 + 2) := by simp only [List.length_cons]; omega
        have e : r.length + 1 + 1 + 1 - 2 = (c :: r).length := by simp
        rw [e]
        have hfu : Emits cfg (fuLoop cfg (mtu - (3 + 2)) a b (c :: r).length true s1.donl (c :: r)).1
            [a :: b :: c :: r] := by
          refine ⟨fuDescsD (mtu - (3 + 2)) a b (c :: r).length true s1.donl (c :: r),
            fu_encodeD cfg hd _ a b _ true _ _, ?_, ?_⟩
          · have := fu_goodD (mtu - (3 + 2)) hk a b hn.2.1 hn.2.2 (c :: r).length true s1.donl (c :: r)
            simpa [hd] using this
          · have := fu_depackD (mtu - (3 + 2)) hk a b (c :: r).length s1.donl (c :: r) hgt (Nat.le_refl _) []
            rw [hd]
            simpa [depack, nalOf, Hdr.ofNal_bytes] using this
        exact ⟨s.buf ++ [a :: b :: c :: r], hf1.append hfu, by simp, BufOK.nil⟩

theorem run_rt (cfg : Cfg) (mtu : Nat) (hmin : (if cfg.addDONL then 6 else 4) ≤ mtu) (hmax : mtu < 65536)
    (s : St) (ns : List Bytes) (hb : BufOK s.buf) (hns : ∀ n ∈ ns, UnitOK n) :
    Emits cfg (run cfg mtu s ns).1 (s.buf ++ ns) := by
  induction ns generalizing s with
  | nil => simpa [run] using flush_rt cfg s hb
  | cons n ns ih =>
    simp only [run]
    obtain ⟨e, he, hsplit, hb'⟩ := step_rt cfg mtu s n hb (hns n (by simp)) hmin hmax _ rfl
    have h2 := ih (step cfg mtu s n).2 hb' (fun m hm => hns m (by simp [hm]))
    have := he.append h2
    have e2 : e ++ ((step cfg mtu s n).2.buf ++ ns) = s.buf ++ n :: ns := by
      rw [← List.append_assoc, ← hsplit]; simp
    rw [e2] at this
    exact this

theorem isFU_encode_fu (h : Hdr) (s e : Bool) (t : UInt8) (d : Option UInt16) (q : Bytes)
    (hw : h.WF = true) (h49 : h.type = 49) : isFU (encode (.fu h s e t d q)) = true := by
  obtain ⟨a, b, hb, hv⟩ := hdr_bytes h hw
  obtain ⟨_, e2⟩ := hdr_facts a b h hv
  simp [encode, hb, isFU, hdrIsFU, e2, h49]

/-- a well-formed packet whose wire form is not an FU is left alone by `stripDonl` -/
theorem stripDonl_of_not_fu (mode : Bool) (p : Packet) (hwf : p.WF mode = true)
    (hn : isFU (encode p) = false) : stripDonl mode p = p := by
  cases p with
  | fu h s e t d q =>
    simp only [Packet.WF, Bool.and_eq_true, Bool.not_eq_true', beq_iff_eq, decide_eq_true_eq] at hwf
    rw [isFU_encode_fu h s e t d q hwf.1.1.1.1.1 hwf.1.1.1.2] at hn
    simp at hn
  | _ => rfl

/-- from the description level to the predicate the harness evaluates; outside the region of the
    known finding (no FU on a DONL stream) `stripDonl` changes nothing -/
theorem callOk_of_emits (cfg : Cfg) (mtu : UInt16) (pkts units : List Bytes)
    (he : Emits cfg pkts units) (hbd : Bounded mtu.toNat pkts)
    (hnofu : cfg.addDONL = true → ∀ p ∈ pkts, isFU p = false) :
    C14.callOk cfg mtu units (pkts.map (pktObs cfg.addDONL)) = true := by
  obtain ⟨descs, rfl, hgood, hdep⟩ := he
  have hid : descs.map (stripDonl cfg.addDONL) = descs := by
    cases hd : cfg.addDONL
    · have : stripDonl false = id := funext stripDonl_false
      simp [this]
    · have : ∀ p ∈ descs, stripDonl true p = p := by
        intro p hp
        have hg := (hgood p hp).1
        rw [hd] at hg
        exact stripDonl_of_not_fu true p hg (hnofu hd _ (List.mem_map.mpr ⟨p, hp, rfl⟩))
      calc descs.map (stripDonl true) = descs.map id := List.map_congr_left this
        _ = descs := List.map_id descs
  rw [hid] at hdep
  have hmap : (List.map (pktObs cfg.addDONL) (descs.map encode)).mapM (fun p => p.res.toOption) =
      some (descs.map fun d => ({ pkt := d, tsci := d.tsci, sizesOk := true } : Parsed)) := by
    clear hdep hbd hnofu hid
    induction descs with
    | nil => rfl
    | cons d ds ih =>
      have hd := (hgood d (by simp)).1
      have := ih (fun p hp => hgood p (by simp [hp]))
      simp only [List.map_cons, List.mapM_cons, pktObs, decode_encode cfg.addDONL d hd, this]
      rfl
  simp only [C14.callOk, hmap, Bool.and_eq_true, List.all_eq_true, decide_eq_true_eq, beq_iff_eq]
  refine ⟨?_, ⟨?_, ?_⟩, ?_⟩
  · intro p hp
    simp only [List.mem_map] at hp
    obtain ⟨q, ⟨d, hd, rfl⟩, rfl⟩ := hp
    exact (hbd _ (List.mem_map.mpr ⟨d, hd, rfl⟩)).1
  · intro v hv
    simp only [List.mem_map] at hv
    obtain ⟨d, _, rfl⟩ := hv
    rfl
  · intro pv hpv
    obtain ⟨p, v⟩ := pv
    have hz : (p, v) ∈ (descs.map fun d => (pktObs cfg.addDONL (encode d),
        ({ pkt := d, tsci := d.tsci, sizesOk := true } : Parsed))) := by
      have : List.zip (List.map (pktObs cfg.addDONL) (List.map encode descs))
          (List.map (fun d => ({ pkt := d, tsci := d.tsci, sizesOk := true } : Parsed)) descs) =
          descs.map fun d => (pktObs cfg.addDONL (encode d), ({ pkt := d, tsci := d.tsci, sizesOk := true } : Parsed)) := by
        clear hpv hmap hdep hbd hgood hnofu hid
        induction descs with
        | nil => rfl
        | cons d ds ih => simp only [List.map_cons, List.zip_cons_cons, ih]
      rw [this] at hpv; exact hpv
    simp only [List.mem_map, Prod.mk.injEq] at hz
    obtain ⟨d, hd, rfl, rfl⟩ := hz
    have hg := hgood d hd
    simp only [pktObs, head_encode cfg.addDONL d hg.1, hg.2]
    exact ⟨⟨trivial, trivial⟩, trivial⟩
  · simp only [List.map_map, Function.comp_def, List.map_id', hdep]

/-! ### frames -/

theorem frameBytes_ne_nil (f : List (Nat × Bytes)) (h : C14.frameWF f = true) : (C14.frameBytes f).isEmpty = false := by
  simp only [C14.frameWF, Bool.and_eq_true, Bool.not_eq_true', List.isEmpty_eq_false_iff,
    List.all_eq_true] at h
  obtain ⟨hne, hall⟩ := h
  match f, hne, hall with
  | (sc, u) :: rest, _, hall =>
    have hu := (hall (sc, u) (by simp))
    obtain ⟨h3, _⟩ := nalWF_parts u hu.1
    have : u ≠ [] := by intro h0; subst h0; simp at h3
    simp [C14.frameBytes, this]

/-- one `Payload` call on a well-formed frame: the fragments are the wire form of well-formed,
    RFC 7798-shaped packets that reassemble to the frame's units -/
theorem payload_emits (cfg : Cfg) (mtu d : UInt16) (f : List (Nat × Bytes)) (hf : C14.frameWF f = true)
    (hmin : (if cfg.addDONL then 6 else 4) ≤ mtu.toNat) :
    Emits cfg (payload cfg mtu d (some (C14.frameBytes f))).1 (f.map (·.2)) := by
  have hm0 : (mtu == 0) = false := by
    rw [beq_eq_false_iff_ne]; intro h0; subst h0
    cases hd : cfg.addDONL <;> simp [hd] at hmin
  have hpay : payload cfg mtu d (some (C14.frameBytes f)) =
      run cfg mtu.toNat { buf := [], agg := 0, donl := d } (f.map (·.2)) := by
    simp only [payload, Option.getD_some, frameBytes_ne_nil f hf, hm0, Bool.or_self, Bool.false_eq_true,
      if_false, emitNalus_frame f hf]
  rw [hpay]
  have hunits : ∀ n ∈ f.map (·.2), UnitOK n := by
    intro n hn
    simp only [List.mem_map] at hn
    obtain ⟨u, hu, rfl⟩ := hn
    simp only [C14.frameWF, Bool.and_eq_true, List.all_eq_true] at hf
    have := (hf.2 u hu).1
    obtain ⟨h3, h1, h2, _⟩ := nalWF_parts u.2 this
    exact ⟨h3, h1, h2⟩
  have he := run_rt cfg mtu.toNat hmin mtu.toNat_lt { buf := [], agg := 0, donl := d } (f.map (·.2))
    BufOK.nil hunits
  simpa using he

theorem payload_frame (cfg : Cfg) (mtu d : UInt16) (f : List (Nat × Bytes)) (hf : C14.frameWF f = true)
    (hmin : (if cfg.addDONL then 6 else 4) ≤ mtu.toNat)
    (hnofu : cfg.addDONL = true → ∀ p ∈ (payload cfg mtu d (some (C14.frameBytes f))).1, isFU p = false) :
    C14.callOk cfg mtu (f.map (·.2))
      ((payload cfg mtu d (some (C14.frameBytes f))).1.map (pktObs cfg.addDONL)) = true :=
  callOk_of_emits cfg mtu _ _ (payload_emits cfg mtu d f hf hmin)
    (payload_bounded cfg mtu d (some (C14.frameBytes f))) hnofu

theorem rt_frames (cfg : Cfg) (mtu : UInt16) (hmin : (if cfg.addDONL then 6 else 4) ≤ mtu.toNat)
    (frames : List (List (Nat × Bytes))) (hf : ∀ f ∈ frames, C14.frameWF f = true) (d : UInt16)
    (hnofu : cfg.addDONL = true → ∀ ps ∈ payloadHist cfg d (frames.map fun f => (mtu, some (C14.frameBytes f))),
      ∀ p ∈ ps, isFU p = false) :
    C14.rtOk cfg mtu frames
      ((payloadHist cfg d (frames.map fun f => (mtu, some (C14.frameBytes f)))).map
        fun ps => some (ps.map (pktObs cfg.addDONL))) = true := by
  induction frames generalizing d with
  | nil => rfl
  | cons f fs ih =>
    simp only [List.map_cons, payloadHist, C14.rtOk, Bool.and_eq_true] at hnofu ⊢
    refine ⟨?_, ?_⟩
    · exact payload_frame cfg mtu d f (hf f (by simp)) hmin
        (fun hd p hp => hnofu hd _ (by simp) p hp)
    · exact ih (fun g hg => hf g (by simp [hg])) _
        (fun hd ps hps p hp => hnofu hd ps (by simp [hps]) p hp)

/-- `rt_frames` with the options set per call: any sequence of (options, frame) calls, any value of
    the DONL counter the payloader starts with -/
theorem rt_calls (mtu : UInt16) (calls : List RtCall)
    (hwf : ∀ c ∈ calls, (if c.1.addDONL then 6 else 4) ≤ mtu.toNat ∧ C14.frameWF c.2 = true) (d : UInt16)
    (hreg : rtKFF mtu d calls = false) :
    C14.rtOkF mtu calls (rtObsF mtu d calls) = true := by
  induction calls generalizing d with
  | nil => rfl
  | cons c cs ih =>
    obtain ⟨cfg, f⟩ := c
    simp only [rtKFF, Bool.or_eq_false_iff, Bool.and_eq_false_iff] at hreg
    simp only [rtObsF, C14.rtOkF, Bool.and_eq_true]
    obtain ⟨h1, h2⟩ := hwf (cfg, f) (by simp)
    refine ⟨?_, ?_⟩
    · refine payload_frame cfg mtu d f h2 h1 (fun hd p hp => ?_)
      rcases hreg.1 with h | h
      · simp [hd] at h
      · cases hfu : isFU p with
        | false => rfl
        | true =>
          have : (payload cfg mtu d (some (C14.frameBytes f))).1.any isFU = true :=
            List.any_eq_true.mpr ⟨p, hp, hfu⟩
          rw [this] at h; simp at h
    · exact ih (fun c hc => hwf c (by simp [hc])) _ hreg.2

/-- a history whose options never change: the per-call observation, hypotheses and region are the
    per-history ones -/
theorem rtObsF_const (cfg : Cfg) (mtu d : UInt16) (frames : List (List (Nat × Bytes))) :
    rtObsF mtu d (frames.map fun f => (cfg, f)) =
      (payloadHist cfg d (frames.map fun f => (mtu, some (C14.frameBytes f)))).map
        fun ps => some (ps.map (pktObs cfg.addDONL)) := by
  induction frames generalizing d with
  | nil => rfl
  | cons f fs ih => simp only [List.map_cons, rtObsF, payloadHist, ih]

theorem rtKFF_const (cfg : Cfg) (mtu d : UInt16) (frames : List (List (Nat × Bytes))) :
    rtKFF mtu d (frames.map fun f => (cfg, f)) =
      (cfg.addDONL && (payloadHist cfg d (frames.map fun f => (mtu, some (C14.frameBytes f)))).any (·.any isFU)) := by
  induction frames generalizing d with
  | nil => simp [rtKFF, payloadHist]
  | cons f fs ih =>
    simp only [List.map_cons, rtKFF, payloadHist, ih, List.any_cons]
    cases cfg.addDONL <;> simp

theorem rtOkF_const (cfg : Cfg) (mtu : UInt16) (frames : List (List (Nat × Bytes)))
    (os : List (Option (List C14.PktObs))) :
    C14.rtOkF mtu (frames.map fun f => (cfg, f)) os = C14.rtOk cfg mtu frames os := by
  induction frames generalizing os with
  | nil => cases os <;> rfl
  | cons f fs ih =>
    match os with
    | [] => rfl
    | none :: _ => rfl
    | some o :: os => simp only [List.map_cons, C14.rtOkF, C14.rtOk, ih]

theorem rtWFF_const (cfg : Cfg) (mtu : UInt16) (frames : List (List (Nat × Bytes))) (hne : frames ≠ []) :
    rtWFF mtu (frames.map fun f => (cfg, f)) = rtWF cfg mtu frames := by
  simp only [rtWFF, rtWF, List.all_map, Function.comp_def]
  by_cases hm : (if cfg.addDONL then 6 else 4) ≤ mtu.toNat
  · simp only [hm, decide_true, Bool.true_and]
  · simp only [hm, decide_false, Bool.false_and, List.all_eq_false]
    match frames, hne with
    | f :: _, _ => exact ⟨f, by simp, by simp⟩

end Rtp.Model.H265
