/-
  Rtp/Proofs/H264SizeObs.lean — from the size bound of the payloader model to the shared C08
  predicate over `PayObs` histories.
-/
import Rtp.Proofs.H264Size
import Rtp.Model.H264Obs
namespace Rtp.Proofs.H264
open Rtp Rtp.Model.H264 Rtp.Model.H264.Obs Rtp.Pred

theorem callOk_of_bounded (mtu : UInt16) (input : Option Bytes) (frags : List Bytes)
    (h : Bounded mtu.toNat frags) : C08.callOk false mtu input (PayObs.ofFrags frags) = true := by
  simp only [C08.callOk, PayObs.ofFrags, PayObs.owned, Bool.not_false, Bool.true_and, Bool.and_true,
    Bool.false_or, Bool.and_eq_true, List.all_eq_true, decide_eq_true_eq, Bool.or_eq_true]
  refine ⟨fun f hf => (h f hf).2, Or.inr ?_⟩
  intro f hf
  have := (h f hf).1
  cases f with
  | nil => simp at this
  | cons a t => simp

theorem histOk_hist (st : PayState) (flags : List Bool) (calls : List (UInt16 × Option Bytes)) :
    C08.histOk false calls ((payloadHist st (c08Hist flags calls)).map PayObs.ofFrags) = true := by
  induction calls generalizing st flags with
  | nil => simp [c08Hist, payloadHist, C08.histOk]
  | cons c cs ih =>
    obtain ⟨m, b⟩ := c
    cases flags with
    | nil =>
      simp only [c08Hist, payloadHist, List.map_cons, C08.histOk, Bool.and_eq_true]
      exact ⟨callOk_of_bounded m b _ (payload_bounded false m st (b.getD [])), ih _ _⟩
    | cons f fs =>
      simp only [c08Hist, payloadHist, List.map_cons, C08.histOk, Bool.and_eq_true]
      exact ⟨callOk_of_bounded m b _ (payload_bounded f m st (b.getD [])), ih _ _⟩

end Rtp.Proofs.H264
