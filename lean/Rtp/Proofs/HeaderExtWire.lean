/-
  Rtp/Proofs/HeaderExtWire.lean — the invariant kept by SetExtension / DelExtension and what Marshal
  does with headers that satisfy it.
-/
import Rtp.Proofs.HeaderExt
namespace Rtp.Proofs.HeaderExt
open Rtp Rtp.Model Rtp.Pred Rtp.Pred.C05
open Rtp.Spec.OrderedMap (Map Op)

/-! ### Marshal: never panics, refuses only a legacy value that is not whole words -/

theorem extBodyBytes_ne_panic (h : Header) : extBodyBytes h ≠ .panic := by
  unfold extBodyBytes
  repeat' split
  all_goals simp

theorem hdrMarshalTo_ne_panic (h : Header) (dst : Bytes) : hdrMarshalTo h dst ≠ .panic := by
  unfold hdrMarshalTo
  have := extBodyBytes_ne_panic h
  simp only []
  repeat' split
  all_goals first
    | (simp; done)
    | contradiction
    | (rename_i hq; exact absurd hq this)

theorem hdrMarshal_ne_panic (h : Header) : hdrMarshal h ≠ .panic := by
  unfold hdrMarshal
  have := hdrMarshalTo_ne_panic h (rep (hdrMarshalSize h) 0)
  split
  · simp
  · simp
  · contradiction

theorem extBodyBytes_err (h : Header) (e : Err) (he : extBodyBytes h = .err e) :
    isLegacy h.extProfile = true ∧
    ∃ x rest, h.exts = x :: rest ∧ x.payload.length % 4 ≠ 0 := by
  unfold extBodyBytes at he
  split at he
  · simp at he
  · split at he
    · simp at he
    · rename_i h1 h2
      split at he
      · simp at he
      · rename_i _ x rest heq
        split at he
        · rename_i hm
          refine ⟨by simp [isLegacy, h1, h2], x, rest, heq, by simpa using hm⟩
        · simp at he

/-- Marshal may refuse only a legacy-profile value that is not a whole number of 32-bit words -/
theorem hdrMarshal_err (h : Header) (e : Err) (he : hdrMarshal h = .err e) :
    h.extension = true ∧ isLegacy h.extProfile = true ∧
    ∃ x rest, h.exts = x :: rest ∧ x.payload.length % 4 ≠ 0 := by
  unfold hdrMarshal hdrMarshalTo at he
  simp only [rep, List.length_replicate, Nat.lt_irrefl, gt_iff_lt, if_false] at he
  by_cases hx : h.extension = true
  · simp only [hx, if_true] at he
    cases hb : extBodyBytes h with
    | ok b => simp [hb] at he
    | panic => exact absurd hb (extBodyBytes_ne_panic h)
    | err e' => exact ⟨hx, extBodyBytes_err h e' hb⟩
  · simp [hx] at he

/-! ### the invariant -/

theorem all_upsert (P : Ext → Bool) (es : List Ext) (id : UInt8) (v : Bytes)
    (hall : es.all P = true) (hnew : ∀ e : Ext, e.id = id → P { e with payload := v } = true) :
    (upsertExt es id v).all P = true := by
  induction es with
  | nil => simpa [upsertExt] using hnew { id := id, payload := v } rfl
  | cons e es ih =>
    simp only [List.all_cons, Bool.and_eq_true] at hall
    simp only [upsertExt]
    cases hc : e.id == id
    · simp only [Bool.false_eq_true, if_false, List.all_cons, hall.1, ih hall.2, Bool.and_self]
    · simp only [if_true, List.all_cons, hall.2, Bool.and_true]
      exact hnew e (by simpa using hc)

theorem all_erase (P : Ext → Bool) (es es' : List Ext) (id : UInt8)
    (hall : es.all P = true) (he : eraseExt es id = some es') : es'.all P = true := by
  induction es generalizing es' with
  | nil => simp [eraseExt] at he
  | cons e es ih =>
    simp only [List.all_cons, Bool.and_eq_true] at hall
    simp only [eraseExt] at he
    cases hc : e.id == id
    · simp only [hc, Bool.false_eq_true, if_false, Option.map_eq_some_iff] at he
      obtain ⟨r, hr, rfl⟩ := he
      simp only [List.all_cons, hall.1, ih r hall.2 hr, Bool.and_self]
    · simp only [hc, if_true, Option.some.injEq] at he
      subst he; exact hall.2

theorem validate_legacy_id (p : UInt16) (id : UInt8) (len : Nat) (hp : isLegacy p = true)
    (hv : validateExt p id len = none) : id = 0 := by
  unfold validateExt at hv
  simp only [isLegacy, Bool.not_eq_true', Bool.or_eq_false_iff] at hp
  simp only [hp.1, hp.2, Bool.false_eq_true, if_false] at hv
  by_cases h0 : id = 0
  · exact h0
  · simp [h0] at hv

/-- c05_inv, SetExtension: an accepted (or refused) element leaves every element legal -/
theorem legal_set (h : Header) (id : UInt8) (v : Bytes) (hl : legal h = true) :
    legal (setExtension h id v).2 = true := by
  rw [setExtension_eq]
  cases hv : validateExt (setProfile h v.length) id v.length with
  | some e => exact hl
  | none =>
    simp only []
    by_cases hx : h.extension = true
    · simp only [hx, Bool.not_true, Bool.false_eq_true, if_false]
      have hp : setProfile h v.length = h.extProfile := by simp [setProfile, hx]
      rw [hp] at hv
      unfold legal at hl ⊢
      simp only [hx, Bool.not_true, Bool.false_eq_true, if_false] at hl ⊢
      by_cases h12 : (h.extProfile == profileOneByte || h.extProfile == profileTwoByte) = true
      · simp only [h12, if_true] at hl ⊢
        exact all_upsert _ _ _ _ hl (by intro e he; simp [he, hv])
      · simp only [h12, Bool.false_eq_true, if_false] at hl ⊢
        have hid : id = 0 := validate_legacy_id _ _ _ (by simpa [isLegacy] using h12) hv
        subst hid
        match hes : h.exts, hl with
        | [], _ => simp [upsertExt]
        | [e], hl' =>
          have : e.id = 0 := by simpa using hl'
          simp [upsertExt, this]
        | _ :: _ :: _, hl' => simp at hl'
    · have hx' : h.extension = false := by simpa using hx
      have hn : h.exts = [] := by
        unfold legal at hl; simpa [hx'] using hl
      simp only [hx', Bool.not_false, if_true, hn, List.nil_append]
      unfold legal
      simp only [Bool.not_true, Bool.false_eq_true, if_false, List.all_cons, List.all_nil, Bool.and_true, hv,
        Option.isNone_none]
      by_cases h12 : (setProfile h v.length == profileOneByte || setProfile h v.length == profileTwoByte) = true
      · simp [h12]
      · simp only [h12, Bool.false_eq_true, if_false]
        have hid : id = 0 := validate_legacy_id _ _ _ (by simpa [isLegacy] using h12) hv
        simp [hid]

/-- c05_inv, DelExtension -/
theorem legal_del (h : Header) (id : UInt8) (hl : legal h = true) :
    legal (delExtension h id).2 = true := by
  unfold delExtension
  by_cases hx : h.extension = true
  · simp only [hx, Bool.not_true, Bool.false_eq_true, if_false]
    cases he : eraseExt h.exts id with
    | none => exact hl
    | some es =>
      simp only []
      unfold legal at hl ⊢
      simp only [hx, Bool.not_true, Bool.false_eq_true, if_false] at hl ⊢
      by_cases h12 : (h.extProfile == profileOneByte || h.extProfile == profileTwoByte) = true
      · simp only [h12, if_true] at hl ⊢
        exact all_erase _ _ _ _ hl he
      · simp only [h12, Bool.false_eq_true, if_false] at hl ⊢
        match hes : h.exts, hl with
        | [], _ => rw [hes] at he; simp [eraseExt] at he
        | [e], _ =>
          rw [hes] at he
          simp only [eraseExt] at he
          split at he
          · simp only [Option.some.injEq] at he; subst he; rfl
          · simp at he
        | _ :: _ :: _, hl' => simp at hl'
  · have hx' : h.extension = false := by simpa using hx
    simp [hx', hl]

theorem legal_step (h : Header) (op : Op) (hl : legal h = true) : legal (modelStep h op).2 = true := by
  cases op with
  | set id v => exact legal_set h id v hl
  | del id => exact legal_del h id hl

theorem legal_noGhost (h : Header) (hl : legal h = true) : noGhost h = true := by
  unfold legal at hl
  unfold noGhost
  cases hx : h.extension
  · simpa [hx] using hl
  · rfl

/-! ### an accepted SetExtension leads into C01's domain -/

theorem set_fixed (h : Header) (id : UInt8) (v : Bytes) :
    (setExtension h id v).2.version = h.version ∧ (setExtension h id v).2.payloadType = h.payloadType ∧
    (setExtension h id v).2.csrc = h.csrc := by
  rw [setExtension_eq]
  split
  · exact ⟨rfl, rfl, rfl⟩
  · split <;> exact ⟨rfl, rfl, rfl⟩

theorem set_enabled (h : Header) (id : UInt8) (v : Bytes) (h' : Header)
    (hs : setExtension h id v = (none, h')) : h'.extension = true := by
  rw [setExtension_eq] at hs
  split at hs
  · simp at hs
  · split at hs
    · simp only [Prod.mk.injEq, true_and] at hs; subst hs; rfl
    · rename_i hx
      simp only [Prod.mk.injEq, true_and] at hs; subst hs
      simpa using hx

theorem extsLegal_of_legal (h : Header) (hl : legal h = true)
    (hleg : isLegacy h.extProfile = true → h.extension = true →
      ∃ e, h.exts = [e] ∧ e.payload.length % 4 = 0) :
    C01.extsLegal h = true := by
  unfold legal at hl
  unfold C01.extsLegal
  by_cases hx : h.extension = true
  · simp only [hx, Bool.not_true, Bool.false_eq_true, if_false] at hl ⊢
    by_cases h1 : (h.extProfile == profileOneByte) = true
    · simp only [h1, Bool.true_or, if_true] at hl ⊢
      rw [List.all_eq_true] at hl ⊢
      intro e he
      have := hl e he
      have hp : h.extProfile = profileOneByte := by simpa using h1
      rw [validate_accepts, hp] at this
      simpa [Spec.OrderedMap.accepts, Spec.OrderedMap.oneByte, profileOneByte] using this
    · by_cases h2 : (h.extProfile == profileTwoByte) = true
      · simp only [h1, h2, Bool.or_true, Bool.false_eq_true, if_false, if_true] at hl ⊢
        rw [List.all_eq_true] at hl ⊢
        intro e he
        have := hl e he
        have hp : h.extProfile = profileTwoByte := by simpa using h2
        rw [validate_accepts, hp] at this
        simpa [Spec.OrderedMap.accepts, Spec.OrderedMap.oneByte, Spec.OrderedMap.twoByte, profileTwoByte] using this
      · simp only [h1, h2, Bool.or_self, Bool.false_eq_true, if_false] at hl ⊢
        obtain ⟨e, he, hm⟩ := hleg (by simp [isLegacy, h1, h2]) hx
        rw [he] at hl ⊢
        simp only at hl ⊢
        simp [hl, hm]
  · have hx' : h.extension = false := by simpa using hx
    simpa [hx'] using hl

/-- after an accepted SetExtension on a header that satisfies `Inv`, with sane fixed fields, a block
    that fits the 16-bit word count and (legacy only) a value of whole words, the header is in the
    domain of C01's round trip -/
theorem wfH_of_set (h : Header) (id : UInt8) (v : Bytes) (h' : Header) (hl : legal h = true)
    (hs : setExtension h id v = (none, h'))
    (hfix : h.version.toNat < 4 ∧ h.payloadType.toNat < 128 ∧ h.csrc.length ≤ 15)
    (hsize : extBodySize h' ≤ 65535 * 4)
    (hleg : isLegacy h'.extProfile = true → v.length % 4 = 0) : C01.wfH h' = true := by
  have hl' : legal h' = true := by have := legal_set h id v hl; rwa [hs] at this
  have hfx := set_fixed h id v
  rw [hs] at hfx
  simp only at hfx
  have hget : getExtension h' id = some v := by
    have hv := step_view h (.set id v) (legal_noGhost h hl) (by simp [modelStep, hs])
    simp only [modelStep, hs] at hv
    rw [get_view, hv]
    simp only [Spec.OrderedMap.apply]
    generalize view h = m
    induction m with
    | nil => simp [Spec.OrderedMap.set, Spec.OrderedMap.get]
    | cons kv m ih =>
      obtain ⟨k, w⟩ := kv
      simp only [Spec.OrderedMap.set]
      cases hk : k == id <;> simp [Spec.OrderedMap.get, hk, ih]
  have hen := set_enabled h id v h' hs
  have hel : C01.extsLegal h' = true := by
    apply extsLegal_of_legal h' hl'
    intro hlg _
    have hm := hleg hlg
    unfold legal at hl'
    simp only [isLegacy, Bool.not_eq_true', Bool.or_eq_false_iff] at hlg
    simp only [hen, Bool.not_true, Bool.false_eq_true, if_false, hlg.1, hlg.2, Bool.or_self] at hl'
    unfold getExtension at hget
    simp only [hen, Bool.not_true, Bool.false_eq_true, if_false] at hget
    match hes : h'.exts, hl' with
    | [], _ => rw [hes] at hget; simp at hget
    | [e], _ =>
      rw [hes] at hget
      refine ⟨e, rfl, ?_⟩
      simp only [List.find?_cons, List.find?_nil] at hget
      split at hget
      · simp only [Option.map_some, Option.some.injEq] at hget; rw [hget]; exact hm
      · simp at hget
    | _ :: _ :: _, hl'' => simp at hl''
  simp only [C01.wfH, hfx.1, hfx.2.1, hfx.2.2, hfix.1, hfix.2.1, hfix.2.2, hel, hsize, decide_true, Bool.and_self]

/-! ### helper for the sharpness witnesses -/

theorem parseTwoByte_zeros (n : Nat) : parseTwoByte (List.replicate n 0) = .ok [] := by
  induction n with
  | zero => simp [parseTwoByte]
  | succ n ih => rw [List.replicate_succ, parseTwoByte.eq_def]; simpa using ih

/-! ### after the wire -/

/-- C01's header round trip, as C05 uses it (corea proves it as `c01_header_roundtrip`): a
    well-formed header marshals, and the bytes decode — into any receiver — to a header with the
    same canonical observation -/
def HeaderRoundTrip : Prop :=
  ∀ h : Header, C01.wfH h = true →
    ∃ bs, hdrMarshal h = .ok bs ∧
      ∀ r : Header, ∃ h', hdrUnmarshal r bs = .ok (h', bs.length) ∧ C01.canonH h' = C01.canonH h

theorem getExtension_canonH (h : Header) (id : UInt8) :
    getExtension (C01.canonH h) id = getExtension h id := by
  unfold C01.canonH; split <;> rfl

theorem getExtension_of_canon_eq (a b : Header) (h : C01.canonH a = C01.canonH b) (id : UInt8) :
    getExtension a id = getExtension b id := by
  rw [← getExtension_canonH a, ← getExtension_canonH b, h]

/-- the final part of the predicate holds of the model for a header in the domain of the round
    trip theorem, or one that Marshal refuses, or one that shows no element -/
theorem finalOk_model (hrt : HeaderRoundTrip) (h : Header)
    (hw : finalWfH h = true) : finalOk (view h) (modelFinal h) = true := by
  cases hm : hdrMarshal h with
  | panic => exact absurd hm (hdrMarshal_ne_panic h)
  | err e =>
    obtain ⟨hx, hleg, x, rest, hes, hlen⟩ := hdrMarshal_err h e hm
    simp only [finalOk, modelFinal, hm, Res.coarse, hx, Bool.true_and, Bool.and_eq_true]
    have hc : C01.canonH h = h := by simp [C01.canonH, hx]
    refine ⟨by rw [hc]; exact hleg, ?_⟩
    simp only [view, hx, if_true, hes, List.map_cons, toPair]
    simpa using hlen
  | ok bs =>
    by_cases hwf : C01.wfH h = true
    · obtain ⟨bs', hm', hun⟩ := hrt h hwf
      rw [hm] at hm'
      simp only [Res.ok.injEq] at hm'
      subst hm'
      obtain ⟨h', hu, hc⟩ := hun {}
      simp only [finalOk, modelFinal, hm, Res.coarse, hu, Res.map, beq_self_eq_true, Bool.or_true, Bool.true_and,
        beq_iff_eq]
      rw [ids_view]
      apply List.map_congr_left
      intro k _
      rw [getExtension_of_canon_eq h' h hc, get_view]
    · have hids : getExtensionIDs h = [] := by
        simpa [finalWfH, hwf, hm, Res.isErr] using hw
      have hv : view h = [] := by
        have := ids_view h
        rw [hids] at this
        cases hvv : view h with
        | nil => rfl
        | cons a l => rw [hvv] at this; simp [Spec.OrderedMap.keys] at this
      simp only [finalOk, modelFinal, hm, Res.coarse, hids, hv, List.isEmpty_nil, Bool.true_or, Bool.true_and,
        Spec.OrderedMap.keys, List.map_nil, beq_iff_eq]
      split <;> rfl

end Rtp.Proofs.HeaderExt
