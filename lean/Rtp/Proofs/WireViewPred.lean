/-
  Rtp/Proofs/WireViewPred.lean — the `c03.view` predicate on the model's observation of a view on
  the encoding of a well-formed block of its own form.
-/
import Rtp.Proofs.WireView
import Rtp.Pred.C03
namespace Rtp.Proofs.Wire
open Rtp Rtp.Model Rtp.Spec.Wire Rtp.Pred.C03

theorem writeAt_zero (dst src : Bytes) (h : src.length ≤ dst.length) :
    writeAt dst 0 src = src ++ dst.drop src.length := by
  simp [writeAt, List.take_of_length_le h]

theorem rep_length' (m : Nat) (b : UInt8) : (rep m b).length = m := by simp [rep]

/-- MarshalTo into size−1 / size / size+1 bytes of `fill` -/
theorem view_to (bytes : Bytes) (fill : UInt8) (h : 1 ≤ bytes.length) :
    ([bytes.length - 1, bytes.length, bytes.length + 1].map fun m => (viewMarshalTo bytes (rep m fill)).coarse) =
      [.err .other, .ok (bytes, bytes.length), .ok (bytes ++ [fill], bytes.length)] := by
  have h1 : bytes.length > (rep (bytes.length - 1) fill).length := by rw [rep_length']; omega
  have h2 : ¬ bytes.length > (rep bytes.length fill).length := by rw [rep_length']; omega
  have h3 : ¬ bytes.length > (rep (bytes.length + 1) fill).length := by rw [rep_length']; omega
  have w2 : writeAt (rep bytes.length fill) 0 bytes = bytes := by
    rw [writeAt_zero _ _ (by rw [rep_length']; omega)]
    simp [rep]
  have w3 : writeAt (rep (bytes.length + 1) fill) 0 bytes = bytes ++ [fill] := by
    rw [writeAt_zero _ _ (by rw [rep_length']; omega)]
    simp [rep, List.drop_replicate]
  simp only [List.map_cons, List.map_nil, viewMarshalTo, h1, h2, h3, ↓reduceIte, Res.coarse, w2, w3]

theorem getsOK_map (k : ViewKind) (b : ExtBlock) (bytes : Bytes) (qs : List UInt8)
    (H : ∀ q v, expectGet k b bytes q = some v → viewGet k bytes q = .ok v) :
    getsOK k b bytes qs (qs.map (viewGet k bytes)) = true := by
  induction qs with
  | nil => rfl
  | cons q r ih =>
    simp only [List.map_cons, getsOK, Bool.and_eq_true, ih, and_true]
    cases he : expectGet k b bytes q with
    | none => rfl
    | some v => simp [H q v he]

/-- the block's bytes: 4-byte header, then content and alignment pads -/
theorem encode_shape (b : ExtBlock) :
    b.encode = (b.profile >>> 8).toUInt8 :: b.profile.toUInt8 ::
      (((b.body.length + padTo4 b.body.length) / 4).toUInt16 >>> 8).toUInt8 ::
      ((b.body.length + padTo4 b.body.length) / 4).toUInt16.toUInt8 :: (b.body ++ rep (padTo4 b.body.length) 0) := by
  simp [ExtBlock.encode, be16]

theorem find_prefix {α} (p : α → Bool) (l1 l2 : List α) (h : l1.any p = true) :
    (l1 ++ l2).find? p = l1.find? p := by
  induction l1 with
  | nil => simp at h
  | cons a r ih =>
    simp only [List.cons_append, List.find?_cons]
    cases hp : p a with
    | true => rfl
    | false =>
      simp only [List.any_cons, hp, Bool.false_or] at h
      exact ih h

theorem encode_length_pos (b : ExtBlock) : 4 ≤ b.encode.length := by
  rw [encode_shape]; simp only [List.length_cons]; omega

theorem drop4_encode (b : ExtBlock) : b.encode.drop 4 = b.body ++ rep (padTo4 b.body.length) 0 := by
  rw [encode_shape]; rfl

theorem viewUnmarshal_encode (k : ViewKind) (b : ExtBlock) (hf : formMatches k b = true) (hw : b.WF = true)
    (ha : b.appbits = false) :
    viewUnmarshal k b.encode = .ok b.encode.length := by
  rw [encode_shape]
  simp only [viewUnmarshal, rd16_be]
  cases k <;> cases b <;> simp only [formMatches] at hf <;> try (exact absurd hf (by decide))
  · simp [ExtBlock.profile, profileOneByte]
  · rename_i a items
    simp only [ExtBlock.appbits, bne_eq_false_iff_eq] at ha
    subst ha
    have : ((0x1000 + (0 : UInt8).toNat).toUInt16 == profileTwoByte) = true := by decide
    simp only [ExtBlock.profile, this, ↓reduceIte]
  · rename_i p ws
    simp only [ExtBlock.WF, Bool.and_eq_true, bne_iff_ne, ne_eq] at hw
    have e1 : (p == profileOneByte) = false := by simpa [profileOneByte] using hw.1.1.1
    have e2 : (p == profileTwoByte) = false := by
      have := legacy_profile p (by simpa using hw.1.1.2)
      simpa [profileTwoByte] using this
    simp [ExtBlock.profile, e1, e2]

/-- the model's observation of a view on a well-formed block of its own form -/
theorem modelView_encode (k : ViewKind) (b : ExtBlock) (qs : List UInt8) (fill : UInt8)
    (hf : formMatches k b = true) (hw : b.WF = true) (ha : b.appbits = false) :
    modelView { kind := k, block := some b, bytes := b.encode, queries := qs, fill := fill } =
      { unm := .ok b.encode.length
        ids := viewGetIDs k b.encode
        gets := qs.map (viewGet k b.encode)
        marshal := .ok b.encode
        size := .ok b.encode.length
        to := [.err .other, .ok (b.encode, b.encode.length), .ok (b.encode ++ [fill], b.encode.length)] } := by
  have := encode_length_pos b
  simp only [modelView, viewUnmarshal_encode k b hf hw ha, viewMarshal, viewMarshalSize, view_to b.encode fill (by omega)]

theorem view_onebyte (items : List Item) (stop : Option (UInt8 × Bytes)) (qs : List UInt8) (fill : UInt8)
    (hw : (ExtBlock.oneByte items stop).WF = true) :
    Pred.C03.view { kind := .oneByte, block := some (.oneByte items stop), bytes := (ExtBlock.oneByte items stop).encode,
                    queries := qs, fill := fill }
      (modelView { kind := .oneByte, block := some (.oneByte items stop), bytes := (ExtBlock.oneByte items stop).encode,
                   queries := qs, fill := fill }) = true := by
  have hbo := blockOk_of_WF _ hw rfl
  simp only [blockOk, Bool.and_eq_true] at hbo
  obtain ⟨⟨hok, hstop⟩, _⟩ := hbo
  have h4 := encode_length_pos (.oneByte items stop)
  rw [modelView_encode _ _ _ _ rfl hw rfl]
  simp only [Pred.C03.view, ViewIn.desc, formMatches, hw, Bool.and_self, Bool.not_true, Bool.false_or, viewOK, beq_self_eq_true,
    Bool.true_and, Bool.and_true, Bool.and_eq_true, beq_iff_eq]
  have hlt : ¬ (ExtBlock.oneByte items stop).encode.length < 4 := by omega
  refine ⟨?_, ?_⟩
  · have htail : oneByteIDs (stopBytes stop ++ rep (padTo4 (body1 items ++ stopBytes stop).length) 0) = [] := by
      cases stop with
      | none => simpa [stopBytes] using oneByteIDs_pads _
      | some st =>
        obtain ⟨n, rest⟩ := st
        simp only [stopOk, decide_eq_true_eq] at hstop
        exact oneByteIDs_stop n rest _ hstop
    simp only [viewGetIDs, hlt, ↓reduceIte, drop4_encode, ExtBlock.body, List.append_assoc,
      oneByteIDs_body items _ hok htail]
    rfl
  · apply getsOK_map
    intro q v he
    simp only [viewGet, drop4_encode, ExtBlock.body, List.append_assoc, oneByteGet_body items _ q hok]
    simp only [expectGet] at he
    split at he
    · rename_i hin
      cases he
      simp only [ExtBlock.lookup, ExtBlock.elements]
      have hany : ∃ e, (elems items).find? (·.id == q) = some e := by
        simp only [ExtBlock.ids, ExtBlock.elements, List.contains_iff_mem, List.mem_map] at hin
        obtain ⟨e, he1, he2⟩ := hin
        cases hf : (elems items).find? (·.id == q) with
        | some e' => exact ⟨e', rfl⟩
        | none =>
          rw [List.find?_eq_none] at hf
          exact absurd (by simp [he2]) (hf e he1)
      obtain ⟨e, hfe⟩ := hany
      simp [hfe]
    · split at he
      · rename_i hm
        cases he
        simp only [ExtBlock.mentions, Bool.not_eq_true', Bool.or_eq_false_iff, List.any_eq_false] at hm
        obtain ⟨hs, hm⟩ := hm
        have hnone : (elems items).find? (·.id == q) = none := by
          rw [List.find?_eq_none]; intro x hx; simpa using hm x hx
        have hs' : stop = none := by simpa using hs
        subst hs'
        simp only [hnone, stopBytes, List.nil_append]
        exact oneByteGet_pads _ q
      · cases he

theorem view_twobyte (items : List Item) (qs : List UInt8) (fill : UInt8) (hw : (ExtBlock.twoByte 0 items).WF = true) :
    Pred.C03.view { kind := .twoByte, block := some (.twoByte 0 items), bytes := (ExtBlock.twoByte 0 items).encode,
                    queries := qs, fill := fill }
      (modelView { kind := .twoByte, block := some (.twoByte 0 items), bytes := (ExtBlock.twoByte 0 items).encode,
                   queries := qs, fill := fill }) = true := by
  have hbo := blockOk_of_WF _ hw rfl
  simp only [blockOk, Bool.and_eq_true] at hbo
  obtain ⟨⟨_, hok⟩, _⟩ := hbo
  have h4 := encode_length_pos (.twoByte 0 items)
  rw [modelView_encode _ _ _ _ rfl hw rfl]
  simp only [Pred.C03.view, ViewIn.desc, formMatches, hw, Bool.and_self, Bool.not_true, Bool.false_or, viewOK, beq_self_eq_true,
    Bool.true_and, Bool.and_true, Bool.and_eq_true, beq_iff_eq]
  refine ⟨?_, ?_⟩
  · have : ¬ (ExtBlock.twoByte 0 items).encode.length < 4 := by omega
    simp only [viewGetIDs, this, ↓reduceIte, drop4_encode, ExtBlock.body, twoByteIDs_body items _ hok]
    rfl
  · apply getsOK_map
    intro q v he
    simp only [viewGet, drop4_encode, ExtBlock.body, twoByteGet_body items _ q hok]
    simp only [expectGet] at he
    split at he
    · cases he
      simp only [ExtBlock.lookup, ExtBlock.elements]
    · split at he
      · rename_i hm
        cases he
        simp only [ExtBlock.mentions, Bool.not_eq_true', List.any_eq_false] at hm
        have : (elems items).find? (·.id == q) = none := by
          rw [List.find?_eq_none]; intro x hx; simpa using hm x hx
        simp [this]
      · cases he

theorem view_raw (p : UInt16) (ws : Bytes) (qs : List UInt8) (fill : UInt8) (hw : (ExtBlock.legacy p ws).WF = true) :
    Pred.C03.view { kind := .raw, block := some (.legacy p ws), bytes := (ExtBlock.legacy p ws).encode,
                    queries := qs, fill := fill }
      (modelView { kind := .raw, block := some (.legacy p ws), bytes := (ExtBlock.legacy p ws).encode,
                   queries := qs, fill := fill }) = true := by
  rw [modelView_encode _ _ _ _ rfl hw rfl]
  simp only [Pred.C03.view, ViewIn.desc, formMatches, hw, Bool.and_self, Bool.not_true, Bool.false_or, viewOK, beq_self_eq_true,
    Bool.true_and, Bool.and_true, Bool.and_eq_true, beq_iff_eq]
  refine ⟨?_, ?_⟩
  · simp [viewGetIDs, ExtBlock.ids, ExtBlock.elements]
  · apply getsOK_map
    intro q v he
    simp only [viewGet]
    simp only [expectGet, ExtBlock.ids, ExtBlock.elements, ExtBlock.mentions, List.map_cons, List.map_nil] at he
    by_cases hq : q = 0
    · subst hq; simp at he; simp [← he]
    · have h1 : ([0] : List UInt8).contains q = false := by simp [hq]
      have h2 : (q == 0) = false := by simpa using hq
      simp only [h1, h2, Bool.false_eq_true, ↓reduceIte, Bool.not_false] at he
      cases he; simp [hq]

end Rtp.Proofs.Wire
