/-
  Rtp/Proofs/WireAppbits.lean — the known-finding region `c03_twobyte_appbits`: a two-byte block
  with non-zero appbits has the same bytes as an RFC 3550 block with that profile, and that is
  how the decoder reads it.
-/
import Rtp.Proofs.WireAgree
namespace Rtp.Proofs.Wire
open Rtp Rtp.Model Rtp.Spec.Wire Rtp.Pred.C03
open Rtp.Pred.C01 (canonP canonH)

theorem appbits_profile : ∀ a : Fin 16, a.val ≠ 0 →
    (0x1000 + a.val).toUInt16 ≠ 0xBEDE ∧ (0x1000 + a.val).toUInt16 ≠ 0x1000 := by
  decide +kernel

/-- how the library reads a two-byte block with non-zero appbits: as this legacy block -/
def asLegacy (a : UInt8) (items : List Item) : ExtBlock :=
  .legacy (0x1000 + a.toNat).toUInt16 (body2 items ++ rep (padTo4 (body2 items).length) 0)

theorem asLegacy_encode (a : UInt8) (items : List Item) :
    (asLegacy a items).encode = (ExtBlock.twoByte a items).encode := by
  obtain ⟨hm, _⟩ := padTo4_facts (body2 items).length
  have hl : (body2 items ++ rep (padTo4 (body2 items).length) 0).length = (body2 items).length + padTo4 (body2 items).length := by
    simp [rep]
  have hp : padTo4 ((body2 items).length + padTo4 (body2 items).length) = 0 := by
    unfold padTo4 at hm ⊢; omega
  simp only [asLegacy, ExtBlock.encode, ExtBlock.body, ExtBlock.profile, hl, hp, Nat.add_zero, List.append_assoc]
  simp [rep]

theorem elems_ne_legacy (items : List Item) (h : items.all Item.wf2 = true) (ws : Bytes) :
    elems items ≠ [{ id := 0, payload := ws }] := by
  intro he
  induction items with
  | nil => simp [elems] at he
  | cons it r ih =>
    simp only [List.all_cons, Bool.and_eq_true] at h
    cases it with
    | pad => exact ih h.2 (by simpa [elems] using he)
    | elem id d =>
      simp only [elems, List.cons.injEq, Ext.mk.injEq] at he
      have := h.1
      simp only [Item.wf2, Bool.and_eq_true, decide_eq_true_eq] at this
      rw [he.1.1] at this
      simp at this

/-- in the appbits region the decoder returns the block as ONE opaque element with id 0 -/
theorem appbits_decode (w : Wire) (a : UInt8) (items : List Item) (hext : w.ext = some (.twoByte a items))
    (hw : w.WF = true) (ha : a ≠ 0) :
    ∃ p, pktUnmarshal {} w.encode = .ok p ∧
      p.header.exts = [{ id := 0, payload := body2 items ++ rep (padTo4 (body2 items).length) 0 }] := by
  let w' : Wire := { w with ext := some (asLegacy a items) }
  have henc : w'.encode = w.encode := by
    simp only [Wire.encode, w', hext, Option.isSome_some, encodeExt, asLegacy_encode]
  have hwf := hw
  simp only [Wire.WF, Bool.and_eq_true, hext, ExtBlock.WF, decide_eq_true_eq] at hwf
  obtain ⟨⟨⟨⟨hv, hpt⟩, hcc⟩, ⟨⟨ha16, hitems⟩, hlen⟩⟩, hpad⟩ := hwf
  have han : a.toNat ≠ 0 := by
    intro h0; apply ha; exact UInt8.toNat_inj.mp (by simpa using h0)
  obtain ⟨p1, p2⟩ := appbits_profile ⟨a.toNat, ha16⟩ han
  obtain ⟨hm, hlt⟩ := padTo4_facts (body2 items).length
  have hok : wireOk w' = true := by
    simp only [wireOk, w', Bool.and_eq_true, decide_eq_true_eq, asLegacy, blockOk, bne_iff_ne, ne_eq, beq_iff_eq,
      List.length_append, rep, List.length_replicate]
    refine ⟨⟨⟨⟨hv, hpt⟩, hcc⟩, ⟨⟨⟨p1, p2⟩, hm⟩, ?_⟩⟩, hpad⟩
    simp only [maxBody] at hlen ⊢; omega
  have hu : wireUnread w' = 0 := by simp [wireUnread, w', asLegacy, blockUnread, ExtBlock.ignored]
  have := pktUnmarshal_encode w' {} hok hu
  rw [henc] at this
  exact ⟨_, this, by simp [hdrOf, Wire.toPacket, w', asLegacy, ExtBlock.elements]⟩

theorem appbits_fails (w : Wire) (hw : w.WF = true) (ha : w.appbits = true) (qs : List UInt8) (prev : Bytes) :
    acceptsOK w (modelObs w.encode qs prev) = false := by
  cases hx : w.ext with
  | none => simp [Wire.appbits, hx] at ha
  | some b =>
    cases b with
    | oneByte items stop => simp [Wire.appbits, hx, ExtBlock.appbits] at ha
    | legacy p ws => simp [Wire.appbits, hx, ExtBlock.appbits] at ha
    | twoByte a items =>
      have ha' : a ≠ 0 := by simpa [Wire.appbits, hx, ExtBlock.appbits] using ha
      obtain ⟨p, h1, h2⟩ := appbits_decode w a items hx hw ha'
      have hitems : items.all Item.wf2 = true := by
        simp only [Wire.WF, Bool.and_eq_true, hx, ExtBlock.WF] at hw; exact hw.1.2.1.2
      simp only [acceptsOK, modelObs, h1, Res.map, Res.coarse]
      rw [Bool.and_eq_false_iff]; left
      rw [Bool.and_eq_false_iff]; left
      rw [beq_eq_false_iff_ne]
      intro hc
      injection hc with hc
      have := congrArg (fun q => q.header.exts) hc
      have hxp : p.header.extension = true := by
        have := congrArg (fun q => q.header.extension) hc
        simp only [canonP, canonH] at this
        split at this <;> simp_all [Wire.toPacket]
      simp only [canonP, canonH, hxp, ↓reduceIte, h2, Wire.toPacket, hx, Option.isSome_some, ExtBlock.elements] at this
      exact elems_ne_legacy items hitems _ this.symm

/-! ### the packet decoder with unread block bytes (reserved-id region) -/

/-- general form: the payload starts `wireUnread w` bytes before the end of the header bytes, so
    the unread block bytes come out in front of the payload -/
theorem pktUnmarshal_encode_gen (w : Wire) (r : Packet) (h : wireOk w = true) :
    pktUnmarshal r w.encode =
      .ok { header := hdrOf r.header w,
            payload := (headBytes w).drop (w.extEnd - wireUnread w) ++ w.payload,
            paddingSize := w.toPacket.paddingSize } := by
  have hpad : (match w.pad with | some f => decide (f.length ≤ 254) | none => true) = true := by
    simp only [wireOk, Bool.and_eq_true] at h; exact h.2
  have hH := headBytes_length w
  generalize hn : w.extEnd - wireUnread w = n
  have hnle : n ≤ (headBytes w).length := by omega
  simp only [pktUnmarshal, hdrUnmarshal_encode w r.header h, hn]
  have hp : (hdrOf r.header w).padding = w.pad.isSome := by simp [hdrOf, Wire.toPacket]
  rw [hp, encode_split]
  have hdrop : ∀ tail : Bytes, (headBytes w ++ tail).drop n = (headBytes w).drop n ++ tail := by
    intro tail; rw [List.drop_append_of_le_length hnle]
  cases hx : w.pad with
  | none =>
    simp only [Option.isSome_none, Bool.false_eq_true, ↓reduceIte, encodePad, List.append_nil, hdrop]
    simp [Wire.toPacket, hx]
  | some f =>
    simp only [hx, decide_eq_true_eq] at hpad
    have hc : (f.length + 1).toUInt8.toNat = f.length + 1 := by simp [Nat.toUInt8]; omega
    have hlast : (headBytes w ++ (w.payload ++ encodePad (some f))).getLastD 0 = (f.length + 1).toUInt8 := by
      simp only [encodePad]
      rw [← List.append_assoc, ← List.append_assoc]
      simp
    simp only [Option.isSome_some, ↓reduceIte, hlast, hc]
    have hl : (headBytes w ++ (w.payload ++ encodePad (some f))).length = (headBytes w).length + w.payload.length + f.length + 1 := by
      simp [encodePad]; omega
    have h1 : ¬ ((headBytes w).length + w.payload.length + f.length + 1 ≤ n) := by omega
    have h2 : ¬ ((headBytes w).length + w.payload.length + f.length + 1 < n + (f.length + 1)) := by omega
    simp only [hl, h1, h2, ↓reduceIte]
    have hs : slice (headBytes w ++ (w.payload ++ encodePad (some f))) n
        ((headBytes w).length + w.payload.length + f.length + 1 - (f.length + 1)) = (headBytes w).drop n ++ w.payload := by
      simp only [slice, hdrop, encodePad]
      have e : (headBytes w).length + w.payload.length + f.length + 1 - (f.length + 1) - n =
          ((headBytes w).drop n ++ w.payload).length := by simp; omega
      rw [e, ← List.append_assoc, List.take_left]
    rw [hs]
    simp [Wire.toPacket, hx]


theorem take_extEnd (w : Wire) : w.encode.take w.extEnd = headBytes w := by
  rw [encode_split, ← headBytes_length, List.take_left]

end Rtp.Proofs.Wire
