/-
  Rtp/Proofs/PipelineCodecs.lean — the codec-specific halves of the end-to-end composition: for each
  payloader / depacketizer pair, what Rtp/Proofs/Pipeline.lean asks of a codec (`PayFits`: the
  fragments respect the budget — C08; `DepOk`: the depacketizer accepts them all and returns the
  frame — C16 / C11 / C12; for H264 the history-level statement of C10).
-/
import Rtp.Proofs.Pipeline
import Rtp.Proofs.Audio
import Rtp.Proofs.VP8Pay
import Rtp.Proofs.VP8Own
import Rtp.Proofs.VP9Pay
import Rtp.Proofs.H264History
import Rtp.Proofs.H264Size
import Rtp.Proofs.H264Decoder
namespace Rtp.Proofs.Pipeline
open Rtp Rtp.Model Rtp.Model.Pipeline Rtp.Pred.Pipeline

/-- establishing `PayOk` along a history from a state invariant `I` and a frame domain `D` -/
theorem payOk_of {σ} (pay : Pay σ) (B : UInt16) (Inv : σ → Bytes → Prop) (I : σ → Prop) (D : Bytes → Prop)
    (hInv : ∀ st fr, I st → D fr → Inv st fr) (hstep : ∀ st fr, I st → D fr → I (pay st B fr).2) :
    ∀ (fs : List FrameIn) (st : σ), I st → (∀ f ∈ fs, D f.frame) → PayOk pay B Inv st fs := by
  intro fs
  induction fs with
  | nil => intro st _ _; trivial
  | cons f fs ih =>
    intro st hi hd
    exact ⟨hInv _ _ hi (hd f (by simp)),
      ih _ (hstep _ _ hi (hd f (by simp))) (fun g hg => hd g (by simp [hg]))⟩

theorem framesNonEmpty_iff (fs : List FrameIn) (h : framesNonEmpty fs = true) : ∀ f ∈ fs, f.frame ≠ [] := by
  intro f hf
  have := (List.all_eq_true.mp h) f hf
  intro he; simp [he] at this

theorem vp8State_eq (enable : Bool) (k : Nat) : vp8State enable k = Rtp.Proofs.VP8.payState enable k := rfl

theorem isEmpty_false_of_ne {l : Bytes} (h : l ≠ []) : l.isEmpty = false := by
  cases l with
  | nil => exact absurd rfl h
  | cons _ _ => rfl

theorem ne_of_toNat_pos {b : UInt16} (h : 0 < b.toNat) : b ≠ 0 := by
  intro h0; rw [h0] at h; exact absurd h (by decide)

/-! ### a depacketizer that accepts every fragment and strips nothing: outputs = fragments -/

theorem depackAll_raw : ∀ (l : List Bytes), depackAll rawDepack () l = (l.map Res.ok, ()) := by
  intro l
  induction l with
  | nil => rfl
  | cons a l ih => simp [depackAll, rawDepack, ih]

theorem flatMap_resBytes_ok (l : List Bytes) : (l.map Res.ok).flatMap resBytes = l.flatten := by
  induction l with
  | nil => rfl
  | cons a l ih => simp [resBytes, ih]

theorem all_isOk_ok (l : List Bytes) : (l.map Res.ok).all Res.isOk = true := by
  induction l with
  | nil => rfl
  | cons a l ih => simp [Res.isOk]

/-! ### G.711 / G.722 -/

/-- domain: a non-empty frame (C16: every input, MTU ≥ 1) -/
def g711Inv : Unit → Bytes → Prop := fun _ frame => frame ≠ []

theorem g711_fits (B : UInt16) (hB : B ≠ 0) : PayFits g711Pay B g711Inv := by
  intro st frame hne
  have hk : B.toNat ≠ 0 := by
    intro h; apply hB; exact UInt16.toNat_inj.mp (by simpa using h)
  refine ⟨isEmpty_false_of_ne hne, ?_⟩
  simp only [g711Pay, g711Payload, hk, dite_false]
  exact Rtp.Model.splitGt_le _ _ _

theorem g711_dep (B : UInt16) (hB : B ≠ 0) : DepOk g711Pay rawDepack B g711Inv := by
  intro st frame r _
  have hk : B.toNat ≠ 0 := by
    intro h; apply hB; exact UInt16.toNat_inj.mp (by simpa using h)
  cases r
  simp only [depackAll_raw, all_isOk_ok, flatMap_resBytes_ok, true_and]
  simp only [g711Pay, g711Payload, hk, dite_false]
  exact Rtp.Model.splitGt_flatten _ _ _

/-! ### Opus -/

/-- domain: a non-empty frame that fits one packet (the Opus payloader never fragments) -/
def opusInv (B : UInt16) : Unit → Bytes → Prop := fun _ frame => frame ≠ [] ∧ frame.length ≤ B.toNat

theorem opus_fits (B : UInt16) : PayFits opusPay B (opusInv B) := by
  intro st frame h
  refine ⟨isEmpty_false_of_ne h.1, ?_⟩
  intro x hx
  simp only [opusPay, opusPayload, List.mem_singleton] at hx
  subst hx; exact h.2

theorem opus_dep (B : UInt16) : DepOk opusPay opusDepack B (opusInv B) := by
  intro st frame r h
  cases frame with
  | nil => exact absurd rfl h.1
  | cons a t => simp [opusPay, opusPayload, depackAll, opusDepack, opusUnmarshal, Res.isOk, resBytes]

/-! ### VP8 -/

open Rtp.Proofs.VP8 in
/-- domain: the payloader has packetized `k` frames (for some `k`), the frame is non-empty and the
    budget exceeds the descriptor the payloader will write (1 octet, or 3 / 4 with picture ids) -/
def vp8Inv (enable : Bool) (B : UInt16) : VP8Pay → Bytes → Prop := fun st frame =>
  frame ≠ [] ∧ ∃ k, st = payState enable k ∧ Rtp.Pred.C11.hdrLen enable k < B.toNat

theorem vp8_fits (enable : Bool) (B : UInt16) : PayFits vp8Pay B (vp8Inv enable B) := by
  intro st frame h
  refine ⟨isEmpty_false_of_ne h.1, ?_⟩
  intro x hx
  exact (Rtp.Proofs.VP8.payload_frag st B (some frame) x hx).1

open Rtp.Proofs.VP8 in
theorem depackAll_vp8_map (enable : Bool) (k : Nat) (first : Bool) : ∀ (cs : List Bytes) (p : VP8Packet),
    (depackAll vp8Depack p (cs.map (fun c => (payDesc enable k first).encode ++ c))).1 = cs.map Res.ok := by
  intro cs
  induction cs with
  | nil => intro p; rfl
  | cons c cs ih =>
    intro p
    simp only [List.map_cons, depackAll, vp8Depack, unmarshal_encode _ (payDesc_wf enable k first), ih]

open Rtp.Proofs.VP8 in
theorem vp8_dep (enable : Bool) (B : UInt16) : DepOk vp8Pay vp8Depack B (vp8Inv enable B) := by
  intro st frame r h
  obtain ⟨hne, k, rfl, hm⟩ := h
  obtain ⟨c, cs, _, hp, hfl, _, _⟩ := payload_spec enable k B frame hm hne
  have : (depackAll vp8Depack r (vp8Pay (payState enable k) B frame).1).1 = (c :: cs).map Res.ok := by
    show (depackAll vp8Depack r (vp8Payload (payState enable k) B (some frame)).1).1 = _
    rw [hp]
    simp only [depackAll, vp8Depack, unmarshal_encode _ (payDesc_wf enable k true), List.map_cons]
    rw [depackAll_vp8_map]
  rw [this]
  exact ⟨all_isOk_ok _, by rw [flatMap_resBytes_ok]; exact hfl⟩

open Rtp.Proofs.VP8 in
theorem vp8_next (enable : Bool) (B : UInt16) (k : Nat) (frame : Bytes)
    (hm : Rtp.Pred.C11.hdrLen enable k < B.toNat) (hne : frame ≠ []) :
    (vp8Pay (payState enable k) B frame).2 = payState enable (k + 1) := by
  show (vp8Payload (payState enable k) B (some frame)).2 = _
  rw [payload_proper enable k B frame hm hne]

theorem vp8_hdrLen_le (enable : Bool) (k : Nat) : Rtp.Pred.C11.hdrLen enable k ≤ vp8MaxHdr enable := by
  simp only [Rtp.Pred.C11.hdrLen, vp8MaxHdr]
  cases enable <;> simp <;> split <;> omega

open Rtp.Proofs.VP8 in
/-- a history of non-empty frames from a payloader that has sent `k` frames, budget above the
    longest descriptor: the hypotheses hold along the whole history -/
theorem vp8_payOk (enable : Bool) (B : UInt16) (hB : vp8MaxHdr enable < B.toNat) (fs : List FrameIn) (k : Nat)
    (hne : ∀ f ∈ fs, f.frame ≠ []) : PayOk vp8Pay B (vp8Inv enable B) (payState enable k) fs := by
  refine payOk_of vp8Pay B (vp8Inv enable B) (fun st => ∃ k, st = payState enable k) (fun fr => fr ≠ [])
    ?_ ?_ fs _ ⟨k, rfl⟩ hne
  · intro st fr ⟨k, hk⟩ hd
    exact ⟨hd, k, hk, Nat.lt_of_le_of_lt (vp8_hdrLen_le enable k) hB⟩
  · intro st fr ⟨k, hk⟩ hd
    subst hk
    exact ⟨k + 1, vp8_next enable B k fr (Nat.lt_of_le_of_lt (vp8_hdrLen_le enable k) hB) hd⟩

/-! ### VP9, flexible mode -/

open Rtp.Proofs.VP9 in
/-- domain: flexible mode, the payloader is new or has a picture id below 2^15, the frame is
    non-empty, the budget exceeds the 3-octet descriptor -/
def vp9FlexInv (B : UInt16) : VP9Pay → Bytes → Prop := fun st frame =>
  frame ≠ [] ∧ 3 < B.toNat ∧ st.flexible = true ∧ vp9Pid st < 32768

theorem vp9_fits (B : UInt16) : PayFits vp9Pay B (vp9FlexInv B) := by
  intro st frame h
  refine ⟨isEmpty_false_of_ne h.1, ?_⟩
  intro x hx
  exact (Rtp.Proofs.VP9.payload_frag st B (some frame) x hx).1

/-- the results `C12.obsFrags` records are the depacketizer run's, error kinds forgotten -/
theorem obsFrags_res : ∀ (l : List Bytes) (p : VP9Packet),
    (Rtp.Pred.C12.obsFrags p l).1.map (·.res) = (depackAll vp9Depack p l).1.map Res.coarse := by
  intro l
  induction l with
  | nil => intro p; rfl
  | cons a l ih =>
    intro p
    simp only [Rtp.Pred.C12.obsFrags, depackAll, vp9Depack, List.map_cons, ih]

theorem coarse_isOk (l : List (Res Bytes)) : (l.map Res.coarse).all Res.isOk = l.all Res.isOk := by
  induction l with
  | nil => rfl
  | cons a l ih => cases a <;> simp [Res.coarse, Res.isOk, ih]

theorem coarse_resBytes (l : List (Res Bytes)) : (l.map Res.coarse).flatMap resBytes = l.flatMap resBytes := by
  induction l with
  | nil => rfl
  | cons a l ih => cases a <;> simp [Res.coarse, resBytes, ih]

theorem fragPayload_eq (l : List Rtp.Pred.C12.FragObs) :
    (l.map Rtp.Pred.C12.fragPayload).flatten = (l.map (·.res)).flatMap resBytes := by
  induction l with
  | nil => rfl
  | cons a l ih =>
    simp only [List.map_cons, List.flatten_cons, List.flatMap_cons, ih]
    congr 1

theorem mask15_lt (x : UInt16) : x &&& 0x7FFF < 32768 := by
  rw [Rtp.Proofs.VP9.mask15, UInt16.lt_iff_toNat_lt]
  simp only [Nat.toUInt16, UInt16.toNat_ofNat', UInt16.reduceToNat]
  omega

theorem vp9_dep (B : UInt16) : DepOk vp9Pay vp9Depack B (vp9FlexInv B) := by
  intro st frame r h
  obtain ⟨hne, hB, hflex, hpid⟩ := h
  have hp : (vp9Pay st B frame).1 = vp9PayloadFlexible (vp9Pid st) B.toNat frame := by
    show (vp9Payload st B (some frame)).1 = _
    rw [Rtp.Proofs.VP9.payload_fst, hflex]; rfl
  have hlt : (vp9Pid st).toNat < 32768 := by
    have := UInt16.lt_iff_toNat_lt.mp hpid; simpa using this
  have hcast : (vp9Pid st).toNat.toUInt16 = vp9Pid st := by
    apply UInt16.toNat_inj.mp
    simp only [Nat.toUInt16, UInt16.toNat_ofNat']
    have := (vp9Pid st).toNat_lt; omega
  have hf := Rtp.Proofs.VP9.flex_frameOk (vp9Pid st).toNat hlt none B.toNat frame hB hne r
  rw [hcast] at hf
  simp only [Rtp.Pred.C12.frameOk, Bool.and_eq_true, beq_iff_eq] at hf
  obtain ⟨⟨⟨⟨_, hall⟩, _⟩, hflat⟩, _⟩ := hf
  rw [hp]
  have hres := obsFrags_res (vp9PayloadFlexible (vp9Pid st) B.toNat frame) r
  constructor
  · rw [← coarse_isOk, ← hres]
    simp only [List.all_map, List.all_eq_true] at hall ⊢
    intro x hx
    have := hall x hx
    simp only [Rtp.Pred.C12.fragOk, Bool.and_eq_true] at this
    exact this.1.1.1.1.1
  · rw [← coarse_resBytes, ← hres, ← fragPayload_eq]
    exact hflat

/-- the payloader stays in the domain: flexible, picture id below 2^15 -/
theorem vp9_next (B : UInt16) (st : VP9Pay) (frame : Bytes) (hflex : st.flexible = true) :
    (vp9Pay st B frame).2.flexible = true ∧ vp9Pid (vp9Pay st B frame).2 < 32768 := by
  show (vp9Payload st B (some frame)).2.flexible = true ∧ vp9Pid (vp9Payload st B (some frame)).2 < 32768
  unfold vp9Payload
  simp only [vp9Pid]
  cases hi : st.initialized <;> simp only [hi, Bool.false_eq_true, if_false, if_true, hflex] <;>
  (refine ⟨trivial, ?_⟩
   split
   · decide
   · rename_i hge
     simp only [ge_iff_le, UInt16.le_iff_toNat_le, UInt16.lt_iff_toNat_lt, UInt16.reduceToNat] at hge ⊢
     omega)

/-! ### H264 -/

theorem H264Frame.WF_of_wf (fr : H264Frame) (h : fr.wf = true) : fr.WF := by
  simp only [H264Frame.wf, Bool.and_eq_true, Bool.or_eq_true, Bool.not_eq_true', beq_iff_eq, List.all_eq_true] at h
  refine ⟨?_, ?_, h.2⟩
  · intro he; simp [he] at h
  · intro hb; rcases h.1.2 with h' | h'
    · rw [hb] at h'; cases h'
    · exact h'

open Rtp.Model.H264 Rtp.Spec.Rfc6184 Rtp.Pred in
theorem h264_buffer_ne (fr : H264Frame) (hw : fr.WF) : fr.buffer ≠ [] := by
  obtain ⟨hne, hb, hu⟩ := hw
  simp only [H264Frame.buffer, H264Frame.call, C10.RtCall.buffer]
  cases hunits : fr.units with
  | nil => exact absurd hunits hne
  | cons u us =>
    obtain ⟨four, n⟩ := u
    have hn : nalWF n = true := hu (four, n) (by simp [hunits])
    have hn' : n ≠ [] := (Rtp.Proofs.H264.nalOk_of_wf n hn).1
    by_cases hbare : fr.bare = true
    · simp [hbare, hn']
    · cases four <;> simp [hbare, annexB]

/-- domain of one call: any payloader state, a non-empty buffer -/
def h264Inv : H264.PayState → Bytes → Prop := fun _ frame => frame ≠ []

theorem h264_fits (disable : Bool) (B : UInt16) : PayFits (h264Pay disable) B h264Inv := by
  intro st frame h
  refine ⟨isEmpty_false_of_ne h, ?_⟩
  intro x hx
  exact (Rtp.Proofs.H264.payload_bounded disable B st frame x hx).2

theorem h264_payOk (disable : Bool) (B : UInt16) (frames : List H264Frame) (hw : ∀ fr ∈ frames, fr.WF)
    (st : H264.PayState) :
    PayOk (h264Pay disable) B h264Inv st (frames.map H264Frame.frameIn) := by
  refine payOk_of (h264Pay disable) B h264Inv (fun _ => True) (fun fr => fr ≠ []) (fun _ _ _ h => h)
    (fun _ _ _ _ => trivial) _ st trivial ?_
  intro f hf
  obtain ⟨fr, hfr, rfl⟩ := List.mem_map.mp hf
  exact h264_buffer_ne fr (hw fr hfr)

open Rtp.Model.H264.Obs in
/-- the fragments of a history of frames are C10's `fragsCalls` of the corresponding calls -/
theorem h264_fragsHist (disable : Bool) (B : UInt16) : ∀ (frames : List H264Frame) (st : H264.PayState),
    fragsHist (h264Pay disable) B st (frames.map H264Frame.frameIn) =
      fragsCalls disable st (frames.map (H264Frame.call B)) := by
  intro frames
  induction frames with
  | nil => intro st; rfl
  | cons fr frs ih =>
    intro st
    simp only [List.map_cons, fragsHist, fragsCalls, ih]
    rfl

/-- one H264Packet receiver fed with payloads in order is C10's `run` -/
theorem h264_depackAll (avc : Bool) : ∀ (ps : List Bytes) (buf : Bytes),
    depackAll (h264Depack avc) buf ps = H264.run avc buf ps := by
  intro ps
  induction ps with
  | nil => intro buf; rfl
  | cons p ps ih => intro buf; simp only [depackAll, H264.run, h264Depack, ih]

theorem all_of_forall_isOk (l : List (Res Bytes)) (h : ∀ r ∈ l, r.isOk = true) : l.all Res.isOk = true := by
  simpa [List.all_eq_true] using h

theorem resBytes_eq : resBytes = Rtp.Pred.C10.resBytes := by
  funext r; cases r <;> rfl

end Rtp.Proofs.Pipeline
