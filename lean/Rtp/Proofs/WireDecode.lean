/-
  Rtp/Proofs/WireDecode.lean — the specification's own decoder (Spec/WireDecode.lean, the oracle of
  kind `c03.mut`) is complete: it finds a description of every well-formed image again
  (`describe_encode`).  Soundness needs no proof: `Wire.describe` re-encodes and compares.
-/
import Rtp.Proofs.WireAppbits
import Rtp.Spec.WireDecode
namespace Rtp.Proofs.Wire
open Rtp Rtp.Model Rtp.Spec.Wire
open Rtp.Pred.C01 (canonP canonH)

def padItems (k : Nat) : List Item := List.replicate k .pad

theorem body1_append (a b : List Item) : body1 (a ++ b) = body1 a ++ body1 b := by
  simp [body1]
theorem body2_append (a b : List Item) : body2 (a ++ b) = body2 a ++ body2 b := by
  simp [body2]
theorem body1_padItems (k : Nat) : body1 (padItems k) = rep k 0 := by
  induction k with
  | zero => rfl
  | succ k ih => simp only [padItems, List.replicate_succ, body1_pad, rep] at ih ⊢; rw [ih]
theorem body2_padItems (k : Nat) : body2 (padItems k) = rep k 0 := by
  induction k with
  | zero => rfl
  | succ k ih => simp only [padItems, List.replicate_succ, body2_pad, rep] at ih ⊢; rw [ih]

theorem items1_pads (k fuel : Nat) (hf : k < fuel) : items1 fuel (rep k 0) = some (padItems k, none) := by
  induction k generalizing fuel with
  | zero => cases fuel with
    | zero => omega
    | succ f => simp [rep, items1, padItems]
  | succ k ih =>
    cases fuel with
    | zero => omega
    | succ f =>
      simp only [rep, List.replicate_succ, items1, beq_self_eq_true, ↓reduceIte]
      have := ih f (by omega)
      simp only [rep] at this
      simp [this, padItems, List.replicate_succ]

theorem stop_decode : ∀ (n : Fin 16),
    let b : UInt8 := (15 * 16 + n.val).toUInt8
    (b == 0) = false ∧ b.toNat / 16 = 15 ∧ (b.toNat % 16).toUInt8 = n.val.toUInt8 := by
  decide +kernel

theorem hdr1_decode : ∀ (id : Fin 15) (l : Fin 16), ¬ (id.val = 0 ∧ l.val = 0) →
    let b : UInt8 := (id.val * 16 + l.val).toUInt8
    (b == 0) = false ∧ b.toNat / 16 = id.val ∧ b.toNat % 16 = l.val := by
  decide +kernel

/-- the specification's one-byte item reader on an encoded item list followed by a tail it reads as `tr` -/
theorem items1_body (items : List Item) (tail : Bytes) (tr : List Item × Option (UInt8 × Bytes))
    (h : items.all Item.ok1 = true) (fuel : Nat) (hf : (body1 items ++ tail).length < fuel)
    (ht : ∀ f, tail.length < f → items1 f tail = some tr) :
    items1 fuel (body1 items ++ tail) = some (items ++ tr.1, tr.2) := by
  induction items generalizing fuel with
  | nil => simpa using ht fuel (by simpa using hf)
  | cons it r ih =>
    simp only [List.all_cons, Bool.and_eq_true] at h
    obtain ⟨hit, hr⟩ := h
    cases fuel with
    | zero => omega
    | succ f =>
      cases it with
      | pad =>
        simp only [body1_pad, List.cons_append, items1, beq_self_eq_true, ↓reduceIte]
        rw [ih hr f (by simp only [body1_pad, List.cons_append, List.length_cons] at hf; omega)]
        rfl
      | elem id d =>
        simp only [Item.ok1, Bool.and_eq_true, decide_eq_true_eq, Bool.not_eq_true'] at hit
        obtain ⟨⟨⟨hid, h1⟩, h16⟩, hnz⟩ := hit
        have hne : ¬ (id.toNat = 0 ∧ d.length - 1 = 0) := by
          intro hc
          have : id = 0 := UInt8.toNat_inj.mp (by simpa using hc.1)
          subst this
          have : d.length = 1 := by omega
          simp [this] at hnz
        obtain ⟨fa, fb, fc⟩ := hdr1_decode ⟨id.toNat, by omega⟩ ⟨d.length - 1, by omega⟩ hne
        simp only at fa fb fc
        simp only [body1_elem, List.cons_append, List.append_assoc, items1, fa, Bool.false_eq_true, ↓reduceIte, fb, fc]
        have e15 : (id.toNat == 15) = false := by
          rw [Bool.eq_false_iff]; intro hc; simp at hc; omega
        have elen : d.length - 1 + 1 = d.length := by omega
        simp only [e15, Bool.false_eq_true, ↓reduceIte, elen]
        have hlen : ¬ (d ++ (body1 r ++ tail)).length < d.length := by simp
        simp only [hlen, ↓reduceIte, List.drop_left, List.take_left]
        rw [ih hr f (by simp only [body1_elem, List.cons_append, List.length_cons, List.length_append] at hf ⊢; omega)]
        simp
theorem items2_pads (k fuel : Nat) (hf : k < fuel) : items2 fuel (rep k 0) = some (padItems k) := by
  induction k generalizing fuel with
  | zero => cases fuel with
    | zero => omega
    | succ f => simp [rep, items2, padItems]
  | succ k ih =>
    cases fuel with
    | zero => omega
    | succ f =>
      simp only [rep, List.replicate_succ, items2, beq_self_eq_true, ↓reduceIte]
      have := ih f (by omega)
      simp only [rep] at this
      simp [this, padItems, List.replicate_succ]

theorem items2_body (items : List Item) (k : Nat) (h : items.all Item.ok2 = true) (fuel : Nat)
    (hf : (body2 items ++ rep k 0).length < fuel) :
    items2 fuel (body2 items ++ rep k 0) = some (items ++ padItems k) := by
  induction items generalizing fuel with
  | nil => simpa using items2_pads k fuel (by simpa [rep] using hf)
  | cons it r ih =>
    simp only [List.all_cons, Bool.and_eq_true] at h
    obtain ⟨hit, hr⟩ := h
    cases fuel with
    | zero => omega
    | succ f =>
      cases it with
      | pad =>
        simp only [body2_pad, List.cons_append, items2, beq_self_eq_true, ↓reduceIte]
        rw [ih hr f (by simp only [body2_pad, List.cons_append, List.length_cons] at hf; omega)]
        rfl
      | elem id d =>
        simp only [Item.ok2, Bool.and_eq_true, decide_eq_true_eq, bne_iff_ne, ne_eq] at hit
        obtain ⟨hid, h255⟩ := hit
        have hl : d.length.toUInt8.toNat = d.length := by simp [Nat.toUInt8]; omega
        have hid' : (id == 0) = false := by simpa using hid
        simp only [body2_elem, List.cons_append, List.append_assoc, items2, hid', Bool.false_eq_true, ↓reduceIte, hl]
        have hlen : ¬ (d ++ (body2 r ++ rep k 0)).length < d.length := by simp
        simp only [hlen, ↓reduceIte, List.drop_left, List.take_left]
        rw [ih hr f (by simp only [body2_elem, List.cons_append, List.length_cons, List.length_append] at hf ⊢; omega)]
        simp

/-- the description the oracle returns: alignment pads made explicit -/
def normBlock : ExtBlock → ExtBlock
  | .oneByte items none => .oneByte (items ++ padItems (padTo4 (body1 items).length)) none
  | .oneByte items (some (n, rest)) =>
    .oneByte items (some (n, rest ++ rep (padTo4 (body1 items ++ stopBytes (some (n, rest))).length) 0))
  | .twoByte a items => .twoByte a (items ++ padItems (padTo4 (body2 items).length))
  | .legacy p ws => .legacy p ws

theorem normBlock_body (b : ExtBlock) (h4 : ∀ p ws, b = .legacy p ws → ws.length % 4 = 0) :
    (normBlock b).body = b.body ++ rep (padTo4 b.body.length) 0 := by
  cases b with
  | oneByte items stop =>
    cases stop with
    | none => simp [normBlock, ExtBlock.body, stopBytes, body1_append, body1_padItems]
    | some st => obtain ⟨n, rest⟩ := st; simp [normBlock, ExtBlock.body, stopBytes]
  | twoByte a items => simp [normBlock, ExtBlock.body, body2_append, body2_padItems]
  | legacy p ws =>
    have := h4 p ws rfl
    have e : padTo4 ws.length = 0 := by unfold padTo4; omega
    simp [normBlock, ExtBlock.body, e, rep]

theorem appbits_range : ∀ k : Fin 16, ((0x1000 + k.val).toUInt16 &&& 0xFFF0) = 0x1000 ∧
    ((0x1000 + k.val).toUInt16 == 0xBEDE) = false ∧ (0x1000 + k.val).toUInt16.toNat / 16 = 0x100 ∧
    (0x1000 + k.val).toUInt16.toNat % 16 = k.val := by
  decide +kernel

theorem legacy_not_twobyte (p : UInt16) (h : ((p &&& 0xFFF0) != 0x1000) = true) : (p.toNat / 16 == 0x100) = false := by
  rw [Bool.eq_false_iff]
  intro hc
  simp only [beq_iff_eq] at hc
  have hp := p.toNat_lt
  have : p = (0x1000 + (p.toNat - 0x1000)).toUInt16 := by
    apply UInt16.toNat_inj.mp
    simp [Nat.toUInt16]; omega
  obtain ⟨a, _⟩ := appbits_range ⟨p.toNat - 0x1000, by omega⟩
  simp only at a
  rw [← this] at a
  simp [a] at h

/-- the oracle's block reader finds the (normalised) description of a well-formed block again -/
theorem decodeBlock_encode (b : ExtBlock) (hw : b.WF = true) :
    decodeBlock b.profile (b.body ++ rep (padTo4 b.body.length) 0) = some (normBlock b) := by
  cases b with
  | oneByte items stop =>
    simp only [ExtBlock.WF, Bool.and_eq_true, List.all_eq_true] at hw
    have hok : items.all Item.ok1 = true := by
      rw [List.all_eq_true]; intro x hx; exact ok1_of_wf1 x (hw.1.1 x hx)
    simp only [decodeBlock, ExtBlock.profile, beq_self_eq_true, ↓reduceIte, ExtBlock.body, List.append_assoc]
    cases stop with
    | none =>
      simp only [stopBytes, List.nil_append, List.append_nil]
      rw [items1_body items (rep (padTo4 (body1 items).length) 0) (padItems (padTo4 (body1 items).length), none) hok _
        (Nat.lt_succ_self _) (fun f hf => items1_pads _ f (by simpa [rep] using hf))]
      simp [normBlock]
    | some st =>
      obtain ⟨n, rest⟩ := st
      have hn : n.toNat < 16 := by simpa [stopWF] using hw.1.2
      obtain ⟨sa, sb, sc⟩ := stop_decode ⟨n.toNat, hn⟩
      simp only at sa sb sc
      rw [items1_body items _ ([], some (n, rest ++ rep (padTo4 (body1 items ++ stopBytes (some (n, rest))).length) 0)) hok _
        (Nat.lt_succ_self _)]
      · simp [normBlock]
      · intro f hf
        cases f with
        | zero => omega
        | succ f =>
          simp only [stopBytes, List.cons_append, items1, sa, Bool.false_eq_true, ↓reduceIte, sb, beq_self_eq_true, sc]
          simp
  | twoByte a items =>
    simp only [ExtBlock.WF, Bool.and_eq_true, List.all_eq_true, decide_eq_true_eq] at hw
    have hok : items.all Item.ok2 = true := by
      rw [List.all_eq_true]; intro x hx; exact ok2_of_wf2 x (hw.1.2 x hx)
    obtain ⟨_, a2, a3, a4⟩ := appbits_range ⟨a.toNat, hw.1.1⟩
    simp only at a2 a3 a4
    simp only [decodeBlock, ExtBlock.profile, a2, Bool.false_eq_true, ↓reduceIte, a3, beq_self_eq_true, a4,
      ExtBlock.body, items2_body items _ hok _ (Nat.lt_succ_self _)]
    simp [normBlock]
  | legacy p ws =>
    simp only [ExtBlock.WF, Bool.and_eq_true, bne_iff_ne, ne_eq, beq_iff_eq, decide_eq_true_eq] at hw
    obtain ⟨⟨⟨h1, h2⟩, h3⟩, _⟩ := hw
    have e1 : (p == 0xBEDE) = false := by simpa using h1
    have e2 := legacy_not_twobyte p (by simpa using h2)
    have e3 : padTo4 ws.length = 0 := by unfold padTo4; omega
    simp [decodeBlock, ExtBlock.profile, e1, e2, ExtBlock.body, e3, rep, normBlock]

def normW (w : Wire) : Wire := { w with ext := w.ext.map normBlock }

theorem csrcs_eq (n : Nat) (l : Bytes) : csrcs n l = readCsrcs n l := by
  fun_induction readCsrcs n l with
  | case1 n a b c d rest ih => simp [csrcs, ih]
  | case2 n l h =>
    unfold csrcs
    split
    · rename_i n' a b c d rest
      exact (h n' a b c d rest rfl rfl).elim
    · rfl

theorem b2n_le (b : Bool) : b2n b ≤ 1 := by cases b <;> simp [b2n]

theorem bits0 (v p x c : Nat) (hv : v < 4) (hp : p ≤ 1) (hx : x ≤ 1) (hc : c ≤ 15) :
    (v * 64 + p * 32 + x * 16 + c) % 16 = c ∧ (v * 64 + p * 32 + x * 16 + c) / 64 = v ∧
    (v * 64 + p * 32 + x * 16 + c) / 32 % 2 = p ∧ (v * 64 + p * 32 + x * 16 + c) / 16 % 2 = x ∧
    v * 64 + p * 32 + x * 16 + c < 256 := by omega

theorem bits1 (m t : Nat) (hm : m ≤ 1) (ht : t < 128) :
    (m * 128 + t) / 128 = m ∧ (m * 128 + t) % 128 = t ∧ m * 128 + t < 256 := by omega

theorem b2n_beq (b : Bool) : (b2n b == 1) = b := by cases b <;> rfl

theorem decode_ext (ext : Option ExtBlock) (tail : Bytes)
    (hext : (match ext with | some b => b.WF | none => true) = true) :
    decodeExtPart ext.isSome (encodeExt ext ++ tail) = some (ext.map normBlock, tail) := by
  unfold decodeExtPart
  cases ext with
  | none => simp [encodeExt]
  | some b =>
    simp only at hext
    have hbody : b.body.length ≤ maxBody := by
      cases b with
      | oneByte items stop => simp only [ExtBlock.WF, Bool.and_eq_true, decide_eq_true_eq] at hext; exact hext.2
      | twoByte a items => simp only [ExtBlock.WF, Bool.and_eq_true, decide_eq_true_eq] at hext; exact hext.2
      | legacy p ws => simp only [ExtBlock.WF, Bool.and_eq_true, decide_eq_true_eq] at hext; exact hext.2
    obtain ⟨hm, hlt⟩ := padTo4_facts b.body.length
    have hwords : ((b.body.length + padTo4 b.body.length) / 4).toUInt16.toNat * 4 = b.body.length + padTo4 b.body.length := by
      simp only [maxBody] at hbody
      simp [Nat.toUInt16]; omega
    simp only [Option.isSome_some, ↓reduceIte, encodeExt, ExtBlock.encode, be16, List.cons_append, List.nil_append,
      List.append_assoc, rd16_be, hwords, Option.map_some]
    have hl : ¬ (b.body ++ (rep (padTo4 b.body.length) 0 ++ tail)).length < b.body.length + padTo4 b.body.length := by
      simp [rep]
    have hlen : b.body.length + padTo4 b.body.length = (b.body ++ rep (padTo4 b.body.length) 0).length := by simp [rep]
    have ht : (b.body ++ (rep (padTo4 b.body.length) 0 ++ tail)).take (b.body.length + padTo4 b.body.length) =
        b.body ++ rep (padTo4 b.body.length) 0 := by
      rw [← List.append_assoc, hlen, List.take_left]
    have hd : (b.body ++ (rep (padTo4 b.body.length) 0 ++ tail)).drop (b.body.length + padTo4 b.body.length) = tail := by
      rw [← List.append_assoc, hlen, List.drop_left]
    simp only [hl, ↓reduceIte, ht, hd, decodeBlock_encode b hext, Option.map_some]

theorem decode_pad (pad : Option Bytes) (payload : Bytes)
    (hpad : (match pad with | some f => decide (f.length ≤ 254) | none => true) = true) :
    decodePadPart pad.isSome (payload ++ encodePad pad) = some (pad, payload) := by
  unfold decodePadPart
  cases pad with
  | none => simp [encodePad]
  | some f =>
    simp only [decide_eq_true_eq] at hpad
    have hc : (f.length + 1).toUInt8.toNat = f.length + 1 := by simp [Nat.toUInt8]; omega
    have hlast : (payload ++ encodePad (some f)).getLast? = some (f.length + 1).toUInt8 := by
      simp only [encodePad]; rw [← List.append_assoc]; simp
    have hlen : (payload ++ encodePad (some f)).length = payload.length + (f.length + 1) := by simp [encodePad]
    simp only [Option.isSome_some, ↓reduceIte, hlast, hc, hlen]
    have h1 : (decide (f.length + 1 < 1) || decide (payload.length + (f.length + 1) < f.length + 1)) = false := by
      simp
    have e1 : payload.length + (f.length + 1) - (f.length + 1) = payload.length := by omega
    simp only [h1, Bool.false_eq_true, ↓reduceIte, e1, List.drop_left, List.take_left, encodePad]
    simp

theorem decode_encode (w : Wire) (hw : w.WF = true) : Wire.decode w.encode = some (normW w) := by
  have hwf := hw
  simp only [Wire.WF, Bool.and_eq_true, decide_eq_true_eq] at hwf
  obtain ⟨⟨⟨⟨hv, hpt⟩, hcc⟩, hext⟩, hpad⟩ := hwf
  obtain ⟨e_cc, e_v, e_p, e_x, e_lt⟩ := bits0 w.version.toNat (b2n w.pad.isSome) (b2n w.ext.isSome) w.csrc.length hv
    (b2n_le _) (b2n_le _) hcc
  obtain ⟨e_m, e_pt, e_lt1⟩ := bits1 (b2n w.marker) w.pt.toNat (b2n_le _) hpt
  have hb0 : (w.version.toNat * 64 + b2n w.pad.isSome * 32 + b2n w.ext.isSome * 16 + w.csrc.length).toUInt8.toNat =
      w.version.toNat * 64 + b2n w.pad.isSome * 32 + b2n w.ext.isSome * 16 + w.csrc.length := by
    simp [Nat.toUInt8]; omega
  have hb1 : (b2n w.marker * 128 + w.pt.toNat).toUInt8.toNat = b2n w.marker * 128 + w.pt.toNat := by
    simp [Nat.toUInt8]; omega
  simp only [Wire.encode, be16, be32, List.cons_append, List.nil_append, List.append_assoc, Wire.decode, hb0, hb1]
  simp only [e_cc, e_v, e_p, e_x, e_m, e_pt, b2n_beq, rd16_be, rd32_be, UInt8.ofNat_toNat, csrcs_eq, readCsrcs_flatten]
  have hlen : ¬ ((w.csrc.map be32).flatten ++ (encodeExt w.ext ++ (w.payload ++ encodePad w.pad))).length < 4 * w.csrc.length := by
    simp only [List.length_append, csrc_bytes_length]; omega
  have hdrop : ((w.csrc.map be32).flatten ++ (encodeExt w.ext ++ (w.payload ++ encodePad w.pad))).drop (4 * w.csrc.length) =
      encodeExt w.ext ++ (w.payload ++ encodePad w.pad) := by
    rw [Nat.mul_comm]; exact drop_csrc_bytes _ _
  simp only [hlen, ↓reduceIte, hdrop, decode_ext w.ext _ hext, decode_pad w.pad w.payload hpad]
  rfl

theorem legacy_len (b : ExtBlock) (hw : b.WF = true) : ∀ p ws, b = .legacy p ws → ws.length % 4 = 0 := by
  intro p ws hb
  subst hb
  simp only [ExtBlock.WF, Bool.and_eq_true, beq_iff_eq] at hw
  exact hw.1.2

theorem body_le (b : ExtBlock) (hw : b.WF = true) : b.body.length ≤ maxBody := by
  cases b with
  | oneByte items stop => simp only [ExtBlock.WF, Bool.and_eq_true, decide_eq_true_eq] at hw; exact hw.2
  | twoByte a items => simp only [ExtBlock.WF, Bool.and_eq_true, decide_eq_true_eq] at hw; exact hw.2
  | legacy p ws => simp only [ExtBlock.WF, Bool.and_eq_true, decide_eq_true_eq] at hw; exact hw.2

theorem normBlock_profile (b : ExtBlock) : (normBlock b).profile = b.profile := by
  cases b with
  | oneByte items stop => cases stop with
    | none => rfl
    | some st => obtain ⟨n, r⟩ := st; rfl
  | twoByte a items => rfl
  | legacy p ws => rfl

theorem normBlock_encode (b : ExtBlock) (hw : b.WF = true) : (normBlock b).encode = b.encode := by
  have hb := normBlock_body b (legacy_len b hw)
  obtain ⟨hm, _⟩ := padTo4_facts b.body.length
  have hl : (b.body ++ rep (padTo4 b.body.length) 0).length = b.body.length + padTo4 b.body.length := by simp [rep]
  have hp : padTo4 (b.body.length + padTo4 b.body.length) = 0 := by unfold padTo4 at hm ⊢; omega
  simp only [ExtBlock.encode, hb, normBlock_profile, hl, hp, Nat.add_zero, List.append_assoc]
  simp [rep]

theorem elems_padItems (items : List Item) (k : Nat) : elems (items ++ padItems k) = elems items := by
  induction items with
  | nil =>
    induction k with
    | zero => rfl
    | succ k ih => simpa [padItems, List.replicate_succ, elems] using ih
  | cons it r ih => cases it <;> simp [elems, ih]

theorem all_padItems (f : Item → Bool) (hf : f .pad = true) (items : List Item) (k : Nat) (h : items.all f = true) :
    (items ++ padItems k).all f = true := by
  simp only [List.all_append, h, Bool.true_and, padItems, List.all_replicate, hf]
  split <;> rfl

theorem normBlock_facts (b : ExtBlock) (hw : b.WF = true) :
    (normBlock b).WF = true ∧ (normBlock b).elements = b.elements ∧ (normBlock b).appbits = b.appbits ∧
    (normBlock b).ignored = b.ignored := by
  have hb := normBlock_body b (legacy_len b hw)
  have hle := body_le b hw
  obtain ⟨hm, hlt⟩ := padTo4_facts b.body.length
  have hlen : (normBlock b).body.length ≤ maxBody := by
    rw [hb]; simp only [List.length_append, rep, List.length_replicate, maxBody] at hle ⊢; omega
  have hp : padTo4 (normBlock b).body.length = 0 := by
    rw [hb]; simp only [List.length_append, rep, List.length_replicate]; unfold padTo4 at hm ⊢; omega
  cases b with
  | oneByte items stop =>
    simp only [ExtBlock.WF, Bool.and_eq_true] at hw
    cases stop with
    | none =>
      refine ⟨?_, by simp [normBlock, ExtBlock.elements, elems_padItems], rfl, rfl⟩
      simp only [normBlock, ExtBlock.WF, Bool.and_eq_true, decide_eq_true_eq, stopWF, and_true]
      exact ⟨all_padItems _ rfl _ _ hw.1.1, by simpa [normBlock, ExtBlock.body] using hlen⟩
    | some st =>
      obtain ⟨n, rest⟩ := st
      refine ⟨?_, rfl, rfl, ?_⟩
      · simp only [normBlock, ExtBlock.WF, Bool.and_eq_true, decide_eq_true_eq]
        exact ⟨⟨hw.1.1, hw.1.2⟩, by simpa [normBlock, ExtBlock.body] using hlen⟩
      · simp only [normBlock, ExtBlock.body] at hp
        simp only [normBlock, ExtBlock.ignored]
        rw [hp]
        simp only [List.length_append, rep, List.length_replicate, Nat.add_zero]
  | twoByte a items =>
    simp only [ExtBlock.WF, Bool.and_eq_true] at hw
    refine ⟨?_, by simp [normBlock, ExtBlock.elements, elems_padItems], rfl, rfl⟩
    simp only [normBlock, ExtBlock.WF, Bool.and_eq_true, decide_eq_true_eq]
    exact ⟨⟨by simpa using hw.1.1, all_padItems _ rfl _ _ hw.1.2⟩, by simpa [normBlock, ExtBlock.body] using hlen⟩
  | legacy p ws => exact ⟨hw, rfl, rfl, rfl⟩

/-- the oracle is complete: it finds a description of every well-formed image, and that description
    describes the same packet and lies in the same region -/
theorem describe_encode (w : Wire) (hw : w.WF = true) :
    ∃ w', Wire.describe w.encode = some w' ∧ w'.toPacket = w.toPacket ∧ w'.ignored = w.ignored ∧
      w'.appbits = w.appbits := by
  refine ⟨normW w, ?_, ?_, ?_, ?_⟩
  · have henc : (normW w).encode = w.encode := by
      cases hx : w.ext with
      | none => simp [normW, hx, Wire.encode]
      | some b =>
        have hb : b.WF = true := by simp only [Wire.WF, Bool.and_eq_true, hx] at hw; exact hw.1.2
        simp [normW, hx, Wire.encode, encodeExt, normBlock_encode b hb]
    have hwf : (normW w).WF = true := by
      cases hx : w.ext with
      | none => simpa [normW, hx, Wire.WF] using hw
      | some b =>
        have hb : b.WF = true := by simp only [Wire.WF, Bool.and_eq_true, hx] at hw; exact hw.1.2
        simp only [Wire.WF, Bool.and_eq_true, hx] at hw
        simp only [normW, hx, Wire.WF, Option.map_some, Bool.and_eq_true, (normBlock_facts b hb).1, and_true]
        exact ⟨hw.1.1, hw.2⟩
    simp only [Wire.describe, decode_encode w hw, hwf, henc, beq_self_eq_true, Bool.and_self, ↓reduceIte]
  all_goals
    cases hx : w.ext with
    | none => simp [normW, hx, Wire.toPacket, Wire.ignored, Wire.appbits]
    | some b =>
      have hb : b.WF = true := by simp only [Wire.WF, Bool.and_eq_true, hx] at hw; exact hw.1.2
      obtain ⟨_, f2, f3, f4⟩ := normBlock_facts b hb
      simp [normW, hx, Wire.toPacket, Wire.ignored, Wire.appbits, f2, f3, f4, normBlock_profile]

/-- soundness of the block oracle is by construction -/
theorem describeBlock_sound (bytes : Bytes) (b : ExtBlock) (h : ExtBlock.describe bytes = some b) :
    b.WF = true ∧ b.encode = bytes := by
  simp only [ExtBlock.describe] at h
  split at h
  · split at h
    · rename_i hc
      cases h
      simpa using hc
    · cases h
  · cases h

end Rtp.Proofs.Wire
