/-
  Rtp/Proofs/H265Pay.lean — invariants of `H265Payloader.Payload`: the aggregation buffer size
  bookkeeping is exact, and every emitted packet is non-empty and at most MTU octets long (C08).
-/
import Rtp.Model.H265Obs
namespace Rtp.Model.H265
open Rtp Rtp.Pred

/-- DONL octets in front of a single NAL unit / the first aggregation unit / an FU payload -/
def dn (cfg : Cfg) : Nat := if cfg.addDONL then 2 else 0

/-- number of octets `aggUnits` writes -/
def unitsLen (cfg : Cfg) : Nat → List Bytes → Nat
  | _, [] => 0
  | i, n :: ns => (if cfg.addDONL then (if i == 0 then 2 else 1) else 0) + 2 + n.length + unitsLen cfg (i + 1) ns

theorem be16_length (x : UInt16) : (be16 x).length = 2 := rfl

theorem aggUnits_length (cfg : Cfg) (d : UInt16) (i : Nat) (ns : List Bytes) :
    (aggUnits cfg d i ns).length = unitsLen cfg i ns := by
  induction ns generalizing i with
  | nil => rfl
  | cons n ns ih =>
    simp only [aggUnits, unitsLen, List.length_append, be16_length, ih]
    cases cfg.addDONL <;> simp
    split <;> simp [be16_length] <;> omega

theorem unitsLen_append (cfg : Cfg) (i : Nat) (ns : List Bytes) (n : Bytes) :
    unitsLen cfg i (ns ++ [n]) =
      unitsLen cfg i ns + (if cfg.addDONL then (if i + ns.length == 0 then 2 else 1) else 0) + 2 + n.length := by
  induction ns generalizing i with
  | nil => simp [unitsLen]
  | cons m ms ih =>
    simp only [List.cons_append, unitsLen, ih, List.length_cons]
    have e : i + 1 + ms.length = i + (ms.length + 1) := by omega
    rw [e]; omega

theorem aggPacket_length (cfg : Cfg) (d : UInt16) (ns : List Bytes) :
    (aggPacket cfg d ns).length = 2 + unitsLen cfg 0 ns := by
  simp only [aggPacket, List.length_append, be16_length, aggUnits_length]

/-- what `aggregationBufferSize` must be for the buffered units -/
def aggSize (cfg : Cfg) (buf : List Bytes) : Nat := unitsLen cfg 0 buf + (if 2 ≤ buf.length then 2 else 0)

/-- the invariant between `emit` calls: buffered units have a header, the size bookkeeping is
    exact, and what is buffered fits the MTU -/
structure Inv (cfg : Cfg) (mtu : Nat) (s : St) : Prop where
  hdr : ∀ n ∈ s.buf, 2 ≤ n.length
  agg : s.agg = aggSize cfg s.buf
  fit : s.buf ≠ [] → s.agg ≤ mtu

def Bounded (mtu : Nat) (out : List Bytes) : Prop := ∀ f ∈ out, f.length ≤ mtu ∧ f ≠ []

theorem Bounded.nil (mtu : Nat) : Bounded mtu [] := by intro f hf; simp at hf

theorem Bounded.append {mtu : Nat} {a b : List Bytes} (ha : Bounded mtu a) (hb : Bounded mtu b) :
    Bounded mtu (a ++ b) := by
  intro f hf
  rcases List.mem_append.mp hf with h | h
  · exact ha f h
  · exact hb f h

theorem Inv.empty (cfg : Cfg) (mtu : Nat) (d : UInt16) : Inv cfg mtu { buf := [], agg := 0, donl := d } :=
  ⟨by simp, by simp [aggSize, unitsLen], by simp⟩

/-- `aggregationBufferSize` is exactly the length of the aggregation packet written into the
    buffer allocated with that size (so no index is out of range and no octet is left over) -/
theorem agg_exact (cfg : Cfg) (mtu : Nat) (s : St) (h : Inv cfg mtu s) (h2 : 2 ≤ s.buf.length) :
    (aggPacket cfg s.donl s.buf).length = s.agg := by
  rw [aggPacket_length, h.agg, aggSize]; simp [h2]; omega

theorem flush_spec (cfg : Cfg) (mtu : Nat) (s : St) (h : Inv cfg mtu s) :
    Bounded mtu (flush cfg s).1 ∧ (flush cfg s).2.buf = [] ∧ (flush cfg s).2.agg = 0 := by
  obtain ⟨buf, agg, donl⟩ := s
  have hagg := h.agg; have hfit := h.fit; have hhdr := h.hdr
  simp only at hagg hfit hhdr
  match buf, hagg, hfit, hhdr with
  | [], hagg, _, _ =>
    simp only [flush]
    exact ⟨Bounded.nil _, by trivial, by simpa [aggSize, unitsLen] using hagg⟩
  | [n], hagg, hfit, hhdr =>
    have hn := hhdr n (by simp)
    have hle := hfit (by simp)
    simp only [aggSize, unitsLen] at hagg
    simp only [flush]
    split
    · rename_i hd
      refine ⟨?_, by trivial, by trivial⟩
      intro f hf
      simp only [List.mem_singleton] at hf
      subst hf
      simp [hd] at hagg
      simp only [List.length_append, List.length_take, List.length_drop, be16_length]
      refine ⟨by omega, ?_⟩
      intro h0
      have : (List.take 2 n ++ be16 donl ++ List.drop 2 n).length = 0 := by rw [h0]; rfl
      simp [be16_length] at this
    · refine ⟨?_, by trivial, by trivial⟩
      intro f hf
      simp only [List.mem_singleton] at hf
      subst hf
      simp at hagg
      refine ⟨by omega, ?_⟩
      intro h0; subst h0; simp at hn
  | n1 :: n2 :: ns, hagg, hfit, _ =>
    have hle := hfit (by simp)
    simp only [flush]
    refine ⟨?_, by trivial, by trivial⟩
    intro f hf
    simp only [List.mem_singleton] at hf
    subst hf
    rw [aggPacket_length]
    simp only [aggSize, List.length_cons] at hagg
    have h2 : 2 ≤ ns.length + 1 + 1 := by omega
    simp only [h2, if_true] at hagg
    refine ⟨by omega, ?_⟩
    intro h0
    have : (aggPacket cfg donl (n1 :: n2 :: ns)).length = 0 := by rw [h0]; rfl
    rw [aggPacket_length] at this; omega

theorem fuLoop_bounded (cfg : Cfg) (k : Nat) (b0 b1 : UInt8) (fuel : Nat) (first : Bool) (d : UInt16)
    (l : Bytes) : ∀ f ∈ (fuLoop cfg k b0 b1 fuel first d l).1, f.length ≤ 3 + dn cfg + k ∧ f ≠ [] := by
  induction fuel generalizing first d l with
  | zero => intro f hf; simp [fuLoop] at hf
  | succ fuel ih =>
    intro f hf
    simp only [fuLoop] at hf
    split at hf
    · simp at hf
    · simp only [List.mem_cons] at hf
      rcases hf with rfl | hf
      · refine ⟨?_, by simp⟩
        simp only [List.length_append, List.length_cons, List.length_nil, List.length_take, dn]
        cases cfg.addDONL <;> simp [be16_length] <;> split <;> omega
      · exact ih _ _ _ f hf

theorem inv_of_empty (cfg : Cfg) (mtu : Nat) (s : St) (hb : s.buf = []) (ha : s.agg = 0) : Inv cfg mtu s :=
  ⟨by simp [hb], by simp [hb, ha, aggSize, unitsLen], by simp [hb]⟩

/-- appending a unit whose marginal size still fits -/
theorem push_inv (cfg : Cfg) (mtu : Nat) (s : St) (n : Bytes) (h : Inv cfg mtu s) (hn : 2 ≤ n.length)
    (hfit : s.agg + marginal cfg s.buf.length n.length ≤ mtu) :
    Inv cfg mtu { s with buf := s.buf ++ [n], agg := s.agg + marginal cfg s.buf.length n.length } := by
  refine ⟨?_, ?_, fun _ => hfit⟩
  · intro m hm
    rcases List.mem_append.mp hm with hm | hm
    · exact h.hdr m hm
    · simp at hm; subst hm; exact hn
  · have hagg := h.agg
    show s.agg + marginal cfg s.buf.length n.length = aggSize cfg (s.buf ++ [n])
    rw [hagg]
    simp only [aggSize, unitsLen_append, List.length_append, List.length_cons, List.length_nil, marginal,
      Nat.zero_add]
    rcases s.buf with _ | ⟨a, _ | ⟨b, t⟩⟩ <;> cases cfg.addDONL <;> simp <;> omega

theorem step_spec (cfg : Cfg) (mtu : Nat) (s : St) (n : Bytes) (h : Inv cfg mtu s) :
    Inv cfg mtu (step cfg mtu s n).2 ∧ Bounded mtu (step cfg mtu s n).1 := by
  unfold step
  by_cases hn2 : n.length < 2
  · simp only [hn2, if_true]; exact ⟨h, Bounded.nil _⟩
  · have hn : 2 ≤ n.length := by omega
    obtain ⟨hfb, hfe, hfa⟩ := flush_spec cfg mtu s h
    simp only [hn2, if_false]
    by_cases hfit : n.length + 2 + (if cfg.addDONL then 2 else 0) ≤ mtu
    · simp only [hfit, if_true]
      by_cases hov : s.agg + marginal cfg s.buf.length n.length > mtu
      · simp only [hov, if_true]
        have hi' := inv_of_empty cfg mtu (flush cfg s).2 hfe hfa
        have hm : (flush cfg s).2.agg + marginal cfg (flush cfg s).2.buf.length n.length ≤ mtu := by
          rw [hfa, hfe]; simp only [marginal, List.length_nil]
          cases hd : cfg.addDONL <;> simp [hd] at hfit ⊢ <;> omega
        have hp := push_inv cfg mtu (flush cfg s).2 n hi' hn hm
        cases hsk : cfg.skipAgg
        · simp only [Bool.false_eq_true, if_false]
          exact ⟨hp, hfb⟩
        · simp only [if_true]
          obtain ⟨b2, e2, a2⟩ := flush_spec cfg mtu _ hp
          exact ⟨inv_of_empty cfg mtu _ e2 a2, hfb.append b2⟩
      · simp only [hov, if_false]
        have hp := push_inv cfg mtu s n h hn (by omega)
        cases hsk : cfg.skipAgg
        · simp only [Bool.false_eq_true, if_false]
          exact ⟨hp, Bounded.nil _⟩
        · simp only [if_true]
          obtain ⟨b2, e2, a2⟩ := flush_spec cfg mtu _ hp
          exact ⟨inv_of_empty cfg mtu _ e2 a2, by simpa using b2⟩
    · simp only [hfit, if_false]
      by_cases hdrop : (decide (mtu ≤ 3 + (if cfg.addDONL then 2 else 0)) || n.length == 2) = true
      · simp only [hdrop, if_true]; exact ⟨h, Bounded.nil _⟩
      · simp only [hdrop]
        simp only [Bool.or_eq_true, decide_eq_true_eq, beq_iff_eq, not_or, Nat.not_le] at hdrop
        by_cases hone : n.length - 2 ≤ mtu - (3 + (if cfg.addDONL then 2 else 0))
        · simp only [hone, if_true]
          -- sent as a single NAL unit packet
          have hlen : (flush cfg { (flush cfg s).2 with buf := (flush cfg s).2.buf ++ [n] }).1 =
              [if cfg.addDONL then n.take 2 ++ be16 (flush cfg s).2.donl ++ n.drop 2 else n] := by
            rw [hfe]; simp only [List.nil_append, flush]; split <;> rfl
          have hst : (flush cfg { (flush cfg s).2 with buf := (flush cfg s).2.buf ++ [n] }).2.buf = [] ∧
              (flush cfg { (flush cfg s).2 with buf := (flush cfg s).2.buf ++ [n] }).2.agg = 0 := by
            rw [hfe]; simp only [List.nil_append, flush]; split <;> exact ⟨rfl, rfl⟩
          refine ⟨inv_of_empty cfg mtu _ hst.1 hst.2, hfb.append ?_⟩
          rw [hlen]
          intro f hf
          simp only [List.mem_singleton] at hf
          subst hf
          cases hd : cfg.addDONL
          · simp only [hd, Bool.false_eq_true, if_false, Nat.add_zero] at hone hdrop ⊢
            refine ⟨by omega, ?_⟩
            intro h0; subst h0; simp at hn
          · simp only [hd, if_true] at hone hdrop ⊢
            simp only [List.length_append, List.length_take, List.length_drop, be16_length]
            refine ⟨by omega, ?_⟩
            intro h0
            have : (List.take 2 n ++ be16 (flush cfg s).2.donl ++ List.drop 2 n).length = 0 := by rw [h0]; rfl
            simp [be16_length] at this
        · simp only [hone, if_false]
          refine ⟨inv_of_empty cfg mtu _ hfe hfa, hfb.append ?_⟩
          intro f hf
          have := fuLoop_bounded cfg _ _ _ _ _ _ _ f hf
          refine ⟨?_, this.2⟩
          have h1 := this.1
          simp only [dn] at h1
          cases hd : cfg.addDONL <;>
            simp only [hd, Bool.false_eq_true, if_false, if_true, Nat.add_zero] at h1 hdrop <;> omega

theorem run_bounded (cfg : Cfg) (mtu : Nat) (s : St) (ns : List Bytes) (h : Inv cfg mtu s) :
    Bounded mtu (run cfg mtu s ns).1 := by
  induction ns generalizing s with
  | nil => simp only [run]; exact (flush_spec cfg mtu s h).1
  | cons n ns ih =>
    simp only [run]
    obtain ⟨hi, hb⟩ := step_spec cfg mtu s n h
    exact hb.append (ih _ hi)

/-- every fragment of a `Payload` call is non-empty and at most `mtu` octets long — for every
    option setting, MTU (0 included), DONL counter value and input (nil included) -/
theorem payload_bounded (cfg : Cfg) (mtu donl : UInt16) (input : Option Bytes) :
    Bounded mtu.toNat (payload cfg mtu donl input).1 := by
  unfold payload
  dsimp only
  split
  · exact Bounded.nil _
  · exact run_bounded cfg _ _ _ (Inv.empty cfg _ _)

end Rtp.Model.H265
