/-
  Rtp/Proofs/WireParsed.lean — whatever `Unmarshal` returns is `encodable`: parsed elements are
  representable by the encoder (id < 15 and 1–16 bytes, resp. ≤ 255 bytes), and the re-encoded
  block is not longer than the block it was read from (elements are confined to the block), so
  the 16-bit word count cannot overflow.
-/
import Rtp.Proofs.WireRemarshal
namespace Rtp.Proofs.Wire
open Rtp Rtp.Model Rtp.Spec.Wire
open Rtp.Pred.C01 (canonP canonH)

theorem hdr1_parse_facts : ∀ b : UInt8, b ≠ 0 → (b >>> 4) ≠ 15 →
    (b >>> 4).toNat ≤ 14 ∧ 1 ≤ (b &&& 0x0F).toNat + 1 ∧ (b &&& 0x0F).toNat + 1 ≤ 16 ∧
    ¬ ((b >>> 4) = 0 ∧ (b &&& 0x0F).toNat + 1 = 1) := by
  apply Rtp.Bits.forall_u8
  decide +kernel

/-- what the one-byte walk returns is always re-encodable and fits in what was read -/
theorem parseOneByte_out (l : Bytes) : ∀ es left, parseOneByte l = .ok (es, left) →
    es.all extOk1 = true ∧ (es.map fun e => 1 + e.payload.length).sum + left ≤ l.length := by
  fun_induction parseOneByte l with
  | case1 => intro es left h; cases h; simp
  | case2 b rest hb ih =>
    intro es left h
    obtain ⟨a, c⟩ := ih es left h
    exact ⟨a, by simp only [List.length_cons]; omega⟩
  | case3 b rest hb id h15 =>
    intro es left h; cases h; simp
  | case4 b rest hb id len h15 hlen =>
    intro es left h; cases h
  | case5 b rest hb id len h15 hlen es' left' hrec ih =>
    intro es left h
    cases h
    obtain ⟨a, c⟩ := ih es' left' hrec
    have hb' : b ≠ 0 := by simpa using hb
    have h15' : (b >>> 4) ≠ 15 := by simpa [id] using h15
    obtain ⟨f1, f2, f3, f4⟩ := hdr1_parse_facts b hb' h15'
    have hl : (rest.take len).length = len := by
      rw [List.length_take]; omega
    refine ⟨?_, ?_⟩
    · simp only [List.all_cons, a, Bool.and_true, extOk1, hl, Bool.and_eq_true, decide_eq_true_eq,
        Bool.not_eq_true', id, len]
      refine ⟨⟨⟨f1, f2⟩, f3⟩, ?_⟩
      rw [Bool.eq_false_iff]; intro hc
      simp only [Bool.and_eq_true, beq_iff_eq] at hc
      exact f4 hc
    · simp only [List.map_cons, List.sum_cons, hl, List.length_cons]
      simp only [List.length_drop] at c
      omega
  | case6 b rest hb id len h15 hlen e hrec ih => intro es left h; cases h
  | case7 b rest hb id len h15 hlen hrec ih => intro es left h; cases h
theorem parseTwoByte_out (l : Bytes) : ∀ es, parseTwoByte l = .ok es →
    es.all extOk2 = true ∧ (es.map fun e => 2 + e.payload.length).sum ≤ l.length := by
  fun_induction parseTwoByte l with
  | case1 => intro es h; cases h; simp
  | case2 b rest hb ih =>
    intro es h
    obtain ⟨a, c⟩ := ih es h
    exact ⟨a, by simp only [List.length_cons]; omega⟩
  | case3 b hb => intro es h; cases h
  | case4 b hb lb rest2 len hlen => intro es h; cases h
  | case5 b hb lb rest2 len hlen es' hrec ih =>
    intro es h
    cases h
    obtain ⟨a, c⟩ := ih es' hrec
    have hl : (rest2.take len).length = len := by rw [List.length_take]; omega
    have hlt : len ≤ 255 := by have := lb.toNat_lt; simp only [len]; omega
    refine ⟨?_, ?_⟩
    · simp only [List.all_cons, a, Bool.and_true, extOk2, hl, Bool.and_eq_true, decide_eq_true_eq, bne_iff_ne, ne_eq]
      exact ⟨by simpa using hb, hlt⟩
    · simp only [List.map_cons, List.sum_cons, hl, List.length_cons]
      simp only [List.length_drop] at c
      omega
  | case6 b hb lb rest2 len hlen e hrec ih => intro es h; cases h
  | case7 b hb lb rest2 len hlen hrec ih => intro es h; cases h

/-- the element list of any parsed extension block is re-encodable and not longer than the block -/
theorem parseExtBlock_out (prof : UInt16) (l : Bytes) (es : List Ext) (used : Nat)
    (h : parseExtBlock prof l = .ok (es, used)) (hl : l.length ≤ maxBody) (h4 : l.length % 4 = 0) :
    (if prof == profileOneByte then es.all extOk1 && (es.map fun e => 1 + e.payload.length).sum ≤ maxBody
     else if prof == profileTwoByte then es.all extOk2 && (es.map fun e => 2 + e.payload.length).sum ≤ maxBody
     else match (generalizing := false) es with
       | [e] => e.id == 0 && e.payload.length % 4 == 0 && e.payload.length ≤ maxBody
       | _ => false) = true := by
  unfold parseExtBlock at h
  by_cases h1 : prof == profileOneByte
  · simp only [h1, ↓reduceIte] at h ⊢
    cases hp : parseOneByte l with
    | ok v =>
      obtain ⟨es', left⟩ := v
      simp only [hp] at h
      cases h
      obtain ⟨a, c⟩ := parseOneByte_out l es left hp
      simp only [a, Bool.true_and, decide_eq_true_eq]
      omega
    | err e => simp [hp] at h
    | panic => simp [hp] at h
  · by_cases h2 : prof == profileTwoByte
    · simp only [h1, h2, ↓reduceIte, Bool.false_eq_true] at h ⊢
      cases hp : parseTwoByte l with
      | ok es' =>
        simp only [hp] at h
        cases h
        obtain ⟨a, c⟩ := parseTwoByte_out l es hp
        simp only [a, Bool.true_and, decide_eq_true_eq]
        omega
      | err e => simp [hp] at h
      | panic => simp [hp] at h
    · simp only [h1, h2, ↓reduceIte, Bool.false_eq_true] at h ⊢
      cases h
      simp [h4, hl]

def extClause (h : Header) : Bool :=
  if h.extension then
     if h.extProfile == profileOneByte then h.exts.all extOk1 && extBodySize h ≤ maxBody
     else if h.extProfile == profileTwoByte then h.exts.all extOk2 && extBodySize h ≤ maxBody
     else match h.exts with
       | [e] => e.id == 0 && e.payload.length % 4 == 0 && e.payload.length ≤ maxBody
       | _ => false
   else h.exts.isEmpty

theorem extClause_of (h : Header) (hx : h.extension = true)
    (H : (if h.extProfile == profileOneByte then h.exts.all extOk1 && (h.exts.map fun e => 1 + e.payload.length).sum ≤ maxBody
     else if h.extProfile == profileTwoByte then h.exts.all extOk2 && (h.exts.map fun e => 2 + e.payload.length).sum ≤ maxBody
     else match h.exts with
       | [e] => e.id == 0 && e.payload.length % 4 == 0 && e.payload.length ≤ maxBody
       | _ => false) = true) : extClause h = true := by
  by_cases h1 : h.extProfile == profileOneByte
  · simpa [extClause, hx, h1, extBodySize] using H
  · by_cases h2 : h.extProfile == profileTwoByte
    · simpa [extClause, hx, h1, h2, extBodySize] using H
    · simpa [extClause, hx, h1, h2] using H

/-! ### header and packet -/

theorem readCsrcs_length_le (n : Nat) (l : Bytes) : (readCsrcs n l).length ≤ n := by
  fun_induction readCsrcs n l with
  | case1 n a b c d rest ih => simp only [List.length_cons]; omega
  | case2 => simp

theorem byte_masks : ∀ b : UInt8, ((b >>> 6) &&& 0x3).toNat < 4 ∧ (b &&& 0x7F).toNat < 128 ∧ (b &&& 0x0F).toNat ≤ 15 := by
  apply Rtp.Bits.forall_u8
  decide +kernel

theorem hdrUnmarshal_out (r : Header) (buf : Bytes) (h : Header) (n : Nat)
    (hu : hdrUnmarshal r buf = .ok (h, n)) :
    h.version.toNat < 4 ∧ h.payloadType.toNat < 128 ∧ h.csrc.length ≤ 15 ∧ extClause h = true := by
  unfold hdrUnmarshal at hu
  split at hu
  · rename_i b0 b1 s0 s1 rest4
    simp only at hu
    obtain ⟨m1, _, m3⟩ := byte_masks b0
    obtain ⟨_, m2, _⟩ := byte_masks b1
    split at hu
    · cases hu
    · split at hu
      · split at hu
        · split at hu
          · rename_i hx _ p0 p1 l0 l1 afterHdr hdrop
            split at hu
            · cases hu
            · rename_i hlen
              split at hu
              · rename_i es used hpe
                cases hu
                refine ⟨m1, m2, Nat.le_trans (readCsrcs_length_le _ _) m3, ?_⟩
                have hl16 := (rd16 l0 l1).toNat_lt
                have hlt : (afterHdr.take ((rd16 l0 l1).toNat * 4)).length = (rd16 l0 l1).toNat * 4 := by
                  rw [List.length_take]; omega
                have := parseExtBlock_out _ _ es used hpe (by rw [hlt]; simp only [maxBody]; omega) (by rw [hlt]; omega)
                exact extClause_of _ hx this
              · cases hu
              · cases hu
          · cases hu
        · cases hu
          rename_i hx
          refine ⟨m1, m2, Nat.le_trans (readCsrcs_length_le _ _) m3, ?_⟩
          simp only [Bool.not_eq_true] at hx
          simp [extClause, hx]
      · cases hu
  · cases hu
theorem encodable_iff (p : Packet) : encodable p =
    (decide (p.header.version.toNat < 4) && decide (p.header.payloadType.toNat < 128) && decide (p.header.csrc.length ≤ 15) &&
     (if p.header.padding then decide (1 ≤ p.paddingSize.toNat) else p.paddingSize == 0) && extClause p.header) := rfl

/-- every packet `Unmarshal` returns — except P = 1 with count 0 — is encodable -/
theorem pktUnmarshal_out (r : Packet) (buf : Bytes) (p : Packet) (hu : pktUnmarshal r buf = .ok p)
    (hp : (p.header.padding && p.paddingSize == 0) = false) : encodable p = true := by
  unfold pktUnmarshal at hu
  split at hu
  · cases hu
  · cases hu
  · rename_i h n hh
    obtain ⟨a, b, c, d⟩ := hdrUnmarshal_out _ _ _ _ hh
    split at hu
    · rename_i hpad
      split at hu
      · cases hu
      · simp only at hu
        split at hu
        · cases hu
        · cases hu
          simp only [hpad, Bool.true_and, beq_eq_false_iff_ne, ne_eq] at hp
          have : 1 ≤ (buf.getLastD 0).toNat := by
            rcases Nat.eq_zero_or_pos (buf.getLastD 0).toNat with h0 | h0
            · exact absurd (UInt8.toNat_inj.mp (by simpa using h0)) hp
            · exact h0
          simp only [encodable_iff, a, b, c, d, hpad, this, decide_true, Bool.and_self, ↓reduceIte]
    · rename_i hpad
      cases hu
      simp only [Bool.not_eq_true] at hpad
      simp [encodable_iff, a, b, c, d, hpad]

end Rtp.Proofs.Wire
