/-
  Rtp/Proofs/AV1Pay.lean — lemmas about AV1Payloader: LEB128 lengths, computeWriteSize, the closed
  form of the fragment loop and of appendOBUPayload.
-/
import Rtp.Proofs.AV1Abs
namespace Rtp.Model.AV1
open Rtp Rtp.Model Rtp.Spec.Av1Rtp

/-! ### lengths of LEB128 encodings (MTUs are 16-bit, so three bytes are the most that occurs) -/

theorem lebLen_1 (n : Nat) (h : n < 128) : (writeLeb n).length = 1 := by
  unfold writeLeb; simp [h]

theorem lebLen_2 (n : Nat) (h1 : 128 ≤ n) (h2 : n < 16384) : (writeLeb n).length = 2 := by
  unfold writeLeb
  have : ¬ n < 128 := by omega
  simp only [this, dite_false, List.length_cons]
  rw [lebLen_1 (n / 128) (by omega)]

theorem lebLen_3 (n : Nat) (h1 : 16384 ≤ n) (h2 : n < 2097152) : (writeLeb n).length = 3 := by
  unfold writeLeb
  have : ¬ n < 128 := by omega
  simp only [this, dite_false, List.length_cons]
  rw [lebLen_2 (n / 128) (by omega) (by omega)]

theorem lebLen_pos (n : Nat) : 1 ≤ (writeLeb n).length := by
  have := writeLeb_ne_nil n
  cases h : writeLeb n with
  | nil => exact absurd h this
  | cons a b => simp

/-! ### computeWriteSize -/

theorem computeWriteSize_le (want can : Nat) : computeWriteSize want can ≤ want := by
  unfold computeWriteSize
  split
  split
  · omega
  · split <;> omega

/-- what computeWriteSize returns fits together with its own length field, and is not zero -/
theorem computeWriteSize_fits (want can : Nat) (hw : 1 ≤ want) (hc : 2 ≤ can) (hwc : want ≤ can)
    (hsmall : can < 2097152) :
    1 ≤ computeWriteSize want can ∧
    computeWriteSize want can + (writeLeb (computeWriteSize want can)).length ≤ can := by
  unfold computeWriteSize leb128Size
  have h28 : ¬ want ≥ 268435456 := by omega
  have h21 : ¬ want ≥ 2097152 := by omega
  simp only [h28, h21, if_false]
  by_cases h14 : want ≥ 16384
  · simp only [h14, if_true]
    by_cases hfit : can ≥ want + 3
    · simp only [hfit, if_true]
      rw [lebLen_3 want h14 (by omega)]; omega
    · simp only [hfit, if_false]
      by_cases hedge : want = 16384
      · subst hedge
        by_cases hc1 : can + 1 ≥ 16384 + 3
        · simp only [beq_self_eq_true, Bool.true_and, hc1, decide_true, if_true]
          rw [lebLen_2 _ (by omega) (by omega)]; omega
        · simp only [beq_self_eq_true, Bool.true_and, hc1, decide_false, Bool.false_eq_true, if_false]
          rw [lebLen_2 _ (by omega) (by omega)]; omega
      · have : (want == 16384) = false := by simpa using hedge
        simp only [this, Bool.false_and, Bool.false_eq_true, if_false]
        by_cases hk : want - 3 < 16384
        · rw [lebLen_2 _ (by omega) hk]; omega
        · rw [lebLen_3 _ (by omega) (by omega)]; omega
  · simp only [h14, if_false]
    by_cases h7 : want ≥ 128
    · simp only [h7, if_true]
      by_cases hfit : can ≥ want + 2
      · simp only [hfit, if_true]
        rw [lebLen_2 want h7 (by omega)]; omega
      · simp only [hfit, if_false]
        by_cases hedge : want = 128
        · subst hedge
          by_cases hc1 : can + 1 ≥ 128 + 2
          · simp only [beq_self_eq_true, Bool.true_and, hc1, decide_true, if_true]
            rw [lebLen_1 _ (by omega)]; omega
          · simp only [beq_self_eq_true, Bool.true_and, hc1, decide_false, Bool.false_eq_true, if_false]
            rw [lebLen_1 _ (by omega)]; omega
        · have : (want == 128) = false := by simpa using hedge
          simp only [this, Bool.false_and, Bool.false_eq_true, if_false]
          by_cases hk : want - 2 < 128
          · rw [lebLen_1 _ hk]; omega
          · rw [lebLen_2 _ (by omega) (by omega)]; omega
    · simp only [h7, if_false]
      by_cases hfit : can ≥ want + 1
      · simp only [hfit, if_true]
        rw [lebLen_1 want (by omega)]; omega
      · simp only [hfit, if_false, Bool.false_and, Bool.false_eq_true]
        have : want = can := by omega
        subst this
        rw [lebLen_1 _ (by omega)]
        omega

/-! ### the fragment loop in closed form -/

/-- number of bytes one round of the fragment loop writes -/
def pieceLen (mtu : Nat) (isLast : Bool) (rem : Bytes) : Nat :=
  if isLast || rem.length ≥ mtu - 1 then min rem.length (mtu - 1)
  else computeWriteSize (min rem.length (mtu - 1)) (mtu - 1)

/-- the packet one round of the fragment loop creates, with its final Y flag -/
def fragPk (mtu : Nat) (isLast : Bool) (rem : Bytes) (z y : Bool) : Pk :=
  if isLast || rem.length ≥ mtu - 1 then
    { z := z, y := y, w := 1, last := some (rem.take (pieceLen mtu isLast rem)) }
  else { z := z, y := y, pre := [rem.take (pieceLen mtu isLast rem)] }

/-- the packets the fragment loop creates for `rem`, oldest first -/
def fragPks (mtu : Nat) (isLast : Bool) : Nat → Bytes → Bool → List Pk
  | 0, _, _ => []
  | fuel + 1, rem, z =>
    if rem.isEmpty then []
    else
      let r := rem.drop (pieceLen mtu isLast rem)
      fragPk mtu isLast rem z (!r.isEmpty) :: fragPks mtu isLast fuel r true

theorem pieceLen_pos (mtu : Nat) (isLast : Bool) (rem : Bytes) (hm : 2 ≤ mtu) (hs : mtu ≤ 65535)
    (hr : rem ≠ []) : 1 ≤ pieceLen mtu isLast rem ∧ pieceLen mtu isLast rem ≤ rem.length ∧
      pieceLen mtu isLast rem ≤ mtu - 1 := by
  have hl : 1 ≤ rem.length := by
    cases rem with
    | nil => exact absurd rfl hr
    | cons a b => simp
  unfold pieceLen
  split
  · omega
  · rename_i hc
    simp only [Bool.or_eq_true, decide_eq_true_eq, not_or] at hc
    have hlt : rem.length < mtu - 1 := by omega
    have hmin : min rem.length (mtu - 1) = rem.length := by omega
    rw [hmin]
    have := computeWriteSize_fits rem.length (mtu - 1) hl (by omega) (by omega) (by omega)
    have := computeWriteSize_le rem.length (mtu - 1)
    omega

theorem setY_cons (p : Pk) (ps : List Pk) : setY (p :: ps) = { p with y := true } :: ps := rfl

theorem fragPk_setY (mtu : Nat) (isLast : Bool) (rem : Bytes) (z : Bool) :
    ({ fragPk mtu isLast rem z false with y := true } : Pk) = fragPk mtu isLast rem z true := by
  unfold fragPk; split <;> rfl

theorem fragLoop_step (mtu : Nat) (isLast : Bool) (f : Nat) (rem : Bytes) (wrote : Nat)
    (ps : List Pk) (cnt : Nat) (hr : rem ≠ []) :
    fragLoop mtu isLast (f + 1) rem wrote ps cnt =
      fragLoop mtu isLast f (rem.drop (pieceLen mtu isLast rem)) (pieceLen mtu isLast rem)
        (fragPk mtu isLast rem (wrote != 0) false :: (if wrote != 0 then setY ps else ps)) 1 := by
  have hne : rem.isEmpty = false := by cases rem with | nil => exact absurd rfl hr | cons a b => rfl
  by_cases hc : (isLast || decide (rem.length ≥ mtu - 1)) = true
  · simp only [fragLoop, hne, Bool.false_eq_true, if_false, pieceLen, fragPk, hc, if_true]
  · simp only [fragLoop, hne, Bool.false_eq_true, if_false, pieceLen, fragPk, hc]

/-- the fragment loop: what is left of the OBU goes into new packets; the packet written before
    gets its Y bit iff something was written to it -/
theorem fragLoop_eq (mtu : Nat) (isLast : Bool) (hm : 2 ≤ mtu) (hs : mtu ≤ 65535)
    (fuel : Nat) (rem : Bytes) (wrote : Nat) (ps : List Pk) (cnt : Nat) (hf : rem.length ≤ fuel) :
    fragLoop mtu isLast fuel rem wrote ps cnt =
      if rem.isEmpty then (ps, cnt)
      else ((fragPks mtu isLast fuel rem (wrote != 0)).reverse ++ (if wrote != 0 then setY ps else ps), 1) := by
  induction fuel generalizing rem wrote ps cnt with
  | zero =>
    have : rem = [] := by cases rem with | nil => rfl | cons a b => simp at hf
    subst this; simp [fragLoop]
  | succ f ih =>
    by_cases hr : rem = []
    · subst hr; simp [fragLoop]
    · have hne : rem.isEmpty = false := by cases rem with | nil => exact absurd rfl hr | cons a b => rfl
      obtain ⟨hp1, hp2, _⟩ := pieceLen_pos mtu isLast rem hm hs hr
      have hj : (pieceLen mtu isLast rem != 0) = true := by simp; omega
      have hfl : (rem.drop (pieceLen mtu isLast rem)).length ≤ f := by
        simp only [List.length_drop]; omega
      rw [fragLoop_step mtu isLast f rem wrote ps cnt hr, ih _ _ _ _ hfl]
      simp only [hne, Bool.false_eq_true, if_false, fragPks]
      by_cases hr2 : (rem.drop (pieceLen mtu isLast rem)).isEmpty = true
      · have : fragPks mtu isLast f (rem.drop (pieceLen mtu isLast rem)) true = [] := by
          cases f <;> simp [fragPks, hr2]
        simp [hr2, this]
      · simp only [hr2, Bool.false_eq_true, if_false, hj, if_true, setY_cons, Bool.not_false,
          List.reverse_cons, List.append_assoc, List.singleton_append, fragPk_setY]

/-! ### appendOBUPayload in closed form -/

/-- the packet the first write goes to, the older packets, and the element count it starts with -/
def basePk (ps : List Pk) (newSeq startNew : Bool) (mtu count : Nat) : Pk × List Pk × Nat :=
  match ps with
  | [] => ({ n := newSeq }, [], 0)
  | q :: qs => if mtu ≤ q.size || startNew then ({ n := newSeq }, q :: qs, 0) else (q, qs, count)

/-- the first write: the packet afterwards, the number of OBU bytes written, the element count -/
def firstWrite (p : Pk) (obu : Bytes) (isLast : Bool) (mtu count : Nat) : Pk × Nat × Nat :=
  let free := mtu - p.size
  let want := min obu.length free
  if (isLast || want ≥ free) && count < 3 then
    ({ p with w := count + 1, last := some (obu.take want) }, want, 0)
  else if free ≥ 2 then
    ({ p with pre := p.pre ++ [obu.take (computeWriteSize want free)] }, computeWriteSize want free, count + 1)
  else (p, 0, count)

theorem appendObu_eq (ps : List Pk) (obu : Bytes) (newSeq isLast startNew : Bool) (mtu count : Nat) :
    appendObu ps obu newSeq isLast startNew mtu count =
      let b := basePk ps newSeq startNew mtu count
      let f := firstWrite b.1 obu isLast mtu b.2.2
      fragLoop mtu isLast (obu.length + 1) (obu.drop f.2.1) f.2.1 (f.1 :: b.2.1) f.2.2 := by
  unfold appendObu basePk firstWrite
  cases ps with
  | nil =>
    dsimp only
    split
    · rfl
    · split <;> rfl
  | cons q qs =>
    dsimp only
    split
    · dsimp only
      split
      · rfl
      · split <;> rfl
    · dsimp only
      split
      · rfl
      · split <;> rfl

theorem size_eq (p : Pk) : p.size = 1 + (p.pre.flatMap lenPrefixed).length + (p.last.getD []).length := by
  simp [Pk.size, Pk.body]; omega

theorem flatMap_snoc_length (pre : List Bytes) (e : Bytes) :
    ((pre ++ [e]).flatMap lenPrefixed).length =
      (pre.flatMap lenPrefixed).length + (writeLeb e.length).length + e.length := by
  simp [List.flatMap_append, lenPrefixed]; omega

/-- the first write never makes the packet longer than the MTU -/
theorem firstWrite_size (p : Pk) (obu : Bytes) (isLast : Bool) (mtu count : Nat)
    (hs : mtu ≤ 65535) (hp : p.size < mtu) (ho : obu ≠ []) :
    (firstWrite p obu isLast mtu count).1.size ≤ mtu := by
  have hl : 1 ≤ obu.length := by
    cases obu with | nil => exact absurd rfl ho | cons a b => simp
  have hsz := size_eq p
  unfold firstWrite
  dsimp only
  split
  · rw [size_eq]
    simp only [Option.getD_some, List.length_take]
    omega
  · split
    · rename_i hfree
      have hw : 1 ≤ min obu.length (mtu - p.size) := by omega
      obtain ⟨h1, h2⟩ := computeWriteSize_fits (min obu.length (mtu - p.size)) (mtu - p.size) hw hfree
        (by omega) (by omega)
      have h3 := computeWriteSize_le (min obu.length (mtu - p.size)) (mtu - p.size)
      rw [size_eq]
      simp only [flatMap_snoc_length, List.length_take]
      have : min (computeWriteSize (min obu.length (mtu - p.size)) (mtu - p.size)) obu.length =
          computeWriteSize (min obu.length (mtu - p.size)) (mtu - p.size) := by omega
      rw [this]
      omega
    · show p.size ≤ mtu
      omega

theorem fragPk_size (mtu : Nat) (isLast : Bool) (rem : Bytes) (z y : Bool) (hm : 2 ≤ mtu)
    (hs : mtu ≤ 65535) (hr : rem ≠ []) : (fragPk mtu isLast rem z y).size ≤ mtu := by
  have hl : 1 ≤ rem.length := by
    cases rem with | nil => exact absurd rfl hr | cons a b => simp
  obtain ⟨h1, h2, h3⟩ := pieceLen_pos mtu isLast rem hm hs hr
  unfold fragPk
  split
  · rw [size_eq]
    simp only [List.flatMap_nil, List.length_nil, Option.getD_some, List.length_take]
    omega
  · rename_i hc
    simp only [Bool.or_eq_true, decide_eq_true_eq, not_or] at hc
    have hlt : rem.length < mtu - 1 := by omega
    have hk : pieceLen mtu isLast rem = computeWriteSize rem.length (mtu - 1) := by
      unfold pieceLen
      have hmin : min rem.length (mtu - 1) = rem.length := by omega
      simp [hc.1, hmin]; omega
    obtain ⟨f1, f2⟩ := computeWriteSize_fits rem.length (mtu - 1) hl (by omega) (by omega) (by omega)
    rw [size_eq]
    simp only [List.flatMap_cons, List.flatMap_nil, List.append_nil, lenPrefixed, List.length_append,
      List.length_take, Option.getD_none, List.length_nil]
    rw [hk]
    have := computeWriteSize_le rem.length (mtu - 1)
    have : min (computeWriteSize rem.length (mtu - 1)) rem.length = computeWriteSize rem.length (mtu - 1) := by
      omega
    rw [this]; omega

theorem fragPks_size (mtu : Nat) (isLast : Bool) (hm : 2 ≤ mtu) (hs : mtu ≤ 65535) (fuel : Nat)
    (rem : Bytes) (z : Bool) : ∀ p ∈ fragPks mtu isLast fuel rem z, p.size ≤ mtu := by
  induction fuel generalizing rem z with
  | zero => simp [fragPks]
  | succ f ih =>
    intro p hp
    simp only [fragPks] at hp
    split at hp
    · simp at hp
    · rename_i hne
      have hr : rem ≠ [] := by intro h; subst h; simp at hne
      simp only [List.mem_cons] at hp
      rcases hp with rfl | hp
      · exact fragPk_size mtu isLast rem z _ hm hs hr
      · exact ih _ _ p hp

theorem setY_size (ps : List Pk) : ∀ p ∈ setY ps, ∃ q ∈ ps, p.size = q.size := by
  cases ps with
  | nil => simp [setY]
  | cons a b =>
    intro p hp
    simp only [setY, List.mem_cons] at hp
    rcases hp with rfl | hp
    · exact ⟨a, by simp, rfl⟩
    · exact ⟨p, by simp [hp], rfl⟩

/-- appendOBUPayload keeps every packet within the MTU -/
theorem appendObu_size (ps : List Pk) (obu : Bytes) (newSeq isLast startNew : Bool) (mtu count : Nat)
    (hm : 2 ≤ mtu) (hs : mtu ≤ 65535) (ho : obu ≠ []) (hps : ∀ p ∈ ps, p.size ≤ mtu) :
    ∀ p ∈ (appendObu ps obu newSeq isLast startNew mtu count).1, p.size ≤ mtu := by
  rw [appendObu_eq]
  dsimp only
  rw [fragLoop_eq mtu isLast hm hs _ _ _ _ _ (by simp only [List.length_drop]; omega)]
  -- the head packet after the first write, and the older packets, are within the MTU
  have hbase : (basePk ps newSeq startNew mtu count).1.size < mtu ∧
      ∀ p ∈ (basePk ps newSeq startNew mtu count).2.1, p.size ≤ mtu := by
    unfold basePk
    cases ps with
    | nil => simp [size_eq]; omega
    | cons q qs =>
      dsimp only
      split
      · refine ⟨by simp [size_eq]; omega, hps⟩
      · rename_i hc
        simp only [Bool.or_eq_true, decide_eq_true_eq, not_or] at hc
        exact ⟨by show q.size < mtu; omega, fun p hp => hps p (by simp [hp])⟩
  have hhead := firstWrite_size (basePk ps newSeq startNew mtu count).1 obu isLast mtu
    (basePk ps newSeq startNew mtu count).2.2 hs hbase.1 ho
  have hall : ∀ p ∈ (firstWrite (basePk ps newSeq startNew mtu count).1 obu isLast mtu
      (basePk ps newSeq startNew mtu count).2.2).1 :: (basePk ps newSeq startNew mtu count).2.1,
      p.size ≤ mtu := by
    intro p hp
    simp only [List.mem_cons] at hp
    rcases hp with rfl | hp
    · exact hhead
    · exact hbase.2 p hp
  split
  · exact hall
  · intro p hp
    simp only [List.mem_append, List.mem_reverse] at hp
    rcases hp with hp | hp
    · exact fragPks_size mtu isLast hm hs _ _ _ p hp
    · split at hp
      · obtain ⟨q, hq, he⟩ := setY_size _ p hp
        rw [he]; exact hall q hq
      · exact hall p hp

/-! ### the MTU bound through the loop of Payload -/

theorem step_size (mtu : Nat) (hm : 2 ≤ mtu) (hs : mtu ≤ 65535) (s : PSt) (hb : ObuHeader × Bytes)
    (h : ∀ p ∈ s.out, p.size ≤ mtu) : ∀ p ∈ (step mtu s hb).out, p.size ≤ mtu := by
  unfold step
  dsimp only
  have key : ∀ p ∈ (if s.pending.isEmpty then
        (if needNew s.cur hb.1 then { s with startNew := true, cur := none } else s)
      else
        (let r := appendObu s.out s.pending s.newSeq (needNew s.cur hb.1) s.startNew mtu s.count
         let s' : PSt := { s with out := r.1, count := r.2, pending := [], startNew := needNew s.cur hb.1 }
         if needNew s.cur hb.1 then { s' with newSeq := false, cur := none } else s')).out,
      p.size ≤ mtu := by
    split
    · split <;> exact h
    · rename_i hne
      have hp : s.pending ≠ [] := by intro h'; rw [h'] at hne; simp at hne
      have := appendObu_size s.out s.pending s.newSeq (needNew s.cur hb.1) s.startNew mtu s.count hm hs hp h
      dsimp only
      split <;> exact this
  split <;> (split <;> exact key)

theorem foldl_size (mtu : Nat) (hm : 2 ≤ mtu) (hs : mtu ≤ 65535) (l : List (ObuHeader × Bytes)) (s : PSt)
    (h : ∀ p ∈ s.out, p.size ≤ mtu) : ∀ p ∈ (l.foldl (step mtu) s).out, p.size ≤ mtu := by
  induction l generalizing s with
  | nil => exact h
  | cons a l ih => exact ih _ (step_size mtu hm hs s a h)

theorem payloadPks_size (mtu : Nat) (hm : 2 ≤ mtu) (hs : mtu ≤ 65535) (data : Bytes) :
    ∀ p ∈ payloadPks mtu data, p.size ≤ mtu := by
  intro p hp
  simp only [payloadPks, List.mem_reverse, finish] at hp
  have h0 := foldl_size mtu hm hs (walk data.length data) {} (by simp)
  split at hp
  · exact h0 p hp
  · rename_i hne
    refine appendObu_size _ _ _ _ _ _ _ hm hs ?_ h0 p hp
    intro h'; rw [h'] at hne; simp at hne

end Rtp.Model.AV1
