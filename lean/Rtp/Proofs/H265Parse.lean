/-
  Rtp/Proofs/H265Parse.lean — the parsers of codecs/h265_packet.go on the wire grammar of
  Rtp/Spec/Rfc7798.lean: decoding what `encode` writes, rejecting what is cut short.
-/
import Rtp.Proofs.H265Fields
namespace Rtp.Model.H265
open Rtp Rtp.Bits Rtp.Spec.Rfc7798

/-! ### 16-bit big-endian fields -/

theorem rd16_toNat (a b : UInt8) : (rd16 a b).toNat = a.toNat * 256 + b.toNat := by
  have ha := a.toNat_lt; have hb := b.toNat_lt
  simp only [rd16, UInt16.toNat_or, UInt16.toNat_shiftLeft, UInt8.toNat_toUInt16]
  have e : a.toNat <<< ((8 : UInt16).toNat % 16) % 2 ^ 16 = a.toNat <<< 8 := by
    simp [Nat.shiftLeft_eq]; omega
  rw [e, nat_shl_or _ _ 8 (by omega)]

theorem toUInt8_toNat (n : Nat) (h : n < 256) : n.toUInt8.toNat = n := by
  simp [Nat.toUInt8, UInt8.toNat_ofNat']; omega

/-- reading back a 16-bit field -/
theorem rd16_u16be (n : Nat) (hn : n < 65536) :
    (rd16 (n / 256 % 256).toUInt8 (n % 256).toUInt8).toNat = n := by
  rw [rd16_toNat, toUInt8_toNat _ (by omega), toUInt8_toNat _ (by omega)]; omega

theorem rd16_u16be_u16 (d : UInt16) :
    rd16 (d.toNat / 256 % 256).toUInt8 (d.toNat % 256).toUInt8 = d := by
  rw [← UInt16.toNat_inj]; exact rd16_u16be _ d.toNat_lt

/-! ### header fields -/

theorem hdrView_ofWord (w : UInt16) : hdrView w = Hdr.ofWord w.toNat := by
  have hw := w.toNat_lt
  simp only [hdrView, Hdr.ofWord, Hdr.mk.injEq, hdrF_eq]
  refine ⟨?_, ?_, ?_, ?_⟩
  · rw [Bool.eq_iff_iff]; simp only [beq_iff_eq]; omega
  · rw [← UInt8.toNat_inj, hdrType_toNat, toUInt8_toNat _ (by omega)]
  · rw [← UInt8.toNat_inj, hdrLayer_toNat, toUInt8_toNat _ (by omega)]
  · rw [← UInt8.toNat_inj, hdrTid_toNat, toUInt8_toNat _ (by omega)]

theorem Hdr.word_lt (h : Hdr) (hw : h.WF = true) : h.word < 65536 := by
  simp only [Hdr.WF, Bool.and_eq_true, decide_eq_true_eq] at hw
  unfold Hdr.word; split <;> omega

theorem Hdr.ofWord_word (h : Hdr) (hw : h.WF = true) : Hdr.ofWord h.word = h := by
  simp only [Hdr.WF, Bool.and_eq_true, decide_eq_true_eq] at hw
  obtain ⟨⟨h1, h2⟩, h3⟩ := hw
  cases h with
  | mk f t l i =>
    simp only at h1 h2 h3
    simp only [Hdr.ofWord, Hdr.word, Hdr.mk.injEq]
    refine ⟨?_, ?_, ?_, ?_⟩
    · cases f <;> simp <;> omega
    · rw [← UInt8.toNat_inj, toUInt8_toNat _ (by omega)]; cases f <;> simp <;> omega
    · rw [← UInt8.toNat_inj, toUInt8_toNat _ (by omega)]; cases f <;> simp <;> omega
    · rw [← UInt8.toNat_inj, toUInt8_toNat _ (by omega)]; cases f <;> simp <;> omega

/-- the two octets of an encoded header read back as that header -/
theorem hdr_bytes (h : Hdr) (hw : h.WF = true) :
    ∃ a b, h.bytes = [a, b] ∧ hdrView (rd16 a b) = h := by
  refine ⟨_, _, rfl, ?_⟩
  have hl := Hdr.word_lt h hw
  rw [hdrView_ofWord, rd16_u16be _ hl, Hdr.ofWord_word h hw]

theorem donl_bytes (d : UInt16) : ∃ x y, u16be d.toNat = [x, y] ∧ rd16 x y = d :=
  ⟨_, _, rfl, rd16_u16be_u16 d⟩

theorem size_bytes (n : Nat) (hn : n < 65536) : ∃ x y, u16be n = [x, y] ∧ (rd16 x y).toNat = n :=
  ⟨_, _, rfl, rd16_u16be n hn⟩

/-! ### FU header and PACI fields -/

theorem fuByte_fields (s e : Bool) (t : UInt8) (ht : t.toNat < 64) :
    fuS (fuByte s e t) = s ∧ fuE (fuByte s e t) = e ∧ fuType (fuByte s e t) = t := by
  obtain ⟨h1, h2, h3⟩ := fu_fields (fuByte s e t)
  have hn : (fuByte s e t).toNat = (if s then 128 else 0) + (if e then 64 else 0) + t.toNat := by
    unfold fuByte; rw [toUInt8_toNat]; cases s <;> cases e <;> simp <;> omega
  refine ⟨?_, ?_, ?_⟩
  · rw [h1, hn]; cases s <;> cases e <;> simp <;> omega
  · rw [h2, hn]; cases s <;> cases e <;> simp <;> omega
  · rw [← UInt8.toNat_inj, h3, hn]; cases s <;> cases e <;> simp <;> omega

theorem paciWord_lt (a : Bool) (c phs : UInt8) (f0 f1 f2 y : Bool) (hc : c.toNat < 64)
    (hp : phs.toNat < 32) : paciWord a c phs f0 f1 f2 y < 65536 := by
  unfold paciWord
  cases a <;> cases f0 <;> cases f1 <;> cases f2 <;> cases y <;> simp <;> omega

theorem paci_fields (a : Bool) (c phs : UInt8) (f0 f1 f2 y : Bool) (hc : c.toNat < 64)
    (hp : phs.toNat < 32) (w : UInt16) (hw : w.toNat = paciWord a c phs f0 f1 f2 y) :
    paciA w = a ∧ paciCType w = c ∧ paciPHS w = phs ∧ paciF0 w = f0 ∧ paciF1 w = f1 ∧
    paciF2 w = f2 ∧ paciY w = y := by
  simp only [paciA_eq, paciF0_eq, paciF1_eq, paciF2_eq, paciY_eq, ← UInt8.toNat_inj, paciCType_toNat,
    paciPHS_toNat, hw, paciWord]
  cases a <;> cases f0 <;> cases f1 <;> cases f2 <;> cases y <;> simp <;> omega

end Rtp.Model.H265

namespace Rtp.Model.H265
open Rtp Rtp.Bits Rtp.Spec.Rfc7798 Rtp.Pred

theorem hdr_facts (a b : UInt8) (h : Hdr) (hv : hdrView (rd16 a b) = h) :
    hdrF (rd16 a b) = h.f ∧ hdrType (rd16 a b) = h.type := by
  subst hv; exact ⟨rfl, rfl⟩

theorem toUInt16_toNat (n : Nat) (h : n < 65536) : n.toUInt16.toNat = n := by
  simp [Nat.toUInt16, UInt16.toNat_ofNat']; omega

/-! ### decoding what the encoder writes -/

theorem decode_single (mode : Bool) (h : Hdr) (d : Option UInt16) (q : Bytes)
    (hw : h.WF = true) (hf : h.f = false) (h48 : h.type ≠ 48) (h49 : h.type ≠ 49) (h50 : h.type ≠ 50)
    (hd : d.isSome = mode) (hq : q ≠ []) :
    decode mode (some (h.bytes ++ donlBytes d ++ q)) =
      .ok { pkt := .single h d q, tsci := none, sizesOk := true } := by
  obtain ⟨a, b, hb, hv⟩ := hdr_bytes h hw
  obtain ⟨e1, e2⟩ := hdr_facts a b h hv
  obtain ⟨q0, qs, rfl⟩ := List.exists_cons_of_ne_nil hq
  rw [hb]
  cases d with
  | none =>
    simp at hd; subst hd
    simp [decode, Res.map, Res.coarse, Pkt.view, donlBytes, unmarshal, parseSingle, hdrIsPACI, hdrIsFU,
      hdrIsAgg, e1, e2, hf, h48, h49, h50, hv]
  | some dv =>
    simp at hd; subst hd
    obtain ⟨x, y, hx, hy⟩ := donl_bytes dv
    simp [decode, Res.map, Res.coarse, Pkt.view, donlBytes, hx, unmarshal, parseSingle, hdrIsPACI,
      hdrIsFU, hdrIsAgg, e1, e2, hf, h48, h49, h50, hy, hv]

theorem decode_fu (mode : Bool) (h : Hdr) (s e : Bool) (t : UInt8) (d : Option UInt16) (q : Bytes)
    (hw : h.WF = true) (hf : h.f = false) (h49 : h.type = 49) (ht : t.toNat < 64)
    (hd : d.isSome = (mode && s)) (hq : q ≠ []) :
    decode mode (some (h.bytes ++ [fuByte s e t] ++ donlBytes d ++ q)) =
      .ok { pkt := .fu h s e t d q, tsci := none, sizesOk := true } := by
  obtain ⟨a, b, hb, hv⟩ := hdr_bytes h hw
  obtain ⟨e1, e2⟩ := hdr_facts a b h hv
  obtain ⟨q0, qs, rfl⟩ := List.exists_cons_of_ne_nil hq
  rw [hb]
  cases d with
  | none =>
    have hms : (mode && s) = false := by simpa using hd.symm
    obtain ⟨f1, f2, f3⟩ := fuByte_fields s e t ht
    have hc : (fuS (fuByte s e t) && mode) = false := by rw [f1, Bool.and_comm]; exact hms
    simp only [List.cons_append, List.nil_append, donlBytes, decode, unmarshal, e1, hf, hdrIsPACI, e2, h49,
      hdrIsFU, parseFU, hc]
    simp [Res.map, Res.coarse, Pkt.view, hv, f1, f2, f3]
  | some dv =>
    have hms : (mode && s) = true := by simpa using hd.symm
    simp only [Bool.and_eq_true] at hms
    obtain ⟨rfl, rfl⟩ := hms
    obtain ⟨f1, f2, f3⟩ := fuByte_fields true e t ht
    have hc : (fuS (fuByte true e t) && true) = true := by rw [f1]; rfl
    obtain ⟨x, y, hx, hy⟩ := donl_bytes dv
    simp only [List.cons_append, List.nil_append, donlBytes, hx, decode, unmarshal, e1, hf, hdrIsPACI, e2,
      h49, hdrIsFU, parseFU, hc]
    simp [Res.map, Res.coarse, Pkt.view, hv, f1, f2, f3, hy]

theorem decode_paci (mode : Bool) (h : Hdr) (a : Bool) (c phs : UInt8) (f0 f1 f2 y : Bool) (phes q : Bytes)
    (hw : h.WF = true) (hf : h.f = false) (h50 : h.type = 50) (hc : c.toNat < 64) (hp : phs.toNat < 32)
    (hl : phes.length = phs.toNat) (hq : q ≠ []) :
    decode mode (some (h.bytes ++ u16be (paciWord a c phs f0 f1 f2 y) ++ phes ++ q)) =
      .ok { pkt := .paci h a c phs f0 f1 f2 y phes q,
            tsci := (Packet.paci h a c phs f0 f1 f2 y phes q).tsci, sizesOk := true } := by
  obtain ⟨ha, hb, hbb, hv⟩ := hdr_bytes h hw
  obtain ⟨e1, e2⟩ := hdr_facts ha hb h hv
  obtain ⟨q0, qs, rfl⟩ := List.exists_cons_of_ne_nil hq
  obtain ⟨x, y', hx, hy⟩ := size_bytes _ (paciWord_lt a c phs f0 f1 f2 y hc hp)
  obtain ⟨p1, p2, p3, p4, p5, p6, p7⟩ := paci_fields a c phs f0 f1 f2 y hc hp _ hy
  rw [hbb, hx]
  have hne : ∃ r0 rs, phes ++ q0 :: qs = r0 :: rs := by
    cases phes with
    | nil => exact ⟨q0, qs, rfl⟩
    | cons p ps => exact ⟨p, ps ++ q0 :: qs, rfl⟩
  obtain ⟨r0, rs, hr⟩ := hne
  have hlen : (r0 :: rs).length = phs.toNat + (qs.length + 1) := by
    rw [← hr, List.length_append, hl]; rfl
  have htake : (r0 :: rs).take phs.toNat = phes := by
    rw [← hr, ← hl, List.take_left']; rfl
  have hdrop : (r0 :: rs).drop phs.toNat = q0 :: qs := by
    rw [← hr, ← hl, List.drop_left']; rfl
  have hnot : ¬ ((r0 :: rs).length < phs.toNat + 1) := by rw [hlen]; omega
  have hnot' : ¬ (rs.length < phs.toNat) := by simp only [List.length_cons] at hnot; omega
  simp only [List.cons_append, List.nil_append, hr]
  have htsci : (match paciTSCI (rd16 x y') phes with | .ok (some t) => some (tsciView t) | _ => none) =
      (Packet.paci h a c phs f0 f1 f2 y phes (q0 :: qs)).tsci := by
    simp only [paciTSCI, Packet.tsci, p3, p4]
    cases f0 with
    | false => simp
    | true =>
      by_cases h3 : phs.toNat < 3
      · have h3' : ¬ (3 ≤ phs.toNat) := by omega
        simp [h3, h3']
      · have h3' : 3 ≤ phs.toNat := by omega
        simp only [Bool.not_true, Bool.false_or, decide_eq_true_eq, h3, if_false, Bool.true_and, h3', if_true]
        match phes, hl with
        | a1 :: a2 :: a3 :: _, _ => simp [tsciView_word]
        | [], hl => simp at hl; omega
        | [_], hl => simp at hl; omega
        | [_, _], hl => simp at hl; omega
  simp [decode, unmarshal, e1, hf, hdrIsPACI, e2, h50, parsePACI, p3, hnot', htake, hdrop,
    Res.map, Res.coarse, Pkt.view, hv, p1, p2, p4, p5, p6, p7]
  exact htsci

theorem parseAggRest_nil (mode : Bool) (k : Nat) : parseAggRest mode k [] = [] := by
  cases k <;> cases mode <;> simp [parseAggRest]

theorem rd16_size (n : Nat) (hn : n < 65536) (x y : UInt8) (h : (rd16 x y).toNat = n) :
    rd16 x y = n.toUInt16 := by
  rw [← UInt16.toNat_inj, h, toUInt16_toNat n hn]

theorem parseAggRest_unit (mode : Bool) (u : Option UInt8 × Bytes) (hu1 : u.1.isSome = mode)
    (hu2 : u.2.length < 65536) (fuel : Nat) (l : Bytes) :
    parseAggRest mode (fuel + 1) (unitBytes u ++ l) =
      (u.1, u.2.length.toUInt16, u.2) :: parseAggRest mode fuel l := by
  obtain ⟨dd, nal⟩ := u
  obtain ⟨x, y, hx, hy⟩ := size_bytes nal.length hu2
  have hsz := rd16_size _ hu2 x y hy
  simp only at hu1 hu2
  cases dd with
  | none =>
    simp at hu1; subst hu1
    simp [unitBytes, dondBytes, hx, parseAggRest, hsz, Nat.mod_eq_of_lt hu2]
  | some d =>
    simp at hu1; subst hu1
    simp [unitBytes, dondBytes, hx, parseAggRest, hsz, Nat.mod_eq_of_lt hu2]


theorem parseAggRest_units (mode : Bool) (us : List (Option UInt8 × Bytes))
    (hus : ∀ u ∈ us, u.1.isSome = mode ∧ u.2.length < 65536) (k : Nat) (t : Bytes) :
    parseAggRest mode (us.length + k) ((us.map unitBytes).flatten ++ t) =
      us.map (fun u => (u.1, u.2.length.toUInt16, u.2)) ++ parseAggRest mode k t := by
  induction us with
  | nil => simp
  | cons u us ih =>
    have hu := hus u (by simp)
    have e : (u :: us).length + k = (us.length + k) + 1 := by simp; omega
    rw [e]
    simp only [List.map_cons, List.flatten_cons, List.append_assoc]
    rw [parseAggRest_unit mode u hu.1 hu.2, ih (fun v hv => hus v (by simp [hv]))]
    simp


theorem units_length_le (us : List (Option UInt8 × Bytes)) : us.length ≤ (us.map unitBytes).flatten.length := by
  induction us with
  | nil => simp
  | cons u us ih =>
    simp only [List.map_cons, List.flatten_cons, List.length_append, List.length_cons, unitBytes, u16be]
    omega

theorem decode_ap_trailing (mode : Bool) (h : Hdr) (d : Option UInt16) (first : Bytes)
    (rest : List (Option UInt8 × Bytes)) (t : Bytes)
    (hw : h.WF = true) (hf : h.f = false) (h48 : h.type = 48) (hd : d.isSome = mode)
    (hfl : first.length < 65536) (hne : rest ≠ [])
    (hrest : ∀ u ∈ rest, u.1.isSome = mode ∧ u.2.length < 65536)
    (ht : ∀ k, parseAggRest mode k t = []) :
    decode mode (some (encode (.ap h d first rest) ++ t)) =
      .ok { pkt := .ap h d first rest, tsci := none, sizesOk := true } := by
  obtain ⟨a, b, hb, hv⟩ := hdr_bytes h hw
  obtain ⟨e1, e2⟩ := hdr_facts a b h hv
  obtain ⟨x, y, hx, hy⟩ := size_bytes first.length hfl
  have hsz := rd16_size _ hfl x y hy
  -- the loop over the remaining units
  have hloop : parseAggRest mode (first.length + ((rest.map unitBytes).flatten ++ t).length)
      ((rest.map unitBytes).flatten ++ t) = rest.map (fun u => (u.1, u.2.length.toUInt16, u.2)) := by
    have hle := units_length_le rest
    have e : first.length + ((rest.map unitBytes).flatten ++ t).length =
        rest.length + (first.length + ((rest.map unitBytes).flatten ++ t).length - rest.length) := by
      simp only [List.length_append]; omega
    rw [e, parseAggRest_units mode rest hrest, ht]; simp
  have hmap : (rest.map (fun u => (u.1, u.2.length.toUInt16, u.2))).map (fun u => (u.1, u.2.2)) = rest := by
    simp [List.map_map, Function.comp_def]
  have hall : (rest.map (fun u => (u.1, u.2.length.toUInt16, u.2))).all
      (fun u => u.2.1.toNat == u.2.2.length) = true := by
    simp only [List.all_map, List.all_eq_true, Function.comp_def, beq_iff_eq]
    intro u hu; exact toUInt16_toNat _ (hrest u hu).2
  have hemp : (rest.map (fun u => (u.1, u.2.length.toUInt16, u.2))).isEmpty = false := by
    cases rest with
    | nil => exact absurd rfl hne
    | cons _ _ => rfl
  simp only [encode, hb, hx, List.append_assoc]
  generalize (rest.map unitBytes).flatten ++ t = R at hloop ⊢
  have hnlt : ¬ (first.length + R.length < first.length) := by omega
  have htn := toUInt16_toNat _ hfl
  simp only [Nat.toUInt16] at hmap hall hemp hloop hsz htn
  cases d with
  | none =>
    simp at hd; subst hd
    simp only [donlBytes, List.cons_append, List.nil_append, decode,
      unmarshal, e1, hf, hdrIsPACI, hdrIsFU, hdrIsAgg, e2, h48, parseAgg]
    simp [hnlt, hloop, hemp, Res.map, Res.coarse, Pkt.view, hv, hmap, hall, hsz, htn]
  | some dv =>
    simp at hd; subst hd
    obtain ⟨p, q, hp, hq⟩ := donl_bytes dv
    simp only [donlBytes, hp, List.cons_append, List.nil_append, decode,
      unmarshal, e1, hf, hdrIsPACI, hdrIsFU, hdrIsAgg, e2, h48, parseAgg]
    simp [hnlt, hloop, hemp, Res.map, Res.coarse, Pkt.view, hv, hmap, hall, hsz, htn, hq]


/-- every well-formed payload structure decodes to exactly its fields -/
theorem decode_encode (mode : Bool) (desc : Packet) (hwf : desc.WF mode = true) :
    decode mode (some (encode desc)) = .ok { pkt := desc, tsci := desc.tsci, sizesOk := true } := by
  cases desc with
  | single h d p =>
    simp only [Packet.WF, Bool.and_eq_true, Bool.not_eq_true', bne_iff_ne, ne_eq, beq_iff_eq,
      List.isEmpty_eq_false_iff] at hwf
    obtain ⟨⟨⟨⟨⟨⟨hw, hf⟩, h48⟩, h49⟩, h50⟩, hd⟩, hp⟩ := hwf
    exact decode_single mode h d p hw hf h48 h49 h50 hd hp
  | ap h d first rest =>
    simp only [Packet.WF, Bool.and_eq_true, Bool.not_eq_true', beq_iff_eq, decide_eq_true_eq,
      List.isEmpty_eq_false_iff, List.all_eq_true] at hwf
    obtain ⟨⟨⟨⟨⟨⟨hw, hf⟩, h48⟩, hd⟩, hfl⟩, hne⟩, hr⟩ := hwf
    have := decode_ap_trailing mode h d first rest [] hw hf h48 hd hfl hne hr (parseAggRest_nil mode)
    simpa [Packet.tsci] using this
  | fu h s e t d p =>
    simp only [Packet.WF, Bool.and_eq_true, Bool.not_eq_true', beq_iff_eq, decide_eq_true_eq,
      List.isEmpty_eq_false_iff] at hwf
    obtain ⟨⟨⟨⟨⟨hw, hf⟩, h49⟩, ht⟩, hd⟩, hp⟩ := hwf
    exact decode_fu mode h s e t d p hw hf h49 ht hd hp
  | paci h a c phs f0 f1 f2 y phes p =>
    simp only [Packet.WF, Bool.and_eq_true, Bool.not_eq_true', beq_iff_eq, decide_eq_true_eq,
      List.isEmpty_eq_false_iff] at hwf
    obtain ⟨⟨⟨⟨⟨⟨hw, hf⟩, h50⟩, hc⟩, hp⟩, hl⟩, hq⟩ := hwf
    exact decode_paci mode h a c phs f0 f1 f2 y phes p hw hf h50 hc hp hl hq

/-- IsPartitionHead on an encoded packet: every packet but a non-first FU starts a unit -/
theorem head_encode (mode : Bool) (desc : Packet) (hwf : desc.WF mode = true) :
    isPartitionHead (encode desc) = C14.headSpec desc := by
  cases desc with
  | single h d p =>
    simp only [Packet.WF, Bool.and_eq_true, Bool.not_eq_true', bne_iff_ne, ne_eq, beq_iff_eq,
      List.isEmpty_eq_false_iff] at hwf
    obtain ⟨⟨⟨⟨⟨⟨hw, hf⟩, h48⟩, h49⟩, h50⟩, hd⟩, hp⟩ := hwf
    obtain ⟨a, b, hb, hv⟩ := hdr_bytes h hw
    obtain ⟨e1, e2⟩ := hdr_facts a b h hv
    obtain ⟨q0, qs, rfl⟩ := List.exists_cons_of_ne_nil hp
    cases d with
    | none => simp [encode, hb, donlBytes, isPartitionHead, e2, h49, C14.headSpec]
    | some dv => simp [encode, hb, donlBytes, u16be, isPartitionHead, e2, h49, C14.headSpec]
  | ap h d first rest =>
    simp only [Packet.WF, Bool.and_eq_true, Bool.not_eq_true', beq_iff_eq, decide_eq_true_eq,
      List.isEmpty_eq_false_iff, List.all_eq_true] at hwf
    obtain ⟨⟨⟨⟨⟨⟨hw, hf⟩, h48⟩, hd⟩, hfl⟩, hne⟩, hr⟩ := hwf
    obtain ⟨a, b, hb, hv⟩ := hdr_bytes h hw
    obtain ⟨e1, e2⟩ := hdr_facts a b h hv
    cases d with
    | none => simp [encode, hb, donlBytes, u16be, isPartitionHead, e2, h48, C14.headSpec]
    | some dv => simp [encode, hb, donlBytes, u16be, isPartitionHead, e2, h48, C14.headSpec]
  | fu h s e t d p =>
    simp only [Packet.WF, Bool.and_eq_true, Bool.not_eq_true', beq_iff_eq, decide_eq_true_eq,
      List.isEmpty_eq_false_iff] at hwf
    obtain ⟨⟨⟨⟨⟨hw, hf⟩, h49⟩, ht⟩, hd⟩, hp⟩ := hwf
    obtain ⟨a, b, hb, hv⟩ := hdr_bytes h hw
    obtain ⟨e1, e2⟩ := hdr_facts a b h hv
    obtain ⟨f1, f2, f3⟩ := fuByte_fields s e t ht
    simp [encode, hb, isPartitionHead, e2, h49, C14.headSpec, f1]
  | paci h a c phs f0 f1 f2 y phes p =>
    simp only [Packet.WF, Bool.and_eq_true, Bool.not_eq_true', beq_iff_eq, decide_eq_true_eq,
      List.isEmpty_eq_false_iff] at hwf
    obtain ⟨⟨⟨⟨⟨⟨hw, hf⟩, h50⟩, hc⟩, hp⟩, hl⟩, hq⟩ := hwf
    obtain ⟨a', b, hb, hv⟩ := hdr_bytes h hw
    obtain ⟨e1, e2⟩ := hdr_facts a' b h hv
    simp [encode, hb, u16be, isPartitionHead, e2, h50, C14.headSpec]

end Rtp.Model.H265
