/-
  Rtp/Proofs/H264Step.lean — one callback invocation of `H264Payloader.Payload` (model `step`) at
  the level of NAL units: which units leave, in which RFC 6184 packets, and what stays pending.
-/
import Rtp.Proofs.H264Payloader
namespace Rtp.Proofs.H264
open Rtp Rtp.Model Rtp.Model.H264 Rtp.Spec.Rfc6184

/-! ### byte tests of the callback in terms of the spec's classification -/

theorem dropped_test : ∀ h : UInt8,
    ((h &&& naluTypeBitmask) == audNALUType || (h &&& naluTypeBitmask) == fillerNALUType) =
      (hType h == 9 || hType h == 12) := by
  apply Rtp.Bits.forall_u8; decide +kernel

theorem sps_test : ∀ h : UInt8, ((h &&& naluTypeBitmask) == spsNALUType) = (hType h == 7) := by
  apply Rtp.Bits.forall_u8; decide +kernel

theorem pps_test : ∀ h : UInt8, ((h &&& naluTypeBitmask) == ppsNALUType) = (hType h == 8) := by
  apply Rtp.Bits.forall_u8; decide +kernel

theorem be16_size16 (n : Nat) (hn : n < 65536) : be16 n.toUInt16 = size16 n := by
  simp only [be16, size16, List.cons.injEq, and_true]
  constructor
  · apply UInt8.toNat_inj.mp
    simp [Nat.toUInt16, Nat.toUInt8, UInt16.toNat_shiftRight, UInt16.toNat_ofNat', Nat.shiftRight_eq_div_pow]
    omega
  · apply UInt8.toNat_inj.mp
    simp [Nat.toUInt16, Nat.toUInt8]

/-! ### unit-level description of one step -/

/-- a packet's worth of units: (is it a STAP-A?, the units) -/
abbrev Group := Bool × List Bytes

/-- the units in a list of groups, in order -/
def flatOf (gs : List Group) : List Bytes := gs.flatMap (·.2)

/-- units released by one step, grouped as they are packed, and the pending pair afterwards -/
def stepOut (disable : Bool) (mtu : Nat) (sps pps : Option Bytes) (n : Bytes) :
    List Group × (Option Bytes × Option Bytes) :=
  if isDropped n then ([], (sps, pps))
  else if disable then ([(false, [n])], (sps, pps))
  else if isSps n then ([], (some n, pps))
  else if isPps n then ([], (sps, some n))
  else match sps, pps with
    | some s, some p =>
      ((if 5 + s.length + p.length ≤ mtu then [(true, [s, p])] else [(false, [s]), (false, [p])]) ++
        [(false, [n])], (none, none))
    | _, _ => ([(false, [n])], (sps, pps))

/-- pending parameter sets are well-formed units that are not AUD/filler -/
def pendOk (o : Option Bytes) : Prop := ∀ s, o = some s → nalWF s = true ∧ isDropped s = false

structure StOk (st : PayState) : Prop where
  sps : pendOk st.sps
  pps : pendOk st.pps

theorem StOk.empty : StOk {} := ⟨(by intro s h; cases h), (by intro s h; cases h)⟩

theorem payloadNoStap_unit (mtu : Nat) (s : Bytes) (hw : nalWF s = true) (hd : isDropped s = false) :
    payloadNoStap mtu s = singleOrFua mtu s := by
  obtain ⟨h, body, rfl, _⟩ := unitOk_of_wf s hw
  have hb := emitNalus_bare _ (nalOk_of_wf _ hw)
  simp only [isDropped, typeOf] at hd
  simp [payloadNoStap, hb, stepNoStap, dropped_test, hd]

/-- the outcome of a step is a list of RFC 6184 items, packed as `groups` says -/
structure StepPlan (out : List Bytes) (groups : List Group) : Prop where
  ex : ∃ plan : List Item, out = encode plan ∧ plan.all Item.wf = true ∧
        plan.all Rtp.Pred.C10.headsApply = true ∧ plan.map Item.group = groups

theorem StepPlan.nil : StepPlan [] [] := ⟨⟨[], rfl, rfl, rfl, rfl⟩⟩

theorem StepPlan.append {o1 o2 : List Bytes} {n1 n2 : List Group} (a : StepPlan o1 n1)
    (b : StepPlan o2 n2) : StepPlan (o1 ++ o2) (n1 ++ n2) := by
  obtain ⟨p1, e1, w1, h1, k1⟩ := a.ex
  obtain ⟨p2, e2, w2, h2, k2⟩ := b.ex
  exact ⟨⟨p1 ++ p2, by simp [encode, e1, e2], by simp [w1, w2], by simp [h1, h2], by simp [k1, k2]⟩⟩

theorem itemOf_not_stap (mtu : Nat) (n : Bytes) : (itemOf mtu n).isStap = false := by
  unfold itemOf
  split
  · rfl
  · split <;> rfl

theorem StepPlan.unit (mtu : Nat) (hm : 3 ≤ mtu) (n : Bytes) (hw : nalWF n = true) :
    StepPlan (singleOrFua mtu n) [(false, [n])] := by
  have hu := unitOk_of_wf n hw
  obtain ⟨w, ha, hn⟩ := itemOf_wf mtu hm n hu
  exact ⟨⟨[itemOf mtu n], by simp [encode, singleOrFua_eq mtu hm n hu], by simp [w], by simp [ha],
    by simp [Item.group, hn, itemOf_not_stap]⟩⟩

theorem hType_78 : hType outputStapAHeader = 24 := by decide

theorem StepPlan.stap (mtu : Nat) (hm2 : mtu < 65536) (s p : Bytes)
    (hfit : (stapA s p).length ≤ mtu) : StepPlan [stapA s p] [(true, [s, p])] := by
  have hl : (stapA s p).length = 5 + s.length + p.length := by
    simp [stapA, be16]; omega
  refine ⟨⟨[.stapA outputStapAHeader [s, p]], ?_, ?_, by simp [Rtp.Pred.C10.headsApply], by simp [Item.group, Item.isStap, Item.nals]⟩⟩
  · simp [encode, Item.encode, encStapBody, stapA, be16_size16 s.length (by omega),
      be16_size16 p.length (by omega)]
  · simp [Item.wf, hType_78]; omega

theorem step_spec (disable : Bool) (mtu : Nat) (hm : 3 ≤ mtu) (hm2 : mtu < 65536) (st : PayState)
    (n : Bytes) (hw : nalWF n = true) (hst : StOk st) :
    StepPlan (step disable mtu st n).1 (stepOut disable mtu st.sps st.pps n).1 ∧
    ((step disable mtu st n).2.sps, (step disable mtu st n).2.pps) =
      (stepOut disable mtu st.sps st.pps n).2 ∧
    StOk (step disable mtu st n).2 := by
  obtain ⟨h, body, rfl, _⟩ := unitOk_of_wf n hw
  have hunit := StepPlan.unit mtu hm (h :: body) hw
  simp only [step, stepOut, isDropped, isSps, isPps, typeOf, dropped_test, sps_test, pps_test]
  by_cases hd : (hType h == 9 || hType h == 12) = true
  · simp only [hd, if_true]
    exact ⟨StepPlan.nil, (by simp), hst⟩
  · simp only [hd, Bool.false_eq_true, if_false]
    have hd' : isDropped (h :: body) = false := by simpa [isDropped, typeOf] using hd
    by_cases h7 : (hType h == 7) = true
    · simp only [h7, if_true]
      cases disable with
      | true => exact ⟨hunit, (by simp), hst⟩
      | false =>
        refine ⟨StepPlan.nil, (by simp), ⟨?_, hst.pps⟩⟩
        intro s hs; cases hs; exact ⟨hw, hd'⟩
    · simp only [h7, Bool.false_eq_true, if_false]
      by_cases h8 : (hType h == 8) = true
      · simp only [h8, if_true]
        cases disable with
        | true => exact ⟨hunit, (by simp), hst⟩
        | false =>
          refine ⟨StepPlan.nil, (by simp), ⟨hst.sps, ?_⟩⟩
          intro s hs; cases hs; exact ⟨hw, hd'⟩
      · simp only [h8, Bool.false_eq_true, if_false]
        cases disable with
        | true => exact ⟨hunit, (by simp), hst⟩
        | false =>
          obtain ⟨sps, pps⟩ := st
          cases sps with
          | none => exact ⟨hunit, (by simp), hst⟩
          | some s =>
            cases pps with
            | none => exact ⟨hunit, (by simp), hst⟩
            | some p =>
              have hs := hst.sps s rfl
              have hp := hst.pps p rfl
              refine ⟨?_, (by simp), StOk.empty⟩
              simp only [Bool.false_eq_true, if_false]
              apply StepPlan.append _ hunit
              have hl : (stapA s p).length = 5 + s.length + p.length := by
                simp [stapA, be16]; omega
              rw [hl]
              split
              · rename_i hfit
                exact StepPlan.stap mtu hm2 s p (by omega)
              · rw [payloadNoStap_unit mtu s hs.1 hs.2, payloadNoStap_unit mtu p hp.1 hp.2]
                exact StepPlan.append (StepPlan.unit mtu hm s hs.1) (StepPlan.unit mtu hm p hp.1)

end Rtp.Proofs.H264
