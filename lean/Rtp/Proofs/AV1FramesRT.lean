/-
  The deprecated receive path (AV1Packet.Unmarshal + frame.AV1.ReadFrames) on what well-shaped
  packets encode to (receive side of C13).
-/
import Rtp.Proofs.AV1Abs
import Rtp.Proofs.Obu
import Rtp.Proofs.AV1Packet
namespace Rtp.Model.AV1
open Rtp Rtp.Model Rtp.Spec.Av1Rtp
open Rtp.Model.ObuLemmas
namespace FramesRT

/-! ### header bits -/

theorem hdrBits_fin : ∀ (z y n : Bool) (w : Fin 4),
    (((aggHeader z y w.val n &&& 0x80) >>> 7 != 0) = z) ∧
    (((aggHeader z y w.val n &&& 0x40) >>> 6 != 0) = y) ∧
    (((aggHeader z y w.val n &&& 0x08) >>> 3 != 0) = n) ∧
    ((aggHeader z y w.val n &&& 0x30) >>> 4 = w.val.toUInt8) ∧
    (w.val.toUInt8.toNat = w.val) ∧
    ((w.val.toUInt8 != 0) = (w.val != 0)) := by decide +kernel

theorem hdrBits (z y n : Bool) (w : Nat) (hw : w ≤ 3) :
    (((aggHeader z y w n &&& 0x80) >>> 7 != 0) = z) ∧
    (((aggHeader z y w n &&& 0x40) >>> 6 != 0) = y) ∧
    (((aggHeader z y w n &&& 0x08) >>> 3 != 0) = n) ∧
    ((aggHeader z y w n &&& 0x30) >>> 4 = w.toUInt8) ∧
    (w.toUInt8.toNat = w) ∧
    ((w.toUInt8 != 0) = (w != 0)) :=
  hdrBits_fin z y n ⟨w, by omega⟩

/-! ### length fields -/

theorem readLebGo_lenPrefixed (hleb : LebGoSpec) (e rest : Bytes) (he : e.length < 2 ^ 56) :
    readLebGo (lenPrefixed e ++ rest) = some (e.length.toUInt64, (writeLeb e.length).length) := by
  unfold lenPrefixed
  rw [List.append_assoc]
  exact hleb _ _ he

theorem toUInt64_toNat_small (n : Nat) (h : n < 2 ^ 56) : n.toUInt64.toNat = n := by
  simp [Nat.toUInt64]
  omega

theorem length_le_flatMap (es : List Bytes) : es.length ≤ (es.flatMap lenPrefixed).length := by
  induction es with
  | nil => simp
  | cons e es ih =>
    have h1 : (lenPrefixed e).length ≠ 0 := by simpa using lenPrefixed_ne_nil e
    simp only [List.flatMap_cons, List.length_append, List.length_cons]
    omega

/-- the loop reads the length-prefixed elements one after the other -/
theorem parseBodyLoop_pre (hleb : LebGoSpec) (w : UInt8) (es : List Bytes) (tail : Bytes)
    (f i : Nat) (acc : List Bytes)
    (hsmall : ∀ e ∈ es, e.length < 2 ^ 56)
    (hw : w = 0 ∨ i + es.length ≤ w.toNat) :
    parseBodyLoop w (es.length + f) i (es.flatMap lenPrefixed ++ tail) acc =
      parseBodyLoop w f (i + es.length) tail (es.reverse ++ acc) := by
  induction es generalizing i acc with
  | nil => simp
  | cons e es ih =>
    have he := hsmall e (by simp)
    have hfuel : (e :: es).length + f = (es.length + f) + 1 := by simp; omega
    rw [hfuel, parseBodyLoop]
    have hne1 : (List.flatMap lenPrefixed (e :: es) ++ tail).isEmpty = false := by
      cases h : lenPrefixed e with
      | nil => exact absurd h (lenPrefixed_ne_nil e)
      | cons a b => simp [h]
    have hlast : (w != 0 && i == w.toNat) = false := by
      rcases hw with h | h
      · simp [h]
      · have : i ≠ w.toNat := by simp at h; omega
        simp [this]
    rw [hne1, hlast]
    simp only [Bool.false_eq_true, if_false, List.flatMap_cons, List.append_assoc]
    rw [readLebGo_lenPrefixed hleb e _ he]
    simp only [toUInt64_toNat_small _ he]
    have hdrop : (lenPrefixed e ++ (es.flatMap lenPrefixed ++ tail)).drop (writeLeb e.length).length
        = e ++ (es.flatMap lenPrefixed ++ tail) := by
      unfold lenPrefixed
      rw [List.append_assoc, List.drop_left']
      rfl
    rw [hdrop]
    have hlt : ¬ ((e ++ (es.flatMap lenPrefixed ++ tail)).length < e.length) := by
      simp
    rw [if_neg hlt, List.take_left' rfl, List.drop_left' rfl]
    rw [ih (i + 1) (e :: acc) (fun x hx => hsmall x (by simp [hx]))
      (by rcases hw with h | h
          · exact Or.inl h
          · right; simp at h; omega)]
    simp
    congr 1
    omega

/-- the whole body of a well-shaped packet -/
theorem parseBodyLoop_body (hleb : LebGoSpec) (p : Pk) (hg : PkGood p) :
    parseBodyLoop p.w.toUInt8 (p.body.length + 1) 1 p.body [] = .ok p.elems := by
  obtain ⟨z, y, n, w, pre, last⟩ := p
  have hshape := hg.shape
  have hsmall := hg.small
  have hnonempty := hg.nonempty
  simp only [Pk.shapeOK, Pk.elems] at hshape hsmall hnonempty
  simp only [Pk.body, Pk.elems]
  have hps : ∀ e ∈ pre, e.length < 2 ^ 56 := fun e he => hsmall e (by simp [he])
  have hlen := length_le_flatMap pre
  rcases hshape with ⟨hl, hw⟩ | ⟨hl, hw, hw3⟩
  · subst hl; subst hw
    obtain ⟨f, hf⟩ : ∃ f, (pre.flatMap lenPrefixed ++ (none : Option Bytes).getD []).length + 1
        = pre.length + (f + 1) := ⟨(pre.flatMap lenPrefixed).length - pre.length, by
        simp only [List.length_append, Option.getD_none, List.length_nil]; omega⟩
    rw [hf, parseBodyLoop_pre hleb (Nat.toUInt8 0) pre _ _ 1 [] hps (Or.inl (by decide))]
    simp [parseBodyLoop]
  · match last, hl with
    | some l, _ =>
      have hlne : l ≠ [] := hnonempty l (by simp)
      have hl1 : l.length ≠ 0 := by simpa using hlne
      obtain ⟨f, hf⟩ : ∃ f, (pre.flatMap lenPrefixed ++ (some l).getD []).length + 1
          = pre.length + (f + 2) :=
        ⟨(pre.flatMap lenPrefixed).length + l.length - pre.length - 1, by
          simp only [List.length_append, Option.getD_some]; omega⟩
      have hb := hdrBits false false false w hw3
      rw [hf, parseBodyLoop_pre hleb _ pre _ _ 1 [] hps (Or.inr (by rw [hb.2.2.2.2.1]; omega))]
      have hemp : l.isEmpty = false := by cases l <;> simp_all
      have hw0 : (w.toUInt8 != 0) = true := by rw [hb.2.2.2.2.2]; simp; omega
      have hiw : (1 + pre.length == w.toUInt8.toNat) = true := by rw [hb.2.2.2.2.1]; simp; omega
      simp only [Option.getD_some]
      rw [parseBodyLoop, hemp]
      simp only [Bool.false_eq_true, if_false, hw0, hiw, Bool.and_self, if_true]
      simp [parseBodyLoop]

/-- AV1Packet.Unmarshal of a fresh AV1Packet on the encoding of a well-shaped packet -/
theorem pktUnmarshal_encode (hleb : LebGoSpec) (p : Pk) (hg : PkGood p) :
    pktUnmarshal {} (some p.encode) =
      (.ok p.body, { z := p.z, y := p.y, w := p.w.toUInt8, n := p.n, elems := some p.elems }) := by
  have hw3 : p.w ≤ 3 := by
    rcases hg.shape with ⟨_, h⟩ | ⟨_, _, h⟩
    · omega
    · exact h
  have hb := hdrBits p.z p.y p.n p.w hw3
  have hbody : p.body ≠ [] := by
    have hne := hg.ne
    have hnonempty := hg.nonempty
    unfold Pk.body
    unfold Pk.elems at hne hnonempty
    cases hp : p.pre with
    | cons e es =>
      have := lenPrefixed_ne_nil e
      simp [this]
    | nil =>
      rw [hp] at hne hnonempty
      cases hl : p.last with
      | none => simp [hl] at hne
      | some l =>
        have := hnonempty l (by simp [hl])
        simpa using this
  have hloop := parseBodyLoop_body hleb p hg
  have hnz : (p.z && p.n) = false := by
    have := hg.nz
    cases hz : p.z <;> cases hn : p.n <;> simp_all
  unfold Pk.encode
  cases hbd : p.body with
  | nil => exact absurd hbd hbody
  | cons c cs =>
    rw [hbd] at hloop
    simp only [pktUnmarshal, hb.1, hb.2.1, hb.2.2.1, hb.2.2.2.1, hnz, hloop]
    simp

/-- GOAL 1.  A fresh AV1Packet reads back the fields and elements of the record. -/
theorem viewOf_encode (hleb : LebGoSpec) (p : Pk) (hg : PkGood p) :
    viewOf p.encode = .ok { z := p.z, y := p.y, w := p.w, n := p.n, elems := p.elems } := by
  have hw3 : p.w ≤ 3 := by
    rcases hg.shape with ⟨_, h⟩ | ⟨_, _, h⟩
    · omega
    · exact h
  have hb := hdrBits p.z p.y p.n p.w hw3
  unfold viewOf
  rw [pktUnmarshal_encode hleb p hg]
  simp [hb.2.2.2.2.1]

/-! ### frame.AV1.ReadFrames against joining by the flags -/

/-- the bytes an element with `contPrev = z` is appended to -/
def pfx (z : Bool) (op : Option OUnit) : Bytes := ((if z then op else none).map (·.bytes)).getD []

theorem extend_bytes (op : Option OUnit) (e : Bytes) (z c : Bool) (k : Nat) :
    (extend op ⟨e, z, c, k⟩).bytes = pfx z op ++ e := by
  unfold extend pfx
  cases z <;> cases op <;> simp

/-- what one packet's elements contribute: OBUs completed and bytes left open -/
def rfSpec (y : Bool) (es' : List Bytes) : List Bytes × Bytes :=
  if y then (es'.dropLast, es'.getLast?.getD []) else (es', [])

theorem joinPkt_flagElems (op : Option OUnit) (z y : Bool) (k : Nat) (e : Bytes) (es : List Bytes)
    (hne : ∀ x ∈ e :: es, x ≠ []) :
    ((joinPkt op (flagElems z y k (e :: es))).1.map (·.bytes),
      ((joinPkt op (flagElems z y k (e :: es))).2.map (·.bytes)).getD []) =
        rfSpec y ((pfx z op ++ e) :: es) ∧
    (joinPkt op (flagElems z y k (e :: es))).2.isSome = y ∧
    (∀ u, (joinPkt op (flagElems z y k (e :: es))).2 = some u → u.bytes ≠ []) := by
  induction es generalizing op z e with
  | nil =>
    have he : e ≠ [] := hne e (by simp)
    cases y
    · simp [flagElems, joinPkt, rfSpec, extend_bytes]
    · simp [flagElems, joinPkt, rfSpec, extend_bytes, he]
  | cons e' es ih =>
    have ih' := ih none false e' (fun x hx => hne x (by simp at hx ⊢; exact Or.inr hx))
    obtain ⟨h1, h2, h3⟩ := ih'
    have hp : pfx false none = [] := rfl
    rw [hp, List.nil_append] at h1
    have hfl : flagElems z y k (e :: e' :: es) = ⟨e, z, false, k⟩ :: flagElems false y k (e' :: es) := by
      simp [flagElems]
    rw [hfl]
    simp only [joinPkt, Bool.false_eq_true, if_false, List.map_cons, extend_bytes]
    refine ⟨?_, h2, h3⟩
    rw [Prod.mk.injEq] at h1
    rw [h1.2, h1.1]
    cases y <;> simp [rfSpec]

theorem readFrames_spec (op : Option OUnit) (buf : Bytes) (z y : Bool) (e : Bytes) (es : List Bytes)
    (hbuf : buf = (op.map (·.bytes)).getD [])
    (hop : ∀ u, op = some u → u.bytes ≠ [])
    (hz : z = op.isSome) :
    readFrames buf z y (e :: es) = rfSpec y ((pfx z op ++ e) :: es) := by
  subst hz
  cases op with
  | none =>
    subst hbuf
    cases y <;> simp [readFrames, rfSpec, pfx]
  | some u =>
    have hu : u.bytes ≠ [] := hop u rfl
    subst hbuf
    have hemp : u.bytes.isEmpty = false := by cases h : u.bytes <;> simp_all
    cases y <;> simp [readFrames, rfSpec, pfx, hemp]

theorem framesOf_gen (hleb : LebGoSpec) (pks : List Pk) (hgood : ∀ p ∈ pks, PkGood p) :
    ∀ (k : Nat) (op : Option OUnit) (buf : Bytes),
      buf = (op.map (·.bytes)).getD [] →
      (∀ u, op = some u → u.bytes ≠ []) →
      zyChain op.isSome (pks.map Pk.toPacket) = true →
      (framesOf buf (pks.map Pk.encode)).flatten =
        (joinElems op (allElems k (pks.map Pk.toPacket))).map (·.bytes) := by
  induction pks with
  | nil => intro k op buf _ _ _; simp [framesOf, allElems, joinElems]
  | cons p ps ih =>
    intro k op buf hbuf hop hchain
    have hg := hgood p (by simp)
    have ih' := ih (fun q hq => hgood q (by simp [hq]))
    simp only [List.map_cons, zyChain, Bool.and_eq_true, beq_iff_eq] at hchain
    obtain ⟨hz, hrest⟩ := hchain
    simp only [Pk.toPacket] at hz
    cases hel : p.elems with
    | nil => exact absurd hel hg.ne
    | cons e es =>
      have hne : ∀ x ∈ e :: es, x ≠ [] := by rw [← hel]; exact hg.nonempty
      obtain ⟨j1, j2, j3⟩ := joinPkt_flagElems op p.z p.y k e es hne
      have hrf := readFrames_spec op buf p.z p.y e es hbuf hop hz
      rw [← hrf, Prod.mk.injEq] at j1
      simp only [List.map_cons, framesOf, pktUnmarshal_encode hleb p hg, Option.getD_some, hel,
        List.flatten_cons, allElems, Pk.toPacket, joinElems_append, List.map_append]
      rw [j1.1]
      congr 1
      have := ih' (k + 1) (joinPkt op (flagElems p.z p.y k (e :: es))).2
        (readFrames buf p.z p.y (e :: es)).2 j1.2.symm j3 (by
          rw [j2]; simpa [Pk.toPacket] using hrest)
      simpa [Pk.toPacket] using this

/-- GOAL 2.  One frame.AV1 assembler over the encodings of well-shaped, Z/Y-chained packets returns,
    all in all, exactly the OBUs the packets denote. -/
theorem framesOf_encode (hleb : LebGoSpec) (pks : List Pk)
    (hgood : ∀ p ∈ pks, PkGood p)
    (hchain : zyChain false (pks.map Pk.toPacket) = true) :
    (framesOf [] (pks.map Pk.encode)).flatten = (units (pks.map Pk.toPacket)).map (·.bytes) := by
  unfold units
  exact framesOf_gen hleb pks hgood 0 none [] rfl (by simp) hchain

end FramesRT
end Rtp.Model.AV1
