/-
  Rtp/Proofs/PipelineAV1.lean — the AV1 half of the end-to-end composition: C08 (fragments ≤ MTU),
  C13 (`c13_roundtrip_spec_closed`: a fresh AV1Depacketizer returns the OBUs with size fields) and
  C15 (`c15_av1`: a receiver in ANY state behaves like a fresh one on a frame whose first packet has
  Z = 0) — the latter is what lets one depacketizer serve a whole history.
-/
import Rtp.Proofs.PipelineCodecs
import Rtp.Props.C13Closed
import Rtp.Props.C15_AV1
import Rtp.Props.C08_AV1
namespace Rtp.Proofs.Pipeline
open Rtp Rtp.Model Rtp.Model.Pipeline Rtp.Pred.Pipeline Rtp.Model.AV1 Rtp.Spec.Av1Rtp

/-- the depacketizer run of the generic pipeline is C13's `depFeed` -/
theorem av1_depackAll : ∀ (ps : List Bytes) (d : DSt), depackAll av1Depack d ps = depFeed d ps := by
  intro ps
  induction ps with
  | nil => intro d; rfl
  | cons p ps ih => intro d; simp only [depackAll, depFeed, av1Depack, ih]

theorem aggHeader_z0_fin : ∀ (y n : Bool) (w : Fin 4), (aggHeader false y w.val n).toNat / 128 % 2 = 0 := by
  decide +kernel

theorem aggHeader_z0 (y n : Bool) (w : Nat) : (aggHeader false y w n).toNat / 128 % 2 = 0 := by
  rw [Rtp.Model.AV1B.aggHeader_mod]
  exact aggHeader_z0_fin y n ⟨w % 4, Nat.mod_lt _ (by omega)⟩

theorem body_ne (p : Pk) (hp : PkGood p) : p.body ≠ [] := by
  obtain ⟨_, hne, hnonempty, _, _⟩ := hp
  obtain ⟨z, y, n, w, pre, last⟩ := p
  simp only [Pk.elems, Pk.body] at *
  cases pre with
  | nil =>
    cases last with
    | none => simp at hne
    | some e =>
      have := hnonempty e (by simp)
      simpa using this
  | cons e es =>
    have := hnonempty e (by simp)
    intro h
    simp only [List.flatMap_cons, lenPrefixed, List.append_eq_nil_iff] at h
    exact this h.1.1.2

/-- the first payload of a well-shaped packet train is readable and has Z = 0 -/
theorem frameStarts_encode (pks : List Pk) (hgood : ∀ p ∈ pks, PkGood p)
    (hchain : zyChain false (pks.map Pk.toPacket) = true) :
    Rtp.Pred.C15Av1.frameStarts (pks.map Pk.encode) = true := by
  cases pks with
  | nil => rfl
  | cons p ps =>
    have hb := body_ne p (hgood p (by simp))
    simp only [List.map_cons, zyChain, Pk.toPacket, Bool.and_eq_true, beq_iff_eq] at hchain
    have hz : p.z = false := hchain.1
    simp only [List.map_cons, Pk.encode]
    cases hbody : p.body with
    | nil => exact absurd hbody hb
    | cons b1 rest =>
      simp only [Rtp.Pred.C15Av1.frameStarts, hz, aggHeader_z0, beq_self_eq_true]

theorem wire_ne (o : Obu) : o.wire ≠ [] := by
  simp only [Obu.wire]
  intro h
  simp only [List.append_eq_nil_iff] at h
  have := h.1.1
  cases hm : o.hdr.marshal with
  | nil =>
    simp [ObuHeader.marshal] at hm
    split at hm <;> simp at hm
  | cons a t => rw [hm] at this; cases this

theorem serialise_ne (obus : List Obu) (h : obus ≠ []) : serialise obus ≠ [] := by
  cases obus with
  | nil => exact absurd rfl h
  | cons o os =>
    simp only [serialise, List.map_cons, List.flatten_cons]
    intro he
    exact wire_ne o (List.append_eq_nil_iff.mp he).1

/-- domain: the frame is the serialisation of a non-empty well-formed OBU sequence -/
def av1Inv : Unit → Bytes → Prop := fun _ frame =>
  ∃ obus : List Obu, obus ≠ [] ∧ obusWF obus = true ∧ frame = serialise obus

theorem av1_fits (B : UInt16) : PayFits av1Pay B av1Inv := by
  intro st frame h
  obtain ⟨obus, hne, _, rfl⟩ := h
  refine ⟨isEmpty_false_of_ne (serialise_ne obus hne), ?_⟩
  intro x hx
  exact (Rtp.Props.C08.AV1.c08_av1_bound B _ x hx).1

/-- the frame in AV1's normal form, as a function of the frame bytes: what the payloads denote
    (RTP elements joined across Y → Z), every OBU with its size field put back -/
def av1Exp (B : UInt16) (frame : Bytes) : Bytes :=
  (((denote (AV1.payload B frame)).getD []).map sizedOf).flatten

theorem normaliseSized_eq (obus : List Obu) (hwf : obusWF obus = true) :
    normaliseSized obus = (normalise obus).map sizedOf := by
  obtain ⟨_, _, hb, _, hs⟩ := payload_facts readLebGo_writeLeb 2 (by omega) (by omega) obus hwf
  rw [← hb, ← hs, List.map_map]
  rfl

theorem av1Exp_serialise (B : UInt16) (hB : 2 ≤ B.toNat) (obus : List Obu) (hwf : obusWF obus = true) :
    av1Exp B (serialise obus) = (normaliseSized obus).flatten := by
  simp only [av1Exp, Rtp.Props.C13.c13_denotes_closed B hB obus hwf, Option.getD_some,
    normaliseSized_eq obus hwf]

theorem av1_dep (B : UInt16) (hB : 2 ≤ B.toNat) : DepOkE av1Pay av1Depack B av1Inv (av1Exp B) := by
  intro st frame d h
  obtain ⟨obus, hne, hwf, rfl⟩ := h
  have hs : B.toNat ≤ 65535 := by have := B.toNat_lt; omega
  obtain ⟨hgood, hchain, _, _, _⟩ := payload_facts readLebGo_writeLeb B.toNat hB hs obus hwf
  have hstart : Rtp.Pred.C15Av1.frameStarts (AV1.payload B (serialise obus)) = true := by
    rw [payload_eq B _ hB]; exact frameStarts_encode _ hgood hchain
  obtain ⟨⟨outs, ho1, ho2⟩, _⟩ := Rtp.Props.C13.c13_roundtrip_spec_closed B hB obus hwf
  show (depackAll av1Depack d (AV1.payload B (serialise obus))).1.all Res.isOk = true ∧
    (depackAll av1Depack d (AV1.payload B (serialise obus))).1.flatMap resBytes = _
  rw [av1_depackAll, (Rtp.Props.C15.AV1.c15_av1 d _ hstart).1, ho1, av1Exp_serialise B hB obus hwf]
  exact ⟨all_isOk_ok _, by rw [flatMap_resBytes_ok]; exact ho2⟩

theorem av1_payOk (B : UInt16) (frames : List AV1Frame) (hw : ∀ fr ∈ frames, fr.wf = true) :
    PayOk av1Pay B av1Inv () (frames.map AV1Frame.frameIn) := by
  refine payOk_of av1Pay B av1Inv (fun _ => True) (fun fr => av1Inv () fr) (fun _ _ _ h => h)
    (fun _ _ _ _ => trivial) _ () trivial ?_
  intro f hf
  obtain ⟨fr, hfr, rfl⟩ := List.mem_map.mp hf
  have := hw fr hfr
  simp only [AV1Frame.wf, Bool.and_eq_true, Bool.not_eq_true', List.isEmpty_eq_false_iff] at this
  exact ⟨fr.obus, this.1, this.2, rfl⟩

theorem av1_expected (B : UInt16) (hB : 2 ≤ B.toNat) (frames : List AV1Frame) (hw : ∀ fr ∈ frames, fr.wf = true) :
    (frames.map AV1Frame.frameIn).map (fun f => av1Exp B f.frame) = frames.map AV1Frame.expected := by
  rw [List.map_map]
  apply List.map_congr_left
  intro fr hfr
  have := hw fr hfr
  simp only [AV1Frame.wf, Bool.and_eq_true] at this
  exact av1Exp_serialise B hB fr.obus this.2

end Rtp.Proofs.Pipeline
