/-
  Rtp/Proofs/ProvAV1.lean — the provenance-level AV1Depacketizer (Rtp/Model/ProvAV1.lean):
  forgetting origins gives Model/AV1Depack.lean; the returned bytes are always a new array; the
  retained fragment is `fresh` when the retention step copies.
-/
import Rtp.Model.ProvAV1
import Rtp.Proofs.Prov
namespace Rtp.Proofs.ProvAV1
open Rtp Rtp.Model Rtp.Model.Prov Rtp.Model.AV1 Rtp.Proofs.Prov

def forgetLoop (r : PLoopEnd × PBytes) : LoopEnd × Bytes := (r.1.forget, r.2.bytes)

theorem forgetLoop_mk (a : PLoopEnd) (b : PBytes) : forgetLoop (a, b) = (a.forget, b.bytes) := rfl

theorem forget_pElemLoop (keep : PBytes → PBytes) (hk : ∀ x, (keep x).bytes = x.bytes)
    (w : Nat) (z y : Bool) (fuel : Nat) (rest : PBytes) (idx : Nat) (buf acc : PBytes) :
    forgetLoop (pElemLoop keep w z y fuel rest idx buf acc) =
      elemLoop w z y fuel rest.bytes idx buf.bytes acc.bytes := by
  induction fuel generalizing rest idx buf acc with
  | zero => rfl
  | succ fuel ih =>
    rw [pElemLoop, elemLoop]
    dsimp only
    by_cases he : rest.bytes.isEmpty = true
    · simp only [he, if_true]; rfl
    · simp only [he]
      by_cases hc : (w == 0 || !(w != 0 && idx + 1 == w)) = true
      · cases hl : readLebGo rest.bytes with
        | none => simp only [hc, if_true]; rfl
        | some vk =>
          obtain ⟨v, k⟩ := vk
          simp only [hc, if_true, apply_ite PBytes.bytes, bytes_make, bytes_take, bytes_drop]
          generalize emitObu _ _ = eo
          rcases eo with _ | _ | bs <;>
            simp [apply_ite forgetLoop, forgetLoop_mk, PLoopEnd.forget, ih, hk, apply_ite PBytes.bytes]
      · simp only [hc, Bool.false_eq_true, ↓reduceIte, apply_ite PBytes.bytes, bytes_make, bytes_take,
          List.take_length]
        generalize emitObu _ _ = eo
        rcases eo with _ | _ | bs <;>
            simp [apply_ite forgetLoop, forgetLoop_mk, PLoopEnd.forget, ih, hk, apply_ite PBytes.bytes]

def endOk (o : Origin) : PLoopEnd → Prop
  | .done out _ => out.origin = o
  | .fail => True

theorem out_pElemLoop (keep : PBytes → PBytes) (w : Nat) (z y : Bool) (fuel : Nat) (rest : PBytes)
    (idx : Nat) (buf acc : PBytes) :
    endOk acc.origin (pElemLoop keep w z y fuel rest idx buf acc).1 := by
  induction fuel generalizing rest idx buf acc with
  | zero => simp [pElemLoop, endOk]
  | succ fuel ih =>
    rw [pElemLoop]
    dsimp only
    repeat' split
    all_goals first
      | exact ih _ _ _ _
      | simp [endOk]

theorem buf_pElemLoop (keep : PBytes → PBytes) (hk : ∀ x, (keep x).origin = .fresh)
    (w : Nat) (z y : Bool) (fuel : Nat) (rest : PBytes)
    (idx : Nat) (buf acc : PBytes) (hb : buf.origin = .fresh) :
    (pElemLoop keep w z y fuel rest idx buf acc).2.origin = .fresh := by
  induction fuel generalizing rest idx buf acc with
  | zero => simpa [pElemLoop] using hb
  | succ fuel ih =>
    rw [pElemLoop]
    dsimp only
    repeat' split
    all_goals first
      | exact hb
      | exact hk _
      | exact ih _ _ _ _ hb
      | exact ih _ _ _ _ rfl
      | rfl

def forgetDep (r : Res PBytes × PDSt) : Res Bytes × DSt := (r.1.map PBytes.bytes, r.2.forget)

theorem forget_pDepUnmarshalG (keep : PBytes → PBytes) (hk : ∀ x, (keep x).bytes = x.bytes)
    (d : PDSt) (i : Nat) (payload : Bytes) :
    forgetDep (pDepUnmarshalG keep d i payload) = depUnmarshal d.forget payload := by
  unfold pDepUnmarshalG depUnmarshal
  match payload with
  | [] => rfl
  | [_] => rfl
  | b0 :: b1 :: body =>
    dsimp only
    generalize hp : pElemLoop _ _ _ _ _ _ _ _ _ = pr
    generalize he : elemLoop _ _ _ _ _ _ _ _ = er
    have : forgetLoop pr = er := by
      rw [← hp, ← he, forget_pElemLoop keep hk]
      simp [apply_ite PBytes.bytes, PDSt.forget]
    subst this
    rcases pr with ⟨_ | _, b⟩
    · simp only [forgetLoop, PLoopEnd.forget]
      split <;> rfl
    · rfl

/-- what `Unmarshal` returns is a new array (whatever the retention step); the retained fragment
    stays owned when the retention step allocates -/
theorem owned_pDepUnmarshalG (keep : PBytes → PBytes) (d : PDSt) (i : Nat) (payload : Bytes) :
    (∀ r, (pDepUnmarshalG keep d i payload).1 = .ok r → r.origin = .fresh) ∧
    ((∀ x, (keep x).origin = .fresh) → d.Owned → (pDepUnmarshalG keep d i payload).2.Owned) := by
  unfold pDepUnmarshalG
  match payload with
  | [] => exact ⟨by simp, fun _ h => h⟩
  | [_] => exact ⟨by simp, fun _ h => h⟩
  | b0 :: b1 :: body =>
    dsimp only
    generalize hp : pElemLoop _ _ _ _ _ _ _ _ _ = pr
    have ho : endOk .fresh pr.1 := by rw [← hp]; exact out_pElemLoop ..
    have hb : (∀ x, (keep x).origin = .fresh) → d.Owned → pr.2.origin = .fresh := by
      intro hk hd
      rw [← hp]
      apply buf_pElemLoop keep hk
      repeat' split
      all_goals first
        | rfl
        | exact hd
    rcases pr with ⟨_ | _, b⟩
    · dsimp only at ho hb ⊢
      simp only [endOk] at ho
      split
      · exact ⟨by simp, hb⟩
      · refine ⟨?_, hb⟩
        intro r hr; cases hr; exact ho
    · exact ⟨by simp, hb⟩

theorem forget_pDepFeedG (keep : PBytes → PBytes) (hk : ∀ x, (keep x).bytes = x.bytes)
    (d : PDSt) (i : Nat) (ps : List Bytes) :
    ((pDepFeedG keep d i ps).1.map (·.map PBytes.bytes), (pDepFeedG keep d i ps).2.forget) =
      depFeed d.forget ps := by
  induction ps generalizing d i with
  | nil => rfl
  | cons p ps ih =>
    have h1 := forget_pDepUnmarshalG keep hk d i p
    have h2 := ih (pDepUnmarshalG keep d i p).2 (i + 1)
    simp only [forgetDep] at h1
    simp only [pDepFeedG, depFeed, List.map_cons]
    rw [← h1, ← h2]

theorem owned_pDepFeedG (keep : PBytes → PBytes) (hk : ∀ x, (keep x).origin = .fresh)
    (d : PDSt) (i : Nat) (ps : List Bytes) (hd : d.Owned) :
    (∀ res ∈ (pDepFeedG keep d i ps).1, ∀ r, res = .ok r → r.origin = .fresh) ∧
    (pDepFeedG keep d i ps).2.Owned := by
  induction ps generalizing d i with
  | nil => exact ⟨by simp [pDepFeedG], hd⟩
  | cons p ps ih =>
    have h1 := owned_pDepUnmarshalG keep d i p
    have h2 := ih (pDepUnmarshalG keep d i p).2 (i + 1) (h1.2 hk hd)
    simp only [pDepFeedG, List.mem_cons, forall_eq_or_imp]
    exact ⟨⟨h1.1, h2.1⟩, h2.2⟩

end Rtp.Proofs.ProvAV1
