/-
  Rtp/Proofs/H265AnnexB.lean — `emitNalus` (codecs/h264_packet.go, modelled in Rtp/Model/AnnexB.lean)
  on the Annex-B framing the C14 generators and theorems use: units without an inner start code
  and without a trailing zero octet, each preceded by 00 00 01 or 00 00 00 01 (or a single raw unit).
  Lemmas about the shared model live here because this group needs them; nothing in the shared file
  is changed.
-/
import Rtp.Model.AnnexB
import Rtp.Pred.C14
namespace Rtp.Model.H265
open Rtp Rtp.Model Rtp.Pred

/-! ### Annex-B: `emitNalus` recovers the units of a well-formed frame -/

theorem hasSC_cons_false (x : UInt8) (u : Bytes) (h : C14.hasSC (x :: u) = false) : C14.hasSC u = false := by
  unfold C14.hasSC at h
  split at h
  · simp at h
  · rename_i heq; simp at heq; obtain ⟨_, rfl⟩ := heq; exact h
  · simp at *

theorem indexSC_none (u : Bytes) (h : C14.hasSC u = false) : indexSC u = none := by
  induction u with
  | nil => simp [indexSC]
  | cons x u ih =>
    have hu := hasSC_cons_false x u h
    unfold indexSC
    split
    · rename_i heq
      simp at heq; obtain ⟨rfl, rfl⟩ := heq
      simp [C14.hasSC] at h
    · rename_i heq; simp at heq; obtain ⟨_, rfl⟩ := heq
      simp [ih hu]
    · simp at *

theorem getLast_cons_ne (x : UInt8) (u : Bytes) (hu : u ≠ []) (h : (x :: u).getLast? ≠ some 0) :
    u.getLast? ≠ some 0 := by
  cases u with
  | nil => exact absurd rfl hu
  | cons y t => simpa [List.getLast?_cons_cons] using h

/-- a unit without an inner start code that does not end in zero, followed by a 3-byte start
    code: the first start code found is that one -/
theorem indexSC_append3 (u t : Bytes) (hs : C14.hasSC u = false) (hl : u.getLast? ≠ some 0) :
    indexSC (u ++ 0 :: 0 :: 1 :: t) = some u.length := by
  induction u with
  | nil => simp [indexSC]
  | cons x u ih =>
    have hu := hasSC_cons_false x u hs
    rw [List.cons_append]
    unfold indexSC
    split
    · rename_i r heq
      exfalso
      simp only [List.cons.injEq] at heq
      obtain ⟨rfl, heq⟩ := heq
      match u, heq, hs, hl with
      | [], _, _, hl => simp at hl
      | [y], heq, _, hl => simp at heq
      | y :: z :: u', heq, hs, _ =>
        simp at heq
        obtain ⟨rfl, rfl, _⟩ := heq
        simp [C14.hasSC] at hs
    · rename_i heq
      simp only [List.cons.injEq] at heq
      obtain ⟨_, rfl⟩ := heq
      by_cases hne : u = []
      · subst hne; simp [indexSC]
      · rw [ih hu (getLast_cons_ne x u hne hl)]; simp
    · simp at *

theorem indexSC_append4 (u t : Bytes) (hs : C14.hasSC u = false) (hl : u.getLast? ≠ some 0) :
    indexSC (u ++ 0 :: 0 :: 0 :: 1 :: t) = some (u.length + 1) := by
  induction u with
  | nil => simp [indexSC]
  | cons x u ih =>
    have hu := hasSC_cons_false x u hs
    rw [List.cons_append]
    unfold indexSC
    split
    · rename_i r heq
      exfalso
      simp only [List.cons.injEq] at heq
      obtain ⟨rfl, heq⟩ := heq
      match u, heq, hs, hl with
      | [], _, _, hl => simp at hl
      | [y], heq, _, hl => simp at heq
      | y :: z :: u', heq, hs, _ =>
        simp at heq
        obtain ⟨rfl, rfl, _⟩ := heq
        simp [C14.hasSC] at hs
    · rename_i heq
      simp only [List.cons.injEq] at heq
      obtain ⟨_, rfl⟩ := heq
      by_cases hne : u = []
      · subst hne; simp [indexSC]
      · rw [ih hu (getLast_cons_ne x u hne hl)]; simp
    · simp at *

theorem getD_last_ne (u t : Bytes) (hne : u ≠ []) (hl : u.getLast? ≠ some 0) :
    ((u ++ t).getD (u.length - 1) 1 == 0) = false := by
  have hpos : 0 < u.length := List.length_pos_iff.mpr hne
  rw [List.getD_eq_getElem?_getD, List.getElem?_append_left (by omega), ← List.getLast?_eq_getElem?]
  cases h : u.getLast? with
  | none => simp
  | some x =>
    rw [h] at hl
    simp only [Option.getD_some, beq_eq_false_iff_ne, ne_eq]
    intro hx; subst hx; exact hl rfl

/-- units that Annex-B framing can carry, each preceded by a 3- or 4-byte start code -/
def scOK (r : List (Nat × Bytes)) : Prop :=
  ∀ u ∈ r, (u.1 = 3 ∨ u.1 = 4) ∧ C14.hasSC u.2 = false ∧ u.2.getLast? ≠ some 0 ∧ u.2 ≠ []

theorem splitRest_frame (u : Bytes) (hs : C14.hasSC u = false) (hl : u.getLast? ≠ some 0) (hne : u ≠ [])
    (r : List (Nat × Bytes)) (hr : scOK r) :
    splitRest (u ++ C14.frameBytes r) = u :: r.map (·.2) := by
  induction r generalizing u with
  | nil =>
    simp only [C14.frameBytes, List.map_nil, List.flatten_nil, List.append_nil]
    rw [splitRest]
    split
    · rfl
    · rename_i e he; rw [indexSC_none u hs] at he; simp at he
  | cons p r ih =>
    obtain ⟨sc, u2⟩ := p
    obtain ⟨hsc, hs2, hl2, hne2⟩ := hr (sc, u2) (by simp)
    have hr' : scOK r := fun v hv => hr v (by simp [hv])
    have ih2 := ih u2 hs2 hl2 hne2 hr'
    simp only at hsc
    rcases hsc with rfl | rfl
    · -- 3-byte start code
      have hfb : C14.frameBytes ((3, u2) :: r) = 0 :: 0 :: 1 :: (u2 ++ C14.frameBytes r) := by
        simp [C14.frameBytes, C14.scBytes]
      rw [hfb, splitRest]
      have hidx := indexSC_append3 u (u2 ++ C14.frameBytes r) hs hl
      split
      · rename_i he; rw [hidx] at he; simp at he
      · rename_i e he
        rw [hidx] at he; simp only [Option.some.injEq] at he; subst he
        have hfour := getD_last_ne u (0 :: 0 :: 1 :: (u2 ++ C14.frameBytes r)) hne hl
        simp only [hfour, Bool.and_false, Bool.false_eq_true, if_false, List.take_left',
          List.map_cons, List.cons.injEq, true_and]
        have hd : List.drop (u.length + 3) (u ++ 0 :: 0 :: 1 :: (u2 ++ C14.frameBytes r)) =
            u2 ++ C14.frameBytes r := by
          rw [List.drop_append]; simp
        rw [hd, ih2]
    · -- 4-byte start code
      have hfb : C14.frameBytes ((4, u2) :: r) = 0 :: 0 :: 0 :: 1 :: (u2 ++ C14.frameBytes r) := by
        simp [C14.frameBytes, C14.scBytes]
      rw [hfb, splitRest]
      have hidx := indexSC_append4 u (u2 ++ C14.frameBytes r) hs hl
      split
      · rename_i he; rw [hidx] at he; simp at he
      · rename_i e he
        rw [hidx] at he; simp only [Option.some.injEq] at he; subst he
        have hz : ((u ++ 0 :: 0 :: 0 :: 1 :: (u2 ++ C14.frameBytes r)).getD u.length 1 == 0) = true := by
          simp [List.getD_eq_getElem?_getD]
        have hd : List.drop (u.length + 1 + 3) (u ++ 0 :: 0 :: 0 :: 1 :: (u2 ++ C14.frameBytes r)) =
            u2 ++ C14.frameBytes r := by
          have e : u.length + 1 + 3 - u.length = 4 := by omega
          rw [List.drop_append, e, List.drop_eq_nil_of_le (by omega)]; rfl
        simp only [Nat.zero_lt_succ, decide_true, Nat.add_sub_cancel, hz, Bool.and_self, if_true, hd, ih2,
          List.map_cons]
        simp

theorem nalWF_parts (u : Bytes) (h : C14.nalWF u = true) :
    3 ≤ u.length ∧ (Spec.Rfc7798.Hdr.ofNal u).f = false ∧ (Spec.Rfc7798.Hdr.ofNal u).type.toNat < 48 ∧
    C14.hasSC u = false ∧ u.getLast? ≠ some 0 := by
  simp only [C14.nalWF, Bool.and_eq_true, decide_eq_true_eq, Bool.not_eq_true', bne_iff_ne, ne_eq] at h
  obtain ⟨⟨⟨⟨h1, h2⟩, h3⟩, h4⟩, h5⟩ := h
  exact ⟨h1, h2, h3, h4, h5⟩

/-- `emitNalus` on the Annex-B framing of well-formed units returns exactly those units -/
theorem emitNalus_frame (frame : List (Nat × Bytes)) (h : C14.frameWF frame = true) :
    emitNalus (C14.frameBytes frame) = frame.map (·.2) := by
  simp only [C14.frameWF, Bool.and_eq_true, Bool.not_eq_true', List.isEmpty_eq_false_iff,
    List.all_eq_true, Bool.or_eq_true, beq_iff_eq] at h
  obtain ⟨hne, hall⟩ := h
  match frame, hne, hall with
  | (sc, u) :: rest, _, hall =>
    obtain ⟨hu, hsc⟩ := hall (sc, u) (by simp)
    obtain ⟨h3, _, _, hs, hl⟩ := nalWF_parts u hu
    have hune : u ≠ [] := by intro h0; subst h0; simp at h3
    have hrest : scOK rest := by
      intro v hv
      obtain ⟨hv1, hv2⟩ := hall v (by simp [hv])
      obtain ⟨w3, _, _, ws, wl⟩ := nalWF_parts v.2 hv1
      refine ⟨?_, ws, wl, by intro h0; rw [h0] at w3; simp at w3⟩
      rcases hv2 with (hv2 | hv2) | hv2
      · exact Or.inl hv2
      · exact Or.inr hv2
      · have : rest = [] := by
          have := hv2.2; simp only [List.length_cons] at this
          cases rest with
          | nil => rfl
          | cons _ _ => simp at this
        subst this; simp at hv
    simp only at hsc
    have hfb : C14.frameBytes ((sc, u) :: rest) = C14.scBytes sc ++ (u ++ C14.frameBytes rest) := by
      simp [C14.frameBytes]
    have hsr := splitRest_frame u hs hl hune rest hrest
    rcases hsc with (rfl | rfl) | ⟨rfl, hlen1⟩
    · rw [hfb]
      simp only [C14.scBytes, List.cons_append, List.nil_append, emitNalus, indexSC, List.drop_succ_cons,
        List.drop_zero, hsr, List.map_cons]
    · rw [hfb]
      have : indexSC (0 :: 0 :: 0 :: 1 :: (u ++ C14.frameBytes rest)) = some 1 := by simp [indexSC]
      simp only [C14.scBytes, List.cons_append, List.nil_append, emitNalus, this, List.drop_succ_cons,
        List.drop_zero, hsr, List.map_cons]
    · have : rest = [] := by
        simp only [List.length_cons] at hlen1
        cases rest with
        | nil => rfl
        | cons _ _ => simp at hlen1
      subst this
      simp only [C14.frameBytes, C14.scBytes, List.map_cons, List.map_nil, List.nil_append,
        List.flatten_cons, List.flatten_nil, List.append_nil, emitNalus, indexSC_none u hs]

end Rtp.Model.H265
