/-
  Rtp/Proofs/AV1PaySim.lean — the byte-level model of AV1Payloader (Rtp/Model/AV1PayBytes.lean, a
  statement-by-statement transcription of the Go code) and the record-based model (AV1Pay.lean)
  compute the same payloads: a simulation along the loop invariant `PInv`.
-/
import Rtp.Model.AV1PayBytes
import Rtp.Proofs.AV1PayTop
namespace Rtp.Model.AV1B
open Rtp Rtp.Model Rtp.Model.AV1 Rtp.Spec.Av1Rtp
open Rtp.Model.ObuLemmas

/-! ### header byte identities (all by kernel evaluation over the finitely many field values) -/

theorem hdr_fresh : ∀ n : Bool, aggHeader false false 0 n = (if n then 0x08 else 0) := by decide +kernel

theorem hdr_setW_fin : ∀ (z y n : Bool) (c : Fin 3),
    aggHeader z y 0 n ||| (((c.val + 1) <<< 4).toUInt8 &&& 0x30) = aggHeader z y (c.val + 1) n := by
  decide +kernel

theorem hdr_setY_fin : ∀ (z y n : Bool) (w : Fin 4),
    aggHeader z y w.val n ||| 0x40 = aggHeader z true w.val n := by decide +kernel

theorem aggHeader_mod (z y n : Bool) (w : Nat) : aggHeader z y w n = aggHeader z y (w % 4) n := by
  simp [aggHeader]

theorem hdr_setY (z y n : Bool) (w : Nat) : aggHeader z y w n ||| 0x40 = aggHeader z true w n := by
  rw [aggHeader_mod z y n w, aggHeader_mod z true n w]
  exact hdr_setY_fin z y n ⟨w % 4, Nat.mod_lt _ (by omega)⟩

theorem hdr_frag : ∀ z : Bool,
    aggHeader z false 1 false = ((if z then 0x80 else 0 : UInt8) ||| 0x10) ∧
    aggHeader z false 0 false = (if z then 0x80 else 0 : UInt8) := by decide +kernel

/-! ### what the record operations do to the encoding -/

theorem encode_setLast (p : Pk) (x : Bytes) (c : Nat) (hl : p.last = none) (hw : p.w = 0) (hc : c < 3) :
    Pk.encode { p with w := c + 1, last := some x } =
      orHdr (((c + 1) <<< 4).toUInt8 &&& 0x30) p.encode ++ x := by
  have := hdr_setW_fin p.z p.y p.n ⟨c, hc⟩
  simp only at this
  simp only [Pk.encode, Pk.body, hl, hw, Option.getD_none, List.append_nil, Option.getD_some, orHdr,
    List.cons_append, this]

theorem encode_snoc (p : Pk) (x : Bytes) (hl : p.last = none) :
    Pk.encode { p with pre := p.pre ++ [x] } = p.encode ++ writeLeb x.length ++ x := by
  simp [Pk.encode, Pk.body, hl, List.flatMap_append, lenPrefixed]

theorem encode_setY (p : Pk) : Pk.encode { p with y := true } = orHdr 0x40 p.encode := by
  simp only [Pk.encode, Pk.body, orHdr, hdr_setY]

theorem setYB_map (ps : List Pk) : setYB (ps.map Pk.encode) = (setY ps).map Pk.encode := by
  cases ps with
  | nil => rfl
  | cons p ps => simp only [List.map_cons, setYB, setY, encode_setY]

theorem encode_length (p : Pk) : p.encode.length = p.size := by
  simp [Pk.encode, Pk.size]; omega

/-! ### the fragment loop -/

theorem fragLoopB_sim (mtu : Nat) (isLast : Bool) (fuel : Nat) (rem : Bytes) (wrote : Nat)
    (ps : List Pk) (cnt : Nat) :
    fragLoopB mtu isLast fuel rem wrote (ps.map Pk.encode) cnt =
      ((fragLoop mtu isLast fuel rem wrote ps cnt).1.map Pk.encode,
       (fragLoop mtu isLast fuel rem wrote ps cnt).2) := by
  induction fuel generalizing rem wrote ps cnt with
  | zero => simp [fragLoopB, fragLoop]
  | succ f ih =>
    by_cases hr : rem.isEmpty = true
    · simp [fragLoopB, fragLoop, hr]
    · have hr' : rem.isEmpty = false := by simpa using hr
      simp only [fragLoopB, fragLoop, hr', Bool.false_eq_true, if_false]
      have hps : (if (wrote != 0) = true then setYB (ps.map Pk.encode) else ps.map Pk.encode) =
          (if (wrote != 0) = true then setY ps else ps).map Pk.encode := by
        split
        · exact setYB_map ps
        · rfl
      rw [hps]
      obtain ⟨f1, f0⟩ := hdr_frag (wrote != 0)
      by_cases hc : (isLast || decide (rem.length ≥ mtu - 1)) = true
      · simp only [hc, if_true]
        have henc : (((if (wrote != 0) = true then (0x80 : UInt8) else 0) ||| 0x10) ::
              rem.take (min rem.length (mtu - 1))) =
            Pk.encode { z := wrote != 0, w := 1, last := some (rem.take (min rem.length (mtu - 1))) } := by
          simp [Pk.encode, Pk.body, f1]
        rw [henc, ← List.map_cons, ih]
      · simp only [hc, Bool.false_eq_true, if_false]
        have hk := computeWriteSize_le (min rem.length (mtu - 1)) (mtu - 1)
        have hlen : (rem.take (computeWriteSize (min rem.length (mtu - 1)) (mtu - 1))).length =
            computeWriteSize (min rem.length (mtu - 1)) (mtu - 1) := by
          simp only [List.length_take]; omega
        have henc : ((if (wrote != 0) = true then (0x80 : UInt8) else 0) ::
              (writeLeb (computeWriteSize (min rem.length (mtu - 1)) (mtu - 1)) ++
                rem.take (computeWriteSize (min rem.length (mtu - 1)) (mtu - 1)))) =
            Pk.encode { z := wrote != 0,
                        pre := [rem.take (computeWriteSize (min rem.length (mtu - 1)) (mtu - 1))] } := by
          simp [Pk.encode, Pk.body, f0, lenPrefixed, hlen]
        rw [henc, ← List.map_cons, ih]

/-! ### appendOBUPayload -/

theorem appendObuB_sim (out : List Pk) (obu : Bytes) (newSeq isLast startNew : Bool) (mtu count : Nat)
    (promise : Bool) (hm : 2 ≤ mtu) (hinv : OutInv out) (hhead : HeadSt mtu out count promise)
    (hprom : promise = true → startNew = true) :
    appendObuB (out.map Pk.encode) obu newSeq isLast startNew mtu count =
      ((appendObu out obu newSeq isLast startNew mtu count).1.map Pk.encode,
       (appendObu out obu newSeq isLast startNew mtu count).2) := by
  obtain ⟨hb1, _⟩ := basePk_facts out newSeq startNew mtu count promise hm hinv hhead hprom
  rw [appendObu_eq]
  -- the packet written to first, as bytes
  have hbase : basePkB (out.map Pk.encode) newSeq startNew mtu count =
      ((basePk out newSeq startNew mtu count).1.encode,
       (basePk out newSeq startNew mtu count).2.1.map Pk.encode,
       (basePk out newSeq startNew mtu count).2.2) := by
    have hfresh : ([if newSeq then 0x08 else 0] : Bytes) = Pk.encode { n := newSeq } := by
      simp [Pk.encode, Pk.body, hdr_fresh]
    unfold basePk basePkB
    cases out with
    | nil => simp [hfresh]
    | cons q qs =>
      simp only [List.map_cons, encode_length]
      split <;> simp [hfresh]
  unfold appendObuB
  rw [hbase]
  generalize basePk out newSeq startNew mtu count = b at *
  obtain ⟨p, T, c⟩ := b
  dsimp only at *
  unfold firstWrite
  simp only [encode_length]
  by_cases hc1 : ((isLast || decide (min obu.length (mtu - p.size) ≥ mtu - p.size)) && decide (c < 3)) = true
  · simp only [hc1, if_true]
    have hc3 : c < 3 := by
      simp only [Bool.and_eq_true, decide_eq_true_eq] at hc1; exact hc1.2
    rw [← encode_setLast p _ c hb1.1 hb1.2.1 hc3, ← List.map_cons, fragLoopB_sim]
  · simp only [hc1, Bool.false_eq_true, if_false]
    by_cases hc2 : mtu - p.size ≥ 2
    · simp only [hc2, if_true]
      have hk := computeWriteSize_le (min obu.length (mtu - p.size)) (mtu - p.size)
      have hlen : (obu.take (computeWriteSize (min obu.length (mtu - p.size)) (mtu - p.size))).length =
          computeWriteSize (min obu.length (mtu - p.size)) (mtu - p.size) := by
        simp only [List.length_take]; omega
      have := encode_snoc p (obu.take (computeWriteSize (min obu.length (mtu - p.size)) (mtu - p.size))) hb1.1
      rw [hlen] at this
      rw [← this, ← List.map_cons, fragLoopB_sim]
    · simp only [hc2, if_false]
      rw [← List.map_cons, fragLoopB_sim, List.drop_zero]

/-! ### the loop of Payload -/

/-- the byte-level state that corresponds to a record-level state -/
def toB (s : PSt) : PStB :=
  { out := s.out.map Pk.encode, count := s.count, pending := s.pending, cur := s.cur,
    newSeq := s.newSeq, startNew := s.startNew }

theorem stepB_sim (mtu : Nat) (hm : 2 ≤ mtu) (s : PSt) (us : List OUnit) (done : List Bytes)
    (hinv : PInv mtu s us done) (hb : ObuHeader × Bytes) :
    stepB mtu (toB s) hb = toB (step mtu s hb) := by
  have hsim := appendObuB_sim s.out s.pending s.newSeq (needNew s.cur hb.1) s.startNew mtu s.count
    s.startNew hm hinv.out hinv.head id
  unfold stepB step
  simp only [toB]
  by_cases hp : s.pending.isEmpty = true
  · simp only [hp, if_true]
    by_cases hn : needNew s.cur hb.1 = true
    · simp only [hn, if_true]
      cases hb.1.ext <;> (dsimp only; split <;> rfl)
    · simp only [hn, Bool.false_eq_true, if_false]
      cases hb.1.ext <;> (dsimp only; split <;> rfl)
  · simp only [hp, Bool.false_eq_true, if_false, hsim]
    by_cases hn : needNew s.cur hb.1 = true
    · simp only [hn, if_true]
      cases hb.1.ext <;> (dsimp only; split <;> rfl)
    · simp only [hn, Bool.false_eq_true, if_false]
      cases hb.1.ext <;> (dsimp only; split <;> rfl)

theorem foldlB_sim (mtu : Nat) (hm : 2 ≤ mtu) (hs : mtu ≤ 65535) (l : List (ObuHeader × Bytes))
    (hwf : ∀ hb ∈ l, hdrWF hb.1 = true) (s : PSt) (us : List OUnit) (done : List Bytes)
    (hinv : PInv mtu s us done) :
    l.foldl (stepB mtu) (toB s) = toB (l.foldl (step mtu) s) := by
  induction l generalizing s us done with
  | nil => rfl
  | cons hb l ih =>
    obtain ⟨us1, h1⟩ := step_spec mtu hm hs s us done hb (hwf hb (by simp)) hinv
    simp only [List.foldl_cons]
    rw [stepB_sim mtu hm s us done hinv hb]
    exact ih (fun x hx => hwf x (by simp [hx])) _ _ _ h1

theorem finishB_sim (mtu : Nat) (hm : 2 ≤ mtu) (s : PSt) (us : List OUnit) (done : List Bytes)
    (hinv : PInv mtu s us done) : finishB mtu (toB s) = (finish mtu s).map Pk.encode := by
  have hsim := appendObuB_sim s.out s.pending s.newSeq true s.startNew mtu s.count
    s.startNew hm hinv.out hinv.head id
  unfold finishB finish
  simp only [toB]
  by_cases hp : s.pending.isEmpty = true
  · simp only [hp, if_true]
  · simp only [hp, Bool.false_eq_true, if_false, hsim]

/-- the two models of AV1Payloader.Payload agree on every MTU and every input -/
theorem payloadB_eq (mtu : UInt16) (data : Bytes) : payloadB mtu data = AV1.payload mtu data := by
  unfold payloadB AV1.payload
  split
  · rfl
  · rename_i hc
    simp only [Bool.or_eq_true, decide_eq_true_eq, not_or, Nat.not_le] at hc
    have hm : 2 ≤ mtu.toNat := by omega
    have hs : mtu.toNat ≤ 65535 := by have := mtu.toNat_lt; omega
    obtain ⟨us1, h1⟩ := foldl_spec mtu.toNat hm hs (walk data.length data) (walk_wf _ _) {} [] []
      (PInv_init mtu.toNat)
    have h0 : ({} : PStB) = toB {} := rfl
    rw [h0, foldlB_sim mtu.toNat hm hs _ (walk_wf _ _) {} [] [] (PInv_init mtu.toNat),
      finishB_sim mtu.toNat hm _ us1 _ h1]
    simp [payloadPks]

end Rtp.Model.AV1B
