/-
  Rtp/Proofs/VP8Own.lean — lemmas behind the VP8 parts of C08 (fragment sizes for every payloader
  state) and C09 (VP8Packet.Unmarshal never panics; its result, and on success the whole receiver,
  do not depend on what the receiver held before).
-/
import Rtp.Proofs.VP8Pay
namespace Rtp.Proofs.VP8
open Rtp Rtp.Model Rtp.Pred

/-! ### C08: sizes, for an arbitrary payloader state -/

theorem hdr_length (st : VP8Pay) (first : Bool) : (vp8Hdr st first).length = vp8HdrSize st := by
  unfold vp8Hdr vp8HdrSize
  cases st.enablePictureID <;> simp
  split <;> simp

theorem frags_mem (st : VP8Pay) (cs : List Bytes) : ∀ f ∈ vp8Frags st cs,
    ∃ c ∈ cs, f.length = vp8HdrSize st + c.length := by
  intro f hf
  cases cs with
  | nil => simp [vp8Frags] at hf
  | cons c cs =>
    simp only [vp8Frags, List.mem_cons, List.mem_map] at hf
    rcases hf with rfl | ⟨c', hc', rfl⟩
    · exact ⟨c, List.mem_cons_self, by simp [hdr_length]⟩
    · exact ⟨c', List.mem_cons_of_mem _ hc', by simp [hdr_length]⟩

theorem hdrSize_pos (st : VP8Pay) : 0 < vp8HdrSize st := by
  unfold vp8HdrSize; split <;> (try split) <;> omega

/-- every fragment of every call, in every state: at most MTU bytes and not empty -/
theorem payload_frag (st : VP8Pay) (mtu : UInt16) (i : Option Bytes) :
    ∀ f ∈ (vp8Payload st mtu i).1, f.length ≤ mtu.toNat ∧ f ≠ [] := by
  intro f hf
  unfold vp8Payload at hf
  simp only at hf
  split at hf
  · simp at hf
  · rename_i hc
    simp only [Bool.or_eq_true, decide_eq_true_eq, not_or, Nat.not_le] at hc
    obtain ⟨c, hc', hl⟩ := frags_mem st _ f hf
    have := (chunks_mem (mtu.toNat - vp8HdrSize st) (by omega) (i.getD []) c hc').2
    have hp := hdrSize_pos st
    constructor
    · omega
    · intro h; rw [h] at hl; simp at hl; omega

theorem histOk_vp8 : ∀ (calls : List (UInt16 × Option Bytes)) (st : VP8Pay),
    C08.histOk false calls ((vp8PayloadHist st calls).map PayObs.ofFrags) = true := by
  intro calls
  induction calls with
  | nil => intro st; rfl
  | cons call cs ih =>
    intro st
    obtain ⟨m, i⟩ := call
    simp only [vp8PayloadHist, List.map_cons, C08.histOk, ih, Bool.and_true]
    have h := payload_frag st m i
    simp only [C08.callOk, PayObs.ofFrags, PayObs.owned, Bool.not_false, Bool.true_and, Bool.and_true,
      Bool.false_or, Bool.and_eq_true, List.all_eq_true, decide_eq_true_eq, Bool.or_eq_true,
      Bool.not_eq_true', List.isEmpty_eq_false_iff]
    exact ⟨fun f hf => (h f hf).1, Or.inr fun f hf => (h f hf).2⟩

/-! ### C09: no panic -/

theorem unmarshal_nopanic (p : VP8Packet) (i : Option Bytes) : (vp8Unmarshal p i).1 ≠ .panic := by
  unfold vp8Unmarshal
  split
  · simp
  · simp
  · simp only
    split <;> simp

/-! ### C09: reuse.  `Keep j p q`: the receivers agree on the fields written by the first `j` stages -/

def Keep0 (p q : VP8Packet) : Prop := p.X = q.X ∧ p.N = q.N ∧ p.S = q.S ∧ p.PID = q.PID
def Keep1 (p q : VP8Packet) : Prop := Keep0 p q ∧ p.I = q.I ∧ p.L = q.L ∧ p.T = q.T ∧ p.K = q.K
def Keep2 (p q : VP8Packet) : Prop := Keep1 p q ∧ p.PictureID = q.PictureID
def Keep3 (p q : VP8Packet) : Prop := Keep2 p q ∧ p.TL0PICIDX = q.TL0PICIDX

/-- step `f` maps receivers related by `A` to the same outcome and, on success, receivers related by `B` -/
def Pres (A B : VP8Packet → VP8Packet → Prop) (f : VP8Step) : Prop :=
  ∀ p q r, A p q → (f p r).1 = (f q r).1 ∧ ((f p r).1.isSome → B (f p r).2 (f q r).2)

theorem Pres.andThen {A B C : VP8Packet → VP8Packet → Prop} {f g : VP8Step}
    (hf : Pres A B f) (hg : Pres B C g) : Pres A C (f.andThen g) := by
  intro p q r hA
  obtain ⟨h1, h2⟩ := hf p q r hA
  simp only [VP8Step.andThen]
  cases hfp : f p r with
  | mk o p' =>
    cases hfq : f q r with
    | mk o' q' =>
      rw [hfp, hfq] at h1 h2
      simp only at h1 h2
      subst h1
      cases o with
      | none => simp
      | some r' => exact hg p' q' r' (h2 rfl)

theorem pres_X : Pres Keep0 Keep1 vp8StepX := by
  intro p q r h
  obtain ⟨hX, hN, hS, hP⟩ := h
  unfold vp8StepX
  rw [hX]
  split
  · cases r <;> simp [Keep1, Keep0, hX, hN, hS, hP]
  · simp [Keep1, Keep0, hX, hN, hS, hP]

theorem pres_I : Pres Keep1 Keep2 vp8StepI := by
  intro p q r h
  obtain ⟨⟨hX, hN, hS, hP⟩, hI, hL, hT, hK⟩ := h
  unfold vp8StepI
  rw [hI]
  split
  · match r with
    | [] => simp
    | [b] => by_cases hb : b &&& 0x80 > 0 <;> simp [hb, Keep2, Keep1, Keep0, hX, hN, hS, hP, hI, hL, hT, hK]
    | b :: c :: r' => by_cases hb : b &&& 0x80 > 0 <;> simp [hb, Keep2, Keep1, Keep0, hX, hN, hS, hP, hI, hL, hT, hK]
  · simp [Keep2, Keep1, Keep0, hX, hN, hS, hP, hI, hL, hT, hK]

theorem pres_L : Pres Keep2 Keep3 vp8StepL := by
  intro p q r h
  obtain ⟨⟨⟨hX, hN, hS, hP⟩, hI, hL, hT, hK⟩, hPic⟩ := h
  unfold vp8StepL
  rw [hL]
  split
  · cases r <;> simp [Keep3, Keep2, Keep1, Keep0, hX, hN, hS, hP, hI, hL, hT, hK, hPic]
  · simp [Keep3, Keep2, Keep1, Keep0, hX, hN, hS, hP, hI, hL, hT, hK, hPic]

theorem pres_TK : Pres Keep3 (fun p q => p = q) vp8StepTK := by
  intro p q r h
  obtain ⟨⟨⟨⟨hX, hN, hS, hP⟩, hI, hL, hT, hK⟩, hPic⟩, hTl⟩ := h
  have ext : ∀ a b : VP8Packet, a.X = b.X → a.N = b.N → a.S = b.S → a.PID = b.PID → a.I = b.I →
      a.L = b.L → a.T = b.T → a.K = b.K → a.PictureID = b.PictureID → a.TL0PICIDX = b.TL0PICIDX →
      a.TID = b.TID → a.Y = b.Y → a.KEYIDX = b.KEYIDX → a = b := by
    intro a b; cases a; cases b; simp; intros; simp_all
  unfold vp8StepTK
  rw [hT, hK]
  split
  · cases r with
    | nil => simp
    | cons b r' =>
      refine ⟨rfl, fun _ => ?_⟩
      apply ext <;> (simp only []; split <;> split <;> simp [hX, hN, hS, hP, hI, hL, hT, hK, hPic, hTl])
  · refine ⟨rfl, fun _ => ?_⟩
    apply ext <;> simp [hX, hN, hS, hP, hI, hL, hT, hK, hPic, hTl]

/-- the result never depends on the receiver's earlier contents, and after a successful call
    neither does the receiver -/
theorem unmarshal_reuse (p q : VP8Packet) (i : Option Bytes) :
    (vp8Unmarshal p i).1 = (vp8Unmarshal q i).1 ∧
    ((vp8Unmarshal p i).1.isOk = true → (vp8Unmarshal p i).2 = (vp8Unmarshal q i).2) := by
  unfold vp8Unmarshal
  match i with
  | none => simp [Res.isOk]
  | some [] => simp [Res.isOk]
  | some (b0 :: r) =>
    simp only
    have h := (pres_X.andThen (pres_I.andThen (pres_L.andThen pres_TK)))
      { p with X := (b0 &&& 0x80) >>> 7, N := (b0 &&& 0x20) >>> 5, S := (b0 &&& 0x10) >>> 4, PID := b0 &&& 0x07 }
      { q with X := (b0 &&& 0x80) >>> 7, N := (b0 &&& 0x20) >>> 5, S := (b0 &&& 0x10) >>> 4, PID := b0 &&& 0x07 }
      r ⟨rfl, rfl, rfl, rfl⟩
    generalize (vp8StepX.andThen (vp8StepI.andThen (vp8StepL.andThen vp8StepTK)))
      { p with X := (b0 &&& 0x80) >>> 7, N := (b0 &&& 0x20) >>> 5, S := (b0 &&& 0x10) >>> 4, PID := b0 &&& 0x07 } r = rp at h
    generalize (vp8StepX.andThen (vp8StepI.andThen (vp8StepL.andThen vp8StepTK)))
      { q with X := (b0 &&& 0x80) >>> 7, N := (b0 &&& 0x20) >>> 5, S := (b0 &&& 0x10) >>> 4, PID := b0 &&& 0x07 } r = rq at h
    obtain ⟨o1, p1⟩ := rp
    obtain ⟨o2, p2⟩ := rq
    simp only at h
    obtain ⟨h1, h2⟩ := h
    subst h1
    cases o1 with
    | none => simp [Res.isOk]
    | some r' => simp [Res.isOk, h2 rfl]

theorem obsDep_ok : ∀ (is : List (Option Bytes)) (p : VP8Packet),
    C09.histOk true (C11.obsDep p is) = true := by
  intro is
  induction is with
  | nil => intro p; rfl
  | cons i is ih =>
    intro p
    have hr := unmarshal_reuse p {} i
    have hn := unmarshal_nopanic p i
    simp only [C09.histOk, C11.obsDep, List.all_cons, Bool.and_eq_true] at ih ⊢
    refine ⟨?_, ih _⟩
    generalize vp8Unmarshal p i = rp at hr hn
    generalize vp8Unmarshal {} i = rq at hr
    obtain ⟨r1, p1⟩ := rp
    obtain ⟨r2, p2⟩ := rq
    simp only at hr hn
    obtain ⟨h1, h2⟩ := hr
    subst h1
    cases r1 with
    | panic => exact absurd rfl hn
    | err e => simp [C09.callOk, Res.coarse, Res.isPanic, Res.isOk]
    | ok b => simp [C09.callOk, Res.coarse, Res.isPanic, Res.isOk, h2 rfl]

end Rtp.Proofs.VP8
