/-
  Rtp/Proofs/H265Trunc.lean — `H265Packet.Unmarshal` on every proper prefix of every well-formed
  payload: rejected when the cut falls inside a mandatory field, otherwise the shorter packet.
-/
import Rtp.Proofs.H265Parse
namespace Rtp.Model.H265
open Rtp Rtp.Bits Rtp.Spec.Rfc7798 Rtp.Pred

/-! ### truncated payloads -/

theorem decode_short (mode : Bool) (l : Bytes) (h : l.length ≤ 2) : (decode mode (some l)).isErr = true := by
  match l, h with
  | [], _ => rfl
  | [_], _ => rfl
  | [_, _], _ => rfl

theorem take_prefix_ge (A p : Bytes) (n : Nat) (h : A.length ≤ n) : (A ++ p).take n = A ++ p.take (n - A.length) := by
  rw [List.take_append, List.take_of_length_le h]

theorem take_ne_nil (p : Bytes) (k : Nat) (hk : 0 < k) (hp : p ≠ []) : p.take k ≠ [] := by
  intro h0
  have : (p.take k).length = 0 := by rw [h0]; rfl
  rw [List.length_take] at this
  have : 0 < p.length := List.length_pos_iff.mpr hp
  omega

theorem trunc_single (mode : Bool) (h : Hdr) (d : Option UInt16) (p : Bytes) (n : Nat)
    (hwf : (Packet.single h d p).WF mode = true) (hn : n < (encode (.single h d p)).length) :
    C14.decOk mode (.single h d p) (some n) ((encode (.single h d p)).take n)
      (decObs mode ((encode (.single h d p)).take n)) = true := by
  simp only [Packet.WF, Bool.and_eq_true, Bool.not_eq_true', bne_iff_ne, ne_eq, beq_iff_eq,
    List.isEmpty_eq_false_iff] at hwf
  obtain ⟨⟨⟨⟨⟨⟨hw, hf⟩, h48⟩, h49⟩, h50⟩, hd⟩, hp⟩ := hwf
  obtain ⟨a, b, hb, hv⟩ := hdr_bytes h hw
  simp only [C14.decOk, beq_self_eq_true, Bool.true_and, decObs, C14.mandatory]
  cases d with
  | none =>
    simp at hd; subst hd
    simp only [encode, donlBytes, List.append_nil, hb, List.length_append, List.length_cons, List.length_nil,
      Bool.false_eq_true, if_false] at hn ⊢
    by_cases hlt : n < 2 + 0 + 1
    · simp only [hlt, if_true]
      apply decode_short; rw [List.length_take]; omega
    · simp only [hlt, if_false, C14.cutPacket, Bool.false_eq_true, beq_iff_eq]
      rw [take_prefix_ge [a, b] p n (by simp; omega)]
      have := decode_single false h none (p.take (n - 2)) hw hf h48 h49 h50 rfl
        (take_ne_nil p _ (by omega) hp)
      simpa [hb, donlBytes, Packet.tsci] using this
  | some dv =>
    simp at hd; subst hd
    obtain ⟨x, y, hx, hy⟩ := donl_bytes dv
    simp only [encode, donlBytes, hx, hb, List.length_append, List.length_cons, List.length_nil,
      if_true] at hn ⊢
    by_cases hlt : n < 2 + 2 + 1
    · simp only [hlt, if_true]
      have h5 : n = 0 ∨ n = 1 ∨ n = 2 ∨ n = 3 ∨ n = 4 := by omega
      obtain ⟨e1, e2⟩ := hdr_facts a b h hv
      rcases h5 with rfl | rfl | rfl | rfl | rfl <;>
        simp [decode, unmarshal, parseSingle, Res.map, Res.coarse, Res.isErr, hdrIsPACI, hdrIsFU, hdrIsAgg,
          e1, e2, hf, h48, h49, h50]
    · simp only [hlt, if_false, C14.cutPacket, if_true, beq_iff_eq]
      have e : [a, b] ++ [x, y] ++ p = [a, b, x, y] ++ p := rfl
      rw [e, take_prefix_ge [a, b, x, y] p n (by simp; omega)]
      have := decode_single true h (some dv) (p.take (n - 4)) hw hf h48 h49 h50 rfl
        (take_ne_nil p _ (by omega) hp)
      simpa [hb, donlBytes, hx, Packet.tsci] using this

theorem trunc_fu (mode : Bool) (h : Hdr) (s e : Bool) (t : UInt8) (d : Option UInt16) (p : Bytes) (n : Nat)
    (hwf : (Packet.fu h s e t d p).WF mode = true) (hn : n < (encode (.fu h s e t d p)).length) :
    C14.decOk mode (.fu h s e t d p) (some n) ((encode (.fu h s e t d p)).take n)
      (decObs mode ((encode (.fu h s e t d p)).take n)) = true := by
  simp only [Packet.WF, Bool.and_eq_true, Bool.not_eq_true', beq_iff_eq, decide_eq_true_eq,
    List.isEmpty_eq_false_iff] at hwf
  obtain ⟨⟨⟨⟨⟨hw, hf⟩, h49⟩, ht⟩, hd⟩, hp⟩ := hwf
  obtain ⟨a, b, hb, hv⟩ := hdr_bytes h hw
  obtain ⟨e1, e2⟩ := hdr_facts a b h hv
  obtain ⟨f1, f2, f3⟩ := fuByte_fields s e t ht
  simp only [C14.decOk, beq_self_eq_true, Bool.true_and, decObs, C14.mandatory]
  cases d with
  | none =>
    have hms : (mode && s) = false := by simpa using hd.symm
    simp only [encode, donlBytes, List.append_nil, hb, List.length_append, List.length_cons, List.length_nil,
      hms, Bool.false_eq_true, if_false] at hn ⊢
    by_cases hlt : n < 3 + 0 + 1
    · simp only [hlt, if_true]
      have h4 : n = 0 ∨ n = 1 ∨ n = 2 ∨ n = 3 := by omega
      rcases h4 with rfl | rfl | rfl | rfl <;>
        simp [decode, unmarshal, parseFU, Res.map, Res.coarse, Res.isErr, hdrIsPACI, hdrIsFU, e1, e2, hf, h49]
    · simp only [hlt, if_false, C14.cutPacket, hms, Bool.false_eq_true, beq_iff_eq]
      have e' : [a, b] ++ [fuByte s e t] ++ p = [a, b, fuByte s e t] ++ p := rfl
      rw [e', take_prefix_ge [a, b, fuByte s e t] p n (by simp; omega)]
      have := decode_fu mode h s e t none (p.take (n - 3)) hw hf h49 ht (by simpa using hms.symm)
        (take_ne_nil p _ (by omega) hp)
      simpa [hb, donlBytes, Packet.tsci] using this
  | some dv =>
    have hms : (mode && s) = true := by simpa using hd.symm
    obtain ⟨x, y, hx, hy⟩ := donl_bytes dv
    simp only [encode, donlBytes, hx, hb, List.length_append, List.length_cons, List.length_nil, hms,
      if_true] at hn ⊢
    simp only [Bool.and_eq_true] at hms
    obtain ⟨rfl, rfl⟩ := hms
    by_cases hlt : n < 3 + 2 + 1
    · simp only [hlt, if_true]
      have h6 : n = 0 ∨ n = 1 ∨ n = 2 ∨ n = 3 ∨ n = 4 ∨ n = 5 := by omega
      rcases h6 with rfl | rfl | rfl | rfl | rfl | rfl <;>
        simp [decode, unmarshal, parseFU, Res.map, Res.coarse, Res.isErr, hdrIsPACI, hdrIsFU, e1, e2, hf, h49, f1]
    · simp only [hlt, if_false, C14.cutPacket, Bool.and_self, if_true, beq_iff_eq]
      have e' : [a, b] ++ [fuByte true e t] ++ [x, y] ++ p = [a, b, fuByte true e t, x, y] ++ p := rfl
      rw [e', take_prefix_ge [a, b, fuByte true e t, x, y] p n (by simp; omega)]
      have := decode_fu true h true e t (some dv) (p.take (n - 5)) hw hf h49 ht rfl
        (take_ne_nil p _ (by omega) hp)
      simpa [hb, donlBytes, hx, Packet.tsci] using this

theorem trunc_paci (mode : Bool) (h : Hdr) (a : Bool) (c phs : UInt8) (f0 f1 f2 y : Bool) (phes p : Bytes)
    (n : Nat) (hwf : (Packet.paci h a c phs f0 f1 f2 y phes p).WF mode = true)
    (hn : n < (encode (.paci h a c phs f0 f1 f2 y phes p)).length) :
    C14.decOk mode (.paci h a c phs f0 f1 f2 y phes p) (some n)
      ((encode (.paci h a c phs f0 f1 f2 y phes p)).take n)
      (decObs mode ((encode (.paci h a c phs f0 f1 f2 y phes p)).take n)) = true := by
  simp only [Packet.WF, Bool.and_eq_true, Bool.not_eq_true', beq_iff_eq, decide_eq_true_eq,
    List.isEmpty_eq_false_iff] at hwf
  obtain ⟨⟨⟨⟨⟨⟨hw, hf⟩, h50⟩, hc⟩, hp⟩, hl⟩, hq⟩ := hwf
  obtain ⟨ha, hb', hb, hv⟩ := hdr_bytes h hw
  obtain ⟨e1, e2⟩ := hdr_facts ha hb' h hv
  obtain ⟨x, y', hx, hy⟩ := size_bytes _ (paciWord_lt a c phs f0 f1 f2 y hc hp)
  obtain ⟨p1, p2, p3, p4, p5, p6, p7⟩ := paci_fields a c phs f0 f1 f2 y hc hp _ hy
  simp only [C14.decOk, beq_self_eq_true, Bool.true_and, decObs, C14.mandatory]
  simp only [encode, hb, hx, List.length_append, List.length_cons, List.length_nil, hl] at hn ⊢
  by_cases hlt : n < 4 + phs.toNat + 1
  · simp only [hlt, if_true]
    by_cases h5 : n < 5
    · have h5' : n = 0 ∨ n = 1 ∨ n = 2 ∨ n = 3 ∨ n = 4 := by omega
      rcases h5' with rfl | rfl | rfl | rfl | rfl <;>
        simp [decode, unmarshal, parsePACI, Res.map, Res.coarse, Res.isErr, hdrIsPACI, e1, e2, hf, h50]
    · have e' : [ha, hb'] ++ [x, y'] ++ phes ++ p = [ha, hb', x, y'] ++ (phes ++ p) := by simp
      rw [e', take_prefix_ge [ha, hb', x, y'] (phes ++ p) n (by simp; omega)]
      have hlen : ((phes ++ p).take (n - 4)).length = n - 4 := by
        rw [List.length_take, List.length_append, hl]; omega
      generalize (phes ++ p).take (n - 4) = r at hlen
      match r, hlen with
      | r0 :: rs, hlen =>
        have : rs.length < phs.toNat := by simp only [List.length_cons] at hlen; omega
        simp [decode, unmarshal, parsePACI, Res.map, Res.coarse, Res.isErr, hdrIsPACI, e1, e2, hf, h50, p3, this]
      | [], hlen => simp only [List.length_nil] at hlen; omega
  · simp only [hlt, if_false, C14.cutPacket, beq_iff_eq]
    have e' : [ha, hb'] ++ [x, y'] ++ phes ++ p = ([ha, hb'] ++ [x, y'] ++ phes) ++ p := by simp
    rw [e', take_prefix_ge _ p n (by simp [hl]; omega)]
    have := decode_paci mode h a c phs f0 f1 f2 y phes (p.take (n - (4 + phs.toNat))) hw hf h50 hc hp hl
      (take_ne_nil p _ (by omega) hq)
    have e2' : ([ha, hb'] ++ [x, y'] ++ phes).length = 4 + phs.toNat := by simp [hl]; omega
    rw [e2']
    simpa [hb, hx, Packet.tsci] using this

/-- a cut inside an aggregation unit: the loop stops there -/
theorem prefix_noparse (mode : Bool) (u : Option UInt8 × Bytes) (hu1 : u.1.isSome = mode)
    (hu2 : u.2.length < 65536) (j : Nat) (hj : j < (unitBytes u).length) (k : Nat) :
    parseAggRest mode k ((unitBytes u).take j) = [] := by
  cases k with
  | zero => rfl
  | succ k =>
    obtain ⟨dd, nal⟩ := u
    obtain ⟨x, y, hx, hy⟩ := size_bytes nal.length hu2
    simp only at hu1 hu2
    cases dd with
    | none =>
      simp at hu1; subst hu1
      simp only [unitBytes, dondBytes, hx, List.nil_append, List.length_append, List.length_cons,
        List.length_nil] at hj ⊢
      match j, hj with
      | 0, _ => simp [parseAggRest]
      | 1, _ => simp [parseAggRest]
      | j + 2, hj =>
        simp [parseAggRest, hy]; omega
    | some d =>
      simp at hu1; subst hu1
      simp only [unitBytes, dondBytes, hx, List.length_append, List.length_cons, List.length_nil] at hj ⊢
      match j, hj with
      | 0, _ => simp [parseAggRest]
      | 1, _ => simp [parseAggRest]
      | 2, _ => simp [parseAggRest]
      | j + 3, hj =>
        simp [parseAggRest, hy]; omega

/-- cutting the unit list: the complete units, then a strict prefix of the next one -/
theorem take_units (rest : List (Option UInt8 × Bytes)) (n : Nat)
    (hn : n < ((rest.map unitBytes).flatten).length) :
    ∃ u ∈ rest, ∃ j, j < (unitBytes u).length ∧
      ((rest.map unitBytes).flatten).take n =
        ((C14.unitsWithin n rest).map unitBytes).flatten ++ (unitBytes u).take j := by
  induction rest generalizing n with
  | nil => simp at hn
  | cons v vs ih =>
    simp only [List.map_cons, List.flatten_cons, List.length_append] at hn ⊢
    by_cases hle : (unitBytes v).length ≤ n
    · obtain ⟨u, hu, j, hj, he⟩ := ih (n - (unitBytes v).length) (by omega)
      refine ⟨u, by simp [hu], j, hj, ?_⟩
      simp only [C14.unitsWithin, hle, if_true, List.map_cons, List.flatten_cons, List.append_assoc]
      rw [take_prefix_ge _ _ _ hle, he]
    · refine ⟨v, by simp, n, by omega, ?_⟩
      simp only [C14.unitsWithin, hle, if_false, List.map_nil, List.flatten_nil, List.nil_append]
      rw [List.take_append_of_le_length (by omega)]

theorem unitsWithin_sub (n : Nat) (rest : List (Option UInt8 × Bytes)) :
    ∀ u ∈ C14.unitsWithin n rest, u ∈ rest := by
  induction rest generalizing n with
  | nil => intro u hu; simp [C14.unitsWithin] at hu
  | cons v vs ih =>
    intro u hu
    simp only [C14.unitsWithin] at hu
    split at hu
    · simp only [List.mem_cons] at hu
      rcases hu with rfl | hu
      · simp
      · simp [ih _ u hu]
    · simp at hu

/-- an aggregation packet whose first unit is cut, or with no complete second unit, is rejected -/
theorem ap_err (mode : Bool) (h : Hdr) (d : Option UInt16) (L : Nat) (r : Bytes)
    (hw : h.WF = true) (hf : h.f = false) (h48 : h.type = 48) (hd : d.isSome = mode) (hL : L < 65536)
    (hbad : r.length < L ∨ parseAggRest mode r.length (r.drop L) = []) :
    (decode mode (some (h.bytes ++ donlBytes d ++ u16be L ++ r))).isErr = true := by
  obtain ⟨a, b, hb, hv⟩ := hdr_bytes h hw
  obtain ⟨e1, e2⟩ := hdr_facts a b h hv
  obtain ⟨x, y, hx, hy⟩ := size_bytes L hL
  simp only [hb, hx]
  cases d with
  | none =>
    simp at hd; subst hd
    simp only [donlBytes, List.cons_append, List.nil_append, decode, unmarshal, e1, hf, hdrIsPACI, hdrIsFU,
      hdrIsAgg, e2, h48, parseAgg]
    rcases hbad with hbad | hbad
    · simp [hy, hbad, Res.map, Res.coarse, Res.isErr]
    · by_cases hlt : r.length < L
      · simp [hy, hlt, Res.map, Res.coarse, Res.isErr]
      · simp [hy, hlt, hbad, Res.map, Res.coarse, Res.isErr]
  | some dv =>
    simp at hd; subst hd
    obtain ⟨p, q, hp, hq⟩ := donl_bytes dv
    simp only [donlBytes, hp, List.cons_append, List.nil_append, decode, unmarshal, e1, hf, hdrIsPACI, hdrIsFU,
      hdrIsAgg, e2, h48, parseAgg]
    rcases hbad with hbad | hbad
    · simp [hy, hbad, Res.map, Res.coarse, Res.isErr]
    · by_cases hlt : r.length < L
      · simp [hy, hlt, Res.map, Res.coarse, Res.isErr]
      · simp [hy, hlt, hbad, Res.map, Res.coarse, Res.isErr]

theorem trunc_ap (mode : Bool) (h : Hdr) (d : Option UInt16) (first : Bytes)
    (rest : List (Option UInt8 × Bytes)) (n : Nat)
    (hwf : (Packet.ap h d first rest).WF mode = true) (hn : n < (encode (.ap h d first rest)).length) :
    C14.decOk mode (.ap h d first rest) (some n) ((encode (.ap h d first rest)).take n)
      (decObs mode ((encode (.ap h d first rest)).take n)) = true := by
  simp only [Packet.WF, Bool.and_eq_true, Bool.not_eq_true', beq_iff_eq, decide_eq_true_eq,
    List.isEmpty_eq_false_iff, List.all_eq_true] at hwf
  obtain ⟨⟨⟨⟨⟨⟨hw, hf⟩, h48⟩, hd⟩, hfl⟩, hne⟩, hr⟩ := hwf
  obtain ⟨a, b, hb, hv⟩ := hdr_bytes h hw
  obtain ⟨e1, e2⟩ := hdr_facts a b h hv
  obtain ⟨x, y, hx, hy⟩ := size_bytes first.length hfl
  obtain ⟨u2, rest', rfl⟩ := List.exists_cons_of_ne_nil hne
  simp only [C14.decOk, beq_self_eq_true, Bool.true_and, decObs, C14.mandatory]
  -- the fixed-size front: payload header, DONL, size of the first unit
  have hdl : (donlBytes d).length = if mode then 2 else 0 := by
    cases d with
    | none => simp at hd; subst hd; rfl
    | some dv => simp at hd; subst hd; rfl
  have henc : encode (.ap h d first (u2 :: rest')) =
      (h.bytes ++ donlBytes d ++ u16be first.length) ++ (first ++ ((u2 :: rest').map unitBytes).flatten) := by
    simp [encode]
  have hp0 : (h.bytes ++ donlBytes d ++ u16be first.length).length = 2 + (if mode then 2 else 0) + 2 := by
    simp [hb, hdl, hx]; omega
  rw [henc] at hn ⊢
  simp only [List.length_append, hp0] at hn
  by_cases hshort : n < 2 + (if mode then 2 else 0) + 2
  · -- inside the payload header, the DONL or the first size field
    have hm : n < 2 + (if mode then 2 else 0) + 2 + first.length + (unitBytes u2).length := by omega
    simp only [hm, if_true]
    simp only [hb, hx]
    cases d with
    | none =>
      simp at hd; subst hd
      simp only [Bool.false_eq_true, if_false] at hshort
      have h4 : n = 0 ∨ n = 1 ∨ n = 2 ∨ n = 3 := by omega
      rcases h4 with rfl | rfl | rfl | rfl <;>
        simp [donlBytes, decode, unmarshal, parseAgg, Res.map, Res.coarse, Res.isErr, hdrIsPACI, hdrIsFU,
          hdrIsAgg, e1, e2, hf, h48]
    | some dv =>
      simp at hd; subst hd
      obtain ⟨p, q, hp, hq⟩ := donl_bytes dv
      simp only [if_true] at hshort
      have h6 : n = 0 ∨ n = 1 ∨ n = 2 ∨ n = 3 ∨ n = 4 ∨ n = 5 := by omega
      rcases h6 with rfl | rfl | rfl | rfl | rfl | rfl <;>
        simp [donlBytes, hp, decode, unmarshal, parseAgg, Res.map, Res.coarse, Res.isErr, hdrIsPACI, hdrIsFU,
          hdrIsAgg, e1, e2, hf, h48]
  · rw [take_prefix_ge _ _ n (by rw [hp0]; omega), hp0]
    by_cases hfirst : n - (2 + (if mode then 2 else 0) + 2) < first.length
    · -- inside the first unit
      have hm : n < 2 + (if mode then 2 else 0) + 2 + first.length + (unitBytes u2).length := by omega
      simp only [hm, if_true]
      apply ap_err mode h d first.length _ hw hf h48 hd hfl
      left
      rw [List.length_take, List.length_append]; omega
    · rw [take_prefix_ge first _ _ (by omega)]
      have hn' : n - (2 + (if mode then 2 else 0) + 2) - first.length <
          (((u2 :: rest').map unitBytes).flatten).length := by omega
      obtain ⟨u, hu, j, hj, htk⟩ := take_units (u2 :: rest') _ hn'
      rw [htk]
      have hnp := prefix_noparse mode u (hr u hu).1 (hr u hu).2 j hj
      by_cases hm : n < 2 + (if mode then 2 else 0) + 2 + first.length + (unitBytes u2).length
      · -- inside the second unit: no complete second unit, rejected
        simp only [hm, if_true]
        have hW : C14.unitsWithin (n - (2 + (if mode then 2 else 0) + 2) - first.length) (u2 :: rest') = [] := by
          simp only [C14.unitsWithin]; rw [if_neg]; omega
        apply ap_err mode h d first.length _ hw hf h48 hd hfl
        right
        rw [hW]
        simp only [List.map_nil, List.flatten_nil, List.nil_append, List.drop_left']
        exact hnp _
      · -- after the second unit: the complete units are decoded, the rest is ignored
        simp only [hm, if_false, C14.cutPacket]
        have hW : C14.unitsWithin (n - (2 + (if mode then 2 else 0) + 2) - first.length) (u2 :: rest') ≠ [] := by
          simp only [C14.unitsWithin]; rw [if_pos (by omega)]; simp
        have hsub := unitsWithin_sub (n - (2 + (if mode then 2 else 0) + 2) - first.length) (u2 :: rest')
        have := decode_ap_trailing mode h d first _ ((unitBytes u).take j) hw hf h48 hd hfl hW
          (fun v hv => hr v (hsub v hv)) hnp
        have e3 : n - (2 + (if mode then 2 else 0) + 2 + first.length) =
            n - (2 + (if mode then 2 else 0) + 2) - first.length := by omega
        rw [e3]
        simp only [encode, List.append_assoc] at this ⊢
        simp [this, Packet.tsci]

/-- every proper prefix of every well-formed payload -/
theorem trunc_all (mode : Bool) (desc : Packet) (n : Nat) (hwf : desc.WF mode = true)
    (hn : n < (encode desc).length) :
    C14.decOk mode desc (some n) ((encode desc).take n) (decObs mode ((encode desc).take n)) = true := by
  cases desc with
  | single h d p => exact trunc_single mode h d p n hwf hn
  | ap h d first rest => exact trunc_ap mode h d first rest n hwf hn
  | fu h s e t d p => exact trunc_fu mode h s e t d p n hwf hn
  | paci h a c phs f0 f1 f2 y phes p => exact trunc_paci mode h a c phs f0 f1 f2 y phes p n hwf hn

end Rtp.Model.H265
