/-
  Rtp/Proofs/AV1PayTop.lean — AV1Payloader.Payload as a whole: what its output denotes and that it
  obeys the aggregation rules; the OBU-stream scanner on serialised OBU sequences.
-/
import Rtp.Proofs.AV1PayStep
namespace Rtp.Model.AV1
open Rtp Rtp.Model Rtp.Spec.Av1Rtp
open Rtp.Model.ObuLemmas

/-- the OBUs Payload transmits for a scanned stream: the ones not dropped, size field removed -/
def flushedOf (l : List (ObuHeader × Bytes)) : List Bytes :=
  (l.filter (fun hb => !dropped hb.1)).map (fun hb => obuBytes hb.1 hb.2)

theorem flushedOf_cons (hb : ObuHeader × Bytes) (l : List (ObuHeader × Bytes)) :
    flushedOf (hb :: l) = (if dropped hb.1 then [] else [obuBytes hb.1 hb.2]) ++ flushedOf l := by
  unfold flushedOf
  by_cases h : dropped hb.1 = true <;> simp [h]

theorem foldl_spec (mtu : Nat) (hm : 2 ≤ mtu) (hs : mtu ≤ 65535) (l : List (ObuHeader × Bytes))
    (hwf : ∀ hb ∈ l, hdrWF hb.1 = true) (s : PSt) (us : List OUnit) (done : List Bytes)
    (hinv : PInv mtu s us done) :
    ∃ us', PInv mtu (l.foldl (step mtu) s) us' (done ++ flushedOf l) := by
  induction l generalizing s us done with
  | nil => exact ⟨us, by simpa [flushedOf] using hinv⟩
  | cons hb l ih =>
    obtain ⟨us1, h1⟩ := step_spec mtu hm hs s us done hb (hwf hb (by simp)) hinv
    obtain ⟨us2, h2⟩ := ih (fun x hx => hwf x (by simp [hx])) _ _ _ h1
    refine ⟨us2, ?_⟩
    rw [flushedOf_cons, ← List.append_assoc]
    exact h2

theorem walk_wf (fuel : Nat) (data : Bytes) : ∀ hb ∈ walk fuel data, hdrWF hb.1 = true := by
  induction fuel generalizing data with
  | zero => simp [walk]
  | succ f ih =>
    intro hb hmem
    unfold walk at hmem
    split at hmem
    · rename_i h hp
      have hw := parse_wf data h hp
      dsimp only at hmem
      split at hmem
      · split at hmem
        · simp at hmem
        · split at hmem
          · simp at hmem
          · simp only [List.mem_cons] at hmem
            rcases hmem with rfl | hmem
            · exact hw
            · exact ih _ hb hmem
      · simp only [List.mem_singleton] at hmem
        subst hmem
        exact hw
    · simp at hmem

/-- what is known about the packets Payload returns (newest first) -/
structure FinalInv (mtu : Nat) (out : List Pk) (us : List OUnit) (done : List Bytes) : Prop where
  inv : OutInv out
  size : ∀ p ∈ out, p.size ≤ mtu
  join : joinPkt none (elemsRev out) = (us, none)
  bytes : us.map (·.bytes) = done
  lay1 : ∀ u ∈ us, ∀ v ∈ us, ∀ a b, layerOf u.bytes = some a → layerOf v.bytes = some b →
          sharePacket u v = true → a = b

theorem finish_spec (mtu : Nat) (hm : 2 ≤ mtu) (hs : mtu ≤ 65535) (s : PSt) (us : List OUnit)
    (done : List Bytes) (hinv : PInv mtu s us done) : ∃ us', FinalInv mtu (finish mtu s) us' done := by
  unfold finish
  by_cases hp : s.pending.isEmpty = true
  · rw [if_pos hp]
    have hb := hinv.bytes
    simp only [hp, if_true, List.append_nil] at hb
    exact ⟨us, hinv.out, hinv.size, hinv.join, hb, hinv.lay1⟩
  · rw [if_neg hp]
    have hpne : s.pending ≠ [] := by intro h; rw [h] at hp; simp at hp
    obtain ⟨v, _, hv⟩ := flush_spec mtu hm hs s us done true hinv hpne
    have hb := hv.bytes
    simp only [List.isEmpty_nil, if_true, List.append_nil] at hb
    exact ⟨us ++ [v], hv.out, hv.size, hv.join, hb, hv.lay1⟩

/-- Payload as a whole -/
theorem payloadPks_spec (mtu : Nat) (hm : 2 ≤ mtu) (hs : mtu ≤ 65535) (data : Bytes) :
    ∃ us, FinalInv mtu (payloadPks mtu data).reverse us (flushedOf (walk data.length data)) := by
  obtain ⟨us1, h1⟩ := foldl_spec mtu hm hs (walk data.length data) (walk_wf _ _) {} [] [] (PInv_init mtu)
  obtain ⟨us2, h2⟩ := finish_spec mtu hm hs _ us1 _ h1
  refine ⟨us2, ?_⟩
  simp only [payloadPks, List.reverse_reverse, List.nil_append] at h2 ⊢
  exact h2

theorem units_of_join (out : List Pk) (us : List OUnit) (h : joinPkt none (elemsRev out) = (us, none)) :
    units (out.reverse.map Pk.toPacket) = us := by
  have := joinElems_append none (elemsRev out) []
  rw [List.append_nil, h] at this
  simp only [joinElems, List.append_nil] at this
  unfold units
  rw [← elemsRev_eq, this]

theorem layerOf_obuBytes' (x : Bytes) (l : List (ObuHeader × Bytes)) (h : x ∈ flushedOf l) :
    sizeFlagClear x = true := by
  simp only [flushedOf, List.mem_map, List.mem_filter] at h
  obtain ⟨hb, _, rfl⟩ := h
  exact sizeFlagClear_obuBytes _ _

/-- what the payloads denote: the OBUs of the stream that are not dropped, in order, without size field -/
theorem payload_denote (mtu : Nat) (hm : 2 ≤ mtu) (hs : mtu ≤ 65535) (data : Bytes) :
    denote ((payloadPks mtu data).map Pk.encode) = some (flushedOf (walk data.length data)) := by
  obtain ⟨us, hf⟩ := payloadPks_spec mtu hm hs data
  have hshape : ∀ p ∈ payloadPks mtu data, p.shapeOK := by
    intro p hp; exact (hf.inv.pk p (by simp [hp])).1
  rw [denote_encode _ hshape]
  have := units_of_join _ us hf.join
  rw [List.reverse_reverse] at this
  rw [this, hf.bytes]

/-- the payloads obey the aggregation rules -/
theorem payload_rules (mtu : Nat) (hm : 2 ≤ mtu) (hs : mtu ≤ 65535) (data : Bytes) :
    rulesOK mtu ((payloadPks mtu data).map Pk.encode) = true := by
  obtain ⟨us, hf⟩ := payloadPks_spec mtu hm hs data
  have hmem : ∀ p, p ∈ payloadPks mtu data → p ∈ (payloadPks mtu data).reverse := by
    intro p hp; simp [hp]
  have hshape : ∀ p ∈ payloadPks mtu data, p.shapeOK := fun p hp => (hf.inv.pk p (hmem p hp)).1
  have hun := units_of_join _ us hf.join
  rw [List.reverse_reverse] at hun
  unfold rulesOK
  rw [parseAll_encode _ hshape]
  simp only [Bool.and_eq_true, List.all_eq_true, decide_eq_true_eq, List.mem_map, forall_exists_index,
    and_imp, forall_apply_eq_imp_iff₂]
  refine ⟨?_, ⟨⟨?_, ?_⟩, ?_⟩, ?_⟩
  · intro p hp
    have : p.encode.length = p.size := by simp [Pk.encode, Pk.size]; omega
    rw [this]; exact hf.size p (hmem p hp)
  · have := zyChain_of_zyRev (payloadPks mtu data).reverse []
    simp only [List.reverse_reverse, List.append_nil, List.map_nil, zyChain] at this
    rw [this, hf.inv.zy, hf.inv.hy]; rfl
  · intro p hp e he
    have := (hf.inv.pk p (hmem p hp)).2.2.1 e he
    cases e with
    | nil => exact absurd rfl this
    | cons a b => rfl
  · intro u hu
    rw [hun] at hu
    have : u.bytes ∈ flushedOf (walk data.length data) := by
      rw [← hf.bytes]; exact List.mem_map.mpr ⟨u, hu, rfl⟩
    exact layerOf_obuBytes' _ _ this
  · rw [hun]
    unfold layersOK
    simp only [List.all_eq_true]
    intro u hu v hv
    cases ha : layerOf u.bytes with
    | none => rfl
    | some a =>
      cases hb : layerOf v.bytes with
      | none => rfl
      | some b =>
        by_cases hsh : sharePacket u v = true
        · have := hf.lay1 u hu v hv a b ha hb hsh
          simp [hsh, this]
        · simp [hsh]

end Rtp.Model.AV1
