/-
  Rtp/Proofs/VP9.lean — lemmas about VP9Packet.Unmarshal: octet-level facts, the "consumes exactly"
  calculus for its parse steps (including the three loops), the decoder / truncation lemmas behind
  C12 and the reuse / no-panic lemmas behind C09.
-/
import Rtp.Go.Bits
import Rtp.Pred.C12
import Rtp.Proofs.VP8
namespace Rtp.Proofs.VP9
open Rtp Rtp.Model Rtp.Bits Rtp.Pred
open Rtp.Spec.Vp9Rtp
open Rtp.Proofs.VP8 (forall_u8_lt forall_u16_lt prefix0 prefix1 prefix2)

/-! ### octet facts -/

/-- the first octet: eight flags -/
theorem octet0_flags : ∀ (i p l f b e v z : Bool),
    let o : UInt8 := bit i 0x80 ||| bit p 0x40 ||| bit l 0x20 ||| bit f 0x10 ||| bit b 0x08 |||
      bit e 0x04 ||| bit v 0x02 ||| bit z 0x01
    ((o &&& 0x80) != 0) = i ∧ ((o &&& 0x40) != 0) = p ∧ ((o &&& 0x20) != 0) = l ∧
    ((o &&& 0x10) != 0) = f ∧ ((o &&& 0x08) != 0) = b ∧ ((o &&& 0x04) != 0) = e ∧
    ((o &&& 0x02) != 0) = v ∧ ((o &&& 0x01) != 0) = z := by
  decide +kernel

/-- the layer octet -/
abbrev LayerP (tid : UInt8) (u : Bool) (sid : UInt8) (d : Bool) : Prop :=
  ((tid <<< 5) ||| bit u 0x10 ||| (sid <<< 1) ||| bit d 0x01) >>> 5 = tid ∧
  ((((tid <<< 5) ||| bit u 0x10 ||| (sid <<< 1) ||| bit d 0x01) &&& 0x10) != 0) = u ∧
  (((tid <<< 5) ||| bit u 0x10 ||| (sid <<< 1) ||| bit d 0x01) >>> 1) &&& 0x7 = sid ∧
  ((((tid <<< 5) ||| bit u 0x10 ||| (sid <<< 1) ||| bit d 0x01) &&& 0x01) != 0) = d

theorem layer_fin : ∀ (u d : Bool) (sid : Fin 8) (tid : Fin 8),
    LayerP (UInt8.ofNat tid.val) u (UInt8.ofNat sid.val) d := by
  decide +kernel

theorem layer_fields (tid : UInt8) (u : Bool) (sid : UInt8) (d : Bool) (ht : tid < 8) (hs : sid < 8) :
    LayerP tid u sid d := by
  refine forall_u8_lt 8 (fun sid => LayerP tid u sid d) (fun sid => ?_) sid (UInt8.lt_iff_toNat_lt.mp hs)
  exact forall_u8_lt 8 (fun tid => LayerP tid u _ d) (layer_fin u d sid) tid (UInt8.lt_iff_toNat_lt.mp ht)

/-- a P_DIFF octet -/
abbrev PDiffP (v : UInt8) : Prop :=
  (v <<< 1) >>> 1 = v ∧ ((v <<< 1) &&& 0x01 == 0) = true ∧
  ((v <<< 1) ||| 0x01) >>> 1 = v ∧ (((v <<< 1) ||| 0x01) &&& 0x01 == 0) = false

theorem pdiff_fin : ∀ v : Fin 128, PDiffP (UInt8.ofNat v.val) := by decide +kernel

theorem pdiff_fields (v : UInt8) (hv : v < 128) : PDiffP v :=
  forall_u8_lt 128 PDiffP pdiff_fin v (UInt8.lt_iff_toNat_lt.mp hv)

/-- the first SS octet -/
abbrev SSP (ns : UInt8) (y g : Bool) (m : UInt8) : Prop :=
  ((ns <<< 5) ||| bit y 0x10 ||| bit g 0x08 ||| m) >>> 5 = ns ∧
  ((((ns <<< 5) ||| bit y 0x10 ||| bit g 0x08 ||| m) &&& 0x10) != 0) = y ∧
  ((((ns <<< 5) ||| bit y 0x10 ||| bit g 0x08 ||| m) &&& 0x8) != 0) = g

theorem ss_fin : ∀ (y g : Bool) (m : Fin 8) (ns : Fin 8),
    SSP (UInt8.ofNat ns.val) y g (UInt8.ofNat m.val) := by
  decide +kernel

theorem and07_lt : ∀ g : UInt8, (g &&& 0x07).toNat < 8 := by
  apply forall_u8; decide +kernel

theorem and03_lt : ∀ g : UInt8, (g &&& 0x03).toNat < 4 := by
  apply forall_u8; decide +kernel

theorem ss_fields (ns : UInt8) (y g : Bool) (ign : UInt8) (hn : ns < 8) :
    SSP ns y g (ign &&& 0x07) := by
  refine forall_u8_lt 8 (fun m => SSP ns y g m) (fun m => ?_) _ (and07_lt ign)
  exact forall_u8_lt 8 (fun ns => SSP ns y g _) (ss_fin y g m) ns (UInt8.lt_iff_toNat_lt.mp hn)

/-- a picture-group octet -/
abbrev PGP (tid : UInt8) (u : Bool) (r m : UInt8) : Prop :=
  ((tid <<< 5) ||| bit u 0x10 ||| (r <<< 2) ||| m) >>> 5 = tid ∧
  ((((tid <<< 5) ||| bit u 0x10 ||| (r <<< 2) ||| m) &&& 0x10) != 0) = u ∧
  ((((tid <<< 5) ||| bit u 0x10 ||| (r <<< 2) ||| m) >>> 2) &&& 0x3) = r

theorem pg_fin : ∀ (u : Bool) (r m : Fin 4) (tid : Fin 8),
    PGP (UInt8.ofNat tid.val) u (UInt8.ofNat r.val) (UInt8.ofNat m.val) := by
  decide +kernel

theorem pg_fields (tid : UInt8) (u : Bool) (r ign : UInt8) (ht : tid < 8) (hr : r.toNat < 4) :
    PGP tid u r (ign &&& 0x03) := by
  refine forall_u8_lt 4 (fun m => PGP tid u r m) (fun m => ?_) _ (and03_lt ign)
  refine forall_u8_lt 4 (fun r => PGP tid u r _) (fun r => ?_) r hr
  exact forall_u8_lt 8 (fun tid => PGP tid u _ _) (pg_fin u r m) tid (UInt8.lt_iff_toNat_lt.mp ht)

/-- 7-bit picture id, VP9 flavour of the test (`!= 0`) -/
theorem pic7' (v : UInt16) (hv : v < 128) :
    ((v.toUInt8 &&& 0x80) != 0) = false ∧ (v.toUInt8 &&& 0x7F).toUInt16 = v := by
  exact forall_u16_lt 128
    (fun v => ((v.toUInt8 &&& 0x80) != 0) = false ∧ (v.toUInt8 &&& 0x7F).toUInt16 = v)
    (by decide +kernel) v (UInt16.lt_iff_toNat_lt.mp hv)

theorem pic15' (v : UInt16) (hv : v < 32768) :
    ((((0x80 : UInt8) ||| (v >>> 8).toUInt8) &&& 0x80) != 0) = true ∧
    ((((0x80 : UInt8) ||| (v >>> 8).toUInt8) &&& 0x7F).toUInt16 <<< 8) ||| v.toUInt8.toUInt16 = v := by
  refine ⟨?_, (VP8.pic15 v hv).2⟩
  exact VP8.forall_u8_lt 128 (fun h => ((((0x80 : UInt8) ||| h) &&& 0x80) != 0) = true)
    (by decide +kernel) _ (VP8.shr8_lt v hv)

/-- big-endian 16-bit fields -/
theorem be16 (w : UInt16) : ((w >>> 8).toUInt8.toUInt16 <<< 8) ||| w.toUInt8.toUInt16 = w := VP8.join16 w

/-! ### "consumes exactly" -/

/-- step `f`, started in `p`, consumes exactly the octets `a` (whatever follows) ending in `p'`,
    and fails on every strict prefix of `a` -/
def Exact (f : VP9Step) (p : VP9Packet) (a : Bytes) (p' : VP9Packet) : Prop :=
  (∀ t, f p (a ++ t) = (some t, p')) ∧ (∀ a' c, a = a' ++ c → c ≠ [] → (f p a').1 = none)

theorem Exact.andThen {f g : VP9Step} {p p' p'' : VP9Packet} {a b : Bytes}
    (hf : Exact f p a p') (hg : Exact g p' b p'') : Exact (f.andThen g) p (a ++ b) p'' := by
  constructor
  · intro t
    simp only [VP9Step.andThen, List.append_assoc, hf.1 (b ++ t), hg.1 t]
  · intro a' c h hc
    have key : ∀ b', b = b' ++ c → ((f.andThen g) p (a ++ b')).1 = none := by
      intro b' hb
      have := hg.2 b' c hb hc
      simp only [VP9Step.andThen, hf.1 b']
      exact this
    rcases List.append_eq_append_iff.mp h with ⟨b', rfl, hb⟩ | ⟨c', ha, hc'⟩
    · exact key b' hb
    · by_cases hc0 : c' = []
      · subst hc0
        simp only [List.append_nil] at ha
        subst ha
        have := key [] (by simpa using hc'.symm)
        simpa using this
      · have := hf.2 a' c' ha hc0
        simp only [VP9Step.andThen]
        cases hfa : f p a' with
        | mk r q =>
          rw [hfa] at this
          simp only at this
          subst this
          rfl

theorem Exact.skip (p : VP9Packet) : Exact VP9Step.skip p [] p := by
  constructor
  · intro t; rfl
  · intro a' c h hc; exact (prefix0 h hc).elim

theorem Exact.when_true {c : VP9Packet → Bool} {f : VP9Step} {p p' : VP9Packet} {a : Bytes}
    (h : c p = true) (hf : Exact f p a p') : Exact (VP9Step.when c f) p a p' := by
  constructor
  · intro t; simp only [VP9Step.when, h, if_true]; exact hf.1 t
  · intro a' c' ha hc; simp only [VP9Step.when, h, if_true]; exact hf.2 a' c' ha hc

theorem Exact.when_false {c : VP9Packet → Bool} {f : VP9Step} {p : VP9Packet}
    (h : c p = false) : Exact (VP9Step.when c f) p [] p := by
  constructor
  · intro t; simp [VP9Step.when, h]
  · intro a' c' ha hc; exact (prefix0 ha hc).elim

/-- strict prefixes of a four-octet string have fewer than four octets -/
theorem prefix4 {b1 b2 b3 b4 : UInt8} {a' c : Bytes} (h : [b1, b2, b3, b4] = a' ++ c) (hc : c ≠ []) :
    a'.length < 4 := by
  have := congrArg List.length h
  simp only [List.length_cons, List.length_nil, List.length_append] at this
  have : c.length ≠ 0 := fun h0 => hc (List.length_eq_zero_iff.mp h0)
  omega

/-! ### picture id, layer indices, reference indices -/

def PicWF : Option (Bool × UInt16) → Prop
  | none => True
  | some (false, v) => v < 128
  | some (true, v) => v < 32768

theorem exact_pic (p : VP9Packet) (m : Bool) (v : UInt16) (hwf : PicWF (some (m, v))) :
    Exact vp9ParsePictureID p (encPicId (some (m, v))) { p with PictureID := v } := by
  cases m
  · have hp := pic7' v hwf
    constructor
    · intro t
      simp [vp9ParsePictureID, encPicId, hp.1, hp.2]
    · intro a' c h hc
      have := prefix1 (by simpa [encPicId] using h) hc
      subst this
      simp [vp9ParsePictureID]
  · have hp := pic15' v hwf
    constructor
    · intro t
      have h2 := hp.2
      simp at h2
      simp [vp9ParsePictureID, encPicId, hp.1, h2]
    · intro a' c h hc
      rcases prefix2 (by simpa [encPicId] using h) hc with rfl | rfl
      · simp [vp9ParsePictureID]
      · simp [vp9ParsePictureID, hp.1]

theorem exact_layer (p : VP9Packet) (l : Layer) (ht : l.tid < 8) (hs : l.sid < 5) :
    Exact vp9ParseLayerInfo p (encLayer p.F (some l))
      { p with TID := l.tid, U := l.u, SID := l.sid, D := l.d,
               TL0PICIDX := if p.F then p.TL0PICIDX else l.tl0 } := by
  have hs8 : l.sid < 8 := by
    rw [UInt8.lt_iff_toNat_lt] at hs ⊢
    simp only [UInt8.reduceToNat] at hs ⊢
    omega
  have hf := layer_fields l.tid l.u l.sid l.d ht hs8
  have hs5 : ¬ (l.sid ≥ 5) := by
    rw [UInt8.lt_iff_toNat_lt] at hs
    rw [ge_iff_le, UInt8.le_iff_toNat_le]
    omega
  cases hF : p.F
  · constructor
    · intro t
      simp [vp9ParseLayerInfo, encLayer, hf.1, hf.2.1, hf.2.2.1, hf.2.2.2, hs5, hF]
    · intro a' c h hc
      rcases prefix2 (by simpa [encLayer] using h) hc with rfl | rfl
      · simp [vp9ParseLayerInfo]
      · simp [vp9ParseLayerInfo, hf.2.2.1, hs5, hF]
  · constructor
    · intro t
      simp [vp9ParseLayerInfo, encLayer, hf.1, hf.2.1, hf.2.2.1, hf.2.2.2, hs5, hF]
    · intro a' c h hc
      have := prefix1 (by simpa [encLayer] using h) hc
      subst this
      simp [vp9ParseLayerInfo]

theorem encPDiffs_cons2 (v v' : UInt8) (vs : List UInt8) :
    encPDiffs (v :: v' :: vs) = ((v <<< 1) ||| 0x01) :: encPDiffs (v' :: vs) := by
  simp [encPDiffs]

theorem exact_refs : ∀ (pds : List UInt8) (p : VP9Packet), pds ≠ [] →
    p.PDiff.length + pds.length ≤ 3 → (∀ v ∈ pds, v < 128) →
    Exact vp9ParseRefIndices p (encPDiffs pds) { p with PDiff := p.PDiff ++ pds } := by
  intro pds
  induction pds with
  | nil => intro p h; exact absurd rfl h
  | cons v vs ih =>
    intro p _ hlen hlt
    have hv := pdiff_fields v (hlt v List.mem_cons_self)
    cases vs with
    | nil =>
      constructor
      · intro t
        simp only [encPDiffs, List.cons_append, List.nil_append, vp9ParseRefIndices, hv.1, hv.2.1, if_true]
      · intro a' c h hc
        have := prefix1 (by simpa [encPDiffs] using h) hc
        subst this
        simp [vp9ParseRefIndices]
    | cons v' vs' =>
      have hlen' : ¬ ((p.PDiff ++ [v]).length ≥ 3) := by
        simp only [List.length_append, List.length_cons, List.length_nil] at hlen ⊢
        omega
      have ih' := ih { p with PDiff := p.PDiff ++ [v] } (by simp)
        (by simp only [List.length_append, List.length_cons, List.length_nil] at hlen ⊢; omega)
        (fun x hx => hlt x (List.mem_cons_of_mem _ hx))
      rw [encPDiffs_cons2]
      constructor
      · intro t
        have := ih'.1 t
        simp only [List.cons_append, vp9ParseRefIndices, hv.2.2.1, hv.2.2.2, Bool.false_eq_true, if_false,
          hlen', this]
        simp
      · intro a' c h hc
        cases a' with
        | nil => simp [vp9ParseRefIndices]
        | cons b r =>
          simp only [List.cons_append, List.cons.injEq] at h
          obtain ⟨rfl, hr⟩ := h
          have := ih'.2 r c hr hc
          simp only [vp9ParseRefIndices, hv.2.2.1, hv.2.2.2, Bool.false_eq_true, if_false, hlen']
          exact this

/-! ### the scalability structure -/

theorem exact_resOne (p : VP9Packet) (i : Nat) (w h : UInt16) :
    Exact (vp9ResOne i) p [(w >>> 8).toUInt8, w.toUInt8, (h >>> 8).toUInt8, h.toUInt8]
      { p with Width := p.Width.set i w, Height := p.Height.set i h } := by
  constructor
  · intro t
    simp only [vp9ResOne, List.cons_append, List.nil_append, be16]
  · intro a' c ha hc
    have hl := prefix4 ha hc
    match a', hl with
    | [], _ => rfl
    | [_], _ => rfl
    | [_, _], _ => rfl
    | [_, _, _], _ => rfl
    | _ :: _ :: _ :: _ :: _, hl => simp at hl; omega

theorem set_mid (dw : List UInt16) (n : Nat) (w : UInt16) :
    (dw ++ List.replicate (n + 1) 0).set dw.length w = (dw ++ [w]) ++ List.replicate n 0 := by
  rw [List.set_append]
  simp [List.replicate_succ]

/-- the resolution loop fills the zero-initialised slots one after the other -/
theorem exact_res : ∀ (l : List (UInt16 × UInt16)) (p : VP9Packet) (dw dh : List UInt16),
    dw.length = dh.length →
    p.Width = dw ++ List.replicate l.length 0 → p.Height = dh ++ List.replicate l.length 0 →
    Exact (vp9ParseRes l.length dw.length) p (encRes l)
      { p with Width := dw ++ l.map (·.1), Height := dh ++ l.map (·.2) } := by
  intro l
  induction l with
  | nil =>
    intro p dw dh _ hw hh
    simp only [List.length_nil, List.replicate_zero, List.append_nil] at hw hh
    have : ({ p with Width := dw ++ ([] : List (UInt16 × UInt16)).map (·.1),
                     Height := dh ++ ([] : List (UInt16 × UInt16)).map (·.2) } : VP9Packet) = p := by
      cases p; simp_all
    rw [this]
    exact Exact.skip p
  | cons wh l ih =>
    intro p dw dh hlen hw hh
    obtain ⟨w, h⟩ := wh
    have h1 := exact_resOne p dw.length w h
    have hw' : p.Width.set dw.length w = (dw ++ [w]) ++ List.replicate l.length 0 := by
      rw [hw]; exact set_mid dw l.length w
    have hh' : p.Height.set dw.length h = (dh ++ [h]) ++ List.replicate l.length 0 := by
      rw [hh, hlen]; exact set_mid dh l.length h
    have h2 := ih { p with Width := p.Width.set dw.length w, Height := p.Height.set dw.length h }
      (dw ++ [w]) (dh ++ [h]) (by simp [hlen]) hw' hh'
    have := Exact.andThen h1 h2
    simp only [List.length_append, List.length_cons, List.length_nil, Nat.zero_add] at this
    simp only [List.length_cons, vp9ParseRes, encRes, List.map_cons]
    have e : ∀ (a b c d : UInt8) (r : Bytes), a :: b :: c :: d :: r = [a, b, c, d] ++ r := by
      intros; rfl
    rw [e]
    simpa [List.append_assoc] using this

def PGWF (g : PG) : Prop := g.tid < 8 ∧ g.pdiffs.length ≤ 3

theorem len_u8 (n : Nat) (h : n ≤ 3) : (n.toUInt8).toNat = n := by
  simp only [Nat.toUInt8, UInt8.toNat_ofNat']; omega

theorem exact_pgOne (p : VP9Packet) (g : PG) (hg : PGWF g) :
    Exact vp9PGOne p (encPG g)
      { p with PGTID := p.PGTID ++ [g.tid], PGU := p.PGU ++ [g.u], PGPDiff := p.PGPDiff ++ [g.pdiffs] } := by
  have hg2 := hg.2
  have hr : (g.pdiffs.length.toUInt8).toNat < 4 := by rw [len_u8 _ hg.2]; omega
  have hf := pg_fields g.tid g.u g.pdiffs.length.toUInt8 g.ign hg.1 hr
  constructor
  · intro t
    simp only [vp9PGOne, encPG, List.cons_append, hf.1, hf.2.1, hf.2.2, len_u8 _ hg.2]
    simp
  · intro a' c ha hc
    cases a' with
    | nil => rfl
    | cons b r =>
      simp only [encPG, List.cons_append, List.cons.injEq] at ha
      obtain ⟨rfl, hr'⟩ := ha
      have hlt : r.length < g.pdiffs.length := by
        have := congrArg List.length hr'
        simp only [List.length_append] at this
        have : c.length ≠ 0 := fun h0 => hc (List.length_eq_zero_iff.mp h0)
        omega
      simp only [vp9PGOne, hf.2.2, len_u8 _ hg.2, hlt, if_true]

theorem exact_pgs : ∀ (gs : List PG) (p : VP9Packet), (∀ g ∈ gs, PGWF g) →
    Exact (vp9ParsePG gs.length) p (encPGs gs)
      { p with PGTID := p.PGTID ++ gs.map (·.tid), PGU := p.PGU ++ gs.map (·.u),
               PGPDiff := p.PGPDiff ++ gs.map (·.pdiffs) } := by
  intro gs
  induction gs with
  | nil =>
    intro p _
    have : ({ p with PGTID := p.PGTID ++ ([] : List PG).map (·.tid), PGU := p.PGU ++ ([] : List PG).map (·.u),
                     PGPDiff := p.PGPDiff ++ ([] : List PG).map (·.pdiffs) } : VP9Packet) = p := by
      cases p; simp
    rw [this]
    exact Exact.skip p
  | cons g gs ih =>
    intro p hw
    have h1 := exact_pgOne p g (hw g List.mem_cons_self)
    have h2 := ih { p with PGTID := p.PGTID ++ [g.tid], PGU := p.PGU ++ [g.u],
                           PGPDiff := p.PGPDiff ++ [g.pdiffs] }
      (fun x hx => hw x (List.mem_cons_of_mem _ hx))
    have := Exact.andThen h1 h2
    simpa [vp9ParsePG, encPGs, List.append_assoc] using this

def resBytes : Option (List (UInt16 × UInt16)) → Bytes
  | none => []
  | some l => encRes l
def resState (p : VP9Packet) : Option (List (UInt16 × UInt16)) → VP9Packet
  | none => p
  | some l => { p with Width := l.map (·.1), Height := l.map (·.2) }
def resLen (n : Nat) : Option (List (UInt16 × UInt16)) → Prop
  | none => True
  | some l => l.length = n
def ngBytes : Option (List PG) → Bytes
  | none => []
  | some l => [l.length.toUInt8]
def ngState (p : VP9Packet) : Option (List PG) → VP9Packet
  | none => p
  | some l => { p with NG := l.length.toUInt8 }

def PGsWF : Option (List PG) → Prop
  | none => True
  | some l => l.length < 256 ∧ ∀ g ∈ l, PGWF g

structure SSWFP (s : SS) : Prop where
  ns : s.ns < 8
  res : resLen (s.ns.toNat + 1) s.res
  pg : PGsWF s.pg

theorem exact_ssHead (p : VP9Packet) (s : SS) (hn : s.ns < 8) :
    Exact vp9SSHead p
      [(s.ns <<< 5) ||| bit s.res.isSome 0x10 ||| bit s.pg.isSome 0x08 ||| (s.ign &&& 0x07)]
      { p with NS := s.ns, Y := s.res.isSome, G := s.pg.isSome, NG := 0 } := by
  have hf := ss_fields s.ns s.res.isSome s.pg.isSome s.ign hn
  constructor
  · intro t
    simp only [vp9SSHead, List.cons_append, List.nil_append, hf.1, hf.2.1, hf.2.2]
  · intro a' c ha hc
    have := prefix1 ha hc
    subst this
    rfl

theorem exact_ssRes (p : VP9Packet) (res : Option (List (UInt16 × UInt16)))
    (hY : p.Y = res.isSome) (hl : resLen (p.NS.toNat + 1) res) :
    Exact vp9SSRes p (resBytes res) (resState p res) := by
  cases res with
  | none =>
    simp only [Option.isSome_none] at hY
    constructor
    · intro t; simp [vp9SSRes, hY, resBytes, resState]
    · intro a' c ha hc; exact (prefix0 ha hc).elim
  | some l =>
    simp only [Option.isSome_some] at hY
    simp only [resLen] at hl
    show Exact vp9SSRes p (encRes l) { p with Width := l.map (·.1), Height := l.map (·.2) }
    have := exact_res l
      { p with Width := List.replicate (p.NS.toNat + 1) 0, Height := List.replicate (p.NS.toNat + 1) 0 }
      [] [] rfl (by simp [hl]) (by simp [hl])
    simp only [List.length_nil, List.nil_append] at this
    constructor
    · intro t
      unfold vp9SSRes
      rw [if_pos hY]
      have h := this.1 t
      rw [hl] at h
      exact h
    · intro a' c ha hc
      unfold vp9SSRes
      rw [if_pos hY]
      have h := this.2 a' c ha hc
      rw [hl] at h
      exact h

theorem exact_ssNG (p : VP9Packet) (pg : Option (List PG)) (hG : p.G = pg.isSome) :
    Exact vp9SSNG p (ngBytes pg) (ngState p pg) := by
  cases pg with
  | none =>
    simp only [Option.isSome_none] at hG
    constructor
    · intro t; simp [vp9SSNG, hG, ngBytes, ngState]
    · intro a' c ha hc; exact (prefix0 ha hc).elim
  | some l =>
    simp only [Option.isSome_some] at hG
    constructor
    · intro t; simp [vp9SSNG, hG, ngBytes, ngState]
    · intro a' c ha hc
      have := prefix1 (by simpa [ngBytes] using ha) hc
      subst this
      simp [vp9SSNG, hG]

theorem exact_ssPG (p : VP9Packet) (gs : List PG) (hNG : p.NG.toNat = gs.length)
    (hw : ∀ g ∈ gs, PGWF g) :
    Exact vp9SSPG p (encPGs gs)
      { p with PGTID := p.PGTID ++ gs.map (·.tid), PGU := p.PGU ++ gs.map (·.u),
               PGPDiff := p.PGPDiff ++ gs.map (·.pdiffs) } := by
  have h := exact_pgs gs p hw
  unfold vp9SSPG
  constructor
  · intro t; show vp9ParsePG p.NG.toNat p (encPGs gs ++ t) = _; rw [hNG]; exact h.1 t
  · intro a' c ha hc; show (vp9ParsePG p.NG.toNat p a').1 = none; rw [hNG]; exact h.2 a' c ha hc

/-- the receiver after a scalability structure has been parsed into it -/
def ssFinal (p : VP9Packet) (s : SS) : VP9Packet :=
  { p with NS := s.ns, Y := s.res.isSome, G := s.pg.isSome, NG := (C12.pgOf s).length.toUInt8,
           Width := match s.res with | some l => l.map (·.1) | none => p.Width,
           Height := match s.res with | some l => l.map (·.2) | none => p.Height,
           PGTID := p.PGTID ++ (C12.pgOf s).map (·.tid), PGU := p.PGU ++ (C12.pgOf s).map (·.u),
           PGPDiff := p.PGPDiff ++ (C12.pgOf s).map (·.pdiffs) }

theorem len_u8' (n : Nat) (h : n < 256) : (n.toUInt8).toNat = n := by
  simp only [Nat.toUInt8, UInt8.toNat_ofNat']; omega

theorem exact_ss (p : VP9Packet) (s : SS) (w : SSWFP s) :
    Exact vp9ParseSSData p (encSS (some s)) (ssFinal p s) := by
  have h1 := exact_ssHead p s w.ns
  obtain ⟨ns, res, pg, ign⟩ := s
  have wres := w.res
  have wpg := w.pg
  simp only [resLen, PGsWF] at wres wpg
  simp only at h1
  cases res with
  | none =>
    cases pg with
    | none =>
      have h2 := exact_ssRes { p with NS := ns, Y := false, G := false, NG := 0 } none rfl trivial
      have h3 := exact_ssNG { p with NS := ns, Y := false, G := false, NG := 0 } none rfl
      have h4 : Exact vp9SSPG { p with NS := ns, Y := false, G := false, NG := 0 } []
          { p with NS := ns, Y := false, G := false, NG := 0 } := Exact.skip _
      have := Exact.andThen h1 (Exact.andThen h2 (Exact.andThen h3 h4))
      have e : ssFinal p { ns := ns, res := none, pg := none, ign := ign } =
          { p with NS := ns, Y := false, G := false, NG := 0 } := by
        cases p; simp [ssFinal, C12.pgOf]
      rw [e]
      simpa [vp9ParseSSData, encSS, resBytes, resState, ngBytes, ngState] using this
    | some gs =>
      have hlen := len_u8' gs.length wpg.1
      have h2 := exact_ssRes { p with NS := ns, Y := false, G := true, NG := 0 } none rfl trivial
      have h3 := exact_ssNG { p with NS := ns, Y := false, G := true, NG := 0 } (some gs) rfl
      have h4 := exact_ssPG { p with NS := ns, Y := false, G := true, NG := gs.length.toUInt8 } gs hlen wpg.2
      have := Exact.andThen h1 (Exact.andThen h2 (Exact.andThen h3 h4))
      have e : ssFinal p { ns := ns, res := none, pg := some gs, ign := ign } =
          { p with NS := ns, Y := false, G := true, NG := gs.length.toUInt8,
                   PGTID := p.PGTID ++ gs.map (·.tid), PGU := p.PGU ++ gs.map (·.u),
                   PGPDiff := p.PGPDiff ++ gs.map (·.pdiffs) } := by
        cases p; simp [ssFinal, C12.pgOf]
      rw [e]
      simpa [vp9ParseSSData, encSS, resBytes, resState, ngBytes, ngState] using this
  | some l =>
    cases pg with
    | none =>
      have h2 := exact_ssRes { p with NS := ns, Y := true, G := false, NG := 0 } (some l) rfl wres
      have h3 := exact_ssNG { p with NS := ns, Y := true, G := false, NG := 0,
                                     Width := l.map (·.1), Height := l.map (·.2) } none rfl
      have h4 : Exact vp9SSPG { p with NS := ns, Y := true, G := false, NG := 0,
                                       Width := l.map (·.1), Height := l.map (·.2) } []
          { p with NS := ns, Y := true, G := false, NG := 0,
                   Width := l.map (·.1), Height := l.map (·.2) } := Exact.skip _
      have := Exact.andThen h1 (Exact.andThen h2 (Exact.andThen h3 h4))
      have e : ssFinal p { ns := ns, res := some l, pg := none, ign := ign } =
          { p with NS := ns, Y := true, G := false, NG := 0,
                   Width := l.map (·.1), Height := l.map (·.2) } := by
        cases p; simp [ssFinal, C12.pgOf]
      rw [e]
      simpa [vp9ParseSSData, encSS, resBytes, resState, ngBytes, ngState] using this
    | some gs =>
      have hlen := len_u8' gs.length wpg.1
      have h2 := exact_ssRes { p with NS := ns, Y := true, G := true, NG := 0 } (some l) rfl wres
      have h3 := exact_ssNG { p with NS := ns, Y := true, G := true, NG := 0,
                                     Width := l.map (·.1), Height := l.map (·.2) } (some gs) rfl
      have h4 := exact_ssPG { p with NS := ns, Y := true, G := true, NG := gs.length.toUInt8,
                                     Width := l.map (·.1), Height := l.map (·.2) } gs hlen wpg.2
      have := Exact.andThen h1 (Exact.andThen h2 (Exact.andThen h3 h4))
      have e : ssFinal p { ns := ns, res := some l, pg := some gs, ign := ign } =
          { p with NS := ns, Y := true, G := true, NG := gs.length.toUInt8,
                   Width := l.map (·.1), Height := l.map (·.2),
                   PGTID := p.PGTID ++ gs.map (·.tid), PGU := p.PGU ++ gs.map (·.u),
                   PGPDiff := p.PGPDiff ++ gs.map (·.pdiffs) } := by
        cases p; simp [ssFinal, C12.pgOf]
      rw [e]
      simpa [vp9ParseSSData, encSS, resBytes, resState, ngBytes, ngState] using this

/-! ### the whole descriptor -/

def LayerWF : Option Layer → Prop
  | none => True
  | some l => l.tid < 8 ∧ l.sid < 5

def PDWF (d : Descriptor) : Prop :=
  if d.f && d.p then 1 ≤ d.pdiffs.length ∧ d.pdiffs.length ≤ 3 ∧ ∀ v ∈ d.pdiffs, v < 128 else d.pdiffs = []

def SSOptWF : Option SS → Prop
  | none => True
  | some s => SSWFP s

structure WFP (d : Descriptor) : Prop where
  pic : PicWF d.picId
  layer : LayerWF d.layer
  pd : PDWF d
  ss : SSOptWF d.ss

theorem wfp_of_wf (d : Descriptor) (h : d.WF 5 = true) : WFP d := by
  simp only [Descriptor.WF, Bool.and_eq_true] at h
  obtain ⟨⟨⟨h1, h2⟩, h3⟩, h4⟩ := h
  refine ⟨?_, ?_, ?_, ?_⟩
  · rcases hp : d.picId with _ | ⟨_ | _, v⟩ <;> simp [hp, PicWF] at h1 ⊢ <;> exact h1
  · rcases hp : d.layer with _ | l <;> simp [hp, LayerWF] at h2 ⊢; exact h2
  · unfold PDWF
    cases hf : d.f <;> cases hp : d.p <;>
      simp [hf, hp, List.all_eq_true] at h3 ⊢ <;> first | exact h3 | exact ⟨h3.1.1, h3.1.2, h3.2⟩
  · rcases hp : d.ss with _ | s
    · trivial
    · simp only [hp, SS.WF, Bool.and_eq_true, decide_eq_true_eq] at h4
      obtain ⟨⟨h5, h6⟩, h7⟩ := h4
      refine ⟨h5, ?_, ?_⟩
      · rcases hr : s.res with _ | l <;> simp [hr, resLen] at h6 ⊢; exact h6
      · rcases hg : s.pg with _ | l
        · trivial
        · simp only [hg, Bool.and_eq_true, decide_eq_true_eq, List.all_eq_true] at h7
          refine ⟨h7.1, fun g hgm => ?_⟩
          have := h7.2 g hgm
          simp only [PG.WF, Bool.and_eq_true, decide_eq_true_eq] at this
          exact this

/-- the octets of a descriptor after the first one -/
def descTail (d : Descriptor) : Bytes :=
  encPicId d.picId ++ (encLayer d.f d.layer ++ ((if d.f && d.p then encPDiffs d.pdiffs else []) ++ encSS d.ss))

theorem encode_eq (d : Descriptor) :
    d.encode = (bit d.picId.isSome 0x80 ||| bit d.p 0x40 ||| bit d.layer.isSome 0x20 ||| bit d.f 0x10 |||
      bit d.b 0x08 ||| bit d.e 0x04 ||| bit d.ss.isSome 0x02 ||| bit d.z 0x01) :: descTail d := by
  simp [Descriptor.encode, descTail, List.append_assoc]

/-- the receiver right after the flag octet (everything else reset) -/
def flagState (d : Descriptor) : VP9Packet :=
  { I := d.picId.isSome, P := d.p, L := d.layer.isSome, F := d.f, B := d.b, E := d.e, V := d.ss.isSome, Z := d.z }

def picState (p : VP9Packet) : Option (Bool × UInt16) → VP9Packet
  | none => p
  | some (_, v) => { p with PictureID := v }

def layerState (p : VP9Packet) : Option Layer → VP9Packet
  | none => p
  | some l => { p with TID := l.tid, U := l.u, SID := l.sid, D := l.d,
                       TL0PICIDX := if p.F then p.TL0PICIDX else l.tl0 }

def ssState (p : VP9Packet) : Option SS → VP9Packet
  | none => p
  | some s => ssFinal p s

theorem exact_whenPic (p : VP9Packet) (pic : Option (Bool × UInt16)) (hI : p.I = pic.isSome)
    (hw : PicWF pic) :
    Exact (VP9Step.when (·.I) vp9ParsePictureID) p (encPicId pic) (picState p pic) := by
  rcases pic with _ | ⟨m, v⟩
  · exact Exact.when_false (by simpa using hI)
  · exact Exact.when_true (by simpa using hI) (exact_pic p m v hw)

theorem exact_whenLayer (p : VP9Packet) (layer : Option Layer) (hL : p.L = layer.isSome)
    (hw : LayerWF layer) :
    Exact (VP9Step.when (·.L) vp9ParseLayerInfo) p (encLayer p.F layer) (layerState p layer) := by
  rcases layer with _ | l
  · exact Exact.when_false (by simpa using hL)
  · exact Exact.when_true (by simpa using hL) (exact_layer p l hw.1 hw.2)

theorem exact_whenRefs (p : VP9Packet) (d : Descriptor) (hF : p.F = d.f) (hP : p.P = d.p)
    (h0 : p.PDiff = []) (hw : PDWF d) :
    Exact (VP9Step.when (fun p => p.F && p.P) vp9ParseRefIndices) p
      (if d.f && d.p then encPDiffs d.pdiffs else [])
      { p with PDiff := if d.f && d.p then d.pdiffs else [] } := by
  unfold PDWF at hw
  cases hfp : (d.f && d.p)
  · simp only [hfp, Bool.false_eq_true, if_false] at hw ⊢
    have : ({ p with PDiff := [] } : VP9Packet) = p := by cases p; simp_all
    rw [this]
    exact Exact.when_false (by simp [hF, hP, hfp])
  · simp only [hfp, if_true] at hw ⊢
    have hne : d.pdiffs ≠ [] := by
      intro h; rw [h] at hw; simp at hw
    have := exact_refs d.pdiffs p hne (by rw [h0]; simp; exact hw.2.1) hw.2.2
    rw [h0, List.nil_append] at this
    exact Exact.when_true (by simp [hF, hP, hfp]) this

theorem exact_whenSS (p : VP9Packet) (ss : Option SS) (hV : p.V = ss.isSome) (hw : SSOptWF ss) :
    Exact (VP9Step.when (·.V) vp9ParseSSData) p (encSS ss) (ssState p ss) := by
  rcases ss with _ | s
  · exact Exact.when_false (by simpa using hV)
  · exact Exact.when_true (by simpa using hV) (exact_ss p s hw)

/-- the state after all four optional parts -/
def finalState (d : Descriptor) : VP9Packet :=
  ssState { layerState (picState (flagState d) d.picId) d.layer with
            PDiff := if d.f && d.p then d.pdiffs else [] } d.ss

theorem steps_exact (d : Descriptor) (w : WFP d) :
    Exact ((VP9Step.when (·.I) vp9ParsePictureID).andThen
           ((VP9Step.when (·.L) vp9ParseLayerInfo).andThen
            ((VP9Step.when (fun p => p.F && p.P) vp9ParseRefIndices).andThen
             (VP9Step.when (·.V) vp9ParseSSData)))) (flagState d) (descTail d) (finalState d) := by
  have h1 := exact_whenPic (flagState d) d.picId rfl w.pic
  have h2 := exact_whenLayer (picState (flagState d) d.picId) d.layer
    (by rcases d.picId with _ | ⟨_, _⟩ <;> rfl) w.layer
  have hF : (picState (flagState d) d.picId).F = d.f := by rcases d.picId with _ | ⟨_, _⟩ <;> rfl
  rw [hF] at h2
  have h3 := exact_whenRefs (layerState (picState (flagState d) d.picId) d.layer) d
    (by rcases d.picId with _ | ⟨_, _⟩ <;> rcases d.layer with _ | _ <;> rfl)
    (by rcases d.picId with _ | ⟨_, _⟩ <;> rcases d.layer with _ | _ <;> rfl)
    (by rcases d.picId with _ | ⟨_, _⟩ <;> rcases d.layer with _ | _ <;> rfl) w.pd
  have h4 := exact_whenSS { layerState (picState (flagState d) d.picId) d.layer with
      PDiff := if d.f && d.p then d.pdiffs else [] } d.ss
    (by rcases d.picId with _ | ⟨_, _⟩ <;> rcases d.layer with _ | _ <;> rfl) w.ss
  exact Exact.andThen h1 (Exact.andThen h2 (Exact.andThen h3 h4))

theorem finalState_eq (d : Descriptor) : finalState d = C12.expected d := by
  obtain ⟨p, f, b, e, z, pic, layer, pds, ss⟩ := d
  cases f <;> rcases pic with _ | ⟨m, v⟩ <;> rcases layer with _ | l <;> rcases ss with _ | s <;>
    simp [finalState, ssState, layerState, picState, flagState, C12.expected, ssFinal, C12.pgOf] <;>
    (try (rcases s with ⟨ns, _ | rl, _ | gl, ign⟩ <;> simp [C12.pgOf]))

/-- the decoder on a complete descriptor followed by anything, from ANY receiver state -/
theorem unmarshal_encode (d : Descriptor) (hwf : d.WF 5 = true) (p : VP9Packet) (payload : Bytes) :
    vp9Unmarshal p (some (d.encode ++ payload)) = (.ok payload, C12.expected d) := by
  have w := wfp_of_wf d hwf
  have h0 := octet0_flags d.picId.isSome d.p d.layer.isSome d.f d.b d.e d.ss.isSome d.z
  simp only at h0
  rw [encode_eq d]
  simp only [List.cons_append, vp9Unmarshal, h0.1, h0.2.1, h0.2.2.1, h0.2.2.2.1, h0.2.2.2.2.1,
    h0.2.2.2.2.2.1, h0.2.2.2.2.2.2.1, h0.2.2.2.2.2.2.2]
  have := (steps_exact d w).1 payload
  simp only [flagState] at this
  rw [this, finalState_eq]

/-- cut anywhere inside the descriptor: an error, from any receiver state -/
theorem unmarshal_truncated (d : Descriptor) (hwf : d.WF 5 = true) (p : VP9Packet) (k : Nat)
    (hk : k < d.encode.length) : (vp9Unmarshal p (some (d.encode.take k))).1.isErr = true := by
  have w := wfp_of_wf d hwf
  have h0 := octet0_flags d.picId.isSome d.p d.layer.isSome d.f d.b d.e d.ss.isSome d.z
  simp only at h0
  rw [encode_eq d] at hk ⊢
  cases k with
  | zero => simp [vp9Unmarshal, Res.isErr]
  | succ k =>
    have hk' : k < (descTail d).length := by simpa using hk
    have := (steps_exact d w).2 ((descTail d).take k) ((descTail d).drop k)
      (List.take_append_drop k _).symm
      (by
        intro h
        have := congrArg List.length h
        simp at this
        omega)
    simp only [flagState] at this
    simp only [List.take_succ_cons, vp9Unmarshal, h0.1, h0.2.1, h0.2.2.1, h0.2.2.2.1, h0.2.2.2.2.1,
      h0.2.2.2.2.2.1, h0.2.2.2.2.2.2.1, h0.2.2.2.2.2.2.2]
    generalize hres : ((VP9Step.when (·.I) vp9ParsePictureID).andThen
           ((VP9Step.when (·.L) vp9ParseLayerInfo).andThen
            ((VP9Step.when (fun p => p.F && p.P) vp9ParseRefIndices).andThen
             (VP9Step.when (·.V) vp9ParseSSData)))) _ ((descTail d).take k) = res at this
    obtain ⟨r, q⟩ := res
    simp only at this
    subst this
    rfl

/-- IsPartitionHead reads the B bit -/
theorem head_encode (d : Descriptor) (payload : Bytes) :
    vp9IsPartitionHead (some (d.encode ++ payload)) = d.b := by
  have h0 := octet0_flags d.picId.isSome d.p d.layer.isSome d.f d.b d.e d.ss.isSome d.z
  simp only at h0
  rw [encode_eq d]
  simp only [List.cons_append, vp9IsPartitionHead]
  exact h0.2.2.2.2.1

/-! ### C09 -/

theorem unmarshal_nopanic (p : VP9Packet) (i : Option Bytes) : (vp9Unmarshal p i).1 ≠ .panic := by
  unfold vp9Unmarshal
  split
  · simp
  · simp
  · simp only
    split <;> simp

/-- a non-empty packet: the outcome and the receiver afterwards do not depend on the receiver before -/
theorem unmarshal_fresh (p q : VP9Packet) (b0 : UInt8) (r : Bytes) :
    vp9Unmarshal p (some (b0 :: r)) = vp9Unmarshal q (some (b0 :: r)) := rfl

theorem unmarshal_reuse (p q : VP9Packet) (i : Option Bytes) :
    (vp9Unmarshal p i).1 = (vp9Unmarshal q i).1 ∧
    ((vp9Unmarshal p i).1.isOk = true → (vp9Unmarshal p i).2 = (vp9Unmarshal q i).2) := by
  match i with
  | none => simp [vp9Unmarshal, Res.isOk]
  | some [] => simp [vp9Unmarshal, Res.isOk]
  | some (b0 :: r) => rw [unmarshal_fresh p q b0 r]; simp

theorem obsDep_ok : ∀ (is : List (Option Bytes)) (p : VP9Packet),
    C09.histOk true (C12.obsDep p is) = true := by
  intro is
  induction is with
  | nil => intro p; rfl
  | cons i is ih =>
    intro p
    have hr := unmarshal_reuse p {} i
    have hn := unmarshal_nopanic p i
    simp only [C09.histOk, C12.obsDep, List.all_cons, Bool.and_eq_true] at ih ⊢
    refine ⟨?_, ih _⟩
    generalize vp9Unmarshal p i = rp at hr hn
    generalize vp9Unmarshal {} i = rq at hr
    obtain ⟨r1, p1⟩ := rp
    obtain ⟨r2, p2⟩ := rq
    simp only at hr hn
    obtain ⟨h1, h2⟩ := hr
    subst h1
    cases r1 with
    | panic => exact absurd rfl hn
    | err e => simp [C09.callOk, Res.coarse, Res.isPanic, Res.isOk]
    | ok b => simp [C09.callOk, Res.coarse, Res.isPanic, Res.isOk, h2 rfl]

/-- SID ≥ 5 (`maxSpatialLayers`) is rejected although the draft's 3-bit field allows up to 7 -/
theorem layer_sid_limit (p : VP9Packet) (b : UInt8) (r : Bytes) (h : (b >>> 1) &&& 0x7 ≥ 5) :
    (vp9ParseLayerInfo p (b :: r)).1 = none := by
  simp [vp9ParseLayerInfo, h]

end Rtp.Proofs.VP9
