/-
  Rtp/Proofs/Leb128Go.lean — ReadLeb128 (the Go code, 64-bit accumulator) inverts WriteToLeb128
  on every value below 2^56, i.e. `LebGoSpec`.

  Shape of the argument.  ReadLeb128 first packs the raw bytes big-endian into a `uint64`
  (`packGo`), then decodeLEB128 peels that word apart from its least significant byte, which is the
  *last* byte read = the most significant base-128 digit.  `writeLeb n = b₀ :: writeLeb (n / 128)`,
  so the induction on `n` carries the bytes already packed above as a prefix word `A`:

    readLebGoLoop_writeLeb   the read loop on `writeLeb n ++ rest` stops exactly at the end of
                             `writeLeb n` with accumulator `packGo A (writeLeb n)`  (no bounds)
    decode_packGo            `decode (fuel + k) (packGo A (writeLeb n)) 0` has produced `n` after
                             `k` rounds and goes on with the prefix `A` (needs `A`,`n` to fit 64 bits)

  Kernel-only: no bv_decide, no native_decide.
-/
import Rtp.Model.Leb128
import Rtp.Proofs.Leb128
import Rtp.Go.Bits
namespace Rtp.Model
open Rtp

/-! ### length of `writeLeb` -/

theorem writeLeb_lt (n : Nat) (h : n < 128) : writeLeb n = [n.toUInt8] := by
  rw [writeLeb]; simp [h]

theorem writeLeb_ge (n : Nat) (h : 128 ≤ n) :
    writeLeb n = (n % 128 + 128).toUInt8 :: writeLeb (n / 128) := by
  rw [writeLeb]; simp [Nat.not_lt.mpr h]

theorem writeLeb_length_pos (n : Nat) : 0 < (writeLeb n).length :=
  List.length_pos_iff.mpr (writeLeb_ne_nil n)

/-- `n < 128^(k+1)` fits `k+1` bytes -/
theorem writeLeb_length_le_of_lt (k n : Nat) (h : n < 128 ^ (k + 1)) :
    (writeLeb n).length ≤ k + 1 := by
  induction k generalizing n with
  | zero => rw [writeLeb_lt n (by simpa using h)]; simp
  | succ k ih =>
    by_cases h1 : n < 128
    · rw [writeLeb_lt n h1]; simp
    · rw [writeLeb_ge n (by omega), List.length_cons]
      have : n / 128 < 128 ^ (k + 1) := by
        rw [Nat.div_lt_iff_lt_mul (by decide)]; rw [Nat.pow_succ] at h; exact h
      have := ih (n / 128) this
      omega

/-- `128^k ≤ n` needs more than `k` bytes -/
theorem writeLeb_length_gt_of_le (k n : Nat) (h : 128 ^ k ≤ n) : k < (writeLeb n).length := by
  induction k generalizing n with
  | zero => exact writeLeb_length_pos n
  | succ k ih =>
    have hk : 1 ≤ 128 ^ k := Nat.one_le_two_pow (n := 7 * k) |> fun h => by
      rwa [Nat.pow_mul] at h
    rw [Nat.pow_succ] at h
    rw [writeLeb_ge n (by omega), List.length_cons]
    have : 128 ^ k ≤ n / 128 := by
      rw [Nat.le_div_iff_mul_le (by decide)]; exact h
    have := ih (n / 128) this
    omega

/-- size classes of WriteToLeb128: exactly `k+1` bytes iff `128^k ≤ n < 128^(k+1)` (`n > 0`) -/
theorem writeLeb_length_eq_iff (k n : Nat) (hn : 0 < n) :
    (writeLeb n).length = k + 1 ↔ 128 ^ k ≤ n ∧ n < 128 ^ (k + 1) := by
  constructor
  · intro hl
    constructor
    · cases k with
      | zero => rw [Nat.pow_zero]; exact hn
      | succ k =>
        apply Nat.le_of_not_lt; intro hlt
        have := writeLeb_length_le_of_lt k n hlt
        omega
    · apply Nat.lt_of_not_le; intro hge
      have := writeLeb_length_gt_of_le (k + 1) n hge
      omega
  · intro ⟨h1, h2⟩
    have := writeLeb_length_le_of_lt k n h2
    have := writeLeb_length_gt_of_le k n h1
    omega

theorem writeLeb_length_one (n : Nat) (h : n < 128) : (writeLeb n).length = 1 := by
  rw [writeLeb_lt n h]; rfl

theorem writeLeb_length_two (n : Nat) (h1 : 128 ≤ n) (h2 : n < 16384) :
    (writeLeb n).length = 2 :=
  (writeLeb_length_eq_iff 1 n (by omega)).mpr ⟨h1, h2⟩

theorem writeLeb_length_le (n : Nat) (h : n < 2 ^ 64) : (writeLeb n).length ≤ 10 :=
  writeLeb_length_le_of_lt 9 n (Nat.lt_trans h (by decide))

theorem writeLeb_length_le_8 (n : Nat) (h : n < 2 ^ 56) : (writeLeb n).length ≤ 8 :=
  writeLeb_length_le_of_lt 7 n (Nat.lt_of_lt_of_le h (by decide))

/-! ### the flag bit of the bytes `writeLeb` emits -/

theorem u8_flag (b : UInt8) : (b &&& 0x80 == 0) = decide (b.toNat < 128) := by
  revert b; apply Bits.forall_u8; decide +kernel

theorem toUInt8_toNat (n : Nat) (h : n < 256) : n.toUInt8.toNat = n := by
  simp [Nat.toUInt8, UInt8.toNat_ofNat']; omega

/-! ### 64-bit word facts, via `toNat` -/

/-- what the accumulator of ReadLeb128 holds after the bytes `l`, starting from `A` (before its
    shift): big-endian packing -/
def packGo : UInt64 → Bytes → UInt64
  | A, [] => A
  | A, b :: l => packGo (A <<< 8 ||| b.toUInt64) l

theorem u64_push_toNat (A : UInt64) (b : UInt8) (hA : A.toNat < 2 ^ 56) :
    (A <<< 8 ||| b.toUInt64).toNat = A.toNat * 256 + b.toNat := by
  rw [UInt64.toNat_or, UInt64.toNat_shiftLeft, UInt8.toNat_toUInt64]
  have h8 : (8 : UInt64).toNat % 64 = 8 := by decide
  rw [h8, Nat.shiftLeft_eq, Nat.mod_eq_of_lt (by omega)]
  have := Bits.nat_shl_or A.toNat b.toNat 8 b.toNat_lt
  rw [Nat.shiftLeft_eq] at this
  exact this

theorem u64_push_shr (A : UInt64) (b : UInt8) (hA : A.toNat < 2 ^ 56) :
    (A <<< 8 ||| b.toUInt64) >>> 8 = A := by
  apply UInt64.toNat_inj.mp
  rw [UInt64.toNat_shiftRight, u64_push_toNat A b hA]
  have h8 : (8 : UInt64).toNat % 64 = 8 := by decide
  rw [h8, Nat.shiftRight_eq_div_pow]
  have := b.toNat_lt
  omega

theorem u64_and_7f (x : UInt64) : (x &&& 0x7f).toNat = x.toNat % 128 := by
  rw [UInt64.toNat_and]
  exact Bits.nat_and_mask x.toNat 7

theorem toUInt64_toNat (n : Nat) (h : n < 2 ^ 64) : n.toUInt64.toNat = n := by
  simp [Nat.toUInt64, UInt64.toNat_ofNat']; omega

/-- one round of decodeLEB128's output update: `(q << 7) | r = q*128 + r` -/
theorem u64_out_step (q : Nat) (x : UInt64) (hq : q < 2 ^ 57) :
    (q.toUInt64 <<< 7) ||| (x &&& 0x7f) = (q * 128 + x.toNat % 128).toUInt64 := by
  apply UInt64.toNat_inj.mp
  rw [UInt64.toNat_or, UInt64.toNat_shiftLeft, u64_and_7f, toUInt64_toNat q (by omega),
    toUInt64_toNat _ (by omega)]
  have h7 : (7 : UInt64).toNat % 64 = 7 := by decide
  rw [h7, Nat.shiftLeft_eq, Nat.mod_eq_of_lt (by omega)]
  have := Bits.nat_shl_or q (x.toNat % 128) 7 (by omega)
  rw [Nat.shiftLeft_eq] at this
  exact this

theorem u64_zero_or_and (x : UInt64) : (0 : UInt64) ||| (x &&& 0x7f) = (x.toNat % 128).toUInt64 := by
  have := u64_out_step 0 x (by decide)
  simpa using this

/-! ### the read loop stops at the end of `writeLeb n` -/

theorem readLebGoLoop_writeLeb (n : Nat) (rest : Bytes) (A : UInt64) (i : Nat) :
    readLebGoLoop (writeLeb n ++ rest) (A <<< 8) i
      = some (decodeLeb128Go 9 (packGo A (writeLeb n)) 0, i + (writeLeb n).length) := by
  induction n using Nat.strongRecOn generalizing A i with
  | _ n ih =>
    by_cases h : n < 128
    · rw [writeLeb_lt n h]
      have : (n.toUInt8 &&& 0x80 == 0) = true := by
        rw [u8_flag, toUInt8_toNat n (by omega)]; simpa using h
      simp [readLebGoLoop, this, packGo]
    · rw [writeLeb_ge n (by omega)]
      have : ((n % 128 + 128).toUInt8 &&& 0x80 == 0) = false := by
        rw [u8_flag, toUInt8_toNat _ (by omega)]; simp
      simp only [List.cons_append, readLebGoLoop, this, packGo, List.length_cons]
      rw [ih (n / 128) (by omega)]
      simp only [Bool.false_eq_true, if_false]
      congr 2
      omega

/-! ### decodeLEB128 on a packed word -/

theorem pow128_eq (k : Nat) : (128 : Nat) ^ k = 2 ^ (7 * k) := by
  rw [Nat.pow_mul]
theorem pow256_eq (k : Nat) : (256 : Nat) ^ k = 2 ^ (8 * k) := by
  rw [Nat.pow_mul]

/-- After `k = (writeLeb n).length` rounds on `packGo A (writeLeb n)` decodeLEB128 has assembled
    `n` and is left with the prefix word `A`: it returns if `A = 0` and otherwise continues with
    `n << 7`.  `j` bounds the number of bytes in `A`; at most eight bytes fit the word. -/
theorem decode_packGo (n : Nat) (A : UInt64) (j fuel : Nat)
    (hA : A.toNat < 256 ^ j) (hj : j + (writeLeb n).length ≤ 8) (hn : n < 2 ^ 56) :
    decodeLeb128Go (fuel + (writeLeb n).length) (packGo A (writeLeb n)) 0
      = if A = 0 then n.toUInt64 else decodeLeb128Go fuel A (n.toUInt64 <<< 7) := by
  induction n using Nat.strongRecOn generalizing A j fuel with
  | _ n ih =>
    have hA56 : A.toNat < 2 ^ 56 := by
      have := writeLeb_length_pos n
      apply Nat.lt_of_lt_of_le hA
      rw [pow256_eq]
      exact Nat.pow_le_pow_right (by decide) (by omega)
    by_cases h : n < 128
    · rw [writeLeb_lt n h]
      simp only [List.length_cons, List.length_nil, packGo]
      rw [show fuel + (0 + 1) = fuel + 1 from rfl, decodeLeb128Go]
      simp only [u64_push_shr A _ hA56, u64_zero_or_and, u64_push_toNat A _ hA56,
        toUInt8_toNat n (by omega)]
      have : (A.toNat * 256 + n) % 128 = n := by omega
      rw [this]
      simp
    · have hlen : (writeLeb n).length = (writeLeb (n / 128)).length + 1 := by
        rw [writeLeb_ge n (by omega), List.length_cons]
      rw [hlen] at hj
      rw [writeLeb_ge n (by omega)]
      simp only [List.length_cons, packGo]
      have hb : (n % 128 + 128).toUInt8.toNat = n % 128 + 128 := toUInt8_toNat _ (by omega)
      have hA' : (A <<< 8 ||| (n % 128 + 128).toUInt8.toUInt64).toNat
          = A.toNat * 256 + (n % 128 + 128) := by
        rw [u64_push_toNat A _ hA56, hb]
      have hA'lt : (A <<< 8 ||| (n % 128 + 128).toUInt8.toUInt64).toNat < 256 ^ (j + 1) := by
        rw [hA', Nat.pow_succ]; omega
      have hne : ¬ (A <<< 8 ||| (n % 128 + 128).toUInt8.toUInt64) = 0 := by
        intro h0
        have := congrArg UInt64.toNat h0
        rw [hA'] at this
        simp at this
      rw [show fuel + ((writeLeb (n / 128)).length + 1) = (fuel + 1) + (writeLeb (n / 128)).length
        by omega]
      rw [ih (n / 128) (by omega) _ (j + 1) (fuel + 1) hA'lt (by omega) (by omega)]
      rw [if_neg hne, decodeLeb128Go]
      simp only [u64_push_shr A _ hA56, u64_out_step (n / 128) _ (by omega), hA']
      have : n / 128 * 128 + (A.toNat * 256 + (n % 128 + 128)) % 128 = n := by omega
      rw [this]
      simp

/-- ReadLeb128 inverts WriteToLeb128 on values below 2^56, whatever follows. -/
theorem readLebGo_writeLeb : LebGoSpec := by
  intro n rest hn
  have hlen := writeLeb_length_le_8 n hn
  have h0 : (0 : UInt64) = (0 : UInt64) <<< 8 := by decide
  rw [readLebGo, h0, readLebGoLoop_writeLeb n rest 0 0]
  have h9 : 9 = (9 - (writeLeb n).length) + (writeLeb n).length := by omega
  rw [h9, decode_packGo n 0 0 _ (by decide) (by omega) hn]
  simp

/-! ### failure and bounds of the read loop, on arbitrary input -/

theorem readLebGoLoop_none_of_all_cont (l : Bytes) (acc : UInt64) (i : Nat)
    (h : ∀ b ∈ l, 128 ≤ b.toNat) : readLebGoLoop l acc i = none := by
  induction l generalizing acc i with
  | nil => rfl
  | cons b l ih =>
    have hb : (b &&& 0x80 == 0) = false := by
      rw [u8_flag]; simpa using h b (by simp)
    simp only [readLebGoLoop, hb, Bool.false_eq_true, if_false]
    exact ih _ _ (fun c hc => h c (by simp [hc]))

/-- input that ends before a terminating byte (top bit clear) is rejected -/
theorem readLebGo_none_of_all_cont (l : Bytes) (h : ∀ b ∈ l, 128 ≤ b.toNat) :
    readLebGo l = none :=
  readLebGoLoop_none_of_all_cont l 0 0 h

/-- the same with the flag written as in the Go source -/
theorem readLebGo_none_of_all_cont' (l : Bytes) (h : ∀ b ∈ l, b &&& 0x80 ≠ 0) :
    readLebGo l = none := by
  apply readLebGo_none_of_all_cont
  intro b hb
  have := h b hb
  have hf := u8_flag b
  apply Nat.le_of_not_lt; intro hlt
  rw [decide_eq_true hlt] at hf
  exact this (by simpa using hf)

theorem readLebGoLoop_le_length (l : Bytes) (acc : UInt64) (i : Nat) (v : UInt64) (k : Nat)
    (h : readLebGoLoop l acc i = some (v, k)) : i < k ∧ k ≤ i + l.length := by
  induction l generalizing acc i with
  | nil => simp [readLebGoLoop] at h
  | cons b l ih =>
    simp only [readLebGoLoop] at h
    split at h
    · simp only [Option.some.injEq, Prod.mk.injEq] at h
      simp only [List.length_cons]; omega
    · have := ih _ _ h
      simp only [List.length_cons]; omega

/-- ReadLeb128 consumes at least one byte and never more than the input holds -/
theorem readLebGo_le_length (l : Bytes) (v : UInt64) (k : Nat)
    (h : readLebGo l = some (v, k)) : 0 < k ∧ k ≤ l.length := by
  have := readLebGoLoop_le_length l 0 0 v k h
  omega

/-- the byte that stops ReadLeb128 is the `k`-th one, and it is the first with the top bit clear -/
theorem readLebGoLoop_stop (l : Bytes) (acc : UInt64) (i : Nat) (v : UInt64) (k : Nat)
    (h : readLebGoLoop l acc i = some (v, k)) :
    ∃ pre b post, l = pre ++ b :: post ∧ i + pre.length + 1 = k ∧ b.toNat < 128 ∧
      ∀ c ∈ pre, 128 ≤ c.toNat := by
  induction l generalizing acc i with
  | nil => simp [readLebGoLoop] at h
  | cons b l ih =>
    simp only [readLebGoLoop] at h
    split at h
    · rename_i hb
      simp only [Option.some.injEq, Prod.mk.injEq] at h
      rw [u8_flag] at hb
      exact ⟨[], b, l, rfl, by simp; omega, by simpa using hb, by simp⟩
    · rename_i hb
      rw [u8_flag] at hb
      obtain ⟨pre, c, post, rfl, hk, hc, hpre⟩ := ih _ _ h
      refine ⟨b :: pre, c, post, rfl, by simp only [List.length_cons]; omega, hc, ?_⟩
      intro d hd
      rcases List.mem_cons.mp hd with rfl | hd
      · simpa using hb
      · exact hpre d hd

/-! ### the bound 2^56 in `LebGoSpec` is sharp

    `writeLeb (2^56)` is nine bytes; the first one (the least significant group) is shifted out of
    the 64-bit accumulator, so ReadLeb128 reports 2^49 (and still "9 bytes read"). -/
theorem readLebGo_writeLeb_2_56 : readLebGo (writeLeb (2 ^ 56)) = some ((2 ^ 49 : Nat).toUInt64, 9) := by
  decide +kernel

/-! ### agreement with the specification on arbitrary (also non-canonical) input

    Whenever the LEB128 value occupies at most eight bytes, ReadLeb128 returns what the
    specification says — padded encodings such as `[0x80, 0x00]` included. -/

theorem readLebSpec_cons_lt (b : UInt8) (rest : Bytes) (h : b.toNat < 128) :
    readLebSpec (b :: rest) = some (b.toNat, 1) := by
  simp [readLebSpec, h]

theorem readLebSpec_cons_ge (b : UInt8) (rest : Bytes) (h : 128 ≤ b.toNat) (v k : Nat)
    (hs : readLebSpec (b :: rest) = some (v, k)) :
    ∃ v' k', readLebSpec rest = some (v', k') ∧ v = b.toNat % 128 + 128 * v' ∧ k = k' + 1 := by
  rw [readLebSpec, if_neg (by omega)] at hs
  split at hs
  · simp at hs
  · rename_i v' k' heq
    simp only [Option.some.injEq, Prod.mk.injEq] at hs
    exact ⟨v', k', heq, hs.1.symm, hs.2.symm⟩

theorem readLebSpec_bounds (l : Bytes) (v k : Nat) (hs : readLebSpec l = some (v, k)) :
    0 < k ∧ k ≤ l.length ∧ v < 128 ^ k := by
  induction l generalizing v k with
  | nil => simp [readLebSpec] at hs
  | cons b rest ih =>
    by_cases hb : b.toNat < 128
    · rw [readLebSpec_cons_lt b rest hb] at hs
      simp only [Option.some.injEq, Prod.mk.injEq] at hs
      obtain ⟨rfl, rfl⟩ := hs
      simp only [List.length_cons]; omega
    · obtain ⟨v', k', hs', rfl, rfl⟩ := readLebSpec_cons_ge b rest (by omega) v k hs
      have := ih v' k' hs'
      simp only [List.length_cons, Nat.pow_succ]; omega

theorem readLebGoLoop_of_spec (l : Bytes) (v k : Nat) (hs : readLebSpec l = some (v, k))
    (A : UInt64) (i : Nat) :
    readLebGoLoop l (A <<< 8) i = some (decodeLeb128Go 9 (packGo A (l.take k)) 0, i + k) := by
  induction l generalizing v k A i with
  | nil => simp [readLebSpec] at hs
  | cons b rest ih =>
    by_cases hb : b.toNat < 128
    · rw [readLebSpec_cons_lt b rest hb] at hs
      simp only [Option.some.injEq, Prod.mk.injEq] at hs
      obtain ⟨rfl, rfl⟩ := hs
      have : (b &&& 0x80 == 0) = true := by rw [u8_flag]; simpa using hb
      simp [readLebGoLoop, this, packGo]
    · obtain ⟨v', k', hs', rfl, rfl⟩ := readLebSpec_cons_ge b rest (by omega) v k hs
      have : (b &&& 0x80 == 0) = false := by rw [u8_flag]; simpa using hb
      simp only [readLebGoLoop, this, Bool.false_eq_true, if_false, List.take_succ_cons, packGo]
      rw [ih v' k' hs']
      congr 2
      omega

theorem decode_packGo_of_spec (l : Bytes) (v k : Nat) (hs : readLebSpec l = some (v, k))
    (A : UInt64) (j fuel : Nat) (hA : A.toNat < 256 ^ j) (hj : j + k ≤ 8) :
    decodeLeb128Go (fuel + k) (packGo A (l.take k)) 0
      = if A = 0 then v.toUInt64 else decodeLeb128Go fuel A (v.toUInt64 <<< 7) := by
  induction l generalizing v k A j fuel with
  | nil => simp [readLebSpec] at hs
  | cons b rest ih =>
    have hA56 : A.toNat < 2 ^ 56 := by
      have := (readLebSpec_bounds _ v k hs).1
      apply Nat.lt_of_lt_of_le hA
      rw [pow256_eq]
      exact Nat.pow_le_pow_right (by decide) (by omega)
    by_cases hb : b.toNat < 128
    · rw [readLebSpec_cons_lt b rest hb] at hs
      simp only [Option.some.injEq, Prod.mk.injEq] at hs
      obtain ⟨rfl, rfl⟩ := hs
      simp only [List.take_succ_cons, List.take_zero, packGo]
      rw [decodeLeb128Go]
      simp only [u64_push_shr A _ hA56, u64_zero_or_and, u64_push_toNat A _ hA56]
      have : (A.toNat * 256 + b.toNat) % 128 = b.toNat := by omega
      rw [this]
      simp
    · obtain ⟨v', k', hs', rfl, rfl⟩ := readLebSpec_cons_ge b rest (by omega) v k hs
      have hv' : v' < 2 ^ 49 := by
        have := (readLebSpec_bounds _ v' k' hs').2.2
        apply Nat.lt_of_lt_of_le this
        rw [pow128_eq]
        exact Nat.pow_le_pow_right (by decide) (by omega)
      simp only [List.take_succ_cons, packGo]
      have hb8 := b.toNat_lt
      have hA' : (A <<< 8 ||| b.toUInt64).toNat = A.toNat * 256 + b.toNat :=
        u64_push_toNat A _ hA56
      have hA'lt : (A <<< 8 ||| b.toUInt64).toNat < 256 ^ (j + 1) := by
        rw [hA', Nat.pow_succ]; omega
      have hne : ¬ (A <<< 8 ||| b.toUInt64) = 0 := by
        intro h0
        have := congrArg UInt64.toNat h0
        rw [hA'] at this
        simp at this
        omega
      rw [show fuel + (k' + 1) = (fuel + 1) + k' by omega]
      rw [ih v' k' hs' _ (j + 1) (fuel + 1) hA'lt (by omega)]
      rw [if_neg hne, decodeLeb128Go]
      simp only [u64_push_shr A _ hA56, u64_out_step v' _ (by omega), hA']
      have : v' * 128 + (A.toNat * 256 + b.toNat) % 128 = b.toNat % 128 + 128 * v' := by omega
      rw [this]
      simp

/-- ReadLeb128 = LEB128 on every input whose value ends within the first eight bytes -/
theorem readLebGo_eq_spec (l : Bytes) (v k : Nat) (hs : readLebSpec l = some (v, k))
    (hk : k ≤ 8) : readLebGo l = some (v.toUInt64, k) := by
  have h0 : (0 : UInt64) = (0 : UInt64) <<< 8 := by decide
  rw [readLebGo, h0, readLebGoLoop_of_spec l v k hs 0 0]
  have h9 : 9 = (9 - k) + k := by omega
  rw [h9, decode_packGo_of_spec l v k hs 0 0 _ (by decide) (by omega)]
  simp

/-- success/failure and the byte count agree with the specification on *every* input; only the
    value can differ, and only beyond eight bytes -/
theorem readLebGo_count_eq_spec (l : Bytes) :
    (readLebGo l).map Prod.snd = (readLebSpec l).map Prod.snd := by
  cases hs : readLebSpec l with
  | none =>
    have : ∀ (l : Bytes) (acc : UInt64) (i : Nat), readLebSpec l = none →
        readLebGoLoop l acc i = none := by
      intro l
      induction l with
      | nil => intros; rfl
      | cons b rest ih =>
        intro acc i h
        by_cases hb : b.toNat < 128
        · rw [readLebSpec_cons_lt b rest hb] at h; simp at h
        · have hf : (b &&& 0x80 == 0) = false := by rw [u8_flag]; simpa using hb
          simp only [readLebGoLoop, hf, Bool.false_eq_true, if_false]
          apply ih
          rw [readLebSpec, if_neg hb] at h
          split at h
          · assumption
          · simp at h
    simp [readLebGo, this l 0 0 hs]
  | some p =>
    obtain ⟨v, k⟩ := p
    have := readLebGoLoop_of_spec l v k hs 0 0
    have h0 : (0 : UInt64) <<< 8 = (0 : UInt64) := by decide
    rw [h0] at this
    simp [readLebGo, this]

end Rtp.Model
