/-
  Rtp/Proofs/H264Size.lean — size bounds of the H264 payloader model: every fragment is non-empty
  and at most MTU bytes long, whatever the input, the options and the pending state.
-/
import Rtp.Proofs.H264Basic
namespace Rtp.Proofs.H264
open Rtp Rtp.Model Rtp.Model.H264

/-- `1 ≤ |f| ≤ mtu` for every fragment of a list -/
def Bounded (mtu : Nat) (fs : List Bytes) : Prop := ∀ f ∈ fs, 1 ≤ f.length ∧ f.length ≤ mtu

theorem Bounded.nil (mtu : Nat) : Bounded mtu [] := by intro f hf; simp at hf

theorem Bounded.append {mtu : Nat} {a b : List Bytes} (ha : Bounded mtu a) (hb : Bounded mtu b) :
    Bounded mtu (a ++ b) := by
  intro f hf
  rcases List.mem_append.mp hf with h | h
  · exact ha f h
  · exact hb f h

theorem Bounded.flatMap {mtu : Nat} {α} (l : List α) (g : α → List Bytes)
    (h : ∀ a ∈ l, Bounded mtu (g a)) : Bounded mtu (l.flatMap g) := by
  intro f hf
  obtain ⟨a, ha, hfa⟩ := List.mem_flatMap.mp hf
  exact h a ha f hfa

theorem fuaLoop_len (k : Nat) (ind typ : UInt8) (first : Bool) (rem : Bytes) :
    ∀ f ∈ fuaLoop k ind typ first rem, 2 ≤ f.length ∧ f.length ≤ k + 2 := by
  fun_induction fuaLoop k ind typ first rem with
  | case1 first rem h => intro f hf; simp at hf
  | case2 first rem h hdr ih =>
    intro f hf
    rcases List.mem_cons.mp hf with rfl | hf
    · simp [List.length_take]; omega
    · exact ih f hf

theorem singleOrFua_bounded (mtu : Nat) (nalu : Bytes) : Bounded mtu (singleOrFua mtu nalu) := by
  unfold singleOrFua
  split
  · exact Bounded.nil _
  · rename_i b body
    split
    · rename_i h
      intro f hf
      simp at hf
      subst hf
      simp at h ⊢
      omega
    · dsimp only
      split
      · exact Bounded.nil _
      · rename_i h1 h2
        intro f hf
        have := fuaLoop_len _ _ _ _ _ f hf
        omega

theorem stepNoStap_bounded (mtu : Nat) (nalu : Bytes) : Bounded mtu (stepNoStap mtu nalu) := by
  unfold stepNoStap
  split
  · exact Bounded.nil _
  · dsimp only
    split
    · exact Bounded.nil _
    · exact singleOrFua_bounded _ _

theorem payloadNoStap_bounded (mtu : Nat) (p : Bytes) : Bounded mtu (payloadNoStap mtu p) := by
  unfold payloadNoStap
  split
  · exact Bounded.nil _
  · exact Bounded.flatMap _ _ (fun a _ => stepNoStap_bounded mtu a)

theorem stapA_length_pos (s p : Bytes) : 1 ≤ (stapA s p).length := by
  simp [stapA]

theorem step_bounded (disable : Bool) (mtu : Nat) (st : PayState) (nalu : Bytes) :
    Bounded mtu (step disable mtu st nalu).1 := by
  unfold step
  split
  · exact Bounded.nil _
  · dsimp only
    split
    · exact Bounded.nil _
    · split
      · split
        · exact Bounded.nil _
        · (dsimp only; exact singleOrFua_bounded mtu _)
      · split
        · split
          · exact Bounded.nil _
          · (dsimp only; exact singleOrFua_bounded mtu _)
        · split
          · rename_i s p _ _
            apply Bounded.append _ (singleOrFua_bounded _ _)
            split
            · rename_i h
              intro f hf
              simp at hf
              subst hf
              exact ⟨stapA_length_pos s p, h⟩
            · exact Bounded.append (payloadNoStap_bounded _ _) (payloadNoStap_bounded _ _)
          · (dsimp only; exact singleOrFua_bounded mtu _)

theorem steps_bounded (disable : Bool) (mtu : Nat) (st : PayState) (ns : List Bytes) :
    Bounded mtu (steps disable mtu st ns).1 := by
  induction ns generalizing st with
  | nil => exact Bounded.nil _
  | cons n ns ih =>
    simp only [steps]
    exact Bounded.append (step_bounded _ _ _ _) (ih _)

theorem payload_bounded (disable : Bool) (mtu : UInt16) (st : PayState) (input : Bytes) :
    Bounded mtu.toNat (payload disable mtu st input).1 := by
  unfold payload
  split
  · exact Bounded.nil _
  · exact steps_bounded _ _ _ _

end Rtp.Proofs.H264
