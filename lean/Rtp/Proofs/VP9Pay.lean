/-
  Rtp/Proofs/VP9Pay.lean — lemmas about VP9Payloader: fragment sizes in every state (C08), and the
  round trip through VP9Packet (C12).
-/
import Rtp.Proofs.VP9
import Rtp.Proofs.VP8Pay
namespace Rtp.Proofs.VP9
open Rtp Rtp.Model Rtp.Bits Rtp.Pred
open Rtp.Proofs.VP8 (chunks_mem chunks_flatten chunks_ne_nil)

/-! ### C08: sizes -/

theorem flexFrags_mem (pid : UInt16) : ∀ (cs : List Bytes) (first : Bool),
    ∀ f ∈ vp9FlexFrags pid first cs, ∃ c ∈ cs, f.length = 3 + c.length := by
  intro cs
  induction cs with
  | nil => intro first f hf; simp [vp9FlexFrags] at hf
  | cons c cs ih =>
    intro first f hf
    simp only [vp9FlexFrags, List.mem_cons] at hf
    rcases hf with rfl | hf
    · exact ⟨c, List.mem_cons_self, by simp [vp9Hdr3]; omega⟩
    · obtain ⟨c', hc', hl⟩ := ih false f hf
      exact ⟨c', List.mem_cons_of_mem _ hc', hl⟩

theorem flexible_frag (pid : UInt16) (mtu : Nat) (payload : Bytes) :
    ∀ f ∈ vp9PayloadFlexible pid mtu payload, f.length ≤ mtu ∧ f ≠ [] := by
  intro f hf
  unfold vp9PayloadFlexible at hf
  split at hf
  · simp at hf
  · rename_i hc
    simp only [Bool.or_eq_true, decide_eq_true_eq, not_or, Nat.not_le] at hc
    obtain ⟨c, hc', hl⟩ := flexFrags_mem pid _ true f hf
    have := (chunks_mem (mtu - 3) (by omega) payload c hc').2
    constructor
    · omega
    · intro h; rw [h] at hl; simp at hl; omega

theorem nonFlexLoop_frag (pid : UInt16) (mtu : Nat) (nonKey : Bool) (w h : UInt16) :
    ∀ (fuel : Nat) (first : Bool) (rem : Bytes) (res : List Bytes),
      vp9NonFlexLoop pid mtu nonKey w h fuel first rem = some res →
      ∀ f ∈ res, f.length ≤ mtu ∧ f ≠ [] := by
  intro fuel
  induction fuel with
  | zero =>
    intro first rem res hres f hf
    simp [vp9NonFlexLoop] at hres
    subst hres; simp at hf
  | succ n ih =>
    intro first rem res hres f hf
    by_cases he : rem.isEmpty = true
    · simp only [vp9NonFlexLoop, he, if_true, Option.some.injEq] at hres
      subst hres; simp at hf
    · by_cases hm : mtu ≤ (if (!nonKey && first) = true then 11 else 3)
      · simp only [vp9NonFlexLoop, he, hm, if_true, Bool.false_eq_true, if_false] at hres
        exact absurd hres (by simp)
      · simp only [vp9NonFlexLoop, he, hm, Bool.false_eq_true, if_false] at hres
        cases hl : vp9NonFlexLoop pid mtu nonKey w h n false
            (rem.drop (min (mtu - (if (!nonKey && first) = true then 11 else 3)) rem.length)) with
        | none => rw [hl] at hres; exact absurd hres (by simp)
        | some rest =>
          rw [hl] at hres
          simp only [Option.some.injEq] at hres
          subst hres
          simp only [List.mem_cons] at hf
          rcases hf with rfl | hf
          · constructor
            · simp only [List.length_append, vp9Hdr3, List.length_cons, List.length_nil, List.length_take]
              cases hss : (!nonKey && first) <;> simp_all [vp9SS] <;> omega
            · simp [vp9Hdr3]
          · exact ih false _ rest hl f hf

theorem nonFlexible_frag (pid : UInt16) (mtu : Nat) (payload : Bytes) :
    ∀ f ∈ vp9PayloadNonFlexible pid mtu payload, f.length ≤ mtu ∧ f ≠ [] := by
  intro f hf
  unfold vp9PayloadNonFlexible at hf
  split at hf
  · rename_i hd _
    cases hl : vp9NonFlexLoop pid mtu hd.NonKeyFrame hd.width hd.height payload.length true payload with
    | none => simp [hl] at hf
    | some res =>
      simp only [hl, Option.getD_some] at hf
      exact nonFlexLoop_frag pid mtu _ _ _ _ _ _ res hl f hf
  · simp at hf

theorem payload_fst (st : VP9Pay) (mtu : UInt16) (i : Option Bytes) :
    (vp9Payload st mtu i).1 =
      if st.flexible then
        vp9PayloadFlexible (if st.initialized then st.pictureID else st.init &&& 0x7FFF) mtu.toNat (i.getD [])
      else
        vp9PayloadNonFlexible (if st.initialized then st.pictureID else st.init &&& 0x7FFF) mtu.toNat (i.getD []) := by
  unfold vp9Payload
  cases st.initialized <;> rfl

/-- every fragment of every call, in every state and mode: at most MTU bytes and not empty -/
theorem payload_frag (st : VP9Pay) (mtu : UInt16) (i : Option Bytes) :
    ∀ f ∈ (vp9Payload st mtu i).1, f.length ≤ mtu.toNat ∧ f ≠ [] := by
  intro f hf
  rw [payload_fst] at hf
  split at hf
  · exact flexible_frag _ _ _ f hf
  · exact nonFlexible_frag _ _ _ f hf

theorem histOk_vp9 : ∀ (calls : List (UInt16 × Option Bytes)) (st : VP9Pay),
    C08.histOk false calls ((vp9PayloadHist st calls).map PayObs.ofFrags) = true := by
  intro calls
  induction calls with
  | nil => intro st; rfl
  | cons call cs ih =>
    intro st
    obtain ⟨m, i⟩ := call
    simp only [vp9PayloadHist, List.map_cons, C08.histOk, ih, Bool.and_true]
    have h := payload_frag st m i
    simp only [C08.callOk, PayObs.ofFrags, PayObs.owned, Bool.not_false, Bool.true_and, Bool.and_true,
      Bool.false_or, Bool.and_eq_true, List.all_eq_true, decide_eq_true_eq, Bool.or_eq_true,
      Bool.not_eq_true', List.isEmpty_eq_false_iff]
    exact ⟨fun f hf => (h f hf).1, Or.inr fun f hf => (h f hf).2⟩

/-! ### C12: the payloader's descriptors are encodings of the payload-descriptor grammar -/

open Rtp.Spec.Vp9Rtp in
/-- the descriptor VP9Payloader puts on a packet: I with the 15-bit id, P (non-flexible non-key
    frames), F (flexible mode), B, E, Z (non-flexible mode) and, on the first packet of a
    non-flexible key frame, the one-layer scalability structure with the coded size -/
def payDesc (flex nonKey first last withSS : Bool) (pid w h : UInt16) : Descriptor :=
  { p := !flex && nonKey, f := flex, b := first, e := last, z := !flex, picId := some (true, pid),
    ss := if withSS then
        some { ns := 0, res := some [(w, h)], pg := some [{ tid := 0, u := true, pdiffs := [1] }] }
      else none }

theorem payDesc_wf (flex nonKey first last withSS : Bool) (pid w h : UInt16) (hp : pid < 32768) :
    (payDesc flex nonKey first last withSS pid w h).WF 5 = true := by
  cases flex <;> cases nonKey <;> cases withSS <;>
    simp [payDesc, Spec.Vp9Rtp.Descriptor.WF, Spec.Vp9Rtp.SS.WF, Spec.Vp9Rtp.PG.WF, hp]

theorem and255 : ∀ x : UInt8, x &&& 255 = x := by
  apply forall_u8; decide +kernel

theorem flex_hdr (first last : Bool) (pid : UInt16) :
    vp9Hdr3 ((0x90 : UInt8) ||| (if first then 0x08 else 0) ||| (if last then 0x04 else 0)) pid =
      (payDesc true false first last false pid 0 0).encode := by
  cases first <;> cases last <;>
    simp [vp9Hdr3, payDesc, Spec.Vp9Rtp.Descriptor.encode, Spec.Vp9Rtp.bit, Spec.Vp9Rtp.encPicId,
      Spec.Vp9Rtp.encLayer, Spec.Vp9Rtp.encSS, UInt8.or_comm] <;> decide

theorem nonflex_hdr (nonKey first last withSS : Bool) (pid w h : UInt16) :
    vp9Hdr3 ((0x81 : UInt8) ||| (if nonKey then 0x40 else 0) ||| (if first then 0x08 else 0) |||
        (if last then 0x04 else 0) ||| (if withSS then 0x02 else 0)) pid ++
      (if withSS then vp9SS w h else []) =
      (payDesc false nonKey first last withSS pid w h).encode := by
  cases nonKey <;> cases first <;> cases last <;> cases withSS <;>
    simp [vp9Hdr3, vp9SS, payDesc, Spec.Vp9Rtp.Descriptor.encode, Spec.Vp9Rtp.bit, Spec.Vp9Rtp.encPicId,
      Spec.Vp9Rtp.encLayer, Spec.Vp9Rtp.encSS, Spec.Vp9Rtp.encRes, Spec.Vp9Rtp.encPGs, Spec.Vp9Rtp.encPG,
      UInt8.or_comm, VP8.low8, and255] <;> decide

/-- what one receiver reports for a packet with descriptor `payDesc …` carrying chunk `c` -/
def fragObsOf (flex nonKey first last withSS : Bool) (pid w h : UInt16) (c : Bytes) : C12.FragObs :=
  { bytes := (payDesc flex nonKey first last withSS pid w h).encode ++ c, res := .ok c,
    md := C12.expected (payDesc flex nonKey first last withSS pid w h), head := first }

theorem obs_one (flex nonKey first last withSS : Bool) (pid w h : UInt16) (hp : pid < 32768)
    (c : Bytes) (fs : List Bytes) (p : VP9Packet) :
    C12.obsFrags p (((payDesc flex nonKey first last withSS pid w h).encode ++ c) :: fs) =
      (fragObsOf flex nonKey first last withSS pid w h c ::
        (C12.obsFrags (C12.expected (payDesc flex nonKey first last withSS pid w h)) fs).1,
       (C12.obsFrags (C12.expected (payDesc flex nonKey first last withSS pid w h)) fs).2) := by
  simp only [C12.obsFrags, unmarshal_encode _ (payDesc_wf flex nonKey first last withSS pid w h hp),
    head_encode, Res.coarse]
  rfl

theorem mbit (pid : UInt16) : ((((0x80 : UInt8) ||| (pid >>> 8).toUInt8) &&& 0x80) != 0) = true :=
  VP8.mbit15 _

theorem fragOk_of (flex nonKey first last withSS : Bool) (pid : Nat) (w h : UInt16) (c : Bytes)
    (hp : pid < 32768) (info : Option (Bool × UInt16 × UInt16))
    (hinfo : flex = false → ∀ nk w' h', info = some (nk, w', h') → nk = nonKey) :
    C12.fragOk flex pid info (fragObsOf flex nonKey first last withSS pid.toUInt16 w h c) = true := by
  have htn : (pid.toUInt16).toNat = pid := by
    simp only [Nat.toUInt16, UInt16.toNat_ofNat']; omega
  cases flex
  · rcases info with _ | ⟨nk, w', h'⟩
    · simp [C12.fragOk, fragObsOf, C12.expected, payDesc, Res.isOk, htn, Spec.Vp9Rtp.Descriptor.encode,
        Spec.Vp9Rtp.encPicId, mbit]
    · have := hinfo rfl nk w' h' rfl
      subst this
      simp [C12.fragOk, fragObsOf, C12.expected, payDesc, Res.isOk, htn, Spec.Vp9Rtp.Descriptor.encode,
        Spec.Vp9Rtp.encPicId, mbit]
  · simp [C12.fragOk, fragObsOf, C12.expected, payDesc, Res.isOk, htn, Spec.Vp9Rtp.Descriptor.encode,
      Spec.Vp9Rtp.encPicId, mbit]

/-! ### flexible mode -/

/-- what the receiver reports for the fragments of the chunk list `cs` -/
def flexObs (pid : UInt16) : Bool → List Bytes → List C12.FragObs
  | _, [] => []
  | first, c :: cs => fragObsOf true false first cs.isEmpty false pid 0 0 c :: flexObs pid false cs

theorem flex_obsFrags (pid : UInt16) (hp : pid < 32768) : ∀ (cs : List Bytes) (first : Bool) (p : VP9Packet),
    (C12.obsFrags p (vp9FlexFrags pid first cs)).1 = flexObs pid first cs := by
  intro cs
  induction cs with
  | nil => intro first p; rfl
  | cons c cs ih =>
    intro first p
    simp only [vp9FlexFrags, flex_hdr, obs_one true false first cs.isEmpty false pid 0 0 hp, flexObs, ih]

theorem flexObs_props (pid : Nat) (hp : pid < 32768) (info : Option (Bool × UInt16 × UInt16)) :
    ∀ (cs : List Bytes) (first : Bool),
      (flexObs pid.toUInt16 first cs).all (C12.fragOk true pid info) = true ∧
      C12.marks first (flexObs pid.toUInt16 first cs) = true ∧
      ((flexObs pid.toUInt16 first cs).map C12.fragPayload).flatten = cs.flatten ∧
      ((flexObs pid.toUInt16 first cs).isEmpty = cs.isEmpty) := by
  intro cs
  induction cs with
  | nil => intro first; simp [flexObs, C12.marks]
  | cons c cs ih =>
    intro first
    obtain ⟨h1, h2, h3, h4⟩ := ih false
    refine ⟨?_, ?_, ?_, by simp [flexObs]⟩
    · simp only [flexObs, List.all_cons, h1, Bool.and_true]
      exact fragOk_of true false first cs.isEmpty false pid 0 0 c hp info (fun h => by cases h)
    · simp only [flexObs, C12.marks, h2, Bool.and_true, h4]
      simp [fragObsOf, C12.expected, payDesc]
    · simp only [flexObs, List.map_cons, List.flatten_cons, h3]
      rfl

theorem flex_frameOk (pid : Nat) (hp : pid < 32768) (info : Option (Bool × UInt16 × UInt16))
    (mtu : Nat) (frame : Bytes) (hm : 3 < mtu) (hf : frame ≠ []) (p : VP9Packet) :
    C12.frameOk true pid info frame
      (C12.obsFrags p (vp9PayloadFlexible pid.toUInt16 mtu frame)).1 = true := by
  have hpl : pid.toUInt16 < 32768 := by
    rw [UInt16.lt_iff_toNat_lt]
    simp only [Nat.toUInt16, UInt16.toNat_ofNat', UInt16.reduceToNat]; omega
  have hk : 0 < mtu - 3 := by omega
  have hne : frame.isEmpty = false := by
    cases frame with
    | nil => exact absurd rfl hf
    | cons _ _ => rfl
  have hm' : ¬ (mtu ≤ 3) := by omega
  simp only [vp9PayloadFlexible, hm', decide_false, hne, Bool.or_self, Bool.false_eq_true, if_false]
  rw [flex_obsFrags _ hpl]
  obtain ⟨h1, h2, h3, h4⟩ := flexObs_props pid hp info (vpxChunks (mtu - 3) frame) true
  have hcne : (vpxChunks (mtu - 3) frame).isEmpty = false := by
    have := chunks_ne_nil (mtu - 3) hk frame hf
    cases hc : vpxChunks (mtu - 3) frame with
    | nil => exact absurd hc this
    | cons _ _ => rfl
  simp only [C12.frameOk, h4, hcne, Bool.not_false, h1, h2, h3, chunks_flatten _ hk, beq_self_eq_true,
    Bool.true_and, Bool.true_or]

/-! ### non-flexible mode -/

/-- what the receiver reports for the fragments produced by the non-flexible loop -/
def nfObs (pid : UInt16) (mtu : Nat) (nonKey : Bool) (w h : UInt16) : Nat → Bool → Bytes → List C12.FragObs
  | 0, _, _ => []
  | fuel + 1, first, rem =>
    if rem.isEmpty then [] else
    let withSS := !nonKey && first
    let cur := min (mtu - (if withSS then 11 else 3)) rem.length
    fragObsOf false nonKey first (rem.length == cur) withSS pid w h (rem.take cur) ::
      nfObs pid mtu nonKey w h fuel false (rem.drop cur)

theorem nf_loop (pid : UInt16) (hp : pid < 32768) (mtu : Nat) (nonKey : Bool) (w h : UInt16) (h3 : 3 < mtu) :
    ∀ (fuel : Nat) (first : Bool) (rem : Bytes) (p : VP9Packet),
      (if (!nonKey && first) = true then 11 else 3) < mtu →
      ∃ res, vp9NonFlexLoop pid mtu nonKey w h fuel first rem = some res ∧
        (C12.obsFrags p res).1 = nfObs pid mtu nonKey w h fuel first rem := by
  intro fuel
  induction fuel with
  | zero => intro first rem p _; exact ⟨[], rfl, rfl⟩
  | succ n ih =>
    intro first rem p hm
    by_cases he : rem.isEmpty = true
    · exact ⟨[], by simp [vp9NonFlexLoop, he], by simp [nfObs, he, C12.obsFrags]⟩
    · have hm' : ¬ (mtu ≤ (if (!nonKey && first) = true then 11 else 3)) := by omega
      generalize hcur : min (mtu - (if (!nonKey && first) = true then 11 else 3)) rem.length = cur
      obtain ⟨rest, hrest, hobs⟩ := ih false (rem.drop cur)
        (C12.expected (payDesc false nonKey first (rem.length == cur) (!nonKey && first) pid w h))
        (by simpa using h3)
      refine ⟨((vp9Hdr3 ((0x81 : UInt8) ||| (if nonKey then 0x40 else 0) ||| (if first then 0x08 else 0) |||
          (if (rem.length == cur) then 0x04 else 0) ||| (if (!nonKey && first) then 0x02 else 0)) pid ++
          (if (!nonKey && first) then vp9SS w h else [])) ++ rem.take cur) :: rest, ?_, ?_⟩
      · simp only [vp9NonFlexLoop, he, hm', Bool.false_eq_true, if_false, hcur, hrest]
      · simp only [nfObs, he, Bool.false_eq_true, if_false, hcur]
        rw [nonflex_hdr, obs_one false nonKey first _ _ pid w h hp, hobs]

theorem nfObs_props (pid : Nat) (hp : pid < 32768) (mtu : Nat) (nonKey : Bool) (w h : UInt16) (h3 : 3 < mtu)
    (info : Option (Bool × UInt16 × UInt16))
    (hinfo : ∀ nk w' h', info = some (nk, w', h') → nk = nonKey) :
    ∀ (fuel : Nat) (first : Bool) (rem : Bytes), rem.length ≤ fuel →
      (if (!nonKey && first) = true then 11 else 3) < mtu →
      (nfObs pid.toUInt16 mtu nonKey w h fuel first rem).all (C12.fragOk false pid info) = true ∧
      C12.marks first (nfObs pid.toUInt16 mtu nonKey w h fuel first rem) = true ∧
      ((nfObs pid.toUInt16 mtu nonKey w h fuel first rem).map C12.fragPayload).flatten = rem ∧
      ((nfObs pid.toUInt16 mtu nonKey w h fuel first rem).isEmpty = rem.isEmpty) := by
  intro fuel
  induction fuel with
  | zero =>
    intro first rem hl _
    have : rem = [] := List.length_eq_zero_iff.mp (by omega)
    subst this
    simp [nfObs, C12.marks]
  | succ n ih =>
    intro first rem hl hm
    by_cases he : rem.isEmpty = true
    · have : rem = [] := List.isEmpty_iff.mp he
      subst this
      simp [nfObs, C12.marks]
    · have hne : rem ≠ [] := fun h0 => he (by simp [h0])
      have hpos : 0 < rem.length := List.length_pos_iff.mpr hne
      have hcur : 0 < min (mtu - (if (!nonKey && first) = true then 11 else 3)) rem.length := by omega
      obtain ⟨h1, h2, h3', h4⟩ := ih false
        (rem.drop (min (mtu - (if (!nonKey && first) = true then 11 else 3)) rem.length))
        (by simp only [List.length_drop]; omega) (by simpa using h3)
      simp only [nfObs, he, Bool.false_eq_true, if_false]
      refine ⟨?_, ?_, ?_, by simp⟩
      · simp only [List.all_cons, h1, Bool.and_true]
        exact fragOk_of false nonKey first _ _ pid w h _ hp info (fun _ => hinfo)
      · simp only [C12.marks, h2, Bool.and_true, h4]
        have hE : (rem.length == min (mtu - (if (!nonKey && first) = true then 11 else 3)) rem.length) =
            (rem.drop (min (mtu - (if (!nonKey && first) = true then 11 else 3)) rem.length)).isEmpty := by
          rw [Bool.eq_iff_iff, beq_iff_eq, List.isEmpty_iff, List.drop_eq_nil_iff]
          omega
        simp [fragObsOf, C12.expected, payDesc]
        simpa using hE
      · simp only [List.map_cons, List.flatten_cons, h3']
        show rem.take _ ++ rem.drop _ = rem
        exact List.take_append_drop _ _

/-- the header facts the non-flexible statement needs about one call -/
def HdrFacts (c : C12.Call) : Prop :=
  ∀ nk w h, C12.frameInfo c = some (nk, w, h) →
    ∃ hd, vp9HeaderUnmarshal (c.frame.getD []) = .ok hd ∧ hd.NonKeyFrame = nk ∧
      (nk = false → hd.width = w ∧ hd.height = h)

theorem nonflex_frameOk (pid : Nat) (hp : pid < 32768) (c : C12.Call) (hh : HdrFacts c)
    (hprop : C12.proper false c = true) (p : VP9Packet) :
    C12.frameOk false pid (C12.frameInfo c) (c.frame.getD [])
      (C12.obsFrags p (vp9PayloadNonFlexible pid.toUInt16 c.mtu.toNat (c.frame.getD []))).1 = true := by
  have hpl : pid.toUInt16 < 32768 := by
    rw [UInt16.lt_iff_toNat_lt]
    simp only [Nat.toUInt16, UInt16.toNat_ofNat', UInt16.reduceToNat]; omega
  simp only [C12.proper, Bool.false_eq_true, if_false, Bool.and_eq_true, Bool.not_eq_true',
    List.isEmpty_eq_false_iff] at hprop
  obtain ⟨hne, hinfo⟩ := hprop
  cases hfi : C12.frameInfo c with
  | none => simp [hfi] at hinfo
  | some t =>
    obtain ⟨nk, w, h⟩ := t
    simp only [hfi, decide_eq_true_eq] at hinfo
    obtain ⟨hd, hok, hnk, hwh⟩ := hh nk w h hfi
    have h3 : 3 < c.mtu.toNat := by cases nk <;> simp at hinfo <;> omega
    have hfirst : (if (!hd.NonKeyFrame && true) = true then 11 else 3) < c.mtu.toNat := by
      rw [hnk]; cases nk <;> simp at hinfo ⊢ <;> omega
    obtain ⟨res, hres, hobs⟩ := nf_loop pid.toUInt16 hpl c.mtu.toNat hd.NonKeyFrame hd.width hd.height h3
      (c.frame.getD []).length true (c.frame.getD []) p hfirst
    obtain ⟨h1, h2, h3', h4⟩ := nfObs_props pid hp c.mtu.toNat hd.NonKeyFrame hd.width hd.height h3
      (some (nk, w, h)) (fun nk' w' h' he => by cases he; exact hnk.symm)
      (c.frame.getD []).length true (c.frame.getD []) (Nat.le_refl _) hfirst
    have hemp : (c.frame.getD []).isEmpty = false := by
      cases hc : c.frame.getD [] with
      | nil => exact absurd hc hne
      | cons _ _ => rfl
    simp only [vp9PayloadNonFlexible, hok, hres, Option.getD_some, hobs, C12.frameOk, h1, h2, h3', h4, hemp,
      Bool.not_false, beq_self_eq_true, Bool.true_and, Bool.false_or]
    -- the scalability structure on the first packet of a key frame
    cases nk with
    | true => simp
    | false =>
      obtain ⟨hw, hh'⟩ := hwh rfl
      have hpos : 0 < (c.frame.getD []).length := List.length_pos_iff.mpr hne
      cases hl : (c.frame.getD []).length with
      | zero => omega
      | succ n =>
        simp only [nfObs, hemp, Bool.false_eq_true, if_false]
        simp [C12.ssOk, fragObsOf, C12.expected, payDesc, hnk, hw, hh', C12.pgOf]

/-! ### the whole history -/

/-- an initialised payloader whose next frame gets picture id `pid` -/
def ini (flex : Bool) (init : UInt16) (pid : Nat) : VP9Pay :=
  { flexible := flex, init := init, pictureID := pid.toUInt16, initialized := true }

theorem pid_next (pid : Nat) (hp : pid < 32768) :
    (if pid.toUInt16 + 1 ≥ 0x8000 then (0 : UInt16) else pid.toUInt16 + 1) = ((pid + 1) % 32768).toUInt16 := by
  have htn : (pid.toUInt16).toNat = pid := by
    simp only [Nat.toUInt16, UInt16.toNat_ofNat']; omega
  have hadd : (pid.toUInt16 + 1).toNat = pid + 1 := by
    simp only [UInt16.toNat_add, htn, UInt16.reduceToNat]; omega
  by_cases h : pid = 32767
  · subst h; decide
  · have hlt : ¬ (pid.toUInt16 + 1 ≥ 0x8000) := by
      rw [ge_iff_le, UInt16.le_iff_toNat_le, hadd]; simp only [UInt16.reduceToNat]; omega
    rw [if_neg hlt]
    apply UInt16.toNat_inj.mp
    rw [hadd]
    simp only [Nat.toUInt16, UInt16.toNat_ofNat']; omega

theorem payload_ini (flex : Bool) (init : UInt16) (pid : Nat) (hp : pid < 32768) (mtu : UInt16)
    (i : Option Bytes) :
    vp9Payload (ini flex init pid) mtu i =
      ((if flex then vp9PayloadFlexible pid.toUInt16 mtu.toNat (i.getD [])
        else vp9PayloadNonFlexible pid.toUInt16 mtu.toNat (i.getD [])),
       ini flex init ((pid + 1) % 32768)) := by
  simp only [vp9Payload, ini, if_true, pid_next pid hp]

theorem mask15 (x : UInt16) : x &&& 0x7FFF = (x.toNat % 32768).toUInt16 := by
  apply UInt16.toNat_inj.mp
  simp only [UInt16.toNat_and, UInt16.reduceToNat, Nat.toUInt16, UInt16.toNat_ofNat']
  have : (32767 : Nat) = 2 ^ 15 - 1 := by decide
  rw [this, Nat.and_two_pow_sub_one_eq_mod]
  omega

theorem payload_first (flex : Bool) (init : UInt16) (mtu : UInt16) (i : Option Bytes) :
    vp9Payload { flexible := flex, init := init } mtu i =
      vp9Payload (ini flex init (init.toNat % 32768)) mtu i := by
  simp only [vp9Payload, ini, Bool.false_eq_true, if_false, if_true, mask15]

theorem rt_from (flex : Bool) (init : UInt16) : ∀ (calls : List C12.Call) (pid : Nat) (p : VP9Packet),
    pid < 32768 → (∀ c ∈ calls, flex = false → HdrFacts c) →
    C12.rtFrom flex pid calls (C12.obsRtFrom (ini flex init pid) p calls) = true := by
  intro calls
  induction calls with
  | nil => intro pid p _ _; rfl
  | cons c cs ih =>
    intro pid p hp hh
    simp only [C12.obsRtFrom, payload_ini flex init pid hp, C12.rtFrom]
    have hrest : ∀ p', C12.rtFrom flex ((pid + 1) % 32768) cs
        (C12.obsRtFrom (ini flex init ((pid + 1) % 32768)) p' cs) = true :=
      fun p' => ih _ p' (Nat.mod_lt _ (by decide)) (fun c' hc' => hh c' (List.mem_cons_of_mem _ hc'))
    cases hprop : C12.proper flex c
    · simp only [Bool.not_false, Bool.true_or, Bool.true_and]
      exact hrest _
    · simp only [Bool.not_true, Bool.false_or, Bool.and_eq_true]
      refine ⟨?_, hrest _⟩
      cases flex
      · exact nonflex_frameOk pid hp c (hh c List.mem_cons_self rfl) hprop p
      · simp only [C12.proper, if_true, Bool.and_eq_true, Bool.not_eq_true', List.isEmpty_eq_false_iff,
          decide_eq_true_eq] at hprop
        exact flex_frameOk pid hp _ _ _ hprop.2 hprop.1 p

theorem rt_obsRt (flex : Bool) (init : UInt16) (calls : List C12.Call)
    (hh : ∀ c ∈ calls, flex = false → HdrFacts c) :
    C12.rt flex init calls (C12.obsRt flex init calls) = true := by
  unfold C12.rt C12.obsRt
  have : C12.obsRtFrom { flexible := flex, init := init } {} calls =
      C12.obsRtFrom (ini flex init (init.toNat % 32768)) {} calls := by
    cases calls with
    | nil => rfl
    | cons c cs => simp only [C12.obsRtFrom, payload_first]
  rw [this]
  exact rt_from flex init calls _ {} (Nat.mod_lt _ (by decide)) hh

/-! ### the whole history with `FlexibleMode` set per call -/

/-- setting the exported field leaves the picture-id state alone -/
theorem payloadF_ini (flex0 flex : Bool) (init : UInt16) (pid : Nat) (hp : pid < 32768) (mtu : UInt16)
    (i : Option Bytes) :
    vp9PayloadF (ini flex0 init pid) flex mtu i =
      ((if flex then vp9PayloadFlexible pid.toUInt16 mtu.toNat (i.getD [])
        else vp9PayloadNonFlexible pid.toUInt16 mtu.toNat (i.getD [])),
       ini flex init ((pid + 1) % 32768)) := by
  have : ({ ini flex0 init pid with flexible := flex } : VP9Pay) = ini flex init pid := rfl
  rw [vp9PayloadF, this, payload_ini flex init pid hp]

theorem payloadF_first (flex0 flex : Bool) (init : UInt16) (mtu : UInt16) (i : Option Bytes) :
    vp9PayloadF { flexible := flex0, init := init } flex mtu i =
      vp9PayloadF (ini flex0 init (init.toNat % 32768)) flex mtu i := by
  simp only [vp9PayloadF, vp9Payload, ini, Bool.false_eq_true, if_false, if_true, mask15]

/-- every initialised payloader state (whatever `FlexibleMode` was before, picture id `pid`), every
    receiver state, every history of (flag, call) pairs -/
theorem rtFlip_from (init : UInt16) : ∀ (calls : List (Bool × C12.Call)) (flex0 : Bool) (pid : Nat) (p : VP9Packet),
    pid < 32768 → (∀ fc ∈ calls, fc.1 = false → HdrFacts fc.2) →
    C12.rtFlipFrom pid calls (C12.obsRtFlipFrom (ini flex0 init pid) p calls) = true := by
  intro calls
  induction calls with
  | nil => intro _ pid p _ _; rfl
  | cons fc cs ih =>
    intro flex0 pid p hp hh
    obtain ⟨flex, c⟩ := fc
    simp only [C12.obsRtFlipFrom, payloadF_ini flex0 flex init pid hp, C12.rtFlipFrom]
    have hrest : ∀ p', C12.rtFlipFrom ((pid + 1) % 32768) cs
        (C12.obsRtFlipFrom (ini flex init ((pid + 1) % 32768)) p' cs) = true :=
      fun p' => ih flex _ p' (Nat.mod_lt _ (by decide)) (fun c' hc' => hh c' (List.mem_cons_of_mem _ hc'))
    cases hprop : C12.proper flex c
    · simp only [Bool.not_false, Bool.true_or, Bool.true_and]
      exact hrest _
    · simp only [Bool.not_true, Bool.false_or, Bool.and_eq_true]
      refine ⟨?_, hrest _⟩
      cases flex
      · exact nonflex_frameOk pid hp c (hh (false, c) List.mem_cons_self rfl) hprop p
      · simp only [C12.proper, if_true, Bool.and_eq_true, Bool.not_eq_true', List.isEmpty_eq_false_iff,
          decide_eq_true_eq] at hprop
        exact flex_frameOk pid hp _ _ _ hprop.2 hprop.1 p

theorem obsRtFlipFrom_first (flex0 : Bool) (init : UInt16) (p : VP9Packet) (calls : List (Bool × C12.Call)) :
    C12.obsRtFlipFrom { flexible := flex0, init := init } p calls =
      C12.obsRtFlipFrom (ini flex0 init (init.toNat % 32768)) p calls := by
  cases calls with
  | nil => rfl
  | cons c cs => obtain ⟨f, c⟩ := c; simp only [C12.obsRtFlipFrom, payloadF_first]

theorem rtFlip_obsRtFlip (init : UInt16) (calls : List (Bool × C12.Call))
    (hh : ∀ fc ∈ calls, fc.1 = false → HdrFacts fc.2) :
    C12.rtFlip init calls (C12.obsRtFlip init calls) = true := by
  unfold C12.rtFlip C12.obsRtFlip
  rw [obsRtFlipFrom_first]
  exact rtFlip_from init calls false _ {} (Nat.mod_lt _ (by decide)) hh

/-- a history whose flag never changes is a history in the sense of `C12.rt` -/
theorem rtFlipFrom_const (flex : Bool) : ∀ (calls : List C12.Call) (pid : Nat) (o : List (List C12.FragObs)),
    C12.rtFlipFrom pid (calls.map (fun c => (flex, c))) o = C12.rtFrom flex pid calls o := by
  intro calls
  induction calls with
  | nil => intro pid o; cases o <;> rfl
  | cons c cs ih =>
    intro pid o
    cases o with
    | nil => rfl
    | cons o os => simp only [List.map_cons, C12.rtFlipFrom, C12.rtFrom, ih]

theorem obsRtFlipFrom_const (flex : Bool) : ∀ (calls : List C12.Call) (st : VP9Pay) (p : VP9Packet),
    C12.obsRtFlipFrom st p (calls.map (fun c => (flex, c))) =
      C12.obsRtFrom { st with flexible := flex } p calls := by
  intro calls
  induction calls with
  | nil => intro st p; rfl
  | cons c cs ih =>
    intro st p
    have h2 : ∀ st' : VP9Pay, st'.flexible = flex → ({ st' with flexible := flex } : VP9Pay) = st' := by
      intro st' h; cases st'; simp_all
    have h3 : (vp9Payload { st with flexible := flex } c.mtu c.frame).2.flexible = flex := by
      simp only [vp9Payload]; split <;> rfl
    simp only [List.map_cons, C12.obsRtFlipFrom, C12.obsRtFrom, vp9PayloadF]
    rw [ih, h2 _ h3]

end Rtp.Proofs.VP9
