/-
  Rtp/Proofs/VP9Pay.lean — lemmas about VP9Payloader: fragment sizes in every state (C08), and the
  round trip through VP9Packet (C12).
-/
import Rtp.Proofs.VP9
import Rtp.Proofs.VP8Pay
namespace Rtp.Proofs.VP9
open Rtp Rtp.Model Rtp.Bits Rtp.Pred
open Rtp.Proofs.VP8 (chunks_mem chunks_flatten chunks_ne_nil)

/-! ### C08: sizes -/

theorem flexFrags_mem (pid : UInt16) : ∀ (cs : List Bytes) (first : Bool),
    ∀ f ∈ vp9FlexFrags pid first cs, ∃ c ∈ cs, f.length = 3 + c.length := by
  intro cs
  induction cs with
  | nil => intro first f hf; simp [vp9FlexFrags] at hf
  | cons c cs ih =>
    intro first f hf
    simp only [vp9FlexFrags, List.mem_cons] at hf
    rcases hf with rfl | hf
    · exact ⟨c, List.mem_cons_self, by simp [vp9Hdr3]; omega⟩
    · obtain ⟨c', hc', hl⟩ := ih false f hf
      exact ⟨c', List.mem_cons_of_mem _ hc', hl⟩

theorem flexible_frag (pid : UInt16) (mtu : Nat) (payload : Bytes) :
    ∀ f ∈ vp9PayloadFlexible pid mtu payload, f.length ≤ mtu ∧ f ≠ [] := by
  intro f hf
  unfold vp9PayloadFlexible at hf
  split at hf
  · simp at hf
  · rename_i hc
    simp only [Bool.or_eq_true, decide_eq_true_eq, not_or, Nat.not_le] at hc
    obtain ⟨c, hc', hl⟩ := flexFrags_mem pid _ true f hf
    have := (chunks_mem (mtu - 3) (by omega) payload c hc').2
    constructor
    · omega
    · intro h; rw [h] at hl; simp at hl; omega

theorem nonFlexLoop_frag (pid : UInt16) (mtu : Nat) (nonKey : Bool) (w h : UInt16) :
    ∀ (fuel : Nat) (first : Bool) (rem : Bytes) (res : List Bytes),
      vp9NonFlexLoop pid mtu nonKey w h fuel first rem = some res →
      ∀ f ∈ res, f.length ≤ mtu ∧ f ≠ [] := by
  intro fuel
  induction fuel with
  | zero =>
    intro first rem res hres f hf
    simp [vp9NonFlexLoop] at hres
    subst hres; simp at hf
  | succ n ih =>
    intro first rem res hres f hf
    by_cases he : rem.isEmpty = true
    · simp only [vp9NonFlexLoop, he, if_true, Option.some.injEq] at hres
      subst hres; simp at hf
    · by_cases hm : mtu ≤ (if (!nonKey && first) = true then 11 else 3)
      · simp only [vp9NonFlexLoop, he, hm, if_true, Bool.false_eq_true, if_false] at hres
        exact absurd hres (by simp)
      · simp only [vp9NonFlexLoop, he, hm, Bool.false_eq_true, if_false] at hres
        cases hl : vp9NonFlexLoop pid mtu nonKey w h n false
            (rem.drop (min (mtu - (if (!nonKey && first) = true then 11 else 3)) rem.length)) with
        | none => rw [hl] at hres; exact absurd hres (by simp)
        | some rest =>
          rw [hl] at hres
          simp only [Option.some.injEq] at hres
          subst hres
          simp only [List.mem_cons] at hf
          rcases hf with rfl | hf
          · constructor
            · simp only [List.length_append, vp9Hdr3, List.length_cons, List.length_nil, List.length_take]
              cases hss : (!nonKey && first) <;> simp_all [vp9SS] <;> omega
            · simp [vp9Hdr3]
          · exact ih false _ rest hl f hf

theorem nonFlexible_frag (pid : UInt16) (mtu : Nat) (payload : Bytes) :
    ∀ f ∈ vp9PayloadNonFlexible pid mtu payload, f.length ≤ mtu ∧ f ≠ [] := by
  intro f hf
  unfold vp9PayloadNonFlexible at hf
  split at hf
  · rename_i hd _
    cases hl : vp9NonFlexLoop pid mtu hd.NonKeyFrame hd.width hd.height payload.length true payload with
    | none => simp [hl] at hf
    | some res =>
      simp only [hl, Option.getD_some] at hf
      exact nonFlexLoop_frag pid mtu _ _ _ _ _ _ res hl f hf
  · simp at hf

theorem payload_fst (st : VP9Pay) (mtu : UInt16) (i : Option Bytes) :
    (vp9Payload st mtu i).1 =
      if st.flexible then
        vp9PayloadFlexible (if st.initialized then st.pictureID else st.init &&& 0x7FFF) mtu.toNat (i.getD [])
      else
        vp9PayloadNonFlexible (if st.initialized then st.pictureID else st.init &&& 0x7FFF) mtu.toNat (i.getD []) := by
  unfold vp9Payload
  cases st.initialized <;> rfl

/-- every fragment of every call, in every state and mode: at most MTU bytes and not empty -/
theorem payload_frag (st : VP9Pay) (mtu : UInt16) (i : Option Bytes) :
    ∀ f ∈ (vp9Payload st mtu i).1, f.length ≤ mtu.toNat ∧ f ≠ [] := by
  intro f hf
  rw [payload_fst] at hf
  split at hf
  · exact flexible_frag _ _ _ f hf
  · exact nonFlexible_frag _ _ _ f hf

theorem histOk_vp9 : ∀ (calls : List (UInt16 × Option Bytes)) (st : VP9Pay),
    C08.histOk false calls ((vp9PayloadHist st calls).map PayObs.ofFrags) = true := by
  intro calls
  induction calls with
  | nil => intro st; rfl
  | cons call cs ih =>
    intro st
    obtain ⟨m, i⟩ := call
    simp only [vp9PayloadHist, List.map_cons, C08.histOk, ih, Bool.and_true]
    have h := payload_frag st m i
    simp only [C08.callOk, PayObs.ofFrags, PayObs.owned, Bool.not_false, Bool.true_and, Bool.and_true,
      Bool.false_or, Bool.and_eq_true, List.all_eq_true, decide_eq_true_eq, Bool.or_eq_true,
      Bool.not_eq_true', List.isEmpty_eq_false_iff]
    exact ⟨fun f hf => (h f hf).1, Or.inr fun f hf => (h f hf).2⟩

end Rtp.Proofs.VP9
