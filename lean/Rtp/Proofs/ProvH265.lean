/-
  Rtp/Proofs/ProvH265.lean — the provenance-level H265 payloader (Rtp/Model/ProvH265.lean):
  forgetting origins gives Model/H265.lean, and every fragment handed out is `fresh` when the
  single-NAL-unit step copies.
-/
import Rtp.Model.ProvH265
import Rtp.Proofs.Prov
namespace Rtp.Proofs.ProvH265
open Rtp Rtp.Model Rtp.Model.Prov Rtp.Model.H265 Rtp.Proofs.Prov

/-- forget the origins of fragments and state -/
def forgetStep (r : List PBytes × PSt) : List Bytes × St := (forgetAll r.1, r.2.forget)

theorem forgetStep_mk (o : List PBytes) (s : PSt) : forgetStep (o, s) = (forgetAll o, s.forget) := rfl

/-! ### flush -/

theorem forget_pFlush (keep : PBytes → PBytes) (hk : ∀ x, (keep x).bytes = x.bytes) (cfg : Cfg)
    (s : PSt) : forgetStep (pFlush keep cfg s) = flush cfg s.forget := by
  obtain ⟨buf, agg, donl⟩ := s
  unfold pFlush flush forgetStep
  rcases buf with _ | ⟨n, _ | ⟨m, t⟩⟩
  · rfl
  · simp only [PSt.forget, forgetAll_cons, forgetAll_nil]
    split <;> simp [hk]
  · simp [PSt.forget]

theorem owned_pFlush (keep : PBytes → PBytes) (hk : ∀ x, (keep x).origin = .fresh) (cfg : Cfg)
    (s : PSt) : AllOwned (pFlush keep cfg s).1 := by
  unfold pFlush
  split
  · simp
  · split <;> simp [hk]
  · simp

/-- a flush leaves nothing buffered -/
theorem buf_pFlush (keep : PBytes → PBytes) (cfg : Cfg) (s : PSt) : (pFlush keep cfg s).2.buf = [] := by
  unfold pFlush
  split
  · assumption
  · split <;> rfl
  · rfl

/-! ### FU loop -/

theorem forget_pFuLoop (cfg : Cfg) (k : Nat) (b0 b1 : UInt8) (fuel : Nat) (first : Bool) (d : UInt16)
    (l : PBytes) :
    forgetAll (pFuLoop cfg k b0 b1 fuel first d l).1 = (fuLoop cfg k b0 b1 fuel first d l.bytes).1 ∧
    (pFuLoop cfg k b0 b1 fuel first d l).2 = (fuLoop cfg k b0 b1 fuel first d l.bytes).2 := by
  induction fuel generalizing first d l with
  | zero => exact ⟨rfl, rfl⟩
  | succ fuel ih =>
    rw [pFuLoop, fuLoop]
    split
    · exact ⟨rfl, rfl⟩
    · have h := ih false (if cfg.addDONL = true then d + 1 else d)
        (l.drop (if l.bytes.length > k then k else l.bytes.length))
      simp only [bytes_drop] at h
      refine ⟨?_, ?_⟩ <;> simp only [forgetAll_cons, bytes_make, bytes_take, h.1, h.2]

theorem owned_pFuLoop (cfg : Cfg) (k : Nat) (b0 b1 : UInt8) (fuel : Nat) (first : Bool) (d : UInt16)
    (l : PBytes) : AllOwned (pFuLoop cfg k b0 b1 fuel first d l).1 := by
  induction fuel generalizing first d l with
  | zero => simp [pFuLoop]
  | succ fuel ih =>
    rw [pFuLoop]
    split
    · simp
    · simp [ih]

/-! ### one emitted slice -/

@[simp] theorem forget_buf (s : PSt) : s.forget.buf = forgetAll s.buf := rfl
@[simp] theorem forget_agg (s : PSt) : s.forget.agg = s.agg := rfl
@[simp] theorem forget_donl (s : PSt) : s.forget.donl = s.donl := rfl
@[simp] theorem length_forgetAll (l : List PBytes) : (forgetAll l).length = l.length := by
  simp [forgetAll]

section
variable (keep : PBytes → PBytes) (hk : ∀ x, (keep x).bytes = x.bytes) (cfg : Cfg)
include hk

theorem flush_out (s : PSt) : forgetAll (pFlush keep cfg s).1 = (flush cfg s.forget).1 :=
  congrArg Prod.fst (forget_pFlush keep hk cfg s)
theorem flush_st (s : PSt) : (pFlush keep cfg s).2.forget = (flush cfg s.forget).2 :=
  congrArg Prod.snd (forget_pFlush keep hk cfg s)
theorem flush_buf (s : PSt) : forgetAll (pFlush keep cfg s).2.buf = (flush cfg s.forget).2.buf :=
  congrArg St.buf (flush_st keep hk cfg s)
theorem flush_agg (s : PSt) : (pFlush keep cfg s).2.agg = (flush cfg s.forget).2.agg :=
  congrArg St.agg (flush_st keep hk cfg s)
theorem flush_donl (s : PSt) : (pFlush keep cfg s).2.donl = (flush cfg s.forget).2.donl :=
  congrArg St.donl (flush_st keep hk cfg s)
theorem flush_buflen (s : PSt) : (pFlush keep cfg s).2.buf.length = (flush cfg s.forget).2.buf.length := by
  rw [← flush_buf keep hk cfg s, length_forgetAll]

theorem forget_pStep (mtu : Nat) (s : PSt) (n : PBytes) :
    forgetStep (pStep keep cfg mtu s n) = step cfg mtu s.forget n.bytes := by
  unfold pStep step
  by_cases h1 : n.bytes.length < 2
  · simp [h1, forgetStep_mk]
  · by_cases h2 : n.bytes.length + 2 + (if cfg.addDONL = true then 2 else 0) ≤ mtu
    · by_cases h3 : s.agg + marginal cfg s.buf.length n.bytes.length > mtu <;>
        by_cases h4 : cfg.skipAgg = true <;>
        simp [h1, h2, h3, h4, forgetStep_mk, flush_out keep hk, flush_buf keep hk,
          flush_agg keep hk, flush_donl keep hk, flush_buflen keep hk, PSt.forget]
    · by_cases h5 : (decide (mtu ≤ 3 + if cfg.addDONL = true then 2 else 0) || n.bytes.length == 2) = true
      · simp only [h1, h2, h5, if_true, if_false, forgetStep_mk, forgetAll_nil]
      · by_cases h6 : n.bytes.length - 2 ≤ mtu - (3 + if cfg.addDONL = true then 2 else 0)
        · simp only [h1, h2, h5, h6, if_true, if_false]
          simp [forgetStep_mk, flush_out keep hk, flush_buf keep hk,
            flush_agg keep hk, flush_donl keep hk, PSt.forget]
        · simp only [h1, h2, h5, h6, if_false]
          simp [forgetStep_mk, flush_out keep hk, flush_buf keep hk,
            flush_agg keep hk, flush_donl keep hk, PSt.forget, (forget_pFuLoop ..).1, (forget_pFuLoop ..).2]

end

/-- every fragment of one step is a new array when the single-NAL-unit step allocates -/
theorem owned_pStep (keep : PBytes → PBytes) (hk : ∀ x, (keep x).origin = .fresh) (cfg : Cfg)
    (mtu : Nat) (s : PSt) (n : PBytes) : AllOwned (pStep keep cfg mtu s n).1 := by
  unfold pStep
  dsimp only
  repeat' split
  all_goals simp [owned_pFlush keep hk, owned_pFuLoop]

/-! ### a call, a history -/

theorem forget_pRun (keep : PBytes → PBytes) (hk : ∀ x, (keep x).bytes = x.bytes) (cfg : Cfg)
    (mtu : Nat) (s : PSt) (ns : List PBytes) :
    (forgetAll (pRun keep cfg mtu s ns).1, (pRun keep cfg mtu s ns).2) =
      run cfg mtu s.forget (forgetAll ns) := by
  induction ns generalizing s with
  | nil =>
    simp only [pRun, run, forgetAll_nil, flush_out keep hk, flush_donl keep hk]
  | cons n ns ih =>
    have h1 := forget_pStep keep hk cfg mtu s n
    have h2 := ih (pStep keep cfg mtu s n).2
    simp only [forgetStep, Prod.ext_iff] at h1 h2
    simp only [pRun, run, forgetAll_cons, forgetAll_append, ← h1.1, ← h1.2, ← h2.1, ← h2.2]

theorem owned_pRun (keep : PBytes → PBytes) (hk : ∀ x, (keep x).origin = .fresh) (cfg : Cfg)
    (mtu : Nat) (s : PSt) (ns : List PBytes) : AllOwned (pRun keep cfg mtu s ns).1 := by
  induction ns generalizing s with
  | nil => simp [pRun, owned_pFlush keep hk]
  | cons n ns ih => simp [pRun, owned_pStep keep hk, ih]

theorem forget_pPayloadG (keep : PBytes → PBytes) (hk : ∀ x, (keep x).bytes = x.bytes) (cfg : Cfg)
    (mtu donl : UInt16) (i : Nat) (input : Option Bytes) :
    (forgetAll (pPayloadG keep cfg mtu donl i input).1, (pPayloadG keep cfg mtu donl i input).2) =
      payload cfg mtu donl input := by
  unfold pPayloadG payload
  dsimp only
  split
  · rfl
  · have := forget_pRun keep hk cfg mtu.toNat { buf := [], agg := 0, donl := donl }
      (pEmitNalus (PBytes.ofInput i (input.getD [])))
    rw [forgetAll_pEmitNalus] at this
    exact this

theorem owned_pPayloadG (keep : PBytes → PBytes) (hk : ∀ x, (keep x).origin = .fresh) (cfg : Cfg)
    (mtu donl : UInt16) (i : Nat) (input : Option Bytes) :
    AllOwned (pPayloadG keep cfg mtu donl i input).1 := by
  unfold pPayloadG
  dsimp only
  split
  · simp
  · exact owned_pRun keep hk cfg _ _ _

theorem forget_pPayloadHistG (keep : PBytes → PBytes) (hk : ∀ x, (keep x).bytes = x.bytes) (cfg : Cfg)
    (donl : UInt16) (i : Nat) (calls : List (UInt16 × Option Bytes)) :
    (pPayloadHistG keep cfg donl i calls).map forgetAll = payloadHist cfg donl calls := by
  induction calls generalizing donl i with
  | nil => rfl
  | cons c cs ih =>
    obtain ⟨m, inp⟩ := c
    have h1 := forget_pPayloadG keep hk cfg m donl i inp
    simp only [Prod.ext_iff] at h1
    simp only [pPayloadHistG, payloadHist, List.map_cons, ih, h1.1, h1.2]

theorem owned_pPayloadHistG (keep : PBytes → PBytes) (hk : ∀ x, (keep x).origin = .fresh) (cfg : Cfg)
    (donl : UInt16) (i : Nat) (calls : List (UInt16 × Option Bytes)) :
    ∀ o ∈ pPayloadHistG keep cfg donl i calls, AllOwned o := by
  induction calls generalizing donl i with
  | nil => simp [pPayloadHistG]
  | cons c cs ih =>
    obtain ⟨m, inp⟩ := c
    simp only [pPayloadHistG, List.mem_cons, forall_eq_or_imp]
    exact ⟨owned_pPayloadG keep hk cfg m donl i inp, ih _ _⟩

end Rtp.Proofs.ProvH265
