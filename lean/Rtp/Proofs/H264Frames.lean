/-
  Rtp/Proofs/H264Frames.lean — a payload sequence that parses as RFC 6184 units is self-starting
  (the hypothesis of c15_h264): every FU-A continuation follows its start fragment.
-/
import Rtp.Proofs.H264Parse
namespace Rtp.Proofs.H264
open Rtp Rtp.Spec.Rfc6184 Rtp.Pred.C15H264

theorem parseAux_selfStarting (ps : List Bytes) :
    ∀ (o : Option (UInt8 × Nat × List Bytes)) (plan : List Item),
      (∀ ind typ cs, o = some (ind, typ, cs) → hType ind = 28) →
      parseAux o ps = some plan → selfStarting o.isSome ps = true := by
  induction ps with
  | nil => intro o plan _ _; rfl
  | cons p ps ih =>
    intro o plan ho hp
    cases o with
    | none =>
      cases p with
      | nil => simp [parseAux] at hp
      | cons h body =>
        simp only [parseAux] at hp
        by_cases h1 : 1 ≤ hType h ∧ hType h ≤ 23
        · rw [if_pos h1] at hp
          obtain ⟨pl, hpl, _⟩ := Option.map_eq_some_iff.mp hp
          have := ih none pl (by intro _ _ _ e; cases e) hpl
          have hne : hType h ≠ 28 := by omega
          cases body with
          | nil => simpa [selfStarting] using this
          | cons fh c => simpa [selfStarting, hne] using this
        · rw [if_neg h1] at hp
          by_cases h2 : hType h = 24
          · rw [if_pos h2] at hp
            cases hs : parseStap body with
            | none => rw [hs] at hp; cases hp
            | some ns =>
              rw [hs] at hp
              obtain ⟨pl, hpl, _⟩ := Option.map_eq_some_iff.mp hp
              have := ih none pl (by intro _ _ _ e; cases e) hpl
              have hne : hType h ≠ 28 := by omega
              cases body with
              | nil => simpa [selfStarting] using this
              | cons fh c => simpa [selfStarting, hne] using this
          · rw [if_neg h2] at hp
            by_cases h3 : hType h = 28
            · rw [if_pos h3] at hp
              cases body with
              | nil => cases hp
              | cons fh c =>
                simp only at hp
                by_cases hc : (fuS fh && !fuE fh && fh.toNat / 32 % 2 == 0) = true
                · rw [if_pos hc] at hp
                  have := ih (some (h, hType fh, [c])) plan
                    (by intro ind typ cs e; cases e; exact h3) hp
                  simp only [Bool.and_eq_true, Bool.not_eq_true'] at hc
                  simpa [selfStarting, h3, hc.1.1, hc.1.2] using this
                · rw [if_neg hc] at hp; cases hp
            · rw [if_neg h3] at hp; cases hp
    | some st =>
      obtain ⟨ind, typ, cs⟩ := st
      have hind := ho ind typ cs rfl
      match p with
      | [] => simp [parseAux] at hp
      | [_] => simp [parseAux] at hp
      | h :: fh :: c =>
        simp only [parseAux] at hp
        by_cases hc : (h == ind && hType fh == typ && !fuS fh && fh.toNat / 32 % 2 == 0) = true
        · rw [if_pos hc] at hp
          simp only [Bool.and_eq_true, beq_iff_eq, Bool.not_eq_true'] at hc
          obtain ⟨⟨⟨rfl, _⟩, hS⟩, _⟩ := hc
          by_cases hE : fuE fh = true
          · rw [if_pos hE] at hp
            obtain ⟨pl, hpl, _⟩ := Option.map_eq_some_iff.mp hp
            have := ih none pl (by intro _ _ _ e; cases e) hpl
            simpa [selfStarting, hind, hS, hE] using this
          · rw [if_neg hE] at hp
            have := ih (some (h, typ, cs ++ [c])) plan
              (by intro ind typ cs e; cases e; exact hind) hp
            have hE' : fuE fh = false := by simpa using hE
            simpa [selfStarting, hind, hS, hE'] using this
        · rw [if_neg hc] at hp; cases hp

/-- whatever parses as complete RFC 6184 units is a frame in the sense of C15 -/
theorem parse_selfStarting (ps : List Bytes) (plan : List Item) (h : parse ps = some plan) :
    selfStarting false ps = true :=
  parseAux_selfStarting ps none plan (by intro _ _ _ e; cases e) h

end Rtp.Proofs.H264
