/-
  Rtp/Proofs/AV1PayInv.lean — the invariant of the packet list AV1Payloader builds, and what one call
  of appendOBUPayload adds to the elements it denotes.
-/
import Rtp.Proofs.AV1Pay
namespace Rtp.Model.AV1
open Rtp Rtp.Model Rtp.Spec.Av1Rtp

/-! ### elements of packet lists -/

/-- elements of an oldest-first packet list, packets numbered from `k` -/
def elemsFwd : Nat → List Pk → List Elem
  | _, [] => []
  | k, p :: ps => flagElems p.z p.y k p.elems ++ elemsFwd (k + 1) ps

/-- elements of a NEWEST-first packet list (as the payloader keeps it), oldest packet first -/
def elemsRev : List Pk → List Elem
  | [] => []
  | q :: t => elemsRev t ++ flagElems q.z q.y t.length q.elems

theorem elemsFwd_eq (k : Nat) (ps : List Pk) : elemsFwd k ps = allElems k (ps.map Pk.toPacket) := by
  induction ps generalizing k with
  | nil => rfl
  | cons p ps ih => simp [elemsFwd, allElems, ih, Pk.toPacket]

theorem elemsRev_append_rev (F base : List Pk) :
    elemsRev (F.reverse ++ base) = elemsRev base ++ elemsFwd base.length F := by
  induction F generalizing base with
  | nil => simp [elemsFwd]
  | cons f F ih =>
    simp only [List.reverse_cons, List.append_assoc, List.singleton_append]
    rw [ih (f :: base)]
    simp [elemsRev, elemsFwd]

theorem elemsRev_eq (ps : List Pk) : elemsRev ps = allElems 0 (ps.reverse.map Pk.toPacket) := by
  have := elemsRev_append_rev ps.reverse []
  simp only [List.reverse_reverse, List.append_nil, elemsRev, List.nil_append, List.length_nil] at this
  rw [this, elemsFwd_eq]

/-- a chain of fragments of one OBU: the first continues the previous packet iff `z`, every later
    one does, every one but the last is continued -/
def chainFrom (z : Bool) (k : Nat) : List Bytes → List Elem
  | [] => []
  | [e] => [⟨e, z, false, k⟩]
  | e :: e' :: es => ⟨e, z, true, k⟩ :: chainFrom true (k + 1) (e' :: es)

theorem chainFrom_cons (z : Bool) (k : Nat) (e : Bytes) (es : List Bytes) :
    chainFrom z k (e :: es) = ⟨e, z, !es.isEmpty, k⟩ :: chainFrom true (k + 1) es := by
  cases es <;> simp [chainFrom]

theorem flagElems_snoc (z y : Bool) (k : Nat) (es : List Bytes) (e : Bytes) (hne : es ≠ []) :
    flagElems z y k (es ++ [e]) = flagElems z false k es ++ [⟨e, false, y, k⟩] := by
  induction es generalizing z with
  | nil => exact absurd rfl hne
  | cons a as ih =>
    cases as with
    | nil => simp [flagElems]
    | cons b bs =>
      have := ih false (by simp)
      simp only [List.cons_append] at this ⊢
      simp only [flagElems, this]
      simp

/-- joining a chain that starts a new OBU: one OBU, all pieces concatenated, nothing left open -/
theorem joinPkt_chain_some (u : OUnit) (k : Nat) (es : List Bytes) (hne : es ≠ []) :
    joinPkt (some u) (chainFrom true k es) =
      ([⟨u.bytes ++ es.flatten, u.first, k + es.length - 1⟩], none) := by
  induction es generalizing u k with
  | nil => exact absurd rfl hne
  | cons e es ih =>
    cases es with
    | nil => simp [chainFrom, joinPkt, extend]
    | cons e' es' =>
      have := ih ⟨u.bytes ++ e, u.first, k⟩ (k + 1) (by simp)
      simp only [chainFrom, joinPkt, extend, if_true, this]
      simp only [List.length_cons, List.flatten_cons, List.append_assoc, Prod.mk.injEq, and_true,
        List.cons.injEq, OUnit.mk.injEq, true_and]
      omega

theorem joinPkt_chain_none (k : Nat) (es : List Bytes) (hne : es ≠ []) :
    joinPkt none (chainFrom false k es) = ([⟨es.flatten, k, k + es.length - 1⟩], none) := by
  cases es with
  | nil => exact absurd rfl hne
  | cons e es =>
    cases es with
    | nil => simp [chainFrom, joinPkt, extend]
    | cons e' es' =>
      have := joinPkt_chain_some ⟨e, k, k⟩ (k + 1) (e' :: es') (by simp)
      simp only [chainFrom, joinPkt, extend, if_true, Bool.false_eq_true, if_false]
      rw [this]
      simp only [List.length_cons, List.flatten_cons, Prod.mk.injEq, and_true, List.cons.injEq,
        OUnit.mk.injEq, true_and]
      omega

theorem joinPkt_append (op : Option OUnit) (a b : List Elem) :
    joinPkt op (a ++ b) =
      ((joinPkt op a).1 ++ (joinPkt (joinPkt op a).2 b).1, (joinPkt (joinPkt op a).2 b).2) := by
  induction a generalizing op with
  | nil => simp [joinPkt]
  | cons e es ih =>
    simp only [List.cons_append, joinPkt]
    split <;> simp [ih]

/-! ### Z/Y links on a newest-first list -/

def headY : List Pk → Bool
  | [] => false
  | q :: _ => q.y

/-- every packet's Z equals the Y of the packet before it (false before the first) -/
def zyRev : List Pk → Bool
  | [] => true
  | q :: t => (q.z == headY t) && zyRev t

def zyFwd : Bool → List Pk → Bool
  | _, [] => true
  | prevY, p :: ps => (p.z == prevY) && zyFwd p.y ps

def lastYF : Bool → List Pk → Bool
  | prevY, [] => prevY
  | _, p :: ps => lastYF p.y ps

theorem zyRev_append_rev (F base : List Pk) :
    zyRev (F.reverse ++ base) = (zyFwd (headY base) F && zyRev base) ∧
    headY (F.reverse ++ base) = lastYF (headY base) F := by
  induction F generalizing base with
  | nil => simp [zyFwd, lastYF]
  | cons f F ih =>
    simp only [List.reverse_cons, List.append_assoc, List.singleton_append]
    obtain ⟨h1, h2⟩ := ih (f :: base)
    rw [h1, h2]
    simp only [zyRev, zyFwd, lastYF]
    have hy : headY (f :: base) = f.y := rfl
    rw [hy]
    cases (f.z == headY base) <;> cases zyFwd f.y F <;> cases zyRev base <;> exact ⟨rfl, rfl⟩

theorem zyChain_of_zyRev (ps : List Pk) (l : List Pk) :
    zyChain false ((ps.reverse ++ l).map Pk.toPacket) =
      (zyRev ps && zyChain (headY ps) (l.map Pk.toPacket)) := by
  induction ps generalizing l with
  | nil => simp [zyRev, headY]
  | cons q t ih =>
    simp only [List.reverse_cons, List.append_assoc, List.singleton_append]
    rw [ih (q :: l)]
    simp only [List.map_cons, zyChain, zyRev, headY, Pk.toPacket]
    cases (q.z == headY t) <;> cases zyRev t <;> simp

/-! ### the fragment packets -/

/-- the pieces the fragment loop cuts `rem` into -/
def fragPieces (mtu : Nat) (isLast : Bool) : Nat → Bytes → List Bytes
  | 0, _ => []
  | fuel + 1, rem =>
    if rem.isEmpty then []
    else rem.take (pieceLen mtu isLast rem) :: fragPieces mtu isLast fuel (rem.drop (pieceLen mtu isLast rem))

/-- the state of the newest packet as the next call of appendOBUPayload needs it: still open with
    `count` length-prefixed elements, or full, or closed by a call with isLast (`promise`) -/
def headStatus (mtu : Nat) (q : Pk) (count : Nat) (promise : Bool) : Prop :=
  (q.last = none ∧ q.w = 0 ∧ q.pre.length = count) ∨ mtu ≤ q.size ∨ promise = true

theorem fragPk_facts (mtu : Nat) (isLast : Bool) (rem : Bytes) (z y : Bool) (hm : 2 ≤ mtu)
    (hs : mtu ≤ 65535) (hr : rem ≠ []) :
    let q := fragPk mtu isLast rem z y
    q.shapeOK ∧ q.elems = [rem.take (pieceLen mtu isLast rem)] ∧ q.n = false ∧ q.z = z ∧ q.y = y ∧
    headStatus mtu q 1 isLast := by
  have hl : 1 ≤ rem.length := by
    cases rem with | nil => exact absurd rfl hr | cons a b => simp
  obtain ⟨h1, h2, h3⟩ := pieceLen_pos mtu isLast rem hm hs hr
  dsimp only
  unfold fragPk
  split
  · rename_i hc
    refine ⟨Or.inr ⟨rfl, rfl, by simp⟩, rfl, rfl, rfl, rfl, ?_⟩
    simp only [Bool.or_eq_true, decide_eq_true_eq] at hc
    rcases hc with hc | hc
    · exact Or.inr (Or.inr hc)
    · refine Or.inr (Or.inl ?_)
      have hk : pieceLen mtu isLast rem = mtu - 1 := by
        unfold pieceLen; simp [hc]
      rw [size_eq]
      simp only [List.flatMap_nil, List.length_nil, Option.getD_some, List.length_take, hk]
      omega
  · exact ⟨Or.inl ⟨rfl, rfl⟩, rfl, rfl, rfl, rfl, Or.inl ⟨rfl, rfl, rfl⟩⟩

theorem fragPieces_nil_iff (mtu : Nat) (isLast : Bool) (fuel : Nat) (rem : Bytes) (hf : rem.length ≤ fuel) :
    (fragPieces mtu isLast fuel rem = []) ↔ rem = [] := by
  cases fuel with
  | zero =>
    have : rem = [] := by cases rem with | nil => rfl | cons a b => simp at hf
    simp [fragPieces, this]
  | succ f =>
    cases rem with
    | nil => simp [fragPieces]
    | cons a b => simp [fragPieces]

theorem fragPieces_facts (mtu : Nat) (isLast : Bool) (hm : 2 ≤ mtu) (hs : mtu ≤ 65535) (fuel : Nat)
    (rem : Bytes) (hf : rem.length ≤ fuel) :
    (fragPieces mtu isLast fuel rem).flatten = rem ∧ ∀ e ∈ fragPieces mtu isLast fuel rem, e ≠ [] := by
  induction fuel generalizing rem with
  | zero =>
    have : rem = [] := by cases rem with | nil => rfl | cons a b => simp at hf
    simp [fragPieces, this]
  | succ f ih =>
    by_cases hr : rem = []
    · subst hr; simp [fragPieces]
    · have hne : rem.isEmpty = false := by cases rem with | nil => exact absurd rfl hr | cons a b => rfl
      obtain ⟨hp1, hp2, _⟩ := pieceLen_pos mtu isLast rem hm hs hr
      have hfl : (rem.drop (pieceLen mtu isLast rem)).length ≤ f := by
        simp only [List.length_drop]; omega
      obtain ⟨i1, i2⟩ := ih _ hfl
      simp only [fragPieces, hne, Bool.false_eq_true, if_false, List.flatten_cons, i1,
        List.take_append_drop, List.mem_cons, true_and]
      intro e he
      rcases he with rfl | he
      · intro h
        have := congrArg List.length h
        simp only [List.length_take, List.length_nil] at this
        omega
      · exact i2 e he

theorem fragPks_facts (mtu : Nat) (isLast : Bool) (hm : 2 ≤ mtu) (hs : mtu ≤ 65535) (fuel : Nat)
    (rem : Bytes) (z : Bool) (k : Nat) (hf : rem.length ≤ fuel) :
    elemsFwd k (fragPks mtu isLast fuel rem z) = chainFrom z k (fragPieces mtu isLast fuel rem) ∧
    (fragPks mtu isLast fuel rem z).length = (fragPieces mtu isLast fuel rem).length ∧
    zyFwd z (fragPks mtu isLast fuel rem z) = true ∧
    (∀ b, rem ≠ [] → lastYF b (fragPks mtu isLast fuel rem z) = false) ∧
    (∀ q ∈ fragPks mtu isLast fuel rem z, q.shapeOK ∧ q.elems ≠ [] ∧ (∀ e ∈ q.elems, e ≠ []) ∧
        q.n = false ∧ headStatus mtu q 1 isLast) := by
  induction fuel generalizing rem z k with
  | zero =>
    have : rem = [] := by cases rem with | nil => rfl | cons a b => simp at hf
    subst this
    simp [fragPks, fragPieces, elemsFwd, chainFrom, zyFwd]
  | succ f ih =>
    by_cases hr : rem = []
    · subst hr; simp [fragPks, fragPieces, elemsFwd, chainFrom, zyFwd]
    · have hne : rem.isEmpty = false := by cases rem with | nil => exact absurd rfl hr | cons a b => rfl
      obtain ⟨hp1, hp2, _⟩ := pieceLen_pos mtu isLast rem hm hs hr
      have hfl : (rem.drop (pieceLen mtu isLast rem)).length ≤ f := by
        simp only [List.length_drop]; omega
      obtain ⟨i1, i2, i3, i4, i5⟩ := ih (rem.drop (pieceLen mtu isLast rem)) true (k + 1) hfl
      obtain ⟨q1, q2, q3, q4, q5, q6⟩ := fragPk_facts mtu isLast rem z
        (!(rem.drop (pieceLen mtu isLast rem)).isEmpty) hm hs hr
      have hnil := fragPieces_nil_iff mtu isLast f (rem.drop (pieceLen mtu isLast rem)) hfl
      have hemp : (!(rem.drop (pieceLen mtu isLast rem)).isEmpty) =
          !(fragPieces mtu isLast f (rem.drop (pieceLen mtu isLast rem))).isEmpty := by
        by_cases h : rem.drop (pieceLen mtu isLast rem) = []
        · rw [hnil.mpr h, h]; rfl
        · have h' : fragPieces mtu isLast f (rem.drop (pieceLen mtu isLast rem)) ≠ [] := fun x => h (hnil.mp x)
          rw [List.isEmpty_eq_false_iff.mpr h, List.isEmpty_eq_false_iff.mpr h']
      simp only [fragPks, fragPieces, hne, Bool.false_eq_true, if_false, elemsFwd, List.length_cons,
        zyFwd, lastYF]
      refine ⟨?_, by rw [i2], ?_, ?_, ?_⟩
      · rw [q2, q4, q5, i1, chainFrom_cons, hemp]
        simp [flagElems]
      · rw [q4, q5]
        by_cases h : rem.drop (pieceLen mtu isLast rem) = []
        · simp [h]
          cases f <;> simp [fragPks, zyFwd]
        · have : (rem.drop (pieceLen mtu isLast rem)).isEmpty = false := List.isEmpty_eq_false_iff.mpr h
          simp [this, i3]
      · intro b _
        rw [q5]
        by_cases h : rem.drop (pieceLen mtu isLast rem) = []
        · have : fragPks mtu isLast f (rem.drop (pieceLen mtu isLast rem)) true = [] := by
            cases f <;> simp [fragPks, h]
          rw [this]; simp [lastYF, h]
        · exact i4 _ h
      · intro q hq
        simp only [List.mem_cons] at hq
        rcases hq with rfl | hq
        · refine ⟨q1, by rw [q2]; simp, ?_, q3, q6⟩
          rw [q2]
          intro e he
          simp only [List.mem_singleton] at he
          subst he
          intro h
          have := congrArg List.length h
          simp only [List.length_take, List.length_nil] at this
          omega
        · exact i5 q hq

/-! ### the invariant of the packet list -/

/-- what every finished or half-built packet in the list satisfies -/
def PkOK (q : Pk) : Prop :=
  q.shapeOK ∧ q.elems ≠ [] ∧ (∀ e ∈ q.elems, e ≠ []) ∧ ¬ (q.n = true ∧ q.z = true)

structure OutInv (out : List Pk) : Prop where
  pk : ∀ q ∈ out, PkOK q
  zy : zyRev out = true
  hy : headY out = false

def HeadSt (mtu : Nat) (out : List Pk) (count : Nat) (promise : Bool) : Prop :=
  ∀ q t, out = q :: t → headStatus mtu q count promise

theorem basePk_facts (out : List Pk) (newSeq startNew : Bool) (mtu count : Nat) (promise : Bool)
    (hm : 2 ≤ mtu) (hinv : OutInv out) (hhead : HeadSt mtu out count promise)
    (hprom : promise = true → startNew = true) :
    let b := basePk out newSeq startNew mtu count
    (b.1.last = none ∧ b.1.w = 0 ∧ b.1.pre.length = b.2.2 ∧ b.1.size < mtu) ∧
    b.1.y = false ∧ (b.1.pre = [] → b.1.z = false) ∧ ¬ (b.1.n = true ∧ b.1.z = true) ∧
    (∀ e ∈ b.1.pre, e ≠ []) ∧ (∀ q ∈ b.2.1, PkOK q) ∧ zyRev (b.1 :: b.2.1) = true ∧
    elemsRev (b.1 :: b.2.1) = elemsRev out ∧
    (out.length ≤ (b.1 :: b.2.1).length) ∧ ((b.1 :: b.2.1).length ≤ out.length + 1) ∧
    (startNew = true → (b.1 :: b.2.1).length = out.length + 1) ∧
    ((b.1 :: b.2.1).length = out.length + 1 → b.1.pre = []) := by
  have fresh : ∀ T : List Pk, (∀ q ∈ T, PkOK q) → zyRev T = true → headY T = false →
      let p : Pk := { n := newSeq }
      (p.last = none ∧ p.w = 0 ∧ p.pre.length = 0 ∧ p.size < mtu) ∧
      p.y = false ∧ (p.pre = [] → p.z = false) ∧ ¬ (p.n = true ∧ p.z = true) ∧
      (∀ e ∈ p.pre, e ≠ []) ∧ (∀ q ∈ T, PkOK q) ∧ zyRev (p :: T) = true ∧
      elemsRev (p :: T) = elemsRev T := by
    intro T h1 h2 h3
    refine ⟨⟨rfl, rfl, rfl, by simp [size_eq]; omega⟩, rfl, fun _ => rfl, by simp, by simp, h1, ?_, ?_⟩
    · simp [zyRev, h2, h3]
    · simp [elemsRev, Pk.elems, flagElems]
  unfold basePk
  cases out with
  | nil =>
    obtain ⟨a, b, c, d, e, f, g, h⟩ := fresh [] (by simp) rfl rfl
    exact ⟨a, b, c, d, e, f, g, h, by simp, by simp, fun _ => by simp, fun _ => rfl⟩
  | cons q t =>
    dsimp only
    split
    · obtain ⟨a, b, c, d, e, f, g, h⟩ := fresh (q :: t) hinv.pk hinv.zy hinv.hy
      exact ⟨a, b, c, d, e, f, g, h, by simp, by simp, fun _ => by simp, fun _ => rfl⟩
    · rename_i hc
      simp only [Bool.or_eq_true, decide_eq_true_eq, not_or, Nat.not_le] at hc
      have hst := hhead q t rfl
      have hopen : q.last = none ∧ q.w = 0 ∧ q.pre.length = count := by
        rcases hst with h | h | h
        · exact h
        · omega
        · exact absurd (hprom h) (by simpa using hc.2)
      obtain ⟨hshape, hne, hnonempty, hnz⟩ := hinv.pk q (by simp)
      have hpre : q.pre ≠ [] := by
        intro h; apply hne; simp [Pk.elems, h, hopen.1]
      refine ⟨⟨hopen.1, hopen.2.1, hopen.2.2, hc.1⟩, hinv.hy, fun h => absurd h hpre, hnz, ?_,
        fun x hx => hinv.pk x (by simp [hx]), hinv.zy, rfl, by simp, by simp, ?_, ?_⟩
      · intro e he; exact hnonempty e (by simp [Pk.elems, he])
      · intro h; exact absurd h (by simpa using hc.2)
      · intro h; simp at h

theorem firstWrite_facts (p : Pk) (obu : Bytes) (isLast : Bool) (mtu c : Nat) (hs : mtu ≤ 65535)
    (hp : p.last = none ∧ p.w = 0 ∧ p.pre.length = c ∧ p.size < mtu) (ho : obu ≠ []) :
    let f := firstWrite p obu isLast mtu c
    f.2.1 ≤ obu.length ∧ f.1.z = p.z ∧ f.1.y = p.y ∧ f.1.n = p.n ∧
    ((f.2.1 = 0 ∧ f.1 = p ∧ f.2.2 = c ∧ 3 ≤ c) ∨
     (1 ≤ f.2.1 ∧ f.1.elems = p.pre ++ [obu.take f.2.1] ∧ f.1.shapeOK ∧
      (obu.drop f.2.1 = [] → headStatus mtu f.1 f.2.2 isLast))) := by
  obtain ⟨hl, hw, hc, hsz⟩ := hp
  have hol : 1 ≤ obu.length := by
    cases obu with | nil => exact absurd rfl ho | cons a b => simp
  have hszp := size_eq p
  unfold firstWrite
  dsimp only
  split
  · rename_i hcond
    simp only [Bool.and_eq_true, Bool.or_eq_true, decide_eq_true_eq] at hcond
    dsimp only
    refine ⟨by omega, rfl, rfl, rfl, Or.inr ⟨by omega, by simp [Pk.elems],
      Or.inr ⟨rfl, by show c + 1 = p.pre.length + 1; omega, by show c + 1 ≤ 3; omega⟩, ?_⟩⟩
    intro hrem
    rcases hcond.1 with h | h
    · exact Or.inr (Or.inr h)
    · refine Or.inr (Or.inl ?_)
      have hlen : obu.length ≤ min obu.length (mtu - p.size) := by
        have := congrArg List.length hrem
        simp only [List.length_drop, List.length_nil] at this
        omega
      rw [size_eq]
      simp only [Option.getD_some, List.length_take]
      rw [hl] at hszp
      simp only [Option.getD_none, List.length_nil] at hszp
      omega
  · rename_i hcond
    split
    · rename_i hfree
      have hw1 : 1 ≤ min obu.length (mtu - p.size) := by omega
      obtain ⟨h1, h2⟩ := computeWriteSize_fits (min obu.length (mtu - p.size)) (mtu - p.size) hw1 hfree
        (by omega) (by omega)
      have h3 := computeWriteSize_le (min obu.length (mtu - p.size)) (mtu - p.size)
      dsimp only
      refine ⟨by omega, rfl, rfl, rfl, Or.inr ⟨h1, by simp [Pk.elems, hl], Or.inl ⟨hl, hw⟩, ?_⟩⟩
      intro _
      exact Or.inl ⟨hl, hw, by simp [hc]⟩
    · rename_i hfree
      dsimp only
      refine ⟨by omega, rfl, rfl, rfl, Or.inl ⟨rfl, rfl, rfl, ?_⟩⟩
      simp only [Bool.and_eq_true, Bool.or_eq_true, decide_eq_true_eq, not_and, Nat.not_lt] at hcond
      apply hcond
      right
      omega

theorem elemsRev_head_snoc (p H : Pk) (T : List Pk) (e : Bytes) (y : Bool)
    (hz : H.z = p.z) (hy : H.y = y) (hpy : p.y = false) (hpl : p.last = none)
    (helems : H.elems = p.pre ++ [e]) (hpz : p.pre = [] → p.z = false) :
    elemsRev (H :: T) = elemsRev (p :: T) ++ [⟨e, false, y, T.length⟩] := by
  have hpe : p.elems = p.pre := by simp [Pk.elems, hpl]
  simp only [elemsRev, helems, hz, hy, hpy, hpe, List.append_assoc]
  congr 1
  by_cases h : p.pre = []
  · simp [h, flagElems, hpz h]
  · exact flagElems_snoc p.z y T.length p.pre e h

theorem head_of_eq_cons {α : Type} (l : List α) (q : α) (t : List α) (h : l = q :: t) (hne : l ≠ []) :
    l.head hne = q := by subst h; rfl

theorem pkOK_setY (q : Pk) (h : PkOK q) : PkOK { q with y := true } := h

/-- what one call of appendOBUPayload does to the packet list: the invariant is kept, the status of
    the newest packet is as the next call needs it, and the elements gain exactly one chain of
    fragments of the OBU written -/
theorem appendObu_spec (out : List Pk) (obu : Bytes) (newSeq isLast startNew : Bool) (mtu count : Nat)
    (promise : Bool) (hm : 2 ≤ mtu) (hs : mtu ≤ 65535) (ho : obu ≠ [])
    (hinv : OutInv out) (hhead : HeadSt mtu out count promise)
    (hprom : promise = true → startNew = true) :
    let r := appendObu out obu newSeq isLast startNew mtu count
    OutInv r.1 ∧ HeadSt mtu r.1 r.2 isLast ∧
    ∃ k0 pieces, pieces ≠ [] ∧ pieces.flatten = obu ∧
      elemsRev r.1 = elemsRev out ++ chainFrom false k0 pieces ∧
      k0 + pieces.length = r.1.length ∧ out.length ≤ k0 + 1 ∧ k0 ≤ out.length ∧
      (startNew = true → k0 = out.length) := by
  have hol : 1 ≤ obu.length := by
    cases obu with | nil => exact absurd rfl ho | cons a b => simp
  rw [appendObu_eq]
  dsimp only
  obtain ⟨hb1, hby, hbz, hbnz, hbpre, hbT, hbzy, hbel, hblen1, hblen2, hbsn, hbfresh⟩ :=
    basePk_facts out newSeq startNew mtu count promise hm hinv hhead hprom
  generalize basePk out newSeq startNew mtu count = b at *
  obtain ⟨p, T, c⟩ := b
  dsimp only at *
  obtain ⟨hk, hHz, hHy, hHn, hcase⟩ := firstWrite_facts p obu isLast mtu c hs hb1 ho
  generalize firstWrite p obu isLast mtu c = f at *
  obtain ⟨H, k, c'⟩ := f
  dsimp only at *
  rw [fragLoop_eq mtu isLast hm hs _ _ _ _ _ (by simp only [List.length_drop]; omega)]
  have hzyH : ∀ H' : Pk, H'.z = p.z → zyRev (H' :: T) = true := by
    intro H' hz'
    simp only [zyRev, hz'] at hbzy ⊢
    exact hbzy
  by_cases hrem : (obu.drop k).isEmpty = true
  · -- everything fitted into the packet written first
    simp only [hrem, if_true]
    have hdrop : obu.drop k = [] := List.isEmpty_iff.mp hrem
    have hk1 : 1 ≤ k := by
      rcases Nat.eq_zero_or_pos k with h0 | h0
      · subst h0; simp at hdrop; exact absurd hdrop ho
      · exact h0
    rcases hcase with ⟨h0, _⟩ | ⟨_, helems, hshape, hstat⟩
    · omega
    have htake : obu.take k = obu := by
      have := List.take_append_drop k obu
      rw [hdrop, List.append_nil] at this
      exact this
    have hpk : PkOK H := by
      refine ⟨hshape, by rw [helems]; simp, ?_, by rw [hHn, hHz]; exact hbnz⟩
      intro e he
      rw [helems] at he
      simp only [List.mem_append, List.mem_singleton] at he
      rcases he with he | he
      · exact hbpre e he
      · rw [he, htake]; exact ho
    refine ⟨⟨?_, hzyH H hHz, by simp [headY, hHy, hby]⟩, ?_, T.length, [obu.take k], by simp,
      by simp [htake], ?_, by simp, by simpa using hblen1, by simp at hblen2; omega, ?_⟩
    · intro q hq
      simp only [List.mem_cons] at hq
      rcases hq with rfl | hq
      · exact hpk
      · exact hbT q hq
    · intro q t hqt
      simp only [List.cons.injEq] at hqt
      rw [← hqt.1]
      exact hstat hdrop
    · rw [elemsRev_head_snoc p H T (obu.take k) false hHz (by rw [hHy, hby]) hby hb1.1 helems hbz, hbel]
      simp [chainFrom]
    · intro h; have := hbsn h; simp at this; omega
  · -- the OBU continues in new packets
    have hremf : (obu.drop k).isEmpty = false := by simpa using hrem
    have hremne : obu.drop k ≠ [] := by intro h; rw [h] at hremf; simp at hremf
    simp only [hremf, Bool.false_eq_true, if_false]
    have hfuel : (obu.drop k).length ≤ obu.length + 1 := by simp only [List.length_drop]; omega
    have hpf := fragPieces_facts mtu isLast hm hs (obu.length + 1) (obu.drop k) hfuel
    have hpnil := fragPieces_nil_iff mtu isLast (obu.length + 1) (obu.drop k) hfuel
    have hpne : fragPieces mtu isLast (obu.length + 1) (obu.drop k) ≠ [] := fun h => hremne (hpnil.mp h)
    rcases hcase with ⟨h0, hHp, hc', hc3⟩ | ⟨hk1, helems, hshape, _⟩
    · -- nothing could be written to the packet at hand (one byte free, W not available)
      subst h0
      subst hHp
      obtain ⟨f1, f2, f3, f4, f5⟩ := fragPks_facts mtu isLast hm hs (obu.length + 1) (obu.drop 0)
        false (T.length + 1) hfuel
      have hppre : H.pre ≠ [] := by
        intro h; have := hb1.2.2.1; rw [h] at this; simp at this; omega
      have hnotfresh : (H :: T).length = out.length := by
        rcases Nat.lt_or_ge out.length (H :: T).length with h | h
        · exact absurd (hbfresh (by omega)) hppre
        · omega
      have hpk : PkOK H := by
        refine ⟨Or.inl ⟨hb1.1, hb1.2.1⟩, by simp [Pk.elems, hppre], ?_, hbnz⟩
        intro e he
        simp only [Pk.elems, hb1.1, Option.toList_none, List.append_nil] at he
        exact hbpre e he
      simp only [bne_self_eq_false, Bool.false_eq_true, if_false]
      obtain ⟨z1, z2⟩ := zyRev_append_rev (fragPks mtu isLast (obu.length + 1) (obu.drop 0) false) (H :: T)
      refine ⟨⟨?_, ?_, ?_⟩, ?_, T.length + 1, fragPieces mtu isLast (obu.length + 1) (obu.drop 0), hpne,
        by rw [hpf.1]; simp, ?_, ?_, by simp at hnotfresh; omega, by simp at hnotfresh; omega, ?_⟩
      · intro q hq
        simp only [List.mem_append, List.mem_reverse, List.mem_cons] at hq
        rcases hq with hq | rfl | hq
        · obtain ⟨a1, a2, a3, a4, _⟩ := f5 q hq
          exact ⟨a1, a2, a3, by simp [a4]⟩
        · exact hpk
        · exact hbT q hq
      · rw [z1]; simp only [headY, hby, f3, hzyH H rfl, Bool.and_self]
      · rw [z2]; exact f4 _ hremne
      · intro q t hqt
        have hmem : q ∈ fragPks mtu isLast (obu.length + 1) (obu.drop 0) false := by
          have hne : fragPks mtu isLast (obu.length + 1) (obu.drop 0) false ≠ [] := by
            intro h; rw [h] at f2; simp at f2; exact hpne (List.length_eq_zero_iff.mp f2.symm)
          have hq : q = ((fragPks mtu isLast (obu.length + 1) (obu.drop 0) false).reverse ++ H :: T).head (by simp) :=
            (head_of_eq_cons _ q t hqt (by simp)).symm
          rw [List.head_append_of_ne_nil (by simpa using hne)] at hq
          rw [hq]
          exact List.mem_reverse.mp (List.head_mem _)
        exact (f5 q hmem).2.2.2.2
      · rw [elemsRev_append_rev, List.length_cons, f1, hbel]
      · simp only [List.length_append, List.length_reverse, List.length_cons, f2]; omega
      · intro h; have := hbsn h; omega
    · -- part of the OBU was written to the packet at hand: it gets Y, the next packet Z
      have hkne : (k != 0) = true := by simp; omega
      obtain ⟨f1, f2, f3, f4, f5⟩ := fragPks_facts mtu isLast hm hs (obu.length + 1) (obu.drop k)
        true (T.length + 1) hfuel
      simp only [hkne, if_true, setY_cons]
      have hpk : PkOK { H with y := true } := by
        refine ⟨hshape, by show H.elems ≠ []; rw [helems]; simp, ?_, by show ¬(H.n = true ∧ H.z = true); rw [hHn, hHz]; exact hbnz⟩
        intro e he
        have he' : e ∈ H.elems := he
        rw [helems] at he'
        simp only [List.mem_append, List.mem_singleton] at he'
        rcases he' with he' | he'
        · exact hbpre e he'
        · rw [he']
          intro h
          have := congrArg List.length h
          simp only [List.length_take, List.length_nil] at this
          omega
      obtain ⟨z1, z2⟩ := zyRev_append_rev (fragPks mtu isLast (obu.length + 1) (obu.drop k) true)
        ({ H with y := true } :: T)
      refine ⟨⟨?_, ?_, ?_⟩, ?_, T.length,
        obu.take k :: fragPieces mtu isLast (obu.length + 1) (obu.drop k), by simp,
        by simp [hpf.1], ?_, ?_, by simpa using hblen1, by simp at hblen2; omega, ?_⟩
      · intro q hq
        simp only [List.mem_append, List.mem_reverse, List.mem_cons] at hq
        rcases hq with hq | rfl | hq
        · obtain ⟨a1, a2, a3, a4, _⟩ := f5 q hq
          exact ⟨a1, a2, a3, by simp [a4]⟩
        · exact hpk
        · exact hbT q hq
      · rw [z1]; simp only [headY, f3, hzyH { H with y := true } hHz, Bool.and_self]
      · rw [z2]; exact f4 _ hremne
      · intro q t hqt
        have hmem : q ∈ fragPks mtu isLast (obu.length + 1) (obu.drop k) true := by
          have hne : fragPks mtu isLast (obu.length + 1) (obu.drop k) true ≠ [] := by
            intro h; rw [h] at f2; simp at f2; exact hpne (List.length_eq_zero_iff.mp f2.symm)
          have hq : q = ((fragPks mtu isLast (obu.length + 1) (obu.drop k) true).reverse ++
              { H with y := true } :: T).head (by simp) :=
            (head_of_eq_cons _ q t hqt (by simp)).symm
          rw [List.head_append_of_ne_nil (by simpa using hne)] at hq
          rw [hq]
          exact List.mem_reverse.mp (List.head_mem _)
        exact (f5 q hmem).2.2.2.2
      · rw [elemsRev_append_rev, List.length_cons, f1,
          elemsRev_head_snoc p { H with y := true } T (obu.take k) true hHz rfl hby hb1.1 helems hbz, hbel,
          chainFrom_cons]
        simp [List.isEmpty_eq_false_iff.mpr hpne]
      · simp only [List.length_append, List.length_reverse, List.length_cons, f2]; omega
      · intro h; have := hbsn h; simp at this; omega

end Rtp.Model.AV1
