/-
  Rtp/Proofs/AV1PayInv.lean — the invariant of the packet list AV1Payloader builds, and what one call
  of appendOBUPayload adds to the elements it denotes.
-/
import Rtp.Proofs.AV1Pay
namespace Rtp.Model.AV1
open Rtp Rtp.Model Rtp.Spec.Av1Rtp

/-! ### elements of packet lists -/

/-- elements of an oldest-first packet list, packets numbered from `k` -/
def elemsFwd : Nat → List Pk → List Elem
  | _, [] => []
  | k, p :: ps => flagElems p.z p.y k p.elems ++ elemsFwd (k + 1) ps

/-- elements of a NEWEST-first packet list (as the payloader keeps it), oldest packet first -/
def elemsRev : List Pk → List Elem
  | [] => []
  | q :: t => elemsRev t ++ flagElems q.z q.y t.length q.elems

theorem elemsFwd_eq (k : Nat) (ps : List Pk) : elemsFwd k ps = allElems k (ps.map Pk.toPacket) := by
  induction ps generalizing k with
  | nil => rfl
  | cons p ps ih => simp [elemsFwd, allElems, ih, Pk.toPacket]

theorem elemsRev_append_rev (F base : List Pk) :
    elemsRev (F.reverse ++ base) = elemsRev base ++ elemsFwd base.length F := by
  induction F generalizing base with
  | nil => simp [elemsFwd]
  | cons f F ih =>
    simp only [List.reverse_cons, List.append_assoc, List.singleton_append]
    rw [ih (f :: base)]
    simp [elemsRev, elemsFwd]

theorem elemsRev_eq (ps : List Pk) : elemsRev ps = allElems 0 (ps.reverse.map Pk.toPacket) := by
  have := elemsRev_append_rev ps.reverse []
  simp only [List.reverse_reverse, List.append_nil, elemsRev, List.nil_append, List.length_nil] at this
  rw [this, elemsFwd_eq]

/-- a chain of fragments of one OBU: the first continues the previous packet iff `z`, every later
    one does, every one but the last is continued -/
def chainFrom (z : Bool) (k : Nat) : List Bytes → List Elem
  | [] => []
  | [e] => [⟨e, z, false, k⟩]
  | e :: e' :: es => ⟨e, z, true, k⟩ :: chainFrom true (k + 1) (e' :: es)

theorem chainFrom_cons (z : Bool) (k : Nat) (e : Bytes) (es : List Bytes) :
    chainFrom z k (e :: es) = ⟨e, z, !es.isEmpty, k⟩ :: chainFrom true (k + 1) es := by
  cases es <;> simp [chainFrom]

theorem flagElems_snoc (z y : Bool) (k : Nat) (es : List Bytes) (e : Bytes) (hne : es ≠ []) :
    flagElems z y k (es ++ [e]) = flagElems z false k es ++ [⟨e, false, y, k⟩] := by
  induction es generalizing z with
  | nil => exact absurd rfl hne
  | cons a as ih =>
    cases as with
    | nil => simp [flagElems]
    | cons b bs =>
      have := ih false (by simp)
      simp only [List.cons_append] at this ⊢
      simp only [flagElems, this]
      simp

/-- joining a chain that starts a new OBU: one OBU, all pieces concatenated, nothing left open -/
theorem joinPkt_chain_some (u : OUnit) (k : Nat) (es : List Bytes) (hne : es ≠ []) :
    joinPkt (some u) (chainFrom true k es) =
      ([⟨u.bytes ++ es.flatten, u.first, k + es.length - 1⟩], none) := by
  induction es generalizing u k with
  | nil => exact absurd rfl hne
  | cons e es ih =>
    cases es with
    | nil => simp [chainFrom, joinPkt, extend]
    | cons e' es' =>
      have := ih ⟨u.bytes ++ e, u.first, k⟩ (k + 1) (by simp)
      simp only [chainFrom, joinPkt, extend, if_true, this]
      simp only [List.length_cons, List.flatten_cons, List.append_assoc, Prod.mk.injEq, and_true,
        List.cons.injEq, OUnit.mk.injEq, true_and]
      omega

theorem joinPkt_chain_none (k : Nat) (es : List Bytes) (hne : es ≠ []) :
    joinPkt none (chainFrom false k es) = ([⟨es.flatten, k, k + es.length - 1⟩], none) := by
  cases es with
  | nil => exact absurd rfl hne
  | cons e es =>
    cases es with
    | nil => simp [chainFrom, joinPkt, extend]
    | cons e' es' =>
      have := joinPkt_chain_some ⟨e, k, k⟩ (k + 1) (e' :: es') (by simp)
      simp only [chainFrom, joinPkt, extend, if_true, this]
      simp only [List.length_cons, List.flatten_cons, Prod.mk.injEq, and_true, List.cons.injEq,
        OUnit.mk.injEq, true_and, Bool.false_eq_true, if_false]
      omega

theorem joinPkt_append (op : Option OUnit) (a b : List Elem) :
    joinPkt op (a ++ b) =
      ((joinPkt op a).1 ++ (joinPkt (joinPkt op a).2 b).1, (joinPkt (joinPkt op a).2 b).2) := by
  induction a generalizing op with
  | nil => simp [joinPkt]
  | cons e es ih =>
    simp only [List.cons_append, joinPkt]
    split <;> simp [ih]

/-! ### Z/Y links on a newest-first list -/

def headY : List Pk → Bool
  | [] => false
  | q :: _ => q.y

/-- every packet's Z equals the Y of the packet before it (false before the first) -/
def zyRev : List Pk → Bool
  | [] => true
  | q :: t => (q.z == headY t) && zyRev t

def zyFwd : Bool → List Pk → Bool
  | _, [] => true
  | prevY, p :: ps => (p.z == prevY) && zyFwd p.y ps

def lastYF : Bool → List Pk → Bool
  | prevY, [] => prevY
  | _, p :: ps => lastYF p.y ps

theorem zyRev_append_rev (F base : List Pk) :
    zyRev (F.reverse ++ base) = (zyFwd (headY base) F && zyRev base) ∧
    headY (F.reverse ++ base) = lastYF (headY base) F := by
  induction F generalizing base with
  | nil => simp [zyFwd, lastYF]
  | cons f F ih =>
    simp only [List.reverse_cons, List.append_assoc, List.singleton_append]
    obtain ⟨h1, h2⟩ := ih (f :: base)
    rw [h1, h2]
    simp only [zyRev, headY, zyFwd, lastYF, and_true]
    cases f.z == headY base <;> simp

theorem zyChain_of_zyRev (ps : List Pk) (l : List Pk) :
    zyChain false ((ps.reverse ++ l).map Pk.toPacket) =
      (zyRev ps && zyChain (headY ps) (l.map Pk.toPacket)) := by
  induction ps generalizing l with
  | nil => simp [zyRev, headY]
  | cons q t ih =>
    simp only [List.reverse_cons, List.append_assoc, List.singleton_append]
    rw [ih (q :: l)]
    simp only [List.map_cons, zyChain, zyRev, headY, Pk.toPacket]
    cases (q.z == headY t) <;> cases zyRev t <;> simp

end Rtp.Model.AV1
