/-
  Rtp/Proofs/AV1Depack.lean — lemmas about AV1Depacketizer.Unmarshal (C15 AV1 half, C09).
-/
import Rtp.Model.AV1Obs
namespace Rtp.Model.AV1
open Rtp Rtp.Model

/-- Unmarshal returns a value or an error, never a panic (the model has no panic branch: every slice
    expression of the Go code is preceded by the length test the model repeats) -/
theorem depUnmarshal_ne_panic (d : DSt) (p : Bytes) : (depUnmarshal d p).1 ≠ .panic := by
  unfold depUnmarshal
  split
  · simp
  · simp
  · dsimp only
    split
    · simp
    · split <;> simp

/-- a readable payload with Z = 0: the result and the receiver afterwards do not depend on the
    receiver before — the buffer is dropped before the element walk, the flags are overwritten -/
theorem depUnmarshal_z0 (d d' : DSt) (b0 b1 : UInt8) (rest : Bytes)
    (hz : (b0 &&& 0x80 != 0) = false) :
    depUnmarshal d (b0 :: b1 :: rest) = depUnmarshal d' (b0 :: b1 :: rest) := by
  have hb : ∀ buf : Bytes, (if (!false && !buf.isEmpty) = true then ([] : Bytes) else buf) = [] := by
    intro buf; cases buf <;> simp
  simp only [depUnmarshal, hz, hb]

theorem depFeed_congr (d d' : DSt) (ps : List Bytes) (h : d = d') : depFeed d ps = depFeed d' ps := by
  subst h; rfl

end Rtp.Model.AV1
