/-
  Rtp/Proofs/AV1Depack.lean — lemmas about AV1Depacketizer.Unmarshal (C15 AV1 half, C09).
-/
import Rtp.Go.Bits
import Rtp.Model.AV1Obs
namespace Rtp.Model.AV1
open Rtp Rtp.Model

/-- Unmarshal returns a value or an error, never a panic (the model has no panic branch: every slice
    expression of the Go code is preceded by the length test the model repeats) -/
theorem depUnmarshal_ne_panic (d : DSt) (p : Bytes) : (depUnmarshal d p).1 ≠ .panic := by
  unfold depUnmarshal
  split
  · simp
  · simp
  · dsimp only
    split
    · simp
    · split <;> simp

/-- a readable payload with Z = 0: the result and the receiver afterwards do not depend on the
    receiver before — the buffer is dropped before the element walk, the flags are overwritten -/
theorem depUnmarshal_z0 (d d' : DSt) (b0 b1 : UInt8) (rest : Bytes)
    (hz : (b0 &&& 0x80 != 0) = false) :
    depUnmarshal d (b0 :: b1 :: rest) = depUnmarshal d' (b0 :: b1 :: rest) := by
  have hb : ∀ buf : Bytes, (if (!false && !buf.isEmpty) = true then ([] : Bytes) else buf) = [] := by
    intro buf; cases buf <;> simp
  simp only [depUnmarshal, hz, hb]

theorem depFeed_congr (d d' : DSt) (ps : List Bytes) (h : d = d') : depFeed d ps = depFeed d' ps := by
  subst h; rfl

theorem z_bit : ∀ b : UInt8, (b &&& 0x80 != 0) = !(b.toNat / 128 % 2 == 0) := by
  apply Rtp.Bits.forall_u8; decide +kernel

/-- no result of a feed is a panic -/
theorem depFeed_no_panic (st : DSt) (ps : List Bytes) :
    ((depFeed st ps).1.map Res.coarse).all (fun r => !r.isPanic) = true := by
  induction ps generalizing st with
  | nil => simp [depFeed]
  | cons p ps ih =>
    simp only [depFeed, List.map_cons, List.all_cons, ih, Bool.and_true]
    have := depUnmarshal_ne_panic st p
    cases hr : (depUnmarshal st p).1 <;> simp_all [Res.coarse, Res.isPanic]

theorem depFeed_length (st : DSt) (ps : List Bytes) : (depFeed st ps).1.length = ps.length := by
  induction ps generalizing st with
  | nil => simp [depFeed]
  | cons p ps ih => simp [depFeed, ih]

end Rtp.Model.AV1
