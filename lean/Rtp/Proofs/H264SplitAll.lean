/-
  Rtp/Proofs/H264SplitAll.lean — facts about the Annex-B splitter on ARBITRARY buffers: no emitted
  unit contains a start code (so re-splitting an emitted unit returns it whole — what the repair
  of DESIGN §7 row 12 relies on when it hands the pending SPS/PPS to a nested `Payload`).
-/
import Rtp.Proofs.H264Split
import Rtp.Model.H264
namespace Rtp.Proofs.H264
open Rtp Rtp.Model Rtp.Model.H264 Rtp.Spec.Rfc6184

theorem hasSC_of_indexSC_none (l : Bytes) (h : indexSC l = none) : hasSC l = false := by
  induction l with
  | nil => rfl
  | cons a t ih =>
    by_cases hp : ∃ r, a :: t = 0 :: 0 :: 1 :: r
    · obtain ⟨r, e⟩ := hp
      rw [e, indexSC_sc] at h; cases h
    · have hp' : ∀ r, a :: t ≠ 0 :: 0 :: 1 :: r := fun r e => hp ⟨r, e⟩
      rw [indexSC_cons_of_not a t hp'] at h
      rw [hasSC_cons_of_not a t hp']
      apply ih
      cases hi : indexSC t with
      | none => rfl
      | some v => rw [hi] at h; cases h

theorem take_eq_cons2 (t : Bytes) (k : Nat) (x y : UInt8) (r : Bytes) (h : t.take k = x :: y :: r) :
    ∃ t', t = x :: y :: t' := by
  cases t with
  | nil => simp at h
  | cons b t1 =>
    cases k with
    | zero => simp at h
    | succ k =>
      rw [List.take_succ_cons] at h
      simp only [List.cons.injEq] at h
      obtain ⟨rfl, h2⟩ := h
      cases t1 with
      | nil => simp at h2
      | cons c t2 =>
        cases k with
        | zero => simp at h2
        | succ k =>
          rw [List.take_succ_cons] at h2
          simp only [List.cons.injEq] at h2
          obtain ⟨rfl, _⟩ := h2
          exact ⟨t2, rfl⟩

/-- a prefix of a list without start code has none -/
theorem hasSC_take (l : Bytes) (h : hasSC l = false) (k : Nat) : hasSC (l.take k) = false := by
  induction l generalizing k with
  | nil => simp [hasSC]
  | cons a t ih =>
    cases k with
    | zero => simp [hasSC]
    | succ k =>
      have hp : ∀ r, a :: t ≠ 0 :: 0 :: 1 :: r := by
        intro r e; rw [e] at h; simp [hasSC] at h
      rw [hasSC_cons_of_not a t hp] at h
      rw [List.take_succ_cons]
      by_cases hq : ∃ r, a :: t.take k = 0 :: 0 :: 1 :: r
      · obtain ⟨r, e⟩ := hq
        exfalso
        simp only [List.cons.injEq] at e
        obtain ⟨rfl, e2⟩ := e
        obtain ⟨t', rfl⟩ := take_eq_cons2 t k 0 1 r e2
        exact hp t' rfl
      · have hq' : ∀ r, a :: t.take k ≠ 0 :: 0 :: 1 :: r := fun r e => hq ⟨r, e⟩
        rw [hasSC_cons_of_not a _ hq']
        exact ih h k

/-- up to the first start code there is none -/
theorem hasSC_take_index (l : Bytes) (e : Nat) (h : indexSC l = some e) : hasSC (l.take e) = false := by
  induction l generalizing e with
  | nil => simp [indexSC] at h
  | cons a t ih =>
    by_cases hp : ∃ r, a :: t = 0 :: 0 :: 1 :: r
    · obtain ⟨r, e'⟩ := hp
      rw [e', indexSC_sc] at h
      cases h
      simp [hasSC]
    · have hp' : ∀ r, a :: t ≠ 0 :: 0 :: 1 :: r := fun r e => hp ⟨r, e⟩
      rw [indexSC_cons_of_not a t hp'] at h
      obtain ⟨e', he', rfl⟩ := Option.map_eq_some_iff.mp h
      rw [List.take_succ_cons]
      have := ih e' he'
      by_cases hq : ∃ r, a :: t.take e' = 0 :: 0 :: 1 :: r
      · obtain ⟨r, eq⟩ := hq
        exfalso
        simp only [List.cons.injEq] at eq
        obtain ⟨rfl, e2⟩ := eq
        obtain ⟨t', rfl⟩ := take_eq_cons2 t e' 0 1 r e2
        exact hp' t' rfl
      · have hq' : ∀ r, a :: t.take e' ≠ 0 :: 0 :: 1 :: r := fun r e => hq ⟨r, e⟩
        rw [hasSC_cons_of_not a _ hq']
        exact this

theorem splitRest_noSC (rest : Bytes) : ∀ u ∈ splitRest rest, hasSC u = false := by
  induction rest using splitRest.induct with
  | case1 x h =>
    intro u hu
    rw [splitRest_none x h] at hu
    simp at hu; rw [hu]
    exact hasSC_of_indexSC_none x h
  | case2 x e h ih =>
    intro u hu
    rw [splitRest_some x e h] at hu
    rcases List.mem_cons.mp hu with rfl | hu
    · have h1 := hasSC_take_index x e h
      split
      · have : x.take (e - 1) = (x.take e).take (e - 1) := by
          rw [List.take_take]; congr 1; omega
        rw [this]
        exact hasSC_take _ h1 _
      · exact h1
    · exact ih u hu

/-- every unit the splitter emits, on any buffer, is free of start codes -/
theorem emitNalus_noSC (buf : Bytes) : ∀ u ∈ emitNalus buf, hasSC u = false := by
  unfold emitNalus
  cases h : indexSC buf with
  | none =>
    intro u hu
    simp at hu; rw [hu]
    exact hasSC_of_indexSC_none buf h
  | some s => exact splitRest_noSC _

/-- so handing an emitted unit to `Payload` again (the nested payloader of the row-12 repair)
    treats it as that one unit -/
theorem payloadNoStap_of_noSC (mtu : Nat) (s : Bytes) (h : hasSC s = false) :
    payloadNoStap mtu s = stepNoStap mtu s := by
  unfold payloadNoStap
  cases s with
  | nil => simp [stepNoStap]
  | cons a t =>
    simp [emitNalus, indexSC_none_of_hasSC _ h]

end Rtp.Proofs.H264
