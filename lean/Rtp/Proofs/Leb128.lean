import Rtp.Model.Leb128
namespace Rtp.Model
open Rtp

theorem writeLeb_ne_nil (n : Nat) : writeLeb n ≠ [] := by
  unfold writeLeb; split <;> simp

/-- read ∘ write = id, for every natural number and any trailing bytes -/
theorem readLebSpec_writeLeb (n : Nat) (rest : Bytes) :
    readLebSpec (writeLeb n ++ rest) = some (n, (writeLeb n).length) := by
  induction n using Nat.strongRecOn with
  | _ n ih =>
    unfold writeLeb
    split
    · rename_i h
      have : n.toUInt8.toNat = n := by simp [Nat.toUInt8, UInt8.toNat_ofNat']; omega
      simp [readLebSpec, this, h]
    · rename_i h
      have h1 : (n % 128 + 128).toUInt8.toNat = n % 128 + 128 := by
        simp [Nat.toUInt8, UInt8.toNat_ofNat']; omega
      have := ih (n / 128) (by omega)
      simp only [List.cons_append, readLebSpec, h1, this, List.length_cons]
      have h2 : ¬ (n % 128 + 128 < 128) := by omega
      simp only [h2, if_false]
      congr 2
      omega

end Rtp.Model
