/-
  Rtp/Proofs/WireParse.lean — parse-of-encode: what `hdrUnmarshal` / `pktUnmarshal` (Model/Packet)
  make of `Wire.encode` (Spec/Wire), with pad bytes anywhere between the elements.

  `okx` is the widest set of descriptions the parser inverts: besides the RFC-legal elements it
  contains one-byte elements with id 0 and 2–16 bytes (header byte ≠ 0), which the parser treats
  as elements and which `c03_remarshal` therefore has to cover, and the reserved id 15.
-/
import Rtp.Proofs.WireBits
namespace Rtp.Proofs.Wire
open Rtp Rtp.Model Rtp.Spec.Wire

/-! ### RFC 8285 blocks -/

/-- one-byte element header table: id 0–15, length 1–16 -/
theorem hdr1_table : ∀ (id : Fin 16) (l : Fin 16),
    let b : UInt8 := (id.val * 16 + l.val).toUInt8
    (b >>> 4) = id.val.toUInt8 ∧ (b &&& 0x0F).toNat = l.val ∧ ((b == 0) = (id.val == 0 && l.val == 0)) := by
  decide +kernel

def Item.ok1 : Item → Bool
  | .pad => true
  | .elem id d => id.toNat ≤ 14 && 1 ≤ d.length && d.length ≤ 16 && !(id == 0 && d.length == 1)

def Item.ok2 : Item → Bool
  | .pad => true
  | .elem id d => id != 0 && d.length ≤ 255

theorem parseOneByte_pads (k : Nat) : parseOneByte (rep k 0) = .ok ([], 0) := by
  induction k with
  | zero => simp [rep, parseOneByte]
  | succ k ih =>
    simp only [rep, List.replicate_succ]
    rw [parseOneByte]
    simpa [rep] using ih

theorem parseTwoByte_pads (k : Nat) : parseTwoByte (rep k 0) = .ok [] := by
  induction k with
  | zero => simp [rep, parseTwoByte]
  | succ k ih =>
    simp only [rep, List.replicate_succ]
    rw [parseTwoByte.eq_def]
    simpa [rep] using ih

theorem hdr1_facts (id : UInt8) (d : Bytes) (hid : id.toNat ≤ 15) (h1 : 1 ≤ d.length) (h16 : d.length ≤ 16) :
    let b : UInt8 := (id.toNat * 16 + (d.length - 1)).toUInt8
    (b >>> 4) = id ∧ (b &&& 0x0F).toNat + 1 = d.length ∧ ((b == 0) = (id == 0 && d.length == 1)) := by
  have := hdr1_table ⟨id.toNat, by omega⟩ ⟨d.length - 1, by omega⟩
  simp only at this
  obtain ⟨a, b, c⟩ := this
  refine ⟨?_, ?_, ?_⟩
  · rw [a]; simp
  · rw [b]; omega
  · rw [c]
    have : (id == 0) = (id.toNat == 0) := by
      rw [Bool.eq_iff_iff]; simp [← UInt8.toNat_inj]
    rw [this]
    congr 1
    rw [Bool.eq_iff_iff]; simp; omega

@[simp] theorem body1_nil : body1 [] = [] := rfl
@[simp] theorem body1_pad (r : List Item) : body1 (.pad :: r) = 0 :: body1 r := rfl
@[simp] theorem body1_elem (id : UInt8) (d : Bytes) (r : List Item) :
    body1 (.elem id d :: r) = (id.toNat * 16 + (d.length - 1)).toUInt8 :: (d ++ body1 r) := by
  simp [body1, Item.enc1]

@[simp] theorem body2_nil : body2 [] = [] := rfl
@[simp] theorem body2_pad (r : List Item) : body2 (.pad :: r) = 0 :: body2 r := rfl
@[simp] theorem body2_elem (id : UInt8) (d : Bytes) (r : List Item) :
    body2 (.elem id d :: r) = id :: d.length.toUInt8 :: (d ++ body2 r) := by
  simp [body2, Item.enc2]

/-- the reserved-id byte: never a pad, high nibble 15 -/
theorem stop_table : ∀ (n : Fin 16),
    let b : UInt8 := (15 * 16 + n.val).toUInt8
    (b == 0) = false ∧ (b >>> 4) = 15 := by
  decide +kernel

/-- the one-byte walk stops at the reserved id and leaves everything behind it unread -/
theorem parseOneByte_stop (n : UInt8) (rest : Bytes) (k : Nat) (hn : n.toNat < 16) :
    parseOneByte (stopBytes (some (n, rest)) ++ rep k 0) = .ok ([], rest.length + k) := by
  obtain ⟨a, b⟩ := stop_table ⟨n.toNat, hn⟩
  simp only at a b
  simp only [stopBytes, List.cons_append]
  rw [parseOneByte]
  simp only [a, b, Bool.false_eq_true, ↓reduceIte, beq_self_eq_true, List.length_append, rep, List.length_replicate]

/-- the one-byte walk over an encoded item list followed by any tail on which the walk finds no
    further element (alignment pads, or a reserved id and what follows it) -/
theorem parseOneByte_body (items : List Item) (tail : Bytes) (left : Nat) (h : items.all Item.ok1 = true)
    (ht : parseOneByte tail = .ok ([], left)) :
    parseOneByte (body1 items ++ tail) = .ok (elems items, left) := by
  induction items with
  | nil => simpa [elems] using ht
  | cons it r ih =>
    simp only [List.all_cons, Bool.and_eq_true] at h
    obtain ⟨hit, hr⟩ := h
    cases it with
    | pad =>
      simp only [body1_pad, List.cons_append, elems]
      rw [parseOneByte]
      simpa using ih hr
    | elem id d =>
      simp only [Item.ok1, Bool.and_eq_true, decide_eq_true_eq, Bool.not_eq_true'] at hit
      obtain ⟨⟨⟨hid, h1⟩, h16⟩, hnz⟩ := hit
      obtain ⟨fa, fb, fc⟩ := hdr1_facts id d (by omega) h1 h16
      simp only [body1_elem, List.cons_append, List.append_assoc, elems]
      rw [parseOneByte]
      simp only [fa, fb, fc, hnz, Bool.false_eq_true, ↓reduceIte]
      have h15 : (id == 15) = false := by
        rw [Bool.eq_false_iff]; intro hc; simp at hc; rw [hc] at hid; simp at hid
      simp only [h15, Bool.false_eq_true, ↓reduceIte]
      have hlen : ¬ (d ++ (body1 r ++ tail)).length < d.length := by simp
      simp only [hlen, ↓reduceIte, List.drop_left, List.take_left, ih hr]

/-- the two-byte walk -/
theorem parseTwoByte_body (items : List Item) (k : Nat) (h : items.all Item.ok2 = true) :
    parseTwoByte (body2 items ++ rep k 0) = .ok (elems items) := by
  induction items with
  | nil => simpa [elems] using parseTwoByte_pads k
  | cons it r ih =>
    simp only [List.all_cons, Bool.and_eq_true] at h
    obtain ⟨hit, hr⟩ := h
    cases it with
    | pad =>
      simp only [body2_pad, List.cons_append, elems]
      rw [parseTwoByte.eq_def]
      simpa using ih hr
    | elem id d =>
      simp only [Item.ok2, Bool.and_eq_true, decide_eq_true_eq, bne_iff_ne, ne_eq] at hit
      obtain ⟨hid, h255⟩ := hit
      have hl : d.length.toUInt8.toNat = d.length := by simp [Nat.toUInt8]; omega
      simp only [body2_elem, List.cons_append, List.append_assoc, elems]
      rw [parseTwoByte.eq_def]
      have hid' : (id == 0) = false := by simpa using hid
      simp only [hid', Bool.false_eq_true, ↓reduceIte, hl]
      have hlen : ¬ (d ++ (body2 r ++ rep k 0)).length < d.length := by simp
      simp only [hlen, ↓reduceIte, List.drop_left, List.take_left, ih hr]

def stopOk : Option (UInt8 × Bytes) → Bool
  | none => true
  | some (n, _) => n.toNat < 16

def blockOk : ExtBlock → Bool
  | .oneByte items stop => items.all Item.ok1 && stopOk stop && (body1 items ++ stopBytes stop).length ≤ maxBody
  | .twoByte a items => a == 0 && items.all Item.ok2 && (body2 items).length ≤ maxBody
  | .legacy p ws => p != 0xBEDE && p != 0x1000 && ws.length % 4 == 0 && ws.length ≤ maxBody

/-- unread bytes of the block (non-zero only in the reserved-id region) = `ExtBlock.ignored` -/
def blockUnread (b : ExtBlock) : Nat := b.ignored

theorem padTo4_facts (n : Nat) : (n + padTo4 n) % 4 = 0 ∧ padTo4 n < 4 := by
  unfold padTo4; omega

/-- the extension block parser on the block's content (body and alignment pads) -/
theorem parseExtBlock_body (b : ExtBlock) (h : blockOk b = true) :
    parseExtBlock b.profile (b.body ++ rep (padTo4 b.body.length) 0) =
      .ok (b.elements, (b.body ++ rep (padTo4 b.body.length) 0).length - blockUnread b) := by
  cases b with
  | oneByte items stop =>
    simp only [blockOk, Bool.and_eq_true] at h
    obtain ⟨⟨hi, hs⟩, _⟩ := h
    cases stop with
    | none =>
      have := parseOneByte_body items (rep (padTo4 (body1 items).length) 0) 0 hi (parseOneByte_pads _)
      simp only [parseExtBlock, ExtBlock.profile, ExtBlock.body, profileOneByte, beq_self_eq_true, ↓reduceIte,
        stopBytes, List.append_nil, this, ExtBlock.elements, blockUnread, ExtBlock.ignored, Nat.sub_zero]
    | some st =>
      obtain ⟨n, rest⟩ := st
      simp only [stopOk, decide_eq_true_eq] at hs
      have := parseOneByte_body items (stopBytes (some (n, rest)) ++ rep (padTo4 (body1 items ++ stopBytes (some (n, rest))).length) 0) _ hi
        (parseOneByte_stop n rest _ hs)
      simp only [parseExtBlock, ExtBlock.profile, ExtBlock.body, profileOneByte, beq_self_eq_true, ↓reduceIte,
        List.append_assoc, this, ExtBlock.elements, blockUnread, ExtBlock.ignored]
  | twoByte a items =>
    simp only [blockOk, Bool.and_eq_true, beq_iff_eq] at h
    obtain ⟨⟨ha, hi⟩, _⟩ := h
    subst ha
    have e1 : ((0x1000 + (0 : UInt8).toNat).toUInt16 == profileOneByte) = false := by decide
    have e2 : ((0x1000 + (0 : UInt8).toNat).toUInt16 == profileTwoByte) = true := by decide
    simp only [parseExtBlock, ExtBlock.profile, ExtBlock.body, e1, e2, ↓reduceIte,
      Bool.false_eq_true, parseTwoByte_body items _ hi, ExtBlock.elements, blockUnread, ExtBlock.ignored, Nat.sub_zero]
  | legacy p ws =>
    simp only [blockOk, Bool.and_eq_true, bne_iff_ne, ne_eq, beq_iff_eq, decide_eq_true_eq] at h
    obtain ⟨⟨⟨h1, h2⟩, h3⟩, _⟩ := h
    have e1 : (p == profileOneByte) = false := by simpa [profileOneByte] using h1
    have e2 : (p == profileTwoByte) = false := by simpa [profileTwoByte] using h2
    have e3 : padTo4 ws.length = 0 := by unfold padTo4; omega
    simp [parseExtBlock, ExtBlock.profile, ExtBlock.body, e1, e2, e3, ExtBlock.elements, blockUnread, ExtBlock.ignored, rep]

/-! ### the header -/

theorem csrc_bytes_length (cs : List UInt32) : ((cs.map be32).flatten).length = cs.length * 4 := by
  induction cs with
  | nil => rfl
  | cons c r ih => simp [be32, ih]; omega

theorem readCsrcs_flatten (cs : List UInt32) (tail : Bytes) :
    readCsrcs cs.length ((cs.map be32).flatten ++ tail) = cs := by
  induction cs with
  | nil => cases tail <;> simp [readCsrcs]
  | cons c r ih =>
    simp only [List.map_cons, List.flatten_cons, be32, List.cons_append, List.nil_append, List.length_cons, readCsrcs, rd32_be, ih]

theorem drop_csrc_bytes (cs : List UInt32) (tail : Bytes) :
    ((cs.map be32).flatten ++ tail).drop (cs.length * 4) = tail := by
  rw [← csrc_bytes_length, List.drop_left]

/-- the extension part of `hdrUnmarshal`, as a function of what follows the CSRC list -/
def extPart (h : Header) (n : Nat) (tail : Bytes) : Res (Header × Nat) :=
  match tail with
  | p0 :: p1 :: l0 :: l1 :: afterHdr =>
    if afterHdr.length < (rd16 l0 l1).toNat * 4 then .err .shortExt else
    match parseExtBlock (rd16 p0 p1) (afterHdr.take ((rd16 l0 l1).toNat * 4)) with
    | .ok (es, used) => .ok ({ h with extProfile := rd16 p0 p1, exts := es }, n + 4 + used)
    | .err e => .err e
    | .panic => .panic
  | _ => .err .shortExt

theorem hdr_core (r : Header) (b0 b1 s0 s1 t0 t1 t2 t3 c0 c1 c2 c3 : UInt8) (cs : List UInt32) (tail : Bytes)
    (hcc : (b0 &&& 0x0F).toNat = cs.length) :
    hdrUnmarshal r (b0 :: b1 :: s0 :: s1 :: t0 :: t1 :: t2 :: t3 :: c0 :: c1 :: c2 :: c3 :: ((cs.map be32).flatten ++ tail)) =
    (let h : Header :=
      { version := (b0 >>> 6) &&& 0x3, padding := ((b0 >>> 5) &&& 0x1) > 0, extension := ((b0 >>> 4) &&& 0x1) > 0,
        marker := ((b1 >>> 7) &&& 0x1) > 0, payloadType := b1 &&& 0x7F, seq := rd16 s0 s1,
        ts := rd32 t0 t1 t2 t3, ssrc := rd32 c0 c1 c2 c3, csrc := cs, extProfile := r.extProfile, exts := [] }
     if h.extension then extPart h (12 + cs.length * 4) tail else .ok (h, 12 + cs.length * 4)) := by
  have hlen : ¬ ((b0 :: b1 :: s0 :: s1 :: t0 :: t1 :: t2 :: t3 :: c0 :: c1 :: c2 :: c3 :: ((cs.map be32).flatten ++ tail)).length < 12 + cs.length * 4) := by
    simp only [List.length_cons, List.length_append, csrc_bytes_length]; omega
  simp only [hdrUnmarshal, hcc, readCsrcs_flatten, drop_csrc_bytes, hlen, ↓reduceIte, extPart]
  split <;> rfl


def wireOk (w : Wire) : Bool :=
  w.version.toNat < 4 && w.pt.toNat < 128 && w.csrc.length ≤ 15 &&
  (match w.ext with | some b => blockOk b | none => true) &&
  (match w.pad with | some f => f.length ≤ 254 | none => true)

def wireUnread (w : Wire) : Nat := match w.ext with | some b => blockUnread b | none => 0

/-- the header `Header.Unmarshal` has to produce into receiver `r`: the receiver's profile
    survives when the packet has no extension -/
def hdrOf (r : Header) (w : Wire) : Header :=
  { w.toPacket.header with extProfile := match w.ext with | some b => b.profile | none => r.extProfile }

theorem blockUnread_le (b : ExtBlock) : blockUnread b ≤ (b.body ++ rep (padTo4 b.body.length) 0).length := by
  cases b with
  | oneByte items stop =>
    cases stop with
    | none => simp [blockUnread, ExtBlock.ignored]
    | some st =>
      obtain ⟨n, rest⟩ := st
      simp only [blockUnread, ExtBlock.ignored, ExtBlock.body, stopBytes, List.length_append, List.length_cons, rep,
        List.length_replicate]
      omega
  | twoByte a items => simp [blockUnread, ExtBlock.ignored]
  | legacy p ws => simp [blockUnread, ExtBlock.ignored]

theorem extPart_encode (h : Header) (n : Nat) (b : ExtBlock) (rest : Bytes) (hb : blockOk b = true) :
    extPart h n (b.encode ++ rest) =
      .ok ({ h with extProfile := b.profile, exts := b.elements }, n + b.encode.length - blockUnread b) := by
  have hbody : b.body.length ≤ maxBody := by
    cases b with
    | oneByte items stop => simp only [blockOk, Bool.and_eq_true, decide_eq_true_eq] at hb; exact hb.2
    | twoByte a items => simp only [blockOk, Bool.and_eq_true, decide_eq_true_eq] at hb; exact hb.2
    | legacy p ws =>
      simp only [blockOk, Bool.and_eq_true, decide_eq_true_eq] at hb
      exact hb.2
  obtain ⟨hm, hlt⟩ := padTo4_facts b.body.length
  have hwords : ((b.body.length + padTo4 b.body.length) / 4).toUInt16.toNat * 4 = b.body.length + padTo4 b.body.length := by
    simp only [maxBody] at hbody
    simp [Nat.toUInt16]; omega
  simp only [ExtBlock.encode, be16, List.cons_append, List.nil_append, List.append_assoc, extPart, rd16_be, hwords]
  have hl : ¬ (b.body ++ (rep (padTo4 b.body.length) 0 ++ rest)).length < b.body.length + padTo4 b.body.length := by
    simp [rep]
  have ht : (b.body ++ (rep (padTo4 b.body.length) 0 ++ rest)).take (b.body.length + padTo4 b.body.length) =
      b.body ++ rep (padTo4 b.body.length) 0 := by
    rw [← List.append_assoc]
    have : b.body.length + padTo4 b.body.length = (b.body ++ rep (padTo4 b.body.length) 0).length := by simp [rep]
    rw [this, List.take_left]
  simp only [hl, ↓reduceIte, ht, parseExtBlock_body b hb]
  have e : (b.body ++ rep (padTo4 b.body.length) 0).length ≥ blockUnread b := blockUnread_le b
  simp only [List.length_cons]
  congr 2
  omega

theorem hdrUnmarshal_encode (w : Wire) (r : Header) (h : wireOk w = true) :
    hdrUnmarshal r w.encode = .ok (hdrOf r w, w.extEnd - wireUnread w) := by
  simp only [wireOk, Bool.and_eq_true, decide_eq_true_eq] at h
  obtain ⟨⟨⟨⟨hv, hpt⟩, hcc⟩, hext⟩, hpad⟩ := h
  obtain ⟨f1, f2, f3, f4⟩ := byte0_table ⟨w.version.toNat, hv⟩ w.pad.isSome w.ext.isSome ⟨w.csrc.length, by omega⟩
  obtain ⟨g1, g2⟩ := byte1_table w.marker ⟨w.pt.toNat, hpt⟩
  simp only at f1 f2 f3 f4 g1 g2
  simp only [Wire.encode, be16, be32, List.cons_append, List.nil_append, List.append_assoc]
  rw [hdr_core _ _ _ _ _ _ _ _ _ _ _ _ _ _ _ f4]
  simp only [f1, f2, f3, g1, g2, rd16_be, rd32_be, UInt8.ofNat_toNat]
  cases hx : w.ext with
  | none =>
    simp [hx, hdrOf, Wire.toPacket, Wire.extEnd, encodeExt, wireUnread]
    omega
  | some b =>
    simp only [hx] at hext
    simp only [Option.isSome_some, ↓reduceIte, encodeExt, extPart_encode _ _ b _ hext]
    simp [hdrOf, Wire.toPacket, hx, Wire.extEnd, encodeExt, wireUnread]
    omega
/-! ### the packet -/

/-- everything in front of the payload -/
def headBytes (w : Wire) : Bytes :=
  [ (w.version.toNat * 64 + b2n w.pad.isSome * 32 + b2n w.ext.isSome * 16 + w.csrc.length).toUInt8,
    (b2n w.marker * 128 + w.pt.toNat).toUInt8 ] ++
  be16 w.seq ++ be32 w.ts ++ be32 w.ssrc ++ (w.csrc.map be32).flatten ++ encodeExt w.ext

theorem encode_split (w : Wire) : w.encode = headBytes w ++ (w.payload ++ encodePad w.pad) := by
  simp [Wire.encode, headBytes]

theorem headBytes_length (w : Wire) : (headBytes w).length = w.extEnd := by
  simp only [headBytes, Wire.extEnd, be16, be32, List.length_append, List.length_cons, List.length_nil, csrc_bytes_length]
  omega

theorem pktUnmarshal_encode (w : Wire) (r : Packet) (h : wireOk w = true) (hu : wireUnread w = 0) :
    pktUnmarshal r w.encode =
      .ok { header := hdrOf r.header w, payload := w.payload, paddingSize := w.toPacket.paddingSize } := by
  have hpad : (match w.pad with | some f => decide (f.length ≤ 254) | none => true) = true := by
    simp only [wireOk, Bool.and_eq_true] at h; exact h.2
  simp only [pktUnmarshal, hdrUnmarshal_encode w r.header h, hu, Nat.sub_zero]
  have hp : (hdrOf r.header w).padding = w.pad.isSome := by simp [hdrOf, Wire.toPacket]
  rw [hp, encode_split]
  cases hx : w.pad with
  | none =>
    simp [encodePad, Wire.toPacket, hx, ← headBytes_length]
  | some f =>
    simp only [hx, decide_eq_true_eq] at hpad
    have hc : (f.length + 1).toUInt8.toNat = f.length + 1 := by simp [Nat.toUInt8]; omega
    have hlast : (headBytes w ++ (w.payload ++ encodePad (some f))).getLastD 0 = (f.length + 1).toUInt8 := by
      simp only [encodePad]
      rw [← List.append_assoc, ← List.append_assoc]
      simp
    simp only [Option.isSome_some, ↓reduceIte, hlast, hc]
    have hl : (headBytes w ++ (w.payload ++ encodePad (some f))).length = w.extEnd + w.payload.length + f.length + 1 := by
      simp [encodePad, headBytes_length]; omega
    have h1 : ¬ (w.extEnd + w.payload.length + f.length + 1 ≤ w.extEnd) := by omega
    have h2 : ¬ (w.extEnd + w.payload.length + f.length + 1 < w.extEnd + (f.length + 1)) := by omega
    simp only [hl, h1, h2, ↓reduceIte]
    have hs : slice (headBytes w ++ (w.payload ++ encodePad (some f))) w.extEnd
        (w.extEnd + w.payload.length + f.length + 1 - (f.length + 1)) = w.payload := by
      simp only [slice, ← headBytes_length, List.drop_left]
      have : (headBytes w).length + w.payload.length + f.length + 1 - (f.length + 1) - (headBytes w).length = w.payload.length := by omega
      rw [this, List.take_left]
    rw [hs]
    simp [Wire.toPacket, hx]
end Rtp.Proofs.Wire
