/-
  Rtp/Proofs/H264ParseSound.lean — soundness of the RFC 6184 parser of Spec/Rfc6184.lean: whatever
  it accepts IS the encoding of the plan it returns (so `parse` accepts exactly the image of
  `encode`, together with `parse_encode`).  This is what makes "the payloads parse" a meaningful
  shape predicate.
-/
import Rtp.Proofs.H264Parse
namespace Rtp.Proofs.H264
open Rtp Rtp.Spec.Rfc6184

theorem size16_of_bytes (a b : UInt8) : size16 (a.toNat * 256 + b.toNat) = [a, b] := by
  have ha := a.toNat_lt
  have hb := b.toNat_lt
  simp only [size16, List.cons.injEq, and_true]
  constructor
  · apply UInt8.toNat_inj.mp
    simp [Nat.toUInt8, UInt8.toNat_ofNat']; omega
  · apply UInt8.toNat_inj.mp
    simp [Nat.toUInt8]

theorem parseStap_sound (body : Bytes) : ∀ ns, parseStap body = some ns → encStapBody ns = body := by
  fun_induction parseStap body with
  | case1 => intro ns h; cases h; rfl
  | case2 a b tl n hlt => intro ns h; cases h
  | case3 a b tl n hlt r hr ih =>
    intro ns h
    cases h
    have := ih r hr
    simp only [encStapBody, List.length_take, this]
    have hl : min n tl.length = n := by omega
    rw [hl]
    show size16 (a.toNat * 256 + b.toNat) ++ List.take n tl ++ List.drop n tl = a :: b :: tl
    rw [size16_of_bytes]
    simp
  | case4 a b tl n hlt hr ih => intro ns h; cases h
  | case5 l h1 h2 => intro ns h; cases h

/-- the FU header is determined by its S, E, type fields when R = 0 -/
theorem fuHdr_of_fields : ∀ fh : UInt8, (fh.toNat / 32 % 2 == 0) = true →
    fh = fuHdr (fuS fh) (fuE fh) (hType fh) := by
  apply Rtp.Bits.forall_u8; decide +kernel

theorem mkHdr_roundtrip (ind : UInt8) (typ : Nat) (hi : hType ind = 28) (ht : typ < 32) :
    mkHdr (hF (mkHdr (hF ind) (hNri ind) typ)) (hNri (mkHdr (hF ind) (hNri ind) typ)) 28 = ind := by
  have := ind.toNat_lt
  apply UInt8.toNat_inj.mp
  simp only [mkHdr, hF, hNri, hType, Nat.toUInt8, UInt8.toNat_ofNat'] at *
  omega

/-- fragments already consumed while a unit is open -/
def pendingFrags : Option (UInt8 × Nat × List Bytes) → List Bytes
  | none => []
  | some (_, _, []) => []
  | some (ind, typ, c0 :: cs) =>
    (ind :: fuHdr true false typ :: c0) :: cs.map (fun c => ind :: fuHdr false false typ :: c)

theorem encFu_snoc (ind : UInt8) (typ : Nat) (cs : List Bytes) (c : Bytes) :
    encFu ind typ false (cs ++ [c]) =
      cs.map (fun x => ind :: fuHdr false false typ :: x) ++ [ind :: fuHdr false true typ :: c] := by
  induction cs with
  | nil => simp [encFu]
  | cons a cs ih =>
    have : cs ++ [c] ≠ [] := by simp
    rw [List.cons_append, encFu_cons_cons' _ _ _ _ _ this, ih]
    simp
where
  encFu_cons_cons' (ind : UInt8) (typ : Nat) (first : Bool) (c : Bytes) (cs : List Bytes) (h : cs ≠ []) :
      encFu ind typ first (c :: cs) = (ind :: fuHdr first false typ :: c) :: encFu ind typ false cs := by
    cases cs with
    | nil => exact absurd rfl h
    | cons c2 cs2 => simp [encFu]

theorem encFu_first_snoc (ind : UInt8) (typ : Nat) (c0 : Bytes) (cs : List Bytes) (c : Bytes) :
    encFu ind typ true (c0 :: (cs ++ [c])) =
      (ind :: fuHdr true false typ :: c0) :: (cs.map (fun x => ind :: fuHdr false false typ :: x) ++
        [ind :: fuHdr false true typ :: c]) := by
  have : cs ++ [c] ≠ [] := by simp
  rw [encFu_snoc.encFu_cons_cons' _ _ _ _ _ this, encFu_snoc]

theorem parseAux_sound (ps : List Bytes) :
    ∀ (o : Option (UInt8 × Nat × List Bytes)) (plan : List Item),
      (∀ ind typ cs, o = some (ind, typ, cs) → hType ind = 28 ∧ typ < 32 ∧ cs ≠ []) →
      parseAux o ps = some plan → encode plan = pendingFrags o ++ ps := by
  induction ps with
  | nil =>
    intro o plan _ hp
    cases o with
    | none => simp [parseAux] at hp; subst hp; rfl
    | some st => simp [parseAux] at hp
  | cons p ps ih =>
    intro o plan ho hp
    cases o with
    | none =>
      cases p with
      | nil => simp [parseAux] at hp
      | cons h body =>
        simp only [parseAux] at hp
        by_cases h1 : 1 ≤ hType h ∧ hType h ≤ 23
        · rw [if_pos h1] at hp
          obtain ⟨pl, hpl, rfl⟩ := Option.map_eq_some_iff.mp hp
          have := ih none pl (by intro _ _ _ e; cases e) hpl
          simp only [pendingFrags, List.nil_append] at this ⊢
          simp [encode, Item.encode] at this ⊢
          exact this
        · rw [if_neg h1] at hp
          by_cases h2 : hType h = 24
          · rw [if_pos h2] at hp
            cases hs : parseStap body with
            | none => rw [hs] at hp; cases hp
            | some ns =>
              rw [hs] at hp
              obtain ⟨pl, hpl, rfl⟩ := Option.map_eq_some_iff.mp hp
              have := ih none pl (by intro _ _ _ e; cases e) hpl
              simp only [pendingFrags, List.nil_append] at this ⊢
              simp [encode, Item.encode, parseStap_sound body ns hs] at this ⊢
              exact this
          · rw [if_neg h2] at hp
            by_cases h3 : hType h = 28
            · rw [if_pos h3] at hp
              cases body with
              | nil => cases hp
              | cons fh c =>
                simp only at hp
                by_cases hc : (fuS fh && !fuE fh && fh.toNat / 32 % 2 == 0) = true
                · rw [if_pos hc] at hp
                  have ht : hType fh < 32 := by simp only [hType]; omega
                  have := ih (some (h, hType fh, [c])) plan
                    (by intro ind typ cs e; cases e; exact ⟨h3, ht, by simp⟩) hp
                  simp only [Bool.and_eq_true, Bool.not_eq_true'] at hc
                  have hfh := fuHdr_of_fields fh hc.2
                  rw [hc.1.1, hc.1.2] at hfh
                  simp only [pendingFrags, List.map_nil, List.nil_append, List.cons_append] at this ⊢
                  rw [this, ← hfh]
                · rw [if_neg hc] at hp; cases hp
            · rw [if_neg h3] at hp; cases hp
    | some st =>
      obtain ⟨ind, typ, cs⟩ := st
      obtain ⟨hind, htyp, hcs⟩ := ho ind typ cs rfl
      match p with
      | [] => simp [parseAux] at hp
      | [_] => simp [parseAux] at hp
      | h :: fh :: c =>
        simp only [parseAux] at hp
        by_cases hc : (h == ind && hType fh == typ && !fuS fh && fh.toNat / 32 % 2 == 0) = true
        · rw [if_pos hc] at hp
          simp only [Bool.and_eq_true, beq_iff_eq, Bool.not_eq_true'] at hc
          obtain ⟨⟨⟨rfl, hty⟩, hS⟩, hR⟩ := hc
          have hfh := fuHdr_of_fields fh (by simpa using hR)
          rw [hS, hty] at hfh
          cases cs with
          | nil => exact absurd rfl hcs
          | cons c0 cs' =>
            by_cases hE : fuE fh = true
            · rw [if_pos hE] at hp
              obtain ⟨pl, hpl, rfl⟩ := Option.map_eq_some_iff.mp hp
              have := ih none pl (by intro _ _ _ e; cases e) hpl
              simp only [pendingFrags, List.nil_append] at this
              rw [hE] at hfh
              simp only [encode, List.flatMap_cons, Item.encode, pendingFrags] at this ⊢
              rw [this, mkHdr_roundtrip h typ hind htyp, hType_mkHdr _ _ typ htyp, List.cons_append,
                encFu_first_snoc, ← hfh]
              simp
            · rw [if_neg hE] at hp
              have hE' : fuE fh = false := by simpa using hE
              rw [hE'] at hfh
              have := ih (some (h, typ, c0 :: cs' ++ [c])) plan
                (by intro ind typ cs e; cases e; exact ⟨hind, htyp, by simp⟩) hp
              simp only [pendingFrags, List.cons_append, List.map_append, List.map_cons, List.map_nil,
                List.append_assoc] at this ⊢
              rw [this, ← hfh]
              simp
        · rw [if_neg hc] at hp; cases hp

/-- soundness: an accepted payload sequence is exactly the encoding of the returned plan -/
theorem parse_sound (ps : List Bytes) (plan : List Item) (h : parse ps = some plan) :
    encode plan = ps := by
  have := parseAux_sound ps none plan (by intro _ _ _ e; cases e) h
  simpa [pendingFrags] using this

end Rtp.Proofs.H264
