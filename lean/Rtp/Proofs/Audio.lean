/- Rtp/Proofs/Audio.lean — lemmas about the split loop of G711/G722 -/
import Rtp.Model.Audio
namespace Rtp.Model
open Rtp

theorem splitGt_flatten (k : Nat) (hk : 0 < k) (l : Bytes) : (splitGt k hk l).flatten = l := by
  induction l using (measure (fun (l : Bytes) => l.length)).wf.induction with
  | _ l ih =>
    unfold splitGt
    split
    · rename_i h
      have : (splitGt k hk (l.drop k)).flatten = l.drop k :=
        ih (l.drop k) (by simp [InvImage, WellFoundedRelation.rel, List.length_drop]; omega)
      simp [this]
    · simp

/-- every fragment is at most `k` long -/
theorem splitGt_le (k : Nat) (hk : 0 < k) (l : Bytes) : ∀ f ∈ splitGt k hk l, f.length ≤ k := by
  induction l using (measure (fun (l : Bytes) => l.length)).wf.induction with
  | _ l ih =>
    unfold splitGt
    split
    · rename_i h
      intro f hf
      simp only [List.mem_cons] at hf
      rcases hf with rfl | hf
      · simp [List.length_take]; omega
      · exact ih (l.drop k) (by simp [InvImage, WellFoundedRelation.rel, List.length_drop]; omega) f hf
    · rename_i h
      intro f hf
      simp at hf; subst hf; omega

/-- every fragment but the last is exactly `k` long -/
theorem splitGt_dropLast (k : Nat) (hk : 0 < k) (l : Bytes) :
    ∀ f ∈ (splitGt k hk l).dropLast, f.length = k := by
  induction l using (measure (fun (l : Bytes) => l.length)).wf.induction with
  | _ l ih =>
    unfold splitGt
    split
    · rename_i h
      have hne : splitGt k hk (l.drop k) ≠ [] := by
        unfold splitGt; split <;> simp
      intro f hf
      rw [List.dropLast_cons_of_ne_nil hne] at hf
      simp only [List.mem_cons] at hf
      rcases hf with rfl | hf
      · simp [List.length_take]; omega
      · exact ih (l.drop k) (by simp [InvImage, WellFoundedRelation.rel, List.length_drop]; omega) f hf
    · intro f hf; simp at hf

/-- a non-empty input never yields an empty fragment -/
theorem splitGt_nonempty (k : Nat) (hk : 0 < k) (l : Bytes) (hl : l ≠ []) :
    ∀ f ∈ splitGt k hk l, f ≠ [] := by
  induction l using (measure (fun (l : Bytes) => l.length)).wf.induction with
  | _ l ih =>
    unfold splitGt
    split
    · rename_i h
      intro f hf
      simp only [List.mem_cons] at hf
      rcases hf with rfl | hf
      · intro h0
        have h1 : (List.take k l).length = 0 := by rw [h0]; rfl
        rw [List.length_take] at h1; omega
      · have hd : l.drop k ≠ [] := by
          intro h0
          have h1 : (l.drop k).length = 0 := by rw [h0]; rfl
          rw [List.length_drop] at h1; omega
        exact ih (l.drop k) (by simp [InvImage, WellFoundedRelation.rel, List.length_drop]; omega) hd f hf
    · intro f hf; simp at hf; subst hf; exact hl

end Rtp.Model
