/-
  Rtp/Proofs/WireAgree.lean — Header's public accessors and the standalone views agree on the same
  block bytes.
-/
import Rtp.Proofs.WireViewPred
import Rtp.Proofs.WireCanonical
namespace Rtp.Proofs.Wire
open Rtp Rtp.Model Rtp.Spec.Wire Rtp.Pred.C03
open Rtp.Pred.C01 (canonP canonH)

/-- the public accessors of a header decoded from a well-formed image (no reserved id, zero
    appbits) and the standalone view of the matching form on the same block bytes report the same
    ids and the same value for every id -/
theorem views_agree (w : Wire) (b : ExtBlock) (hext : w.ext = some b) (hw : w.WF = true) (hr : w.reserved = false)
    (ha : w.appbits = false) (r : Header) (k : ViewKind) (hk : formMatches k b = true) (hnl : k ≠ .raw) :
    ∃ h n, hdrUnmarshal r w.encode = .ok (h, n) ∧
      viewGetIDs k b.encode = .ok (getExtensionIDs h) ∧
      ∀ q, viewGet k b.encode q = .ok (getExtension h q) := by
  have hok := wireOk_of_WF w hw ha
  have hbw : b.WF = true := by
    simp only [Wire.WF, Bool.and_eq_true, hext] at hw; exact hw.1.2
  have hba : b.appbits = false := by simpa [Wire.appbits, hext] using ha
  have hbo := blockOk_of_WF b hbw hba
  refine ⟨_, _, hdrUnmarshal_encode w r hok, ?_, ?_⟩
  all_goals
    have hx : (hdrOf r w).extension = true := by simp [hdrOf, Wire.toPacket, hext]
    have he : (hdrOf r w).exts = b.elements := by simp [hdrOf, Wire.toPacket, hext]
    have h4 := encode_length_pos b
    have hlt : ¬ b.encode.length < 4 := by omega
  · cases b with
    | oneByte items stop =>
      cases k <;> simp only [formMatches] at hk <;> try (exact absurd hk (by decide))
      have hs : stop = none := by simpa [Wire.reserved, hext, ExtBlock.reserved] using hr
      subst hs
      simp only [blockOk, Bool.and_eq_true] at hbo
      simp only [viewGetIDs, hlt, ↓reduceIte, drop4_encode, ExtBlock.body, stopBytes, List.append_nil,
        oneByteIDs_body items _ hbo.1.1 (oneByteIDs_pads _),
        getExtensionIDs, hx, he, ExtBlock.elements, Bool.not_true, Bool.false_eq_true]
    | twoByte a items =>
      cases k <;> simp only [formMatches] at hk <;> try (exact absurd hk (by decide))
      simp only [blockOk, Bool.and_eq_true] at hbo
      simp only [viewGetIDs, hlt, ↓reduceIte, drop4_encode, ExtBlock.body, twoByteIDs_body items _ hbo.1.2,
        getExtensionIDs, hx, he, ExtBlock.elements, Bool.not_true, Bool.false_eq_true]
    | legacy p ws =>
      cases k <;> simp only [formMatches] at hk <;> first | exact absurd hk (by decide) | exact absurd rfl hnl
  · intro q
    cases b with
    | oneByte items stop =>
      cases k <;> simp only [formMatches] at hk <;> try (exact absurd hk (by decide))
      have hs : stop = none := by simpa [Wire.reserved, hext, ExtBlock.reserved] using hr
      subst hs
      simp only [blockOk, Bool.and_eq_true] at hbo
      simp only [viewGet, drop4_encode, ExtBlock.body, stopBytes, List.append_nil, oneByteGet_body items _ q hbo.1.1,
        getExtension, hx, he, ExtBlock.elements, Bool.not_true, Bool.false_eq_true, ↓reduceIte, oneByteGet_pads]
      cases (elems items).find? (·.id == q) <;> rfl
    | twoByte a items =>
      cases k <;> simp only [formMatches] at hk <;> try (exact absurd hk (by decide))
      simp only [blockOk, Bool.and_eq_true] at hbo
      simp only [viewGet, drop4_encode, ExtBlock.body, twoByteGet_body items _ q hbo.1.2,
        getExtension, hx, he, ExtBlock.elements, Bool.not_true, Bool.false_eq_true, ↓reduceIte]
    | legacy p ws =>
      cases k <;> simp only [formMatches] at hk <;> first | exact absurd hk (by decide) | exact absurd rfl hnl

theorem hdrGetsOK_map (ext : Option ExtBlock) (h : Header) (qs : List UInt8)
    (H : ∀ q v, expectHdrGet ext q = some v → getExtension h q = v) :
    hdrGetsOK ext qs (qs.map (getExtension h)) = true := by
  induction qs with
  | nil => rfl
  | cons q r ih =>
    simp only [List.map_cons, hdrGetsOK, Bool.and_eq_true, ih, and_true]
    cases he : expectHdrGet ext q with
    | none => rfl
    | some v => simp [H q v he]

/-- the public accessors on the header decoded from a description (reserved id or not) -/
theorem accessors_hdrOf (w : Wire) (r : Header) (qs : List UInt8) :
    getExtensionIDs (hdrOf r w) = (match w.ext with | some b => b.ids | none => []) ∧
    hdrGetsOK w.ext qs (qs.map (getExtension (hdrOf r w))) = true := by
  cases hx : w.ext with
  | none =>
    refine ⟨by simp [getExtensionIDs, hdrOf, Wire.toPacket, hx], ?_⟩
    apply hdrGetsOK_map
    intro q v he
    simp only [expectHdrGet] at he
    cases he
    simp [getExtension, hdrOf, Wire.toPacket, hx]
  | some b =>
    have hxx : (hdrOf r w).extension = true := by simp [hdrOf, Wire.toPacket, hx]
    have he : (hdrOf r w).exts = b.elements := by simp [hdrOf, Wire.toPacket, hx]
    refine ⟨by simp [getExtensionIDs, hxx, he, ExtBlock.ids], ?_⟩
    apply hdrGetsOK_map
    intro q v hq
    simp only [expectHdrGet] at hq
    simp only [getExtension, hxx, he, Bool.not_true, Bool.false_eq_true, ↓reduceIte]
    split at hq
    · cases hq; rfl
    · split at hq
      · rename_i hm
        cases hq
        have hnone : (b.elements.find? (·.id == q)) = none := by
          rw [List.find?_eq_none]
          intro x hx'
          simp only [Bool.not_eq_true'] at hm
          have hsub : (b.elements.any (·.id == q)) = false := by
            cases b with
            | oneByte items stop =>
              simp only [ExtBlock.mentions, Bool.or_eq_false_iff] at hm
              simpa [ExtBlock.elements] using hm.2
            | twoByte a items => simpa [ExtBlock.mentions, ExtBlock.elements] using hm
            | legacy p ws =>
              have : q ≠ 0 := by simpa [ExtBlock.mentions] using hm
              simp [ExtBlock.elements, Ne.symm this]
          have := List.any_eq_false.mp hsub x hx'
          simpa using this
        simp [hnone]
      · cases hq

end Rtp.Proofs.Wire
