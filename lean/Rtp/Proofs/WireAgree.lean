/-
  Rtp/Proofs/WireAgree.lean — Header's public accessors and the standalone views agree on the same
  block bytes.
-/
import Rtp.Proofs.WireViewPred
import Rtp.Proofs.WireCanonical
namespace Rtp.Proofs.Wire
open Rtp Rtp.Model Rtp.Spec.Wire Rtp.Pred.C03
open Rtp.Pred.C01 (canonP canonH)

/-- the public accessors of a header decoded from a well-formed image (no reserved id) and the
    standalone view of the matching form on the same block bytes report the same ids and the same
    value for every id -/
theorem views_agree (w : Wire) (b : ExtBlock) (hext : w.ext = some b) (hw : w.WF = true) (hr : w.reserved = false)
    (r : Header) (k : ViewKind) (hk : formMatches k b = true) (hnl : k ≠ .raw) :
    ∃ h n, hdrUnmarshal r w.encode = .ok (h, n) ∧
      viewGetIDs k b.encode = .ok (getExtensionIDs h) ∧
      ∀ q, viewGet k b.encode q = .ok (getExtension h q) := by
  have hok := wireOk_of_WF w hw
  have hbw : b.WF = true := by
    simp only [Wire.WF, Bool.and_eq_true, hext] at hw; exact hw.1.2
  refine ⟨_, _, hdrUnmarshal_encode w r hok, ?_, ?_⟩
  all_goals
    have hx : (hdrOf r w).extension = true := by simp [hdrOf, Wire.toPacket, hext]
    have he : (hdrOf r w).exts = b.elements := by simp [hdrOf, Wire.toPacket, hext]
    have h4 := encode_length_pos b
    have hlt : ¬ b.encode.length < 4 := by omega
  · cases b with
    | oneByte items =>
      cases k <;> simp only [formMatches] at hk <;> try (exact absurd hk (by decide))
      have hok1 : items.all Item.ok1 = true := by
        have := blockOk_of_WF _ hbw
        simp only [blockOk, Bool.and_eq_true] at this; exact this.1
      simp only [viewGetIDs, hlt, ↓reduceIte, drop4_encode, ExtBlock.body, oneByteIDs_body items _ hok1,
        getExtensionIDs, hx, he, ExtBlock.elements, Bool.not_true, Bool.false_eq_true]
    | twoByte items =>
      cases k <;> simp only [formMatches] at hk <;> try (exact absurd hk (by decide))
      have hok2 : items.all Item.ok2 = true := by
        have := blockOk_of_WF _ hbw
        simp only [blockOk, Bool.and_eq_true] at this; exact this.1
      simp only [viewGetIDs, hlt, ↓reduceIte, drop4_encode, ExtBlock.body, twoByteIDs_body items _ hok2,
        getExtensionIDs, hx, he, ExtBlock.elements, Bool.not_true, Bool.false_eq_true]
    | legacy p ws =>
      cases k <;> simp only [formMatches] at hk <;> first | exact absurd hk (by decide) | exact absurd rfl hnl
  · intro q
    cases b with
    | oneByte items =>
      cases k <;> simp only [formMatches] at hk <;> try (exact absurd hk (by decide))
      have hok1 : items.all Item.ok1 = true := by
        have := blockOk_of_WF _ hbw
        simp only [blockOk, Bool.and_eq_true] at this; exact this.1
      have hnr : items.any Item.isReserved = false := by simpa [Wire.reserved, hext, ExtBlock.reserved] using hr
      simp only [viewGet, drop4_encode, ExtBlock.body, oneByteGet_body items _ q hok1,
        getExtension, hx, he, ExtBlock.elements, Bool.not_true, Bool.false_eq_true, ↓reduceIte, elems1_noReserved _ hnr]
    | twoByte items =>
      cases k <;> simp only [formMatches] at hk <;> try (exact absurd hk (by decide))
      have hok2 : items.all Item.ok2 = true := by
        have := blockOk_of_WF _ hbw
        simp only [blockOk, Bool.and_eq_true] at this; exact this.1
      simp only [viewGet, drop4_encode, ExtBlock.body, twoByteGet_body items _ q hok2,
        getExtension, hx, he, ExtBlock.elements, Bool.not_true, Bool.false_eq_true, ↓reduceIte]
    | legacy p ws =>
      cases k <;> simp only [formMatches] at hk <;> first | exact absurd hk (by decide) | exact absurd rfl hnl

end Rtp.Proofs.Wire
