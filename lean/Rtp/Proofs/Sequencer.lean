/-
  Rtp/Proofs/Sequencer.lean — helper lemmas for C07.

  Part 1: the sequential model refines the abstract counter of Rtp/Spec/Counter.lean.
  Part 2 (below): the small-step interleaving semantics and its invariant.
-/
import Rtp.Model.Sequencer
import Rtp.Pred.C07
namespace Rtp.Proofs.Sequencer
open Rtp Rtp.Model Rtp.Spec.Counter Rtp.Pred.C07

/-- refinement relation: the two Go fields represent the extended count `n` -/
def Rep (n : Nat) (s : SeqState) : Prop :=
  s.seq.toNat = n % 65536 ∧ s.roc.toNat = n / 65536 % 2 ^ 64

theorem rep_init (s : SeqState) (h : s.roc = 0) : Rep s.seq.toNat s := by
  have := s.seq.toNat_lt
  constructor
  · omega
  · rw [h]; simp; omega

theorem next_val (n : Nat) (s : SeqState) (h : Rep n s) : s.next.1.toNat = (n + 1) % 65536 := by
  obtain ⟨h1, _⟩ := h
  simp only [SeqState.next, UInt16.toNat_add]
  simp; omega

theorem next_rep (n : Nat) (s : SeqState) (h : Rep n s) : Rep (n + 1) s.next.2 := by
  have hv := next_val n s h
  obtain ⟨h1, h2⟩ := h
  simp only [SeqState.next] at hv ⊢
  refine ⟨hv, ?_⟩
  by_cases hz : s.seq + 1 = 0
  · have : (n + 1) % 65536 = 0 := by rw [← hv, hz]; rfl
    simp only [hz, beq_self_eq_true, if_true, UInt64.toNat_add]
    simp; omega
  · have : (n + 1) % 65536 ≠ 0 := by
      intro h0; apply hz; apply UInt16.toNat_inj.mp; rw [hv, h0]; rfl
    simp only [beq_iff_eq, hz, if_false]
    omega

theorem step_rep (n : Nat) (s : SeqState) (h : Rep n s) (op : Op) :
    (s.step op).1 = (Spec.Counter.step n op).1 ∧ Rep (Spec.Counter.step n op).2 (s.step op).2 := by
  cases op with
  | next => exact ⟨by simpa [SeqState.step, Spec.Counter.step, value] using next_val n s h,
                   by simpa [SeqState.step, Spec.Counter.step] using next_rep n s h⟩
  | roc => exact ⟨by simpa [SeqState.step, Spec.Counter.step, rollovers, SeqState.rollOverCount] using h.2,
                  by simpa [SeqState.step, Spec.Counter.step] using h⟩

/-- the Go sequencer, run sequentially, IS the abstract counter -/
theorem run_refines (n : Nat) (s : SeqState) (h : Rep n s) (ops : List Op) :
    s.run ops = Spec.Counter.run n ops := by
  induction ops generalizing n s with
  | nil => rfl
  | cons op ops ih =>
    obtain ⟨h1, h2⟩ := step_rep n s h op
    simp only [SeqState.run, Spec.Counter.run]
    rw [h1, ih _ _ h2]

theorem exec_refines (n : Nat) (s : SeqState) (h : Rep n s) (ops : List Op) :
    Rep (Spec.Counter.exec n ops) (s.exec ops) := by
  induction ops generalizing n s with
  | nil => exact h
  | cons op ops ih =>
    obtain ⟨_, h2⟩ := step_rep n s h op
    simp only [SeqState.exec, Spec.Counter.exec]
    exact ih _ _ h2

theorem exec_eq (n : Nat) (ops : List Op) : Spec.Counter.exec n ops = n + nexts ops := by
  induction ops generalizing n with
  | nil => rfl
  | cons op ops ih =>
    cases op <;> simp only [Spec.Counter.exec, Spec.Counter.step, nexts, ih] <;> omega

/-- no gaps, no duplicates: the k-th value handed out is `(n + 1 + k) mod 2^16` -/
theorem counter_nextResults (n : Nat) (ops : List Op) :
    nextResults ops (Spec.Counter.run n ops) = (List.range (nexts ops)).map (fun k => (n + 1 + k) % 65536) := by
  induction ops generalizing n with
  | nil => simp [nextResults, nexts]
  | cons op ops ih =>
    cases op with
    | next =>
      simp only [Spec.Counter.run, Spec.Counter.step, nextResults, nexts, ih, value, List.range_succ_eq_map,
        List.map_cons, List.map_map]
      congr 1
      apply List.map_congr_left
      intro k _
      simp only [Function.comp, Nat.succ_eq_add_one]
      congr 1; omega
    | roc => simp only [Spec.Counter.run, Spec.Counter.step, nextResults, nexts, ih]

/-- the predicate of `c07.run` holds of every run of the abstract counter -/
theorem walk_spec (st : Start) (n : Nat) (last : Option Nat) (zeros : Nat) (ops : List Op)
    (hz : zeros = n / 65536)
    (hl : last = some (n % 65536) ∨ (last = none ∧ firstOk st ((n + 1) % 65536) = true)) :
    walk st last zeros ops (Spec.Counter.run n ops) = true := by
  induction ops generalizing n last zeros with
  | nil => simp [Spec.Counter.run, walk]
  | cons op ops ih =>
    cases op with
    | next =>
      simp only [Spec.Counter.run, Spec.Counter.step, value, walk, Bool.and_eq_true, decide_eq_true_eq]
      refine ⟨⟨by omega, ?_⟩, ?_⟩
      · rcases hl with hl | ⟨hl, hf⟩
        · subst hl; simp
        · subst hl; simpa using hf
      · apply ih
        · split <;> rename_i h <;> simp at h <;> omega
        · left; rfl
    | roc =>
      simp only [Spec.Counter.run, Spec.Counter.step, rollovers, walk, Bool.and_eq_true, beq_iff_eq]
      exact ⟨by rw [hz], ih n last zeros hz hl⟩

/-- conversely, the predicate pins the run down: with the first value prescribed (`first`), an
    observation that satisfies it IS the abstract counter's run -/
theorem walk_unique (st : Start) (n : Nat) (last : Option Nat) (zeros : Nat) (ops : List Op) (obs : List Nat)
    (hz : zeros = n / 65536)
    (hl : last = some (n % 65536) ∨ (last = none ∧ ∀ v, firstOk st v = true → v = (n + 1) % 65536))
    (h : walk st last zeros ops obs = true) : obs = Spec.Counter.run n ops := by
  induction ops generalizing n last zeros obs with
  | nil =>
    cases obs with
    | nil => rfl
    | cons v vs => simp [walk] at h
  | cons op ops ih =>
    cases obs with
    | nil => cases op <;> simp [walk] at h
    | cons v vs =>
      cases op with
      | next =>
        simp only [walk, Bool.and_eq_true, decide_eq_true_eq] at h
        obtain ⟨⟨hv, hfirst⟩, hrest⟩ := h
        have hv' : v = (n + 1) % 65536 := by
          rcases hl with hl | ⟨hl, hf⟩
          · subst hl; simp only [beq_iff_eq] at hfirst; omega
          · subst hl; exact hf v hfirst
        simp only [Spec.Counter.run, Spec.Counter.step, value]
        rw [← hv']
        congr 1
        apply ih (n + 1) (some v) _ vs _ (Or.inl (by rw [hv'])) hrest
        subst hv'
        split <;> rename_i h0 <;> simp at h0 <;> omega
      | roc =>
        simp only [walk, Bool.and_eq_true, beq_iff_eq] at h
        simp only [Spec.Counter.run, Spec.Counter.step, rollovers]
        rw [h.1, hz]
        congr 1
        exact ih n last zeros vs hz hl h.2

theorem first_fixed (s : UInt16) : ((SeqState.newFixed s).seq.toNat + 1) % 65536 = s.toNat := by
  have := s.toNat_lt
  simp only [SeqState.newFixed, UInt16.toNat_sub]
  simp; omega

theorem first_random (r : Nat) (h : r < SeqState.maxInitialRandom) :
    ((SeqState.newRandom r).seq.toNat + 1) % 65536 = r + 1 := by
  simp only [SeqState.maxInitialRandom] at h
  simp only [SeqState.newRandom]
  simp; omega

end Rtp.Proofs.Sequencer
