/-
  Rtp/Proofs/H264History.lean — whole histories of `Payload` calls: the payloads are the RFC 6184
  encoding of a legal plan whose units are the input's units after hold-back (towards c10_shape,
  c10_roundtrip).
-/
import Rtp.Proofs.H264Step
import Rtp.Proofs.H264Parse
import Rtp.Proofs.H264Obs
import Rtp.Proofs.H264Holdback
namespace Rtp.Proofs.H264
open Rtp Rtp.Model Rtp.Model.H264 Rtp.Model.H264.Obs Rtp.Spec.Rfc6184 Rtp.Pred

abbrev Pend := Option Bytes × Option Bytes

/-- groups released by a list of (MTU, unit), and the pending pair afterwards -/
def stepsOut (disable : Bool) : Pend → List (Nat × Bytes) → List Group × Pend
  | p, [] => ([], p)
  | p, (m, n) :: ns =>
    let r := stepOut disable m p.1 p.2 n
    let rs := stepsOut disable r.2 ns
    (r.1 ++ rs.1, rs.2)

theorem stepsOut_append (disable : Bool) (p : Pend) (a b : List (Nat × Bytes)) :
    stepsOut disable p (a ++ b) =
      ((stepsOut disable p a).1 ++ (stepsOut disable (stepsOut disable p a).2 b).1,
       (stepsOut disable (stepsOut disable p a).2 b).2) := by
  induction a generalizing p with
  | nil => simp [stepsOut]
  | cons n ns ih => obtain ⟨m, n⟩ := n; simp [stepsOut, ih]

def pendOf (st : PayState) : Pend := (st.sps, st.pps)

theorem steps_spec (disable : Bool) (mtu : Nat) (hm : 3 ≤ mtu) (hm2 : mtu < 65536)
    (nals : List Bytes) (hw : ∀ n ∈ nals, nalWF n = true) (st : PayState) (hst : StOk st) :
    StepPlan (steps disable mtu st nals).1 (stepsOut disable (pendOf st) (nals.map (mtu, ·))).1 ∧
    pendOf (steps disable mtu st nals).2 = (stepsOut disable (pendOf st) (nals.map (mtu, ·))).2 ∧
    StOk (steps disable mtu st nals).2 := by
  induction nals generalizing st with
  | nil => exact ⟨StepPlan.nil, rfl, hst⟩
  | cons n ns ih =>
    obtain ⟨h1, h2, h3⟩ := step_spec disable mtu hm hm2 st n (hw n (by simp)) hst
    obtain ⟨k1, k2, k3⟩ := ih (fun m hm' => hw m (by simp [hm'])) (step disable mtu st n).2 h3
    have e : pendOf (step disable mtu st n).2 = (stepOut disable mtu st.sps st.pps n).2 := h2
    simp only [steps, stepsOut, pendOf, List.map_cons] at *
    rw [← e]
    exact ⟨StepPlan.append h1 k1, k2, k3⟩

/-! ### one call, then a history -/

theorem call_payload (disable : Bool) (st : PayState) (c : C10.RtCall)
    (hb : c.bare = true → c.units.length = 1) (hw : ∀ u ∈ c.units, nalWF u.2 = true) :
    payload disable c.mtu st c.buffer = steps disable c.mtu.toNat st c.nals := by
  unfold payload C10.RtCall.buffer C10.RtCall.nals
  cases hbare : c.bare with
  | true =>
    have := hb hbare
    match hu : c.units, this with
    | [(f, n)], _ =>
      have hn : nalWF n = true := hw (f, n) (by simp [hu])
      have hne : n ≠ [] := (nalOk_of_wf n hn).1
      simp only [if_true, List.map_cons, List.map_nil]
      rw [if_neg (by simpa using hne), emitNalus_bare n (nalOk_of_wf n hn)]
  | false =>
    simp only [Bool.false_eq_true, if_false]
    cases hu : c.units with
    | nil => simp [annexB, steps]
    | cons u r =>
      have hall : ∀ v ∈ (u :: r), nalOk v.2 := by
        intro v hv; exact nalOk_of_wf v.2 (hw v (by simpa [hu] using hv))
      rw [emitNalus_annexB (u :: r) (by simp) hall]
      have hne : (annexB (u :: r)).isEmpty = false := by
        obtain ⟨f, n⟩ := u
        cases f <;> simp [annexB]
      rw [hne]; simp

theorem observePkts_append (avc : Bool) (buf : Bytes) (a b : List Bytes) :
    observePkts avc buf (a ++ b) =
      ((observePkts avc buf a).1 ++ (observePkts avc (observePkts avc buf a).2 b).1,
       (observePkts avc (observePkts avc buf a).2 b).2) := by
  induction a generalizing buf with
  | nil => simp [observePkts]
  | cons p ps ih => simp [observePkts, ih]

theorem rtCalls_flatten (disable avc : Bool) (st : PayState) (buf : Bytes) (cs : List C10.RtCall) :
    (rtCalls disable avc st buf cs).flatten = (observePkts avc buf (fragsCalls disable st cs)).1 ∧
    (rtCalls disable avc st buf cs).length = cs.length := by
  induction cs generalizing st buf with
  | nil => simp [rtCalls, fragsCalls, observePkts]
  | cons c cs ih =>
    have := ih (payload disable c.mtu st c.buffer).2
      (observePkts avc buf (payload disable c.mtu st c.buffer).1).2
    simp [rtCalls, fragsCalls, observePkts_append, this.1, this.2]

theorem frags_spec (disable : Bool) (cs : List C10.RtCall) (hw : ∀ c ∈ cs, C10.RtCall.WF c) (st : PayState)
    (hst : StOk st) :
    StepPlan (fragsCalls disable st cs) (stepsOut disable (pendOf st) (cs.flatMap C10.RtCall.tagged)).1 := by
  induction cs generalizing st with
  | nil => exact StepPlan.nil
  | cons c cs ih =>
    obtain ⟨hm, hb, hu⟩ := hw c (by simp)
    have hnals : ∀ n ∈ c.nals, nalWF n = true := by
      intro n hn
      simp only [C10.RtCall.nals, List.mem_map] at hn
      obtain ⟨u, hu', rfl⟩ := hn
      exact hu u hu'
    obtain ⟨h1, h2, h3⟩ := steps_spec disable c.mtu.toNat hm c.mtu.toNat_lt c.nals hnals st hst
    have ih' := ih (fun c' hc' => hw c' (by simp [hc'])) (steps disable c.mtu.toNat st c.nals).2 h3
    have ht : c.tagged = c.nals.map (c.mtu.toNat, ·) := by
      simp [C10.RtCall.tagged, C10.RtCall.nals]
    simp only [fragsCalls, call_payload disable st c hb hu, List.flatMap_cons, stepsOut_append, ht]
    rw [h2] at ih'
    exact StepPlan.append h1 ih'

/-! ### hold-back at the level of units -/

theorem stepsOut_disable (p : Pend) (ts : List (Nat × Bytes)) :
    flatOf (stepsOut true p ts).1 = (ts.map (·.2)).filter (fun n => !isDropped n) ∧
    ∀ g ∈ (stepsOut true p ts).1, g.1 = false := by
  induction ts generalizing p with
  | nil => simp [stepsOut, flatOf]
  | cons t ts ih =>
    obtain ⟨m, n⟩ := t
    have := ih p
    simp only [flatOf] at this
    simp only [stepsOut, stepOut, List.map_cons, List.filter_cons, flatOf]
    by_cases hd : isDropped n = true
    · simpa [hd] using this
    · simp only [hd, Bool.false_eq_true, if_false, if_true, List.cons_append, List.nil_append,
        List.flatMap_cons, Bool.not_false, List.mem_cons, forall_eq_or_imp, true_and]
      exact ⟨by rw [this.1], this.2⟩

theorem stepsOut_holdback (p : Pend) (ts : List (Nat × Bytes)) :
    flatOf (stepsOut false p ts).1 = holdback p.1 p.2 (ts.map (·.2)) := by
  induction ts generalizing p with
  | nil => rfl
  | cons t ts ih =>
    obtain ⟨m, n⟩ := t
    obtain ⟨s, q⟩ := p
    simp only [stepsOut, stepOut, holdback, Bool.false_eq_true, if_false, List.map_cons, flatOf,
      List.flatMap_append]
    simp only [flatOf] at ih
    by_cases hd : isDropped n = true
    · simp [hd, ih]
    · simp only [hd, Bool.false_eq_true, if_false]
      by_cases h7 : isSps n = true
      · simp [h7, ih]
      · simp only [h7, Bool.false_eq_true, if_false]
        by_cases h8 : isPps n = true
        · simp [h8, ih]
        · simp only [h8, Bool.false_eq_true, if_false]
          cases s <;> cases q <;> simp [ih]
          split <;> simp

theorem flatOf_group (plan : List Item) : flatOf (plan.map Item.group) = plan.flatMap Item.nals := by
  simp [flatOf, List.flatMap_map, Item.group]

theorem tagged_snd (cs : List C10.RtCall) :
    (cs.flatMap C10.RtCall.tagged).map (·.2) = cs.flatMap C10.RtCall.nals := by
  induction cs with
  | nil => rfl
  | cons c cs ih =>
    simp only [List.flatMap_cons, List.map_append, ih]
    simp [C10.RtCall.tagged, C10.RtCall.nals]

/-- a whole history from a new payloader: the fragments are the encoding of a legal plan, packed
    as `stepsOut` says, that carries exactly the units `delivered` says -/
theorem history_plan (disable : Bool) (cs : List C10.RtCall) (hw : ∀ c ∈ cs, C10.RtCall.WF c) :
    ∃ plan : List Item, fragsCalls disable {} cs = encode plan ∧ plan.all Item.wf = true ∧
      plan.all C10.headsApply = true ∧
      plan.map Item.group = (stepsOut disable (none, none) (cs.flatMap C10.RtCall.tagged)).1 ∧
      plan.flatMap Item.nals = delivered disable (cs.flatMap C10.RtCall.nals) := by
  obtain ⟨plan, e, w, ha, k⟩ := (frags_spec disable cs hw {} StOk.empty).ex
  refine ⟨plan, e, w, ha, k, ?_⟩
  rw [← flatOf_group, k]
  cases disable with
  | true => simp [delivered, (stepsOut_disable _ _).1, tagged_snd]
  | false => simp [delivered, stepsOut_holdback, pendOf, tagged_snd]

theorem callWF_of_wf (i : C10.RtInput) (h : i.wf = true) : ∀ c ∈ i.calls, C10.RtCall.WF c := by
  intro c hc
  simp only [C10.RtInput.wf, Bool.and_eq_true, List.all_eq_true, decide_eq_true_eq,
    Bool.or_eq_true, Bool.not_eq_true', beq_iff_eq] at h
  obtain ⟨⟨h1, h2⟩, h3⟩ := h.1 c hc
  refine ⟨h1, ?_, fun u hu => h3 u hu⟩
  intro hb
  rcases h2 with h2 | h2
  · rw [hb] at h2; cases h2
  · exact h2

theorem expected_of_wf (i : C10.RtInput) (h : i.wf = true) : delivered i.disable i.nals = i.expected := by
  simp only [C10.RtInput.wf, Bool.and_eq_true, Bool.or_eq_true] at h
  simp only [delivered, C10.RtInput.expected]
  cases hd : i.disable with
  | true => simp
  | false =>
    simp only [Bool.false_eq_true, if_false]
    rcases h.2 with h2 | h2
    · rw [hd] at h2; cases h2
    · exact holdback_paired i.nals h2

end Rtp.Proofs.H264
