/-
  Rtp/Proofs/HeaderExtStart.lean — start states obtained from the wire: what Header.Unmarshal
  produces satisfies C05's invariant (`legal`), except that the one-byte parser lets an element
  with id 0 and 2–16 bytes through (header byte 0x01–0x0F), which SetExtension would refuse.
-/
import Rtp.Proofs.PacketParse
import Rtp.Proofs.HeaderExtWire
namespace Rtp.Proofs.HeaderExt
open Rtp Rtp.Model Rtp.Pred Rtp.Pred.C05 Rtp.Pred.C02 Rtp.Proofs.PacketParse

theorem hdrUnmarshalL_legal (r : Header) (buf : Bytes) (h : Header) (n : Nat) (locs : List Nat)
    (hok : hdrUnmarshalL r buf = .ok (h, n, locs))
    (hid : h.extProfile = profileOneByte → ∀ e ∈ h.exts, e.id ≠ 0) : legal h = true := by
  by_cases hx : h.extension = true
  · obtain ⟨start, block, tail, es, used, _, hp, he, _, _, _⟩ := hdrUnmarshalL_ok_ext r buf h n locs hok hx
    unfold legal
    simp only [hx, Bool.not_true, Bool.false_eq_true, if_false]
    unfold parseExtBlockL at hp
    by_cases h1 : (h.extProfile == profileOneByte) = true
    · have hp1 : h.extProfile = profileOneByte := by simpa using h1
      simp only [h1, if_true, Bool.true_or] at hp ⊢
      split at hp
      · rename_i es' left heq
        simp only [Res.ok.injEq, Prod.mk.injEq] at hp
        obtain ⟨rfl, rfl⟩ := hp
        rw [List.all_eq_true]
        intro e hem
        have hne := hid hp1 e hem
        rw [he] at hem
        obtain ⟨x, hxm, rfl⟩ := List.mem_map.mp hem
        obtain ⟨a, b, c⟩ := parseOneByteL_shape _ _ es' left heq x hxm
        rw [validate_accepts, hp1]
        have h0 : x.1.id.toNat ≠ 0 := by
          intro hc; apply hne; exact UInt8.toNat_inj.mp (by simpa using hc)
        simp only [Spec.OrderedMap.accepts, Spec.OrderedMap.oneByte, profileOneByte, beq_self_eq_true, if_true,
          Bool.and_eq_true, decide_eq_true_eq]
        omega
      · simp at hp
      · simp at hp
    · by_cases h2 : (h.extProfile == profileTwoByte) = true
      · have hp2 : h.extProfile = profileTwoByte := by simpa using h2
        simp only [h1, h2, Bool.false_eq_true, if_false, if_true, Bool.or_true] at hp ⊢
        split at hp
        · rename_i es' heq
          simp only [Res.ok.injEq, Prod.mk.injEq] at hp
          obtain ⟨rfl, rfl⟩ := hp
          rw [List.all_eq_true]
          intro e hem
          rw [he] at hem
          obtain ⟨x, hxm, rfl⟩ := List.mem_map.mp hem
          obtain ⟨a, b⟩ := parseTwoByteL_shape _ _ es' heq x hxm
          rw [validate_accepts, hp2]
          have h0 : x.1.id.toNat ≠ 0 := by
            intro hc; apply a; exact UInt8.toNat_inj.mp (by simpa using hc)
          have hne : ((4096 : UInt16) == Spec.OrderedMap.oneByte) = false := by decide
          simp only [Spec.OrderedMap.accepts, Spec.OrderedMap.twoByte, profileTwoByte, hne, Bool.false_eq_true, if_false,
            beq_self_eq_true, if_true, Bool.and_eq_true, decide_eq_true_eq]
          exact ⟨by omega, b⟩
        · simp at hp
        · simp at hp
      · simp only [h1, h2, Bool.false_eq_true, if_false, Bool.or_self] at hp ⊢
        simp only [Res.ok.injEq, Prod.mk.injEq] at hp
        obtain ⟨rfl, rfl⟩ := hp
        rw [he]
        simp
  · have hx' : h.extension = false := by simpa using hx
    have := (hdrUnmarshalL_bounds r buf h n locs hok).2.2.2.2 hx'
    unfold legal
    simp [hx', this]

/-- every header Header.Unmarshal produces — from any bytes, into any receiver — satisfies `Inv`,
    provided a one-byte block carries no element with id 0 -/
theorem hdrUnmarshal_legal (r : Header) (buf : Bytes) (h : Header) (n : Nat)
    (hok : hdrUnmarshal r buf = .ok (h, n))
    (hid : h.extProfile = profileOneByte → ∀ e ∈ h.exts, e.id ≠ 0) : legal h = true := by
  have hf := hdrUnmarshalL_fst r buf
  rw [hok] at hf
  cases hl : hdrUnmarshalL r buf with
  | err e => rw [hl] at hf; simp [Res.map] at hf
  | panic => rw [hl] at hf; simp [Res.map] at hf
  | ok x =>
    obtain ⟨h', n', locs⟩ := x
    rw [hl] at hf
    simp only [Res.map, fstH, Res.ok.injEq, Prod.mk.injEq] at hf
    obtain ⟨rfl, rfl⟩ := hf
    exact hdrUnmarshalL_legal r buf h' n' locs hl hid

/-- without the X bit a decoded header has no elements -/
theorem hdrUnmarshal_noExts (r : Header) (buf : Bytes) (h : Header) (n : Nat)
    (hok : hdrUnmarshal r buf = .ok (h, n)) (hx : h.extension = false) : h.exts = [] := by
  have hf := hdrUnmarshalL_fst r buf
  rw [hok] at hf
  cases hl : hdrUnmarshalL r buf with
  | err e => rw [hl] at hf; simp [Res.map] at hf
  | panic => rw [hl] at hf; simp [Res.map] at hf
  | ok x =>
    obtain ⟨h', n', locs⟩ := x
    rw [hl] at hf
    simp only [Res.map, fstH, Res.ok.injEq, Prod.mk.injEq] at hf
    obtain ⟨rfl, rfl⟩ := hf
    exact (hdrUnmarshalL_bounds r buf h' n' locs hl).2.2.2.2 hx

theorem hdrUnmarshal_fixedOk (r : Header) (buf : Bytes) (h : Header) (n : Nat)
    (hok : hdrUnmarshal r buf = .ok (h, n)) : fixedOk h = true := by
  have hf := hdrUnmarshalL_fst r buf
  rw [hok] at hf
  cases hl : hdrUnmarshalL r buf with
  | err e => rw [hl] at hf; simp [Res.map] at hf
  | panic => rw [hl] at hf; simp [Res.map] at hf
  | ok x =>
    obtain ⟨h', n', locs⟩ := x
    rw [hl] at hf
    simp only [Res.map, fstH, Res.ok.injEq, Prod.mk.injEq] at hf
    obtain ⟨rfl, rfl⟩ := hf
    obtain ⟨a, b, c⟩ := hdrUnmarshalL_fixed r buf h' n' locs hl
    simp [fixedOk, a, b, c]

/-! ### the fixed fields are never touched by the accessors -/

theorem del_fixed (h : Header) (id : UInt8) :
    (delExtension h id).2.version = h.version ∧ (delExtension h id).2.payloadType = h.payloadType ∧
    (delExtension h id).2.csrc = h.csrc := by
  unfold delExtension
  split
  · exact ⟨rfl, rfl, rfl⟩
  · split <;> exact ⟨rfl, rfl, rfl⟩

theorem fixedOk_step (h : Header) (op : Spec.OrderedMap.Op) (hf : fixedOk h = true) :
    fixedOk (modelStep h op).2 = true := by
  cases op with
  | set id v =>
    obtain ⟨a, b, c⟩ := set_fixed h id v
    simp only [modelStep, fixedOk, a, b, c] at hf ⊢; exact hf
  | del id =>
    obtain ⟨a, b, c⟩ := del_fixed h id
    simp only [modelStep, fixedOk, a, b, c] at hf ⊢; exact hf

theorem fixedOk_steps (ops : List Spec.OrderedMap.Op) (h : Header) (hf : fixedOk h = true) :
    fixedOk (modelSteps h ops).2 = true := by
  induction ops generalizing h with
  | nil => exact hf
  | cons op ops ih => rw [modelSteps_cons]; exact ih _ (fixedOk_step h op hf)

theorem legal_steps (ops : List Spec.OrderedMap.Op) (h : Header) (hl : legal h = true) :
    legal (modelSteps h ops).2 = true := by
  induction ops generalizing h with
  | nil => exact hl
  | cons op ops ih => rw [modelSteps_cons]; exact ih _ (legal_step h op hl)

/-! ### a header that satisfies `Inv` is in the domain of the wire clause -/

theorem hdrMarshal_legacy_err (h : Header) (e : Ext) (rest : List Ext) (hx : h.extension = true)
    (hleg : isLegacy h.extProfile = true) (hes : h.exts = e :: rest) (hm : e.payload.length % 4 ≠ 0) :
    (hdrMarshal h).isErr = true := by
  simp only [isLegacy, Bool.not_eq_true', Bool.or_eq_false_iff] at hleg
  have hb : extBodyBytes h = .err .shortBuffer := by
    unfold extBodyBytes
    simp [hleg.1, hleg.2, hes, hm]
  unfold hdrMarshal hdrMarshalTo
  simp [rep, hx, hb, Res.isErr]

theorem finalWfH_of_legal (h : Header) (hl : legal h = true) (hf : fixedOk h = true)
    (hs : extBodySize h ≤ 65535 * 4) : finalWfH h = true := by
  have hfx : h.version.toNat < 4 ∧ h.payloadType.toNat < 128 ∧ h.csrc.length ≤ 15 := by
    simp only [fixedOk, Bool.and_eq_true, decide_eq_true_eq] at hf
    exact ⟨hf.1.1, hf.1.2, hf.2⟩
  have wf_of_ext : C01.extsLegal h = true → finalWfH h = true := by
    intro he
    simp [finalWfH, C01.wfH, hfx.1, hfx.2.1, hfx.2.2, he, hs]
  by_cases hx : h.extension = true
  · by_cases hleg : isLegacy h.extProfile = true
    · have hl' := hl
      unfold legal at hl'
      have h12 : (h.extProfile == profileOneByte || h.extProfile == profileTwoByte) = false := by
        simpa [isLegacy] using hleg
      simp only [hx, Bool.not_true, Bool.false_eq_true, if_false, h12] at hl'
      match hes : h.exts, hl' with
      | [], _ => simp [finalWfH, getExtensionIDs, hes]
      | [e], _ =>
        by_cases hm : e.payload.length % 4 = 0
        · exact wf_of_ext (extsLegal_of_legal h hl (fun _ _ => ⟨e, hes, hm⟩))
        · have := hdrMarshal_legacy_err h e [] hx hleg hes hm
          simp [finalWfH, this]
      | _ :: _ :: _, hl'' => simp at hl''
    · exact wf_of_ext (extsLegal_of_legal h hl (fun hlg _ => absurd hlg hleg))
  · have hx' : h.extension = false := by simpa using hx
    simp [finalWfH, getExtensionIDs, hx']

/-- the start states covered by `c05_pred_model_partial` satisfy `Inv` and have sane fixed fields -/
theorem startCovered_legal (s : Start) (hc : startCovered s = true) :
    ∃ h, startHeader s = some h ∧ legal h = true ∧ fixedOk h = true := by
  unfold startCovered startDomain at hc
  cases s with
  | hdr h =>
    simp only [Bool.and_true, Bool.and_eq_true] at hc
    exact ⟨h, rfl, hc.1, hc.2⟩
  | wire prevs bs =>
    simp only [Bool.and_eq_true] at hc
    obtain ⟨_, hc⟩ := hc
    cases hs : startHeader (.wire prevs bs) with
    | none => simp [hs] at hc
    | some h =>
      simp only [hs, Bool.not_eq_true', Bool.and_eq_false_iff] at hc
      have hu : hdrUnmarshal (C02.usedHeader prevs) bs = .ok (h, (match hdrUnmarshal (C02.usedHeader prevs) bs with | .ok (_, n) => n | _ => 0)) := by
        simp only [startHeader] at hs
        cases hh : hdrUnmarshal (C02.usedHeader prevs) bs with
        | ok x => obtain ⟨h', n⟩ := x; simp only [hh, Option.some.injEq] at hs; subst hs; rfl
        | err e => simp [hh] at hs
        | panic => simp [hh] at hs
      refine ⟨h, rfl, hdrUnmarshal_legal _ _ _ _ hu ?_, hdrUnmarshal_fixedOk _ _ _ _ hu⟩
      intro hp e he hz
      have hany : h.exts.any (·.id == 0) = true := List.any_eq_true.mpr ⟨e, he, by simp [hz]⟩
      have hx : h.extension = true := by
        cases hxx : h.extension
        · have := hdrUnmarshal_noExts _ _ _ _ hu hxx
          rw [this] at he; simp at he
        · rfl
      rcases hc with (hc | hc) | hc
      · simp [hx] at hc
      · simp [hp] at hc
      · simp [hany] at hc

end Rtp.Proofs.HeaderExt
