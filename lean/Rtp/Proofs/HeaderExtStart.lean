/-
  Rtp/Proofs/HeaderExtStart.lean — start states obtained from the wire: what Header.Unmarshal
  produces satisfies C05's invariant (`legal`), except that the one-byte parser lets an element
  with id 0 and 2–16 bytes through (header byte 0x01–0x0F), which SetExtension would refuse.
-/
import Rtp.Proofs.PacketParse
import Rtp.Proofs.HeaderExtWire
namespace Rtp.Proofs.HeaderExt
open Rtp Rtp.Model Rtp.Pred Rtp.Pred.C05 Rtp.Pred.C02 Rtp.Proofs.PacketParse

theorem hdrUnmarshalL_legal (r : Header) (buf : Bytes) (h : Header) (n : Nat) (locs : List Nat)
    (hok : hdrUnmarshalL r buf = .ok (h, n, locs))
    (hid : h.extProfile = profileOneByte → ∀ e ∈ h.exts, e.id ≠ 0) : legal h = true := by
  by_cases hx : h.extension = true
  · obtain ⟨start, block, tail, es, used, _, hp, he, _, _, _⟩ := hdrUnmarshalL_ok_ext r buf h n locs hok hx
    unfold legal
    simp only [hx, Bool.not_true, Bool.false_eq_true, if_false]
    unfold parseExtBlockL at hp
    by_cases h1 : (h.extProfile == profileOneByte) = true
    · have hp1 : h.extProfile = profileOneByte := by simpa using h1
      simp only [h1, if_true, Bool.true_or] at hp ⊢
      split at hp
      · rename_i es' left heq
        simp only [Res.ok.injEq, Prod.mk.injEq] at hp
        obtain ⟨rfl, rfl⟩ := hp
        rw [List.all_eq_true]
        intro e hem
        have hne := hid hp1 e hem
        rw [he] at hem
        obtain ⟨x, hxm, rfl⟩ := List.mem_map.mp hem
        obtain ⟨a, b, c⟩ := parseOneByteL_shape _ _ es' left heq x hxm
        rw [validate_accepts, hp1]
        have h0 : x.1.id.toNat ≠ 0 := by
          intro hc; apply hne; exact UInt8.toNat_inj.mp (by simpa using hc)
        simp only [Spec.OrderedMap.accepts, Spec.OrderedMap.oneByte, profileOneByte, beq_self_eq_true, if_true,
          Bool.and_eq_true, decide_eq_true_eq]
        omega
      · simp at hp
      · simp at hp
    · by_cases h2 : (h.extProfile == profileTwoByte) = true
      · have hp2 : h.extProfile = profileTwoByte := by simpa using h2
        simp only [h1, h2, Bool.false_eq_true, if_false, if_true, Bool.or_true] at hp ⊢
        split at hp
        · rename_i es' heq
          simp only [Res.ok.injEq, Prod.mk.injEq] at hp
          obtain ⟨rfl, rfl⟩ := hp
          rw [List.all_eq_true]
          intro e hem
          rw [he] at hem
          obtain ⟨x, hxm, rfl⟩ := List.mem_map.mp hem
          obtain ⟨a, b⟩ := parseTwoByteL_shape _ _ es' heq x hxm
          rw [validate_accepts, hp2]
          have h0 : x.1.id.toNat ≠ 0 := by
            intro hc; apply a; exact UInt8.toNat_inj.mp (by simpa using hc)
          have hne : ((4096 : UInt16) == Spec.OrderedMap.oneByte) = false := by decide
          simp only [Spec.OrderedMap.accepts, Spec.OrderedMap.twoByte, profileTwoByte, hne, Bool.false_eq_true, if_false,
            beq_self_eq_true, if_true, Bool.and_eq_true, decide_eq_true_eq]
          exact ⟨by omega, b⟩
        · simp at hp
        · simp at hp
      · simp only [h1, h2, Bool.false_eq_true, if_false, Bool.or_self] at hp ⊢
        simp only [Res.ok.injEq, Prod.mk.injEq] at hp
        obtain ⟨rfl, rfl⟩ := hp
        rw [he]
        simp
  · have hx' : h.extension = false := by simpa using hx
    have := (hdrUnmarshalL_bounds r buf h n locs hok).2.2.2.2 hx'
    unfold legal
    simp [hx', this]

/-- every header Header.Unmarshal produces — from any bytes, into any receiver — satisfies `Inv`,
    provided a one-byte block carries no element with id 0 -/
theorem hdrUnmarshal_legal (r : Header) (buf : Bytes) (h : Header) (n : Nat)
    (hok : hdrUnmarshal r buf = .ok (h, n))
    (hid : h.extProfile = profileOneByte → ∀ e ∈ h.exts, e.id ≠ 0) : legal h = true := by
  have hf := hdrUnmarshalL_fst r buf
  rw [hok] at hf
  cases hl : hdrUnmarshalL r buf with
  | err e => rw [hl] at hf; simp [Res.map] at hf
  | panic => rw [hl] at hf; simp [Res.map] at hf
  | ok x =>
    obtain ⟨h', n', locs⟩ := x
    rw [hl] at hf
    simp only [Res.map, fstH, Res.ok.injEq, Prod.mk.injEq] at hf
    obtain ⟨rfl, rfl⟩ := hf
    exact hdrUnmarshalL_legal r buf h' n' locs hl hid

end Rtp.Proofs.HeaderExt
