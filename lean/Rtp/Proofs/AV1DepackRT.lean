/-
  AV1Depacketizer on what well-shaped packets encode to (receive side of C13).
-/
import Rtp.Proofs.AV1Abs
import Rtp.Proofs.Obu
import Rtp.Proofs.AV1Depack
namespace Rtp.Model.AV1
open Rtp Rtp.Model Rtp.Spec.Av1Rtp
open Rtp.Model.ObuLemmas
namespace DepackRT

theorem emitObu_good (b : Bytes) (len : Nat) (h : goodUnit b) :
    emitObu b len = some (some (sizedOf b)) := by
  obtain ⟨hd, hp, hs, ht, hl⟩ := h
  unfold emitObu sizedOf
  simp only [hp]
  simp [hs, ht, hl]

theorem readLeb_pref (hleb : LebGoSpec) (e rest : Bytes) (h : e.length < 2 ^ 56) :
    readLebGo (lenPrefixed e ++ rest) = some (e.length.toUInt64, (writeLeb e.length).length) := by
  unfold lenPrefixed; rw [List.append_assoc]; exact hleb _ _ h

theorem toU64_toNat (n : Nat) (h : n < 2 ^ 56) : n.toUInt64.toNat = n := by
  simp [Nat.toUInt64]; omega

/-- the length-field part of one loop iteration -/
def lenRestOf (w idx : Nat) (rest : Bytes) : Option (Nat × Bytes × Bool) :=
  if w == 0 || !(w != 0 && idx + 1 == w) then
    match readLebGo rest with
    | none => none
    | some (v, k) =>
      some (v.toNat, rest.drop k,
        (w != 0 && idx + 1 == w) || (w == 0 && v.toNat == (rest.drop k).length))
  else some (rest.length, rest, w != 0 && idx + 1 == w)

/-- the rest of one loop iteration -/
def afterLen (w : Nat) (z y : Bool) (fuel idx : Nat) (buf acc : Bytes) (zeff : Bool)
    (len : Nat) (r : Bytes) (isLast : Bool) : LoopEnd × Bytes :=
  if len > r.length then (.fail, buf) else
  if zeff && buf.isEmpty then
    if isLast then (.done acc idx, buf) else elemLoop w z y fuel (r.drop len) (idx + 1) buf acc
  else
    if isLast && y then (.done acc idx, if zeff then buf ++ r.take len else r.take len)
    else if (if zeff then buf ++ r.take len else r.take len).isEmpty then
      elemLoop w z y fuel (r.drop len) (idx + 1) (if zeff then [] else buf) acc
    else
      match emitObu (if zeff then buf ++ r.take len else r.take len) len with
      | none => (.fail, if zeff then [] else buf)
      | some none => elemLoop w z y fuel (r.drop len) (idx + 1) (if zeff then [] else buf) acc
      | some (some bs) =>
        if isLast then (.done (acc ++ bs) idx, if zeff then [] else buf)
        else elemLoop w z y fuel (r.drop len) (idx + 1) (if zeff then [] else buf) (acc ++ bs)

theorem elemLoop_succ (w : Nat) (z y : Bool) (fuel : Nat) (rest : Bytes) (idx : Nat)
    (buf acc : Bytes) (hne : rest.isEmpty = false) :
    elemLoop w z y (fuel + 1) rest idx buf acc =
      match lenRestOf w idx rest with
      | none => (.fail, buf)
      | some (len, r, isLast) => afterLen w z y fuel idx buf acc (idx == 0 && z) len r isLast := by
  rw [elemLoop]
  simp only [hne]
  rfl

theorem lenRestOf_pre (hleb : LebGoSpec) (w idx : Nat) (e rest : Bytes)
    (hl0 : (w != 0 && idx + 1 == w) = false) (hs : e.length < 2 ^ 56) :
    lenRestOf w idx (lenPrefixed e ++ rest) = some (e.length, e ++ rest, w == 0 && rest.isEmpty) := by
  unfold lenRestOf
  rw [hl0, readLeb_pref hleb e rest hs]
  have hd : List.drop (writeLeb e.length).length (lenPrefixed e ++ rest) = e ++ rest := by
    unfold lenPrefixed; rw [List.append_assoc]; exact List.drop_left' rfl
  simp only [hd, toU64_toNat _ hs]
  have : (e.length == e.length + rest.length) = rest.isEmpty := by
    cases rest <;> simp
  simp [this]

theorem lenRestOf_last (w idx : Nat) (l : Bytes) (hw : w ≠ 0) (hi : idx + 1 = w) :
    lenRestOf w idx l = some (l.length, l, true) := by
  unfold lenRestOf
  simp [hw, hi]

theorem afterLen_good (w : Nat) (z y : Bool) (fuel idx : Nat) (buf acc : Bytes) (zeff : Bool)
    (e rest : Bytes) (isLast : Bool) (hne : e ≠ [])
    (hz1 : zeff = true → buf ≠ []) (hz0 : zeff = false → buf = [])
    (hg : (isLast && y) = false → goodUnit (if zeff then buf ++ e else e)) :
    afterLen w z y fuel idx buf acc zeff e.length (e ++ rest) isLast =
      if isLast && y then (.done acc idx, if zeff then buf ++ e else e)
      else if isLast then (.done (acc ++ sizedOf (if zeff then buf ++ e else e)) idx, [])
      else elemLoop w z y fuel rest (idx + 1) [] (acc ++ sizedOf (if zeff then buf ++ e else e)) := by
  unfold afterLen
  have h1 : ¬ (e.length > (e ++ rest).length) := by simp
  have h2 : (zeff && buf.isEmpty) = false := by
    cases zeff
    · simp
    · have := hz1 rfl; cases buf <;> simp_all
  have h3 : (if zeff then ([] : Bytes) else buf) = [] := by
    cases zeff
    · simp [hz0 rfl]
    · simp
  have h4 : (if zeff then buf ++ e else e).isEmpty = false := by
    cases zeff <;> cases e <;> simp_all
  simp only [h1, if_false, h2, List.take_left', List.drop_left', h3, h4]
  by_cases hly : (isLast && y) = true
  · simp [hly]
  · have hly' : (isLast && y) = false := by simpa using hly
    rw [emitObu_good _ _ (hg hly')]
    simp [hly']


theorem extend_bytes (op : Option OUnit) (buf e : Bytes) (zeff cn : Bool) (k : Nat)
    (h : zeff = true → ∃ u, op = some u ∧ u.bytes = buf) :
    (extend op ⟨e, zeff, cn, k⟩).bytes = if zeff then buf ++ e else e := by
  cases zeff
  · simp [extend]
  · obtain ⟨u, rfl, rfl⟩ := h rfl
    simp [extend]

theorem flagElems_cons_ne (z y : Bool) (k : Nat) (e : Bytes) (es : List Bytes) (h : es ≠ []) :
    flagElems z y k (e :: es) = ⟨e, z, false, k⟩ :: flagElems false y k es := by
  cases es with
  | nil => exact absurd rfl h
  | cons a b => simp [flagElems]

theorem joinPkt_single (op : Option OUnit) (x : Elem) :
    joinPkt op [x] = if x.contNext then ([], some (extend op x)) else ([extend op x], none) := by
  simp only [joinPkt]

theorem loop_spec (hleb : LebGoSpec) (w : Nat) (z y : Bool) (k : Nat) (pre : List Bytes) :
    ∀ (last : Option Bytes) (fuel idx : Nat) (buf acc : Bytes) (op : Option OUnit) (zeff : Bool),
    zeff = (idx == 0 && z) →
    pre ++ last.toList ≠ [] →
    (∀ e ∈ pre ++ last.toList, e ≠ [] ∧ e.length < 2 ^ 56) →
    ((last = none ∧ w = 0) ∨ (last.isSome = true ∧ w = idx + pre.length + 1)) →
    (pre ++ last.toList).length ≤ fuel →
    (zeff = true → ∃ u, op = some u ∧ u.bytes = buf ∧ buf ≠ []) →
    (zeff = false → buf = []) →
    (∀ u ∈ (joinPkt op (flagElems zeff y k (pre ++ last.toList))).1, goodUnit u.bytes) →
    ∃ idxF, elemLoop w z y fuel (pre.flatMap lenPrefixed ++ last.getD []) idx buf acc =
      (.done (acc ++ (((joinPkt op (flagElems zeff y k (pre ++ last.toList))).1.map
          (fun u => sizedOf u.bytes)).flatten)) idxF,
       ((joinPkt op (flagElems zeff y k (pre ++ last.toList))).2.map (·.bytes)).getD []) ∧
      (w ≠ 0 → idxF + 1 = w) := by
  induction pre with
  | nil =>
    intro last fuel idx buf acc op zeff hz hne hel hshape hfuel hz1 hz0 hg
    cases last with
    | none => simp at hne
    | some l =>
      rcases hshape with ⟨h, _⟩ | ⟨_, hw⟩
      · cases h
      · simp only [List.length_nil, Nat.add_zero] at hw
        obtain ⟨hlne, _⟩ := hel l (by simp)
        have hz1' : zeff = true → ∃ u, op = some u ∧ u.bytes = buf := fun h => by
          obtain ⟨u, a, b, _⟩ := hz1 h; exact ⟨u, a, b⟩
        have hz1'' : zeff = true → buf ≠ [] := fun h => by
          obtain ⟨u, _, _, c⟩ := hz1 h; exact c
        match fuel, hfuel with
        | fuel + 1, _ =>
          refine ⟨idx, ?_, fun _ => hw.symm⟩
          have hle : l.isEmpty = false := by cases l <;> simp_all
          simp only [List.flatMap_nil, List.nil_append, Option.getD_some, Option.toList_some]
          simp only [Option.toList_some, List.nil_append] at hg
          rw [elemLoop_succ _ _ _ _ _ _ _ _ hle, lenRestOf_last w idx l (by omega) hw.symm]
          simp only [← hz]
          have hA := afterLen_good w z y fuel idx buf acc zeff l [] true hlne hz1'' hz0
          rw [List.append_nil] at hA
          simp only [flagElems, joinPkt_single] at hg ⊢
          cases y
          · simp only [Bool.and_false] at hA
            simp only [Bool.false_eq_true, if_false, List.mem_singleton, forall_eq,
              extend_bytes op buf l zeff false k hz1'] at hg
            rw [hA (fun _ => hg)]
            simp [extend_bytes op buf l zeff false k hz1']
          · simp only [Bool.and_true] at hA
            rw [hA (fun h => by cases h)]
            simp [extend_bytes op buf l zeff true k hz1']
  | cons e pre ih =>
    intro last fuel idx buf acc op zeff hz hne hel hshape hfuel hz1 hz0 hg
    obtain ⟨hene, hesm⟩ := hel e (by simp)
    have hz1' : zeff = true → ∃ u, op = some u ∧ u.bytes = buf := fun h => by
      obtain ⟨u, a, b, _⟩ := hz1 h; exact ⟨u, a, b⟩
    have hz1'' : zeff = true → buf ≠ [] := fun h => by
      obtain ⟨u, _, _, c⟩ := hz1 h; exact c
    have hl0 : (w != 0 && idx + 1 == w) = false := by
      rcases hshape with ⟨_, hw⟩ | ⟨_, hw⟩
      · simp [hw]
      · simp only [List.length_cons] at hw
        have : ¬ (idx + 1 = w) := by omega
        simp [this]
    have hle : (lenPrefixed e ++ (pre.flatMap lenPrefixed ++ last.getD [])).isEmpty = false := by
      have := lenPrefixed_ne_nil e
      cases h : lenPrefixed e with
      | nil => exact absurd h this
      | cons a b => simp
    match fuel, hfuel with
    | fuel + 1, hfuel =>
      simp only [List.flatMap_cons, List.append_assoc, List.cons_append]
      simp only [List.cons_append] at hg
      rw [elemLoop_succ _ _ _ _ _ _ _ _ hle, lenRestOf_pre hleb w idx e _ hl0 hesm]
      simp only [← hz]
      have hA := afterLen_good w z y fuel idx buf acc zeff e
        (pre.flatMap lenPrefixed ++ last.getD []) (w == 0 && (pre.flatMap lenPrefixed ++ last.getD []).isEmpty)
        hene hz1'' hz0
      by_cases hes : pre ++ last.toList = []
      · -- this is the final element (W = 0)
        have hp : pre = [] := (List.append_eq_nil_iff.mp hes).1
        have hl : last = none := by
          have := (List.append_eq_nil_iff.mp hes).2
          cases last <;> simp_all
        subst hp; subst hl
        have hw : w = 0 := by
          rcases hshape with ⟨_, hw⟩ | ⟨h, _⟩
          · exact hw
          · cases h
        subst hw
        refine ⟨idx, ?_, fun h => absurd rfl h⟩
        simp only [List.flatMap_nil, Option.getD_none, List.append_nil, List.isEmpty_nil,
          beq_self_eq_true, Bool.and_self, Bool.true_and] at hA ⊢
        simp only [Option.toList_none, List.append_nil, flagElems, joinPkt_single] at hg ⊢
        cases y
        · simp only [Bool.false_eq_true, if_false, List.mem_singleton, forall_eq,
            extend_bytes op buf e zeff false k hz1'] at hg
          rw [hA (fun _ => hg)]
          simp [extend_bytes op buf e zeff false k hz1']
        · rw [hA (fun h => by cases h)]
          simp [extend_bytes op buf e zeff true k hz1']
      · have hnl : (w == 0 && (pre.flatMap lenPrefixed ++ last.getD []).isEmpty) = false := by
          rcases hshape with ⟨hl, hw⟩ | ⟨_, hw⟩
          · subst hl
            cases pre with
            | nil => simp at hes
            | cons a b =>
              have := lenPrefixed_ne_nil a
              cases h : lenPrefixed a with
              | nil => exact absurd h this
              | cons a b => simp [h]
          · have : w ≠ 0 := by omega
            simp [this]
        rw [hnl] at hA ⊢
        simp only [Bool.false_and, Bool.false_eq_true, if_false] at hA
        rw [flagElems_cons_ne _ _ _ _ _ hes] at hg ⊢
        simp only [joinPkt, Bool.false_eq_true, if_false, List.mem_cons, forall_eq_or_imp,
          extend_bytes op buf e zeff false k hz1'] at hg
        rw [hA (fun _ => hg.1)]
        have hih := ih last fuel (idx + 1) [] (acc ++ sizedOf (if zeff = true then buf ++ e else e))
          none false (by simp) hes (fun x hx => hel x (List.mem_cons_of_mem _ hx))
          (by
            rcases hshape with h | ⟨h1, h2⟩
            · exact Or.inl h
            · refine Or.inr ⟨h1, ?_⟩
              simp only [List.length_cons] at h2; omega)
          (by simp only [List.cons_append, List.length_cons] at hfuel; omega)
          (fun h => by cases h) (fun _ => rfl) hg.2
        obtain ⟨idxF, h1, h2⟩ := hih
        refine ⟨idxF, ?_, h2⟩
        rw [h1]
        simp [joinPkt, extend_bytes op buf e zeff false k hz1']

theorem hdr_bits_fin : ∀ (z y n : Bool) (w : Fin 4),
    (aggHeader z y w.val n &&& 0x80 != 0) = z ∧ (aggHeader z y w.val n &&& 0x40 != 0) = y ∧
    ((aggHeader z y w.val n &&& 0x30) >>> 4).toNat = w.val ∧
    (aggHeader z y w.val n &&& 0x08 != 0) = n := by decide +kernel

theorem hdr_bits (z y n : Bool) (w : Nat) (hw : w ≤ 3) :
    (aggHeader z y w n &&& 0x80 != 0) = z ∧ (aggHeader z y w n &&& 0x40 != 0) = y ∧
    ((aggHeader z y w n &&& 0x30) >>> 4).toNat = w ∧
    (aggHeader z y w n &&& 0x08 != 0) = n :=
  hdr_bits_fin z y n ⟨w, by omega⟩

theorem depUnmarshal_cons (d : DSt) (b0 : UInt8) (body : Bytes) (h : body ≠ []) :
    depUnmarshal d (b0 :: body) =
      match elemLoop ((b0 &&& 0x30) >>> 4).toNat (b0 &&& 0x80 != 0) (b0 &&& 0x40 != 0)
          (body.length + 1) body 0
          (if (!(b0 &&& 0x80 != 0) && !(if (b0 &&& 0x08 != 0) then [] else d.buffer).isEmpty) then []
            else (if (b0 &&& 0x08 != 0) then [] else d.buffer)) [] with
      | (.fail, buf) => (.err .other,
          { buffer := buf, z := b0 &&& 0x80 != 0, y := b0 &&& 0x40 != 0, n := b0 &&& 0x08 != 0 })
      | (.done out idx, buf) =>
        if ((b0 &&& 0x30) >>> 4).toNat != 0 && idx + 1 != ((b0 &&& 0x30) >>> 4).toNat then
          (.err .short,
            { buffer := buf, z := b0 &&& 0x80 != 0, y := b0 &&& 0x40 != 0, n := b0 &&& 0x08 != 0 })
        else (.ok out,
            { buffer := buf, z := b0 &&& 0x80 != 0, y := b0 &&& 0x40 != 0, n := b0 &&& 0x08 != 0 }) := by
  cases body with
  | nil => exact absurd rfl h
  | cons b1 rest => rfl

theorem length_le_flatMap_lenPrefixed (pre : List Bytes) :
    pre.length ≤ (pre.flatMap lenPrefixed).length := by
  induction pre with
  | nil => simp
  | cons e es ih =>
    have : (lenPrefixed e).length ≠ 0 := by simpa using lenPrefixed_ne_nil e
    simp only [List.flatMap_cons, List.length_append, List.length_cons]
    omega

theorem extend_bytes_ne (op : Option OUnit) (x : Elem) (h : x.bytes ≠ []) :
    (extend op x).bytes ≠ [] := by
  unfold extend
  split <;> simp [h]

theorem joinPkt_open (y : Bool) (k : Nat) (es : List Bytes) :
    ∀ (z : Bool) (op : Option OUnit), es ≠ [] → (∀ e ∈ es, e ≠ []) →
    (joinPkt op (flagElems z y k es)).2.isSome = y ∧
    ∀ u, (joinPkt op (flagElems z y k es)).2 = some u → u.bytes ≠ [] := by
  induction es with
  | nil => intro z op h; exact absurd rfl h
  | cons e es ih =>
    intro z op _ hel
    by_cases hes : es = []
    · subst hes
      simp only [flagElems, joinPkt_single]
      cases y
      · simp
      · simp only [if_true, Option.isSome_some, Option.some.injEq, true_and]
        intro u hu
        subst hu
        exact extend_bytes_ne _ _ (hel e (by simp))
    · rw [flagElems_cons_ne _ _ _ _ _ hes]
      simp only [joinPkt, Bool.false_eq_true, if_false]
      exact ih false none hes (fun x hx => hel x (List.mem_cons_of_mem _ hx))

/-- one packet -/
theorem depUnmarshal_encode (hleb : LebGoSpec) (p : Pk) (hp : PkGood p) (k : Nat)
    (op : Option OUnit) (d : DSt)
    (hop : ∀ u, op = some u → u.bytes ≠ [])
    (hd : d.buffer = (op.map (·.bytes)).getD [])
    (hz : p.z = op.isSome)
    (hg : ∀ u ∈ (joinPkt op (flagElems p.z p.y k p.elems)).1, goodUnit u.bytes) :
    depUnmarshal d p.encode =
      (.ok (((joinPkt op (flagElems p.z p.y k p.elems)).1.map (fun u => sizedOf u.bytes)).flatten),
       ⟨((joinPkt op (flagElems p.z p.y k p.elems)).2.map (·.bytes)).getD [], p.z, p.y, p.n⟩) := by
  obtain ⟨hshape, hne, hnonempty, hsmall, hnz⟩ := hp
  obtain ⟨z, y, n, w, pre, last⟩ := p
  simp only [Pk.elems] at *
  unfold Pk.shapeOK at hshape
  simp only at hshape
  have hw3 : w ≤ 3 := by
    rcases hshape with ⟨_, h⟩ | ⟨_, _, h⟩ <;> omega
  have hbody : Pk.body ⟨z, y, n, w, pre, last⟩ ≠ [] := by
    unfold Pk.body
    simp only
    cases pre with
    | cons e es =>
      have := lenPrefixed_ne_nil e
      cases h : lenPrefixed e with
      | nil => exact absurd h this
      | cons a b => simp [h]
    | nil =>
      cases last with
      | none => simp at hne
      | some l =>
        have := hnonempty l (by simp)
        simpa using this
  obtain ⟨b1, b2, b3, b4⟩ := hdr_bits z y n w hw3
  unfold Pk.encode
  rw [depUnmarshal_cons d _ _ hbody]
  simp only [b1, b2, b3, b4]
  have hbuf : (if (!z && !(if n then [] else d.buffer).isEmpty) then [] else
      (if n then [] else d.buffer)) = d.buffer := by
    cases z
    · have : op = none := by
        cases op with
        | none => rfl
        | some u => simp at hz
      subst this
      simp only [Option.map_none, Option.getD_none] at hd
      rw [hd]; cases n <;> simp
    · have : n = false := by
        cases n with
        | false => rfl
        | true => exact absurd ⟨rfl, rfl⟩ hnz
      subst this
      simp
  rw [hbuf]
  have hz1 : z = true → ∃ u, op = some u ∧ u.bytes = d.buffer ∧ d.buffer ≠ [] := by
    intro h
    subst h
    cases op with
    | none => simp at hz
    | some u =>
      simp only [Option.map_some, Option.getD_some] at hd
      exact ⟨u, rfl, hd.symm, hd ▸ hop u rfl⟩
  have hz0 : z = false → d.buffer = [] := by
    intro h
    subst h
    have : op = none := by
        cases op with
        | none => rfl
        | some u => simp at hz
    subst this
    simpa using hd
  have hfuel : (pre ++ last.toList).length ≤ (Pk.body ⟨z, y, n, w, pre, last⟩).length + 1 := by
    unfold Pk.body
    have := length_le_flatMap_lenPrefixed pre
    have h2 : last.toList.length ≤ 1 := by cases last <;> simp
    simp only [List.length_append]
    omega
  obtain ⟨idxF, h1, h2⟩ := loop_spec hleb w z y k pre last
    ((Pk.body ⟨z, y, n, w, pre, last⟩).length + 1) 0 d.buffer [] op z (by simp) hne
    (fun e he => ⟨hnonempty e he, hsmall e he⟩)
    (by
      rcases hshape with h | ⟨h1, h2, _⟩
      · exact Or.inl h
      · exact Or.inr ⟨h1, by omega⟩)
    hfuel hz1 hz0 hg
  have hb : Pk.body ⟨z, y, n, w, pre, last⟩ = pre.flatMap lenPrefixed ++ last.getD [] := rfl
  rw [hb] at h1 ⊢
  rw [h1]
  have hc : (w != 0 && idxF + 1 != w) = false := by
    by_cases hw : w = 0
    · simp [hw]
    · simp [h2 hw]
  simp [hc]

theorem feed_gen (hleb : LebGoSpec) (pks : List Pk) :
    ∀ (k : Nat) (op : Option OUnit) (d : DSt),
    (∀ p ∈ pks, PkGood p) →
    (∀ u, op = some u → u.bytes ≠ []) →
    d.buffer = (op.map (·.bytes)).getD [] →
    zyChain op.isSome (pks.map Pk.toPacket) = true →
    (∀ u ∈ joinElems op (allElems k (pks.map Pk.toPacket)), goodUnit u.bytes) →
    ∃ outs : List Bytes,
      (depFeed d (pks.map Pk.encode)).1 = outs.map Res.ok ∧
      outs.flatten = ((joinElems op (allElems k (pks.map Pk.toPacket))).map
        (fun u => sizedOf u.bytes)).flatten := by
  induction pks with
  | nil =>
    intro k op d _ _ _ _ _
    exact ⟨[], by simp [depFeed], by simp [allElems, joinElems]⟩
  | cons p ps ih =>
    intro k op d hgood hop hd hchain hunits
    have hp := hgood p (by simp)
    simp only [List.map_cons, zyChain, Pk.toPacket, Bool.and_eq_true, beq_iff_eq] at hchain
    obtain ⟨hz, hchain⟩ := hchain
    simp only [List.map_cons, allElems, joinElems_append, List.mem_append] at hunits ⊢
    have hpk : (Pk.toPacket p).hdr.z = p.z ∧ (Pk.toPacket p).hdr.y = p.y ∧
        (Pk.toPacket p).elems = p.elems := ⟨rfl, rfl, rfl⟩
    rw [hpk.1, hpk.2.1, hpk.2.2] at hunits ⊢
    have hone := depUnmarshal_encode hleb p hp k op d hop hd hz (fun u hu => hunits u (Or.inl hu))
    obtain ⟨ho1, ho2⟩ := joinPkt_open p.y k p.elems p.z op hp.ne hp.nonempty
    obtain ⟨outs, h1, h2⟩ := ih (k + 1) (joinPkt op (flagElems p.z p.y k p.elems)).2
      ⟨((joinPkt op (flagElems p.z p.y k p.elems)).2.map (·.bytes)).getD [], p.z, p.y, p.n⟩
      (fun q hq => hgood q (List.mem_cons_of_mem _ hq)) ho2 rfl (by rw [ho1]; exact hchain)
      (fun u hu => hunits u (Or.inr hu))
    refine ⟨((joinPkt op (flagElems p.z p.y k p.elems)).1.map (fun u => sizedOf u.bytes)).flatten :: outs, ?_, ?_⟩
    · simp only [depFeed, hone, h1, List.map_cons]
    · simp only [List.flatten_cons, h2, List.map_append, List.flatten_append]

/-- MAIN GOAL.  Feeding the encodings of well-shaped packets (Z/Y chained, every reassembled OBU
    passable) to a fresh AV1Depacketizer: every call succeeds and the concatenated output is the
    OBUs the packets denote, each with its size field put back. -/
theorem depFeed_encode (hleb : LebGoSpec) (pks : List Pk)
    (hgood : ∀ p ∈ pks, PkGood p)
    (hchain : zyChain false (pks.map Pk.toPacket) = true)
    (hunits : ∀ u ∈ units (pks.map Pk.toPacket), goodUnit u.bytes) :
    ∃ outs : List Bytes,
      (depFeed {} (pks.map Pk.encode)).1 = outs.map Res.ok ∧
      outs.flatten = ((units (pks.map Pk.toPacket)).map (fun u => sizedOf u.bytes)).flatten := by
  exact feed_gen hleb pks 0 none {} hgood (fun u h => by cases h) rfl hchain hunits

end DepackRT
end Rtp.Model.AV1
