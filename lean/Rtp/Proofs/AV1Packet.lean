/-
  Rtp/Proofs/AV1Packet.lean — lemmas about the deprecated receive path (AV1Packet, frame.AV1).
-/
import Rtp.Model.AV1Obs
namespace Rtp.Model.AV1
open Rtp Rtp.Model

theorem parseBodyLoop_ne_panic (w : UInt8) (fuel i : Nat) (rest : Bytes) (acc : List Bytes) :
    parseBodyLoop w fuel i rest acc ≠ .panic := by
  induction fuel generalizing i rest acc with
  | zero => simp [parseBodyLoop]
  | succ f ih =>
    unfold parseBodyLoop
    split
    · simp
    · split
      · exact ih _ _ _
      · split
        · simp
        · dsimp only
          split
          · simp
          · exact ih _ _ _

theorem pktUnmarshal_ne_panic (p : PktSt) (payload : Option Bytes) :
    (pktUnmarshal p payload).1 ≠ .panic := by
  unfold pktUnmarshal
  split
  · simp
  · simp
  · simp
  · dsimp only
    split
    · simp
    · split
      · simp
      · split
        · simp
        · simp
        · rename_i h; exact absurd h (parseBodyLoop_ne_panic _ _ _ _ _)

end Rtp.Model.AV1
