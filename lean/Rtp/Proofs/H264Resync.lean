/-
  Rtp/Proofs/H264Resync.lean — the receiver's FU-A buffer is irrelevant until the next fragment
  with S = 1, which discards it (C15, H264 half).
-/
import Rtp.Proofs.H264Basic
import Rtp.Pred.C15H264
namespace Rtp.Proofs.H264
open Rtp Rtp.Model Rtp.Model.H264 Rtp.Spec.Rfc6184 Rtp.Pred.C15H264

/-! ### masks ⇄ div/mod, per byte -/

theorem hType_eq : ∀ h : UInt8, hType h = (h &&& naluTypeBitmask).toNat := by
  apply Rtp.Bits.forall_u8; decide +kernel

theorem fuS_eq : ∀ h : UInt8, fuS h = (h &&& fuStartBitmask != 0) := by
  apply Rtp.Bits.forall_u8; decide +kernel

theorem fuE_eq : ∀ h : UInt8, fuE h = (h &&& fuEndBitmask != 0) := by
  apply Rtp.Bits.forall_u8; decide +kernel

theorem type_of_hType {h : UInt8} {n : Nat} (hn : n < 256) (e : hType h = n) :
    h &&& naluTypeBitmask = n.toUInt8 := by
  apply UInt8.toNat_inj.mp
  rw [← hType_eq, e]
  simp [Nat.toUInt8, UInt8.toNat_ofNat']
  omega

/-- what `Unmarshal` does with an FU-A packet (type 28, at least two bytes) -/
theorem unmarshal_fua (avc : Bool) (buf : Bytes) (h fh : UInt8) (tl : Bytes) (e : hType h = 28) :
    unmarshal avc buf (h :: fh :: tl) =
      (if fuE fh then
        (.ok (package avc (((h &&& naluRefIdcBitmask) ||| (fh &&& naluTypeBitmask)) ::
                ((if fuS fh then [] else buf) ++ tl))), [])
       else (.ok [], (if fuS fh then [] else buf) ++ tl)) := by
  have ht : h &&& naluTypeBitmask = 28 := type_of_hType (n := 28) (by decide) e
  simp only [unmarshal, ht, fuS_eq, fuE_eq]
  simp [stapaNALUType, fuaNALUType]

/-- every other payload leaves the buffer alone and is decoded without looking at it -/
theorem unmarshal_other (avc : Bool) (buf : Bytes) (p : Bytes)
    (hp : ∀ h fh tl, p = h :: fh :: tl → hType h ≠ 28) :
    unmarshal avc buf p = ((unmarshal avc [] p).1, buf) := by
  unfold unmarshal
  split
  · rfl
  · rename_i b0 rest
    dsimp only
    split
    · rfl
    · split
      · rfl
      · split
        · rename_i h28
          cases rest with
          | nil => rfl
          | cons b1 body =>
            exfalso
            apply hp b0 b1 body rfl
            rw [hType_eq]
            simp only [beq_iff_eq] at h28
            rw [h28]; rfl
        · rfl

/-- two receivers whose buffers may differ while no unit is open in the frame give the same
    results on a self-starting payload sequence -/
theorem run_selfStarting (avc : Bool) (ps : List Bytes) :
    ∀ (inUnit : Bool) (b1 b2 : Bytes), selfStarting inUnit ps = true → (inUnit = true → b1 = b2) →
      (run avc b1 ps).1 = (run avc b2 ps).1 := by
  induction ps with
  | nil => intro _ _ _ _ _; rfl
  | cons p ps ih =>
    intro inUnit b1 b2 hs hb
    by_cases hf : ∃ h fh tl, p = h :: fh :: tl ∧ hType h = 28
    · obtain ⟨h, fh, tl, rfl, e⟩ := hf
      simp only [selfStarting, e, if_true] at hs
      simp only [run, unmarshal_fua avc _ h fh tl e]
      by_cases hS : fuS fh = true
      · simp only [hS, if_true]
      · have hS' : fuS fh = false := by simpa using hS
        simp only [hS', Bool.false_eq_true, if_false, Bool.and_eq_true] at hs
        have hb' := hb hs.1
        subst hb'
        rfl
    · have hp : ∀ h fh tl, p = h :: fh :: tl → hType h ≠ 28 := by
        intro h fh tl e1 e2; exact hf ⟨h, fh, tl, e1, e2⟩
      have hs' : selfStarting inUnit ps = true := by
        cases p with
        | nil => simpa [selfStarting] using hs
        | cons h t =>
          cases t with
          | nil => simpa [selfStarting] using hs
          | cons fh tl =>
            have := hp h fh tl rfl
            simpa [selfStarting, this] using hs
      simp only [run]
      rw [unmarshal_other avc b1 p hp, unmarshal_other avc b2 p hp]
      simp only
      rw [ih inUnit b1 b2 hs' hb]

end Rtp.Proofs.H264
