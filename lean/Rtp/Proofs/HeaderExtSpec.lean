/-
  Rtp/Proofs/HeaderExtSpec.lean — the algebra of Rtp/Spec/OrderedMap.lean: what "ordered map" means
  (last value per id, first-insertion order, deleted ids absent).  Nothing here mentions the model.
-/
import Rtp.Spec.OrderedMap
namespace Rtp.Proofs.HeaderExtSpec
open Rtp Rtp.Spec.OrderedMap

theorem has_cons (k : UInt8) (w : Bytes) (m : Map) (id : UInt8) :
    has ((k, w) :: m) id = (k == id || has m id) := by
  have hsym : (id == k) = (k == id) := by
    rw [Bool.eq_iff_iff]; simp only [beq_iff_eq]; exact eq_comm
  simp only [has, keys, List.map_cons, List.contains_cons, hsym]

theorem get_isSome (m : Map) (id : UInt8) : (get m id).isSome = has m id := by
  induction m with
  | nil => rfl
  | cons kv m ih =>
    obtain ⟨k, w⟩ := kv
    rw [has_cons]
    simp only [Spec.OrderedMap.get]
    cases hk : k == id <;> simp [ih]

/-- reading back what was just written -/
theorem get_set_same (m : Map) (id : UInt8) (v : Bytes) : get (set m id v) id = some v := by
  induction m with
  | nil => simp [Spec.OrderedMap.set, Spec.OrderedMap.get]
  | cons kv m ih =>
    obtain ⟨k, w⟩ := kv
    simp only [Spec.OrderedMap.set]
    cases hk : k == id <;> simp [Spec.OrderedMap.get, hk, ih]

/-- writing one id does not disturb any other -/
theorem get_set_other (m : Map) (id k : UInt8) (v : Bytes) (hne : k ≠ id) :
    get (set m id v) k = get m k := by
  induction m with
  | nil =>
    have : (id == k) = false := by rw [beq_eq_false_iff_ne]; exact fun h => hne h.symm
    simp [Spec.OrderedMap.set, Spec.OrderedMap.get, this]
  | cons kv m ih =>
    obtain ⟨k', w⟩ := kv
    simp only [Spec.OrderedMap.set]
    cases hk : k' == id
    · simp only [Bool.false_eq_true, if_false, Spec.OrderedMap.get, ih]
    · have hk' : k' = id := by simpa using hk
      have : (k' == k) = false := by
        subst hk'; rw [beq_eq_false_iff_ne]; exact fun h => hne h.symm
      simp [Spec.OrderedMap.get, this]

/-- first-insertion order: an update keeps the key list, an insertion appends -/
theorem keys_set (m : Map) (id : UInt8) (v : Bytes) :
    keys (set m id v) = if has m id then keys m else keys m ++ [id] := by
  induction m with
  | nil => rfl
  | cons kv m ih =>
    obtain ⟨k, w⟩ := kv
    rw [has_cons]
    simp only [Spec.OrderedMap.set]
    cases hk : k == id
    · simp only [Bool.false_eq_true, if_false, Bool.false_or]
      have : keys ((k, w) :: set m id v) = k :: keys (set m id v) := rfl
      rw [this, ih]
      split <;> rfl
    · simp [keys]

/-- deleting removes the first entry of that id from the key list and nothing else -/
theorem keys_del (m : Map) (id : UInt8) : keys (del m id) = (keys m).erase id := by
  induction m with
  | nil => rfl
  | cons kv m ih =>
    obtain ⟨k, w⟩ := kv
    simp only [del, keys, List.map_cons, List.erase_cons]
    cases hk : k == id
    · simp only [Bool.false_eq_true, if_false, List.map_cons]
      congr 1
    · simp

theorem get_del_other (m : Map) (id k : UInt8) (hne : k ≠ id) : get (del m id) k = get m k := by
  induction m with
  | nil => rfl
  | cons kv m ih =>
    obtain ⟨k', w⟩ := kv
    simp only [del]
    cases hk : k' == id
    · simp only [Bool.false_eq_true, if_false, Spec.OrderedMap.get, ih]
    · have hk' : k' = id := by simpa using hk
      have : (k' == k) = false := by
        subst hk'; rw [beq_eq_false_iff_ne]; exact fun h => hne h.symm
      simp [Spec.OrderedMap.get, this]

theorem get_none_of_not_has (m : Map) (id : UInt8) (h : has m id = false) : get m id = none := by
  have := get_isSome m id
  rw [h] at this
  cases hg : get m id <;> simp_all

/-- with distinct keys a deleted id is absent afterwards -/
theorem get_del_same (m : Map) (id : UInt8) (hnd : (keys m).Nodup) : get (del m id) id = none := by
  induction m with
  | nil => rfl
  | cons kv m ih =>
    obtain ⟨k, w⟩ := kv
    simp only [keys, List.map_cons, List.nodup_cons] at hnd
    simp only [del]
    cases hk : k == id
    · simp only [Bool.false_eq_true, if_false, Spec.OrderedMap.get, hk]
      exact ih hnd.2
    · have hk' : k = id := by simpa using hk
      subst hk'
      simp only [if_true]
      apply get_none_of_not_has
      simp only [has, keys, List.contains_eq_mem, decide_eq_false_iff_not]
      exact hnd.1

/-- distinct keys stay distinct -/
theorem nodup_set (m : Map) (id : UInt8) (v : Bytes) (hnd : (keys m).Nodup) :
    (keys (set m id v)).Nodup := by
  rw [keys_set]
  cases hh : has m id
  · simp only [Bool.false_eq_true, if_false]
    rw [List.nodup_append]
    refine ⟨hnd, by simp, ?_⟩
    intro a ha b hb
    simp only [List.mem_singleton] at hb
    subst hb
    intro hab; subst hab
    simp [has] at hh
    exact hh ha
  · simpa using hnd

theorem nodup_del (m : Map) (id : UInt8) (hnd : (keys m).Nodup) : (keys (del m id)).Nodup := by
  rw [keys_del]; exact hnd.erase id

end Rtp.Proofs.HeaderExtSpec
