/-
  Rtp/Proofs/VP9HeaderParse.lean — vp9.Header.Unmarshal (Model/VP9Header.lean) run on a buffer that
  begins with the bits written by the specification's bit writer (Spec/Vp9Bits.lean) returns exactly
  the coded fields (`c12_header`).

  `At buf pos seg` = "the bit string `seg` sits at bit offset `pos` of `buf`".  One lemma per read
  (flag / n bits / hasSpace), one lemma per syntax element (profile, color_config(), frame_size(),
  the key-frame part, the three header shapes); the caller's trailing bytes never matter because
  every `hasSpace` the parser performs is covered by described bits.
-/
import Rtp.Proofs.VP9Bits
import Rtp.Proofs.VP9HeaderSafe
import Rtp.Pred.C12
namespace Rtp.Proofs.VP9Hdr
open Rtp Rtp.Model Rtp.Pred Rtp.Spec.Vp9Bits Rtp.Proofs.VP9Bits

/-! ### bit strings at an offset -/

/-- the bit string `seg` sits at bit offset `pos` of `buf` -/
def At (buf : Bytes) (pos : Nat) (seg : List Bool) : Prop :=
  pos + seg.length ≤ 8 * buf.length ∧ ((bitsOf buf).drop pos).take seg.length = seg

theorem At.left {buf : Bytes} {pos : Nat} {a b : List Bool} (h : At buf pos (a ++ b)) : At buf pos a := by
  obtain ⟨hl, he⟩ := h
  rw [List.length_append] at hl he
  refine ⟨by omega, ?_⟩
  have := congrArg (List.take a.length) he
  rw [List.take_take, List.take_left, Nat.min_eq_left (by omega)] at this
  exact this

theorem At.right {buf : Bytes} {pos : Nat} {a b : List Bool} (h : At buf pos (a ++ b)) :
    At buf (pos + a.length) b := by
  obtain ⟨hl, he⟩ := h
  rw [List.length_append] at hl he
  refine ⟨by omega, ?_⟩
  have := congrArg (List.drop a.length) he
  rw [List.drop_take, List.drop_left, List.drop_drop, Nat.add_sub_cancel_left] at this
  exact this

theorem At.cons {buf : Bytes} {pos : Nat} {x : Bool} {b : List Bool} (h : At buf pos (x :: b)) :
    At buf pos [x] ∧ At buf (pos + 1) b :=
  ⟨At.left (a := [x]) (b := b) h, At.right (a := [x]) (b := b) h⟩

theorem At.val {buf : Bytes} {pos : Nat} {seg : List Bool} (h : At buf pos seg) :
    bitsVal buf pos seg.length = natOfBits seg := by
  unfold bitsVal; rw [h.2]

theorem At.space {buf : Bytes} {pos : Nat} {seg : List Bool} (h : At buf pos seg) (n : Nat)
    (hn : n ≤ seg.length) : vp9HasSpace buf pos n = true := by
  rw [space_iff]; have := h.1; omega

theorem natOfBits_single (b : Bool) : (natOfBits [b] == 1) = b := by cases b <;> rfl

/-! ### the reads -/

theorem At.flagU {buf : Bytes} {pos : Nat} {b : Bool} (h : At buf pos [b]) :
    vp9ReadFlagUnsafe buf pos = .ok (b, pos + 1) := by
  have hl := h.1
  simp only [List.length_cons, List.length_nil] at hl
  rw [readFlagUnsafe_eq buf pos (by omega)]
  have := h.val
  simp only [List.length_cons, List.length_nil, Nat.zero_add] at this
  rw [this, natOfBits_single]

theorem At.flag {buf : Bytes} {pos : Nat} {b : Bool} (h : At buf pos [b]) :
    vp9ReadFlag buf pos = .ok (b, pos + 1) := by
  unfold vp9ReadFlag
  rw [h.space 1 (by simp), if_pos rfl, h.flagU]

theorem At.bitsU {buf : Bytes} {pos : Nat} {seg : List Bool} (h : At buf pos seg) (n : Nat)
    (hn : seg.length = n) (h0 : 0 < n) (h64 : n ≤ 64) :
    vp9ReadBitsUnsafe buf pos n = .ok (natOfBits seg, pos + n) := by
  subst hn
  rw [readBitsUnsafe_eq buf pos _ h0 h64 h.1, h.val]

theorem At.bits {buf : Bytes} {pos : Nat} {seg : List Bool} (h : At buf pos seg) (n : Nat)
    (hn : seg.length = n) (h0 : 0 < n) (h64 : n ≤ 64) :
    vp9ReadBits buf pos n = .ok (natOfBits seg, pos + n) := by
  unfold vp9ReadBits
  rw [h.space n (by omega), if_pos rfl, h.bitsU n hn h0 h64]

/-- reading an `f(n)` field written by the specification -/
theorem At.fieldU {buf : Bytes} {pos n v : Nat} (h : At buf pos (bitsOfNat n v)) (h0 : 0 < n)
    (h64 : n ≤ 64) : vp9ReadBitsUnsafe buf pos n = .ok (v % 2 ^ n, pos + n) := by
  rw [h.bitsU n (bitsOfNat_length n v) h0 h64, natOfBits_bitsOfNat]

theorem At.field {buf : Bytes} {pos n v : Nat} (h : At buf pos (bitsOfNat n v)) (h0 : 0 < n)
    (h64 : n ≤ 64) : vp9ReadBits buf pos n = .ok (v % 2 ^ n, pos + n) := by
  rw [h.bits n (bitsOfNat_length n v) h0 h64, natOfBits_bitsOfNat]

/-! ### `startsWith` -/

theorem bitsOf_append (a b : Bytes) : bitsOf (a ++ b) = bitsOf a ++ bitsOf b := by
  induction a with
  | nil => rfl
  | cons x a ih => simp only [List.cons_append, bitsOf, ih, List.append_assoc]

/-- a wire that starts with the bits of `h` has them at offset 0 -/
theorem at_of_startsWith (h : Hdr) (wire : Bytes) (hs : C12.startsWith h wire = true) :
    At wire 0 h.bits := by
  unfold C12.startsWith at hs
  have he : (bitsOf (wire.take ((h.bits.length + 7) / 8))).take h.bits.length = h.bits := by
    simpa using hs
  have hlen : h.bits.length ≤ 8 * (wire.take ((h.bits.length + 7) / 8)).length := by
    have := congrArg List.length he
    rw [List.length_take, bitsOf_length] at this
    omega
  have hw : wire = wire.take ((h.bits.length + 7) / 8) ++ wire.drop ((h.bits.length + 7) / 8) :=
    (List.take_append_drop _ _).symm
  have hle : (wire.take ((h.bits.length + 7) / 8)).length ≤ wire.length := by
    rw [List.length_take]; omega
  refine ⟨by omega, ?_⟩
  have hb : bitsOf wire = bitsOf (wire.take ((h.bits.length + 7) / 8)) ++
      bitsOf (wire.drop ((h.bits.length + 7) / 8)) := by rw [← bitsOf_append, ← hw]
  rw [List.drop_zero, hb, List.take_append_of_le_length (by rw [bitsOf_length]; exact hlen)]
  exact he

/-! ### small facts about the coded values -/

theorem profile_cases (p : UInt8) (hp : p < 4) : p = 0 ∨ p = 1 ∨ p = 2 ∨ p = 3 := by
  have h : p.toNat < 4 := by simpa [UInt8.lt_iff_toNat_lt] using hp
  have : p.toNat = 0 ∨ p.toNat = 1 ∨ p.toNat = 2 ∨ p.toNat = 3 := by omega
  rcases this with h | h | h | h
  · exact Or.inl (UInt8.toNat_inj.mp h)
  · exact Or.inr (Or.inl (UInt8.toNat_inj.mp h))
  · exact Or.inr (Or.inr (Or.inl (UInt8.toNat_inj.mp h)))
  · exact Or.inr (Or.inr (Or.inr (UInt8.toNat_inj.mp h)))

theorem field3 (x : UInt8) (hx : x < 8) : (x.toNat % 2 ^ 3).toUInt8 = x := by
  have h : x.toNat < 8 := by simpa [UInt8.lt_iff_toNat_lt] using hx
  apply UInt8.toNat_inj.mp
  simp only [Nat.toUInt8, UInt8.toNat_ofNat']
  omega

theorem field16 (v : Nat) : (v % 2 ^ 16).toUInt16 = v.toUInt16 := by
  apply UInt16.toNat_inj.mp
  simp only [Nat.toUInt16, UInt16.toNat_ofNat']
  omega

theorem dim_succ (w : Nat) (h1 : 1 ≤ w) : (w - 1).toUInt16 + 1 = w.toUInt16 := by
  apply UInt16.toNat_inj.mp
  simp only [Nat.toUInt16, UInt16.toNat_add, UInt16.toNat_ofNat', UInt16.reduceToNat]
  omega

/-! ### color_config() -/

/-- the part of HeaderColorConfig.unmarshal after the bit depth -/
def ccRest (profile : UInt8) (c : Vp9ColorConfig) (buf : Bytes) (pos : Nat) : Res (Vp9ColorConfig × Nat) := do
  let (tmp, pos) ← vp9ReadBits buf pos 3
  let c : Vp9ColorConfig := { c with ColorSpace := tmp.toUInt8 }
  if c.ColorSpace != 7 then do
    let (cr, pos) ← vp9ReadFlag buf pos
    let c : Vp9ColorConfig := { c with ColorRange := cr }
    if profile == 1 || profile == 3 then
      if vp9HasSpace buf pos 3 then do
        let (sx, pos) ← vp9ReadFlagUnsafe buf pos
        let (sy, pos) ← vp9ReadFlagUnsafe buf pos
        pure ({ c with SubsamplingX := sx, SubsamplingY := sy }, pos + 1)
      else .err .other
    else pure ({ c with SubsamplingX := true, SubsamplingY := true }, pos)
  else
    let c : Vp9ColorConfig := { c with ColorRange := true }
    if profile == 1 || profile == 3 then
      if vp9HasSpace buf pos 1 then
        pure ({ c with SubsamplingX := false, SubsamplingY := false }, pos + 1)
      else .err .other
    else pure (c, pos)

/-- the coded part of color_config() after ten_or_twelve_bit -/
def colorTail (odd : Bool) (c : Color) : List Bool :=
  bitsOfNat 3 c.space.toNat ++
  (if c.space != 7 then c.range :: (if odd then [c.subX, c.subY, false] else [])
   else (if odd then [false] else []))

/-- what `ccRest` must return -/
def colorTailExp (odd : Bool) (c0 : Vp9ColorConfig) (c : Color) : Vp9ColorConfig :=
  { c0 with
    ColorSpace := c.space,
    ColorRange := if c.space != 7 then c.range else true,
    SubsamplingX := if c.space != 7 then (if odd then c.subX else true) else (if odd then false else c0.SubsamplingX),
    SubsamplingY := if c.space != 7 then (if odd then c.subY else true) else (if odd then false else c0.SubsamplingY) }

theorem ccRest_parse (p : UInt8) (c0 : Vp9ColorConfig) (c : Color) (hc : c.space < 8) (buf : Bytes)
    (pos : Nat) (h : At buf pos (colorTail (p == 1 || p == 3) c)) :
    ccRest p c0 buf pos =
      .ok (colorTailExp (p == 1 || p == 3) c0 c, pos + (colorTail (p == 1 || p == 3) c).length) := by
  unfold colorTail at h ⊢
  have h3 := h.left.field (by decide) (by decide)
  have hr := h.right
  rw [bitsOfNat_length] at hr
  unfold ccRest
  simp only [h3, Res.bind_ok, field3 c.space hc, List.length_append, bitsOfNat_length]
  by_cases h7 : c.space = 7
  · simp only [h7, bne_self_eq_false, Bool.false_eq_true, if_false] at hr ⊢
    cases hodd : (p == 1 || p == 3)
    · simp [colorTailExp, h7]
    · simp only [hodd, if_true] at hr ⊢
      rw [hr.space 1 (by simp)]
      simp [colorTailExp, h7]
  · have h7' : (c.space != 7) = true := by simpa using h7
    simp only [h7', if_true] at hr ⊢
    obtain ⟨hcr, hr⟩ := hr.cons
    simp only [hcr.flag, Res.bind_ok]
    cases hodd : (p == 1 || p == 3)
    · simp [colorTailExp, h7']
    · simp only [hodd, if_true] at hr ⊢
      rw [hr.space 3 (by simp)]
      obtain ⟨hx, hr⟩ := hr.cons
      obtain ⟨hy, hr⟩ := hr.cons
      simp only [hx.flagU, hy.flagU, if_true, Res.bind_ok, Res.pure_eq]
      simp [colorTailExp, h7', Nat.add_assoc]

theorem colorConfig_parse (p : UInt8) (hp : p < 4) (c : Color) (hc : c.space < 8) (buf : Bytes) (pos : Nat)
    (h : At buf pos (colorBits p c)) :
    vp9ColorConfigUnmarshal p buf pos = .ok (C12.expectedColor p c, pos + (colorBits p c).length) := by
  have hsplit : colorBits p c = (if 2 ≤ p then [c.bit12] else []) ++ colorTail (p == 1 || p == 3) c := by
    unfold colorBits colorTail; rw [List.append_assoc]
  have hfun : ∀ buf pos, vp9ColorConfigUnmarshal p buf pos =
      ((if 2 ≤ p then do
          let (f, pos) ← vp9ReadFlag buf pos
          pure (({ TenOrTwelveBit := f, BitDepth := if f then 12 else 10 } : Vp9ColorConfig), pos)
        else pure (({ BitDepth := 8 } : Vp9ColorConfig), pos) : Res (Vp9ColorConfig × Nat)) >>=
        fun x => ccRest p x.1 buf x.2) := fun _ _ => rfl
  rw [hfun, hsplit]
  rw [hsplit] at h
  by_cases h2 : 2 ≤ p
  · simp only [h2, if_true] at h ⊢
    have hr := h.right
    simp only [List.length_cons, List.length_nil, Nat.zero_add] at hr
    simp only [h.left.flag, Res.bind_ok, Res.pure_eq, ccRest_parse p _ c hc buf _ hr]
    rcases profile_cases p hp with rfl | rfl | rfl | rfl <;>
      first
      | exact absurd h2 (by decide)
      | (cases hb : c.bit12 <;> simp [hb, colorTailExp, C12.expectedColor, Nat.add_assoc, Nat.add_comm])
  · simp only [h2, if_false] at h ⊢
    have hr := h.right
    simp only [List.length_nil, Nat.add_zero] at hr
    simp only [Res.bind_ok, Res.pure_eq, ccRest_parse p _ c hc buf _ hr]
    rcases profile_cases p hp with rfl | rfl | rfl | rfl <;>
      first
      | exact absurd (by decide) h2
      | simp [colorTailExp, C12.expectedColor]

/-! ### frame_size() -/

theorem frameSize_parse (a b : Nat) (buf : Bytes) (pos : Nat)
    (h : At buf pos (bitsOfNat 16 a ++ bitsOfNat 16 b)) :
    vp9FrameSizeUnmarshal buf pos =
      .ok ({ FrameWidthMinus1 := a.toUInt16, FrameHeightMinus1 := b.toUInt16 }, pos + 16 + 16) := by
  unfold vp9FrameSizeUnmarshal
  have hr := h.right
  rw [bitsOfNat_length] at hr
  rw [h.space 32 (by simp [bitsOfNat_length]), if_pos rfl]
  simp only [h.left.fieldU (by decide) (by decide), hr.fieldU (by decide) (by decide), Res.bind_ok,
    Res.pure_eq, field16]

/-! ### the key-frame part: frame_sync_code, color_config(), frame_size() -/

def keyBits (p : UInt8) (c : Color) (a b : Nat) : List Bool :=
  bitsOfNat 8 0x49 ++ (bitsOfNat 8 0x83 ++ (bitsOfNat 8 0x42 ++
    (colorBits p c ++ (bitsOfNat 16 a ++ bitsOfNat 16 b))))

theorem keyPart_parse (hd : Vp9Header) (hp : hd.Profile < 4) (c : Color) (hc : c.space < 8) (a b : Nat)
    (buf : Bytes) (pos : Nat) (h : At buf pos (keyBits hd.Profile c a b)) :
    vp9HeaderKeyPart hd buf pos =
      .ok { hd with ColorConfig := some (C12.expectedColor hd.Profile c),
                    FrameSize := some { FrameWidthMinus1 := a.toUInt16, FrameHeightMinus1 := b.toUInt16 } } := by
  unfold keyBits at h
  unfold vp9HeaderKeyPart
  rw [h.space 24 (by simp [bitsOfNat_length]; omega), if_pos rfl]
  have h1 := h.right
  have h2 := h1.right
  have h3 := h2.right
  simp only [bitsOfNat_length] at h1 h2 h3
  simp only [h.left.fieldU (by decide) (by decide), h1.left.fieldU (by decide) (by decide),
    h2.left.fieldU (by decide) (by decide), Res.bind_ok]
  have e1 : ((0x49 % 2 ^ 8 : Nat).toUInt8 != 0x49) = false := by decide
  have e2 : ((0x83 % 2 ^ 8 : Nat).toUInt8 != 0x83) = false := by decide
  have e3 : ((0x42 % 2 ^ 8 : Nat).toUInt8 != 0x42) = false := by decide
  simp only [e1, e2, e3, Bool.false_eq_true, if_false]
  simp only [colorConfig_parse hd.Profile hp c hc buf _ h3.left, Res.bind_ok,
    frameSize_parse a b buf _ h3.right, Res.pure_eq]

/-! ### frame_marker, profile, reserved_zero -/

/-- Header.Unmarshal after the profile has been read -/
def hdrRest (profile : UInt8) (buf : Bytes) (pos : Nat) : Res Vp9Header := do
  let (sef, pos) ← vp9ReadFlag buf pos
  if sef then do
    let (tmp, _) ← vp9ReadBits buf pos 3
    pure { Profile := profile, ShowExistingFrame := true, FrameToShowMapIdx := tmp.toUInt8 }
  else if vp9HasSpace buf pos 3 then do
    let (nk, pos) ← vp9ReadFlagUnsafe buf pos
    let (sf, pos) ← vp9ReadFlagUnsafe buf pos
    let (er, pos) ← vp9ReadFlagUnsafe buf pos
    let h : Vp9Header := { Profile := profile, NonKeyFrame := nk, ShowFrame := sf, ErrorResilientMode := er }
    if !nk then vp9HeaderKeyPart h buf pos else pure h
  else .err .other

theorem profile_parse (p : UInt8) (hp : p < 4) (rest : List Bool) (buf : Bytes)
    (h : At buf 0 (profileBits p ++ rest)) :
    vp9HeaderUnmarshal buf = hdrRest p buf (profileBits p).length := by
  have hfun : vp9HeaderUnmarshal buf =
      (if vp9HasSpace buf 0 4 then do
        let (fm, pos) ← vp9ReadBitsUnsafe buf 0 2
        if fm != 2 then .err .other else do
        let (lo, pos) ← vp9ReadBitsUnsafe buf pos 1
        let (hi, pos) ← vp9ReadBitsUnsafe buf pos 1
        let profile : UInt8 := (hi.toUInt8 <<< 1) + lo.toUInt8
        let pos ← (if profile == 3 then
            (if vp9HasSpace buf pos 1 then pure (pos + 1) else .err .other)
          else pure pos : Res Nat)
        hdrRest profile buf pos
      else .err .other) := rfl
  rw [hfun]
  have hl := h.left
  rw [hl.space 4 (by rcases profile_cases p hp with rfl | rfl | rfl | rfl <;> decide), if_pos rfl]
  rcases profile_cases p hp with rfl | rfl | rfl | rfl
  all_goals
    have hm : At buf 0 ([true, false] ++ ([_] ++ ([_] ++ _))) := hl
    have h1 := hm.right
    have h2 := h1.right
    have h3 := h2.right
    simp only [List.length_cons, List.length_nil, Nat.zero_add, Nat.reduceAdd] at h1 h2 h3
    have e2 : (natOfBits [true, false] != 2) = false := by decide
    simp only [hm.left.bitsU 2 rfl (by decide) (by decide), h1.left.bitsU 1 rfl (by decide) (by decide),
      h2.left.bitsU 1 rfl (by decide) (by decide), Res.bind_ok, Nat.zero_add, Nat.reduceAdd, e2,
      Bool.false_eq_true, if_false]
  · rfl
  · rfl
  · rfl
  · have h3' : At buf 4 [false] := h3
    have e : ((natOfBits [(3 : UInt8).toNat / 2 % 2 == 1]).toUInt8 <<< 1) +
        (natOfBits [(3 : UInt8).toNat % 2 == 1]).toUInt8 = 3 := by decide
    simp only [e, beq_self_eq_true, if_true, h3'.space 1 (by simp)]
    rfl

/-! ### the three header shapes -/

theorem rest_showExisting (p idx : UInt8) (hi : idx < 8) (buf : Bytes) (pos : Nat)
    (h : At buf pos ([true] ++ bitsOfNat 3 idx.toNat)) :
    hdrRest p buf pos = .ok { Profile := p, ShowExistingFrame := true, FrameToShowMapIdx := idx } := by
  unfold hdrRest
  have hr := h.right
  simp only [List.length_cons, List.length_nil, Nat.zero_add] at hr
  simp only [h.left.flag, Res.bind_ok, if_true, hr.field (by decide) (by decide), Res.pure_eq, field3 idx hi]

theorem rest_nonKey (p : UInt8) (sf er : Bool) (buf : Bytes) (pos : Nat)
    (h : At buf pos [false, true, sf, er]) :
    hdrRest p buf pos = .ok { Profile := p, NonKeyFrame := true, ShowFrame := sf, ErrorResilientMode := er } := by
  unfold hdrRest
  obtain ⟨h0, h⟩ := h.cons
  have hs := h.space 3 (by simp)
  obtain ⟨h1, h⟩ := h.cons
  obtain ⟨h2, h⟩ := h.cons
  simp only [h0.flag, Res.bind_ok, Bool.false_eq_true, if_false, hs, if_true, h1.flagU, h2.flagU, h.flagU,
    Bool.not_true, Res.pure_eq]

theorem rest_key (p : UInt8) (hp : p < 4) (sf er : Bool) (c : Color) (hc : c.space < 8) (a b : Nat)
    (buf : Bytes) (pos : Nat) (h : At buf pos ([false, false, sf, er] ++ keyBits p c a b)) :
    hdrRest p buf pos = .ok
      { Profile := p, ShowFrame := sf, ErrorResilientMode := er,
        ColorConfig := some (C12.expectedColor p c),
        FrameSize := some { FrameWidthMinus1 := a.toUInt16, FrameHeightMinus1 := b.toUInt16 } } := by
  unfold hdrRest
  have hk := h.right
  obtain ⟨h0, h⟩ := h.left.cons
  have hs := h.space 3 (by simp)
  obtain ⟨h1, h⟩ := h.cons
  obtain ⟨h2, h⟩ := h.cons
  simp only [List.length_cons, List.length_nil, Nat.zero_add] at hk
  simp only [h0.flag, Res.bind_ok, Bool.false_eq_true, if_false, hs, if_true, h1.flagU, h2.flagU, h.flagU,
    Bool.not_false]
  have hk' : At buf (pos + 1 + 1 + 1 + 1) (keyBits p c a b) := by
    have e : pos + 1 + 1 + 1 + 1 = pos + 4 := by omega
    rw [e]; exact hk
  exact keyPart_parse { Profile := p, ShowFrame := sf, ErrorResilientMode := er } hp c hc a b buf _ hk'

/-! ### `c12_header` -/

/-- vp9.Header.Unmarshal on a buffer that starts with the bits of a well-formed header description
    returns exactly the described header -/
theorem header_parse (h : Hdr) (wire : Bytes) (hwf : h.WF = true) (hs : C12.startsWith h wire = true) :
    vp9HeaderUnmarshal wire = .ok (C12.expectedHdr h) := by
  have hat := at_of_startsWith h wire hs
  cases h with
  | showExisting p idx =>
    simp only [Hdr.WF, Bool.and_eq_true, decide_eq_true_eq] at hwf
    have hat' : At wire 0 (profileBits p ++ ([true] ++ bitsOfNat 3 idx.toNat)) := by
      simpa only [Hdr.bits, List.append_assoc] using hat
    rw [profile_parse p hwf.1 _ wire hat']
    have := hat'.right
    rw [Nat.zero_add] at this
    exact rest_showExisting p idx hwf.2 wire _ this
  | nonKey p sf er =>
    simp only [Hdr.WF, decide_eq_true_eq] at hwf
    have hat' : At wire 0 (profileBits p ++ [false, true, sf, er]) := hat
    rw [profile_parse p hwf _ wire hat']
    have := hat'.right
    rw [Nat.zero_add] at this
    exact rest_nonKey p sf er wire _ this
  | key p sf er c w ht =>
    simp only [Hdr.WF, Bool.and_eq_true, decide_eq_true_eq] at hwf
    have hat' : At wire 0 (profileBits p ++ ([false, false, sf, er] ++ keyBits p c (w - 1) (ht - 1))) := by
      simpa only [Hdr.bits, keyBits, List.append_assoc] using hat
    rw [profile_parse p hwf.1.1.1.1.1 _ wire hat']
    have := hat'.right
    rw [Nat.zero_add] at this
    exact rest_key p hwf.1.1.1.1.1 sf er c hwf.1.1.1.1.2 (w - 1) (ht - 1) wire _ this

/-- Header.Width()/Height() of the parsed key-frame header are the coded sizes (1 … 65535) -/
theorem expected_dims (p : UInt8) (sf er : Bool) (c : Color) (w ht : Nat) (hw : 1 ≤ w) (hh : 1 ≤ ht) :
    (C12.expectedHdr (.key p sf er c w ht)).width = w.toUInt16 ∧
    (C12.expectedHdr (.key p sf er c w ht)).height = ht.toUInt16 := by
  simp only [C12.expectedHdr, Vp9Header.width, Vp9Header.height, dim_succ w hw, dim_succ ht hh, and_self]

end Rtp.Proofs.VP9Hdr
