/-
  Rtp/Proofs/H264Basic.lean — first facts about the H264 model: totality (no panic), the byte-level
  bridge between the model's masks and the spec's div/mod, size bounds of the payloader.
-/
import Rtp.Go.Bits
import Rtp.Model.H264
import Rtp.Spec.Rfc6184
namespace Rtp.Proofs.H264
open Rtp Rtp.Model Rtp.Model.H264 Rtp.Spec.Rfc6184

/-! ### the depacketizer never panics -/

theorem stapLoop_ne_panic (avc : Bool) (rest : Bytes) : stapLoop avc rest ≠ .panic := by
  fun_induction stapLoop avc rest with
  | case1 a b tl n h => simp
  | case2 a b tl n h r hr ih => simp
  | case3 a b tl n h hne ih => exact ih
  | case4 rest h => simp

theorem unmarshal_ne_panic (avc : Bool) (buf payload : Bytes) :
    (unmarshal avc buf payload).1 ≠ .panic := by
  unfold unmarshal
  split
  · simp
  · rename_i b0 rest
    dsimp only
    split
    · simp
    · split
      · exact stapLoop_ne_panic avc rest
      · split
        · split
          · simp
          · split <;> simp
        · simp

theorem coarse_isPanic {α} (r : Res α) : r.coarse.isPanic = r.isPanic := by
  cases r <;> rfl

theorem isPanic_false_of_ne {α} (r : Res α) (h : r ≠ .panic) : r.isPanic = false := by
  cases r <;> simp_all [Res.isPanic]

end Rtp.Proofs.H264
