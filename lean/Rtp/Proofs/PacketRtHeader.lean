/-
  Rtp/Proofs/PacketRtHeader.lean — `Header.Unmarshal` of a serialised well-formed header, followed
  by arbitrary bytes, returns the header and its size (DESIGN §6 C01 steps 2–3 put together).
-/
import Rtp.Proofs.PacketRtParse
import Rtp.Proofs.PacketRtWrite
namespace Rtp.Proofs.PacketRt
open Rtp Rtp.Model

theorem readCsrcs_wire (cs : List UInt32) (rest : Bytes) :
    readCsrcs cs.length ((cs.map be32).flatten ++ rest) = cs := by
  induction cs with
  | nil => cases rest <;> simp [readCsrcs]
  | cons c cs ih =>
    simp only [List.map_cons, List.flatten_cons, List.length_cons, be32, List.cons_append, List.nil_append,
      readCsrcs, rd32_be32, ih]

/-- the fixed part: 12 bytes and the CSRC list, followed by anything -/
theorem hdrUnmarshal_fixed (r : Header) (b0 b1 : UInt8) (seq : UInt16) (ts ssrc : UInt32)
    (cs : List UInt32) (rest : Bytes) (hcc : (b0 &&& 0x0F).toNat = cs.length) :
    hdrUnmarshal r (b0 :: b1 :: (be16 seq ++ (be32 ts ++ (be32 ssrc ++ ((cs.map be32).flatten ++ rest))))) =
      let h : Header :=
        { version := (b0 >>> 6) &&& 0x3
          padding := ((b0 >>> 5) &&& 0x1) > 0
          extension := ((b0 >>> 4) &&& 0x1) > 0
          marker := ((b1 >>> 7) &&& 0x1) > 0
          payloadType := b1 &&& 0x7F
          seq := seq, ts := ts, ssrc := ssrc, csrc := cs
          extProfile := r.extProfile, exts := [] }
      if h.extension then
        match rest with
        | p0 :: p1 :: l0 :: l1 :: afterHdr =>
          let profile := rd16 p0 p1
          let extLen := (rd16 l0 l1).toNat * 4
          if afterHdr.length < extLen then .err .shortExt else
          match parseExtBlock profile (afterHdr.take extLen) with
          | .ok (es, used) => .ok ({ h with extProfile := profile, exts := es }, 12 + cs.length * 4 + 4 + used)
          | .err e => .err e
          | .panic => .panic
        | _ => .err .shortExt
      else .ok (h, 12 + cs.length * 4) := by
  simp only [be16, be32, List.cons_append, List.nil_append, hdrUnmarshal, hcc, List.length_cons,
    List.length_append, csrcBytes_length]
  rw [if_neg (by omega)]
  simp only [rd16_be16, rd32_be32, readCsrcs_wire]
  rw [drop_left' _ _ _ (csrcBytes_length cs).symm]
  rfl

/-- what `Header.Unmarshal` into receiver `r` yields for the serialised `h`: `h` itself, except
    that with X = 0 the receiver's `ExtensionProfile` stays (nothing can observe it) -/
def decoded (r h : Header) : Header := if h.extension then h else { h with extProfile := r.extProfile }

open Rtp.Pred.C01 in
theorem hdrUnmarshal_wire (h : Header) (hwf : wfH h = true) (r : Header) (tail : Bytes) :
    hdrUnmarshal r (hdrWire h ++ tail) = .ok (decoded r h, hdrMarshalSize h) := by
  have hwf' := hwf
  simp only [wfH, Bool.and_eq_true, decide_eq_true_eq] at hwf'
  obtain ⟨⟨⟨⟨hv, hpt⟩, hc⟩, hl⟩, hsz⟩ := hwf'
  obtain ⟨f01, f02, f03, f04⟩ := byte0_fields h.version h.csrc.length h.padding h.extension hv hc
  obtain ⟨f11, f12⟩ := byte1_fields h.payloadType h.marker hpt
  cases hx : h.extension
  · -- no extension
    rw [hx] at f01 f02 f03 f04
    have hes : h.exts = [] := by
      simp only [extsLegal, hx, Bool.not_false, if_true, List.isEmpty_iff] at hl; exact hl
    have hw : hdrWire h ++ tail =
        byte0 h.version h.csrc.length h.padding false :: byte1 h.payloadType h.marker ::
          (be16 h.seq ++ (be32 h.ts ++ (be32 h.ssrc ++ ((h.csrc.map be32).flatten ++ tail)))) := by
      simp [hdrWire, hdrBytes, hx, fixedBytes_eq]
    rw [hw, hdrUnmarshal_fixed _ _ _ _ _ _ _ _ f01]
    simp only [f02, f03, f04, f11, f12, hx, Bool.false_eq_true, if_false, decoded]
    have hs : hdrMarshalSize h = 12 + h.csrc.length * 4 := by simp [hdrMarshalSize, hx]
    rw [hs]
    congr 2
    cases h; simp_all
  · -- extension block
    rw [hx] at f01 f02 f03 f04
    have hbw := extBodyBytes_wire h hwf hx
    have hbl := extBody_length h _ hbw
    generalize hbody : wireBody h = body at *
    have hge := round4_ge body.length
    have hw : hdrWire h ++ tail =
        byte0 h.version h.csrc.length h.padding true :: byte1 h.payloadType h.marker ::
          (be16 h.seq ++ (be32 h.ts ++ (be32 h.ssrc ++ ((h.csrc.map be32).flatten ++
            (((h.extProfile >>> 8).toUInt8 :: h.extProfile.toUInt8 ::
              ((round4 body.length / 4).toUInt16 >>> 8).toUInt8 :: (round4 body.length / 4).toUInt16.toUInt8 ::
              ((body ++ rep (round4 body.length - body.length) 0) ++ tail))))))) := by
      simp [hdrWire, hdrBytes, hx, fixedBytes_eq, extPart, hbody, be16]
    rw [hw, hdrUnmarshal_fixed _ _ _ _ _ _ _ _ f01]
    have hblock : (body ++ rep (round4 body.length - body.length) 0).length = round4 body.length := by
      simp [rep]; omega
    have hwc : (round4 body.length / 4).toUInt16.toNat * 4 = round4 body.length :=
      wordCount_roundtrip _ (round4_mod _) (by have := round4_lt body.length; have := round4_mod body.length; omega)
    simp only [f02, f03, f04, f11, f12, if_true, rd16_be16, hwc]
    rw [if_neg (by simp only [List.length_append, hblock]; omega)]
    rw [show List.take (round4 body.length) ((body ++ rep (round4 body.length - body.length) 0) ++ tail)
        = body ++ rep (round4 body.length - body.length) 0 by
      rw [List.take_append_of_le_length (by omega), List.take_of_length_le (by omega)]]
    rw [parseExtBlock_wire h hwf hx body hbw]
    simp only [decoded, hx, if_true]
    have hs : hdrMarshalSize h = 12 + h.csrc.length * 4 + 4 + round4 body.length := by
      simp [hdrMarshalSize, hx, round4_add4, hbl]; omega
    rw [hs]
    congr 2
    cases h; simp_all

end Rtp.Proofs.PacketRt
