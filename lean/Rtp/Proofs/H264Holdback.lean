/-
  Rtp/Proofs/H264Holdback.lean — on streams whose parameter sets come as SPS,PPS pairs followed by
  a unit, the hold-back loses and reorders nothing: `holdback` = "drop AUD and filler".
-/
import Rtp.Spec.Rfc6184
namespace Rtp.Proofs.H264
open Rtp Rtp.Spec.Rfc6184

def keep (nals : List Bytes) : List Bytes := nals.filter (fun n => !isDropped n)

/-- after an SPS: a PPS, then a unit, then paired -/
def afterSps (l : List Bytes) : Bool :=
  match l with
  | b :: c :: r => isPps b && !isSps c && !isPps c && pairedF r
  | _ => false

/-- after SPS, PPS: a unit, then paired -/
def afterPps (l : List Bytes) : Bool :=
  match l with
  | c :: r => !isSps c && !isPps c && pairedF r
  | _ => false

theorem pairedF_cons (a : Bytes) (r : List Bytes) :
    pairedF (a :: r) = if isSps a then afterSps r else (!isPps a && pairedF r) := by
  cases r with
  | nil => simp [pairedF, afterSps]
  | cons b r1 =>
    cases r1 with
    | nil => simp [pairedF, afterSps]
    | cons c r' => simp [pairedF, afterSps]

theorem afterSps_cons (b : Bytes) (r : List Bytes) : afterSps (b :: r) = (isPps b && afterPps r) := by
  cases r with
  | nil => simp [afterSps, afterPps]
  | cons c r' => simp [afterSps, afterPps, Bool.and_assoc]

theorem not_sps_of_pps (n : Bytes) (h : isPps n = true) : isSps n = false := by
  simp only [isPps, isSps, beq_iff_eq] at *
  simp [h]

theorem holdback_all (nals : List Bytes) :
    (pairedF (keep nals) = true → holdback none none nals = keep nals) ∧
    (∀ s, afterSps (keep nals) = true → holdback (some s) none nals = s :: keep nals) ∧
    (∀ s b, afterPps (keep nals) = true → holdback (some s) (some b) nals = s :: b :: keep nals) := by
  induction nals with
  | nil => simp [keep, holdback, afterSps, afterPps]
  | cons n ns ih =>
    obtain ⟨p0, p1, p2⟩ := ih
    by_cases hd : isDropped n = true
    · have hk : keep (n :: ns) = keep ns := by simp [keep, hd]
      simp only [hk, holdback, hd, if_true]
      exact ⟨p0, p1, p2⟩
    · have hk : keep (n :: ns) = n :: keep ns := by simp [keep, hd]
      simp only [hk, holdback, hd, Bool.false_eq_true, if_false]
      refine ⟨?_, ?_, ?_⟩
      · intro h
        rw [pairedF_cons] at h
        by_cases h7 : isSps n = true
        · simp only [h7, if_true] at h ⊢
          exact p1 n h
        · simp only [h7, Bool.false_eq_true, if_false, Bool.and_eq_true, Bool.not_eq_true'] at h ⊢
          simp only [h.1, Bool.false_eq_true, if_false]
          rw [p0 h.2]
      · intro s h
        rw [afterSps_cons] at h
        simp only [Bool.and_eq_true] at h
        simp only [not_sps_of_pps n h.1, Bool.false_eq_true, if_false, h.1, if_true]
        exact p2 s n h.2
      · intro s b h
        simp only [afterPps, Bool.and_eq_true, Bool.not_eq_true'] at h
        simp only [h.1.1, h.1.2, Bool.false_eq_true, if_false]
        rw [p0 h.2]

/-- paired streams: nothing is lost, nothing is reordered -/
theorem holdback_paired (nals : List Bytes) (h : paired nals = true) :
    holdback none none nals = nals.filter (fun n => !isDropped n) :=
  (holdback_all nals).1 h

end Rtp.Proofs.H264
