/-
  Rtp/Proofs/WireRemarshal.lean — `encodable` packets (everything Unmarshal can return, and C01's
  domain), their pad-free wire description `ofPacket`, and Marshal = Wire.encode ∘ ofPacket.
-/
import Rtp.Proofs.WireMarshal
import Rtp.Proofs.WireAccept
namespace Rtp.Proofs.Wire
open Rtp Rtp.Model Rtp.Spec.Wire
open Rtp.Pred.C01 (canonP canonH)

/-! ### bit-packed bytes, encoder side -/

theorem byte0_marshal : ∀ (v : Fin 4) (p x : Bool) (cc : Fin 16),
    (let b0 : UInt8 := (UInt8.ofNat v.val <<< 6) ||| cc.val.toUInt8
     let b0 := if p then b0 ||| ((1 : UInt8) <<< 5) else b0
     let b0 := if x then b0 ||| ((1 : UInt8) <<< 4) else b0
     b0) = (v.val * 64 + b2n p * 32 + b2n x * 16 + cc.val).toUInt8 := by
  decide +kernel

theorem byte1_marshal : ∀ (m : Bool) (pt : Fin 128),
    (let b1 : UInt8 := UInt8.ofNat pt.val
     let b1 := if m then b1 ||| ((1 : UInt8) <<< 7) else b1
     b1) = (b2n m * 128 + pt.val).toUInt8 := by
  decide +kernel

theorem hdr1_marshal : ∀ (id : Fin 16) (l : Fin 16),
    oneByteHdr (UInt8.ofNat id.val) (l.val + 1) = (id.val * 16 + l.val).toUInt8 := by
  decide +kernel

/-! ### the pad-free description of a packet -/

def toItems (es : List Ext) : List Item := es.map fun e => .elem e.id e.payload

def extOf (h : Header) : Option ExtBlock :=
  if h.extension then
    some (if h.extProfile == profileOneByte then .oneByte (toItems h.exts) none
          else if h.extProfile == profileTwoByte then .twoByte 0 (toItems h.exts)
          else .legacy h.extProfile (match h.exts with | e :: _ => e.payload | [] => []))
  else none

/-- the canonical wire description of a packet value: no pad items, zero filler -/
def ofPacket (p : Packet) : Wire :=
  { version := p.header.version, marker := p.header.marker, pt := p.header.payloadType, seq := p.header.seq,
    ts := p.header.ts, ssrc := p.header.ssrc, csrc := p.header.csrc, ext := extOf p.header,
    payload := p.payload,
    pad := if p.header.padding then some (rep (p.paddingSize.toNat - 1) 0) else none }

def extOk1 (e : Ext) : Bool :=
  e.id.toNat ≤ 14 && 1 ≤ e.payload.length && e.payload.length ≤ 16 && !(e.id == 0 && e.payload.length == 1)
def extOk2 (e : Ext) : Bool := e.id != 0 && e.payload.length ≤ 255

/-- packets Marshal writes faithfully: what `Unmarshal` can return, and more (C01's domain) -/
def encodable (p : Packet) : Bool :=
  p.header.version.toNat < 4 && p.header.payloadType.toNat < 128 && p.header.csrc.length ≤ 15 &&
  (if p.header.padding then decide (1 ≤ p.paddingSize.toNat) else p.paddingSize == 0) &&
  (if p.header.extension then
     if p.header.extProfile == profileOneByte then p.header.exts.all extOk1 && extBodySize p.header ≤ maxBody
     else if p.header.extProfile == profileTwoByte then p.header.exts.all extOk2 && extBodySize p.header ≤ maxBody
     else match p.header.exts with
       | [e] => e.id == 0 && e.payload.length % 4 == 0 && e.payload.length ≤ maxBody
       | _ => false
   else p.header.exts.isEmpty)

theorem body1_toItems (es : List Ext) (h : es.all extOk1 = true) :
    body1 (toItems es) = (es.map fun e => (oneByteHdr e.id e.payload.length :: e.payload)).flatten := by
  induction es with
  | nil => rfl
  | cons e r ih =>
    simp only [List.all_cons, Bool.and_eq_true] at h
    obtain ⟨he, hr⟩ := h
    simp only [extOk1, Bool.and_eq_true, decide_eq_true_eq] at he
    obtain ⟨⟨⟨h14, h1⟩, h16⟩, _⟩ := he
    have := hdr1_marshal ⟨e.id.toNat, by omega⟩ ⟨e.payload.length - 1, by omega⟩
    simp only [UInt8.ofNat_toNat] at this
    have e1 : e.payload.length - 1 + 1 = e.payload.length := by omega
    rw [e1] at this
    simp only [toItems, List.map_cons, body1_elem, List.flatten_cons, this, List.cons_append]
    congr 2
    exact ih hr

theorem body2_toItems (es : List Ext) :
    body2 (toItems es) = (es.map fun e => (e.id :: e.payload.length.toUInt8 :: e.payload)).flatten := by
  induction es with
  | nil => rfl
  | cons e r ih =>
    simp only [toItems, List.map_cons, body2_elem, List.flatten_cons, List.cons_append]
    congr 3


theorem flatten1_length (es : List Ext) (f : Ext → UInt8) :
    ((es.map fun e => (f e :: e.payload)).flatten).length = (es.map fun e => 1 + e.payload.length).sum := by
  induction es with
  | nil => rfl
  | cons e r ih => simp only [List.map_cons, List.flatten_cons, List.length_append, List.length_cons, List.sum_cons, ih]; omega

theorem flatten2_length (es : List Ext) (f g : Ext → UInt8) :
    ((es.map fun e => (f e :: g e :: e.payload)).flatten).length = (es.map fun e => 2 + e.payload.length).sum := by
  induction es with
  | nil => rfl
  | cons e r ih => simp only [List.map_cons, List.flatten_cons, List.length_append, List.length_cons, List.sum_cons, ih]; omega

/-- the block content Marshal writes for an encodable header = the content of its description -/
theorem extBody_ofPacket (h : Header) (hx : h.extension = true)
    (he : (if h.extProfile == profileOneByte then h.exts.all extOk1 && extBodySize h ≤ maxBody
     else if h.extProfile == profileTwoByte then h.exts.all extOk2 && extBodySize h ≤ maxBody
     else match h.exts with
       | [e] => e.id == 0 && e.payload.length % 4 == 0 && e.payload.length ≤ maxBody
       | _ => false) = true) :
    ∃ b, extOf h = some b ∧ b.profile = h.extProfile ∧ extBodyBytes h = .ok b.body ∧ b.body.length = extBodySize h := by
  by_cases h1 : h.extProfile == profileOneByte
  · simp only [h1, ↓reduceIte, Bool.and_eq_true] at he
    refine ⟨.oneByte (toItems h.exts) none, by simp [extOf, hx, h1], ?_, ?_, ?_⟩
    · simp only [ExtBlock.profile]; simp only [beq_iff_eq, profileOneByte] at h1; exact h1.symm
    · simp [extBodyBytes, h1, ExtBlock.body, body1_toItems _ he.1, stopBytes]
    · simp only [ExtBlock.body, body1_toItems _ he.1, extBodySize, h1, ↓reduceIte, stopBytes, List.append_nil, flatten1_length]
  · by_cases h2 : h.extProfile == profileTwoByte
    · simp only [h1, h2, ↓reduceIte, Bool.false_eq_true, Bool.and_eq_true] at he
      refine ⟨.twoByte 0 (toItems h.exts), by simp [extOf, hx, h1, h2], ?_, ?_, ?_⟩
      · simp only [ExtBlock.profile]; simp only [beq_iff_eq, profileTwoByte] at h2; exact h2.symm
      · simp [extBodyBytes, h1, h2, ExtBlock.body, body2_toItems]
      · simp only [ExtBlock.body, body2_toItems, extBodySize, h1, h2, ↓reduceIte, Bool.false_eq_true, flatten2_length]
    · simp only [h1, h2, ↓reduceIte, Bool.false_eq_true] at he
      match hes : h.exts, he with
      | [e], he =>
        simp only [Bool.and_eq_true, beq_iff_eq, decide_eq_true_eq] at he
        refine ⟨.legacy h.extProfile e.payload, by simp [extOf, hx, h1, h2, hes], rfl, ?_, ?_⟩
        · simp [extBodyBytes, h1, h2, hes, ExtBlock.body, he.1.2]
        · simp [ExtBlock.body, extBodySize, h1, h2, hes]

theorem round4_padTo4 (n : Nat) : round4 n = n + padTo4 n := by
  unfold round4 padTo4; omega

theorem fixedBytes_spec (h : Header) (hv : h.version.toNat < 4) (hpt : h.payloadType.toNat < 128)
    (hcc : h.csrc.length ≤ 15) :
    fixedBytes h =
      [ (h.version.toNat * 64 + b2n h.padding * 32 + b2n h.extension * 16 + h.csrc.length).toUInt8,
        (b2n h.marker * 128 + h.payloadType.toNat).toUInt8 ] ++
      be16 h.seq ++ be32 h.ts ++ be32 h.ssrc ++ (h.csrc.map be32).flatten := by
  have a := byte0_marshal ⟨h.version.toNat, hv⟩ h.padding h.extension ⟨h.csrc.length, by omega⟩
  have b := byte1_marshal h.marker ⟨h.payloadType.toNat, hpt⟩
  simp only [UInt8.ofNat_toNat] at a b
  simp only [fixedBytes, a, b]

theorem pktMarshal_ofPacket (p : Packet) (h : encodable p = true) :
    pktMarshal p = .ok (ofPacket p).encode := by
  simp only [encodable, Bool.and_eq_true, decide_eq_true_eq] at h
  obtain ⟨⟨⟨⟨hv, hpt⟩, hcc⟩, hpad⟩, hext⟩ := h
  have hp1 : p.header.padding = true → 1 ≤ p.paddingSize.toNat := by
    intro hp; simpa [hp] using hpad
  have hp0 : p.header.padding = false → p.paddingSize = 0 := by
    intro hp; simpa [hp] using hpad
  have hpadEq : padBytes p = encodePad (ofPacket p).pad := by
    cases hp : p.header.padding with
    | false => simp [padBytes, ofPacket, hp, encodePad]
    | true =>
      have := hp1 hp
      have e : (p.paddingSize.toNat - 1 + 1).toUInt8 = p.paddingSize := by
        have : p.paddingSize.toNat - 1 + 1 = p.paddingSize.toNat := by omega
        rw [this]; simp
      simp [padBytes, ofPacket, hp, encodePad, rep_length, e]
  have hfix := fixedBytes_spec p.header hv hpt hcc
  have hps : (ofPacket p).pad.isSome = p.header.padding := by
    cases hp : p.header.padding <;> simp [ofPacket, hp]
  have hxs : (ofPacket p).ext.isSome = p.header.extension := by
    cases hx : p.header.extension <;> simp [ofPacket, extOf, hx]
  cases hx : p.header.extension with
  | false =>
    rw [pktMarshal_bytes p [] (by simp [hx]) hp1 hp0]
    congr 1
    simp only [hdrBytes, hx, Bool.false_eq_true, ↓reduceIte, List.append_nil, hfix, hpadEq, Wire.encode, hps, hxs]
    simp [ofPacket, extOf, hx, encodeExt]
  | true =>
    simp only [hx, ↓reduceIte] at hext
    obtain ⟨b, hb1, hb2, hb3, hb4⟩ := extBody_ofPacket p.header hx hext
    rw [pktMarshal_bytes p b.body (fun _ => ⟨hb3, hb4⟩) hp1 hp0]
    congr 1
    have hext' : (ofPacket p).ext = some b := by simp [ofPacket, hb1]
    simp only [hdrBytes, hx, ↓reduceIte, hfix, hpadEq, Wire.encode, hps, hext', encodeExt, extBytes,
      ExtBlock.encode, round4_padTo4, hb2]
    have : b.body.length + padTo4 b.body.length - b.body.length = padTo4 b.body.length := by omega
    rw [this]
    simp [ofPacket]

/-! ### round trip -/

theorem elems_toItems (es : List Ext) : elems (toItems es) = es := by
  induction es with
  | nil => rfl
  | cons e r ih => simp only [toItems, List.map_cons, elems] at ih ⊢; rw [ih]

theorem toItems_ok1 (es : List Ext) (h : es.all extOk1 = true) : (toItems es).all Item.ok1 = true := by
  simp only [List.all_eq_true] at h ⊢
  intro it hit
  simp only [toItems, List.mem_map] at hit
  obtain ⟨e, he, rfl⟩ := hit
  have := h e he
  simp only [extOk1, Bool.and_eq_true, decide_eq_true_eq] at this
  obtain ⟨⟨⟨a, b⟩, c⟩, d⟩ := this
  simp only [Item.ok1, Bool.and_eq_true, decide_eq_true_eq]
  exact ⟨⟨⟨by omega, b⟩, c⟩, d⟩

theorem toItems_ok2 (es : List Ext) (h : es.all extOk2 = true) : (toItems es).all Item.ok2 = true := by
  simp only [List.all_eq_true] at h ⊢
  intro it hit
  simp only [toItems, List.mem_map] at hit
  obtain ⟨e, he, rfl⟩ := hit
  exact h e he

theorem ofPacket_padSize (p : Packet)
    (hpad : (if p.header.padding then decide (1 ≤ p.paddingSize.toNat) else p.paddingSize == 0) = true) :
    (ofPacket p).toPacket.paddingSize = p.paddingSize := by
  cases hp : p.header.padding with
  | false => simp only [hp, Bool.false_eq_true, ↓reduceIte, beq_iff_eq] at hpad; simp [Wire.toPacket, ofPacket, hp, hpad]
  | true =>
    simp only [hp, ↓reduceIte, decide_eq_true_eq] at hpad
    have : p.paddingSize.toNat - 1 + 1 = p.paddingSize.toNat := by omega
    simp [Wire.toPacket, ofPacket, hp, rep_length, this]

theorem ofPacket_padOk (p : Packet) :
    (match (ofPacket p).pad with | some f => decide (f.length ≤ 254) | none => true) = true := by
  cases hp : p.header.padding with
  | false => simp [ofPacket, hp]
  | true =>
    have := p.paddingSize.toNat_lt
    simp [ofPacket, hp, rep_length]; omega

theorem ofPacket_header_noext (p : Packet) (hx : p.header.extension = false) (he : p.header.exts = []) :
    (ofPacket p).toPacket.header = canonH p.header := by
  have hpi : (ofPacket p).pad.isSome = p.header.padding := by
    cases hp : p.header.padding <;> simp [ofPacket, hp]
  have hext : (ofPacket p).ext = none := by simp [ofPacket, extOf, hx]
  obtain ⟨hd, pl, ps⟩ := p
  obtain ⟨v, pa, x, m, pt, sq, ts, ss, cs, prof, es⟩ := hd
  simp only at hx he hpi hext
  subst hx he
  simp only [Wire.toPacket, hext, hpi, canonH]
  simp [ofPacket]

theorem ofPacket_header_ext (p : Packet) (b : ExtBlock) (hx : p.header.extension = true)
    (hb : extOf p.header = some b) (hp : b.profile = p.header.extProfile) (he : b.elements = p.header.exts) :
    (ofPacket p).toPacket.header = canonH p.header := by
  have hpi : (ofPacket p).pad.isSome = p.header.padding := by
    cases hp : p.header.padding <;> simp [ofPacket, hp]
  have hext : (ofPacket p).ext = some b := by simp [ofPacket, hb]
  obtain ⟨hd, pl, ps⟩ := p
  obtain ⟨v, pa, x, m, pt, sq, ts, ss, cs, prof, es⟩ := hd
  simp only at hx he hpi hext hp
  subst hx
  simp only [Wire.toPacket, hext, hpi, canonH, hp, he]
  simp [ofPacket]

theorem extOf_ok (h : Header) (hx : h.extension = true)
    (he : (if h.extProfile == profileOneByte then h.exts.all extOk1 && extBodySize h ≤ maxBody
     else if h.extProfile == profileTwoByte then h.exts.all extOk2 && extBodySize h ≤ maxBody
     else match h.exts with
       | [e] => e.id == 0 && e.payload.length % 4 == 0 && e.payload.length ≤ maxBody
       | _ => false) = true) :
    ∃ b, extOf h = some b ∧ b.profile = h.extProfile ∧ blockOk b = true ∧ blockUnread b = 0 ∧
      b.elements = h.exts := by
  obtain ⟨b0, hb0, _, _, hlen⟩ := extBody_ofPacket h hx he
  by_cases h1 : h.extProfile == profileOneByte
  · simp only [h1, ↓reduceIte, Bool.and_eq_true, decide_eq_true_eq] at he
    have hb : extOf h = some (.oneByte (toItems h.exts) none) := by simp [extOf, hx, h1]
    rw [hb] at hb0; cases hb0
    refine ⟨_, hb, ?_, ?_, rfl, ?_⟩
    · simp only [ExtBlock.profile]; simp only [beq_iff_eq, profileOneByte] at h1; exact h1.symm
    · simp only [blockOk, Bool.and_eq_true, decide_eq_true_eq, toItems_ok1 _ he.1, stopOk, true_and]
      simp only [ExtBlock.body] at hlen; omega
    · simp only [ExtBlock.elements, elems_toItems]
  · by_cases h2 : h.extProfile == profileTwoByte
    · simp only [h1, h2, ↓reduceIte, Bool.false_eq_true, Bool.and_eq_true, decide_eq_true_eq] at he
      have hb : extOf h = some (.twoByte 0 (toItems h.exts)) := by simp [extOf, hx, h1, h2]
      rw [hb] at hb0; cases hb0
      refine ⟨_, hb, ?_, ?_, rfl, ?_⟩
      · simp only [ExtBlock.profile]; simp only [beq_iff_eq, profileTwoByte] at h2; exact h2.symm
      · simp only [blockOk, Bool.and_eq_true, decide_eq_true_eq, toItems_ok2 _ he.1, beq_self_eq_true, true_and]
        simp only [ExtBlock.body] at hlen; omega
      · simp only [ExtBlock.elements, elems_toItems]
    · simp only [h1, h2, ↓reduceIte, Bool.false_eq_true] at he
      match hes : h.exts, he with
      | [e], he =>
        simp only [Bool.and_eq_true, beq_iff_eq, decide_eq_true_eq] at he
        obtain ⟨⟨e1, e2⟩, e3⟩ := he
        refine ⟨.legacy h.extProfile e.payload, by simp [extOf, hx, h1, h2, hes], rfl, ?_, rfl, ?_⟩
        · simp only [blockOk, Bool.and_eq_true, bne_iff_ne, ne_eq, beq_iff_eq, decide_eq_true_eq]
          simp only [beq_iff_eq, profileOneByte, profileTwoByte] at h1 h2
          exact ⟨⟨⟨h1, h2⟩, e2⟩, e3⟩
        · cases e; simp_all [ExtBlock.elements]

/-- the description of an encodable packet meets the hypotheses of the parse lemmas, leaves
    nothing unread, and describes that packet -/
theorem ofPacket_ok (p : Packet) (h : encodable p = true) :
    wireOk (ofPacket p) = true ∧ wireUnread (ofPacket p) = 0 ∧ (ofPacket p).toPacket = canonP p := by
  simp only [encodable, Bool.and_eq_true, decide_eq_true_eq] at h
  obtain ⟨⟨⟨⟨hv, hpt⟩, hcc⟩, hpad⟩, hext⟩ := h
  have hps := ofPacket_padSize p hpad
  have hpadok := ofPacket_padOk p
  have hpkt : ∀ hd, (ofPacket p).toPacket.header = hd → (ofPacket p).toPacket = { p with header := hd } := by
    intro hd hh
    have e1 : (ofPacket p).toPacket.payload = p.payload := rfl
    rw [← hh, ← hps, ← e1]
  cases hx : p.header.extension with
  | false =>
    simp only [hx, Bool.false_eq_true, ↓reduceIte, List.isEmpty_iff] at hext
    have he : (ofPacket p).ext = none := by simp [ofPacket, extOf, hx]
    refine ⟨?_, by simp [wireUnread, he], ?_⟩
    · simp only [wireOk, Bool.and_eq_true, decide_eq_true_eq, he]
      exact ⟨⟨⟨⟨hv, hpt⟩, hcc⟩, trivial⟩, hpadok⟩
    · exact hpkt _ (ofPacket_header_noext p hx hext)
  | true =>
    simp only [hx, ↓reduceIte] at hext
    obtain ⟨b, hb1, hb2, hb3, hb4, hb5⟩ := extOf_ok p.header hx hext
    have he : (ofPacket p).ext = some b := by simp [ofPacket, hb1]
    refine ⟨?_, by simp [wireUnread, he, hb4], ?_⟩
    · simp only [wireOk, Bool.and_eq_true, decide_eq_true_eq, he]
      exact ⟨⟨⟨⟨hv, hpt⟩, hcc⟩, hb3⟩, hpadok⟩
    · exact hpkt _ (ofPacket_header_ext p b hx hb1 hb2 hb5)

theorem canonP_decoded (r : Header) (w : Wire) :
    canonP { header := hdrOf r w, payload := w.payload, paddingSize := w.toPacket.paddingSize } = canonP w.toPacket := by
  simp only [canonP, canonH_hdrOf]
  simp [Wire.toPacket]

theorem canonP_idem (p : Packet) : canonP (canonP p) = canonP p := by
  cases hx : p.header.extension <;> simp [canonP, canonH, hx]

/-- Marshal then Unmarshal (into any receiver) gives the packet back: C01's round trip on the
    whole `encodable` class -/
theorem marshal_unmarshal (p : Packet) (h : encodable p = true) (r : Packet) :
    ∃ bs p', pktMarshal p = .ok bs ∧ pktUnmarshal r bs = .ok p' ∧ canonP p' = canonP p := by
  obtain ⟨h1, h2, h3⟩ := ofPacket_ok p h
  refine ⟨_, _, pktMarshal_ofPacket p h, pktUnmarshal_encode (ofPacket p) r h1 h2, ?_⟩
  rw [canonP_decoded, h3, canonP_idem]

end Rtp.Proofs.Wire
