/-
  Rtp/Proofs/ExtCodecs.lean — helper lemmas for C17: the mask/shift code of the five codecs
  (Rtp/Model/ExtCodecs.lean) computes the positional layouts of Rtp/Spec/ExtLayouts.lean.
  Everything is algebraic (UIntN → Nat by `toNat_*`, masks/shifts → div/mod by Rtp/Go/Bits.lean,
  then `omega`); only facts about a single byte are settled by evaluating all 256 values.
-/
import Rtp.Pred.C17
import Rtp.Go.Bits
namespace Rtp.Proofs.Ext
open Rtp Rtp.Model.Ext Rtp.Pred.C17 Rtp.Spec.Ext

theorem u8_ext {a b : UInt8} (h : a.toNat = b.toNat) : a = b := UInt8.toNat_inj.mp h
theorem u16_ext {a b : UInt16} (h : a.toNat = b.toNat) : a = b := UInt16.toNat_inj.mp h
theorem u64_ext {a b : UInt64} (h : a.toNat = b.toNat) : a = b := UInt64.toNat_inj.mp h

/-! ### big-endian primitives of Rtp/Go/Prim.lean as positional numbers -/

theorem be16_eq (x : UInt16) : be16 x = bytesBE 2 x.toNat := by
  simp only [be16, bytesBE]
  congr 1
  · apply u8_ext; simp [Nat.shiftRight_eq_div_pow]
  · congr 1; apply u8_ext; simp

theorem rd16_toNat (a b : UInt8) : (rd16 a b).toNat = a.toNat * 256 + b.toNat := by
  have ha := a.toNat_lt; have hb := b.toNat_lt
  simp only [rd16, UInt16.toNat_or, UInt16.toNat_shiftLeft, UInt8.toNat_toUInt16]
  have : (8 : UInt16).toNat % 16 = 8 := by decide
  rw [this, Nat.mod_eq_of_lt (by rw [Nat.shiftLeft_eq]; omega), Bits.nat_shl_or _ _ _ (by omega)]

theorem u64_shr_u8 (x s : UInt64) (k : Nat) (hs : s.toNat = 8 * k) (hk : k < 8) :
    (x >>> s).toUInt8 = (x.toNat / 256 ^ k % 256).toUInt8 := by
  apply u8_ext
  have : 8 * k % 64 = 8 * k := by omega
  simp [Nat.shiftRight_eq_div_pow, hs, this, Nat.pow_mul]

theorem be64_eq (x : UInt64) : be64 x = bytesBE 8 x.toNat := by
  simp only [be64, bytesBE]
  rw [u64_shr_u8 x 56 7 (by decide) (by decide), u64_shr_u8 x 48 6 (by decide) (by decide),
    u64_shr_u8 x 40 5 (by decide) (by decide), u64_shr_u8 x 32 4 (by decide) (by decide),
    u64_shr_u8 x 24 3 (by decide) (by decide), u64_shr_u8 x 16 2 (by decide) (by decide),
    u64_shr_u8 x 8 1 (by decide) (by decide)]
  congr 7
  congr 1; apply u8_ext; simp

theorem mul_or (a t j : Nat) (ht : t < 2 ^ j) : a * 2 ^ j ||| t = a * 2 ^ j + t := by
  rw [← Bits.nat_shl_or _ _ _ ht, Nat.shiftLeft_eq]

theorem rd64_toNat (a b c d e f g h : UInt8) : (rd64 a b c d e f g h).toNat = natBE [a,b,c,d,e,f,g,h] := by
  have ha := a.toNat_lt; have hb := b.toNat_lt; have hc := c.toNat_lt; have hd := d.toNat_lt
  have he := e.toNat_lt; have hf := f.toNat_lt; have hg := g.toNat_lt; have hh := h.toNat_lt
  have s (x : UInt8) (k : Nat) (hk : k ≤ 56) : x.toNat <<< k % 2 ^ 64 = x.toNat * 2 ^ k := by
    rw [Nat.shiftLeft_eq, Nat.mod_eq_of_lt]
    calc x.toNat * 2 ^ k < 2 ^ 8 * 2 ^ k := Nat.mul_lt_mul_of_pos_right x.toNat_lt (Nat.two_pow_pos k)
      _ ≤ 2 ^ 8 * 2 ^ 56 := Nat.mul_le_mul_left _ (Nat.pow_le_pow_right (by decide) hk)
      _ = 2 ^ 64 := by decide
  simp only [rd64, UInt64.toNat_or, UInt64.toNat_shiftLeft, UInt8.toNat_toUInt64, natBE]
  simp only [show (56:UInt64).toNat % 64 = 56 by decide, show (48:UInt64).toNat % 64 = 48 by decide,
    show (40:UInt64).toNat % 64 = 40 by decide, show (32:UInt64).toNat % 64 = 32 by decide,
    show (24:UInt64).toNat % 64 = 24 by decide, show (16:UInt64).toNat % 64 = 16 by decide,
    show (8:UInt64).toNat % 64 = 8 by decide]
  rw [s a 56 (by omega), s b 48 (by omega), s c 40 (by omega), s d 32 (by omega), s e 24 (by omega),
    s f 16 (by omega), s g 8 (by omega)]
  simp only [Nat.or_assoc]
  rw [mul_or g.toNat h.toNat 8 (by omega)]
  rw [mul_or f.toNat _ 16 (by omega)]
  rw [mul_or e.toNat _ 24 (by omega)]
  rw [mul_or d.toNat _ 32 (by omega)]
  rw [mul_or c.toNat _ 40 (by omega)]
  rw [mul_or b.toNat _ 48 (by omega)]
  rw [mul_or a.toNat _ 56 (by omega)]
  simp only [List.length_cons, List.length_nil]
  omega

/-! ### AudioLevel -/

theorem audio_marshal (v prev : AudioLevel) : marshalOk audioSpec v (modelM audio v prev) = true := by
  obtain ⟨l, voice⟩ := v
  by_cases h : l ≤ 127
  · cases voice <;>
    simp [marshalOk, audioSpec, modelM, audio, audioMarshal, audioUnmarshal, h, UInt8.not_lt.mpr h, Res.coarse, render, audioLevel, width, pack, bytesBE] <;>
    (revert l; apply Bits.forall_u8; decide +kernel)
  · simp [marshalOk, audioSpec, modelM, audio, audioMarshal, h, UInt8.not_le.mp h, Res.coarse, Res.isErr]

theorem audio_unmarshal (r : AudioLevel) (raw : Bytes) :
    unmarshalOk audioSpec raw ⟨(audioUnmarshal r raw).res.coarse, (audioUnmarshal r raw).st⟩ = true := by
  match raw with
  | [] => simp [unmarshalOk, audioSpec, audioUnmarshal, Res.coarse, Res.isErr]
  | b :: rest =>
    simp [unmarshalOk, audioSpec, audioUnmarshal, parse, split, natBE, Res.coarse]
    revert b; apply Bits.forall_u8; decide +kernel

/-! ### TransportCC -/

theorem tcc_marshal (v prev : TransportCC) : marshalOk tccSpec v (modelM tcc v prev) = true := by
  obtain ⟨s⟩ := v
  have hs := s.toNat_lt
  simp [marshalOk, tccSpec, modelM, tcc, tccMarshal, tccUnmarshal, Res.coarse, render, transportCC, width, pack, be16_eq, bytesBE]
  apply u16_ext; rw [rd16_toNat]; simp; omega

theorem tcc_unmarshal (r : TransportCC) (raw : Bytes) :
    unmarshalOk tccSpec raw ⟨(tccUnmarshal r raw).res.coarse, (tccUnmarshal r raw).st⟩ = true := by
  match raw with
  | [] => simp [unmarshalOk, tccSpec, tccUnmarshal, Res.coarse, Res.isErr]
  | [a] => simp [unmarshalOk, tccSpec, tccUnmarshal, Res.coarse, Res.isErr]
  | a :: b :: rest =>
    have hl : ¬ (rest.length + 1 + 1 < 2) := by omega
    simp [unmarshalOk, tccSpec, tccUnmarshal, parse, split, natBE, Res.coarse, hl]
    apply u16_ext; rw [rd16_toNat]; have ha := a.toNat_lt; have hb := b.toNat_lt; simp; omega

/-! ### PlayoutDelay -/

/-- the three bytes PlayoutDelay.Marshal writes, as numbers -/
theorem playout_bytes (a b : UInt16) (ha : a.toNat < 4096) (hb : b.toNat < 4096) :
    ((a >>> 4).toUInt8).toNat = a.toNat / 16 ∧
    ((a <<< 4).toUInt8 ||| (b >>> 8).toUInt8).toNat = a.toNat % 16 * 16 + b.toNat / 256 ∧
    (b.toUInt8).toNat = b.toNat % 256 := by
  refine ⟨?_, ?_, ?_⟩
  · simp [Nat.shiftRight_eq_div_pow]; omega
  · simp only [UInt8.toNat_or, UInt16.toNat_toUInt8, UInt16.toNat_shiftLeft, UInt16.toNat_shiftRight,
      show (4 : UInt16).toNat % 16 = 4 by decide, show (8 : UInt16).toNat % 16 = 8 by decide,
      Nat.shiftLeft_eq, Nat.shiftRight_eq_div_pow]
    have e1 : a.toNat * 2 ^ 4 % 2 ^ 16 % 2 ^ 8 = (a.toNat % 16) <<< 4 := by rw [Nat.shiftLeft_eq]; omega
    have e2 : b.toNat / 2 ^ 8 % 2 ^ 8 = b.toNat / 256 := by omega
    rw [e1, e2, Bits.nat_shl_or _ _ _ (by omega)]
  · simp

theorem playout_min_toNat (x y : UInt8) : (rd16 x y >>> 4).toNat = (x.toNat * 256 + y.toNat) / 16 := by
  simp only [UInt16.toNat_shiftRight, rd16_toNat, show (4 : UInt16).toNat % 16 = 4 by decide, Nat.shiftRight_eq_div_pow]

theorem playout_max_toNat (y z : UInt8) : (rd16 y z &&& 0x0FFF).toNat = (y.toNat * 256 + z.toNat) % 4096 := by
  rw [UInt16.toNat_and, rd16_toNat]
  exact Bits.nat_and_mask _ 12

theorem playout_marshal (v prev : PlayoutDelay) : marshalOk playoutSpec v (modelM playout v prev) = true := by
  obtain ⟨a, b⟩ := v
  by_cases h : a ≤ 4095 ∧ b ≤ 4095
  · obtain ⟨h1, h2⟩ := h
    have ha : a.toNat < 4096 := by have := UInt16.le_iff_toNat_le.mp h1; simp at this; omega
    have hb : b.toNat < 4096 := by have := UInt16.le_iff_toNat_le.mp h2; simp at this; omega
    obtain ⟨p1, p2, p3⟩ := playout_bytes a b ha hb
    have hc : (decide (a > 4095) || decide (b > 4095)) = false := by
      simp [UInt16.not_lt.mpr h1, UInt16.not_lt.mpr h2]
    have hm : playoutMarshal ⟨a, b⟩ =
        .ok [(a >>> 4).toUInt8, (a <<< 4).toUInt8 ||| (b >>> 8).toUInt8, b.toUInt8] := by
      simp only [playoutMarshal, hc, Bool.false_eq_true, ↓reduceIte]
    generalize (a >>> 4).toUInt8 = x at hm p1
    generalize (a <<< 4).toUInt8 ||| (b >>> 8).toUInt8 = y at hm p2
    generalize b.toUInt8 = z at hm p3
    have hx := x.toNat_lt; have hy := y.toNat_lt; have hz := z.toNat_lt
    simp only [marshalOk, playoutSpec, modelM, playout, hm, playoutUnmarshal, Res.coarse, render, playoutDelay, width, pack, bytesBE, h1, h2]
    simp
    refine ⟨⟨?_, ?_, ?_⟩, ?_, ?_⟩
    · apply u8_ext; simp; omega
    · apply u8_ext; simp; omega
    · apply u8_ext; simp; omega
    · apply u16_ext; rw [playout_min_toNat]; omega
    · apply u16_ext; rw [playout_max_toNat]; omega
  · have hc : (decide (a > 4095) || decide (b > 4095)) = true := by
      rcases Decidable.not_and_iff_or_not.mp h with h | h
      · simp [UInt16.not_le.mp h]
      · simp [UInt16.not_le.mp h]
    have hr : (decide (a ≤ 4095) && decide (b ≤ 4095)) = false := by simpa using h
    simp [marshalOk, playoutSpec, modelM, playout, playoutMarshal, hc, hr, Res.coarse, Res.isErr]

theorem playout_unmarshal (r : PlayoutDelay) (raw : Bytes) :
    unmarshalOk playoutSpec raw ⟨(playoutUnmarshal r raw).res.coarse, (playoutUnmarshal r raw).st⟩ = true := by
  match raw with
  | [] => simp [unmarshalOk, playoutSpec, playoutUnmarshal, Res.coarse, Res.isErr]
  | [a] => simp [unmarshalOk, playoutSpec, playoutUnmarshal, Res.coarse, Res.isErr]
  | [a, b] => simp [unmarshalOk, playoutSpec, playoutUnmarshal, Res.coarse, Res.isErr]
  | a :: b :: c :: rest =>
    have hl : ¬ (rest.length + 1 + 1 + 1 < 3) := by omega
    have ha := a.toNat_lt; have hb := b.toNat_lt; have hc := c.toNat_lt
    simp [unmarshalOk, playoutSpec, playoutUnmarshal, parse, split, natBE, Res.coarse, hl]
    constructor
    · apply u16_ext; rw [playout_min_toNat]; simp; omega
    · apply u16_ext; rw [playout_max_toNat]; simp; omega

end Rtp.Proofs.Ext
