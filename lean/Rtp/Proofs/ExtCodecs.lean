/-
  Rtp/Proofs/ExtCodecs.lean — helper lemmas for C17: the mask/shift code of the five codecs
  (Rtp/Model/ExtCodecs.lean) computes the positional layouts of Rtp/Spec/ExtLayouts.lean.
  Everything is algebraic (UIntN → Nat by `toNat_*`, masks/shifts → div/mod by Rtp/Go/Bits.lean,
  then `omega`); only facts about a single byte are settled by evaluating all 256 values.
-/
import Rtp.Pred.C17
import Rtp.Go.Bits
namespace Rtp.Proofs.ExtCodecs
open Rtp Rtp.Model.ExtCodecs Rtp.Pred.C17 Rtp.Spec.ExtLayouts

theorem u8_ext {a b : UInt8} (h : a.toNat = b.toNat) : a = b := UInt8.toNat_inj.mp h
theorem u16_ext {a b : UInt16} (h : a.toNat = b.toNat) : a = b := UInt16.toNat_inj.mp h
theorem u64_ext {a b : UInt64} (h : a.toNat = b.toNat) : a = b := UInt64.toNat_inj.mp h

/-! ### big-endian primitives of Rtp/Go/Prim.lean as positional numbers -/

theorem be16_eq (x : UInt16) : be16 x = bytesBE 2 x.toNat := by
  simp only [be16, bytesBE]
  congr 1
  · apply u8_ext; simp [Nat.shiftRight_eq_div_pow]
  · congr 1; apply u8_ext; simp

theorem rd16_toNat (a b : UInt8) : (rd16 a b).toNat = a.toNat * 256 + b.toNat := by
  have ha := a.toNat_lt; have hb := b.toNat_lt
  simp only [rd16, UInt16.toNat_or, UInt16.toNat_shiftLeft, UInt8.toNat_toUInt16]
  have : (8 : UInt16).toNat % 16 = 8 := by decide
  rw [this, Nat.mod_eq_of_lt (by rw [Nat.shiftLeft_eq]; omega), Bits.nat_shl_or _ _ _ (by omega)]

theorem u64_shr_u8 (x s : UInt64) (k : Nat) (hs : s.toNat = 8 * k) (hk : k < 8) :
    (x >>> s).toUInt8 = (x.toNat / 256 ^ k % 256).toUInt8 := by
  apply u8_ext
  have : 8 * k % 64 = 8 * k := by omega
  simp [Nat.shiftRight_eq_div_pow, hs, this, Nat.pow_mul]

theorem be64_eq (x : UInt64) : be64 x = bytesBE 8 x.toNat := by
  simp only [be64, bytesBE]
  rw [u64_shr_u8 x 56 7 (by decide) (by decide), u64_shr_u8 x 48 6 (by decide) (by decide),
    u64_shr_u8 x 40 5 (by decide) (by decide), u64_shr_u8 x 32 4 (by decide) (by decide),
    u64_shr_u8 x 24 3 (by decide) (by decide), u64_shr_u8 x 16 2 (by decide) (by decide),
    u64_shr_u8 x 8 1 (by decide) (by decide)]
  congr 7
  congr 1; apply u8_ext; simp

theorem mul_or (a t j : Nat) (ht : t < 2 ^ j) : a * 2 ^ j ||| t = a * 2 ^ j + t := by
  rw [← Bits.nat_shl_or _ _ _ ht, Nat.shiftLeft_eq]

theorem rd64_toNat (a b c d e f g h : UInt8) : (rd64 a b c d e f g h).toNat = natBE [a,b,c,d,e,f,g,h] := by
  have ha := a.toNat_lt; have hb := b.toNat_lt; have hc := c.toNat_lt; have hd := d.toNat_lt
  have he := e.toNat_lt; have hf := f.toNat_lt; have hg := g.toNat_lt; have hh := h.toNat_lt
  have s (x : UInt8) (k : Nat) (hk : k ≤ 56) : x.toNat <<< k % 2 ^ 64 = x.toNat * 2 ^ k := by
    rw [Nat.shiftLeft_eq, Nat.mod_eq_of_lt]
    calc x.toNat * 2 ^ k < 2 ^ 8 * 2 ^ k := Nat.mul_lt_mul_of_pos_right x.toNat_lt (Nat.two_pow_pos k)
      _ ≤ 2 ^ 8 * 2 ^ 56 := Nat.mul_le_mul_left _ (Nat.pow_le_pow_right (by decide) hk)
      _ = 2 ^ 64 := by decide
  simp only [rd64, UInt64.toNat_or, UInt64.toNat_shiftLeft, UInt8.toNat_toUInt64, natBE]
  simp only [show (56:UInt64).toNat % 64 = 56 by decide, show (48:UInt64).toNat % 64 = 48 by decide,
    show (40:UInt64).toNat % 64 = 40 by decide, show (32:UInt64).toNat % 64 = 32 by decide,
    show (24:UInt64).toNat % 64 = 24 by decide, show (16:UInt64).toNat % 64 = 16 by decide,
    show (8:UInt64).toNat % 64 = 8 by decide]
  rw [s a 56 (by omega), s b 48 (by omega), s c 40 (by omega), s d 32 (by omega), s e 24 (by omega),
    s f 16 (by omega), s g 8 (by omega)]
  simp only [Nat.or_assoc]
  rw [mul_or g.toNat h.toNat 8 (by omega)]
  rw [mul_or f.toNat _ 16 (by omega)]
  rw [mul_or e.toNat _ 24 (by omega)]
  rw [mul_or d.toNat _ 32 (by omega)]
  rw [mul_or c.toNat _ 40 (by omega)]
  rw [mul_or b.toNat _ 48 (by omega)]
  rw [mul_or a.toNat _ 56 (by omega)]
  simp only [List.length_cons, List.length_nil]
  omega

/-! ### AudioLevel -/

theorem audio_marshal (v prev : AudioLevel) : marshalOk audioSpec v (modelM audio v prev) = true := by
  obtain ⟨l, voice⟩ := v
  by_cases h : l ≤ 127
  · cases voice <;>
    simp [marshalOk, audioSpec, modelM, audio, audioMarshal, audioUnmarshal, h, UInt8.not_lt.mpr h, Res.coarse, render, audioLevel, width, pack, bytesBE] <;>
    (revert l; apply Bits.forall_u8; decide +kernel)
  · simp [marshalOk, audioSpec, modelM, audio, audioMarshal, h, UInt8.not_le.mp h, Res.coarse, Res.isErr]

theorem audio_unmarshal (r : AudioLevel) (raw : Bytes) :
    unmarshalOk audioSpec raw ⟨(audioUnmarshal r raw).res.coarse, (audioUnmarshal r raw).st⟩ = true := by
  match raw with
  | [] => simp [unmarshalOk, audioSpec, audioUnmarshal, Res.coarse, Res.isErr]
  | b :: rest =>
    simp [unmarshalOk, audioSpec, audioUnmarshal, parse, split, natBE, Res.coarse]
    revert b; apply Bits.forall_u8; decide +kernel

/-! ### TransportCC -/

theorem tcc_marshal (v prev : TransportCC) : marshalOk tccSpec v (modelM tcc v prev) = true := by
  obtain ⟨s⟩ := v
  have hs := s.toNat_lt
  simp [marshalOk, tccSpec, modelM, tcc, tccMarshal, tccUnmarshal, Res.coarse, render, transportCC, width, pack, be16_eq, bytesBE]
  apply u16_ext; rw [rd16_toNat]; simp; omega

theorem tcc_unmarshal (r : TransportCC) (raw : Bytes) :
    unmarshalOk tccSpec raw ⟨(tccUnmarshal r raw).res.coarse, (tccUnmarshal r raw).st⟩ = true := by
  match raw with
  | [] => simp [unmarshalOk, tccSpec, tccUnmarshal, Res.coarse, Res.isErr]
  | [a] => simp [unmarshalOk, tccSpec, tccUnmarshal, Res.coarse, Res.isErr]
  | a :: b :: rest =>
    have hl : ¬ (rest.length + 1 + 1 < 2) := by omega
    simp [unmarshalOk, tccSpec, tccUnmarshal, parse, split, natBE, Res.coarse, hl]
    apply u16_ext; rw [rd16_toNat]; have ha := a.toNat_lt; have hb := b.toNat_lt; simp; omega

/-! ### PlayoutDelay -/

/-- the three bytes PlayoutDelay.Marshal writes, as numbers -/
theorem playout_bytes (a b : UInt16) (ha : a.toNat < 4096) (hb : b.toNat < 4096) :
    ((a >>> 4).toUInt8).toNat = a.toNat / 16 ∧
    ((a <<< 4).toUInt8 ||| (b >>> 8).toUInt8).toNat = a.toNat % 16 * 16 + b.toNat / 256 ∧
    (b.toUInt8).toNat = b.toNat % 256 := by
  refine ⟨?_, ?_, ?_⟩
  · simp [Nat.shiftRight_eq_div_pow]; omega
  · simp only [UInt8.toNat_or, UInt16.toNat_toUInt8, UInt16.toNat_shiftLeft, UInt16.toNat_shiftRight,
      show (4 : UInt16).toNat % 16 = 4 by decide, show (8 : UInt16).toNat % 16 = 8 by decide,
      Nat.shiftLeft_eq, Nat.shiftRight_eq_div_pow]
    have e1 : a.toNat * 2 ^ 4 % 2 ^ 16 % 2 ^ 8 = (a.toNat % 16) <<< 4 := by rw [Nat.shiftLeft_eq]; omega
    have e2 : b.toNat / 2 ^ 8 % 2 ^ 8 = b.toNat / 256 := by omega
    rw [e1, e2, Bits.nat_shl_or _ _ _ (by omega)]
  · simp

theorem playout_min_toNat (x y : UInt8) : (rd16 x y >>> 4).toNat = (x.toNat * 256 + y.toNat) / 16 := by
  simp only [UInt16.toNat_shiftRight, rd16_toNat, show (4 : UInt16).toNat % 16 = 4 by decide, Nat.shiftRight_eq_div_pow]

theorem playout_max_toNat (y z : UInt8) : (rd16 y z &&& 0x0FFF).toNat = (y.toNat * 256 + z.toNat) % 4096 := by
  rw [UInt16.toNat_and, rd16_toNat]
  exact Bits.nat_and_mask _ 12

theorem playout_marshal (v prev : PlayoutDelay) : marshalOk playoutSpec v (modelM playout v prev) = true := by
  obtain ⟨a, b⟩ := v
  by_cases h : a ≤ 4095 ∧ b ≤ 4095
  · obtain ⟨h1, h2⟩ := h
    have ha : a.toNat < 4096 := by have := UInt16.le_iff_toNat_le.mp h1; simp at this; omega
    have hb : b.toNat < 4096 := by have := UInt16.le_iff_toNat_le.mp h2; simp at this; omega
    obtain ⟨p1, p2, p3⟩ := playout_bytes a b ha hb
    have hc : (decide (a > 4095) || decide (b > 4095)) = false := by
      simp [UInt16.not_lt.mpr h1, UInt16.not_lt.mpr h2]
    have hm : playoutMarshal ⟨a, b⟩ =
        .ok [(a >>> 4).toUInt8, (a <<< 4).toUInt8 ||| (b >>> 8).toUInt8, b.toUInt8] := by
      simp only [playoutMarshal, hc, Bool.false_eq_true, ↓reduceIte]
    generalize (a >>> 4).toUInt8 = x at hm p1
    generalize (a <<< 4).toUInt8 ||| (b >>> 8).toUInt8 = y at hm p2
    generalize b.toUInt8 = z at hm p3
    have hx := x.toNat_lt; have hy := y.toNat_lt; have hz := z.toNat_lt
    simp only [marshalOk, playoutSpec, modelM, playout, hm, playoutUnmarshal, Res.coarse, render, playoutDelay, width, pack, bytesBE, h1, h2]
    simp
    refine ⟨⟨?_, ?_, ?_⟩, ?_, ?_⟩
    · apply u8_ext; simp; omega
    · apply u8_ext; simp; omega
    · apply u8_ext; simp; omega
    · apply u16_ext; rw [playout_min_toNat]; omega
    · apply u16_ext; rw [playout_max_toNat]; omega
  · have hc : (decide (a > 4095) || decide (b > 4095)) = true := by
      rcases Decidable.not_and_iff_or_not.mp h with h | h
      · simp [UInt16.not_le.mp h]
      · simp [UInt16.not_le.mp h]
    have hr : (decide (a ≤ 4095) && decide (b ≤ 4095)) = false := by simpa using h
    simp [marshalOk, playoutSpec, modelM, playout, playoutMarshal, hc, hr, Res.coarse, Res.isErr]

theorem playout_unmarshal (r : PlayoutDelay) (raw : Bytes) :
    unmarshalOk playoutSpec raw ⟨(playoutUnmarshal r raw).res.coarse, (playoutUnmarshal r raw).st⟩ = true := by
  match raw with
  | [] => simp [unmarshalOk, playoutSpec, playoutUnmarshal, Res.coarse, Res.isErr]
  | [a] => simp [unmarshalOk, playoutSpec, playoutUnmarshal, Res.coarse, Res.isErr]
  | [a, b] => simp [unmarshalOk, playoutSpec, playoutUnmarshal, Res.coarse, Res.isErr]
  | a :: b :: c :: rest =>
    have hl : ¬ (rest.length + 1 + 1 + 1 < 3) := by omega
    have ha := a.toNat_lt; have hb := b.toNat_lt; have hc := c.toNat_lt
    simp [unmarshalOk, playoutSpec, playoutUnmarshal, parse, split, natBE, Res.coarse, hl]
    constructor
    · apply u16_ext; rw [playout_min_toNat]; simp; omega
    · apply u16_ext; rw [playout_max_toNat]; simp; omega

/-! ### AbsSendTime -/

/-- the three bytes AbsSendTime.Marshal writes, as numbers -/
theorem absSend_bytes (t : UInt64) :
    (((t &&& 0xFF0000) >>> 16).toUInt8).toNat = t.toNat / 65536 % 256 ∧
    (((t &&& 0xFF00) >>> 8).toUInt8).toNat = t.toNat / 256 % 256 ∧
    ((t &&& 0xFF).toUInt8).toNat = t.toNat % 256 := by
  refine ⟨?_, ?_, ?_⟩
  · rw [UInt64.toNat_toUInt8, UInt64.toNat_shiftRight, UInt64.toNat_and,
      show (0xFF0000 : UInt64).toNat = (2 ^ 8 - 1) <<< 16 by decide, show (16 : UInt64).toNat % 64 = 16 by decide,
      Bits.nat_and_shl_shr]
    omega
  · rw [UInt64.toNat_toUInt8, UInt64.toNat_shiftRight, UInt64.toNat_and,
      show (0xFF00 : UInt64).toNat = (2 ^ 8 - 1) <<< 8 by decide, show (8 : UInt64).toNat % 64 = 8 by decide,
      Bits.nat_and_shl_shr]
    omega
  · rw [UInt64.toNat_toUInt8, UInt64.toNat_and, show (0xFF : UInt64).toNat = 2 ^ 8 - 1 by decide, Bits.nat_and_mask]
    omega

/-- the 24-bit value AbsSendTime.Unmarshal assembles -/
theorem absSend_rd_toNat (a b c : UInt8) :
    ((a.toUInt64 <<< 16) ||| (b.toUInt64 <<< 8) ||| c.toUInt64).toNat = a.toNat * 65536 + b.toNat * 256 + c.toNat := by
  have ha := a.toNat_lt; have hb := b.toNat_lt; have hc := c.toNat_lt
  simp only [UInt64.toNat_or, UInt64.toNat_shiftLeft, UInt8.toNat_toUInt64,
    show (16 : UInt64).toNat % 64 = 16 by decide, show (8 : UInt64).toNat % 64 = 8 by decide, Nat.shiftLeft_eq]
  rw [Nat.mod_eq_of_lt (by omega), Nat.mod_eq_of_lt (by omega), Nat.or_assoc,
    mul_or b.toNat c.toNat 8 (by omega), mul_or a.toNat _ 16 (by omega)]
  omega

/-- what AbsSendTime.Marshal emits for ANY 64-bit timestamp: the layout of its low 24 bits -/
theorem absSend_marshal_layout (t : UInt64) :
    absSendMarshal ⟨t⟩ = .ok (render (absSendTime (t.toNat % 2 ^ 24))) := by
  obtain ⟨p1, p2, p3⟩ := absSend_bytes t
  have hm : absSendMarshal ⟨t⟩ =
      .ok [((t &&& 0xFF0000) >>> 16).toUInt8, ((t &&& 0xFF00) >>> 8).toUInt8, (t &&& 0xFF).toUInt8] := rfl
  generalize ((t &&& 0xFF0000) >>> 16).toUInt8 = x at hm p1
  generalize ((t &&& 0xFF00) >>> 8).toUInt8 = y at hm p2
  generalize (t &&& 0xFF).toUInt8 = z at hm p3
  have ht := t.toNat_lt
  simp only [hm, render, absSendTime, width, pack, bytesBE]
  simp
  refine ⟨?_, ?_, ?_⟩
  · apply u8_ext; simp; omega
  · apply u8_ext; simp; omega
  · apply u8_ext; simp; omega

theorem absSend_marshal (v prev : AbsSendTime) : marshalOk absSendSpec v (modelM absSend v prev) = true := by
  obtain ⟨t⟩ := v
  by_cases h : t < 16777216
  · have hl := absSend_marshal_layout t
    obtain ⟨p1, p2, p3⟩ := absSend_bytes t
    have hm : absSendMarshal ⟨t⟩ =
        .ok [((t &&& 0xFF0000) >>> 16).toUInt8, ((t &&& 0xFF00) >>> 8).toUInt8, (t &&& 0xFF).toUInt8] := rfl
    rw [hm] at hl
    generalize ((t &&& 0xFF0000) >>> 16).toUInt8 = x at hm p1 hl
    generalize ((t &&& 0xFF00) >>> 8).toUInt8 = y at hm p2 hl
    generalize (t &&& 0xFF).toUInt8 = z at hm p3 hl
    have h' : t.toNat < 16777216 := by have := UInt64.lt_iff_toNat_lt.mp h; simpa using this
    have hrt : absSendUnmarshal prev [x, y, z] = ⟨.ok (), ⟨t⟩⟩ := by
      simp only [absSendUnmarshal]
      congr 2
      apply u64_ext; rw [absSend_rd_toNat]; omega
    simp only [marshalOk, absSendSpec, modelM, absSend, hm, hrt, h, decide_true, if_true, Res.coarse]
    injection hl with hl
    simp [hl]
  · simp [marshalOk, absSendSpec, h]

theorem absSend_unmarshal (r : AbsSendTime) (raw : Bytes) :
    unmarshalOk absSendSpec raw ⟨(absSendUnmarshal r raw).res.coarse, (absSendUnmarshal r raw).st⟩ = true := by
  match raw with
  | [] => simp [unmarshalOk, absSendSpec, absSendUnmarshal, Res.coarse, Res.isErr]
  | [a] => simp [unmarshalOk, absSendSpec, absSendUnmarshal, Res.coarse, Res.isErr]
  | [a, b] => simp [unmarshalOk, absSendSpec, absSendUnmarshal, Res.coarse, Res.isErr]
  | a :: b :: c :: rest =>
    have hl : ¬ (rest.length + 1 + 1 + 1 < 3) := by omega
    have ha := a.toNat_lt; have hb := b.toNat_lt; have hc := c.toNat_lt
    simp [unmarshalOk, absSendSpec, absSendUnmarshal, parse, split, natBE, Res.coarse, hl]
    apply u64_ext; rw [absSend_rd_toNat]; simp; omega

/-! ### AbsCaptureTime -/

theorem int64_toInt (x : Int64) : x.toInt = signed64 x.toUInt64.toNat := by
  rw [← Int64.toInt_toBitVec, BitVec.toInt_eq_toNat_cond]
  have : x.toBitVec.toNat = x.toUInt64.toNat := rfl
  rw [this]; unfold signed64
  have h := x.toUInt64.toNat_lt
  split <;> split <;> omega

theorem toInt64_eq (u : UInt64) : Int64.ofInt (signed64 u.toNat) = u.toInt64 := by
  have := int64_toInt u.toInt64
  rw [UInt64.toUInt64_toInt64] at this
  rw [← this, Int64.ofInt_toInt]

theorem int64_mod (x : Int64) : (x.toInt % 2 ^ 64).toNat = x.toUInt64.toNat := by
  rw [int64_toInt]; unfold signed64
  have h := x.toUInt64.toNat_lt
  split <;> omega

theorem bytesBE_length (k n : Nat) : (bytesBE k n).length = k := by
  induction k with
  | zero => rfl
  | succ k ih => simp [bytesBE, ih]

theorem natBE_bytesBE (k n : Nat) : natBE (bytesBE k n) = n % 256 ^ k := by
  induction k with
  | zero => simp [bytesBE, natBE, Nat.mod_one]
  | succ k ih =>
    simp only [bytesBE, natBE, bytesBE_length, ih, Nat.toUInt8, UInt8.toNat_ofNat']
    rw [show (2 : Nat) ^ 8 = 256 from rfl, Nat.mod_mod,
      show n % 256 ^ (k + 1) = n % 256 ^ k + 256 ^ k * (n / 256 ^ k % 256) from Nat.mod_pow_succ,
      Nat.mul_comm, Nat.add_comm]

/-- reading back what `be64` wrote -/
theorem rd64_be64 (x : UInt64) :
    rd64 (x >>> 56).toUInt8 (x >>> 48).toUInt8 (x >>> 40).toUInt8 (x >>> 32).toUInt8
      (x >>> 24).toUInt8 (x >>> 16).toUInt8 (x >>> 8).toUInt8 x.toUInt8 = x := by
  apply u64_ext
  rw [rd64_toNat]
  have := be64_eq x
  simp only [be64] at this
  rw [this, natBE_bytesBE, Nat.mod_eq_of_lt x.toNat_lt]

theorem bytesBE_shift (k a b : Nat) : bytesBE k (a * 256 ^ k + b) = bytesBE k b := by
  induction k generalizing a with
  | zero => rfl
  | succ k ih =>
    have e : a * 256 ^ (k + 1) + b = (a * 256) * 256 ^ k + b := by rw [Nat.pow_succ, Nat.mul_assoc, Nat.mul_comm 256]
    simp only [bytesBE]
    rw [e, ih]
    congr 2
    rw [Nat.mul_comm (a * 256), Nat.mul_add_div (Nat.pow_pos (by decide)), Nat.mul_comm a, Nat.mul_add_mod]

theorem bytesBE_append (j k a b : Nat) (hb : b < 256 ^ k) :
    bytesBE (j + k) (a * 256 ^ k + b) = bytesBE j a ++ bytesBE k b := by
  induction j with
  | zero => simp only [Nat.zero_add, bytesBE, List.nil_append]; exact bytesBE_shift k a b
  | succ j ih =>
    rw [show j + 1 + k = (j + k) + 1 by omega]
    simp only [bytesBE, List.cons_append]
    rw [ih]
    congr 2
    rw [Nat.add_comm j k, Nat.pow_add, ← Nat.div_div_eq_div_mul, Nat.mul_comm a, Nat.mul_add_div (Nat.pow_pos (by decide)),
      Nat.div_eq_of_lt hb, Nat.add_zero]


theorem absCaptureUnmarshal_be64 (prev : AbsCaptureTime) (ts : UInt64) :
    absCaptureUnmarshal prev (be64 ts) = ⟨.ok (), ⟨ts, none⟩⟩ := by
  simp only [be64, absCaptureUnmarshal, rd64_be64]

theorem absCaptureUnmarshal_be64_be64 (prev : AbsCaptureTime) (ts o : UInt64) :
    absCaptureUnmarshal prev (be64 ts ++ be64 o) = ⟨.ok (), ⟨ts, some o.toInt64⟩⟩ := by
  simp only [be64, absCaptureUnmarshal, List.cons_append, List.nil_append, rd64_be64]

theorem absCapture_marshal (v prev : AbsCaptureTime) :
    marshalOk absCaptureSpec v (modelM absCapture v prev) = true := by
  obtain ⟨ts, off⟩ := v
  have hts := ts.toNat_lt
  cases off with
  | none =>
    simp only [marshalOk, absCaptureSpec, modelM, absCapture, absCaptureMarshal, absCaptureUnmarshal_be64, Res.coarse,
      render, absCaptureTime, Option.map, width, pack]
    simp [be64_eq, Nat.mod_eq_of_lt hts]
  | some o =>
    have ho := o.toUInt64.toNat_lt
    simp only [marshalOk, absCaptureSpec, modelM, absCapture, absCaptureMarshal, absCaptureUnmarshal_be64_be64, Res.coarse,
      render, absCaptureTime, Option.map, width, pack, Int64.toInt64_toUInt64, int64_mod]
    have e : ts.toNat % 2 ^ 64 * 2 ^ (64 + 0) + (o.toUInt64.toNat % 2 ^ 64 * 2 ^ 0 + 0) = ts.toNat * 256 ^ 8 + o.toUInt64.toNat := by
      omega
    rw [e, show (64 + (64 + 0)) / 8 = 8 + 8 from rfl, bytesBE_append 8 8 _ _ (by omega)]
    simp [be64_eq]

theorem natBE8_lt (a b c d e f g h : UInt8) : natBE [a, b, c, d, e, f, g, h] < 2 ^ 64 := by
  rw [← rd64_toNat]; exact UInt64.toNat_lt _

theorem natBE8_mod (a b c d e f g h : UInt8) :
    natBE [a, b, c, d, e, f, g, h] % 18446744073709551616 = natBE [a, b, c, d, e, f, g, h] :=
  Nat.mod_eq_of_lt (natBE8_lt a b c d e f g h)

theorem natBE_append (xs ys : Bytes) : natBE (xs ++ ys) = natBE xs * 256 ^ ys.length + natBE ys := by
  induction xs with
  | nil => simp [natBE]
  | cons x xs ih =>
    simp only [List.cons_append, natBE, ih, List.length_append, Nat.pow_add]
    rw [Nat.add_mul, Nat.mul_assoc, Nat.add_assoc]

theorem u64_of_natBE (a b c d e f g h : UInt8) :
    rd64 a b c d e f g h = UInt64.ofNat (natBE [a, b, c, d, e, f, g, h]) := by
  apply u64_ext
  rw [rd64_toNat, UInt64.toNat_ofNat', Nat.mod_eq_of_lt (natBE8_lt a b c d e f g h)]

theorem int64_ofNat_signed (n : Nat) (h : n < 2 ^ 64) : Int64.ofNat n = Int64.ofInt (signed64 n) := by
  have := toInt64_eq (UInt64.ofNat n)
  rw [UInt64.toNat_ofNat', Nat.mod_eq_of_lt h] at this
  rw [this]
  simp

theorem absCapture_unmarshal (r : AbsCaptureTime) (raw : Bytes) :
    unmarshalOk absCaptureSpec raw ⟨(absCaptureUnmarshal r raw).res.coarse, (absCaptureUnmarshal r raw).st⟩ = true := by
  rcases raw with _ | ⟨a, _ | ⟨b, _ | ⟨c, _ | ⟨d, _ | ⟨e, _ | ⟨f, _ | ⟨g, _ | ⟨h, rest⟩⟩⟩⟩⟩⟩⟩⟩
  case cons.cons.cons.cons.cons.cons.cons.cons =>
    rcases rest with _ | ⟨a', _ | ⟨b', _ | ⟨c', _ | ⟨d', _ | ⟨e', _ | ⟨f', _ | ⟨g', _ | ⟨h', rest⟩⟩⟩⟩⟩⟩⟩⟩
    case cons.cons.cons.cons.cons.cons.cons.cons =>
      have hl1 : ¬ (rest.length + 1 + 1 + 1 + 1 + 1 + 1 + 1 + 1 + 1 + 1 + 1 + 1 + 1 + 1 + 1 + 1 < 8) := by omega
      have hl2 : ¬ (rest.length + 1 + 1 + 1 + 1 + 1 + 1 + 1 + 1 + 1 + 1 + 1 + 1 + 1 + 1 + 1 + 1 < 16) := by omega
      have hs : natBE [a, b, c, d, e, f, g, h, a', b', c', d', e', f', g', h'] =
          natBE [a, b, c, d, e, f, g, h] * 18446744073709551616 + natBE [a', b', c', d', e', f', g', h'] := by
        have := natBE_append [a, b, c, d, e, f, g, h] [a', b', c', d', e', f', g', h']
        simpa using this
      have h1 := natBE8_lt a b c d e f g h
      have h2 := natBE8_lt a' b' c' d' e' f' g' h'
      simp [unmarshalOk, absCaptureSpec, absCaptureUnmarshal, Res.coarse, parse, split, hl1, hl2, hs, u64_of_natBE]
      refine ⟨?_, ?_⟩
      · apply congrArg UInt64.ofNat; omega
      · rw [natBE8_mod]; exact int64_ofNat_signed _ h2
    all_goals
      simp [unmarshalOk, absCaptureSpec, absCaptureUnmarshal, Res.coarse, parse, split, u64_of_natBE, natBE8_mod]
  all_goals simp [unmarshalOk, absCaptureSpec, absCaptureUnmarshal, Res.coarse, Res.isErr]

/-! ### what the two predicates say, spelled out (generic in the codec) -/

theorem coarse_ok_unit {r : Res Unit} (h : r.coarse = .ok ()) : r = .ok () := by
  cases r <;> simp_all [Res.coarse]

theorem coarse_isErr {α} {r : Res α} (h : r.coarse.isErr = true) : r.isErr = true := by
  cases r <;> simp_all [Res.coarse, Res.isErr]

/-- both main theorems of one codec -/
structure Verified {σ : Type} [DecidableEq σ] (c : Codec σ) (S : ExtSpec σ) : Prop where
  m : ∀ v prev, marshalOk S v (modelM c v prev) = true
  u : ∀ prev hist raw, unmarshalOk S raw (modelU c prev hist raw) = true

variable {σ : Type} [DecidableEq σ] {c : Codec σ} {S : ExtSpec σ}

/-- input of at least the fixed size: accepted, and the receiver afterwards holds exactly the specified
    fields of the input — whatever it held before -/
theorem Verified.decodes (V : Verified c S) (r : σ) (raw : Bytes) (v : σ) (hd : S.decode raw = some v) :
    c.unmarshal r raw = ⟨.ok (), v⟩ := by
  have h := V.u r [] raw
  simp only [unmarshalOk, modelU, Codec.history, hd, Bool.and_eq_true, beq_iff_eq] at h
  obtain ⟨h1, h2⟩ := h
  have := coarse_ok_unit h1
  cases hu : c.unmarshal r raw with
  | mk res st => simp_all

/-- shorter input: rejected with an error (not a panic) -/
theorem Verified.rejects_short (V : Verified c S) (r : σ) (raw : Bytes) (hd : S.decode raw = none) :
    (c.unmarshal r raw).res.isErr = true := by
  have h := V.u r [] raw
  simp only [unmarshalOk, modelU, Codec.history, hd] at h
  exact coarse_isErr h

/-- Unmarshal never panics -/
theorem Verified.unmarshal_total (V : Verified c S) (r : σ) (raw : Bytes) : (c.unmarshal r raw).res ≠ .panic := by
  cases hd : S.decode raw with
  | none => have := V.rejects_short r raw hd; intro h; simp [h, Res.isErr] at this
  | some v => rw [V.decodes r raw v hd]; simp

/-- in-range value: Marshal emits exactly the specification's layout -/
theorem Verified.layout (V : Verified c S) (v : σ) (hr : S.inRange v = true) :
    c.marshal v = .ok (render (S.layout v)) := by
  have h := V.m v v
  simp only [marshalOk, modelM, hr, if_true, Bool.and_eq_true, beq_iff_eq] at h
  obtain ⟨h1, _⟩ := h
  cases hm : c.marshal v <;> simp_all [Res.coarse]

/-- out-of-range value for which the property demands an error: Marshal returns one -/
theorem Verified.rejects_range (V : Verified c S) (v : σ) (hr : S.inRange v = false) (hj : S.reject v = true) :
    (c.marshal v).isErr = true := by
  have h := V.m v v
  simp only [marshalOk, modelM, hr, hj] at h
  exact coarse_isErr (by simpa using h)

/-- Marshal never panics (on the values C17 constrains) -/
theorem Verified.marshal_total (V : Verified c S) (v : σ) (hc : S.inRange v = true ∨ S.reject v = true) :
    c.marshal v ≠ .panic := by
  cases hr : S.inRange v with
  | true => rw [V.layout v hr]; simp
  | false =>
    have hj : S.reject v = true := by rcases hc with h | h; · rw [hr] at h; cases h
                                      · exact h
    have := V.rejects_range v hr hj; intro h; simp [h, Res.isErr] at this

/-- Unmarshal after Marshal is the identity, into any receiver -/
theorem Verified.roundtrip (V : Verified c S) (v r : σ) (hr : S.inRange v = true) :
    c.unmarshal r (render (S.layout v)) = ⟨.ok (), v⟩ := by
  have h := V.m v r
  have hl := V.layout v hr
  simp only [marshalOk, modelM, hr, hl, if_true, Bool.and_eq_true, beq_iff_eq, Res.coarse] at h
  obtain ⟨_, h1, h2⟩ := h
  have := coarse_ok_unit h1
  cases hu : c.unmarshal r (render (S.layout v)) with
  | mk res st => simp_all

/-! ### facts about the specification's decoders: which inputs they reject, and that they read a prefix only -/

theorem audio_decode_none (raw : Bytes) : audioSpec.decode raw = none ↔ raw.length < 1 := by
  simp only [audioSpec, parse, split]
  split <;> simp_all

theorem tcc_decode_none (raw : Bytes) : tccSpec.decode raw = none ↔ raw.length < 2 := by
  simp only [tccSpec, parse, split]
  split <;> simp_all

theorem playout_decode_none (raw : Bytes) : playoutSpec.decode raw = none ↔ raw.length < 3 := by
  simp only [playoutSpec, parse, split]
  split <;> simp_all

theorem absSend_decode_none (raw : Bytes) : absSendSpec.decode raw = none ↔ raw.length < 3 := by
  simp only [absSendSpec, parse, split]
  split <;> simp_all

theorem absCapture_decode_none (raw : Bytes) : absCaptureSpec.decode raw = none ↔ raw.length < 8 := by
  simp only [absCaptureSpec, parse, split]
  split
  · simp_all
  · split <;> simp_all

theorem audio_decode_take (raw : Bytes) (h : 1 ≤ raw.length) : audioSpec.decode raw = audioSpec.decode (raw.take 1) := by
  have h1 : raw ≠ [] := by intro h'; simp [h'] at h
  simp [audioSpec, parse, List.take_take, h1]

theorem tcc_decode_take (raw : Bytes) (h : 2 ≤ raw.length) : tccSpec.decode raw = tccSpec.decode (raw.take 2) := by
  have h1 : ¬ raw.length < 2 := by omega
  have h2 : ¬ min 2 raw.length < 2 := by omega
  simp [tccSpec, parse, List.take_take, List.length_take, h1, h2]

theorem playout_decode_take (raw : Bytes) (h : 3 ≤ raw.length) :
    playoutSpec.decode raw = playoutSpec.decode (raw.take 3) := by
  have h1 : ¬ raw.length < 3 := by omega
  have h2 : ¬ min 3 raw.length < 3 := by omega
  simp [playoutSpec, parse, List.take_take, List.length_take, h1, h2]

theorem absSend_decode_take (raw : Bytes) (h : 3 ≤ raw.length) :
    absSendSpec.decode raw = absSendSpec.decode (raw.take 3) := by
  have h1 : ¬ raw.length < 3 := by omega
  have h2 : ¬ min 3 raw.length < 3 := by omega
  simp [absSendSpec, parse, List.take_take, List.length_take, h1, h2]

theorem absCapture_decode_take16 (raw : Bytes) (h : 16 ≤ raw.length) :
    absCaptureSpec.decode raw = absCaptureSpec.decode (raw.take 16) := by
  have h1 : ¬ raw.length < 8 := by omega
  have h2 : ¬ raw.length < 16 := by omega
  have h3 : ¬ min 16 raw.length < 8 := by omega
  have h4 : ¬ min 16 raw.length < 16 := by omega
  simp [absCaptureSpec, parse, List.take_take, List.length_take, h1, h2, h3, h4]

theorem absCapture_decode_take8 (raw : Bytes) (h : 8 ≤ raw.length) (h' : raw.length < 16) :
    absCaptureSpec.decode raw = absCaptureSpec.decode (raw.take 8) := by
  have h1 : ¬ raw.length < 8 := by omega
  have h3 : ¬ min 8 raw.length < 8 := by omega
  have h4 : min 8 raw.length < 16 := by omega
  simp [absCaptureSpec, parse, List.take_take, List.length_take, h1, h', h3, h4]

/-- a statement about the specification alone (the model is only the witness): decoding the layout of an
    exactly representable value gives the value -/
theorem Verified.spec_roundtrip (V : Verified c S) (v : σ) (hr : S.inRange v = true) :
    S.decode (render (S.layout v)) = some v := by
  have h1 := V.roundtrip v v hr
  cases hd : S.decode (render (S.layout v)) with
  | none => have := V.rejects_short v _ hd; rw [h1] at this; simp [Res.isErr] at this
  | some w => have := V.decodes v _ w hd; rw [h1] at this; simp at this; rw [this]

/-! ### the specification's `render` and `parse` are inverse to each other -/

theorem pack_lt (fs : List Field) : pack fs < 2 ^ width fs := by
  induction fs with
  | nil => simp [pack, width]
  | cons f r ih =>
    obtain ⟨w, v⟩ := f
    simp only [pack, width]
    have h1 : v % 2 ^ w < 2 ^ w := Nat.mod_lt _ (Nat.two_pow_pos w)
    calc v % 2 ^ w * 2 ^ width r + pack r < v % 2 ^ w * 2 ^ width r + 2 ^ width r := by omega
      _ = (v % 2 ^ w + 1) * 2 ^ width r := by rw [Nat.add_mul, Nat.one_mul]
      _ ≤ 2 ^ w * 2 ^ width r := Nat.mul_le_mul_right _ h1
      _ = 2 ^ (w + width r) := by rw [Nat.pow_add]

theorem foldl_widths (ws : List Nat) (a : Nat) : ws.foldl (· + ·) a = a + ws.foldl (· + ·) 0 := by
  induction ws generalizing a with
  | nil => simp
  | cons w r ih => simp only [List.foldl]; rw [ih, ih (0 + w)]; omega

theorem widths_sum (fs : List Field) : (fs.map (·.1)).foldl (· + ·) 0 = width fs := by
  induction fs with
  | nil => rfl
  | cons f r ih =>
    obtain ⟨w, v⟩ := f
    simp only [List.map, List.foldl, width]
    rw [foldl_widths, ih]; omega

/-- bits above the fields being read do not matter -/
theorem split_add (a p W : Nat) (ws : List Nat) (h : ws.foldl (· + ·) 0 ≤ W) :
    split (a * 2 ^ W + p) W ws = split p W ws := by
  induction ws generalizing W a with
  | nil => rfl
  | cons w r ih =>
    simp only [List.foldl] at h
    rw [foldl_widths] at h
    simp only [split]
    have hw : w ≤ W := by omega
    congr 1
    · have e : a * 2 ^ W = (a * 2 ^ w) * 2 ^ (W - w) := by
        rw [Nat.mul_assoc, ← Nat.pow_add]; congr 2; omega
      rw [e, Nat.mul_comm _ (2 ^ (W - w)), Nat.mul_add_div (Nat.two_pow_pos _), Nat.mul_comm a, Nat.mul_add_mod]
    · -- the remaining fields live in the low W - w bits
      have e : a * 2 ^ W + p = (a * 2 ^ w) * 2 ^ (W - w) + p := by
        rw [Nat.mul_assoc, ← Nat.pow_add]; congr 3; omega
      rw [e]
      exact ih (W := W - w) (a := a * 2 ^ w) (by omega)

theorem split_pack (fs : List Field) (hwf : ∀ f ∈ fs, f.2 < 2 ^ f.1) :
    split (pack fs) (width fs) (fs.map (·.1)) = fs.map (·.2) := by
  induction fs with
  | nil => rfl
  | cons f r ih =>
    obtain ⟨w, v⟩ := f
    have hv : v < 2 ^ w := hwf (w, v) (List.mem_cons_self ..)
    simp only [List.map, split, pack, width, Nat.add_sub_cancel_left, Nat.mod_eq_of_lt hv]
    congr 1
    · have := pack_lt r
      rw [Nat.mul_comm, Nat.mul_add_div (Nat.two_pow_pos _), Nat.div_eq_of_lt this, Nat.add_zero,
        Nat.mod_eq_of_lt hv]
    · have hsum : (r.map (·.1)).foldl (· + ·) 0 ≤ width r := by rw [widths_sum]; exact Nat.le_refl _
      rw [split_add v (pack r) (width r) _ hsum]
      exact ih (fun f hf => hwf f (List.mem_cons_of_mem _ hf))

/-- reading back a rendered layout (followed by any trailing bytes) gives the field values -/
theorem parse_render (fs : List Field) (hwf : ∀ f ∈ fs, f.2 < 2 ^ f.1) (h8 : width fs % 8 = 0) (trail : Bytes) :
    parse (fs.map (·.1)) (render fs ++ trail) = fs.map (·.2) := by
  unfold parse render
  simp only [widths_sum]
  have hlen : (bytesBE (width fs / 8) (pack fs)).length = width fs / 8 := bytesBE_length _ _
  rw [List.take_left' hlen, natBE_bytesBE]
  have hp : pack fs < 256 ^ (width fs / 8) := by
    have := pack_lt fs
    have e : 256 ^ (width fs / 8) = 2 ^ width fs := by
      rw [show (256 : Nat) = 2 ^ 8 from rfl, ← Nat.pow_mul]; congr 1; omega
    rw [e]; exact this
  rw [Nat.mod_eq_of_lt hp]
  exact split_pack fs hwf
end Rtp.Proofs.ExtCodecs
