/-
  Rtp/Proofs/CloneMem.lean — lemmas about the heap model of Clone (Rtp/Model/CloneMem.lean):
  reading is local (frame), allocation only appends, every copy made by Clone is fresh.
-/
import Rtp.Model.CloneMem
namespace Rtp.Proofs.CloneMem
open Rtp Rtp.Model Rtp.Model.Mem

/-- `H'` and `H` hold the same cell at every address of `as` -/
def Same (H H' : Heap) (as : List Nat) : Prop := ∀ a ∈ as, H'[a]? = H[a]?

theorem Same.mono {H H' : Heap} {as bs : List Nat} (h : Same H H' as) (hs : ∀ a ∈ bs, a ∈ as) :
    Same H H' bs := fun a ha => h a (hs a ha)

theorem same_append {H H' : Heap} {as bs : List Nat} :
    Same H H' (as ++ bs) ↔ Same H H' as ∧ Same H H' bs := by
  simp only [Same, List.mem_append]
  constructor
  · intro h; exact ⟨fun a ha => h a (Or.inl ha), fun a ha => h a (Or.inr ha)⟩
  · intro ⟨h1, h2⟩ a ha; cases ha with
    | inl h => exact h1 a h
    | inr h => exact h2 a h

/-! ### frame: reading looks only at reachable cells -/

theorem frame_bytes {H H' : Heap} (s : Sl) (h : Same H H' s.addrs) : readBytes H' s = readBytes H s := by
  cases s with
  | nil => rfl
  | «at» a => simp only [readBytes, h a (by simp [Sl.addrs])]

theorem frame_words {H H' : Heap} (s : Sl) (h : Same H H' s.addrs) : readWords H' s = readWords H s := by
  cases s with
  | nil => rfl
  | «at» a => simp only [readWords, h a (by simp [Sl.addrs])]

theorem frame_cells {H H' : Heap} (s : Sl) (h : Same H H' s.addrs) : readCells H' s = readCells H s := by
  cases s with
  | nil => rfl
  | «at» a => simp only [readCells, h a (by simp [Sl.addrs])]

theorem frame_cellList {H H' : Heap} (cs : List ExtCell)
    (h : Same H H' (cs.flatMap (·.payload.addrs))) :
    (cs.map fun c => ({ id := c.id, payload := readBytes H' c.payload } : Ext)) =
    (cs.map fun c => ({ id := c.id, payload := readBytes H c.payload } : Ext)) := by
  apply List.map_congr_left
  intro c hc
  rw [frame_bytes c.payload (h.mono (fun a ha => List.mem_flatMap.mpr ⟨c, hc, ha⟩))]

theorem frame_header {H H' : Heap} (h : HeaderM) (hs : Same H H' (reachHeader H h)) :
    readHeader H' h = readHeader H h ∧ readCells H' h.exts = readCells H h.exts := by
  unfold reachHeader at hs
  obtain ⟨h12, h3⟩ := same_append.mp hs
  obtain ⟨h1, h2⟩ := same_append.mp h12
  have hc := frame_cells h.exts h2
  refine ⟨?_, hc⟩
  simp only [readHeader, readExts, frame_words h.csrc h1, hc, frame_cellList _ h3]

/-- frame for packets: if the heap is unchanged on what `p` reaches, `p` reads the same, shows the
    same nil-ness and reaches the same memory -/
theorem frame_packet {H H' : Heap} (p : PacketM) (hs : Same H H' (reachPacket H p)) :
    readPacket H' p = readPacket H p ∧ nilsOf H' p = nilsOf H p ∧ reachPacket H' p = reachPacket H p := by
  unfold reachPacket at hs
  obtain ⟨h1, h2⟩ := same_append.mp hs
  obtain ⟨hh, hc⟩ := frame_header p.header h1
  refine ⟨?_, ?_, ?_⟩
  · simp only [readPacket, hh, frame_bytes p.payload h2]
  · simp only [nilsOf, hc]
  · simp only [reachPacket, reachHeader, hc]

/-! ### well-typed values reach only allocated cells; allocation preserves them -/

theorem get_lt {H : Heap} {a : Nat} {c : Cell} (h : H[a]? = some c) : a < H.length := by
  rcases Nat.lt_or_ge a H.length with hl | hl
  · exact hl
  · rw [List.getElem?_eq_none hl] at h; cases h

theorem get_ext {H : Heap} (X : Heap) {a : Nat} {c : Cell} (h : H[a]? = some c) : (H ++ X)[a]? = some c := by
  rw [List.getElem?_append_left (get_lt h)]; exact h

theorem same_ext (H X : Heap) (as : List Nat) (h : ∀ a ∈ as, a < H.length) : Same H (H ++ X) as :=
  fun a ha => List.getElem?_append_left (h a ha)

theorem okBytes_lt {H : Heap} {s : Sl} (h : okBytes H s) : ∀ a ∈ s.addrs, a < H.length := by
  cases s with
  | nil => intro a ha; cases ha
  | «at» b =>
    intro a ha
    obtain ⟨_, hb⟩ := h
    simp only [Sl.addrs, List.mem_singleton] at ha
    subst ha; exact get_lt hb

theorem okWords_lt {H : Heap} {s : Sl} (h : okWords H s) : ∀ a ∈ s.addrs, a < H.length := by
  cases s with
  | nil => intro a ha; cases ha
  | «at» b =>
    intro a ha
    obtain ⟨_, hb⟩ := h
    simp only [Sl.addrs, List.mem_singleton] at ha
    subst ha; exact get_lt hb

theorem okExts_cells {H : Heap} {s : Sl} (h : okExts H s) : ∀ c ∈ readCells H s, okBytes H c.payload := by
  cases s with
  | nil => intro c hc; cases hc
  | «at» b =>
    obtain ⟨cs, hb, hcs⟩ := h
    simp only [readCells, hb]; exact hcs

theorem okExts_lt {H : Heap} {s : Sl} (h : okExts H s) :
    ∀ a ∈ s.addrs ++ (readCells H s).flatMap (·.payload.addrs), a < H.length := by
  intro a ha
  rcases List.mem_append.mp ha with ha | ha
  · cases s with
    | nil => cases ha
    | «at» b =>
      obtain ⟨_, hb, _⟩ := h
      simp only [Sl.addrs, List.mem_singleton] at ha
      subst ha; exact get_lt hb
  · obtain ⟨c, hc, hac⟩ := List.mem_flatMap.mp ha
    exact okBytes_lt (okExts_cells h c hc) a hac

theorem okPacket_lt {H : Heap} {p : PacketM} (h : okPacket H p) : ∀ a ∈ reachPacket H p, a < H.length := by
  obtain ⟨⟨h1, h2⟩, h3⟩ := h
  intro a ha
  simp only [reachPacket, reachHeader, List.append_assoc, List.mem_append] at ha
  rcases ha with ha | ha | ha | ha
  · exact okWords_lt h1 a ha
  · exact okExts_lt h2 a (List.mem_append.mpr (Or.inl ha))
  · exact okExts_lt h2 a (List.mem_append.mpr (Or.inr ha))
  · exact okBytes_lt h3 a ha

theorem okBytes_ext {H : Heap} (X : Heap) {s : Sl} (h : okBytes H s) : okBytes (H ++ X) s := by
  cases s with
  | nil => trivial
  | «at» b => obtain ⟨v, hb⟩ := h; exact ⟨v, get_ext X hb⟩

/-! ### the copies Clone makes -/

/-- what is established about a copied slice: the heap only grew, same contents, same nil-ness,
    every address of the copy is new, and the copy is well typed -/
structure CopyBytes (H : Heap) (s : Sl) (r : Heap × Sl) : Prop where
  ext : ∃ X, r.1 = H ++ X
  read : readBytes r.1 r.2 = readBytes H s
  nil : r.2.isNil = s.isNil
  fresh : ∀ a ∈ r.2.addrs, H.length ≤ a ∧ a < r.1.length
  ok : okBytes r.1 r.2

theorem cloneBytes_spec (H : Heap) (s : Sl) : CopyBytes H s (cloneBytes H s) := by
  cases s with
  | nil => exact ⟨⟨[], by simp [cloneBytes]⟩, rfl, rfl, fun a ha => (by cases ha), trivial⟩
  | «at» b =>
    refine ⟨⟨_, rfl⟩, ?_, rfl, ?_, ?_⟩
    · simp only [cloneBytes]
      generalize readBytes H (Sl.at b) = v
      simp [readBytes]
    · intro a ha
      simp only [cloneBytes, Sl.addrs, List.mem_singleton] at ha
      subst ha; simp [cloneBytes]
    · exact ⟨readBytes H (Sl.at b), by simp [cloneBytes]⟩

theorem cloneWords_spec (H : Heap) (s : Sl) :
    (∃ X, (cloneWords H s).1 = H ++ X) ∧ readWords (cloneWords H s).1 (cloneWords H s).2 = readWords H s ∧
    (cloneWords H s).2.isNil = s.isNil ∧
    (∀ a ∈ (cloneWords H s).2.addrs, H.length ≤ a ∧ a < (cloneWords H s).1.length) ∧
    okWords (cloneWords H s).1 (cloneWords H s).2 := by
  cases s with
  | nil => exact ⟨⟨[], by simp [cloneWords]⟩, rfl, rfl, fun a ha => (by cases ha), trivial⟩
  | «at» b =>
    refine ⟨⟨_, rfl⟩, ?_, rfl, ?_, ?_⟩
    · simp only [cloneWords]
      generalize readWords H (Sl.at b) = v
      simp [readWords]
    · intro a ha
      simp only [cloneWords, Sl.addrs, List.mem_singleton] at ha
      subst ha; simp [cloneWords]
    · exact ⟨readWords H (Sl.at b), by simp [cloneWords]⟩

/-- the element loop: ids kept, payloads copied into new cells -/
theorem cloneCells_spec (H : Heap) (cs : List ExtCell) (hok : ∀ c ∈ cs, okBytes H c.payload) :
    (∃ X, (cloneCells H cs).1 = H ++ X) ∧
    ((cloneCells H cs).2.map fun c => ({ id := c.id, payload := readBytes (cloneCells H cs).1 c.payload } : Ext)) =
      (cs.map fun c => ({ id := c.id, payload := readBytes H c.payload } : Ext)) ∧
    (cloneCells H cs).2.map (·.payload.isNil) = cs.map (·.payload.isNil) ∧
    (∀ a ∈ (cloneCells H cs).2.flatMap (·.payload.addrs), H.length ≤ a ∧ a < (cloneCells H cs).1.length) ∧
    (∀ c ∈ (cloneCells H cs).2, okBytes (cloneCells H cs).1 c.payload) := by
  induction cs generalizing H with
  | nil => exact ⟨⟨[], by simp [cloneCells]⟩, rfl, rfl, fun a ha => (by cases ha), fun c hc => (by cases hc)⟩
  | cons c cs ih =>
    have hc := cloneBytes_spec H c.payload
    obtain ⟨X1, hX1⟩ := hc.ext
    have hok1 : ∀ c' ∈ cs, okBytes (cloneBytes H c.payload).1 c'.payload := by
      intro c' hc'; rw [hX1]; exact okBytes_ext X1 (hok c' (by simp [hc']))
    obtain ⟨⟨X2, hX2⟩, hread, hnil, hfresh, hok2⟩ := ih (cloneBytes H c.payload).1 hok1
    have hlen1 : H.length ≤ (cloneBytes H c.payload).1.length := by rw [hX1]; simp
    have hlen2 : (cloneBytes H c.payload).1.length ≤ (cloneCells (cloneBytes H c.payload).1 cs).1.length := by
      rw [hX2]; simp
    simp only [cloneCells]
    refine ⟨⟨X1 ++ X2, by rw [hX2, hX1, List.append_assoc]⟩, ?_, ?_, ?_, ?_⟩
    · simp only [List.map_cons, List.cons.injEq, Ext.mk.injEq, true_and]
      constructor
      · -- the head's copy is still read correctly after the tail allocated more
        rw [hX2, frame_bytes _ (same_ext _ X2 _ (okBytes_lt hc.ok)), hc.read]
      · rw [hread]
        apply List.map_congr_left
        intro c' hc'
        rw [hX1, frame_bytes _ (same_ext H X1 _ (okBytes_lt (hok c' (by simp [hc']))))]
    · simp only [List.map_cons, hnil, hc.nil]
    · intro a ha
      simp only [List.flatMap_cons, List.mem_append] at ha
      rcases ha with ha | ha
      · obtain ⟨h1, h2⟩ := hc.fresh a ha; exact ⟨h1, Nat.lt_of_lt_of_le h2 hlen2⟩
      · obtain ⟨h1, h2⟩ := hfresh a ha; exact ⟨Nat.le_trans hlen1 h1, h2⟩
    · intro c' hc'
      simp only [List.mem_cons] at hc'
      rcases hc' with rfl | hc'
      · rw [hX2]; exact okBytes_ext X2 hc.ok
      · exact hok2 c' hc'

theorem okWords_ext {H : Heap} (X : Heap) {s : Sl} (h : okWords H s) : okWords (H ++ X) s := by
  cases s with
  | nil => trivial
  | «at» b => obtain ⟨v, hb⟩ := h; exact ⟨v, get_ext X hb⟩

/-- what is established about `Header.Clone` -/
structure CopyHeader (H : Heap) (h : HeaderM) (r : Heap × HeaderM) : Prop where
  ext : ∃ X, r.1 = H ++ X
  read : readHeader r.1 r.2 = readHeader H h
  nilCsrc : r.2.csrc.isNil = h.csrc.isNil
  nilExts : r.2.exts.isNil = h.exts.isNil
  nilPl : (readCells r.1 r.2.exts).map (·.payload.isNil) = (readCells H h.exts).map (·.payload.isNil)
  fresh : ∀ a ∈ reachHeader r.1 r.2, H.length ≤ a ∧ a < r.1.length
  ok : okHeader r.1 r.2

theorem hdrCloneM_spec (H : Heap) (h : HeaderM) (hok : okHeader H h) : CopyHeader H h (hdrCloneM H h) := by
  obtain ⟨hokW, hokE⟩ := hok
  obtain ⟨⟨X1, hX1⟩, hwread, hwnil, hwfresh, hwok⟩ := cloneWords_spec H h.csrc
  cases hE : h.exts with
  | nil =>
    have hr : hdrCloneM H h = ((cloneWords H h.csrc).1, { h with csrc := (cloneWords H h.csrc).2 }) := by
      simp [hdrCloneM, hE]
    rw [hr]
    refine ⟨⟨X1, hX1⟩, ?_, hwnil, by simp [hE], by simp [hE, readCells], ?_, ⟨hwok, by simp [hE, okExts]⟩⟩
    · simp only [readHeader, hwread, hE, readExts, readCells, List.map_nil]
    · intro a ha
      simp only [reachHeader, hE, Sl.addrs, readCells, List.flatMap_nil, List.append_nil] at ha
      exact hwfresh a ha
  | «at» b =>
    rw [hE] at hokE
    obtain ⟨cs, hb, hcs⟩ := hokE
    have hcells1 : readCells (cloneWords H h.csrc).1 (Sl.at b) = cs := by
      simp only [readCells, hX1, get_ext X1 hb]
    have hcs1 : ∀ c ∈ cs, okBytes (cloneWords H h.csrc).1 c.payload := by
      intro c hc; rw [hX1]; exact okBytes_ext X1 (hcs c hc)
    obtain ⟨⟨X2, hX2⟩, hread, hnil, hfresh, hok2⟩ := cloneCells_spec (cloneWords H h.csrc).1 cs hcs1
    have hr : hdrCloneM H h =
        ((cloneCells (cloneWords H h.csrc).1 cs).1 ++ [.exts (cloneCells (cloneWords H h.csrc).1 cs).2],
         { h with csrc := (cloneWords H h.csrc).2, exts := .at (cloneCells (cloneWords H h.csrc).1 cs).1.length }) := by
      simp [hdrCloneM, hE, hcells1]
    rw [hr]
    generalize hH1 : (cloneWords H h.csrc).1 = H1 at *
    generalize hs1 : (cloneWords H h.csrc).2 = s1 at *
    generalize hH2 : (cloneCells H1 cs).1 = H2 at *
    generalize hc2 : (cloneCells H1 cs).2 = cells2 at *
    have hl1 : H.length ≤ H1.length := by rw [hX1]; simp
    have hl2 : H1.length ≤ H2.length := by rw [hX2]; simp
    have hcellsNew : readCells (H2 ++ [Cell.exts cells2]) (Sl.at H2.length) = cells2 := by
      simp [readCells]
    have hbytes3 : ∀ c ∈ cells2, readBytes (H2 ++ [Cell.exts cells2]) c.payload = readBytes H2 c.payload :=
      fun c hc => frame_bytes _ (same_ext H2 _ _ (okBytes_lt (hok2 c hc)))
    have hbytes1 : ∀ c ∈ cs, readBytes H1 c.payload = readBytes H c.payload := by
      intro c hc; rw [hX1]; exact frame_bytes _ (same_ext H X1 _ (okBytes_lt (hcs c hc)))
    refine ⟨⟨X1 ++ (X2 ++ [Cell.exts cells2]), by rw [hX2, hX1]; simp⟩, ?_, hwnil, by simp [Sl.isNil, hE], ?_, ?_, ⟨?_, ?_⟩⟩
    · -- same value
      simp only [readHeader, readExts, hcellsNew, hE]
      have e1 : readWords (H2 ++ [Cell.exts cells2]) s1 = readWords H h.csrc := by
        rw [← hwread, hX2, List.append_assoc]
        exact frame_words _ (same_ext H1 _ _ (okWords_lt hwok))
      have e2 : (cells2.map fun c => ({ id := c.id, payload := readBytes (H2 ++ [Cell.exts cells2]) c.payload } : Ext))
          = (readCells H (Sl.at b)).map fun c => ({ id := c.id, payload := readBytes H c.payload } : Ext) := by
        rw [List.map_congr_left (fun c hc => by rw [hbytes3 c hc]), hread]
        simp only [readCells, hb]
        exact List.map_congr_left (fun c hc => by rw [hbytes1 c hc])
      rw [e1, e2]
    · show (readCells (H2 ++ [Cell.exts cells2]) (Sl.at H2.length)).map _ = _
      rw [hcellsNew, hE, hnil]
      simp only [readCells, hb]
    · intro a ha
      have hlen3 : (H2 ++ [Cell.exts cells2]).length = H2.length + 1 := by simp
      have ha' : a ∈ s1.addrs ∨ a = H2.length ∨ a ∈ cells2.flatMap (·.payload.addrs) := by
        have : reachHeader (H2 ++ [Cell.exts cells2]) { scalars := h.scalars, csrc := s1, exts := Sl.at H2.length }
            = s1.addrs ++ [H2.length] ++ cells2.flatMap (·.payload.addrs) := by
          simp only [reachHeader, hcellsNew, Sl.addrs]
        rw [this] at ha
        simp only [List.mem_append, List.mem_singleton] at ha
        rcases ha with (ha | ha) | ha
        · exact Or.inl ha
        · exact Or.inr (Or.inl ha)
        · exact Or.inr (Or.inr ha)
      have key : H.length ≤ a ∧ a < H2.length + 1 := by
        rcases ha' with ha | ha | ha
        · obtain ⟨h1, h2⟩ := hwfresh a ha; omega
        · omega
        · obtain ⟨h1, h2⟩ := hfresh a ha; omega
      show H.length ≤ a ∧ a < (H2 ++ [Cell.exts cells2]).length
      rw [hlen3]; exact key
    · rw [hX2, List.append_assoc]; exact okWords_ext _ hwok
    · exact ⟨cells2, by simp, fun c hc => okBytes_ext _ (hok2 c hc)⟩

/-- what is established about `Packet.Clone` -/
structure CopyPacket (H : Heap) (p : PacketM) (r : Heap × PacketM) : Prop where
  ext : ∃ X, r.1 = H ++ X
  read : readPacket r.1 r.2 = readPacket H p
  nils : nilsOf r.1 r.2 = nilsOf H p
  fresh : ∀ a ∈ reachPacket r.1 r.2, H.length ≤ a ∧ a < r.1.length
  ok : okPacket r.1 r.2

theorem pktCloneM_spec (H : Heap) (p : PacketM) (hok : okPacket H p) : CopyPacket H p (pktCloneM H p) := by
  obtain ⟨hokH, hokP⟩ := hok
  obtain ⟨⟨X1, hX1⟩, hhread, hhnc, hhne, hhnp, hhfresh, hhok⟩ := hdrCloneM_spec H p.header hokH
  have hokP1 : okBytes (hdrCloneM H p.header).1 p.payload := by rw [hX1]; exact okBytes_ext X1 hokP
  obtain ⟨⟨X2, hX2⟩, hbread, hbnil, hbfresh, hbok⟩ := cloneBytes_spec (hdrCloneM H p.header).1 p.payload
  have hr : pktCloneM H p = ((cloneBytes (hdrCloneM H p.header).1 p.payload).1,
      { header := (hdrCloneM H p.header).2, payload := (cloneBytes (hdrCloneM H p.header).1 p.payload).2,
        paddingSize := p.paddingSize }) := rfl
  rw [hr]
  generalize (hdrCloneM H p.header).1 = H1 at *
  generalize (hdrCloneM H p.header).2 = h1 at *
  generalize (cloneBytes H1 p.payload).1 = H2 at *
  generalize (cloneBytes H1 p.payload).2 = s2 at *
  have hl1 : H.length ≤ H1.length := by rw [hX1]; simp
  have hl2 : H1.length ≤ H2.length := by rw [hX2]; simp
  have hreachH : ∀ a ∈ reachHeader H1 h1, a < H1.length := fun a ha => (hhfresh a ha).2
  have hfr := frame_header (H := H1) (H' := H2) h1 (by rw [hX2]; exact same_ext H1 X2 _ hreachH)
  have hpl : readBytes H1 p.payload = readBytes H p.payload := by
    rw [hX1]; exact frame_bytes _ (same_ext H X1 _ (okBytes_lt hokP))
  refine ⟨⟨X1 ++ X2, by rw [hX2, hX1, List.append_assoc]⟩, ?_, ?_, ?_, ⟨⟨?_, ?_⟩, hbok⟩⟩
  · show readPacket H2 ⟨h1, s2, p.paddingSize⟩ = readPacket H p
    simp only [readPacket, hfr.1, hhread, hbread, hpl]
  · show nilsOf H2 ⟨h1, s2, p.paddingSize⟩ = nilsOf H p
    simp only [nilsOf, hfr.2, hhnc, hhne, hhnp, hbnil]
  · intro a ha
    have hre : reachPacket H2 ⟨h1, s2, p.paddingSize⟩ = reachHeader H1 h1 ++ s2.addrs := by
      simp only [reachPacket, reachHeader, hfr.2]
    have ha' : a ∈ reachHeader H1 h1 ++ s2.addrs := by rw [← hre]; exact ha
    have key : H.length ≤ a ∧ a < H2.length := by
      rcases List.mem_append.mp ha' with ha | ha
      · obtain ⟨h1', h2'⟩ := hhfresh a ha; omega
      · obtain ⟨h1', h2'⟩ := hbfresh a ha; omega
    exact key
  · show okWords H2 h1.csrc
    rw [hX2]; exact okWords_ext X2 hhok.1
  · -- the extension array of the clone is still well typed after the payload copy
    show okExts H2 h1.exts
    have := hhok.2
    cases hE : h1.exts with
    | nil => trivial
    | «at» b =>
      rw [hE] at this
      obtain ⟨cs, hb', hcs⟩ := this
      exact ⟨cs, by rw [hX2]; exact get_ext X2 hb', fun c hc => by rw [hX2]; exact okBytes_ext X2 (hcs c hc)⟩

/-! ### confinement: a later heap differs from `H'` only inside `R` or beyond `H'` -/

def Confined (H' : Heap) (R : List Nat) (H'' : Heap) : Prop :=
  ∀ b, b < H'.length → b ∉ R → H''[b]? = H'[b]?

theorem Confined.refl (H' : Heap) (R : List Nat) : Confined H' R H' := fun _ _ _ => rfl

theorem Confined.set {H' H1 : Heap} {R : List Nat} (h : Confined H' R H1) (a : Nat) (c : Cell)
    (ha : a ∈ R ∨ H'.length ≤ a) : Confined H' R (H1.set a c) := by
  intro b hb hR
  rw [List.getElem?_set_ne (by rcases ha with ha | ha <;> intro e <;> subst e <;> first | exact hR ha | omega)]
  exact h b hb hR

theorem Confined.alloc {H' H1 : Heap} {R : List Nat} (h : Confined H' R H1) (hl : H'.length ≤ H1.length)
    (X : Heap) : Confined H' R (H1 ++ X) := by
  intro b hb hR
  rw [List.getElem?_append_left (by omega)]
  exact h b hb hR

/-- every one of the five mutations, applied to a value `x`, changes memory only in cells `x`
    reaches or in cells allocated afterwards -/
theorem applyMutM_confined (H' : Heap) (x : PacketM) (m : MutM) :
    Confined H' (reachPacket H' x) (applyMutM H' x m).1 := by
  cases m with
  | payloadByte i =>
    simp only [applyMutM]
    cases hp : x.payload with
    | nil => exact Confined.refl _ _
    | «at» a =>
      exact (Confined.refl _ _).set a _ (Or.inl (by simp [reachPacket, hp, Sl.addrs]))
  | csrcEntry i =>
    simp only [applyMutM]
    cases hp : x.header.csrc with
    | nil => exact Confined.refl _ _
    | «at» a =>
      exact (Confined.refl _ _).set a _ (Or.inl (by simp [reachPacket, reachHeader, hp, Sl.addrs]))
  | extByte j i =>
    cases hc : (readCells H' x.header.exts)[j]? with
    | none => simp only [applyMutM, hc]; exact Confined.refl _ _
    | some c =>
      cases hp : c.payload with
      | nil => simp only [applyMutM, hc, hp]; exact Confined.refl _ _
      | «at» a =>
        simp only [applyMutM, hc, hp]
        refine (Confined.refl _ _).set a _ (Or.inl ?_)
        have hmem : c ∈ readCells H' x.header.exts := List.mem_of_getElem? hc
        simp only [reachPacket, reachHeader, List.mem_append, List.mem_flatMap]
        exact Or.inl (Or.inr ⟨c, hmem, by simp [hp, Sl.addrs]⟩)
  | delExt id =>
    simp only [applyMutM]
    cases hp : x.header.exts with
    | nil => exact Confined.refl _ _
    | «at» a =>
      exact (Confined.refl _ _).set a _ (Or.inl (by simp [reachPacket, reachHeader, hp, Sl.addrs]))
  | setExt id pl =>
    simp only [applyMutM]
    cases hp : x.header.exts with
    | nil => exact ((Confined.refl _ _).alloc (Nat.le_refl _) _).alloc (by simp) _
    | «at» a =>
      simp only
      split
      · exact ((Confined.refl _ _).alloc (Nat.le_refl _) _).set a _
          (Or.inl (by simp [reachPacket, reachHeader, hp, Sl.addrs]))
      · exact ((Confined.refl _ _).alloc (Nat.le_refl _) _).alloc (by simp) _

end Rtp.Proofs.CloneMem
