/-
  Rtp/Proofs/AV1DepackIdx.lean — the offset-based, slice-checked model of AV1Depacketizer.Unmarshal
  never fails a slice check and computes what the list-consuming model computes.
-/
import Rtp.Model.AV1DepackIdx
import Rtp.Proofs.Obu
namespace Rtp.Model.AV1
open Rtp Rtp.Model
open Rtp.Model.ObuLemmas

theorem readLebGoLoop_bounds (l : Bytes) (acc : UInt64) (i : Nat) (v : UInt64) (k : Nat)
    (h : readLebGoLoop l acc i = some (v, k)) : i + 1 ≤ k ∧ k ≤ i + l.length := by
  induction l generalizing acc i with
  | nil => simp [readLebGoLoop] at h
  | cons b rest ih =>
    simp only [readLebGoLoop] at h
    split at h
    · simp only [Option.some.injEq, Prod.mk.injEq] at h
      simp only [List.length_cons]; omega
    · have := ih _ _ h
      simp only [List.length_cons]; omega

theorem readLebGo_bounds (l : Bytes) (v : UInt64) (k : Nat) (h : readLebGo l = some (v, k)) :
    1 ≤ k ∧ k ≤ l.length := by
  have := readLebGoLoop_bounds l 0 0 v k h
  omega

theorem parse_size_le (bs : Bytes) (h : ObuHeader) (hp : parseObuHeader bs = .ok h) :
    h.size ≤ bs.length := by
  match bs with
  | [] => simp [parseObuHeader] at hp
  | b0 :: rest =>
    simp only [parseObuHeader] at hp
    split at hp
    · cases hp
    · split at hp
      · match rest, hp with
        | b1 :: _, hp =>
          have hp' := Res.ok.inj hp
          subst hp'
          simp [ObuHeader.size]
      · have hp' := Res.ok.inj hp
        subst hp'
        simp [ObuHeader.size]

/-- the slice `obuBuffer[obuHeader.Size():]` is always in range -/
theorem emitObuC_eq (obuBuf : Bytes) (len : Nat) : emitObuC obuBuf len = some (emitObu obuBuf len) := by
  unfold emitObuC emitObu
  cases hp : parseObuHeader obuBuf with
  | ok h =>
    have hle := parse_size_le obuBuf h hp
    simp only [fromC, hle, if_true]
    by_cases ht : (h.type == obuTemporalDelimiter || h.type == obuTileList) = true
    · simp only [ht, if_true]
    · simp only [ht, Bool.false_eq_true, if_false]
      by_cases hs : h.hasSize = true
      · simp only [hs, if_true]
        cases readLebGo (obuBuf.drop h.size) with
        | none => rfl
        | some vk =>
          obtain ⟨sz, k⟩ := vk
          dsimp only
          split <;> rfl
      · simp only [hs, Bool.false_eq_true, if_false]
  | err e => rfl
  | panic => rfl

theorem sliceC_ok (l : Bytes) (a n : Nat) (h : a + n ≤ l.length) :
    sliceC l a (a + n) = some ((l.drop a).take n) := by
  unfold sliceC
  have : a ≤ a + n ∧ a + n ≤ l.length := ⟨by omega, h⟩
  simp only [this, and_self, if_true, Nat.add_sub_cancel_left]

/-- the element loop: no slice check fails, and the result is that of the list-consuming loop on
    `payload[offset:]` -/
theorem elemLoopC_eq (payload : Bytes) (w : Nat) (z y : Bool) (fuel offset idx : Nat) (buf acc : Bytes)
    (ho : offset ≤ payload.length) :
    elemLoopC payload w z y fuel offset idx buf acc =
      some (elemLoop w z y fuel (payload.drop offset) idx buf acc) := by
  induction fuel generalizing offset idx buf acc with
  | zero => simp [elemLoopC, elemLoop]
  | succ f ih =>
    by_cases hlt : offset < payload.length
    · have hne : (payload.drop offset).isEmpty = false := by
        rw [List.isEmpty_eq_false_iff]
        intro h
        have := congrArg List.length h
        simp only [List.length_drop, List.length_nil] at this
        omega
      have hfrom : fromC payload offset = some (payload.drop offset) := by simp [fromC, ho]
      have hrl : (payload.drop offset).length = payload.length - offset := by simp
      -- after the length field has been settled both loops continue in the same way
      have tail : ∀ (len off : Nat) (isLast : Bool), off ≤ payload.length →
          (if off + len > payload.length then some (LoopEnd.fail, buf) else
            if (idx == 0 && z && buf.isEmpty) = true then
              if isLast = true then some (LoopEnd.done acc idx, buf)
              else elemLoopC payload w z y f (off + len) (idx + 1) buf acc
            else
              match sliceC payload off (off + len) with
              | none => none
              | some elem =>
                let joined := idx == 0 && z
                let obuBuf := if joined then buf ++ elem else elem
                let buf := if joined then [] else buf
                if (isLast && y) = true then some (LoopEnd.done acc idx, obuBuf)
                else if obuBuf.isEmpty = true then elemLoopC payload w z y f (off + len) (idx + 1) buf acc
                else
                  match emitObuC obuBuf len with
                  | none => none
                  | some none => some (LoopEnd.fail, buf)
                  | some (some none) => elemLoopC payload w z y f (off + len) (idx + 1) buf acc
                  | some (some (some bs)) =>
                    if isLast = true then some (LoopEnd.done (acc ++ bs) idx, buf)
                    else elemLoopC payload w z y f (off + len) (idx + 1) buf (acc ++ bs)) =
          some (if len > (payload.drop off).length then (LoopEnd.fail, buf) else
            let next := (payload.drop off).drop len
            if (idx == 0 && z && buf.isEmpty) = true then
              if isLast = true then (LoopEnd.done acc idx, buf) else elemLoop w z y f next (idx + 1) buf acc
            else
              let joined := idx == 0 && z
              let obuBuf := if joined then buf ++ (payload.drop off).take len else (payload.drop off).take len
              let buf := if joined then [] else buf
              if (isLast && y) = true then (LoopEnd.done acc idx, obuBuf)
              else if obuBuf.isEmpty = true then elemLoop w z y f next (idx + 1) buf acc
              else
                match emitObu obuBuf len with
                | none => (LoopEnd.fail, buf)
                | some none => elemLoop w z y f next (idx + 1) buf acc
                | some (some bs) =>
                  if isLast = true then (LoopEnd.done (acc ++ bs) idx, buf)
                  else elemLoop w z y f next (idx + 1) buf (acc ++ bs)) := by
        intro len off isLast hoff
        have hl : (payload.drop off).length = payload.length - off := by simp
        by_cases hgt : off + len > payload.length
        · have : len > (payload.drop off).length := by omega
          simp only [hgt, if_true, this]
        · have hle : off + len ≤ payload.length := by omega
          have hng : ¬ len > (payload.drop off).length := by omega
          have hdd : (payload.drop off).drop len = payload.drop (off + len) := by
            rw [List.drop_drop]
          simp only [hgt, if_false, hng, hdd, sliceC_ok payload off len hle, emitObuC_eq,
            ih (off + len) _ _ _ hle]
          simp only [apply_ite some]
          generalize emitObu (if (idx == 0 && z) = true then buf ++ (payload.drop off).take len
            else (payload.drop off).take len) len = eo
          rcases eo with _ | _ | bs <;> simp only [apply_ite some]
      rw [elemLoopC, elemLoop]
      simp only [hlt, not_true_eq_false, if_false, hne, Bool.false_eq_true, hfrom]
      by_cases hw : (w == 0 || !(w != 0 && idx + 1 == w)) = true
      · simp only [hw, if_true]
        cases hr : readLebGo (payload.drop offset) with
        | none => rfl
        | some vk =>
          obtain ⟨v, k⟩ := vk
          obtain ⟨hk1, hk2⟩ := readLebGo_bounds _ v k hr
          have hok : offset + k ≤ payload.length := by omega
          have hdd : (payload.drop offset).drop k = payload.drop (offset + k) := by rw [List.drop_drop]
          have hlen : (payload.drop (offset + k)).length = payload.length - (offset + k) := by simp
          have hiso : (offset + k + v.toNat == payload.length) =
              (v.toNat == (payload.drop (offset + k)).length) := by
            rw [hlen]
            by_cases h : offset + k + v.toNat = payload.length
            · have h2 : v.toNat = payload.length - (offset + k) := by omega
              have a1 : (offset + k + v.toNat == payload.length) = true := by simpa using h
              have a2 : (v.toNat == payload.length - (offset + k)) = true := by simpa using h2
              rw [a1, a2]
            · have h2 : ¬ v.toNat = payload.length - (offset + k) := by omega
              have a1 : (offset + k + v.toNat == payload.length) = false := by simpa using h
              have a2 : (v.toNat == payload.length - (offset + k)) = false := by simpa using h2
              rw [a1, a2]
          simp only [hdd, hiso]
          exact tail v.toNat (offset + k) _ hok
      · simp only [hw, Bool.false_eq_true, if_false]
        rw [← hrl]
        exact tail (payload.drop offset).length offset (w != 0 && idx + 1 == w) ho
    · have hoff : offset = payload.length := by omega
      subst hoff
      simp [elemLoopC, elemLoop]

theorem depUnmarshalC_eq (d : DSt) (payload : Bytes) :
    depUnmarshalC d payload = some (depUnmarshal d payload) := by
  unfold depUnmarshalC depUnmarshal
  match payload with
  | [] => simp
  | [b] => simp
  | b0 :: b1 :: rest =>
    have hlen : ¬ (b0 :: b1 :: rest).length ≤ 1 := by simp
    simp only [hlen, if_false]
    have := elemLoopC_eq (b0 :: b1 :: rest) ((b0 &&& 0x30) >>> 4).toNat (b0 &&& 0x80 != 0)
      (b0 &&& 0x40 != 0) (b0 :: b1 :: rest).length 1 0
      (if (!(b0 &&& 0x80 != 0) && !(if (b0 &&& 0x08 != 0) = true then [] else d.buffer).isEmpty) = true then []
        else if (b0 &&& 0x08 != 0) = true then [] else d.buffer) [] (by simp)
    simp only [List.drop_succ_cons, List.drop_zero, List.length_cons] at this
    simp only [List.length_cons, this]
    generalize elemLoop ((b0 &&& 0x30) >>> 4).toNat (b0 &&& 0x80 != 0) (b0 &&& 0x40 != 0)
      (rest.length + 1 + 1) (b1 :: rest) 0 _ [] = r
    obtain ⟨e, b⟩ := r
    cases e with
    | fail => rfl
    | done out idx =>
      dsimp only
      split <;> rfl

/-- the checked model is the list-consuming model: no slice expression of Unmarshal can panic -/
theorem depUnmarshalX_eq (d : DSt) (payload : Bytes) : depUnmarshalX d payload = depUnmarshal d payload := by
  simp [depUnmarshalX, depUnmarshalC_eq]

end Rtp.Model.AV1
