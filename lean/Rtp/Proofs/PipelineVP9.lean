/-
  Rtp/Proofs/PipelineVP9.lean — the VP9 half of the end-to-end composition for BOTH payloader modes
  (flexible: `flex_frameOk`; non-flexible: `nonflex_frameOk` with the header facts of C12
  `c12_hdrFacts`).  Separate from PipelineCodecs.lean because it needs Rtp/Props/C12Header.lean.
-/
import Rtp.Proofs.PipelineCodecs
import Rtp.Props.C12Header
namespace Rtp.Proofs.Pipeline
open Rtp Rtp.Model Rtp.Model.Pipeline Rtp.Pred.Pipeline

/-- domain: a payloader in mode `flex` whose next picture id is below 2^15 (every reachable state),
    and a frame that is `C12.proper` for the budget under SOME header description -/
def vp9Inv (flex : Bool) (B : UInt16) : VP9Pay → Bytes → Prop := fun st frame =>
  st.flexible = flex ∧ vp9Pid st < 32768 ∧
  ∃ d, Rtp.Pred.C12.proper flex { mtu := B, frame := some frame, desc := d } = true

theorem proper_ne (flex : Bool) (c : Rtp.Pred.C12.Call) (h : Rtp.Pred.C12.proper flex c = true) :
    (c.frame.getD []).isEmpty = false := by
  simp only [Rtp.Pred.C12.proper, Bool.and_eq_true, Bool.not_eq_true'] at h
  exact h.1

theorem vp9_fits' (flex : Bool) (B : UInt16) : PayFits vp9Pay B (vp9Inv flex B) := by
  intro st frame h
  obtain ⟨_, _, d, hp⟩ := h
  refine ⟨by simpa using proper_ne flex _ hp, ?_⟩
  intro x hx
  exact (Rtp.Proofs.VP9.payload_frag st B (some frame) x hx).1

/-- what `C12.frameOk` on the recorded fragments says about the depacketizer run -/
theorem dep_of_frameOk (flex : Bool) (pid : Nat) (info : Option (Bool × UInt16 × UInt16)) (frame : Bytes)
    (frags : List Bytes) (r : VP9Packet)
    (hf : Rtp.Pred.C12.frameOk flex pid info frame (Rtp.Pred.C12.obsFrags r frags).1 = true) :
    (depackAll vp9Depack r frags).1.all Res.isOk = true ∧
    (depackAll vp9Depack r frags).1.flatMap resBytes = frame := by
  simp only [Rtp.Pred.C12.frameOk, Bool.and_eq_true, beq_iff_eq] at hf
  obtain ⟨⟨⟨⟨_, hall⟩, _⟩, hflat⟩, _⟩ := hf
  have hres := obsFrags_res frags r
  constructor
  · rw [← coarse_isOk, ← hres]
    simp only [List.all_map, List.all_eq_true] at hall ⊢
    intro x hx
    have := hall x hx
    simp only [Rtp.Pred.C12.fragOk, Bool.and_eq_true] at this
    exact this.1.1.1.1.1
  · rw [← coarse_resBytes, ← hres, ← fragPayload_eq]
    exact hflat

theorem vp9_dep' (flex : Bool) (B : UInt16) : DepOk vp9Pay vp9Depack B (vp9Inv flex B) := by
  intro st frame r h
  obtain ⟨hfl, hpid, d, hprop⟩ := h
  have hlt : (vp9Pid st).toNat < 32768 := by
    have := UInt16.lt_iff_toNat_lt.mp hpid; simpa using this
  have hcast : (vp9Pid st).toNat.toUInt16 = vp9Pid st := by
    apply UInt16.toNat_inj.mp
    simp only [Nat.toUInt16, UInt16.toNat_ofNat']
    have := (vp9Pid st).toNat_lt; omega
  have hp : (vp9Pay st B frame).1 =
      if flex then vp9PayloadFlexible (vp9Pid st) B.toNat frame
      else vp9PayloadNonFlexible (vp9Pid st) B.toNat frame := by
    show (vp9Payload st B (some frame)).1 = _
    rw [Rtp.Proofs.VP9.payload_fst, hfl]; rfl
  rw [hp]
  cases flex with
  | true =>
    simp only [Rtp.Pred.C12.proper, if_true, Bool.and_eq_true, Bool.not_eq_true', decide_eq_true_eq,
      Option.getD_some] at hprop
    have hne : frame ≠ [] := by intro he; simp [he] at hprop
    have hf := Rtp.Proofs.VP9.flex_frameOk (vp9Pid st).toNat hlt none B.toNat frame hprop.2 hne r
    rw [hcast] at hf
    exact dep_of_frameOk true _ _ _ _ r hf
  | false =>
    have hf := Rtp.Proofs.VP9.nonflex_frameOk (vp9Pid st).toNat hlt
      { mtu := B, frame := some frame, desc := d } (Rtp.Props.C12.c12_hdrFacts _) hprop r
    rw [hcast] at hf
    exact dep_of_frameOk false _ _ _ _ r hf

theorem wrap15_lt (x : UInt16) : (if x ≥ 0x8000 then (0 : UInt16) else x) < 32768 := by
  split
  · decide
  · rename_i hge
    simp only [ge_iff_le, UInt16.le_iff_toNat_le, UInt16.lt_iff_toNat_lt, UInt16.reduceToNat] at hge ⊢
    omega

/-- the payloader keeps its mode, and its next picture id stays below 2^15 -/
theorem vp9_next' (B : UInt16) (st : VP9Pay) (frame : Bytes) :
    (vp9Pay st B frame).2.flexible = st.flexible ∧ vp9Pid (vp9Pay st B frame).2 < 32768 := by
  show (vp9Payload st B (some frame)).2.flexible = st.flexible ∧ vp9Pid (vp9Payload st B (some frame)).2 < 32768
  unfold vp9Payload
  simp only [vp9Pid]
  cases hi : st.initialized <;> simp only [hi, Bool.false_eq_true, if_false, if_true] <;>
    exact ⟨trivial, wrap15_lt _⟩

theorem vp9_payOk (st : VP9Pay) (hpid : vp9Pid st < 32768) (B : UInt16) (frames : List VP9Frame)
    (hfr : ∀ fr ∈ frames, Rtp.Pred.C12.proper st.flexible (fr.call B) = true) :
    PayOk vp9Pay B (vp9Inv st.flexible B) st (frames.map VP9Frame.frameIn) := by
  refine payOk_of vp9Pay B (vp9Inv st.flexible B) (fun s => s.flexible = st.flexible ∧ vp9Pid s < 32768)
    (fun fr => ∃ d, Rtp.Pred.C12.proper st.flexible { mtu := B, frame := some fr, desc := d } = true)
    (fun s fr hs hd => ⟨hs.1, hs.2, hd⟩)
    (fun s fr hs _ => ⟨by rw [(vp9_next' B s fr).1, hs.1], (vp9_next' B s fr).2⟩)
    _ st ⟨rfl, hpid⟩ ?_
  intro f hf
  obtain ⟨fr, hfr', rfl⟩ := List.mem_map.mp hf
  exact ⟨fr.desc, hfr fr hfr'⟩

end Rtp.Proofs.Pipeline
