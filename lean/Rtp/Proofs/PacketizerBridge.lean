/-
  Rtp/Proofs/PacketizerBridge.lean — ties the packetizer model to the general packet model (written on branch agent-pktz, moved into the build after the merge;
  (it imports Rtp.Model.Packet, which that branch does not have).  After merging with the core packet
  model, move this file to lean/Rtp/Proofs/PacketizerBridge.lean; it was checked (lake build, axioms
  propext / Classical.choice / Quot.sound only, no sorry) against lean/Rtp/Model/Packet.lean of /verif
  commit 5ac9db4 together with branch agent-pktz (and Rtp/Model/Ntp.lean, ExtCodecs.lean of /verif a82a23e).

  What it gives (for EVERY history of Packetize / SkipSamples / GeneratePadding / EnableAbsSendTime
  calls, every payloader, every clock — `Packetizer.run`):

    run_faithful   : every packet q of the history, seen as a `Model.Packet` (`toPacket q`), satisfies
                     pktMarshal (toPacket q) = q.marshal  ∧  pktMarshalSize (toPacket q) = q.marshalSize
                     — i.e. `marshalSimple` IS the general `pktMarshal` on the packets the packetizer
                     builds, so c06_mtu / c06_wire / c06_padding are statements about the general model;
    run_roundtrip  : on the property's domain (7-bit payload type, extension ids 1–14) every packet
                     parses back equal with the general `pktUnmarshal`, into any receiver (a packet
                     without extension keeps the receiver's unobservable stale ExtensionProfile) —
                     the `roundtrip` flag of `PktObs`, proved instead of modelled.

    toNtpTime_eq / absSendTimeBytes_eq : the packetizer model's clock conversion and element value are
                     the shared Ntp.toNtpTime / ExtCodecs.absSendMarshal (by rfl).

  Helper lemmas that probably belong in a shared file once the core proofs exist: writeAt_mid,
  writeAt_nil, rep_add, rd16_be16, rd32_be32, b1_decode, elem_decode.
-/
import Rtp.Model.Packet
import Rtp.Model.Ntp
import Rtp.Model.ExtCodecs
import Rtp.Proofs.Packetizer
import Rtp.Go.Bits
namespace Rtp.Proofs.PacketizerBridge
open Rtp Rtp.Model Rtp.Model.Packetizer Rtp.Proofs.Packetizer

/-! ### `writeAt` on buffers written block by block -/

theorem writeAt_mid (a b c src : Bytes) (h : src.length = b.length) :
    writeAt (a ++ b ++ c) a.length src = a ++ src ++ c := by
  simp only [writeAt, List.length_append]
  have h1 : List.take a.length (a ++ b ++ c) = a := by
    rw [List.append_assoc, List.take_left']; rfl
  have h2 : List.take (a.length + b.length + c.length - a.length) src = src := by
    apply List.take_of_length_le; omega
  have h3 : List.drop (a.length + src.length) (a ++ b ++ c) = c := by
    rw [h, ← List.length_append, List.drop_left']; rfl
  rw [h1, h2, h3]

theorem writeAt_nil (dst : Bytes) (off : Nat) : writeAt dst off [] = dst := by
  simp [writeAt]

theorem rep_add (a b : Nat) (x : UInt8) : rep (a + b) x = rep a x ++ rep b x := by
  simp [rep, List.replicate_append_replicate]

/-- the `*rtp.Packet` an observation describes (one-byte profile when it has an extension) -/
def toPacket (q : PktObs) : Packet :=
  { header := { version := q.version.toUInt8, padding := q.padding, extension := q.extension,
                marker := q.marker, payloadType := q.pt, seq := q.seq, ts := q.ts, ssrc := q.ssrc,
                csrc := [], extProfile := if q.extension then profileOneByte else 0,
                exts := q.exts.map fun e => { id := e.1, payload := e.2 } },
    payload := q.payload, paddingSize := q.paddingSize.toUInt8 }

theorem fixed_len (h : Header) (hc : h.csrc = []) : (fixedBytes h).length = 12 := by
  simp [fixedBytes, be16, be32, hc]

theorem write_fixed (fixed : Bytes) (n : Nat) (h : fixed.length = 12) :
    writeAt (rep (12 + n) 0) 0 fixed = fixed ++ rep n 0 := by
  have := writeAt_mid [] (rep 12 0) (rep n 0) fixed (by simp [h, rep])
  simpa [rep_add] using this

theorem write_tail (a f : Bytes) (n : Nat) (h : a.length = n) :
    writeAt (a ++ rep f.length 0) n f = a ++ f := by
  have := writeAt_mid a (rep f.length 0) [] f (by simp [rep])
  simpa [h] using this

/-- media packet without extension -/
theorem marshal_media_none (p : Packetizer) (v : UInt16) (m : Bool) (f : Bytes) :
    pktMarshal (toPacket (mkPkt p v m none f)) = .ok (marshalSimple false m p.pt v p.ts p.ssrc none f 0) := by
  generalize hP : toPacket (mkPkt p v m none f) = P
  have e1 : P.header.extension = false := by subst hP; rfl
  have e2 : P.header.csrc = [] := by subst hP; rfl
  have e3 : P.payload = f := by subst hP; rfl
  have e4 : P.paddingSize = 0 := by subst hP; rfl
  have e5 : P.header.padding = false := by subst hP; rfl
  have hfl := fixed_len P.header e2
  have c1 : (2 : UInt8) <<< 6 = 128 := by decide
  have c2 : (1 : UInt8) <<< 7 = 128 := by decide
  have hfix : fixedBytes P.header = [0x80, p.pt ||| (if m then 0x80 else 0)] ++ be16 v ++ be32 p.ts ++ be32 p.ssrc := by
    subst hP
    cases m <;> simp [fixedBytes, toPacket, mkPkt, c1, c2]
  have hsz : hdrMarshalSize P.header = 12 := by simp [hdrMarshalSize, e1, e2]
  have hlt : ¬ (12 > (rep (12 + f.length) (0 : UInt8)).length) := by simp [rep_length]
  have hlt2 : ¬ (12 + f.length > (rep (12 + f.length) (0 : UInt8)).length) := by simp [rep_length]
  simp only [pktMarshal, pktMarshalSize, pktMarshalTo, hdrMarshalTo, hsz, e1, e2, e3, e4, e5,
    Bool.false_and, Bool.false_eq_true, if_false, List.length_nil, Nat.zero_mul, Nat.add_zero,
    UInt8.toNat_zero]
  rw [write_fixed _ _ hfl]
  simp only [hlt, hlt2, if_false]
  rw [write_tail _ _ 12 hfl, List.take_of_length_le (by simp [hfl])]
  simp [marshalSimple, hfix]

theorem writeAt_mid' (a b c src : Bytes) (n : Nat) (hn : a.length = n) (h : src.length = b.length) :
    writeAt (a ++ (b ++ c)) n src = a ++ (src ++ c) := by
  subst hn
  have := writeAt_mid a b c src h
  simpa [List.append_assoc] using this

/-- the five writes of `Header.MarshalTo` for one 4-byte element block -/
theorem write_ext (fixed prof body cnt : Bytes) (n : Nat) (hf : fixed.length = 12) (hp : prof.length = 2)
    (hb : body.length = 4) (hc : cnt.length = 2) :
    writeAt (writeAt (writeAt (writeAt (writeAt (rep (20 + n) 0) 0 fixed) 12 prof) 16 body) 14 cnt) 20 [] =
      fixed ++ (prof ++ (cnt ++ (body ++ rep n 0))) := by
  have hrep : rep (20 + n) 0 = [] ++ (rep 12 0 ++ (rep 2 0 ++ (rep 2 0 ++ (rep 4 0 ++ rep n 0)))) := by
    simp only [rep, List.replicate_append_replicate, List.nil_append]; congr 1; omega
  rw [writeAt_nil, hrep]
  rw [writeAt_mid' [] (rep 12 0) _ fixed 0 rfl (by simp [hf, rep]), List.nil_append]
  rw [writeAt_mid' fixed (rep 2 0) _ prof 12 hf (by simp [hp, rep])]
  have h3 : fixed ++ (prof ++ (rep 2 0 ++ (rep 4 0 ++ rep n 0))) =
      (fixed ++ (prof ++ rep 2 0)) ++ (rep 4 0 ++ rep n 0) := by simp [List.append_assoc]
  rw [h3, writeAt_mid' _ (rep 4 0) _ body 16 (by simp [hf, hp, rep]) (by simp [hb, rep])]
  have h4 : (fixed ++ (prof ++ rep 2 0)) ++ (body ++ rep n 0) =
      (fixed ++ prof) ++ (rep 2 0 ++ (body ++ rep n 0)) := by simp [List.append_assoc]
  rw [h4, writeAt_mid' _ (rep 2 0) _ cnt 14 (by simp [hf, hp]) (by simp [hc, rep])]
  simp [List.append_assoc]

/-- media packet with the abs-send-time element -/
theorem marshal_media_ext (p : Packetizer) (v : UInt16) (m : Bool) (id : UInt8) (val : Bytes)
    (h3 : val.length = 3) (f : Bytes) :
    pktMarshal (toPacket (mkPkt p v m (some (id, val)) f)) =
      .ok (marshalSimple false m p.pt v p.ts p.ssrc (some (id, val)) f 0) := by
  generalize hP : toPacket (mkPkt p v m (some (id, val)) f) = P
  have e1 : P.header.extension = true := by subst hP; rfl
  have e2 : P.header.csrc = [] := by subst hP; rfl
  have e3 : P.payload = f := by subst hP; rfl
  have e4 : P.paddingSize = 0 := by subst hP; rfl
  have e5 : P.header.padding = false := by subst hP; rfl
  have e6 : P.header.extProfile = profileOneByte := by subst hP; rfl
  have e7 : P.header.exts = [{ id := id, payload := val }] := by subst hP; rfl
  have hfl := fixed_len P.header e2
  have c1 : (2 : UInt8) <<< 6 = 128 := by decide
  have c2 : (1 : UInt8) <<< 7 = 128 := by decide
  have c3 : (1 : UInt8) <<< 4 = 16 := by decide
  have hfix : fixedBytes P.header = [0x80 ||| 0x10, p.pt ||| (if m then 0x80 else 0)] ++ be16 v ++ be32 p.ts ++ be32 p.ssrc := by
    subst hP
    cases m <;> simp [fixedBytes, toPacket, mkPkt, c1, c2, c3]
  have hbody : extBodyBytes P.header = .ok (oneByteHdr id val.length :: val) := by
    simp [extBodyBytes, e6, e7]
  have hbs : extBodySize P.header = 4 := by simp [extBodySize, e6, e7, h3]
  have hsz : hdrMarshalSize P.header = 20 := by simp [hdrMarshalSize, e1, e2, hbs, round4]
  have hlt : ¬ (20 > (rep (20 + f.length) (0 : UInt8)).length) := by simp [rep_length]
  have hlt2 : ¬ (20 + f.length > (rep (20 + f.length) (0 : UInt8)).length) := by simp [rep_length]
  have hbl : (oneByteHdr id val.length :: val).length = 4 := by simp [h3]
  simp only [pktMarshal, pktMarshalSize, pktMarshalTo, hdrMarshalTo, hsz, e1, e2, e3, e4, e5, e6, hbody, hbl,
    Bool.false_and, Bool.false_eq_true, if_false, if_true, List.length_nil, Nat.zero_mul, Nat.add_zero,
    UInt8.toNat_zero, round4, Nat.reduceAdd, Nat.reduceDiv, Nat.reduceMul, Nat.reduceSub]
  have hr0 : rep 0 (0 : UInt8) = [] := rfl
  rw [hr0, write_ext _ _ _ _ _ hfl (by simp [be16]) hbl (by simp [be16])]
  simp only [hlt, hlt2, if_false]
  have hassoc : fixedBytes P.header ++ (be16 profileOneByte ++ (be16 (Nat.toUInt16 1) ++
      (oneByteHdr id val.length :: val ++ rep f.length 0))) =
      (fixedBytes P.header ++ (be16 profileOneByte ++ (be16 (Nat.toUInt16 1) ++
      (oneByteHdr id val.length :: val)))) ++ rep f.length 0 := by simp [List.append_assoc]
  rw [hassoc, write_tail _ _ 20 (by simp [hfl, be16, h3]), List.take_of_length_le (by simp [hfl, be16, h3]; omega)]
  have c4 : (128 ||| 16 : UInt8) = 128 ||| 0 ||| 16 := by decide
  have c5 : Nat.toUInt16 1 = (1 : UInt16) := rfl
  have c6 : be16 (48862 : UInt16) = [0xBE, 0xDE] := by decide
  have c7 : be16 (1 : UInt16) = [0, 1] := by decide
  simp [marshalSimple, hfix, h3, oneByteHdr, profileOneByte, rep, c4, c5, c6, c7]

/-- padding-only packet -/
theorem marshal_pad (p : Packetizer) (v : UInt16) :
    pktMarshal (toPacket (mkPad p v)) = .ok (marshalSimple true false p.pt v p.ts p.ssrc none [] 255) := by
  generalize hP : toPacket (mkPad p v) = P
  have e1 : P.header.extension = false := by subst hP; rfl
  have e2 : P.header.csrc = [] := by subst hP; rfl
  have e3 : P.payload = [] := by subst hP; rfl
  have e4 : P.paddingSize = 255 := by subst hP; rfl
  have e5 : P.header.padding = true := by subst hP; rfl
  have hfl := fixed_len P.header e2
  have c1 : (2 : UInt8) <<< 6 = 128 := by decide
  have c2 : (1 : UInt8) <<< 5 = 32 := by decide
  have hfix : fixedBytes P.header = [0x80 ||| 0x20, p.pt] ++ be16 v ++ be32 p.ts ++ be32 p.ssrc := by
    subst hP
    simp [fixedBytes, toPacket, mkPad, c1, c2]
  have hsz : hdrMarshalSize P.header = 12 := by simp [hdrMarshalSize, e1, e2]
  have c3 : ((255 : UInt8) == 0) = false := by decide
  have c4 : (255 : UInt8).toNat = 255 := rfl
  have hlt : ¬ (12 > (rep (12 + 255) (0 : UInt8)).length) := by simp [rep_length]
  have hlt2 : ¬ (12 + 255 > (rep (12 + 255) (0 : UInt8)).length) := by simp [rep_length]
  simp only [pktMarshal, pktMarshalSize, pktMarshalTo, hdrMarshalTo, hsz, e1, e2, e3, e4, e5, c3, c4,
    Bool.and_false, Bool.false_eq_true, if_false, if_true, List.length_nil, Nat.zero_mul, Nat.add_zero]
  rw [write_fixed _ _ hfl]
  simp only [hlt, hlt2, if_false, writeAt_nil]
  have hw := writeAt_mid' (fixedBytes P.header) (rep 255 0) [] (rep (255 - 1) 0 ++ [255]) 12 hfl
    (by simp [rep_length])
  simp only [List.append_nil] at hw
  rw [hw, List.take_of_length_le (by simp [hfl, rep_length])]
  have c5 : (255 : Nat).toUInt8 = 255 := rfl
  simp [marshalSimple, hfix, c5]

/-- what the harness observes of a packet is what the general packet model says of it -/
def Faithful (q : PktObs) : Prop :=
  pktMarshal (toPacket q) = q.marshal ∧ pktMarshalSize (toPacket q) = q.marshalSize

theorem mkPkt_faithful (p : Packetizer) (v : UInt16) (m : Bool) (ext : Option (UInt8 × Bytes)) (h3 : Ext3 ext)
    (f : Bytes) : Faithful (mkPkt p v m ext f) := by
  cases ext with
  | none =>
    refine ⟨marshal_media_none p v m f, ?_⟩
    simp [pktMarshalSize, hdrMarshalSize, toPacket, mkPkt]
  | some e =>
    obtain ⟨id, val⟩ := e
    have hl := h3 (id, val) rfl
    refine ⟨marshal_media_ext p v m id val hl f, ?_⟩
    simp [pktMarshalSize, hdrMarshalSize, extBodySize, toPacket, mkPkt, profileOneByte, round4, hl]

theorem mkPad_faithful (p : Packetizer) (v : UInt16) : Faithful (mkPad p v) := by
  refine ⟨marshal_pad p v, ?_⟩
  simp [pktMarshalSize, hdrMarshalSize, toPacket, mkPad]

theorem mkPkts_faithful (p : Packetizer) (ext : Option (UInt8 × Bytes)) (h3 : Ext3 ext) (s : SeqState)
    (frags : List Bytes) : ∀ q ∈ (mkPkts p ext s frags).1, Faithful q := by
  have hnone : Ext3 none := by intro e he; cases he
  induction frags generalizing s with
  | nil => simp [mkPkts]
  | cons f fs ih =>
    cases fs with
    | nil => intro q hq; simp only [mkPkts, List.mem_singleton] at hq; subst hq; exact mkPkt_faithful _ _ _ _ h3 _
    | cons g gs =>
      intro q hq
      simp only [mkPkts, List.mem_cons] at hq
      rcases hq with rfl | hq
      · exact mkPkt_faithful _ _ _ _ hnone _
      · exact ih s.next.2 q (by simpa [mkPkts] using hq)

theorem mkPads_faithful (p : Packetizer) (s : SeqState) (n : Nat) : ∀ q ∈ (mkPads p s n).1, Faithful q := by
  induction n generalizing s with
  | zero => simp [mkPads]
  | succ n ih =>
    intro q hq
    simp only [mkPads, List.mem_cons] at hq
    rcases hq with rfl | hq
    · exact mkPad_faithful _ _
    · exact ih _ q hq

/-- every packet of every history — any configuration, any payloaders, any clock — is, as a
    `Model.Packet`, marshalled by the general model to exactly the bytes and the size observed -/
theorem run_faithful (p : Packetizer) (ops : List PkOp) :
    ∀ q ∈ Rtp.Pred.C06.allPkts (p.run ops), Faithful q := by
  induction ops generalizing p with
  | nil => simp [Packetizer.run, Rtp.Pred.C06.allPkts]
  | cons op ops ih =>
    intro q hq
    simp only [Packetizer.run, Rtp.Pred.C06.allPkts, List.flatMap_cons, List.mem_append] at hq
    rcases hq with hq | hq
    · cases op with
      | packetize pay payload samples now =>
        simp only [Packetizer.step, packetize, Rtp.Pred.C06.pktsOf] at hq
        split at hq
        · cases hq
        · split at hq
          · cases hq
          · refine mkPkts_faithful p _ ?_ _ _ q hq
            intro e he
            split at he
            · cases he; exact abs_len now
            · cases he
      | skip n => simp [Packetizer.step, Rtp.Pred.C06.pktsOf] at hq
      | padding n =>
        simp only [Packetizer.step, generatePadding, Rtp.Pred.C06.pktsOf] at hq
        exact mkPads_faithful _ _ _ q hq
      | enableAbs id => simp [Packetizer.step, Rtp.Pred.C06.pktsOf] at hq
    · exact ih _ q hq

/-! ### parsing back (general `pktUnmarshal`) -/

theorem rd16_be16 (x : UInt16) : rd16 (x >>> 8).toUInt8 x.toUInt8 = x := by
  apply UInt16.toNat_inj.mp
  simp only [rd16, UInt16.toNat_or, UInt16.toNat_shiftLeft, UInt8.toNat_toUInt16, UInt16.toNat_toUInt8,
    UInt16.toNat_shiftRight]
  have hx := x.toNat_lt
  simp
  rw [Nat.shiftRight_eq_div_pow, Nat.shiftLeft_eq]
  have h1 : x.toNat / 2 ^ 8 % 256 = x.toNat / 256 := by omega
  rw [h1]
  have : x.toNat / 256 * 2 ^ 8 % 65536 = x.toNat / 256 * 2 ^ 8 := by omega
  rw [this, ← Nat.shiftLeft_eq, Rtp.Bits.nat_shl_or _ _ 8 (by omega)]
  omega

theorem shl_or_lit (a b k m : Nat) (hm : m = 2 ^ k) (hb : b < m) : a * m ||| b = a * m + b := by
  subst hm; rw [← Nat.shiftLeft_eq, Rtp.Bits.nat_shl_or _ _ k hb, Nat.shiftLeft_eq]

set_option maxRecDepth 8000 in
theorem rd32_be32 (x : UInt32) :
    rd32 (x >>> 24).toUInt8 (x >>> 16).toUInt8 (x >>> 8).toUInt8 x.toUInt8 = x := by
  apply UInt32.toNat_inj.mp
  simp only [rd32, UInt32.toNat_or, UInt32.toNat_shiftLeft, UInt8.toNat_toUInt32, UInt32.toNat_toUInt8,
    UInt32.toNat_shiftRight]
  have hx := x.toNat_lt
  simp
  simp only [Nat.shiftRight_eq_div_pow, Nat.shiftLeft_eq, Nat.reducePow]
  generalize x.toNat = n at *
  have e1 : n / 16777216 % 256 * 16777216 % 4294967296 = n / 16777216 * 16777216 := by omega
  have e2 : n / 65536 % 256 * 65536 % 4294967296 = n / 65536 % 256 * 65536 := by
    apply Nat.mod_eq_of_lt; have : n / 65536 % 256 < 256 := Nat.mod_lt _ (by decide); omega
  have e3 : n / 256 % 256 * 256 % 4294967296 = n / 256 % 256 * 256 := by omega
  rw [e1, e2, e3]
  have f1 : n / 16777216 * 16777216 ||| n / 65536 % 256 * 65536 = n / 65536 * 65536 := by
    have : n / 16777216 * 16777216 = (n / 16777216 * 256) * 65536 := by omega
    rw [this]
    have h2 : n / 65536 % 256 * 65536 = (n / 65536 % 256) <<< 16 := by rw [Nat.shiftLeft_eq]
    have h1 : n / 16777216 * 256 * 65536 = (n / 16777216 * 256) <<< 16 := by rw [Nat.shiftLeft_eq]
    rw [h1, h2, ← Nat.shiftLeft_or_distrib, shl_or_lit _ _ 8 256 rfl (by omega), Nat.shiftLeft_eq]
    simp only [Nat.reducePow]
    have hq : n / 16777216 = n / 65536 / 256 := by rw [Nat.div_div_eq_div_mul]
    rw [hq]
    generalize n / 65536 = q
    rw [Nat.div_add_mod']
  rw [f1]
  have f2 : n / 65536 * 65536 ||| n / 256 % 256 * 256 = n / 256 * 256 := by
    have h1 : n / 65536 * 65536 = (n / 65536 * 256) <<< 8 := by rw [Nat.shiftLeft_eq]; omega
    have h2 : n / 256 % 256 * 256 = (n / 256 % 256) <<< 8 := by rw [Nat.shiftLeft_eq]
    rw [h1, h2, ← Nat.shiftLeft_or_distrib, shl_or_lit _ _ 8 256 rfl (by omega), Nat.shiftLeft_eq]
    simp only [Nat.reducePow]
    have hq : n / 65536 = n / 256 / 256 := by rw [Nat.div_div_eq_div_mul]
    rw [hq]
    generalize n / 256 = q
    rw [Nat.div_add_mod']
  rw [f2, shl_or_lit _ _ 8 256 rfl (by omega)]
  omega

/-- marker bit and 7-bit payload type come back -/
theorem b1_decode : ∀ pt : UInt8, pt < 128 →
    (pt ||| 128) >>> 7 &&& 1 = 1 ∧ (pt ||| 128) &&& 127 = pt ∧ pt >>> 7 &&& 1 = 0 ∧ pt &&& 127 = pt := by
  apply Rtp.Bits.forall_u8
  decide +kernel

theorem len12 (n : Nat) : ¬ (n + 1 + 1 + 1 + 1 + 1 + 1 + 1 + 1 + 1 + 1 + 1 + 1 < 12) := by omega

/-- media packet without extension parses back (into any receiver `r`; with X = 0 the receiver's
    stale `ExtensionProfile` is kept, which nothing can observe) -/
theorem unmarshal_media_none (p : Packetizer) (hpt : p.pt < 128) (v : UInt16) (m : Bool) (f : Bytes) (r : Packet) :
    pktUnmarshal r (marshalSimple false m p.pt v p.ts p.ssrc none f 0) =
      .ok { toPacket (mkPkt p v m none f) with
            header := { (toPacket (mkPkt p v m none f)).header with extProfile := r.header.extProfile } } := by
  obtain ⟨d1, d2, d3, d4⟩ := b1_decode p.pt hpt
  have c0 : ((128 : UInt8) &&& 15).toNat = 0 := by decide
  have c1 : ((128 : UInt8) >>> 6) &&& 3 = 2 := by decide
  have c2 : ((128 : UInt8) >>> 5) &&& 1 = 0 := by decide
  have c3 : ((128 : UInt8) >>> 4) &&& 1 = 0 := by decide
  cases m <;>
  simp [pktUnmarshal, hdrUnmarshal, marshalSimple, be16, be32, c0, c1, c2, c3, d1, d2, d3, d4, readCsrcs,
    rd16_be16, rd32_be32, toPacket, mkPkt, len12]

/-- padding-only packet parses back -/
theorem unmarshal_pad (p : Packetizer) (hpt : p.pt < 128) (v : UInt16) (r : Packet) :
    pktUnmarshal r (marshalSimple true false p.pt v p.ts p.ssrc none [] 255) =
      .ok { toPacket (mkPad p v) with
            header := { (toPacket (mkPad p v)).header with extProfile := r.header.extProfile } } := by
  obtain ⟨d1, d2, d3, d4⟩ := b1_decode p.pt hpt
  have c0 : ((160 : UInt8) &&& 15).toNat = 0 := by decide
  have c1 : ((160 : UInt8) >>> 6) &&& 3 = 2 := by decide
  have c2 : ((160 : UInt8) >>> 5) &&& 1 = 1 := by decide
  have c3 : ((160 : UInt8) >>> 4) &&& 1 = 0 := by decide
  have c4 : (128 ||| 32 : UInt8) = 160 := by decide
  have c5 : (255 : Nat).toUInt8 = 255 := rfl
  have c6 : (255 : UInt8).toNat = 255 := rfl
  generalize hz : rep (255 - 1) (0 : UInt8) = z
  have hzl : z.length = 254 := by rw [← hz, rep_length]
  have hlast : ∀ (a : UInt8), (a :: (z ++ [255])).getLast? = some 255 := by
    intro a; rw [← List.cons_append, List.getLast?_concat]
  simp [pktUnmarshal, hdrUnmarshal, marshalSimple, be16, be32, c0, c1, c2, c3, c4, c5, c6, d3, d4, readCsrcs,
    rd16_be16, rd32_be32, toPacket, mkPad, hz, hzl, hlast, slice, List.getLastD_eq_getLast?]

/-- the one-byte element header `id<<4 | 2` decodes to id and length 3 (ids 1–14) -/
theorem elem_decode : ∀ id : UInt8, 1 ≤ id → id ≤ 14 →
    ((id <<< 4 ||| 2) == 0) = false ∧ (id <<< 4 ||| 2) >>> 4 = id ∧ ((id <<< 4 ||| 2) &&& 15).toNat + 1 = 3 ∧
    (id == 15) = false := by
  apply Rtp.Bits.forall_u8
  decide +kernel

/-- media packet with the abs-send-time element parses back -/
theorem unmarshal_media_ext (p : Packetizer) (hpt : p.pt < 128) (v : UInt16) (m : Bool) (id : UInt8)
    (hid1 : 1 ≤ id) (hid2 : id ≤ 14) (v0 v1 v2 : UInt8) (f : Bytes) (r : Packet) :
    pktUnmarshal r (marshalSimple false m p.pt v p.ts p.ssrc (some (id, [v0, v1, v2])) f 0) =
      .ok (toPacket (mkPkt p v m (some (id, [v0, v1, v2])) f)) := by
  obtain ⟨d1, d2, d3, d4⟩ := b1_decode p.pt hpt
  obtain ⟨g1, g2, g3, g4⟩ := elem_decode id hid1 hid2
  have c0 : ((144 : UInt8) &&& 15).toNat = 0 := by decide
  have c1 : ((144 : UInt8) >>> 6) &&& 3 = 2 := by decide
  have c2 : ((144 : UInt8) >>> 5) &&& 1 = 0 := by decide
  have c3 : ((144 : UInt8) >>> 4) &&& 1 = 1 := by decide
  have c4 : (128 ||| 16 : UInt8) = 144 := by decide
  have c5 : rd16 190 222 = 48862 := by decide
  have c9 : (rd16 ((1 : UInt16) >>> 8).toUInt8 1).toNat = 1 := by decide
  have c11 : ∀ n : Nat, ¬ (n + 1 + 1 + 1 + 1 < 4) := by intro n; omega
  have hparse : parseOneByte [id <<< 4 ||| 2, v0, v1, v2] = .ok ([{ id := id, payload := [v0, v1, v2] }], 0) := by
    rw [parseOneByte]
    simp only [g1, g2, g3, g4, Bool.false_eq_true, if_false, List.length_cons, List.length_nil]
    simp [parseOneByte]
  cases m <;>
  simp [pktUnmarshal, hdrUnmarshal, marshalSimple, be16, be32, c0, c1, c2, c3, c4, c5, d1, d2, d3, d4,
    readCsrcs, rd16_be16, rd32_be32, toPacket, mkPkt, len12, rep, parseExtBlock, profileOneByte, hparse, c9, c11]

/-- `Unmarshal(Marshal(q))` gives `q` back, into any receiver (a packet without extension keeps
    the receiver's unobservable stale `ExtensionProfile`) -/
def RoundTrips (q : PktObs) : Prop :=
  ∀ r : Packet, ∃ b prof, q.marshal = .ok b ∧
    pktUnmarshal r b = .ok { toPacket q with header := { (toPacket q).header with extProfile := prof } } ∧
    (q.extension = true → prof = profileOneByte)

theorem mkPkts_roundtrip (p : Packetizer) (hpt : p.pt < 128) (ext : Option (UInt8 × Bytes))
    (hext : ∀ e, ext = some e → 1 ≤ e.1 ∧ e.1 ≤ 14 ∧ ∃ v0 v1 v2, e.2 = [v0, v1, v2])
    (s : SeqState) (frags : List Bytes) : ∀ q ∈ (mkPkts p ext s frags).1, RoundTrips q := by
  have one : ∀ v m e (_ : ∀ x, e = some x → 1 ≤ x.1 ∧ x.1 ≤ 14 ∧ ∃ v0 v1 v2, x.2 = [v0, v1, v2]) f,
      RoundTrips (mkPkt p v m e f) := by
    intro v m e he f r
    cases e with
    | none => exact ⟨_, r.header.extProfile, rfl, unmarshal_media_none p hpt v m f r, by simp [mkPkt]⟩
    | some x =>
      obtain ⟨id, val⟩ := x
      obtain ⟨h1, h2, v0, v1, v2, hv⟩ := he (id, val) rfl
      simp only at hv; subst hv
      exact ⟨_, profileOneByte, rfl, unmarshal_media_ext p hpt v m id h1 h2 v0 v1 v2 f r, fun _ => rfl⟩
  have hnone : ∀ x, (none : Option (UInt8 × Bytes)) = some x → 1 ≤ x.1 ∧ x.1 ≤ 14 ∧ ∃ v0 v1 v2, x.2 = [v0, v1, v2] := by
    intro x hx; cases hx
  induction frags generalizing s with
  | nil => simp [mkPkts]
  | cons f fs ih =>
    cases fs with
    | nil => intro q hq; simp only [mkPkts, List.mem_singleton] at hq; subst hq; exact one _ _ _ hext _
    | cons g gs =>
      intro q hq
      simp only [mkPkts, List.mem_cons] at hq
      rcases hq with rfl | hq
      · exact one _ _ _ hnone _
      · exact ih s.next.2 q (by simpa [mkPkts] using hq)

theorem mkPads_roundtrip (p : Packetizer) (hpt : p.pt < 128) (s : SeqState) (n : Nat) :
    ∀ q ∈ (mkPads p s n).1, RoundTrips q := by
  induction n generalizing s with
  | zero => simp [mkPads]
  | succ n ih =>
    intro q hq
    simp only [mkPads, List.mem_cons] at hq
    rcases hq with rfl | hq
    · intro r; exact ⟨_, r.header.extProfile, rfl, unmarshal_pad p hpt _ r, by simp [mkPad]⟩
    · exact ih _ q hq

/-- on the property's domain every packet of every history parses back equal (general
    `pktUnmarshal` ∘ what `Marshal` returned) — the `roundtrip` flag of the observation, proved -/
theorem run_roundtrip (cfg p : Packetizer) (hc : SameCfg cfg p) (hv : AbsValid p) (hpt : cfg.pt < 128)
    (ops : List PkOp) (hops : ops.all Rtp.Pred.C06.opWf = true) :
    ∀ q ∈ Rtp.Pred.C06.allPkts (p.run ops), RoundTrips q := by
  induction ops generalizing p with
  | nil => simp [Packetizer.run, Rtp.Pred.C06.allPkts]
  | cons op ops ih =>
    simp only [List.all_cons, Bool.and_eq_true] at hops
    have hpt' : p.pt < 128 := by rw [hc.2.1]; exact hpt
    intro q hq
    simp only [Packetizer.run, Rtp.Pred.C06.allPkts, List.flatMap_cons, List.mem_append] at hq
    rcases hq with hq | hq
    · cases op with
      | packetize pay payload samples now =>
        cases he : payload.isEmpty with
        | true => simp [Packetizer.step, packetize_empty _ _ _ he, Rtp.Pred.C06.pktsOf] at hq
        | false =>
          simp only [Packetizer.step, packetize_eq _ _ hv _ he, Rtp.Pred.C06.pktsOf] at hq
          refine mkPkts_roundtrip p hpt' _ ?_ _ _ q hq
          intro e hee
          simp only [extOf] at hee
          split at hee
          · rename_i hne
            cases hee
            rcases hv with h0 | hv
            · simp [h0] at hne
            · have h8 := (absId8_valid p hv).1
              simp only [Bool.and_eq_true, decide_eq_true_eq] at h8
              exact ⟨h8.1, h8.2, _, _, _, rfl⟩
          · cases hee
      | skip n => simp [Packetizer.step, Rtp.Pred.C06.pktsOf] at hq
      | padding n =>
        simp only [Packetizer.step, generatePadding, Rtp.Pred.C06.pktsOf] at hq
        exact mkPads_roundtrip p hpt' _ _ q hq
      | enableAbs id => simp [Packetizer.step, Rtp.Pred.C06.pktsOf] at hq
    · exact ih _ (step_sameCfg cfg p hc op) (step_absValid p hv op hops.1) hops.2 q hq

/-! ### the abs-send-time element is the shared NTP / extension-codec model's -/

/-- the packetizer model's clock conversion is `Ntp.toNtpTime` on `uint64(t.UnixNano())` -/
theorem toNtpTime_eq (now : Int64) : Packetizer.toNtpTime now = Ntp.toNtpTime now.toUInt64 := rfl

/-- the element value is `NewAbsSendTimeExtension(t).Marshal()` of the shared models -/
theorem absSendTimeBytes_eq (now : Int64) :
    ExtCodecs.absSendMarshal { ts := Ntp.newAbsSendTime now.toUInt64 } = .ok (absSendTimeBytes now) := rfl

end Rtp.Proofs.PacketizerBridge