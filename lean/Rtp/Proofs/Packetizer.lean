/-
  Rtp/Proofs/Packetizer.lean — helper lemmas for C06 (one section per clause of the property).
-/
import Rtp.Model.Packetizer
import Rtp.Pred.C06
import Rtp.Go.Bits
import Rtp.Spec.AbsSendTimeValue
namespace Rtp.Proofs.Packetizer
open Rtp Rtp.Model Rtp.Model.Packetizer Rtp.Pred.C06 Rtp.Spec.AbsSendTimeValue

/-! ### the state along a history -/

/-- the extension id in force is 0 (disabled) or a legal one-byte-header id -/
def AbsValid (p : Packetizer) : Prop := p.absId = 0 ∨ idValid p.absId = true

/-- the extension element `Packetize` attaches when the clock reads `now` -/
def extOf (p : Packetizer) (now : Int64) : Option (UInt8 × Bytes) :=
  if p.absId != 0 then some (p.absId8, absSendTimeBytes now) else none

theorem absId8_valid (p : Packetizer) (h : idValid p.absId = true) :
    (1 ≤ p.absId8 && p.absId8 ≤ 14) = true ∧ p.absId8 = p.absId.toNat.toUInt8 := by
  simp only [idValid, Bool.and_eq_true, decide_eq_true_eq] at h
  have h1 : p.absId % 256 = p.absId := Int.emod_eq_of_lt (by omega) (by omega)
  have h2 : p.absId.toNat < 15 := by omega
  have h3 : 1 ≤ p.absId.toNat := by omega
  refine ⟨?_, by simp only [absId8, h1]⟩
  simp only [absId8, h1, Bool.and_eq_true, decide_eq_true_eq, UInt8.le_iff_toNat_le]
  simp only [Nat.toUInt8, UInt8.toNat_ofNat']
  constructor <;> (simp; omega)

/-- `Packetize` on the property's domain, unfolded once and for all -/
theorem packetize_eq (pay : UInt16 → Bytes → List Bytes) (p : Packetizer) (hv : AbsValid p)
    (payload : Bytes) (hne : payload.isEmpty = false) (samples : UInt32) (now : Int64) :
    p.packetize pay payload samples now =
      (some p.budget, (mkPkts p (extOf p now) p.seq (pay p.budget payload)).1,
       { p with ts := p.ts + samples, seq := (mkPkts p (extOf p now) p.seq (pay p.budget payload)).2 }) := by
  simp only [packetize, hne, Bool.false_eq_true, if_false, extOf]
  rcases hv with h0 | hv
  · simp [h0]
  · have := (absId8_valid p hv).1
    simp [this]

theorem packetize_empty (pay : UInt16 → Bytes → List Bytes) (p : Packetizer)
    (payload : Bytes) (he : payload.isEmpty = true) (samples : UInt32) (now : Int64) :
    p.packetize pay payload samples now = (none, [], p) := by
  simp [packetize, he]

/-- the configured constants never change -/
def SameCfg (cfg p : Packetizer) : Prop := p.mtu = cfg.mtu ∧ p.pt = cfg.pt ∧ p.ssrc = cfg.ssrc

theorem step_sameCfg (cfg p : Packetizer) (h : SameCfg cfg p) (op : PkOp) : SameCfg cfg (p.step op).2 := by
  cases op with
  | packetize pay payload samples now =>
    simp only [Packetizer.step, packetize]
    split
    · exact h
    · split <;> exact h
  | skip n => exact h
  | padding n => exact h
  | enableAbs id => exact h

theorem step_absValid (p : Packetizer) (h : AbsValid p) (op : PkOp) (hop : opWf op = true) :
    AbsValid (p.step op).2 := by
  cases op with
  | packetize pay payload samples now =>
    simp only [Packetizer.step, packetize]
    split
    · exact h
    · split <;> exact h
  | skip n => exact h
  | padding n => exact h
  | enableAbs id =>
    simp only [opWf, Bool.or_eq_true, beq_iff_eq] at hop
    exact hop

/-! ### c06_seq -/

def seqEnd (e : UInt16) : List PktObs → UInt16
  | [] => e
  | _ :: ps => seqEnd (e + 1) ps

theorem seqFrom_append (e : UInt16) (l1 l2 : List PktObs) :
    seqFrom e (l1 ++ l2) = (seqFrom e l1 && seqFrom (seqEnd e l1) l2) := by
  induction l1 generalizing e with
  | nil => simp [seqFrom, seqEnd]
  | cons p ps ih => simp [seqFrom, seqEnd, ih, Bool.and_assoc]

theorem next_seq (s : SeqState) : s.next.1 = s.seq + 1 ∧ s.next.2.seq = s.seq + 1 := ⟨rfl, rfl⟩

theorem mkPkts_seq (p : Packetizer) (ext : Option (UInt8 × Bytes)) (s : SeqState) (frags : List Bytes) :
    seqFrom (s.seq + 1) (mkPkts p ext s frags).1 = true ∧
    seqEnd (s.seq + 1) (mkPkts p ext s frags).1 = (mkPkts p ext s frags).2.seq + 1 := by
  induction frags generalizing s with
  | nil => simp [mkPkts, seqFrom, seqEnd]
  | cons f fs ih =>
    cases fs with
    | nil => simp [mkPkts, seqFrom, seqEnd, mkPkt, SeqState.next]
    | cons g gs =>
      have := ih s.next.2
      simp only [mkPkts, seqFrom, seqEnd, mkPkt] at this ⊢
      simpa [SeqState.next] using this

theorem mkPads_seq (p : Packetizer) (s : SeqState) (n : Nat) :
    seqFrom (s.seq + 1) (mkPads p s n).1 = true ∧
    seqEnd (s.seq + 1) (mkPads p s n).1 = (mkPads p s n).2.seq + 1 := by
  induction n generalizing s with
  | zero => simp [mkPads, seqFrom, seqEnd]
  | succ n ih =>
    have := ih s.next.2
    simp only [mkPads, seqFrom, seqEnd, mkPad] at this ⊢
    simpa [SeqState.next] using this

theorem step_seq (p : Packetizer) (hv : AbsValid p) (op : PkOp) :
    seqFrom (p.seq.seq + 1) (pktsOf (p.step op).1) = true ∧
    seqEnd (p.seq.seq + 1) (pktsOf (p.step op).1) = (p.step op).2.seq.seq + 1 := by
  cases op with
  | packetize pay payload samples now =>
    cases he : payload.isEmpty with
    | true => simp [Packetizer.step, packetize_empty _ _ _ he, pktsOf, seqFrom, seqEnd]
    | false =>
      simp only [Packetizer.step, packetize_eq _ _ hv _ he, pktsOf]
      exact mkPkts_seq _ _ _ _
  | skip n => simp [Packetizer.step, pktsOf, seqFrom, seqEnd, skipSamples]
  | padding n =>
    simp only [Packetizer.step, generatePadding, pktsOf]
    exact mkPads_seq _ _ _
  | enableAbs id => simp [Packetizer.step, pktsOf, seqFrom, seqEnd, enableAbsSendTime]

theorem run_seq (p : Packetizer) (hv : AbsValid p) (ops : List PkOp) (hops : ops.all opWf = true) :
    seqFrom (p.seq.seq + 1) (allPkts (p.run ops)) = true := by
  induction ops generalizing p with
  | nil => simp [Packetizer.run, allPkts, seqFrom]
  | cons op ops ih =>
    simp only [List.all_cons, Bool.and_eq_true] at hops
    obtain ⟨h1, h2⟩ := step_seq p hv op
    simp only [Packetizer.run, allPkts, List.flatMap_cons, seqFrom_append, h1, h2, Bool.true_and]
    exact ih _ (step_absValid p hv op hops.1) hops.2

/-! ### shape -/

theorem run_shape (p : Packetizer) (ops : List PkOp) : shapeOk ops (p.run ops) = true := by
  induction ops generalizing p with
  | nil => simp [Packetizer.run, shapeOk]
  | cons op ops ih =>
    cases op <;> simp [Packetizer.run, Packetizer.step, shapeOk, ih]

/-! ### c06_ts -/

theorem mkPkts_ts (p : Packetizer) (ext : Option (UInt8 × Bytes)) (s : SeqState) (frags : List Bytes) :
    (mkPkts p ext s frags).1.all (fun q => q.ts == p.ts) = true := by
  induction frags generalizing s with
  | nil => simp [mkPkts]
  | cons f fs ih =>
    cases fs with
    | nil => simp [mkPkts, mkPkt]
    | cons g gs =>
      have := ih s.next.2
      simp only [mkPkts, mkPkt, List.all_cons] at this ⊢
      simpa using this

theorem run_ts (p : Packetizer) (hv : AbsValid p) (ops : List PkOp) (hops : ops.all opWf = true) :
    tsWalk p.ts ops (p.run ops) = true := by
  induction ops generalizing p with
  | nil => simp [tsWalk]
  | cons op ops ih =>
    simp only [List.all_cons, Bool.and_eq_true] at hops
    have hv' := step_absValid p hv op hops.1
    have ih' := ih _ hv' hops.2
    cases op with
    | packetize pay payload samples now =>
      cases he : payload.isEmpty with
      | true =>
        simp only [Packetizer.run, Packetizer.step, packetize_empty _ _ _ he, tsWalk, he, if_true] at ih' ⊢
        exact ih'
      | false =>
        simp only [Packetizer.run, Packetizer.step, packetize_eq _ _ hv _ he, tsWalk, he,
          Bool.false_eq_true, if_false, Bool.and_eq_true] at ih' ⊢
        exact ⟨mkPkts_ts _ _ _ _, ih'⟩
    | skip n => simpa [Packetizer.run, Packetizer.step, tsWalk, skipSamples] using ih'
    | padding n => simpa [Packetizer.run, Packetizer.step, tsWalk, generatePadding] using ih'
    | enableAbs id => simpa [Packetizer.run, Packetizer.step, tsWalk, enableAbsSendTime] using ih'

/-! ### c06_fields -/

theorem mkPkts_payloads (p : Packetizer) (ext : Option (UInt8 × Bytes)) (s : SeqState) (frags : List Bytes) :
    (mkPkts p ext s frags).1.map (·.payload) = frags := by
  induction frags generalizing s with
  | nil => simp [mkPkts]
  | cons f fs ih =>
    cases fs with
    | nil => simp [mkPkts, mkPkt]
    | cons g gs =>
      have := ih s.next.2
      simp only [mkPkts, mkPkt, List.map_cons] at this ⊢
      simpa using this

theorem mkPkts_fixed (cfg p : Packetizer) (hc : SameCfg cfg p) (ext : Option (UInt8 × Bytes)) (s : SeqState)
    (frags : List Bytes) : (mkPkts p ext s frags).1.all (fixedFieldsOk cfg) = true := by
  obtain ⟨_, h2, h3⟩ := hc
  induction frags generalizing s with
  | nil => simp [mkPkts]
  | cons f fs ih =>
    cases fs with
    | nil => simp [mkPkts, mkPkt, fixedFieldsOk, h2, h3]
    | cons g gs =>
      have := ih s.next.2
      simp only [mkPkts, mkPkt, List.all_cons] at this ⊢
      simp [fixedFieldsOk, h2, h3, this]

theorem mkPkts_markers (p : Packetizer) (ext : Option (UInt8 × Bytes)) (s : SeqState) (frags : List Bytes) :
    markersOk (mkPkts p ext s frags).1 = true := by
  induction frags generalizing s with
  | nil => simp [mkPkts, markersOk]
  | cons f fs ih =>
    cases fs with
    | nil => simp [mkPkts, mkPkt, markersOk]
    | cons g gs =>
      have := ih s.next.2
      cases gs with
      | nil => simp [mkPkts, mkPkt, markersOk]
      | cons h hs =>
        simp only [mkPkts, mkPkt, markersOk] at this ⊢
        simpa using this

theorem run_fields (cfg p : Packetizer) (hc : SameCfg cfg p) (hv : AbsValid p) (ops : List PkOp)
    (hops : ops.all opWf = true) : fieldsOk cfg ops (p.run ops) = true := by
  induction ops generalizing p with
  | nil => simp [fieldsOk]
  | cons op ops ih =>
    simp only [List.all_cons, Bool.and_eq_true] at hops
    have ih' := ih _ (step_sameCfg cfg p hc op) (step_absValid p hv op hops.1) hops.2
    cases op with
    | packetize pay payload samples now =>
      cases he : payload.isEmpty with
      | true =>
        simp only [Packetizer.run, Packetizer.step, packetize_empty _ _ _ he, fieldsOk, he, if_true,
          Bool.true_and] at ih' ⊢
        exact ih'
      | false =>
        simp only [Packetizer.run, Packetizer.step, packetize_eq _ _ hv _ he, fieldsOk, he,
          Bool.false_eq_true, if_false, Option.map_some, Bool.and_eq_true, Bool.true_and] at ih' ⊢
        exact ⟨⟨⟨by simp [mkPkts_payloads], mkPkts_fixed cfg p hc _ _ _⟩, mkPkts_markers _ _ _ _⟩, ih'⟩
    | skip n => simpa [Packetizer.run, Packetizer.step, fieldsOk] using ih'
    | padding n => simpa [Packetizer.run, Packetizer.step, fieldsOk] using ih'
    | enableAbs id => simpa [Packetizer.run, Packetizer.step, fieldsOk] using ih'

/-! ### c06_abs -/

theorem mkPkts_extOnLast (p : Packetizer) (e : UInt8 × Bytes) (s : SeqState) (frags : List Bytes) :
    extOnLast e (mkPkts p (some e) s frags).1 = true := by
  induction frags generalizing s with
  | nil => simp [mkPkts, extOnLast]
  | cons f fs ih =>
    cases fs with
    | nil => simp [mkPkts, mkPkt, extOnLast]
    | cons g gs =>
      have := ih s.next.2
      cases gs with
      | nil => simp [mkPkts, mkPkt, extOnLast]
      | cons h hs =>
        simp only [mkPkts, mkPkt, extOnLast] at this ⊢
        simpa using this

theorem mkPkts_noExt (p : Packetizer) (s : SeqState) (frags : List Bytes) :
    (mkPkts p none s frags).1.all (fun q => !q.extension && q.exts == []) = true := by
  induction frags generalizing s with
  | nil => simp [mkPkts]
  | cons f fs ih =>
    cases fs with
    | nil => simp [mkPkts, mkPkt]
    | cons g gs =>
      have := ih s.next.2
      simp only [mkPkts, mkPkt, List.all_cons] at this ⊢
      simpa using this

theorem run_abs (p : Packetizer) (hv : AbsValid p) (ops : List PkOp) (hops : ops.all opWf = true) :
    absWalk p.absId ops (p.run ops) = true := by
  induction ops generalizing p with
  | nil => simp [absWalk]
  | cons op ops ih =>
    simp only [List.all_cons, Bool.and_eq_true] at hops
    have ih' := ih _ (step_absValid p hv op hops.1) hops.2
    cases op with
    | packetize pay payload samples now =>
      cases he : payload.isEmpty with
      | true =>
        simp only [Packetizer.run, Packetizer.step, packetize_empty _ _ _ he, absWalk, he, if_true,
          Bool.true_and] at ih' ⊢
        exact ih'
      | false =>
        simp only [Packetizer.run, Packetizer.step, packetize_eq _ _ hv _ he, absWalk, he,
          Bool.false_eq_true, if_false, Bool.and_eq_true] at ih' ⊢
        refine ⟨?_, ih'⟩
        rcases hv with h0 | hv
        · simp only [h0, beq_self_eq_true, if_true]
          have : extOf p now = none := by simp [extOf, h0]
          rw [this]; exact mkPkts_noExt _ _ _
        · have hne : (p.absId == 0) = false := by
            simp only [idValid, Bool.and_eq_true, decide_eq_true_eq] at hv
            simp; omega
          have : extOf p now = some (p.absId.toNat.toUInt8, absSendTimeBytes now) := by
            have h8 := (absId8_valid p hv).2
            simp only [extOf, bne, hne, Bool.not_false, if_true, h8]
          simp only [hne, Bool.false_eq_true, if_false, hv, if_true, this]
          exact mkPkts_extOnLast _ _ _ _
    | skip n => simpa [Packetizer.run, Packetizer.step, absWalk, skipSamples] using ih'
    | padding n => simpa [Packetizer.run, Packetizer.step, absWalk, generatePadding] using ih'
    | enableAbs id => simpa [Packetizer.run, Packetizer.step, absWalk, enableAbsSendTime] using ih'

/-! ### what `marshalSimple` produces -/

theorem rep_length (n : Nat) (b : UInt8) : (rep n b).length = n := List.length_replicate ..

theorem marshal_len_none (m : Bool) (pt : UInt8) (seq : UInt16) (ts ssrc : UInt32) (payload : Bytes) :
    (marshalSimple false m pt seq ts ssrc none payload 0).length = 12 + payload.length := by
  simp [marshalSimple, be16, be32]; omega

theorem marshal_len_ext (m : Bool) (pt : UInt8) (seq : UInt16) (ts ssrc : UInt32) (id : UInt8) (v : Bytes)
    (hv : v.length = 3) (payload : Bytes) :
    (marshalSimple false m pt seq ts ssrc (some (id, v)) payload 0).length = 20 + payload.length := by
  simp [marshalSimple, be16, be32, hv, rep]; omega

theorem abs_len (now : Int64) : (absSendTimeBytes now).length = 3 := by simp [absSendTimeBytes]

theorem marshal_len_pad (pt : UInt8) (seq : UInt16) (ts ssrc : UInt32) :
    (marshalSimple true false pt seq ts ssrc none [] 255).length = 267 := by
  simp [marshalSimple, be16, be32, rep_length]

theorem pad_wire_aux (b1 s0 s1 t0 t1 t2 t3 c0 c1 c2 c3 : UInt8) (z : Bytes) (hz : z.length = 254) :
    paddingOnlyWire ([0xA0, b1, s0, s1, t0, t1, t2, t3, c0, c1, c2, c3] ++ z ++ [0xFF]) = true := by
  have h1 : (160 : UInt8) >>> 6 = 2 := by decide
  have h2 : (160 : UInt8) >>> 5 &&& 1 = 1 := by decide
  have h3 : ((160 : UInt8) >>> 4 &&& 1 = 1) = False := by decide
  have h4 : (c3 :: (z ++ [255])).getLast? = some 255 := by
    rw [← List.cons_append, List.getLast?_concat]
  simp [paddingOnlyWire, hz, h1, h2, h3, h4]

theorem pad_wire (pt : UInt8) (seq : UInt16) (ts ssrc : UInt32) :
    paddingOnlyWire (marshalSimple true false pt seq ts ssrc none [] 255) = true := by
  have := pad_wire_aux (pt ||| 0) (seq >>> 8).toUInt8 seq.toUInt8 (ts >>> 24).toUInt8 (ts >>> 16).toUInt8
    (ts >>> 8).toUInt8 ts.toUInt8 (ssrc >>> 24).toUInt8 (ssrc >>> 16).toUInt8 (ssrc >>> 8).toUInt8 ssrc.toUInt8
    (rep 254 0) (rep_length _ _)
  have h : (128 ||| 32 : UInt8) = 160 := by decide
  simpa [marshalSimple, be16, be32, h] using this

/-- the extension element attached by `Packetize` is always 3 bytes long -/
def Ext3 (ext : Option (UInt8 × Bytes)) : Prop := ∀ e, ext = some e → e.2.length = 3

theorem extOf_ext3 (p : Packetizer) (now : Int64) : Ext3 (extOf p now) := by
  intro e he
  simp only [extOf] at he
  split at he
  · cases he; exact abs_len now
  · cases he

/-- size of one media packet: `Marshal` gives exactly `MarshalSize` = 12 (+ 8) + payload bytes -/
theorem mkPkt_size (p : Packetizer) (v : UInt16) (m : Bool) (ext : Option (UInt8 × Bytes)) (h3 : Ext3 ext)
    (f : Bytes) :
    (mkPkt p v m ext f).marshalSize = 12 + (if ext.isSome then 8 else 0) + f.length ∧
    ∃ b, (mkPkt p v m ext f).marshal = .ok b ∧ b.length = (mkPkt p v m ext f).marshalSize := by
  refine ⟨rfl, _, rfl, ?_⟩
  cases ext with
  | none => simp [mkPkt, marshal_len_none]
  | some e =>
    obtain ⟨id, val⟩ := e
    have := h3 (id, val) rfl
    simp only [mkPkt, Option.isSome_some, if_true]
    rw [marshal_len_ext _ _ _ _ _ _ _ this]

/-! ### c06_wire -/

theorem mkPkts_wire (cfg p : Packetizer) (hc : SameCfg cfg p) (ext : Option (UInt8 × Bytes)) (h3 : Ext3 ext)
    (s : SeqState) (frags : List Bytes) : (mkPkts p ext s frags).1.all (wirePkt cfg) = true := by
  have one : ∀ v m e (_ : Ext3 e) f, wirePkt cfg (mkPkt p v m e f) = true := by
    intro v m e he f
    obtain ⟨_, b, hb, hl⟩ := mkPkt_size p v m e he f
    simp only [wirePkt, hb, hl, beq_self_eq_true, Bool.true_and, Bool.or_eq_true, decide_eq_true_eq]
    simp only [mkPkt, decide_eq_true_eq, hc.2.1.symm, UInt8.lt_iff_toNat_lt]
    have : (128 : UInt8).toNat = 128 := rfl
    omega
  have hnone : Ext3 none := by intro e he; cases he
  induction frags generalizing s with
  | nil => simp [mkPkts]
  | cons f fs ih =>
    cases fs with
    | nil => simp [mkPkts, one _ _ _ h3]
    | cons g gs =>
      have := ih s.next.2
      simp only [mkPkts, List.all_cons] at this ⊢
      simp [one _ _ _ hnone, this]

theorem run_wire (cfg p : Packetizer) (hc : SameCfg cfg p) (hv : AbsValid p) (ops : List PkOp)
    (hops : ops.all opWf = true) : wireOk cfg ops (p.run ops) = true := by
  induction ops generalizing p with
  | nil => simp [wireOk]
  | cons op ops ih =>
    simp only [List.all_cons, Bool.and_eq_true] at hops
    have ih' := ih _ (step_sameCfg cfg p hc op) (step_absValid p hv op hops.1) hops.2
    cases op with
    | packetize pay payload samples now =>
      cases he : payload.isEmpty with
      | true =>
        simp only [Packetizer.run, Packetizer.step, packetize_empty _ _ _ he, wireOk, he,
          Bool.true_or, Bool.true_and] at ih' ⊢
        exact ih'
      | false =>
        simp only [Packetizer.run, Packetizer.step, packetize_eq _ _ hv _ he, wireOk, he,
          Bool.false_or, Bool.and_eq_true] at ih' ⊢
        exact ⟨mkPkts_wire cfg p hc _ (extOf_ext3 p now) _ _, ih'⟩
    | skip n => simpa [Packetizer.run, Packetizer.step, wireOk] using ih'
    | padding n => simpa [Packetizer.run, Packetizer.step, wireOk] using ih'
    | enableAbs id => simpa [Packetizer.run, Packetizer.step, wireOk] using ih'

/-! ### c06_mtu -/

/-- the budget leaves room for the 12-byte header and, when enabled, the 8-byte extension block
    (any MTU ≥ 20; the property asks for ≥ 64) -/
theorem budget_fits (p : Packetizer) {now : Int64} (hm : 20 ≤ p.mtu.toNat) :
    p.budget.toNat + 12 + (if (extOf p now).isSome then 8 else 0) ≤ p.mtu.toNat := by
  have h12 : (12 : UInt16) ≤ p.mtu := by
    simp only [UInt16.le_iff_toNat_le]; have : (12 : UInt16).toNat = 12 := rfl; omega
  have hb : (p.mtu - 12).toNat = p.mtu.toNat - 12 := by
    rw [UInt16.toNat_sub_of_le _ _ h12]; rfl
  have h8 : (8 : UInt16) ≤ p.mtu - 12 := by
    simp only [UInt16.le_iff_toNat_le, hb]; have : (8 : UInt16).toNat = 8 := rfl; omega
  have hb8 : (p.mtu - 12 - 8).toNat = p.mtu.toNat - 20 := by
    rw [UInt16.toNat_sub_of_le _ _ h8, hb]; have : (8 : UInt16).toNat = 8 := rfl; omega
  by_cases h0 : p.absId = 0
  · simp [budget, extOf, h0, hb]; omega
  · have hge : (p.mtu - 12 ≥ 8) := h8
    simp [budget, extOf, h0, hge, hb8]; omega

theorem mkPkts_fits (p : Packetizer) (mtu : UInt16) (B : Nat) (ext : Option (UInt8 × Bytes)) (h3 : Ext3 ext)
    (hB : B + 12 + (if ext.isSome then 8 else 0) ≤ mtu.toNat)
    (s : SeqState) (frags : List Bytes) (hf : ∀ f ∈ frags, f.length ≤ B) :
    (mkPkts p ext s frags).1.all (fitsMtu mtu) = true := by
  have one : ∀ v m e (_ : Ext3 e) f, f.length ≤ B → (B + 12 + (if e.isSome then 8 else 0) ≤ mtu.toNat) →
      fitsMtu mtu (mkPkt p v m e f) = true := by
    intro v m e he f hf hB
    obtain ⟨hs, b, hb, hl⟩ := mkPkt_size p v m e he f
    simp only [fitsMtu, hb, hl, Bool.and_self, decide_eq_true_eq, hs]
    omega
  have hnone : Ext3 none := by intro e he; cases he
  have hBn : B + 12 + (if (none : Option (UInt8 × Bytes)).isSome then 8 else 0) ≤ mtu.toNat := by
    simp; split at hB <;> omega
  induction frags generalizing s with
  | nil => simp [mkPkts]
  | cons f fs ih =>
    cases fs with
    | nil => simp [mkPkts, one _ _ _ h3 f (hf f (by simp)) hB]
    | cons g gs =>
      have := ih s.next.2 (fun x hx => hf x (by simp [hx]))
      simp only [mkPkts, List.all_cons] at this ⊢
      simp [one _ _ _ hnone f (hf f (by simp)) hBn, this]

theorem run_mtu (cfg p : Packetizer) (hc : SameCfg cfg p) (hv : AbsValid p) (ops : List PkOp)
    (hops : ops.all opWf = true) : mtuOk cfg ops (p.run ops) = true := by
  induction ops generalizing p with
  | nil => simp [mtuOk]
  | cons op ops ih =>
    simp only [List.all_cons, Bool.and_eq_true] at hops
    have ih' := ih _ (step_sameCfg cfg p hc op) (step_absValid p hv op hops.1) hops.2
    cases op with
    | packetize pay payload samples now =>
      cases he : payload.isEmpty with
      | true =>
        simp only [Packetizer.run, Packetizer.step, packetize_empty _ _ _ he, mtuOk, Option.map_none,
          Bool.true_and] at ih' ⊢
        exact ih'
      | false =>
        simp only [Packetizer.run, Packetizer.step, packetize_eq _ _ hv _ he, mtuOk, he,
          Option.map_some, Bool.not_false, Bool.true_and, Bool.and_eq_true] at ih' ⊢
        refine ⟨?_, ih'⟩
        split
        · rename_i hcond
          simp only [decide_eq_true_eq, List.all_eq_true] at hcond
          have hm : 20 ≤ p.mtu.toNat := by rw [hc.1]; omega
          rw [← hc.1]
          exact mkPkts_fits p p.mtu p.budget.toNat _ (extOf_ext3 p now) (budget_fits p hm) _ _ hcond.2
        · rfl
    | skip n => simpa [Packetizer.run, Packetizer.step, mtuOk] using ih'
    | padding n => simpa [Packetizer.run, Packetizer.step, mtuOk] using ih'
    | enableAbs id => simpa [Packetizer.run, Packetizer.step, mtuOk] using ih'

/-! ### c06_padding -/

theorem mkPads_ok (cfg p : Packetizer) (hc : SameCfg cfg p) (s : SeqState) (n : Nat) :
    (mkPads p s n).1.length = n ∧ (mkPads p s n).1.all (padPkt cfg) = true := by
  have one : ∀ v, padPkt cfg (mkPad p v) = true := by
    intro v
    simp only [padPkt, mkPad, pad_wire, marshal_len_pad, Bool.true_and, beq_self_eq_true,
      Bool.or_eq_true, decide_eq_true_eq, hc.2.1.symm, hc.2.2, UInt8.lt_iff_toNat_lt]
    have : (128 : UInt8).toNat = 128 := rfl
    omega
  induction n generalizing s with
  | zero => simp [mkPads]
  | succ n ih =>
    obtain ⟨h1, h2⟩ := ih s.next.2
    simp only [mkPads, List.length_cons, List.all_cons, one, Bool.true_and]
    exact ⟨by omega, h2⟩

theorem run_padding (cfg p : Packetizer) (hc : SameCfg cfg p) (hv : AbsValid p) (ops : List PkOp)
    (hops : ops.all opWf = true) : paddingOk cfg ops (p.run ops) = true := by
  induction ops generalizing p with
  | nil => simp [paddingOk]
  | cons op ops ih =>
    simp only [List.all_cons, Bool.and_eq_true] at hops
    have ih' := ih _ (step_sameCfg cfg p hc op) (step_absValid p hv op hops.1) hops.2
    cases op with
    | packetize pay payload samples now => simpa [Packetizer.run, Packetizer.step, paddingOk] using ih'
    | skip n => simpa [Packetizer.run, Packetizer.step, paddingOk] using ih'
    | padding n =>
      obtain ⟨h1, h2⟩ := mkPads_ok cfg p hc p.seq n.toNat
      simp only [Packetizer.run, Packetizer.step, generatePadding, paddingOk, h1, h2, beq_self_eq_true,
        Bool.true_and] at ih' ⊢
      exact ih'
    | enableAbs id => simpa [Packetizer.run, Packetizer.step, paddingOk] using ih'

/-! ### the parts of the domain predicate -/

theorem wf_parts {cfg : Packetizer} {ops : List PkOp} (h : wf cfg ops = true) :
    64 ≤ cfg.mtu.toNat ∧ cfg.pt.toNat < 128 ∧ AbsValid cfg ∧ ops.all opWf = true := by
  simp only [wf, Bool.and_eq_true, decide_eq_true_eq, Bool.or_eq_true, beq_iff_eq] at h
  exact ⟨h.1.1.1, h.1.1.2, h.1.2, h.2⟩

/-! ### c06_ts in closed form -/

/-- the packetizer after a history -/
def execP (p : Packetizer) : List PkOp → Packetizer
  | [] => p
  | op :: ops => execP (p.step op).2 ops

/-- samples of the non-empty `Packetize` calls plus skipped samples, mod 2^32 -/
def elapsed : List PkOp → UInt32
  | [] => 0
  | .packetize _ payload samples _ :: ops => (if payload.isEmpty then 0 else samples) + elapsed ops
  | .skip n :: ops => n + elapsed ops
  | _ :: ops => elapsed ops

theorem execP_ts (p : Packetizer) (ops : List PkOp) : (execP p ops).ts = p.ts + elapsed ops := by
  induction ops generalizing p with
  | nil => simp [execP, elapsed]
  | cons op ops ih =>
    cases op with
    | packetize pay payload samples now =>
      simp only [execP, elapsed, ih, Packetizer.step, packetize]
      split
      · simp
      · split <;> simp [UInt32.add_assoc]
    | skip n => simp [execP, elapsed, ih, Packetizer.step, skipSamples, UInt32.add_assoc]
    | padding n => simp [execP, elapsed, ih, Packetizer.step, generatePadding]
    | enableAbs id => simp [execP, elapsed, ih, Packetizer.step, enableAbsSendTime]

theorem run_append (p : Packetizer) (ops1 ops2 : List PkOp) :
    p.run (ops1 ++ ops2) = p.run ops1 ++ (execP p ops1).run ops2 := by
  induction ops1 generalizing p with
  | nil => simp [Packetizer.run, execP]
  | cons op ops ih => simp [Packetizer.run, execP, ih]

/-! ### the value of the abs-send-time element -/

theorem toNtp_toNat (now : Int64) :
    (toNtpTime now).toNat =
      ((now.toUInt64.toNat / 1000000000 + 2208988800) % 4294967296) * 4294967296 +
        (now.toUInt64.toNat % 1000000000) * 4294967296 / 1000000000 := by
  simp only [toNtpTime]
  generalize now.toUInt64 = u
  have hu := u.toNat_lt
  have hfrac : u.toNat % 1000000000 < 1000000000 := Nat.mod_lt _ (by omega)
  have hf : (((u % 1000000000) <<< 32) / 1000000000).toNat = (u.toNat % 1000000000) * 4294967296 / 1000000000 := by
    simp only [UInt64.toNat_div, UInt64.toNat_shiftLeft, UInt64.toNat_mod]
    simp
    rw [Nat.shiftLeft_eq, Nat.mod_eq_of_lt]
    omega
  have hflt : (u.toNat % 1000000000) * 4294967296 / 1000000000 < 2 ^ 32 := by
    apply Nat.div_lt_of_lt_mul; omega
  have hs : ((u / 1000000000 + 0x83AA7E80) <<< 32).toNat =
      ((u.toNat / 1000000000 + 2208988800) % 4294967296) <<< 32 := by
    simp only [UInt64.toNat_shiftLeft, UInt64.toNat_add, UInt64.toNat_div]
    simp
    rw [Nat.shiftLeft_eq, Nat.shiftLeft_eq]
    have : (u.toNat / 1000000000 + 2208988800) < 2 ^ 64 := by omega
    omega
  rw [UInt64.toNat_or, hs, hf, Rtp.Bits.nat_shl_or _ _ 32 hflt]

theorem abs_value (now : Int64) :
    (toNtpTime now >>> 14).toNat % 16777216 = absValue now.toUInt64.toNat := by
  rw [UInt64.toNat_shiftRight, toNtp_toNat]
  simp only [absValue]
  generalize now.toUInt64.toNat = ns
  have hfrac : ns % 1000000000 < 1000000000 := Nat.mod_lt _ (by omega)
  generalize hfr : ns % 1000000000 = fr at *
  generalize (ns / 1000000000 + 2208988800) = S
  have h1 : fr * 4294967296 / 1000000000 / 16384 = fr * 262144 / 1000000000 := by
    rw [Nat.div_div_eq_div_mul, show fr * 4294967296 = fr * 262144 * 16384 by omega,
      Nat.mul_div_mul_right _ _ (by omega)]
  have h2 : fr * 262144 / 1000000000 < 262144 := by
    apply Nat.div_lt_of_lt_mul; omega
  have h3 : (S % 4294967296 * 4294967296 + fr * 4294967296 / 1000000000) / 16384 =
      S % 4294967296 * 262144 + fr * 4294967296 / 1000000000 / 16384 := by
    omega
  simp
  rw [Nat.shiftRight_eq_div_pow, show (2:Nat) ^ 14 = 16384 by rfl, h3, h1]
  omega

theorem be24_of (t : UInt64) :
    [((t &&& 0xFF0000) >>> 16).toUInt8, ((t &&& 0xFF00) >>> 8).toUInt8, (t &&& 0xFF).toUInt8] =
    [(t.toNat % 16777216 / 65536).toUInt8, (t.toNat % 16777216 / 256 % 256).toUInt8,
     (t.toNat % 16777216 % 256).toUInt8] := by
  have e1 : (16711680 : Nat) = (2 ^ 8 - 1) <<< 16 := by decide
  have e2 : (65280 : Nat) = (2 ^ 8 - 1) <<< 8 := by decide
  have e3 : (255 : Nat) = 2 ^ 8 - 1 := by decide
  congr 1
  · apply UInt8.toNat_inj.mp
    simp only [UInt64.toNat_toUInt8, UInt64.toNat_shiftRight, UInt64.toNat_and, Nat.toUInt8, UInt8.toNat_ofNat']
    simp
    rw [e1, Rtp.Bits.nat_and_shl_shr]
    omega
  · congr 1
    · apply UInt8.toNat_inj.mp
      simp only [UInt64.toNat_toUInt8, UInt64.toNat_shiftRight, UInt64.toNat_and, Nat.toUInt8, UInt8.toNat_ofNat']
      simp
      rw [e2, Rtp.Bits.nat_and_shl_shr]
      omega
    · congr 1
      apply UInt8.toNat_inj.mp
      simp only [UInt64.toNat_toUInt8, UInt64.toNat_and, Nat.toUInt8, UInt8.toNat_ofNat']
      simp
      rw [e3, Rtp.Bits.nat_and_mask]
      omega

/-- `NewAbsSendTimeExtension(t).Marshal()` is the spec's 6.18 fixed-point value of the instant, for
    EVERY clock reading (`ns` = `uint64(t.UnixNano())`, which is the Unix time in ns when that is ≥ 0) -/
theorem abs_bytes_spec (now : Int64) : absSendTimeBytes now = be24n (absValue now.toUInt64.toNat) := by
  simp only [absSendTimeBytes, be24n]
  rw [be24_of, abs_value]

end Rtp.Proofs.Packetizer
