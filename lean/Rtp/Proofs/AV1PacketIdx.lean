/-
  Rtp/Proofs/AV1PacketIdx.lean — the index-based, slice-checked models of AV1Packet.Unmarshal /
  parseBody and frame.AV1.ReadFrames never fail a check and compute what the list models compute.
-/
import Rtp.Model.AV1PacketIdx
import Rtp.Proofs.AV1DepackIdx
import Rtp.Proofs.AV1Packet
namespace Rtp.Model.AV1
open Rtp Rtp.Model
open Rtp.Model.ObuLemmas

theorem parseBodyLoopC_eq (payload : Bytes) (w : UInt8) (fuel i cur : Nat) (acc : List Bytes)
    (hc : cur ≤ payload.length) :
    parseBodyLoopC payload w fuel i cur acc = some (parseBodyLoop w fuel i (payload.drop cur) acc) := by
  induction fuel generalizing i cur acc with
  | zero => simp [parseBodyLoopC, parseBodyLoop]
  | succ f ih =>
    rw [parseBodyLoopC, parseBodyLoop]
    by_cases heq : cur = payload.length
    · subst heq; simp
    · have hlt : cur < payload.length := by omega
      have hne : (payload.drop cur).isEmpty = false := by
        rw [List.isEmpty_eq_false_iff]
        intro h
        have := congrArg List.length h
        simp only [List.length_drop, List.length_nil] at this
        omega
      have hb : (cur == payload.length) = false := by simpa using heq
      simp only [hb, Bool.false_eq_true, if_false, hne]
      by_cases hw : (w != 0 && i == w.toNat) = true
      · simp only [hw, if_true]
        have h1 : ¬ payload.length < cur + (payload.length - cur) := by omega
        have h2 : cur + (payload.length - cur) ≤ payload.length := by omega
        have h3 : cur + (payload.length - cur) = payload.length := by omega
        simp only [h1, if_false, sliceC_ok payload cur _ h2, ih _ _ _ h2]
        rw [h3]
        have h4 : (payload.drop cur).take (payload.length - cur) = payload.drop cur := by
          apply List.take_of_length_le; simp
        simp [h4]
      · simp only [hw, Bool.false_eq_true, if_false]
        have hfrom : fromC payload cur = some (payload.drop cur) := by simp [fromC, hc]
        simp only [hfrom]
        cases hr : readLebGo (payload.drop cur) with
        | none => rfl
        | some vk =>
          obtain ⟨v, k⟩ := vk
          obtain ⟨hk1, hk2⟩ := readLebGo_bounds _ v k hr
          simp only [List.length_drop] at hk2
          have hok : cur + k ≤ payload.length := by omega
          have hdd : (payload.drop cur).drop k = payload.drop (cur + k) := by rw [List.drop_drop]
          have hlen : (payload.drop (cur + k)).length = payload.length - (cur + k) := by simp
          simp only [hdd, hlen]
          by_cases hs : payload.length < cur + k + v.toNat
          · have : payload.length - (cur + k) < v.toNat := by omega
            simp only [hs, if_true, this]
          · have hs' : ¬ payload.length - (cur + k) < v.toNat := by omega
            have hle : cur + k + v.toNat ≤ payload.length := by omega
            simp only [hs, if_false, hs', sliceC_ok payload (cur + k) _ hle, ih _ _ _ hle, List.drop_drop]

theorem pktUnmarshalC_eq (p : PktSt) (payload : Option Bytes) :
    pktUnmarshalC p payload = some (pktUnmarshal p payload) := by
  unfold pktUnmarshalC pktUnmarshal
  match payload with
  | none => rfl
  | some [] => rfl
  | some [b] => rfl
  | some (b0 :: b1 :: rest) =>
    have hlen : ¬ (b0 :: b1 :: rest).length < 2 := by simp
    have hfrom : fromC (b0 :: b1 :: rest) 1 = some (b1 :: rest) := by simp [fromC]
    have hloop := parseBodyLoopC_eq (b1 :: rest) ((b0 &&& 0x30) >>> 4) ((b1 :: rest).length + 1) 1 0 []
      (by simp)
    simp only [List.drop_zero] at hloop
    simp only [hlen, if_false, hfrom]
    by_cases hzn : ((b0 &&& 0x80) >>> 7 != 0 && (b0 &&& 0x08) >>> 3 != 0) = true
    · simp only [hzn, if_true]
    · simp only [hzn, Bool.false_eq_true, if_false]
      cases he : p.elems with
      | some es => rfl
      | none =>
        simp only [hloop]
        cases hr : parseBodyLoop ((b0 &&& 0x30) >>> 4) ((b1 :: rest).length + 1) 1 (b1 :: rest) [] with
        | ok es => rfl
        | err e => rfl
        | panic => exact absurd hr (parseBodyLoop_ne_panic _ _ _ _ _)

theorem readFramesC_eq (buf : Bytes) (z y : Bool) (elems : List Bytes) :
    readFramesC buf z y elems = some (readFrames buf z y elems) := by
  unfold readFramesC readFrames
  generalize (if z = true then
      match elems with
      | [] => (([] : List Bytes), buf)
      | e :: es => if buf.isEmpty = true then (es, buf) else ((buf ++ e) :: es, [])
      else (elems, buf)) = ob
  obtain ⟨obus, b⟩ := ob
  dsimp only
  cases obus with
  | nil => simp
  | cons a as =>
    have hl : (a :: as).getLast? = some ((a :: as).getLast (by simp)) := List.getLast?_eq_some_getLast _
    by_cases hy : y = true
    · simp [hy, hl]
    · simp [hy]

theorem pktUnmarshalX_eq (p : PktSt) (payload : Option Bytes) :
    pktUnmarshalX p payload = pktUnmarshal p payload := by
  simp [pktUnmarshalX, pktUnmarshalC_eq]

end Rtp.Model.AV1
