/-
  Rtp/Proofs/VLA.lean — helper lemmas for C19 (Rtp/Props/C19.lean holds the property theorems).
-/
import Rtp.Model.VLA
import Rtp.Pred.C19
import Rtp.Proofs.Leb128
import Rtp.Go.Bits
namespace Rtp.Model.Vla
open Rtp Rtp.Spec.VlaSpec

/-! ## The decoder never indexes out of range and never reports more than it was given -/

theorem rdTl_safe (bs : Bytes) (slots : List (Nat × Nat)) :
    ∀ (idx off : Nat) (acc : List Layer), off < bs.length →
      match rdTl bs slots idx off acc with
      | .ok o _ => o < bs.length
      | .short o => o ≤ bs.length
      | .panic => False := by
  induction slots with
  | nil => intro idx off acc h; simpa [rdTl] using h
  | cons p rest ih =>
    obtain ⟨s, k⟩ := p
    intro idx off acc h
    unfold rdTl
    by_cases h4 : idx ≥ 4
    · simp only [h4, if_true]
      by_cases h2 : off + 1 + 1 ≤ bs.length
      · have h3 : ¬ (off + 1 ≥ bs.length) := by omega
        simp only [h2, not_true_eq_false, if_false, h3]
        exact ih _ _ _ (by omega)
      · simp only [h2, not_false_eq_true, if_true]; omega
    · have h3 : ¬ (off ≥ bs.length) := by omega
      simp only [h4, if_false, h3]
      exact ih _ _ _ h

theorem rdRates_safe (bs : Bytes) (todo : List Int) :
    ∀ off : Nat, off ≤ bs.length →
      match rdRates bs todo off with
      | .ok o _ => o ≤ bs.length
      | .fail o _ => o ≤ bs.length
      | .panic => False := by
  induction todo with
  | nil => intro off h; simpa [rdRates] using h
  | cons t todo ih =>
    intro off h
    unfold rdRates
    have h1 : ¬ (off > bs.length) := by omega
    simp only [h1, if_false]
    cases hr : readLebGo (bs.drop off) with
    | none => simpa using h
    | some p =>
      obtain ⟨kbps, n⟩ := p
      by_cases h2 : off + n ≤ bs.length
      · simp only [h2, not_true_eq_false, if_false]
        have := ih (off + n) h2
        revert this
        cases rdRates bs todo (off + n) <;> simp
      · simpa [h2] using h

theorem rdLayerRates_safe (bs : Bytes) (ls : List Layer) :
    ∀ off : Nat, off ≤ bs.length →
      match rdLayerRates bs ls off with
      | .ok o _ => o ≤ bs.length
      | .fail o _ => o ≤ bs.length
      | .panic => False := by
  induction ls with
  | nil => intro off h; simpa [rdLayerRates] using h
  | cons l rest ih =>
    intro off h
    unfold rdLayerRates
    have h1 := rdRates_safe bs l.rates off h
    revert h1
    cases rdRates bs l.rates off with
    | panic => simp
    | fail o e => simp
    | ok o ks =>
      intro h1
      dsimp only at h1 ⊢
      have h2 := ih o h1
      revert h2
      cases rdLayerRates bs rest o <;> simp

theorem rdRes_safe (bs : Bytes) (ls : List Layer) :
    ∀ off : Nat, off + ls.length * 5 ≤ bs.length →
      ∃ ls', rdRes bs ls off = some (off + ls.length * 5, ls') := by
  induction ls with
  | nil => intro off _; exact ⟨[], by simp [rdRes]⟩
  | cons l rest ih =>
    intro off h
    simp only [List.length_cons] at h
    obtain ⟨ls', h'⟩ := ih (off + 5) (by omega)
    have e : off + 5 + rest.length * 5 = off + (rest.length + 1) * 5 := by omega
    rw [e] at h'
    unfold rdRes
    have h1 : ¬ (off + 4 ≥ bs.length) := by omega
    simp only [h1, if_false, h', List.length_cons]
    exact ⟨_, rfl⟩

theorem unmarshalTail_safe (bs : Bytes) (rid count : Nat) (masks : List UInt8) (off : Nat)
    (hoff : off ≤ bs.length) :
    Pred.C19.dec bs (unmarshalTail bs rid count masks off) = true := by
  unfold unmarshalTail
  by_cases h1 : off + 1 ≤ bs.length
  · simp only [h1, not_true_eq_false, if_false]
    have ht := rdTl_safe bs (activeSlots count masks) 0 off [] (by omega)
    generalize rdTl bs (activeSlots count masks) 0 off [] = t at ht ⊢
    cases t with
    | panic => exact ht.elim
    | short o => simpa [Pred.C19.dec] using ht
    | ok o ls =>
      dsimp only at ht ⊢
      have hr := rdLayerRates_safe bs ls (o + 1) (by omega)
      generalize rdLayerRates bs ls (o + 1) = q at hr ⊢
      cases q with
      | panic => exact hr.elim
      | fail o e => simpa [Pred.C19.dec] using hr
      | ok o2 ls2 =>
        dsimp only at hr ⊢
        by_cases h2 : bs.length = o2
        · simp [h2, Pred.C19.dec]
        · have h2' : (bs.length == o2) = false := by simpa using h2
          simp only [h2', Bool.false_eq_true, if_false]
          by_cases h3 : o2 + ls2.length * 5 ≤ bs.length
          · obtain ⟨ls', h'⟩ := rdRes_safe bs ls2 o2 h3
            simp [h3, h', Pred.C19.dec]
          · simp [h3, Pred.C19.dec, hr]
  · simp only [h1, not_false_eq_true, if_true, Pred.C19.dec]
    simp; omega

theorem unmarshal_safe (r : VLA) (bs : Bytes) : Pred.C19.dec bs (unmarshal r bs) = true := by
  unfold unmarshal
  by_cases h0 : 0 + 1 ≤ bs.length
  · have h0' : ¬ (0 ≥ bs.length) := by omega
    simp only [h0, not_true_eq_false, if_false, h0']
    split
    · exact unmarshalTail_safe _ _ _ _ _ (by omega)
    · split
      · simp [Pred.C19.dec]; omega
      · rename_i h2
        have : ¬ (1 + (((at' bs 0 >>> 4) &&& 3).toNat + 1 - 1) / 2 ≥ bs.length) := by omega
        simp only [this, if_false]
        exact unmarshalTail_safe _ _ _ _ _ (by omega)
  · simp [h0, Pred.C19.dec]

/-! ## Validation -/

/-- what preprocessForMashaling checks of one layer -/
def LayerOk (count : Int) (l : Layer) : Prop :=
  0 ≤ l.stream ∧ l.stream < count ∧ 0 ≤ l.spatial ∧ l.spatial < 4 ∧
  1 ≤ l.rates.length ∧ l.rates.length ≤ 4

def SameSlot (a b : Layer) : Prop := a.stream = b.stream ∧ a.spatial = b.spatial

theorem preprocess_none_iff (count : Int) (ls : List Layer) :
    ∀ seen : List (Int × Int), preprocess count ls seen = none ↔
      ((∀ l ∈ ls, LayerOk count l ∧ (l.stream, l.spatial) ∉ seen) ∧
       ls.Pairwise (fun a b => ¬ SameSlot a b)) := by
  induction ls with
  | nil => intro seen; simp [preprocess]
  | cons l rest ih =>
    intro seen
    unfold preprocess
    by_cases h1 : l.stream < 0 ∨ l.stream ≥ count
    · have : (decide (l.stream < 0) || decide (l.stream ≥ count)) = true := by simpa using h1
      simp only [this, if_true]
      constructor
      · intro h; cases h
      · intro ⟨h, _⟩
        have := (h l (by simp)).1
        unfold LayerOk at this
        omega
    have h1' : (decide (l.stream < 0) || decide (l.stream ≥ count)) = false := by
      simpa using h1
    by_cases h2 : l.spatial < 0 ∨ l.spatial ≥ 4
    · have : (decide (l.spatial < 0) || decide (l.spatial ≥ 4)) = true := by simpa using h2
      simp only [h1', this, if_true, Bool.false_eq_true, if_false]
      constructor
      · intro h; cases h
      · intro ⟨h, _⟩
        have := (h l (by simp)).1
        unfold LayerOk at this
        omega
    have h2' : (decide (l.spatial < 0) || decide (l.spatial ≥ 4)) = false := by
      simpa using h2
    by_cases h3 : l.rates.length = 0 ∨ l.rates.length > 4
    · have : (l.rates.length == 0 || decide (l.rates.length > 4)) = true := by simpa using h3
      simp only [h1', h2', this, if_true, Bool.false_eq_true, if_false]
      constructor
      · intro h; cases h
      · intro ⟨h, _⟩
        have := (h l (by simp)).1
        unfold LayerOk at this
        omega
    have h3' : (l.rates.length == 0 || decide (l.rates.length > 4)) = false := by
      simpa using h3
    have hok : LayerOk count l := by unfold LayerOk; omega
    by_cases h4 : (l.stream, l.spatial) ∈ seen
    · have : seen.contains (l.stream, l.spatial) = true := by simpa using h4
      simp only [h1', h2', h3', this, if_true, Bool.false_eq_true, if_false]
      constructor
      · intro h; cases h
      · intro ⟨h, _⟩
        exact absurd h4 (h l (by simp)).2
    have h4' : seen.contains (l.stream, l.spatial) = false := by simpa using h4
    simp only [h1', h2', h3', h4', Bool.false_eq_true, if_false, ih, List.mem_cons,
      List.pairwise_cons]
    constructor
    · intro ⟨hall, hp⟩
      refine ⟨?_, ?_, hp⟩
      · intro x hx
        rcases hx with rfl | hx
        · exact ⟨hok, h4⟩
        · have := hall x hx
          exact ⟨this.1, fun hm => this.2 (Or.inr hm)⟩
      · intro x hx hs
        have := (hall x hx).2
        apply this
        left
        unfold SameSlot at hs
        rw [hs.1, hs.2]
    · intro ⟨hall, hd, hp⟩
      refine ⟨?_, hp⟩
      intro x hx
      refine ⟨(hall x (Or.inr hx)).1, ?_⟩
      intro hm
      rcases hm with hm | hm
      · apply hd x hx
        unfold SameSlot
        have := Prod.mk.inj hm
        exact ⟨this.1.symm, this.2.symm⟩
      · exact (hall x (Or.inr hx)).2 hm

end Rtp.Model.Vla
