/-
  Rtp/Proofs/VLA.lean — helper lemmas for C19 (Rtp/Props/C19.lean holds the property theorems).
-/
import Rtp.Model.VLA
import Rtp.Pred.C19
import Rtp.Proofs.Leb128
import Rtp.Go.Bits
set_option linter.unusedSimpArgs false
namespace Rtp.Model.Vla
open Rtp Rtp.Spec.VlaSpec

/-! ## The decoder never indexes out of range and never reports more than it was given -/

theorem rdTl_safe (bs : Bytes) (slots : List (Nat × Nat)) :
    ∀ (idx off : Nat) (acc : List Layer), off < bs.length →
      match rdTl bs slots idx off acc with
      | .ok o _ => o < bs.length
      | .short o => o ≤ bs.length
      | .panic => False := by
  induction slots with
  | nil => intro idx off acc h; simpa [rdTl] using h
  | cons p rest ih =>
    obtain ⟨s, k⟩ := p
    intro idx off acc h
    unfold rdTl
    by_cases h4 : idx ≥ 4
    · simp only [h4, if_true]
      by_cases h2 : off + 1 + 1 ≤ bs.length
      · have h3 : ¬ (off + 1 ≥ bs.length) := by omega
        simp only [h2, not_true_eq_false, if_false, h3]
        exact ih _ _ _ (by omega)
      · simp only [h2, not_false_eq_true, if_true]; omega
    · have h3 : ¬ (off ≥ bs.length) := by omega
      simp only [h4, if_false, h3]
      exact ih _ _ _ h

theorem rdRates_safe (bs : Bytes) (todo : List Int) :
    ∀ off : Nat, off ≤ bs.length →
      match rdRates bs todo off with
      | .ok o _ => o ≤ bs.length
      | .fail o _ => o ≤ bs.length
      | .panic => False := by
  induction todo with
  | nil => intro off h; simpa [rdRates] using h
  | cons t todo ih =>
    intro off h
    unfold rdRates
    have h1 : ¬ (off > bs.length) := by omega
    simp only [h1, if_false]
    cases hr : readLebGo (bs.drop off) with
    | none => simpa using h
    | some p =>
      obtain ⟨kbps, n⟩ := p
      by_cases h2 : off + n ≤ bs.length
      · simp only [h2, not_true_eq_false, if_false]
        have := ih (off + n) h2
        revert this
        cases rdRates bs todo (off + n) <;> simp
      · simpa [h2] using h

theorem rdLayerRates_safe (bs : Bytes) (ls : List Layer) :
    ∀ off : Nat, off ≤ bs.length →
      match rdLayerRates bs ls off with
      | .ok o _ => o ≤ bs.length
      | .fail o _ => o ≤ bs.length
      | .panic => False := by
  induction ls with
  | nil => intro off h; simpa [rdLayerRates] using h
  | cons l rest ih =>
    intro off h
    unfold rdLayerRates
    have h1 := rdRates_safe bs l.rates off h
    revert h1
    cases rdRates bs l.rates off with
    | panic => simp
    | fail o e => simp
    | ok o ks =>
      intro h1
      dsimp only at h1 ⊢
      have h2 := ih o h1
      revert h2
      cases rdLayerRates bs rest o <;> simp

theorem rdRes_safe (bs : Bytes) (ls : List Layer) :
    ∀ off : Nat, off + ls.length * 5 ≤ bs.length →
      ∃ ls', rdRes bs ls off = some (off + ls.length * 5, ls') := by
  induction ls with
  | nil => intro off _; exact ⟨[], by simp [rdRes]⟩
  | cons l rest ih =>
    intro off h
    simp only [List.length_cons] at h
    obtain ⟨ls', h'⟩ := ih (off + 5) (by omega)
    have e : off + 5 + rest.length * 5 = off + (rest.length + 1) * 5 := by omega
    rw [e] at h'
    unfold rdRes
    have h1 : ¬ (off + 4 ≥ bs.length) := by omega
    simp only [h1, if_false, h', List.length_cons]
    exact ⟨_, rfl⟩

theorem unmarshalTail_safe (bs : Bytes) (rid count : Nat) (masks : List UInt8) (off : Nat)
    (hoff : off ≤ bs.length) :
    Pred.C19.dec bs (unmarshalTail bs rid count masks off) = true := by
  unfold unmarshalTail
  by_cases h1 : off + 1 ≤ bs.length
  · simp only [h1, not_true_eq_false, if_false]
    have ht := rdTl_safe bs (activeSlots count masks) 0 off [] (by omega)
    generalize rdTl bs (activeSlots count masks) 0 off [] = t at ht ⊢
    cases t with
    | panic => exact ht.elim
    | short o => simpa [Pred.C19.dec] using ht
    | ok o ls =>
      dsimp only at ht ⊢
      have hr := rdLayerRates_safe bs ls (o + 1) (by omega)
      generalize rdLayerRates bs ls (o + 1) = q at hr ⊢
      cases q with
      | panic => exact hr.elim
      | fail o e => simpa [Pred.C19.dec] using hr
      | ok o2 ls2 =>
        dsimp only at hr ⊢
        by_cases h2 : bs.length = o2
        · simp [h2, Pred.C19.dec]
        · have h2' : (bs.length == o2) = false := by simpa using h2
          simp only [h2', Bool.false_eq_true, if_false]
          by_cases h3 : o2 + ls2.length * 5 ≤ bs.length
          · obtain ⟨ls', h'⟩ := rdRes_safe bs ls2 o2 h3
            simp [h3, h', Pred.C19.dec]
          · simp [h3, Pred.C19.dec, hr]
  · simp only [h1, not_false_eq_true, if_true, Pred.C19.dec]
    simp; omega

theorem unmarshal_safe (r : VLA) (bs : Bytes) : Pred.C19.dec bs (unmarshal r bs) = true := by
  unfold unmarshal
  by_cases h0 : 0 + 1 ≤ bs.length
  · have h0' : ¬ (0 ≥ bs.length) := by omega
    simp only [h0, not_true_eq_false, if_false, h0']
    split
    · exact unmarshalTail_safe _ _ _ _ _ (by omega)
    · split
      · simp [Pred.C19.dec]; omega
      · rename_i h2
        have : ¬ (1 + (((at' bs 0 >>> 4) &&& 3).toNat + 1 - 1) / 2 ≥ bs.length) := by omega
        simp only [this, if_false]
        exact unmarshalTail_safe _ _ _ _ _ (by omega)
  · simp [h0, Pred.C19.dec]

/-! ## Validation -/

/-- what preprocessForMashaling checks of one layer -/
def LayerOk (count : Int) (l : Layer) : Prop :=
  0 ≤ l.stream ∧ l.stream < count ∧ 0 ≤ l.spatial ∧ l.spatial < 4 ∧
  1 ≤ l.rates.length ∧ l.rates.length ≤ 4

def SameSlot (a b : Layer) : Prop := a.stream = b.stream ∧ a.spatial = b.spatial

theorem preprocess_none_iff (count : Int) (ls : List Layer) :
    ∀ seen : List (Int × Int), preprocess count ls seen = none ↔
      ((∀ l ∈ ls, LayerOk count l ∧ (l.stream, l.spatial) ∉ seen) ∧
       ls.Pairwise (fun a b => ¬ SameSlot a b)) := by
  induction ls with
  | nil => intro seen; simp [preprocess]
  | cons l rest ih =>
    intro seen
    unfold preprocess
    by_cases h1 : l.stream < 0 ∨ l.stream ≥ count
    · have : (decide (l.stream < 0) || decide (l.stream ≥ count)) = true := by simpa using h1
      simp only [this, if_true]
      constructor
      · intro h; cases h
      · intro ⟨h, _⟩
        have := (h l (by simp)).1
        unfold LayerOk at this
        omega
    have h1' : (decide (l.stream < 0) || decide (l.stream ≥ count)) = false := by
      simpa using h1
    by_cases h2 : l.spatial < 0 ∨ l.spatial ≥ 4
    · have : (decide (l.spatial < 0) || decide (l.spatial ≥ 4)) = true := by simpa using h2
      simp only [h1', this, if_true, Bool.false_eq_true, if_false]
      constructor
      · intro h; cases h
      · intro ⟨h, _⟩
        have := (h l (by simp)).1
        unfold LayerOk at this
        omega
    have h2' : (decide (l.spatial < 0) || decide (l.spatial ≥ 4)) = false := by
      simpa using h2
    by_cases h3 : l.rates.length = 0 ∨ l.rates.length > 4
    · have : (l.rates.length == 0 || decide (l.rates.length > 4)) = true := by simpa using h3
      simp only [h1', h2', this, if_true, Bool.false_eq_true, if_false]
      constructor
      · intro h; cases h
      · intro ⟨h, _⟩
        have := (h l (by simp)).1
        unfold LayerOk at this
        omega
    have h3' : (l.rates.length == 0 || decide (l.rates.length > 4)) = false := by
      simpa using h3
    have hok : LayerOk count l := by unfold LayerOk; omega
    by_cases h4 : (l.stream, l.spatial) ∈ seen
    · have : seen.contains (l.stream, l.spatial) = true := by simpa using h4
      simp only [h1', h2', h3', this, if_true, Bool.false_eq_true, if_false]
      constructor
      · intro h; cases h
      · intro ⟨h, _⟩
        exact absurd h4 (h l (by simp)).2
    have h4' : seen.contains (l.stream, l.spatial) = false := by simpa using h4
    simp only [h1', h2', h3', h4', Bool.false_eq_true, if_false, ih, List.mem_cons,
      List.pairwise_cons]
    constructor
    · intro ⟨hall, hp⟩
      refine ⟨?_, ?_, hp⟩
      · intro x hx
        rcases hx with rfl | hx
        · exact ⟨hok, h4⟩
        · have := hall x hx
          exact ⟨this.1, fun hm => this.2 (Or.inr hm)⟩
      · intro x hx hs
        have := (hall x hx).2
        apply this
        left
        unfold SameSlot at hs
        rw [hs.1, hs.2]
    · intro ⟨hall, hd, hp⟩
      refine ⟨?_, hp⟩
      intro x hx
      refine ⟨(hall x (Or.inr hx)).1, ?_⟩
      intro hm
      rcases hm with hm | hm
      · apply hd x hx
        unfold SameSlot
        have := Prod.mk.inj hm
        exact ⟨this.1.symm, this.2.symm⟩
      · exact (hall x (Or.inr hx)).2 hm

/-! ## Marshal = VlaSpec.encode on valid allocations

### the slot table enumerates a sorted layer list in its own order -/

theorem filterMap_congr' {α β : Type} {f g : α → Option β} :
    ∀ {l : List α}, (∀ x ∈ l, f x = g x) → l.filterMap f = l.filterMap g := by
  intro l
  induction l with
  | nil => intro _; rfl
  | cons a l ih =>
    intro h
    simp only [List.filterMap_cons, h a (by simp)]
    rw [ih (fun x hx => h x (by simp [hx]))]

theorem find?_eq_none_of {α : Type} {p : α → Bool} {l : List α} (h : ∀ x ∈ l, p x = false) :
    l.find? p = none := by
  simp only [List.find?_eq_none]
  intro x hx; simp [h x hx]

theorem filterMap_find_sorted {α : Type} (key : α → Nat) (P : Nat → α → Bool) :
    ∀ (L : List α) (a n : Nat), L.Pairwise (fun x y => key x < key y) →
      (∀ x ∈ L, a ≤ key x ∧ key x < a + n) →
      (∀ x ∈ L, ∀ i, P i x = true ↔ key x = i) →
      (List.range' a n).filterMap (fun i => L.find? (P i)) = L := by
  intro L
  induction L with
  | nil => intro a n _ _ _; simp
  | cons x xs ih =>
    intro a n hp hr hP
    have hx := hr x (by simp)
    obtain ⟨hpx, hpxs⟩ := List.pairwise_cons.mp hp
    have hsplit : List.range' a n =
        List.range' a (key x - a) ++ key x :: List.range' (key x + 1) (a + n - (key x + 1)) := by
      have e1 : n = (key x - a) + ((a + n - (key x + 1)) + 1) := by omega
      conv => lhs; rw [e1]
      rw [← List.range'_append_1]
      congr 1
      have : a + (key x - a) = key x := by omega
      rw [this, List.range'_succ]
    have hPf : ∀ y ∈ x :: xs, ∀ i, key y ≠ i → P i y = false := by
      intro y hy i hne
      cases h : P i y with
      | false => rfl
      | true => exact absurd ((hP y hy i).mp h) hne
    rw [hsplit, List.filterMap_append, List.filterMap_cons]
    have h1 : (List.range' a (key x - a)).filterMap (fun i => (x :: xs).find? (P i)) = [] := by
      rw [List.filterMap_eq_nil_iff]
      intro i hi
      have hi' := List.mem_range'_1.mp hi
      apply find?_eq_none_of
      intro y hy
      apply hPf y hy
      rcases List.mem_cons.mp hy with rfl | hy'
      · omega
      · have := hpx y hy'; omega
    have h2 : (x :: xs).find? (P (key x)) = some x := by
      simp [(hP x (by simp) (key x)).mpr rfl]
    have h3 : (List.range' (key x + 1) (a + n - (key x + 1))).filterMap (fun i => (x :: xs).find? (P i))
        = (List.range' (key x + 1) (a + n - (key x + 1))).filterMap (fun i => xs.find? (P i)) := by
      apply filterMap_congr'
      intro i hi
      have hi' := List.mem_range'_1.mp hi
      have : P i x = false := hPf x (by simp) i (by omega)
      simp [this]
    rw [h1, h2, h3, ih (key x + 1) (a + n - (key x + 1)) hpxs]
    · rfl
    · intro y hy
      have := hpx y hy
      have := (hr y (by simp [hy])).2
      omega
    · intro y hy; exact hP y (by simp [hy])

def lkey (l : Layer) : Nat := 4 * l.stream.toNat + l.spatial.toNat

theorem tableOrder_flat (layers : List Layer) (c : Nat) :
    tableOrder c layers = (List.range (4 * c)).filterMap (fun i => slot layers (i / 4) (i % 4)) := by
  induction c with
  | zero => simp [tableOrder]
  | succ c ih =>
    have e : 4 * (c + 1) = 4 * c + 4 := by omega
    rw [e, List.range_add, List.filterMap_append, ← ih, List.filterMap_map]
    unfold tableOrder
    have hr : List.range (c + 1) = List.range c ++ [c] := List.range_succ
    rw [hr, List.flatMap_append]
    congr 1
    simp only [List.flatMap_cons, List.flatMap_nil, List.append_nil]
    apply filterMap_congr'
    intro k hk
    have hk' : k < 4 := List.mem_range.mp hk
    have h1 : (4 * c + k) / 4 = c := by omega
    have h2 : (4 * c + k) % 4 = k := by omega
    simp [h1, h2]

theorem tableOrder_sorted (layers : List Layer) (count : Int)
    (hs : layers.Pairwise Layer.before) (hw : ∀ l ∈ layers, l.WF count) :
    tableOrder count.toNat layers = layers := by
  rw [tableOrder_flat, List.range_eq_range']
  unfold slot
  apply filterMap_find_sorted lkey
      (fun i l => l.stream == ((i / 4 : Nat) : Int) && l.spatial == ((i % 4 : Nat) : Int))
  · apply List.Pairwise.imp_of_mem _ hs
    intro a b ha hb hab
    have wa := hw a ha; have wb := hw b hb
    unfold Layer.WF at wa wb; unfold Layer.before at hab; unfold lkey
    omega
  · intro l hl
    have wl := hw l hl
    unfold Layer.WF at wl; unfold lkey
    omega
  · intro l hl i
    have wl := hw l hl
    unfold Layer.WF at wl; unfold lkey
    simp only [Bool.and_eq_true, beq_iff_eq]
    omega

/-! ### the per-stream bitmasks -/

def bmOf (b0 b1 b2 b3 : Bool) : Nat :=
  (if b0 then 1 else 0) + (if b1 then 2 else 0) + (if b2 then 4 else 0) + (if b3 then 8 else 0)

theorem bmOf_or : ∀ (b0 b1 b2 b3 : Bool) (k : Fin 4),
    (bmOf b0 b1 b2 b3).toUInt8 ||| ((1 : UInt8) <<< k.val.toUInt8) =
      (bmOf (b0 || k.val == 0) (b1 || k.val == 1) (b2 || k.val == 2) (b3 || k.val == 3)).toUInt8 := by
  decide

theorem bmOf_lt (b0 b1 b2 b3 : Bool) : bmOf b0 b1 b2 b3 < 16 := by
  unfold bmOf; cases b0 <;> cases b1 <;> cases b2 <;> cases b3 <;> decide

def hit (s k : Nat) (l : Layer) : Bool := l.stream == (s : Int) && l.spatial == (k : Int)

theorem slMB_fold (s : Nat) : ∀ (ls : List Layer), (∀ l ∈ ls, 0 ≤ l.spatial ∧ l.spatial < 4) →
    ∀ b0 b1 b2 b3 : Bool,
    ls.foldl (fun a l => if l.stream == (s : Int) then a ||| ((1 : UInt8) <<< l.spatial.toNat.toUInt8) else a)
        (bmOf b0 b1 b2 b3).toUInt8 =
      (bmOf (b0 || ls.any (hit s 0)) (b1 || ls.any (hit s 1)) (b2 || ls.any (hit s 2))
        (b3 || ls.any (hit s 3))).toUInt8 := by
  intro ls
  induction ls with
  | nil => intro _ b0 b1 b2 b3; simp
  | cons l ls ih =>
    intro hw b0 b1 b2 b3
    have hl := hw l (by simp)
    have hw' : ∀ l ∈ ls, 0 ≤ l.spatial ∧ l.spatial < 4 := fun x hx => hw x (by simp [hx])
    simp only [List.foldl_cons, List.any_cons]
    by_cases hs : l.stream = (s : Int)
    · obtain ⟨k, hk⟩ : ∃ k : Fin 4, l.spatial = (k.val : Int) :=
        ⟨⟨l.spatial.toNat, by omega⟩, by show l.spatial = ((l.spatial.toNat : Nat) : Int); omega⟩
      have hkn : l.spatial.toNat = k.val := by omega
      have hh : ∀ j : Nat, hit s j l = (k.val == j) := by
        intro j
        simp only [hit, hs, hk, beq_self_eq_true, Bool.true_and]
        rw [Bool.eq_iff_iff]
        simp only [beq_iff_eq]
        omega
      simp only [hs, beq_self_eq_true, if_true, hkn, bmOf_or, ih hw', hh, Bool.or_assoc]
    · have hh : ∀ j : Nat, hit s j l = false := by
        intro j; simp [hit, hs]
      have hs' : (l.stream == (s : Int)) = false := by simpa using hs
      simp only [hs', Bool.false_eq_true, if_false, ih hw', hh, Bool.false_or]

theorem slMB_eq (v : VLA) (s : Nat) (hw : ∀ l ∈ v.layers, 0 ≤ l.spatial ∧ l.spatial < 4) :
    slMB v.layers s = (bm v s).toUInt8 := by
  have := slMB_fold s v.layers hw false false false false
  simpa [slMB, bm, active, bmOf, hit] using this

theorem bm_lt (v : VLA) (s : Nat) : bm v s < 16 := by
  have := bmOf_lt (active v s 0) (active v s 1) (active v s 2) (active v s 3)
  simpa [bm, bmOf] using this

/-! ### header byte, shared bitmask, slX_bm bytes -/

theorem nib_pack : ∀ a b : Fin 16,
    (a.val.toUInt8 <<< 4) ||| b.val.toUInt8 = (16 * a.val + b.val).toUInt8 := by decide

theorem nib_pack1 : ∀ a : Fin 16, (a.val.toUInt8 <<< 4) = (16 * a.val).toUInt8 := by decide

theorem hdr_pack : ∀ (r c : Fin 4) (m : Fin 16),
    byteOfInt ((r.val : Int) * 64) ||| (byteOfInt (((c.val + 1 : Nat) : Int) - 1) <<< 4) ||| m.val.toUInt8 =
      (64 * r.val + 16 * c.val + m.val).toUInt8 := by decide

theorem toUInt8_inj_of_lt {a b : Nat} (ha : a < 256) (hb : b < 256) :
    a.toUInt8 = b.toUInt8 ↔ a = b := by
  constructor
  · intro h
    have := congrArg UInt8.toNat h
    simp only [Nat.toUInt8, UInt8.toNat_ofNat'] at this
    omega
  · intro h; rw [h]

theorem toUInt8_beq_of_lt {a b : Nat} (ha : a < 256) (hb : b < 256) :
    (a.toUInt8 == b.toUInt8) = (a == b) := by
  rw [Bool.eq_iff_iff]; simp only [beq_iff_eq]; exact toUInt8_inj_of_lt ha hb

theorem range_1 : List.range 1 = [0] := rfl
theorem range_2 : List.range 2 = [0, 1] := rfl
theorem range_3 : List.range 3 = [0, 1, 2] := rfl
theorem range_4 : List.range 4 = [0, 1, 2, 3] := rfl

theorem commonSLBM_eq (f : Nat → Nat) (hf : ∀ s, f s < 16) (n : Nat) (hn : 1 ≤ n ∧ n ≤ 4) :
    commonSLBM ((List.range n).map (fun s => (f s).toUInt8)) =
      (if (List.range n).all (fun s => f s == f 0) then f 0 else 0).toUInt8 := by
  have e : ∀ a b, ((f a).toUInt8 == (f b).toUInt8) = (f a == f b) := fun a b =>
    toUInt8_beq_of_lt (by have := hf a; omega) (by have := hf b; omega)
  have hn' : n = 1 ∨ n = 2 ∨ n = 3 ∨ n = 4 := by omega
  rcases hn' with rfl | rfl | rfl | rfl
  · simp [commonSLBM]
  · simp only [range_2, commonSLBM, List.map_cons, List.map_nil, List.all_cons, List.all_nil, e,
      beq_self_eq_true, Bool.and_true, Bool.true_and]
    split <;> rfl
  · simp only [range_3, commonSLBM, List.map_cons, List.map_nil, List.all_cons, List.all_nil, e,
      beq_self_eq_true, Bool.and_true, Bool.true_and]
    split <;> rfl
  · simp only [range_4, commonSLBM, List.map_cons, List.map_nil, List.all_cons, List.all_nil, e,
      beq_self_eq_true, Bool.and_true, Bool.true_and]
    split <;> rfl

theorem maskBytes_eq (f : Nat → Nat) (hf : ∀ s, f s < 16) (n : Nat) (hn : 1 ≤ n ∧ n ≤ 4) :
    maskBytes ((List.range n).map (fun s => (f s).toUInt8)) = packNibbles ((List.range n).map f) := by
  have p2 : ∀ a b, ((f a).toUInt8 <<< 4) ||| (f b).toUInt8 = (16 * f a + f b).toUInt8 :=
    fun a b => nib_pack ⟨f a, hf a⟩ ⟨f b, hf b⟩
  have p1 : ∀ a, ((f a).toUInt8 <<< 4) = (16 * f a).toUInt8 := fun a => nib_pack1 ⟨f a, hf a⟩
  have hn' : n = 1 ∨ n = 2 ∨ n = 3 ∨ n = 4 := by omega
  rcases hn' with rfl | rfl | rfl | rfl
  · simp only [range_1, List.map_cons, List.map_nil, maskBytes, packNibbles]; rw [p1]
  · simp only [range_2, List.map_cons, List.map_nil, maskBytes, packNibbles]; rw [p2]
  · simp only [range_3, List.map_cons, List.map_nil, maskBytes, packNibbles]; rw [p2, p1]
  · simp only [range_4, List.map_cons, List.map_nil, maskBytes, packNibbles]; rw [p2, p2]

theorem maskBytes_length (l : List UInt8) : (maskBytes l).length = (l.length + 1) / 2 := by
  match l with
  | [] => rfl
  | [_] => simp [maskBytes]
  | _ :: _ :: r =>
    have := maskBytes_length r
    simp only [maskBytes, List.length_cons, this]
    omega

theorem slBm_lt (v : VLA) : slBm v < 16 := by
  unfold slBm; split
  · exact bm_lt v 0
  · omega

/-- the first part of the body: header byte, shared mask decision, per-stream mask bytes -/
theorem front_eq (v : VLA) (hc : 1 ≤ v.count ∧ v.count ≤ 4) (hr : 0 ≤ v.rid ∧ v.rid < v.count)
    (hw : ∀ l ∈ v.layers, 0 ≤ l.spatial ∧ l.spatial < 4) :
    let masks := (List.range v.count.toNat).map (slMB v.layers)
    commonSLBM masks = (slBm v).toUInt8 ∧
    ((commonSLBM masks == 0) = decide (slBm v = 0)) ∧
    byteOfInt (v.rid * 64) ||| (byteOfInt (v.count - 1) <<< 4) ||| commonSLBM masks = header v ∧
    maskBytes masks = packNibbles ((List.range (ns v)).map (bm v)) := by
  intro masks
  have hm : masks = (List.range v.count.toNat).map (fun s => (bm v s).toUInt8) := by
    apply List.map_congr_left
    intro s _
    exact slMB_eq v s hw
  have hn : 1 ≤ v.count.toNat ∧ v.count.toNat ≤ 4 := by omega
  have h1 : commonSLBM masks = (slBm v).toUInt8 := by
    rw [hm, commonSLBM_eq (bm v) (bm_lt v) _ hn]; rfl
  refine ⟨h1, ?_, ?_, ?_⟩
  · rw [h1]
    have := toUInt8_beq_of_lt (a := slBm v) (b := 0) (by have := slBm_lt v; omega) (by omega)
    rw [Bool.eq_iff_iff]
    simp only [decide_eq_true_eq]
    rw [show (0 : UInt8) = (0 : Nat).toUInt8 from rfl, this]
    simp
  · rw [h1]
    have := hdr_pack ⟨v.rid.toNat, by omega⟩ ⟨v.count.toNat - 1, by omega⟩ ⟨slBm v, slBm_lt v⟩
    simp only at this
    have e1 : ((v.rid.toNat : Nat) : Int) = v.rid := by omega
    have e2 : ((v.count.toNat - 1 + 1 : Nat) : Int) = v.count := by omega
    rw [e1, e2] at this
    rw [this]; rfl
  · rw [hm]; exact maskBytes_eq (bm v) (bm_lt v) _ hn

/-! ### the #tl bytes -/

theorem tlByte_eq (n : Nat) (h : 1 ≤ n ∧ n ≤ 4) : byteOfInt ((n : Int) - 1) = (n - 1).toUInt8 := by
  have : n = 1 ∨ n = 2 ∨ n = 3 ∨ n = 4 := by omega
  rcases this with rfl | rfl | rfl | rfl <;> decide

theorem tl_step (l : Layer) (rest : List Layer) (idx : Nat) (cur : UInt8) (done : Bytes) (h : idx < 4) :
    tlLoop (l :: rest) idx cur done =
      tlLoop rest (idx + 1) (cur ||| (byteOfInt ((l.rates.length : Int) - 1) <<< (2 * (3 - idx) : Nat).toUInt8)) done := by
  have : ¬ idx ≥ 4 := by omega
  simp [tlLoop, this]

theorem tl_wrap (l : Layer) (rest : List Layer) (cur : UInt8) (done : Bytes) :
    tlLoop (l :: rest) 4 cur done = tlLoop (l :: rest) 0 0 (done ++ [cur]) := by
  simp [tlLoop]

theorem tl_pack1 : ∀ a : Fin 4,
    (0 : UInt8) ||| (a.val.toUInt8 <<< (2 * (3 - 0) : Nat).toUInt8) = (64 * a.val).toUInt8 := by decide
theorem tl_pack2 : ∀ a b : Fin 4,
    (0 : UInt8) ||| (a.val.toUInt8 <<< (2 * (3 - 0) : Nat).toUInt8) |||
      (b.val.toUInt8 <<< (2 * (3 - (0 + 1)) : Nat).toUInt8) = (64 * a.val + 16 * b.val).toUInt8 := by decide
theorem tl_pack3 : ∀ a b c : Fin 4,
    (0 : UInt8) ||| (a.val.toUInt8 <<< (2 * (3 - 0) : Nat).toUInt8) |||
      (b.val.toUInt8 <<< (2 * (3 - (0 + 1)) : Nat).toUInt8) |||
      (c.val.toUInt8 <<< (2 * (3 - (0 + 1 + 1)) : Nat).toUInt8) =
        (64 * a.val + 16 * b.val + 4 * c.val).toUInt8 := by decide
theorem tl_pack4 : ∀ a b c d : Fin 4,
    (0 : UInt8) ||| (a.val.toUInt8 <<< (2 * (3 - 0) : Nat).toUInt8) |||
      (b.val.toUInt8 <<< (2 * (3 - (0 + 1)) : Nat).toUInt8) |||
      (c.val.toUInt8 <<< (2 * (3 - (0 + 1 + 1)) : Nat).toUInt8) |||
      (d.val.toUInt8 <<< (2 * (3 - (0 + 1 + 1 + 1)) : Nat).toUInt8) =
        (64 * a.val + 16 * b.val + 4 * c.val + d.val).toUInt8 := by decide

/-- temporal layer count − 1 of a well-formed layer, as a 2-bit value -/
def tlOf (l : Layer) (h : 1 ≤ l.rates.length ∧ l.rates.length ≤ 4) : Fin 4 :=
  ⟨l.rates.length - 1, by omega⟩

theorem tlLoop_eq : ∀ (L : List Layer) (done : Bytes), L ≠ [] →
    (∀ l ∈ L, 1 ≤ l.rates.length ∧ l.rates.length ≤ 4) →
    tlLoop L 0 0 done = done ++ pack2 (L.map (fun l => l.rates.length - 1))
  | [], _, h, _ => absurd rfl h
  | [a], done, _, hw => by
    have ha := hw a (by simp)
    rw [tl_step _ _ _ _ _ (by omega), tlByte_eq _ ha]
    simp only [tlLoop, List.map_cons, List.map_nil, pack2]
    have hp := tl_pack1 (tlOf a ha)
    simp only [tlOf] at hp
    rw [hp]
  | [a, b], done, _, hw => by
    have ha := hw a (by simp); have hb := hw b (by simp)
    rw [tl_step _ _ _ _ _ (by omega), tl_step _ _ _ _ _ (by omega), tlByte_eq _ ha, tlByte_eq _ hb]
    simp only [tlLoop, List.map_cons, List.map_nil, pack2]
    have hp := tl_pack2 (tlOf a ha) (tlOf b hb)
    simp only [tlOf] at hp
    rw [hp]
  | [a, b, c], done, _, hw => by
    have ha := hw a (by simp); have hb := hw b (by simp); have hc := hw c (by simp)
    rw [tl_step _ _ _ _ _ (by omega), tl_step _ _ _ _ _ (by omega), tl_step _ _ _ _ _ (by omega),
      tlByte_eq _ ha, tlByte_eq _ hb, tlByte_eq _ hc]
    simp only [tlLoop, List.map_cons, List.map_nil, pack2]
    have hp := tl_pack3 (tlOf a ha) (tlOf b hb) (tlOf c hc)
    simp only [tlOf] at hp
    rw [hp]
  | a :: b :: c :: d :: r, done, _, hw => by
    have ha := hw a (by simp); have hb := hw b (by simp); have hc := hw c (by simp)
    have hd := hw d (by simp)
    rw [tl_step _ _ _ _ _ (by omega), tl_step _ _ _ _ _ (by omega), tl_step _ _ _ _ _ (by omega),
      tl_step _ _ _ _ _ (by omega), tlByte_eq _ ha, tlByte_eq _ hb, tlByte_eq _ hc, tlByte_eq _ hd]
    have hp := tl_pack4 (tlOf a ha) (tlOf b hb) (tlOf c hc) (tlOf d hd)
    simp only [tlOf] at hp
    rw [hp]
    cases r with
    | nil => simp [tlLoop, pack2]
    | cons l r' =>
      have ih := tlLoop_eq (l :: r') (done ++ [(64 * (a.rates.length - 1) + 16 * (b.rates.length - 1) +
        4 * (c.rates.length - 1) + (d.rates.length - 1)).toUInt8]) (by simp)
        (fun x hx => hw x (by simp only [List.mem_cons] at hx ⊢; right; right; right; right; exact hx))
      show tlLoop (l :: r') 4 _ done = _
      rw [tl_wrap, ih]
      simp [pack2]

theorem pack2_length : ∀ (l : List Nat), (pack2 l).length = (l.length + 3) / 4
  | [] => rfl
  | [_] => by simp [pack2]
  | [_, _] => by simp [pack2]
  | [_, _, _] => by simp [pack2]
  | _ :: _ :: _ :: _ :: r => by
    have := pack2_length r
    simp only [pack2, List.length_cons, this]
    omega

/-! ### bitrates, resolution records, lengths -/

theorem uintOfInt_eq (k : Int) (h : 0 ≤ k ∧ k < 2 ^ 63) : uintOfInt k = k.toNat := by
  unfold uintOfInt
  have : k % 18446744073709551616 = k := Int.emod_eq_of_lt h.1 (by omega)
  rw [this]

theorem encodedRates_flatten (ls : List Layer) (hw : ∀ l ∈ ls, ∀ k ∈ l.rates, 0 ≤ k ∧ k < 2 ^ 63) :
    (encodedRates ls).flatten = ls.flatMap (fun l => l.rates.flatMap (fun k => writeLeb k.toNat)) := by
  induction ls with
  | nil => rfl
  | cons l ls ih =>
    have ih' := ih (fun x hx => hw x (by simp [hx]))
    unfold encodedRates at ih' ⊢
    simp only [List.flatMap_cons, List.flatten_append, ih']
    congr 1
    rw [List.flatMap_def]
    congr 1
    apply List.map_congr_left
    intro k hk
    rw [uintOfInt_eq k (hw l (by simp) k hk)]

theorem encodedRates_lengths (ls : List Layer) :
    ((encodedRates ls).map List.length).sum = (encodedRates ls).flatten.length := by
  rw [List.length_flatten]

theorem resBytes_eq (l : Layer) (h : l.ResWF) : resBytes l = resRecord l := by
  unfold Layer.ResWF at h
  unfold resBytes resRecord u16OfInt byteOfInt
  have e1 : (l.width - 1) % 65536 = l.width - 1 := Int.emod_eq_of_lt (by omega) (by omega)
  have e2 : (l.height - 1) % 65536 = l.height - 1 := Int.emod_eq_of_lt (by omega) (by omega)
  have e3 : l.fps % 256 = l.fps := Int.emod_eq_of_lt (by omega) (by omega)
  rw [e1, e2, e3]

theorem resBytes_length (l : Layer) : (resBytes l).length = 5 := by
  simp [resBytes, be16]

theorem flatMap_resBytes_length (ls : List Layer) : (ls.flatMap resBytes).length = ls.length * 5 := by
  induction ls with
  | nil => rfl
  | cons l ls ih => simp only [List.flatMap_cons, List.length_append, resBytes_length, ih, List.length_cons]; omega

theorem tdiv_len (n : Nat) : (((n : Int) - 1).tdiv 4 + 1).toNat = (n - 1) / 4 + 1 := by
  cases n with
  | zero => decide
  | succ m =>
    have : ((m + 1 : Nat) : Int) - 1 = (m : Int) := by omega
    rw [this, Int.tdiv_eq_ediv_of_nonneg (by omega)]
    omega

/-! ### assembly -/

theorem fit_exact (b b' : Bytes) (n : Nat) (hb : b = b') (h : n = b.length) : fit n b = .ok b' := by
  subst h; subst hb; simp [fit]

theorem preprocess_wf (v : VLA) (h : v.WF) : preprocess v.count v.layers [] = none := by
  obtain ⟨_, _, _, _, _, hs, hw, _⟩ := h
  rw [preprocess_none_iff]
  refine ⟨?_, ?_⟩
  · intro l hl
    have := hw l hl
    unfold Layer.WF at this
    refine ⟨?_, by simp⟩
    unfold LayerOk; omega
  · apply List.Pairwise.imp _ hs
    intro a b hab hsame
    unfold Layer.before at hab; unfold SameSlot at hsame
    omega

theorem marshal_eq_encode (v : VLA) (h : v.WF) : marshal v = .ok (encode v) := by
  have hpre := preprocess_wf v h
  obtain ⟨hc1, hc4, hr0, hr1, hne, hs, hw, hres⟩ := h
  have hcount : (decide (v.count ≤ 0) || decide (v.count > 4)) = false := by
    simp only [Bool.or_eq_false_iff, decide_eq_false_iff_not]; omega
  have hrid : (decide (v.rid < 0) || decide (v.rid ≥ v.count)) = false := by
    simp only [Bool.or_eq_false_iff, decide_eq_false_iff_not]; omega
  have hsp : ∀ l ∈ v.layers, 0 ≤ l.spatial ∧ l.spatial < 4 := by
    intro l hl; have := hw l hl; unfold Layer.WF at this; omega
  have htl : ∀ l ∈ v.layers, 1 ≤ l.rates.length ∧ l.rates.length ≤ 4 := by
    intro l hl; have := hw l hl; unfold Layer.WF at this; omega
  have hrt : ∀ l ∈ v.layers, ∀ k ∈ l.rates, 0 ≤ k ∧ k < 2 ^ 63 := by
    intro l hl; have := hw l hl; unfold Layer.WF at this; exact this.2.2.2.2.2.2
  obtain ⟨f1, f2, f3, f4⟩ := front_eq v ⟨hc1, hc4⟩ ⟨hr0, hr1⟩ hsp
  have htab := tableOrder_sorted v.layers v.count hs hw
  have htlb := tlLoop_eq v.layers [] hne htl
  have hrates := encodedRates_flatten v.layers hrt
  have hresb : v.hasRes = true → v.layers.flatMap resBytes = v.layers.flatMap resRecord := by
    intro hh
    rw [List.flatMap_def, List.flatMap_def]
    congr 1
    apply List.map_congr_left
    intro l hl
    exact resBytes_eq l (hres hh l hl)
  have hL : 1 ≤ v.layers.length := by
    cases hv : v.layers with
    | nil => exact absurd hv hne
    | cons a r => simp
  have hmlen : ((List.range v.count.toNat).map (slMB v.layers)).length = v.count.toNat := by simp
  simp only [marshal, hcount, hrid, hpre, Bool.false_eq_true, if_false, htab]
  refine fit_exact _ _ _ ?_ ?_
  · -- the bytes
    simp only [encode, hne, if_false, streamMasks, temporalCounts, bitrates, resolutions, f2, f3, f4,
      htlb, hrates, List.nil_append, decide_eq_true_eq]
    congr 2
    cases hh : v.hasRes with
    | false => simp
    | true => simp [hresb hh]
  · -- no surplus byte, no overrun
    simp only [requiredLen, encodedRates_lengths, tdiv_len, List.length_cons, List.length_append,
      htlb, List.nil_append, pack2_length, List.length_map]
    have e1 : ((commonSLBM ((List.range v.count.toNat).map (slMB v.layers)) != 0)) =
        !(commonSLBM ((List.range v.count.toNat).map (slMB v.layers)) == 0) := rfl
    rw [e1]
    have hr5 : (List.map (fun a => (resBytes a).length) v.layers).sum = v.layers.length * 5 := by
      rw [← List.length_flatMap]; exact flatMap_resBytes_length _
    cases hcm : (commonSLBM ((List.range v.count.toNat).map (slMB v.layers)) == 0) with
    | true =>
      cases hh : v.hasRes with
      | false => simp [maskBytes_length]; omega
      | true => simp [maskBytes_length]; omega
    | false =>
      cases hh : v.hasRes with
      | false => simp; omega
      | true => simp; omega

/-! ## Unmarshal ∘ encode = id on valid allocations

### header byte and bitmasks -/

theorem hdr_unpack : ∀ (r c : Fin 4) (m : Fin 16),
    (((64 * r.val + 16 * c.val + m.val).toUInt8 >>> 6) &&& 3).toNat = r.val ∧
    (((64 * r.val + 16 * c.val + m.val).toUInt8 >>> 4) &&& 3).toNat = c.val ∧
    (64 * r.val + 16 * c.val + m.val).toUInt8 &&& 15 = m.val.toUInt8 := by decide

theorem nib_unpack : ∀ a b : Fin 16,
    ((16 * a.val + b.val).toUInt8 >>> 4) &&& 15 = a.val.toUInt8 ∧
    (16 * a.val + b.val).toUInt8 &&& 15 = b.val.toUInt8 := by decide

theorem nib_unpack1 : ∀ a : Fin 16, ((16 * a.val).toUInt8 >>> 4) &&& 15 = a.val.toUInt8 := by decide

/-- bit k of a bitmask -/
theorem bmOf_bit : ∀ (b0 b1 b2 b3 : Bool) (k : Fin 4),
    (((bmOf b0 b1 b2 b3).toUInt8 &&& ((1 : UInt8) <<< k.val.toUInt8)) == 0) =
      !(if k.val = 0 then b0 else if k.val = 1 then b1 else if k.val = 2 then b2 else b3) := by decide

theorem header_unpack (v : VLA) (hc : 1 ≤ v.count ∧ v.count ≤ 4) (hr : 0 ≤ v.rid ∧ v.rid < v.count) :
    ((header v >>> 6) &&& 3).toNat = v.rid.toNat ∧
    ((header v >>> 4) &&& 3).toNat + 1 = ns v ∧
    header v &&& 15 = (slBm v).toUInt8 := by
  have := hdr_unpack ⟨v.rid.toNat, by omega⟩ ⟨ns v - 1, by unfold ns; omega⟩ ⟨slBm v, slBm_lt v⟩
  simp only at this
  unfold header
  refine ⟨this.1, ?_, this.2.2⟩
  rw [this.2.1]; unfold ns; omega

/-- reading the slX_bm block written by `packNibbles` -/
theorem readMask_packed (f : Nat → Nat) (hf : ∀ s, f s < 16) (n : Nat) (hn : 1 ≤ n ∧ n ≤ 4)
    (b0 : UInt8) (rest : Bytes) :
    (List.range n).map (readMask (b0 :: (packNibbles ((List.range n).map f) ++ rest))) =
      (List.range n).map (fun s => (f s).toUInt8) := by
  have p2 : ∀ a b, ((16 * f a + f b).toUInt8 >>> 4) &&& 15 = (f a).toUInt8 ∧
      (16 * f a + f b).toUInt8 &&& 15 = (f b).toUInt8 := fun a b => nib_unpack ⟨f a, hf a⟩ ⟨f b, hf b⟩
  have p1 : ∀ a, ((16 * f a).toUInt8 >>> 4) &&& 15 = (f a).toUInt8 := fun a => nib_unpack1 ⟨f a, hf a⟩
  have hn' : n = 1 ∨ n = 2 ∨ n = 3 ∨ n = 4 := by omega
  have g0 : ∀ (x : UInt8) (l : Bytes), (x :: l).getD 0 0 = x := fun _ _ => rfl
  have g1 : ∀ (x y : UInt8) (l : Bytes), (x :: y :: l).getD 1 0 = y := fun _ _ _ => rfl
  have g2 : ∀ (x y z : UInt8) (l : Bytes), (x :: y :: z :: l).getD 2 0 = z := fun _ _ _ _ => rfl
  rcases hn' with rfl | rfl | rfl | rfl
  · simp only [range_1, List.map_cons, List.map_nil, packNibbles, readMask, at', List.cons_append,
      List.nil_append, g1]
    simp only [Nat.reduceMod, Nat.reduceDiv, Nat.reduceAdd, beq_self_eq_true, if_true, g1, p1]
  · simp only [range_2, List.map_cons, List.map_nil, packNibbles, readMask, at', List.cons_append,
      List.nil_append]
    simp only [Nat.reduceMod, Nat.reduceDiv, Nat.reduceAdd, Nat.reduceBEq, beq_self_eq_true, if_true,
      Bool.false_eq_true, if_false, g1, (p2 0 1).1, (p2 0 1).2]
  · simp only [range_3, List.map_cons, List.map_nil, packNibbles, readMask, at', List.cons_append,
      List.nil_append]
    simp only [Nat.reduceMod, Nat.reduceDiv, Nat.reduceAdd, Nat.reduceBEq, beq_self_eq_true, if_true,
      Bool.false_eq_true, if_false, g1, g2, (p2 0 1).1, (p2 0 1).2, p1]
  · simp only [range_4, List.map_cons, List.map_nil, packNibbles, readMask, at', List.cons_append,
      List.nil_append]
    simp only [Nat.reduceMod, Nat.reduceDiv, Nat.reduceAdd, Nat.reduceBEq, beq_self_eq_true, if_true,
      Bool.false_eq_true, if_false, g1, g2, (p2 0 1).1, (p2 0 1).2, (p2 2 3).1, (p2 2 3).2]

theorem packNibbles_length : ∀ l : List Nat, (packNibbles l).length = (l.length + 1) / 2
  | [] => rfl
  | [_] => by simp [packNibbles]
  | _ :: _ :: r => by
    have := packNibbles_length r
    simp only [packNibbles, List.length_cons, this]; omega

/-! ### the decoder's slot enumeration -/

/-- the (stream, spatial id) pair the decoder produces for a layer -/
def key2 (l : Layer) : Nat × Nat := (l.stream.toNat, l.spatial.toNat)

theorem flatMap_congr' {α β : Type} {f g : α → List β} :
    ∀ {l : List α}, (∀ x ∈ l, f x = g x) → l.flatMap f = l.flatMap g := by
  intro l
  induction l with
  | nil => intro _; rfl
  | cons a l ih =>
    intro h
    simp only [List.flatMap_cons, h a (by simp)]
    rw [ih (fun x hx => h x (by simp [hx]))]

theorem slot_map_key2 (v : VLA) (s k : Nat) :
    (slot v.layers s k).map key2 = if active v s k then some (s, k) else none := by
  unfold slot active
  cases hf : v.layers.find? (fun l => l.stream == (s : Int) && l.spatial == (k : Int)) with
  | none =>
    have := List.find?_eq_none.mp hf
    have hany : v.layers.any (fun l => l.stream == (s : Int) && l.spatial == (k : Int)) = false := by
      rw [Bool.eq_false_iff]
      intro h
      obtain ⟨x, hx, hp⟩ := List.any_eq_true.mp h
      exact this x hx hp
    simp [hany]
  | some x =>
    have hp := List.find?_some hf
    have hm := List.mem_of_find?_eq_some hf
    have hany : v.layers.any (fun l => l.stream == (s : Int) && l.spatial == (k : Int)) = true :=
      List.any_eq_true.mpr ⟨x, hm, hp⟩
    simp only [Bool.and_eq_true, beq_iff_eq] at hp
    simp only [hany, if_true, Option.map_some, key2, hp.1, hp.2, Int.toNat_natCast]

theorem bm_bit (v : VLA) (s k : Nat) (hk : k < 4) :
    (((bm v s).toUInt8 &&& ((1 : UInt8) <<< k.toUInt8)) == 0) = !active v s k := by
  have := bmOf_bit (active v s 0) (active v s 1) (active v s 2) (active v s 3) ⟨k, hk⟩
  have hk' : k = 0 ∨ k = 1 ∨ k = 2 ∨ k = 3 := by omega
  rcases hk' with rfl | rfl | rfl | rfl <;> simpa [bm, bmOf] using this

theorem activeSlots_eq (v : VLA) (hs : v.layers.Pairwise Layer.before)
    (hw : ∀ l ∈ v.layers, l.WF v.count) :
    activeSlots (ns v) ((List.range (ns v)).map (fun s => (bm v s).toUInt8)) = v.layers.map key2 := by
  have h1 : activeSlots (ns v) ((List.range (ns v)).map (fun s => (bm v s).toUInt8)) =
      (tableOrder (ns v) v.layers).map key2 := by
    unfold activeSlots tableOrder
    rw [List.map_flatMap]
    apply flatMap_congr'
    intro s hs'
    have hs'' : s < ns v := List.mem_range.mp hs'
    rw [List.map_filterMap]
    apply filterMap_congr'
    intro k hk
    have hk' : k < 4 := List.mem_range.mp hk
    have hg : ((List.range (ns v)).map (fun s => (bm v s).toUInt8)).getD s 0 = (bm v s).toUInt8 := by
      rw [List.getD_eq_getElem?_getD, List.getElem?_map, List.getElem?_range hs'']; rfl
    rw [hg, bm_bit v s k hk', slot_map_key2]
    cases active v s k <;> simp
  rw [h1]
  unfold ns
  rw [tableOrder_sorted v.layers v.count hs hw]

/-! ### reading the #tl bytes -/

/-- what the #tl loop appends for a layer: ids and `make([]int, tlCount)` -/
def blank (l : Layer) : Layer :=
  { stream := ((l.stream.toNat : Nat) : Int), spatial := ((l.spatial.toNat : Nat) : Int),
    rates := List.replicate l.rates.length 0, width := 0, height := 0, fps := 0 }

theorem at'_append (pre : Bytes) (b : UInt8) (post : Bytes) : at' (pre ++ b :: post) pre.length = b := by
  simp [at', List.getD_eq_getElem?_getD]

theorem rdTl_step (bs : Bytes) (s k : Nat) (rest : List (Nat × Nat)) (idx off : Nat) (acc : List Layer)
    (hi : idx < 4) (ho : off < bs.length) :
    rdTl bs ((s, k) :: rest) idx off acc =
      rdTl bs rest (idx + 1) off (acc ++ [
        { stream := s, spatial := k,
          rates := List.replicate (((at' bs off >>> (2 * (3 - idx) : Nat).toUInt8) &&& 3).toNat + 1) 0,
          width := 0, height := 0, fps := 0 }]) := by
  have h1 : ¬ idx ≥ 4 := by omega
  have h2 : ¬ off ≥ bs.length := by omega
  simp [rdTl, h1, h2]

theorem rdTl_wrap (bs : Bytes) (s k : Nat) (rest : List (Nat × Nat)) (off : Nat) (acc : List Layer)
    (ho : off + 1 + 1 ≤ bs.length) :
    rdTl bs ((s, k) :: rest) 4 off acc = rdTl bs ((s, k) :: rest) 0 (off + 1) acc := by
  have h2 : ¬ off + 1 ≥ bs.length := by omega
  have h3 : ¬ bs.length ≤ off + 1 := by omega
  simp [rdTl, ho, h2, h3]

theorem tl_unpack1 : ∀ a : Fin 4,
    ((((64 * a.val).toUInt8 >>> (2 * (3 - 0) : Nat).toUInt8) &&& 3).toNat + 1) = a.val + 1 := by decide
theorem tl_unpack2 : ∀ a b : Fin 4,
    ((((64 * a.val + 16 * b.val).toUInt8 >>> (2 * (3 - 0) : Nat).toUInt8) &&& 3).toNat + 1) = a.val + 1 ∧
    ((((64 * a.val + 16 * b.val).toUInt8 >>> (2 * (3 - (0 + 1)) : Nat).toUInt8) &&& 3).toNat + 1) = b.val + 1 := by
  decide
theorem tl_unpack3 : ∀ a b c : Fin 4,
    ((((64 * a.val + 16 * b.val + 4 * c.val).toUInt8 >>> (2 * (3 - 0) : Nat).toUInt8) &&& 3).toNat + 1) = a.val + 1 ∧
    ((((64 * a.val + 16 * b.val + 4 * c.val).toUInt8 >>> (2 * (3 - (0 + 1)) : Nat).toUInt8) &&& 3).toNat + 1) = b.val + 1 ∧
    ((((64 * a.val + 16 * b.val + 4 * c.val).toUInt8 >>> (2 * (3 - (0 + 1 + 1)) : Nat).toUInt8) &&& 3).toNat + 1) = c.val + 1 := by
  decide
theorem tl_unpack4 : ∀ a b c d : Fin 4,
    ((((64 * a.val + 16 * b.val + 4 * c.val + d.val).toUInt8 >>> (2 * (3 - 0) : Nat).toUInt8) &&& 3).toNat + 1) = a.val + 1 ∧
    ((((64 * a.val + 16 * b.val + 4 * c.val + d.val).toUInt8 >>> (2 * (3 - (0 + 1)) : Nat).toUInt8) &&& 3).toNat + 1) = b.val + 1 ∧
    ((((64 * a.val + 16 * b.val + 4 * c.val + d.val).toUInt8 >>> (2 * (3 - (0 + 1 + 1)) : Nat).toUInt8) &&& 3).toNat + 1) = c.val + 1 ∧
    ((((64 * a.val + 16 * b.val + 4 * c.val + d.val).toUInt8 >>> (2 * (3 - (0 + 1 + 1 + 1)) : Nat).toUInt8) &&& 3).toNat + 1) = d.val + 1 := by
  decide

theorem pack2_ne_nil : ∀ l : List Nat, l ≠ [] → pack2 l ≠ []
  | [], h => absurd rfl h
  | [_], _ => by simp [pack2]
  | [_, _], _ => by simp [pack2]
  | [_, _, _], _ => by simp [pack2]
  | _ :: _ :: _ :: _ :: _, _ => by simp [pack2]

theorem rdTl_eq : ∀ (L : List Layer) (pre post : Bytes) (acc : List Layer), L ≠ [] →
    (∀ l ∈ L, 1 ≤ l.rates.length ∧ l.rates.length ≤ 4) →
    rdTl (pre ++ pack2 (L.map (fun l => l.rates.length - 1)) ++ post) (L.map key2) 0 pre.length acc =
      .ok (pre.length + (pack2 (L.map (fun l => l.rates.length - 1))).length - 1) (acc ++ L.map blank)
  | [], _, _, _, h, _ => absurd rfl h
  | [a], pre, post, acc, _, hw => by
    have ha := hw a (by simp)
    have hp := tl_unpack1 (tlOf a ha)
    simp only [tlOf] at hp
    have ea : a.rates.length - 1 + 1 = a.rates.length := by omega
    simp only [List.map_cons, List.map_nil, pack2, key2, List.append_assoc, List.cons_append, List.nil_append]
    rw [rdTl_step _ _ _ _ _ _ _ (by omega) (by simp), at'_append, hp, ea]
    simp [rdTl, blank]
  | [a, b], pre, post, acc, _, hw => by
    have ha := hw a (by simp); have hb := hw b (by simp)
    have hp := tl_unpack2 (tlOf a ha) (tlOf b hb)
    simp only [tlOf] at hp
    have ea : a.rates.length - 1 + 1 = a.rates.length := by omega
    have eb : b.rates.length - 1 + 1 = b.rates.length := by omega
    simp only [List.map_cons, List.map_nil, pack2, key2, List.append_assoc, List.cons_append, List.nil_append]
    rw [rdTl_step _ _ _ _ _ _ _ (by omega) (by simp), rdTl_step _ _ _ _ _ _ _ (by omega) (by simp),
      at'_append, hp.1, hp.2, ea, eb]
    simp [rdTl, blank]
  | [a, b, c], pre, post, acc, _, hw => by
    have ha := hw a (by simp); have hb := hw b (by simp); have hc := hw c (by simp)
    have hp := tl_unpack3 (tlOf a ha) (tlOf b hb) (tlOf c hc)
    simp only [tlOf] at hp
    have ea : a.rates.length - 1 + 1 = a.rates.length := by omega
    have eb : b.rates.length - 1 + 1 = b.rates.length := by omega
    have ec : c.rates.length - 1 + 1 = c.rates.length := by omega
    simp only [List.map_cons, List.map_nil, pack2, key2, List.append_assoc, List.cons_append, List.nil_append]
    rw [rdTl_step _ _ _ _ _ _ _ (by omega) (by simp), rdTl_step _ _ _ _ _ _ _ (by omega) (by simp),
      rdTl_step _ _ _ _ _ _ _ (by omega) (by simp), at'_append, hp.1, hp.2.1, hp.2.2, ea, eb, ec]
    simp [rdTl, blank]
  | a :: b :: c :: d :: r, pre, post, acc, _, hw => by
    have ha := hw a (by simp); have hb := hw b (by simp); have hc := hw c (by simp)
    have hd := hw d (by simp)
    have hp := tl_unpack4 (tlOf a ha) (tlOf b hb) (tlOf c hc) (tlOf d hd)
    simp only [tlOf] at hp
    have ea : a.rates.length - 1 + 1 = a.rates.length := by omega
    have eb : b.rates.length - 1 + 1 = b.rates.length := by omega
    have ec : c.rates.length - 1 + 1 = c.rates.length := by omega
    have ed : d.rates.length - 1 + 1 = d.rates.length := by omega
    simp only [List.map_cons, pack2, key2, List.append_assoc, List.cons_append]
    rw [rdTl_step _ _ _ _ _ _ _ (by omega) (by simp), rdTl_step _ _ _ _ _ _ _ (by omega) (by simp),
      rdTl_step _ _ _ _ _ _ _ (by omega) (by simp), rdTl_step _ _ _ _ _ _ _ (by omega) (by simp),
      at'_append, hp.1, hp.2.1, hp.2.2.1, hp.2.2.2, ea, eb, ec, ed]
    cases r with
    | nil => simp [rdTl, blank, pack2]
    | cons l r' =>
      have hne : pack2 ((l :: r').map (fun l => l.rates.length - 1)) ≠ [] := pack2_ne_nil _ (by simp)
      have hlen : 1 ≤ (pack2 ((l :: r').map (fun l => l.rates.length - 1))).length :=
        List.length_pos_iff.mpr hne
      have ih := rdTl_eq (l :: r') (pre ++ [(64 * (a.rates.length - 1) + 16 * (b.rates.length - 1) +
        4 * (c.rates.length - 1) + (d.rates.length - 1)).toUInt8]) post
        (acc ++ [blank a] ++ [blank b] ++ [blank c] ++ [blank d]) (by simp)
        (fun x hx => hw x (by simp only [List.mem_cons] at hx ⊢; right; right; right; right; exact hx))
      simp only [List.map_cons, key2, blank, List.append_assoc, List.cons_append, List.nil_append,
        List.length_append, List.length_cons, List.length_nil] at ih hlen ⊢
      rw [rdTl_wrap _ _ _ _ _ _ (by simp only [List.length_append, List.length_cons]; omega)]
      rw [ih]
      congr 1
      omega

/-! ### reading the bitrates -/

theorem intOfU64_toUInt64 (k : Int) (h : 0 ≤ k ∧ k < 2 ^ 63) : intOfU64 k.toNat.toUInt64 = k := by
  unfold intOfU64
  have e : k.toNat.toUInt64.toNat = k.toNat := by
    simp only [Nat.toUInt64, UInt64.toNat_ofNat']
    omega
  rw [e]
  have : k.toNat < 9223372036854775808 := by omega
  simp only [this, if_true]
  omega

/-- a decoded layer before the resolution block is read -/
def filled (l : Layer) : Layer := { blank l with rates := l.rates }

theorem rdRates_eq (hleb : LebGoSpec) : ∀ (ks todo : List Int) (pre post : Bytes),
    todo.length = ks.length → (∀ k ∈ ks, 0 ≤ k ∧ k < 2 ^ 56) →
    rdRates (pre ++ ks.flatMap (fun k => writeLeb k.toNat) ++ post) todo pre.length =
      .ok (pre.length + (ks.flatMap (fun k => writeLeb k.toNat)).length) ks := by
  intro ks
  induction ks with
  | nil =>
    intro todo pre post hl _
    have : todo = [] := List.length_eq_zero_iff.mp hl
    subst this
    simp [rdRates]
  | cons k ks ih =>
    intro todo pre post hl hk
    cases todo with
    | nil => simp at hl
    | cons t todo =>
      have hk0 := hk k (by simp)
      have hkn : k.toNat < 2 ^ 56 := by omega
      have hdrop : List.drop pre.length (pre ++ (k :: ks).flatMap (fun k => writeLeb k.toNat) ++ post) =
          writeLeb k.toNat ++ (ks.flatMap (fun k => writeLeb k.toNat) ++ post) := by
        rw [List.append_assoc, List.drop_left, List.flatMap_cons, List.append_assoc]
      have hread := hleb k.toNat (ks.flatMap (fun k => writeLeb k.toNat) ++ post) hkn
      have ih' := ih todo (pre ++ writeLeb k.toNat) post (by simpa using hl)
        (fun x hx => hk x (by simp [hx]))
      have hbs : pre ++ (k :: ks).flatMap (fun k => writeLeb k.toNat) ++ post =
          pre ++ writeLeb k.toNat ++ ks.flatMap (fun k => writeLeb k.toNat) ++ post := by
        simp [List.flatMap_cons, List.append_assoc]
      unfold rdRates
      have h1 : ¬ (pre.length > (pre ++ (k :: ks).flatMap (fun k => writeLeb k.toNat) ++ post).length) := by
        simp only [List.length_append]; omega
      simp only [h1, if_false, hdrop, hread]
      have h2 : pre.length + (writeLeb k.toNat).length ≤
          (pre ++ (k :: ks).flatMap (fun k => writeLeb k.toNat) ++ post).length := by
        simp only [List.length_append, List.flatMap_cons]; omega
      simp only [h2, not_true_eq_false, if_false]
      rw [hbs]
      have hl2 : (pre ++ writeLeb k.toNat).length = pre.length + (writeLeb k.toNat).length := by simp
      rw [hl2] at ih'
      rw [ih', intOfU64_toUInt64 k (by omega)]
      simp only [List.flatMap_cons, List.length_append]
      congr 1
      omega

theorem rdLayerRates_eq (hleb : LebGoSpec) : ∀ (L : List Layer) (pre post : Bytes),
    (∀ l ∈ L, ∀ k ∈ l.rates, 0 ≤ k ∧ k < 2 ^ 56) →
    rdLayerRates (pre ++ L.flatMap (fun l => l.rates.flatMap (fun k => writeLeb k.toNat)) ++ post)
        (L.map blank) pre.length =
      .ok (pre.length + (L.flatMap (fun l => l.rates.flatMap (fun k => writeLeb k.toNat))).length)
        (L.map filled) := by
  intro L
  induction L with
  | nil => intro pre post _; simp [rdLayerRates]
  | cons l L ih =>
    intro pre post hk
    have hbs : pre ++ (l :: L).flatMap (fun l => l.rates.flatMap (fun k => writeLeb k.toNat)) ++ post =
        pre ++ l.rates.flatMap (fun k => writeLeb k.toNat) ++
          (L.flatMap (fun l => l.rates.flatMap (fun k => writeLeb k.toNat)) ++ post) := by
      simp [List.flatMap_cons, List.append_assoc]
    have h1 := rdRates_eq hleb l.rates (List.replicate l.rates.length 0) pre
      (L.flatMap (fun l => l.rates.flatMap (fun k => writeLeb k.toNat)) ++ post) (by simp)
      (hk l (by simp))
    have ih' := ih (pre ++ l.rates.flatMap (fun k => writeLeb k.toNat)) post
      (fun x hx => hk x (by simp [hx]))
    have hl2 : (pre ++ l.rates.flatMap (fun k => writeLeb k.toNat)).length =
        pre.length + (l.rates.flatMap (fun k => writeLeb k.toNat)).length := by simp
    rw [hl2] at ih'
    simp only [List.map_cons]
    unfold rdLayerRates
    rw [hbs]
    simp only [blank] at h1 ⊢
    rw [h1]
    simp only
    rw [← List.append_assoc, ih']
    simp only [filled, blank, List.flatMap_cons, List.length_append]
    congr 1
    omega

/-! ### reading the resolution records -/

theorem rd16_be16 (x : UInt16) : rd16 (x >>> 8).toUInt8 x.toUInt8 = x := by
  apply UInt16.toNat_inj.mp
  simp only [rd16, UInt16.toNat_or, UInt16.toNat_shiftLeft, UInt8.toNat_toUInt16, UInt16.toNat_toUInt8,
    UInt16.toNat_shiftRight]
  have hn := x.toNat_lt
  generalize x.toNat = n at hn ⊢
  have e8 : UInt16.toNat 8 % 16 = 8 := by decide
  rw [e8]
  have h1 : n >>> 8 % 2 ^ 8 = n / 256 := by rw [Nat.shiftRight_eq_div_pow]; omega
  rw [h1]
  have h2 : (n / 256) <<< 8 % 2 ^ 16 = (n / 256) <<< 8 := by
    rw [Nat.shiftLeft_eq]; apply Nat.mod_eq_of_lt; omega
  rw [h2, Bits.nat_shl_or _ _ 8 (by omega)]
  omega

theorem dim_roundtrip (w : Int) (h : 1 ≤ w ∧ w ≤ 65536) :
    (((w - 1).toNat.toUInt16).toNat : Int) + 1 = w := by
  have : ((w - 1).toNat.toUInt16).toNat = (w - 1).toNat := by
    simp only [Nat.toUInt16, UInt16.toNat_ofNat']; omega
  rw [this]; omega

theorem fps_roundtrip (f : Int) (h : 0 ≤ f ∧ f ≤ 255) : ((f.toNat.toUInt8).toNat : Int) = f := by
  have : (f.toNat.toUInt8).toNat = f.toNat := by
    simp only [Nat.toUInt8, UInt8.toNat_ofNat']; omega
  rw [this]; omega

theorem at'_append5 (pre : Bytes) (a b c d e : UInt8) (post : Bytes) :
    at' (pre ++ a :: b :: c :: d :: e :: post) pre.length = a ∧
    at' (pre ++ a :: b :: c :: d :: e :: post) (pre.length + 1) = b ∧
    at' (pre ++ a :: b :: c :: d :: e :: post) (pre.length + 2) = c ∧
    at' (pre ++ a :: b :: c :: d :: e :: post) (pre.length + 3) = d ∧
    at' (pre ++ a :: b :: c :: d :: e :: post) (pre.length + 4) = e := by
  simp [at', List.getD_eq_getElem?_getD, List.getElem?_append_right]

/-- the resolution fields are restored on top of `filled` -/
theorem rdRes_eq : ∀ (L : List Layer) (pre post : Bytes), (∀ l ∈ L, l.ResWF) →
    rdRes (pre ++ L.flatMap resRecord ++ post) (L.map filled) pre.length =
      some (pre.length + (L.flatMap resRecord).length,
        L.map (fun l => { filled l with width := l.width, height := l.height, fps := l.fps })) := by
  intro L
  induction L with
  | nil => intro pre post _; simp [rdRes]
  | cons l L ih =>
    intro pre post hw
    have hl := hw l (by simp)
    have ih' := ih (pre ++ resRecord l) post (fun x hx => hw x (by simp [hx]))
    have hlen : (resRecord l).length = 5 := by simp [resRecord, be16]
    have hl2 : (pre ++ resRecord l).length = pre.length + 5 := by simp [hlen]
    rw [hl2] at ih'
    have hbs : pre ++ (l :: L).flatMap resRecord ++ post =
        pre ++ resRecord l ++ L.flatMap resRecord ++ post := by
      simp [List.flatMap_cons, List.append_assoc]
    simp only [List.map_cons]
    unfold rdRes
    have h1 : ¬ (pre.length + 4 ≥ (pre ++ (l :: L).flatMap resRecord ++ post).length) := by
      simp only [List.length_append, List.flatMap_cons, hlen]; omega
    simp only [h1, if_false]
    rw [hbs, ih']
    simp only
    have hb : pre ++ resRecord l ++ L.flatMap resRecord ++ post =
        pre ++ ((l.width - 1).toNat.toUInt16 >>> 8).toUInt8 :: (l.width - 1).toNat.toUInt16.toUInt8 ::
          ((l.height - 1).toNat.toUInt16 >>> 8).toUInt8 :: (l.height - 1).toNat.toUInt16.toUInt8 ::
          l.fps.toNat.toUInt8 :: (L.flatMap resRecord ++ post) := by
      simp [resRecord, be16, List.append_assoc]
    rw [hb]
    obtain ⟨a0, a1, a2, a3, a4⟩ := at'_append5 pre ((l.width - 1).toNat.toUInt16 >>> 8).toUInt8
      (l.width - 1).toNat.toUInt16.toUInt8 ((l.height - 1).toNat.toUInt16 >>> 8).toUInt8
      (l.height - 1).toNat.toUInt16.toUInt8 l.fps.toNat.toUInt8 (L.flatMap resRecord ++ post)
    unfold Layer.ResWF at hl
    rw [a0, a1, a2, a3, a4, rd16_be16, rd16_be16, dim_roundtrip _ (by omega), dim_roundtrip _ (by omega),
      fps_roundtrip _ (by omega)]
    simp only [List.flatMap_cons, List.length_append, hlen]
    congr 2
    omega

/-! ### assembly -/

theorem resRecord_length (l : Layer) : (resRecord l).length = 5 := by simp [resRecord, be16]

theorem flatMap_resRecord_length (ls : List Layer) : (ls.flatMap resRecord).length = ls.length * 5 := by
  induction ls with
  | nil => rfl
  | cons l ls ih =>
    simp only [List.flatMap_cons, List.length_append, resRecord_length, ih, List.length_cons]; omega

theorem filled_eq_clearRes (l : Layer) (h : 0 ≤ l.stream ∧ 0 ≤ l.spatial) : filled l = l.clearRes := by
  have e1 : ((l.stream.toNat : Nat) : Int) = l.stream := by omega
  have e2 : ((l.spatial.toNat : Nat) : Int) = l.spatial := by omega
  simp [filled, blank, Layer.clearRes, e1, e2]

theorem filled_with_res (l : Layer) (h : 0 ≤ l.stream ∧ 0 ≤ l.spatial) :
    { filled l with width := l.width, height := l.height, fps := l.fps } = l := by
  have e1 : ((l.stream.toNat : Nat) : Int) = l.stream := by omega
  have e2 : ((l.spatial.toNat : Nat) : Int) = l.spatial := by omega
  simp [filled, blank, e1, e2]

/-- the part of Unmarshal after the bitmasks, on the bytes the specification prescribes -/
theorem unmarshalTail_encode (hleb : LebGoSpec) (v : VLA) (h : v.WF)
    (hsmall : ∀ l ∈ v.layers, ∀ k ∈ l.rates, k < 2 ^ 56) (pre : Bytes) :
    unmarshalTail (pre ++ temporalCounts v ++ bitrates v ++ resolutions v) v.rid.toNat (ns v)
        ((List.range (ns v)).map (fun s => (bm v s).toUInt8)) pre.length =
      .ok (pre ++ temporalCounts v ++ bitrates v ++ resolutions v).length v.norm := by
  obtain ⟨hc1, hc4, hr0, hr1, hne, hs, hw, hres⟩ := h
  have htl : ∀ l ∈ v.layers, 1 ≤ l.rates.length ∧ l.rates.length ≤ 4 := by
    intro l hl; have := hw l hl; unfold Layer.WF at this; omega
  have hnn : ∀ l ∈ v.layers, 0 ≤ l.stream ∧ 0 ≤ l.spatial := by
    intro l hl; have := hw l hl; unfold Layer.WF at this; omega
  have hrt : ∀ l ∈ v.layers, ∀ k ∈ l.rates, 0 ≤ k ∧ k < 2 ^ 56 := by
    intro l hl k hk
    have := hw l hl; unfold Layer.WF at this
    exact ⟨(this.2.2.2.2.2.2 k hk).1, hsmall l hl k hk⟩
  have hTCne : temporalCounts v ≠ [] := pack2_ne_nil _ (by simpa using hne)
  have hTC : 1 ≤ (temporalCounts v).length := List.length_pos_iff.mpr hTCne
  have e1 : ((v.rid.toNat : Nat) : Int) = v.rid := by omega
  have e2 : ((ns v : Nat) : Int) = v.count := by unfold ns; omega
  -- stage results
  have s1 := activeSlots_eq v hs hw
  have s2 := rdTl_eq v.layers pre (bitrates v ++ resolutions v) [] hne htl
  have s3 := rdLayerRates_eq hleb v.layers (pre ++ temporalCounts v) (resolutions v) hrt
  have hbs2 : pre ++ temporalCounts v ++ bitrates v ++ resolutions v =
      pre ++ pack2 (v.layers.map (fun l => l.rates.length - 1)) ++ (bitrates v ++ resolutions v) := by
    simp [temporalCounts, List.append_assoc]
  unfold unmarshalTail
  have hlen1 : pre.length + 1 ≤ (pre ++ temporalCounts v ++ bitrates v ++ resolutions v).length := by
    simp only [List.length_append]; omega
  simp only [hlen1, not_true_eq_false, if_false, s1]
  rw [hbs2, s2]
  simp only [List.nil_append]
  have hoff : pre.length + (pack2 (v.layers.map (fun l => l.rates.length - 1))).length - 1 + 1 =
      (pre ++ temporalCounts v).length := by
    simp only [List.length_append, temporalCounts] at hTC ⊢; omega
  rw [hoff, ← hbs2]
  unfold bitrates at s3 ⊢
  rw [s3]
  simp only
  cases hh : v.hasRes with
  | false =>
    have hRS : resolutions v = [] := by simp [resolutions, hh]
    have hnorm : v.norm = { v with layers := v.layers.map Layer.clearRes } := by simp [VLA.norm, hh]
    have hfl : v.layers.map filled = v.layers.map Layer.clearRes :=
      List.map_congr_left (fun l hl => filled_eq_clearRes l (hnn l hl))
    simp only [hRS, List.append_nil, List.length_append, beq_self_eq_true, if_true, hnorm, hfl, e1, e2, hh]
  | true =>
    have hRS : resolutions v = v.layers.flatMap resRecord := by simp [resolutions, hh]
    have hnorm : v.norm = v := by simp [VLA.norm, hh]
    have hL : 1 ≤ v.layers.length := by
      cases hv : v.layers with
      | nil => exact absurd hv hne
      | cons a r => simp
    have s4 := rdRes_eq v.layers (pre ++ temporalCounts v ++
      v.layers.flatMap (fun l => l.rates.flatMap (fun k => writeLeb k.toNat))) [] (hres hh)
    have hfl : v.layers.map (fun l => { filled l with width := l.width, height := l.height, fps := l.fps }) =
        v.layers := by
      conv => rhs; rw [← List.map_id v.layers]
      exact List.map_congr_left (fun l hl => filled_with_res l (hnn l hl))
    rw [hfl] at s4
    simp only [List.append_nil, List.length_append] at s4
    have hRl := flatMap_resRecord_length v.layers
    have hne2 : ((pre ++ temporalCounts v ++
        v.layers.flatMap (fun l => l.rates.flatMap (fun k => writeLeb k.toNat)) ++ resolutions v).length ==
        (pre ++ temporalCounts v).length +
          (v.layers.flatMap (fun l => l.rates.flatMap (fun k => writeLeb k.toNat))).length) = false := by
      simp only [hRS, List.length_append, beq_eq_false_iff_ne]; omega
    have hfit : (pre ++ temporalCounts v).length +
        (v.layers.flatMap (fun l => l.rates.flatMap (fun k => writeLeb k.toNat))).length +
        (v.layers.map filled).length * 5 ≤ (pre ++ temporalCounts v ++
        v.layers.flatMap (fun l => l.rates.flatMap (fun k => writeLeb k.toNat)) ++ resolutions v).length := by
      simp only [hRS, List.length_append, List.length_map]; omega
    simp only [hne2, Bool.false_eq_true, if_false, hfit, not_true_eq_false]
    rw [hRS]
    simp only [List.length_append] at s4 ⊢
    rw [s4]
    simp only [hnorm, e1, e2]
    obtain ⟨vr, vc, vl, vh⟩ := v
    simp only at hh
    subst hh
    rfl

theorem slBm_ne_zero_all (v : VLA) (h : slBm v ≠ 0) : ∀ s, s < ns v → bm v s = slBm v := by
  unfold slBm at h ⊢
  split at h
  · rename_i hall
    intro s hs
    simp only [hall, if_true]
    have := List.all_eq_true.mp hall s (List.mem_range.mpr hs)
    simpa using this
  · exact absurd rfl h

theorem replicate_eq_map_range {α : Type} (n : Nat) (x : α) (f : Nat → α) (h : ∀ s, s < n → f s = x) :
    List.replicate n x = (List.range n).map f := by
  apply List.ext_getElem
  · simp
  · intro i h1 h2
    simp only [List.length_replicate] at h1
    simp [h i h1]

/-- Unmarshal of the bytes the specification prescribes for a valid allocation (all bitrates
    below 2^56) consumes all of them and returns the allocation, whatever the receiver held. -/
theorem unmarshal_encode (hleb : LebGoSpec) (v : VLA) (h : v.WF)
    (hsmall : ∀ l ∈ v.layers, ∀ k ∈ l.rates, k < 2 ^ 56) (r : VLA) :
    unmarshal r (encode v) = .ok (encode v).length v.norm := by
  have htail := unmarshalTail_encode hleb v h hsmall
  obtain ⟨hc1, hc4, hr0, hr1, hne, hs, hw, hres⟩ := h
  obtain ⟨u1, u2, u3⟩ := header_unpack v ⟨hc1, hc4⟩ ⟨hr0, hr1⟩
  have hn : 1 ≤ ns v ∧ ns v ≤ 4 := by unfold ns; omega
  have henc : encode v = header v :: (streamMasks v ++ temporalCounts v ++ bitrates v ++ resolutions v) := by
    simp [encode, hne]
  rw [henc]
  unfold unmarshal
  have h0 : 0 + 1 ≤ (header v :: (streamMasks v ++ temporalCounts v ++ bitrates v ++ resolutions v)).length := by
    simp
  have h0' : ¬ (0 ≥ (header v :: (streamMasks v ++ temporalCounts v ++ bitrates v ++ resolutions v)).length) := by
    simp
  have ha : at' (header v :: (streamMasks v ++ temporalCounts v ++ bitrates v ++ resolutions v)) 0 = header v := rfl
  simp only [h0, not_true_eq_false, if_false, h0', ha, u1, u2, u3]
  by_cases hz : slBm v = 0
  · -- per-stream bitmasks follow
    have hz' : ((slBm v).toUInt8 != 0) = false := by rw [hz]; rfl
    have hSM : streamMasks v = packNibbles ((List.range (ns v)).map (bm v)) := by simp [streamMasks, hz]
    have hSMl : (streamMasks v).length = (ns v - 1) / 2 + 1 := by
      rw [hSM, packNibbles_length, List.length_map, List.length_range]; omega
    have hchk : 1 + ((ns v - 1) / 2 + 1) ≤
        (header v :: (streamMasks v ++ temporalCounts v ++ bitrates v ++ resolutions v)).length := by
      simp only [List.length_cons, List.length_append, hSMl]; omega
    have hpan : ¬ (1 + (ns v - 1) / 2 ≥
        (header v :: (streamMasks v ++ temporalCounts v ++ bitrates v ++ resolutions v)).length) := by
      simp only [List.length_cons, List.length_append, hSMl]; omega
    simp only [hz', Bool.false_eq_true, if_false, hchk, not_true_eq_false, hpan]
    have hmask : (List.range (ns v)).map (readMask (header v :: (streamMasks v ++ temporalCounts v ++
        bitrates v ++ resolutions v))) = (List.range (ns v)).map (fun s => (bm v s).toUInt8) := by
      rw [hSM, List.append_assoc, List.append_assoc]
      exact readMask_packed (bm v) (bm_lt v) (ns v) hn (header v) _
    rw [hmask]
    have := htail (header v :: streamMasks v)
    have hoff : (header v :: streamMasks v).length = 1 + (1 + (ns v - 1) / 2) := by
      simp only [List.length_cons, hSMl]; omega
    rw [hoff] at this
    simpa [List.append_assoc] using this
  · -- shared bitmask
    have hz' : ((slBm v).toUInt8 != 0) = true := by
      have := toUInt8_inj_of_lt (a := slBm v) (b := 0) (by have := slBm_lt v; omega) (by omega)
      simp only [bne_iff_ne, ne_eq]
      intro hc
      exact hz (this.mp hc)
    have hSM : streamMasks v = [] := by simp [streamMasks, hz]
    simp only [hz', if_true]
    have hmask : List.replicate (ns v) (slBm v).toUInt8 = (List.range (ns v)).map (fun s => (bm v s).toUInt8) :=
      replicate_eq_map_range _ _ _ (fun s hs' => by rw [slBm_ne_zero_all v hz s hs'])
    rw [hmask]
    have := htail [header v]
    simpa [hSM, List.append_assoc] using this

/-! ## Marshal never panics: on every allocation that passes validation the sized buffer is
    filled exactly (sorted or not) -/

theorem slot_cons (l : Layer) (L : List Layer) (s k : Nat) :
    slot (l :: L) s k = if (l.stream == (s : Int) && l.spatial == (k : Int)) then some l else slot L s k := by
  unfold slot
  rw [List.find?_cons]
  cases (l.stream == (s : Int) && l.spatial == (k : Int)) <;> rfl

theorem tableOrder_length_aux : ∀ (L : List Layer) (N : Nat),
    (∀ l ∈ L, 0 ≤ l.stream ∧ 0 ≤ l.spatial ∧ l.spatial < 4 ∧ lkey l < N) →
    L.Pairwise (fun a b => ¬ SameSlot a b) →
    ((List.range N).filterMap (fun i => slot L (i / 4) (i % 4))).length = L.length := by
  intro L
  induction L with
  | nil =>
    intro N _ _
    have : (List.range N).filterMap (fun i => slot [] (i / 4) (i % 4)) = [] := by
      rw [List.filterMap_eq_nil_iff]; intro i _; rfl
    rw [this]
  | cons l L ih =>
    intro N hw hp
    obtain ⟨hpl, hpL⟩ := List.pairwise_cons.mp hp
    have hl := hw l (by simp)
    have ih' := ih N (fun x hx => hw x (by simp [hx])) hpL
    have hhit : ∀ i, (l.stream == ((i / 4 : Nat) : Int) && l.spatial == ((i % 4 : Nat) : Int)) = true ↔ lkey l = i := by
      intro i; unfold lkey; simp only [Bool.and_eq_true, beq_iff_eq]; omega
    have hsplit : List.range N = List.range' 0 (lkey l) ++ lkey l :: List.range' (lkey l + 1) (N - (lkey l + 1)) := by
      rw [List.range_eq_range']
      have e1 : N = lkey l + ((N - (lkey l + 1)) + 1) := by omega
      conv => lhs; rw [e1]
      rw [← List.range'_append_1, Nat.zero_add, List.range'_succ]
    have hne : ∀ i, i ≠ lkey l → slot (l :: L) (i / 4) (i % 4) = slot L (i / 4) (i % 4) := by
      intro i hi
      rw [slot_cons]
      have : (l.stream == ((i / 4 : Nat) : Int) && l.spatial == ((i % 4 : Nat) : Int)) = false := by
        rw [Bool.eq_false_iff]; intro h; exact hi ((hhit i).mp h).symm
      rw [this]; simp only [Bool.false_eq_true, if_false]
    have hat : slot (l :: L) (lkey l / 4) (lkey l % 4) = some l := by
      rw [slot_cons, (hhit (lkey l)).mpr rfl]; rfl
    have hnone : slot L (lkey l / 4) (lkey l % 4) = none := by
      unfold slot
      apply find?_eq_none_of
      intro x hx
      rw [Bool.eq_false_iff]
      intro hh
      simp only [Bool.and_eq_true, beq_iff_eq] at hh
      apply hpl x hx
      unfold SameSlot
      have := (hhit (lkey l)).mpr rfl
      simp only [Bool.and_eq_true, beq_iff_eq] at this
      omega
    rw [hsplit] at ih' ⊢
    simp only [List.filterMap_append, List.filterMap_cons, hat, hnone, List.length_append,
      List.length_cons] at ih' ⊢
    have c1 : (List.range' 0 (lkey l)).filterMap (fun i => slot (l :: L) (i / 4) (i % 4)) =
        (List.range' 0 (lkey l)).filterMap (fun i => slot L (i / 4) (i % 4)) :=
      filterMap_congr' (fun i hi => hne i (by have := List.mem_range'_1.mp hi; omega))
    have c2 : (List.range' (lkey l + 1) (N - (lkey l + 1))).filterMap (fun i => slot (l :: L) (i / 4) (i % 4)) =
        (List.range' (lkey l + 1) (N - (lkey l + 1))).filterMap (fun i => slot L (i / 4) (i % 4)) :=
      filterMap_congr' (fun i hi => hne i (by have := List.mem_range'_1.mp hi; omega))
    rw [c1, c2]
    omega

theorem tableOrder_length (layers : List Layer) (count : Int)
    (hw : ∀ l ∈ layers, LayerOk count l) (hp : layers.Pairwise (fun a b => ¬ SameSlot a b)) :
    (tableOrder count.toNat layers).length = layers.length := by
  rw [tableOrder_flat]
  apply tableOrder_length_aux _ _ _ hp
  intro l hl
  have := hw l hl
  unfold LayerOk at this; unfold lkey
  omega

theorem tlLoop_length : ∀ (L : List Layer) (idx : Nat) (cur : UInt8) (done : Bytes), idx ≤ 4 →
    (tlLoop L idx cur done).length =
      done.length + 1 + (if L = [] then 0 else (idx + L.length - 1) / 4) := by
  intro L
  induction L with
  | nil => intro idx cur done _; simp [tlLoop]
  | cons l rest ih =>
    intro idx cur done hi
    unfold tlLoop
    by_cases h4 : idx ≥ 4
    · simp only [h4, if_true]
      rw [ih 1 _ _ (by omega)]
      cases rest with
      | nil => simp; omega
      | cons a r => simp; omega
    · simp only [h4, if_false]
      rw [ih (idx + 1) _ _ (by omega)]
      cases rest with
      | nil => simp; omega
      | cons a r => simp; omega

/-- the bytes Marshal writes once validation has passed -/
def marshalBody (v : VLA) : Bytes :=
  (byteOfInt (v.rid * 64) ||| (byteOfInt (v.count - 1) <<< 4) |||
      commonSLBM ((List.range v.count.toNat).map (slMB v.layers))) ::
    ((if commonSLBM ((List.range v.count.toNat).map (slMB v.layers)) == 0
        then maskBytes ((List.range v.count.toNat).map (slMB v.layers)) else []) ++
      tlLoop (tableOrder v.count.toNat v.layers) 0 0 [] ++
      (encodedRates (tableOrder v.count.toNat v.layers)).flatten ++
      (if v.hasRes then v.layers.flatMap resBytes else []))

/-- `requiredLen` is exactly the number of bytes written (sorted layers or not) -/
theorem requiredLen_eq_body (v : VLA) (hc : 1 ≤ v.count ∧ v.count ≤ 4)
    (hp : preprocess v.count v.layers [] = none) :
    requiredLen v (commonSLBM ((List.range v.count.toNat).map (slMB v.layers)))
      (encodedRates (tableOrder v.count.toNat v.layers)) = (marshalBody v).length := by
  obtain ⟨hall, hpw⟩ := (preprocess_none_iff v.count v.layers []).mp hp
  have htab := tableOrder_length v.layers v.count (fun l hl => (hall l hl).1) hpw
  simp only [marshalBody, requiredLen, encodedRates_lengths, tdiv_len, List.length_cons, List.length_append,
    tlLoop_length _ 0 0 [] (by omega), List.length_nil, htab]
  have e1 : ((commonSLBM ((List.range v.count.toNat).map (slMB v.layers)) != 0)) =
      !(commonSLBM ((List.range v.count.toNat).map (slMB v.layers)) == 0) := rfl
  rw [e1]
  have hr5 : (List.map (fun a => (resBytes a).length) v.layers).sum = v.layers.length * 5 := by
    rw [← List.length_flatMap]; exact flatMap_resBytes_length _
  have htl0 : (if tableOrder v.count.toNat v.layers = [] then 0
      else (0 + v.layers.length - 1) / 4) = (v.layers.length - 1) / 4 := by
    split
    · rename_i he
      have : v.layers.length = 0 := by rw [← htab, he]; rfl
      rw [this]
    · simp
  rw [htl0]
  cases hcm : (commonSLBM ((List.range v.count.toNat).map (slMB v.layers)) == 0) with
  | true =>
    cases hh : v.hasRes with
    | false => simp [maskBytes_length] <;> omega
    | true => simp [maskBytes_length] <;> omega
  | false =>
    cases hh : v.hasRes with
    | false => simp <;> omega
    | true => simp <;> omega

/-- every allocation that passes validation is marshalled into exactly `requiredLen` bytes -/
theorem marshal_valid (v : VLA) (hc : 1 ≤ v.count ∧ v.count ≤ 4) (hr : 0 ≤ v.rid ∧ v.rid < v.count)
    (hp : preprocess v.count v.layers [] = none) : marshal v = .ok (marshalBody v) := by
  have hcount : (decide (v.count ≤ 0) || decide (v.count > 4)) = false := by
    simp only [Bool.or_eq_false_iff, decide_eq_false_iff_not]; omega
  have hrid : (decide (v.rid < 0) || decide (v.rid ≥ v.count)) = false := by
    simp only [Bool.or_eq_false_iff, decide_eq_false_iff_not]; omega
  simp only [marshal, hcount, hrid, hp, Bool.false_eq_true, if_false]
  exact fit_exact _ _ _ rfl (requiredLen_eq_body v hc hp)

theorem marshal_ok_of_valid (v : VLA) (hc : 1 ≤ v.count ∧ v.count ≤ 4) (hr : 0 ≤ v.rid ∧ v.rid < v.count)
    (hp : preprocess v.count v.layers [] = none) : ∃ b, marshal v = .ok b :=
  ⟨_, marshal_valid v hc hr hp⟩

theorem marshal_ne_panic (v : VLA) : marshal v ≠ .panic := by
  by_cases hc : v.count ≤ 0 ∨ v.count > 4
  · have : (decide (v.count ≤ 0) || decide (v.count > 4)) = true := by simpa using hc
    simp [marshal, this]
  by_cases hr : v.rid < 0 ∨ v.rid ≥ v.count
  · have h1 : (decide (v.count ≤ 0) || decide (v.count > 4)) = false := by simpa using hc
    have : (decide (v.rid < 0) || decide (v.rid ≥ v.count)) = true := by simpa using hr
    simp [marshal, h1, this]
  cases hp : preprocess v.count v.layers [] with
  | some e =>
    have h1 : (decide (v.count ≤ 0) || decide (v.count > 4)) = false := by simpa using hc
    have h2 : (decide (v.rid < 0) || decide (v.rid ≥ v.count)) = false := by simpa using hr
    simp [marshal, h1, h2, hp]
  | none =>
    obtain ⟨b, hb⟩ := marshal_ok_of_valid v (by omega) (by omega) hp
    rw [hb]; simp

/-! ### small LEB128 values, for evaluating `encode` on concrete allocations -/

theorem writeLeb_one (n : Nat) (h : n < 128) : writeLeb n = [n.toUInt8] := by
  rw [writeLeb]; simp [h]

theorem writeLeb_two (n : Nat) (h1 : 128 ≤ n) (h2 : n < 16384) :
    writeLeb n = [(n % 128 + 128).toUInt8, (n / 128).toUInt8] := by
  rw [writeLeb]
  have : ¬ n < 128 := by omega
  simp only [this, dite_false]
  rw [writeLeb_one _ (by omega)]

end Rtp.Model.Vla
