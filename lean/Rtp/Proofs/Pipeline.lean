/-
  Rtp/Proofs/Pipeline.lean — the generic half of the end-to-end composition: for ANY payloader and
  ANY depacketizer,

    round_eq   one frame's trip through `send` / `receive` (general `pktMarshal` / `pktUnmarshal`) is
               the "ideal" trip: the datagrams are the packets' wire images, every datagram parses
               to the packet's header fields, and the depacketizer receives exactly the payloader's
               fragments, in order                     (C06 packet construction + C01 via the bridge)
    ideal_train  the packet train clauses (≤ MTU, consecutive sequence numbers, marker on the last,
               timestamp / payload type / SSRC) for a payloader that respects its budget  (C06 + C08)
    run_train / run_reasm / run_outs   the same along a history of frames on one packetizer and one
               depacketizer, for a payloader with an invariant.

  The codec-specific halves are in Rtp/Proofs/PipelineCodecs.lean.
-/
import Rtp.Pred.Pipeline
import Rtp.Proofs.Packetizer
import Rtp.Proofs.PacketizerBridge
namespace Rtp.Proofs.Pipeline
open Rtp Rtp.Model Rtp.Model.Packetizer Rtp.Model.Pipeline Rtp.Pred.Pipeline
open Rtp.Proofs.Packetizer Rtp.Proofs.PacketizerBridge

theorem toPacket_eq : Rtp.Model.Pipeline.toPacket = Rtp.Proofs.PacketizerBridge.toPacket := rfl

/-! ### one packet: marshal, size, parse -/

/-- the datagram of a packet observation -/
def wireOf (q : PktObs) : Bytes := match q.marshal with | .ok b => b | _ => []

/-- the header fields the receiver must see -/
def hdrObs (q : PktObs) : Hdr := { seq := q.seq, marker := q.marker, ts := q.ts, pt := q.pt, ssrc := q.ssrc }

/-- a packet that serialises with the general `pktMarshal` to `wireOf q`, and whose datagram parses
    with the general `pktUnmarshal` (into a fresh `Packet`) to its header fields and payload -/
def Good (q : PktObs) : Prop :=
  pktMarshal (Rtp.Model.Pipeline.toPacket q) = .ok (wireOf q) ∧
  ∃ P, pktUnmarshal {} (wireOf q) = .ok P ∧ P.payload = q.payload ∧ hdrOf P = hdrObs q

theorem good_of (q : PktObs) (hf : Faithful q) (hr : RoundTrips q) : Good q := by
  obtain ⟨b, prof, hm, hu, _⟩ := hr {}
  have hw : wireOf q = b := by simp [wireOf, hm]
  refine ⟨?_, ?_⟩
  · rw [toPacket_eq, hf.1, hm, hw]
  · rw [hw]
    exact ⟨_, hu, rfl, rfl⟩

/-- the abs-send-time element the packetizer attaches is a legal one-byte element of 3 bytes -/
theorem extOf_valid (p : Packetizer) (hv : AbsValid p) (now : Int64) :
    ∀ e, extOf p now = some e → 1 ≤ e.1 ∧ e.1 ≤ 14 ∧ ∃ v0 v1 v2, e.2 = [v0, v1, v2] := by
  intro e hee
  simp only [extOf] at hee
  split at hee
  · rename_i hne
    cases hee
    rcases hv with h0 | hv
    · simp [h0] at hne
    · have h8 := (absId8_valid p hv).1
      simp only [Bool.and_eq_true, decide_eq_true_eq] at h8
      exact ⟨h8.1, h8.2, _, _, _, rfl⟩
  · cases hee

theorem mkPkts_good (p : Packetizer) (hv : AbsValid p) (hpt : p.pt < 128) (now : Int64) (s : SeqState)
    (frags : List Bytes) : ∀ q ∈ (mkPkts p (extOf p now) s frags).1, Good q := by
  intro q hq
  exact good_of q (mkPkts_faithful p _ (extOf_ext3 p now) s frags q hq)
    (mkPkts_roundtrip p hpt _ (extOf_valid p hv now) s frags q hq)

/-! ### lists of good packets -/

theorem okBytes_map_ok (l : List Bytes) : okBytes (l.map Res.ok) = l := by
  induction l with
  | nil => rfl
  | cons a l ih => simp [okBytes, ih]

theorem marshal_all (pkts : List PktObs) (h : ∀ q ∈ pkts, Good q) :
    pkts.map (fun q => pktMarshal (Rtp.Model.Pipeline.toPacket q)) = (pkts.map wireOf).map Res.ok := by
  induction pkts with
  | nil => rfl
  | cons q qs ih =>
    simp only [List.map_cons]
    rw [(h q (by simp)).1, ih (fun x hx => h x (by simp [hx]))]

theorem parse_all (pkts : List PktObs) (h : ∀ q ∈ pkts, Good q) :
    (parseAll (pkts.map wireOf)).map (Res.map hdrOf) = pkts.map (fun q => Res.ok (hdrObs q)) ∧
    okPayloads (parseAll (pkts.map wireOf)) = pkts.map (·.payload) := by
  induction pkts with
  | nil => exact ⟨rfl, rfl⟩
  | cons q qs ih =>
    obtain ⟨_, P, hu, hp, hh⟩ := h q (by simp)
    obtain ⟨i1, i2⟩ := ih (fun x hx => h x (by simp [hx]))
    simp only [parseAll, List.map_cons] at i1 i2 ⊢
    rw [hu]
    simp only [Res.map, okPayloads, hh, hp, i1, i2, and_self]

theorem depackAll_length {ρ} (dep : Depack ρ) : ∀ (r : ρ) (ps : List Bytes),
    (depackAll dep r ps).1.length = ps.length := by
  intro r ps
  induction ps generalizing r with
  | nil => rfl
  | cons p ps ih => simp [depackAll, ih]

theorem depackAll_append {ρ} (dep : Depack ρ) : ∀ (r : ρ) (a b : List Bytes),
    depackAll dep r (a ++ b) =
      ((depackAll dep r a).1 ++ (depackAll dep (depackAll dep r a).2 b).1,
       (depackAll dep (depackAll dep r a).2 b).2) := by
  intro r a b
  induction a generalizing r with
  | nil => simp [depackAll]
  | cons p ps ih => simp [depackAll, ih]

/-! ### one frame -/

/-- the trip of one frame, described without any wire format: `pkts` are the packets
    `Packetize` builds from the payloader's fragments -/
def idealObs {ρ} (dep : Depack ρ) (r : ρ) (pkts : List PktObs) (frags : List Bytes) : FrameObs :=
  { dgs := pkts.map (fun q => Res.ok (wireOf q)),
    hdrs := pkts.map (fun q => Res.ok (hdrObs q)),
    outs := (depackAll dep r frags).1 }

/-- the fragments of the call -/
def fragsOf {σ} (pay : Pay σ) (s : Sender σ) (f : FrameIn) : List Bytes := (pay s.st s.pk.budget f.frame).1

/-- the packets of the call -/
def pktsOf {σ} (pay : Pay σ) (s : Sender σ) (f : FrameIn) : List PktObs :=
  (mkPkts s.pk (extOf s.pk f.now) s.pk.seq (fragsOf pay s f)).1

/-- the sender after the call -/
def senderAfter {σ} (pay : Pay σ) (s : Sender σ) (f : FrameIn) : Sender σ :=
  { pk := { s.pk with ts := s.pk.ts + f.samples,
                      seq := (mkPkts s.pk (extOf s.pk f.now) s.pk.seq (fragsOf pay s f)).2 },
    st := (pay s.st s.pk.budget f.frame).2 }

/-- **one frame's trip is the ideal trip** — any payloader, any depacketizer, any state of both,
    any sequencer state, timestamp, SSRC, clock reading; 7-bit payload type, abs-send-time off or a
    legal id; non-empty frame. -/
theorem round_eq {σ ρ} (pay : Pay σ) (dep : Depack ρ) (s : Sender σ) (r : ρ) (f : FrameIn)
    (hv : AbsValid s.pk) (hpt : s.pk.pt < 128) (hne : f.frame.isEmpty = false) :
    round pay dep s r f =
      (idealObs dep r (pktsOf pay s f) (fragsOf pay s f), senderAfter pay s f,
       (depackAll dep r (fragsOf pay s f)).2) := by
  have hg := mkPkts_good s.pk hv hpt f.now s.pk.seq (fragsOf pay s f)
  have hm := marshal_all _ hg
  obtain ⟨hp1, hp2⟩ := parse_all _ hg
  have hpl := mkPkts_payloads s.pk (extOf s.pk f.now) s.pk.seq (fragsOf pay s f)
  simp only [round, send, receive, packetize_eq _ s.pk hv f.frame hne, hne, Bool.false_eq_true, if_false]
  simp only [fragsOf] at hm hp1 hp2 hpl
  simp only [hm, okBytes_map_ok, hp1, hp2, hpl, idealObs, pktsOf, fragsOf, senderAfter]
  simp only [List.map_map, Function.comp_def]

theorem round_empty {σ ρ} (pay : Pay σ) (dep : Depack ρ) (s : Sender σ) (r : ρ) (f : FrameIn)
    (he : f.frame.isEmpty = true) :
    round pay dep s r f = ({ dgs := [], hdrs := [], outs := [] }, s, r) := by
  simp [round, send, receive, packetize_empty _ s.pk f.frame he, he, okBytes, parseAll, okPayloads, depackAll]

/-! ### the train clauses -/

theorem seqFrom_map (e : UInt16) (pkts : List PktObs) :
    seqFrom e (pkts.map (fun q => Res.ok (hdrObs q))) = Rtp.Pred.C06.seqFrom e pkts := by
  induction pkts generalizing e with
  | nil => rfl
  | cons q qs ih =>
    simp only [List.map_cons, seqFrom, Rtp.Pred.C06.seqFrom, ih]
    rfl

theorem markLast_map (pkts : List PktObs) :
    markLast (pkts.map (fun q => Res.ok (hdrObs q))) = Rtp.Pred.C06.markersOk pkts := by
  induction pkts with
  | nil => rfl
  | cons q qs ih =>
    cases qs with
    | nil => simp [markLast, Rtp.Pred.C06.markersOk, hdrObs]
    | cons q' qs' =>
      simp only [List.map_cons] at ih ⊢
      simp only [markLast, Rtp.Pred.C06.markersOk, ih]
      rfl

theorem mkPkts_length (p : Packetizer) (ext : Option (UInt8 × Bytes)) (s : SeqState) (frags : List Bytes) :
    (mkPkts p ext s frags).1.length = frags.length := by
  have := congrArg List.length (mkPkts_payloads p ext s frags)
  simpa using this

theorem toUInt16_succ (n : Nat) : (n + 1).toUInt16 = n.toUInt16 + 1 := by
  simp [Nat.toUInt16, UInt16.ofNat_add]

/-- the sequencer after a call has advanced by the number of fragments -/
theorem mkPkts_seq_after (p : Packetizer) (ext : Option (UInt8 × Bytes)) (s : SeqState) (frags : List Bytes) :
    (mkPkts p ext s frags).2.seq = s.seq + frags.length.toUInt16 := by
  induction frags generalizing s with
  | nil => simp [mkPkts, Nat.toUInt16]
  | cons f fs ih =>
    cases fs with
    | nil => simp [mkPkts, SeqState.next, Nat.toUInt16]
    | cons g gs =>
      have := ih s.next.2
      simp only [mkPkts] at this ⊢
      rw [this]
      simp only [SeqState.next, List.length_cons, toUInt16_succ]
      rw [UInt16.add_assoc, UInt16.add_comm 1]

/-- the budget handed to the payloader is the MTU minus the reserved header bytes -/
theorem budget_toNat (p : Packetizer) (hm : overhead p ≤ p.mtu.toNat) :
    p.budget.toNat = p.mtu.toNat - overhead p := by
  have c12 : (12 : UInt16).toNat = 12 := rfl
  have c8 : (8 : UInt16).toNat = 8 := rfl
  have h12 : 12 ≤ p.mtu.toNat := by
    simp only [overhead] at hm; split at hm <;> omega
  have h12' : (12 : UInt16) ≤ p.mtu := by simp only [UInt16.le_iff_toNat_le, c12]; exact h12
  have hb : (p.mtu - 12).toNat = p.mtu.toNat - 12 := by
    rw [UInt16.toNat_sub_of_le _ _ h12', c12]
  by_cases h0 : p.absId = 0
  · simp [budget, overhead, h0, hb]
  · have h20 : 20 ≤ p.mtu.toNat := by simpa [overhead, h0] using hm
    have h8 : (8 : UInt16) ≤ p.mtu - 12 := by
      simp only [UInt16.le_iff_toNat_le, hb, c8]; omega
    have hb8 : (p.mtu - 12 - 8).toNat = p.mtu.toNat - 20 := by
      rw [UInt16.toNat_sub_of_le _ _ h8, hb, c8]; omega
    have hge : (p.mtu - 12 ≥ 8) := h8
    simp [budget, overhead, h0, hge, hb8]

theorem budget_room (p : Packetizer) (hm : overhead p ≤ p.mtu.toNat) (now : Int64) :
    p.budget.toNat + 12 + (if (extOf p now).isSome then 8 else 0) ≤ p.mtu.toNat := by
  rw [budget_toNat p hm]
  by_cases h0 : p.absId = 0
  · simp only [overhead, extOf, h0] at hm ⊢; simp at hm ⊢; omega
  · simp only [overhead, extOf] at hm ⊢; simp [h0] at hm ⊢; omega

theorem cfgOk_parts {p : Packetizer} (h : cfgOk p = true) : AbsValid p ∧ p.pt < 128 := by
  simp only [cfgOk, Bool.and_eq_true, Bool.or_eq_true, decide_eq_true_eq, beq_iff_eq] at h
  exact ⟨h.2, by rw [UInt8.lt_iff_toNat_lt]; exact h.1⟩

/-- **the packet train of one frame**: when the payloader kept its fragments within the budget it
    was handed and the MTU leaves room for the header bytes, the ideal trip satisfies every train
    clause but the depacketizer's (datagrams ≤ MTU, all parse, consecutive sequence numbers, marker
    on the last packet only, timestamp / payload type / SSRC, one depacketizer call per packet). -/
theorem ideal_train {σ ρ} (pay : Pay σ) (dep : Depack ρ) (s : Sender σ) (r : ρ) (f : FrameIn)
    (hm : overhead s.pk ≤ s.pk.mtu.toNat)
    (hfit : ∀ x ∈ fragsOf pay s f, x.length ≤ s.pk.budget.toNat)
    (hok : (depackAll dep r (fragsOf pay s f)).1.all Res.isOk = true) :
    trainOk s.pk (s.pk.seq.seq + 1) s.pk.ts (idealObs dep r (pktsOf pay s f) (fragsOf pay s f)) = true := by
  have hfits := mkPkts_fits s.pk s.pk.mtu s.pk.budget.toNat _ (extOf_ext3 s.pk f.now)
    (budget_room s.pk hm f.now) s.pk.seq _ hfit
  have hseq := (mkPkts_seq s.pk (extOf s.pk f.now) s.pk.seq (fragsOf pay s f)).1
  have hmark := mkPkts_markers s.pk (extOf s.pk f.now) s.pk.seq (fragsOf pay s f)
  have hts := mkPkts_ts s.pk (extOf s.pk f.now) s.pk.seq (fragsOf pay s f)
  have hfix := mkPkts_fixed s.pk s.pk ⟨rfl, rfl, rfl⟩ (extOf s.pk f.now) s.pk.seq (fragsOf pay s f)
  have hlen := mkPkts_length s.pk (extOf s.pk f.now) s.pk.seq (fragsOf pay s f)
  simp only [trainOk, idealObs, pktsOf, Bool.and_eq_true, List.length_map, beq_self_eq_true,
    seqFrom_map, markLast_map, hseq, hmark, hok, depackAll_length, hlen, and_true,
    List.all_map, List.all_eq_true]
  refine ⟨?_, ?_⟩
  · intro q hq
    have := (List.all_eq_true.mp hfits) q hq
    simp only [Rtp.Pred.C06.fitsMtu, Bool.and_eq_true, decide_eq_true_eq] at this
    simp only [Function.comp, dgOk, wireOf]
    obtain ⟨_, h2⟩ := this
    split at h2
    · rename_i b hb; simp only [hb]; simpa using h2
    · cases h2
  · intro q hq
    have h1 := (List.all_eq_true.mp hts) q hq
    have h2 := (List.all_eq_true.mp hfix) q hq
    simp only [Rtp.Pred.C06.fixedFieldsOk, Bool.and_eq_true, beq_iff_eq] at h1 h2
    simp only [Function.comp, fieldsOk, hdrObs, Bool.and_eq_true, beq_iff_eq]
    exact ⟨⟨by simpa using h1, h2.1.1.2⟩, h2.1.2⟩

/-! ### histories -/

/-- the packetizer's configuration (everything but sequencer and timestamp) is kept by a call -/
theorem senderAfter_cfg {σ} (pay : Pay σ) (s : Sender σ) (f : FrameIn) :
    (senderAfter pay s f).pk.mtu = s.pk.mtu ∧ (senderAfter pay s f).pk.pt = s.pk.pt ∧
    (senderAfter pay s f).pk.ssrc = s.pk.ssrc ∧ (senderAfter pay s f).pk.absId = s.pk.absId ∧
    (senderAfter pay s f).pk.budget = s.pk.budget ∧
    (senderAfter pay s f).pk.ts = s.pk.ts + f.samples ∧
    (senderAfter pay s f).pk.seq.seq = s.pk.seq.seq + (fragsOf pay s f).length.toUInt16 ∧
    (senderAfter pay s f).st = (pay s.st s.pk.budget f.frame).2 :=
  ⟨rfl, rfl, rfl, rfl, rfl, rfl, mkPkts_seq_after _ _ _ _, rfl⟩

/-- two packetizers with the same configuration judge a train alike -/
theorem trainOk_cfg (p p' : Packetizer) (h1 : p'.mtu = p.mtu) (h2 : p'.pt = p.pt) (h3 : p'.ssrc = p.ssrc)
    (first : UInt16) (ts : UInt32) (o : FrameObs) : trainOk p' first ts o = trainOk p first ts o := by
  have : fieldsOk p' ts = fieldsOk p ts := by
    funext x; cases x <;> simp [fieldsOk, h2, h3]
  simp [trainOk, h1, this]

/-- the hypotheses along a history, for a payloader whose behaviour is described from an invariant
    `Inv` on its state: every frame is non-empty, `Inv` is kept, the fragments fit the budget `B` -/
def PayOk {σ} (pay : Pay σ) (B : UInt16) (Inv : σ → Bytes → Prop) : σ → List FrameIn → Prop
  | _, [] => True
  | st, f :: fs => Inv st f.frame ∧ PayOk pay B Inv (pay st B f.frame).2 fs

/-- what a codec has to provide for the train clauses: on its domain the frame is non-empty and the
    fragments respect the budget -/
def PayFits {σ} (pay : Pay σ) (B : UInt16) (Inv : σ → Bytes → Prop) : Prop :=
  ∀ st frame, Inv st frame → frame.isEmpty = false ∧ ∀ x ∈ (pay st B frame).1, x.length ≤ B.toNat

/-- what a codec with per-frame reassembly has to provide: from ANY depacketizer state the
    fragments of a frame are all accepted and their values concatenate to `exp frame` (the frame in
    the codec's normal form) -/
def DepOkE {σ ρ} (pay : Pay σ) (dep : Depack ρ) (B : UInt16) (Inv : σ → Bytes → Prop) (exp : Bytes → Bytes) : Prop :=
  ∀ st frame (r : ρ), Inv st frame →
    (depackAll dep r (pay st B frame).1).1.all Res.isOk = true ∧
    (depackAll dep r (pay st B frame).1).1.flatMap resBytes = exp frame

/-- … when the normal form is the frame itself -/
def DepOk {σ ρ} (pay : Pay σ) (dep : Depack ρ) (B : UInt16) (Inv : σ → Bytes → Prop) : Prop :=
  DepOkE pay dep B Inv id

/-- all fragments of a history of frames on one payloader, in order -/
def fragsHist {σ} (pay : Pay σ) (B : UInt16) : σ → List FrameIn → List Bytes
  | _, [] => []
  | st, f :: fs => (pay st B f.frame).1 ++ fragsHist pay B (pay st B f.frame).2 fs

/-- **the depacketizer sees exactly the payloader's fragments of the whole history, in order** —
    the outputs of a history are those of ONE depacketizer run over all fragments -/
theorem run_outs {σ ρ} (pay : Pay σ) (dep : Depack ρ) (Inv : σ → Bytes → Prop) :
    ∀ (fs : List FrameIn) (s : Sender σ) (r : ρ), AbsValid s.pk → s.pk.pt < 128 →
      (∀ st frame, Inv st frame → frame.isEmpty = false) →
      PayOk pay s.pk.budget Inv s.st fs →
      (run pay dep s r fs).flatMap (·.outs) = (depackAll dep r (fragsHist pay s.pk.budget s.st fs)).1 := by
  intro fs
  induction fs with
  | nil => intro s r _ _ _ _; rfl
  | cons f fs ih =>
    intro s r hv hpt hne hp
    obtain ⟨hi, hp'⟩ := hp
    have he := hne _ _ hi
    have hc := senderAfter_cfg pay s f
    simp only [Pipeline.run, round_eq pay dep s r f hv hpt he, List.flatMap_cons, fragsHist, depackAll_append]
    rw [ih (senderAfter pay s f) _ (by simpa [AbsValid, hc.2.2.2.1] using hv) (by rw [hc.2.1]; exact hpt) hne
      (by rw [hc.2.2.2.2.1, hc.2.2.2.2.2.2.2]; exact hp')]
    rw [hc.2.2.2.2.1, hc.2.2.2.2.2.2.2]
    rfl

/-- **the train clauses along a history** (codec-independent half of every `pipeline_*_history`) -/
theorem run_train {σ ρ} (pay : Pay σ) (dep : Depack ρ) (Inv : σ → Bytes → Prop) (cfg : Packetizer) :
    ∀ (fs : List FrameIn) (s : Sender σ) (r : ρ), AbsValid s.pk → s.pk.pt < 128 →
      s.pk.mtu = cfg.mtu → s.pk.pt = cfg.pt → s.pk.ssrc = cfg.ssrc →
      overhead s.pk ≤ s.pk.mtu.toNat →
      PayFits pay s.pk.budget Inv →
      PayOk pay s.pk.budget Inv s.st fs →
      (∀ o ∈ run pay dep s r fs, o.outs.all Res.isOk = true) →
      histTrain cfg (s.pk.seq.seq + 1) s.pk.ts fs (run pay dep s r fs) = true := by
  intro fs
  induction fs with
  | nil => intro s r _ _ _ _ _ _ _ _ _; rfl
  | cons f fs ih =>
    intro s r hv hpt c1 c2 c3 hm hfit hp hout
    obtain ⟨hi, hp'⟩ := hp
    obtain ⟨he, hx⟩ := hfit _ _ hi
    have hc := senderAfter_cfg pay s f
    have hab : AbsValid (senderAfter pay s f).pk := by simpa [AbsValid, hc.2.2.2.1] using hv
    have hov : overhead (senderAfter pay s f).pk = overhead s.pk := by simp [overhead, hc.2.2.2.1]
    simp only [Pipeline.run, round_eq pay dep s r f hv hpt he] at hout ⊢
    simp only [histTrain, he, Bool.false_eq_true, if_false, Bool.and_eq_true]
    refine ⟨?_, ?_⟩
    · rw [← trainOk_cfg cfg s.pk c1 c2 c3]
      exact ideal_train pay dep s r f hm hx (hout _ (List.mem_cons_self ..))
    · have := ih (senderAfter pay s f) (depackAll dep r (fragsOf pay s f)).2 hab (by rw [hc.2.1]; exact hpt)
        (by rw [hc.1, c1]) (by rw [hc.2.1, c2]) (by rw [hc.2.2.1, c3]) (by rw [hov, hc.1]; exact hm)
        (by rw [hc.2.2.2.2.1]; exact hfit)
        (by rw [hc.2.2.2.2.1, hc.2.2.2.2.2.2.2]; exact hp')
        (fun o ho => hout o (by simp [ho]))
      rw [hc.2.2.2.2.2.1, hc.2.2.2.2.2.2.1] at this
      simp only [idealObs, List.length_map, pktsOf, mkPkts_length]
      rw [UInt16.add_assoc, UInt16.add_comm 1, ← UInt16.add_assoc]
      exact this

/-- **per-frame reassembly along a history**: every frame's outputs are all values and concatenate
    to the frame in normal form (for codecs with `DepOkE`) -/
theorem run_reasmE {σ ρ} (pay : Pay σ) (dep : Depack ρ) (Inv : σ → Bytes → Prop) (exp : Bytes → Bytes) :
    ∀ (fs : List FrameIn) (s : Sender σ) (r : ρ), AbsValid s.pk → s.pk.pt < 128 →
      (∀ st frame, Inv st frame → frame.isEmpty = false) →
      DepOkE pay dep s.pk.budget Inv exp →
      PayOk pay s.pk.budget Inv s.st fs →
      (∀ o ∈ run pay dep s r fs, o.outs.all Res.isOk = true) ∧
      histReasm (fs.map (fun f => exp f.frame)) (run pay dep s r fs) = true := by
  intro fs
  induction fs with
  | nil => intro s r _ _ _ _ _; exact ⟨by simp [Pipeline.run], rfl⟩
  | cons f fs ih =>
    intro s r hv hpt hne hd hp
    obtain ⟨hi, hp'⟩ := hp
    have he := hne _ _ hi
    obtain ⟨d1, d2⟩ := hd _ _ r hi
    have hc := senderAfter_cfg pay s f
    have hab : AbsValid (senderAfter pay s f).pk := by simpa [AbsValid, hc.2.2.2.1] using hv
    obtain ⟨i1, i2⟩ := ih (senderAfter pay s f) (depackAll dep r (fragsOf pay s f)).2 hab
      (by rw [hc.2.1]; exact hpt) hne (by rw [hc.2.2.2.2.1]; exact hd)
      (by rw [hc.2.2.2.2.1, hc.2.2.2.2.2.2.2]; exact hp')
    simp only [Pipeline.run, round_eq pay dep s r f hv hpt he]
    refine ⟨?_, ?_⟩
    · intro o ho
      simp only [List.mem_cons] at ho
      rcases ho with rfl | ho
      · exact d1
      · exact i1 o ho
    · simp only [List.map_cons, histReasm, reasmOk, FrameObs.reasm, idealObs, fragsOf, d2, beq_self_eq_true,
        Bool.true_and]
      exact i2

/-- `P frame observation` holds of every frame of a history and its observation -/
def EachFrame (P : Bytes → FrameObs → Prop) : List FrameIn → List FrameObs → Prop
  | [], [] => True
  | f :: fs, o :: os => P f.frame o ∧ EachFrame P fs os
  | _, _ => False

/-- **a per-frame statement along a history**: whatever holds of the ideal trip of every frame in
    the payloader's domain, from every payloader and depacketizer state, holds of every frame of a
    history -/
theorem run_each {σ ρ} (pay : Pay σ) (dep : Depack ρ) (Inv : σ → Bytes → Prop) (P : Bytes → FrameObs → Prop) :
    ∀ (fs : List FrameIn) (s : Sender σ) (r : ρ), AbsValid s.pk → s.pk.pt < 128 →
      (∀ st frame, Inv st frame → frame.isEmpty = false) →
      (∀ st (r : ρ) frame pkts, Inv st frame → P frame (idealObs dep r pkts (pay st s.pk.budget frame).1)) →
      PayOk pay s.pk.budget Inv s.st fs →
      EachFrame P fs (run pay dep s r fs) := by
  intro fs
  induction fs with
  | nil => intro s r _ _ _ _ _; exact trivial
  | cons f fs ih =>
    intro s r hv hpt hne hP hp
    obtain ⟨hi, hp'⟩ := hp
    have he := hne _ _ hi
    have hc := senderAfter_cfg pay s f
    have hab : AbsValid (senderAfter pay s f).pk := by simpa [AbsValid, hc.2.2.2.1] using hv
    simp only [Pipeline.run, round_eq pay dep s r f hv hpt he]
    refine ⟨hP _ r _ _ hi, ?_⟩
    exact ih (senderAfter pay s f) _ hab (by rw [hc.2.1]; exact hpt) hne
      (by rw [hc.2.2.2.2.1]; exact hP) (by rw [hc.2.2.2.2.1, hc.2.2.2.2.2.2.2]; exact hp')

theorem eachFrame_mem (P : Bytes → FrameObs → Prop) : ∀ (fs : List FrameIn) (obs : List FrameObs),
    EachFrame P fs obs → ∀ o ∈ obs, ∃ f ∈ fs, P f.frame o := by
  intro fs
  induction fs with
  | nil => intro obs h o ho; cases obs with
    | nil => cases ho
    | cons _ _ => exact absurd h (by simp [EachFrame])
  | cons f fs ih =>
    intro obs h o ho
    cases obs with
    | nil => cases ho
    | cons o' os' =>
      simp only [EachFrame] at h
      simp only [List.mem_cons] at ho
      rcases ho with rfl | ho
      · exact ⟨f, by simp, h.1⟩
      · obtain ⟨g, hg, hp⟩ := ih os' h.2 o ho
        exact ⟨g, by simp [hg], hp⟩

/-- from the propositional per-frame statement to the executable per-frame check over frame
    descriptions `α` -/
theorem histEach_of_eachFrame {α} (inp : α → FrameIn) (Q : α → FrameObs → Bool) (P : Bytes → FrameObs → Prop)
    (D : α → Prop) (hPQ : ∀ a o, D a → P (inp a).frame o → Q a o = true) :
    ∀ (as : List α) (obs : List FrameObs), (∀ a ∈ as, D a) → EachFrame P (as.map inp) obs →
      histEach Q as obs = true := by
  intro as
  induction as with
  | nil => intro obs _ h; cases obs with
    | nil => rfl
    | cons _ _ => exact absurd h (by simp [EachFrame])
  | cons a as ih =>
    intro obs hd h
    cases obs with
    | nil => exact absurd h (by simp [EachFrame])
    | cons o os =>
      simp only [List.map_cons, EachFrame] at h
      simp only [histEach, Bool.and_eq_true]
      exact ⟨hPQ a o (hd a (by simp)) h.1, ih os (fun b hb => hd b (by simp [hb])) h.2⟩

/-! ### the two halves together -/

/-- **one frame, end to end**, for a codec with per-frame reassembly -/
theorem round_okE {σ ρ} (pay : Pay σ) (dep : Depack ρ) (Inv : σ → Bytes → Prop) (exp : Bytes → Bytes)
    (s : Sender σ) (r : ρ) (f : FrameIn)
    (hcfg : cfgOk s.pk = true) (hm : overhead s.pk ≤ s.pk.mtu.toNat)
    (hfit : PayFits pay s.pk.budget Inv) (hdep : DepOkE pay dep s.pk.budget Inv exp) (hi : Inv s.st f.frame) :
    trainOk s.pk (s.pk.seq.seq + 1) s.pk.ts (round pay dep s r f).1 = true ∧
    (round pay dep s r f).1.reasm = exp f.frame := by
  obtain ⟨hv, hpt⟩ := cfgOk_parts hcfg
  obtain ⟨he, hx⟩ := hfit _ _ hi
  obtain ⟨d1, d2⟩ := hdep _ _ r hi
  rw [round_eq pay dep s r f hv hpt he]
  exact ⟨ideal_train pay dep s r f hm hx d1, d2⟩

theorem round_ok {σ ρ} (pay : Pay σ) (dep : Depack ρ) (Inv : σ → Bytes → Prop) (s : Sender σ) (r : ρ) (f : FrameIn)
    (hcfg : cfgOk s.pk = true) (hm : overhead s.pk ≤ s.pk.mtu.toNat)
    (hfit : PayFits pay s.pk.budget Inv) (hdep : DepOk pay dep s.pk.budget Inv) (hi : Inv s.st f.frame) :
    trainOk s.pk (s.pk.seq.seq + 1) s.pk.ts (round pay dep s r f).1 = true ∧
    (round pay dep s r f).1.reasm = f.frame :=
  round_okE pay dep Inv id s r f hcfg hm hfit hdep hi

/-- **a history of frames, end to end**, for a codec with per-frame reassembly -/
theorem run_okE {σ ρ} (pay : Pay σ) (dep : Depack ρ) (Inv : σ → Bytes → Prop) (exp : Bytes → Bytes)
    (s : Sender σ) (r : ρ)
    (fs : List FrameIn) (hcfg : cfgOk s.pk = true) (hm : overhead s.pk ≤ s.pk.mtu.toNat)
    (hfit : PayFits pay s.pk.budget Inv) (hdep : DepOkE pay dep s.pk.budget Inv exp)
    (hp : PayOk pay s.pk.budget Inv s.st fs) :
    histOkE s.pk fs (fs.map (fun f => exp f.frame)) (run pay dep s r fs) = true := by
  obtain ⟨hv, hpt⟩ := cfgOk_parts hcfg
  have hne : ∀ st frame, Inv st frame → frame.isEmpty = false := fun st fr h => (hfit st fr h).1
  obtain ⟨h1, h2⟩ := run_reasmE pay dep Inv exp fs s r hv hpt hne hdep hp
  simp only [histOkE, Bool.and_eq_true]
  exact ⟨run_train pay dep Inv s.pk fs s r hv hpt rfl rfl rfl hm hfit hp h1, h2⟩

theorem run_ok {σ ρ} (pay : Pay σ) (dep : Depack ρ) (Inv : σ → Bytes → Prop) (s : Sender σ) (r : ρ)
    (fs : List FrameIn) (hcfg : cfgOk s.pk = true) (hm : overhead s.pk ≤ s.pk.mtu.toNat)
    (hfit : PayFits pay s.pk.budget Inv) (hdep : DepOk pay dep s.pk.budget Inv)
    (hp : PayOk pay s.pk.budget Inv s.st fs) :
    histOk s.pk fs (run pay dep s r fs) = true :=
  run_okE pay dep Inv id s r fs hcfg hm hfit hdep hp

/-! ### reading the train predicate by index -/

theorem seqFrom_get : ∀ (l : List (Res Hdr)) (e : UInt16), seqFrom e l = true →
    ∀ i (hi : i < l.length), ∃ h, l[i] = .ok h ∧ h.seq = e + i.toUInt16 := by
  intro l
  induction l with
  | nil => intro e _ i hi; cases hi
  | cons x xs ih =>
    intro e h i hi
    cases x with
    | ok hd =>
      simp only [seqFrom, Bool.and_eq_true, beq_iff_eq] at h
      cases i with
      | zero => exact ⟨hd, rfl, by simp [h.1, Nat.toUInt16]⟩
      | succ j =>
        obtain ⟨g, hg1, hg2⟩ := ih (e + 1) h.2 j (by simpa using hi)
        refine ⟨g, by simpa using hg1, ?_⟩
        rw [hg2, toUInt16_succ, UInt16.add_assoc, UInt16.add_comm 1]
    | err _ => simp [seqFrom] at h
    | panic => simp [seqFrom] at h

theorem markLast_get : ∀ (l : List (Res Hdr)), markLast l = true →
    ∀ i (hi : i < l.length), ∃ h, l[i] = .ok h ∧ h.marker = decide (i + 1 = l.length) := by
  intro l
  induction l with
  | nil => intro _ i hi; cases hi
  | cons x xs ih =>
    intro h i hi
    cases x with
    | ok hd =>
      cases xs with
      | nil =>
        simp only [markLast] at h
        cases i with
        | zero => exact ⟨hd, rfl, by simp [h]⟩
        | succ j => simp at hi
      | cons y ys =>
        simp only [markLast, Bool.and_eq_true, Bool.not_eq_true'] at h
        cases i with
        | zero => exact ⟨hd, rfl, by simp [h.1]⟩
        | succ j =>
          obtain ⟨g, hg1, hg2⟩ := ih h.2 j (by simpa using hi)
          exact ⟨g, by simpa using hg1, by simpa using hg2⟩
    | err _ => cases xs <;> simp [markLast] at h
    | panic => cases xs <;> simp [markLast] at h

end Rtp.Proofs.Pipeline
