/-
  Rtp/Proofs/PacketRtBits.lean — big-endian codecs are inverse to each other; the bit fields of
  the first two header bytes and of the one-byte element header (DESIGN §6 C01 step 2).
  No enumeration of 2^16 / 2^32 values: the codecs are proved algebraically on `Nat`
  (Rtp/Go/Bits.lean + omega); only the byte-sized tables (≤ 512 rows) use kernel evaluation.
-/
import Rtp.Model.Packet
import Rtp.Go.Bits
namespace Rtp.Proofs.PacketRt
open Rtp Rtp.Model

/-! ### rd ∘ be = id -/

theorem rd16_be16 (x : UInt16) : rd16 (x >>> 8).toUInt8 x.toUInt8 = x := by
  apply UInt16.toNat_inj.mp
  simp only [rd16, UInt16.toNat_or, UInt16.toNat_shiftLeft, UInt8.toNat_toUInt16, UInt16.toNat_toUInt8,
    UInt16.toNat_shiftRight, UInt16.toNat_ofNat]
  have hx := x.toNat_lt
  simp only [Nat.reducePow, Nat.reduceMod] at *
  rw [Nat.shiftRight_eq_div_pow, Nat.shiftLeft_eq, Nat.mod_eq_of_lt (by omega)]
  rw [← Nat.shiftLeft_eq, Bits.nat_shl_or _ _ _ (by omega)]
  omega

theorem rd32_be32 (x : UInt32) :
    rd32 (x >>> 24).toUInt8 (x >>> 16).toUInt8 (x >>> 8).toUInt8 x.toUInt8 = x := by
  apply UInt32.toNat_inj.mp
  simp only [rd32, UInt32.toNat_or, UInt32.toNat_shiftLeft, UInt8.toNat_toUInt32, UInt32.toNat_toUInt8,
    UInt32.toNat_shiftRight, UInt32.toNat_ofNat]
  have hx := x.toNat_lt
  simp only [Nat.reducePow, Nat.reduceMod] at *
  simp only [Nat.shiftRight_eq_div_pow, Nat.shiftLeft_eq]
  rw [Nat.mod_eq_of_lt (a := _ * 2 ^ 24) (by omega), Nat.mod_eq_of_lt (a := _ * 2 ^ 16) (by omega),
    Nat.mod_eq_of_lt (a := _ * 2 ^ 8) (by omega)]
  rw [Nat.or_assoc, Nat.or_assoc]
  simp only [← Nat.shiftLeft_eq]
  rw [Bits.nat_shl_or (x.toNat / 2 ^ 8 % 256) _ 8 (by omega)]
  rw [Bits.nat_shl_or (x.toNat / 2 ^ 16 % 256) _ 16 (by omega)]
  rw [Bits.nat_shl_or (x.toNat / 2 ^ 24 % 256) _ 24 (by omega)]
  omega

/-- the word count written into the extension header reads back as the block length -/
theorem wordCount_roundtrip (n : Nat) (h4 : n % 4 = 0) (hle : n ≤ 65535 * 4) :
    (n / 4).toUInt16.toNat * 4 = n := by
  simp only [Nat.toUInt16, UInt16.toNat_ofNat']
  rw [Nat.mod_eq_of_lt (by omega)]; omega

/-! ### first header byte: V, P, X, CC -/

def byte0 (v : UInt8) (cc : Nat) (p x : Bool) : UInt8 :=
  let b0 : UInt8 := (v <<< 6) ||| cc.toUInt8
  let b0 := if p then b0 ||| ((1 : UInt8) <<< 5) else b0
  if x then b0 ||| ((1 : UInt8) <<< 4) else b0

theorem byte0_table : ∀ v : Fin 4, ∀ c : Fin 16, ∀ p x : Bool,
    let b := byte0 (UInt8.ofNat v.val) c.val p x
    (b &&& 0x0F).toNat = c.val ∧ ((b >>> 6) &&& 0x3) = UInt8.ofNat v.val ∧
    (decide (((b >>> 5) &&& 0x1) > 0) = p) ∧ (decide (((b >>> 4) &&& 0x1) > 0) = x) := by
  decide +kernel

theorem byte0_fields (v : UInt8) (cc : Nat) (p x : Bool) (hv : v.toNat < 4) (hc : cc ≤ 15) :
    ((byte0 v cc p x) &&& 0x0F).toNat = cc ∧ (((byte0 v cc p x) >>> 6) &&& 0x3) = v ∧
    (decide ((((byte0 v cc p x) >>> 5) &&& 0x1) > 0) = p) ∧
    (decide ((((byte0 v cc p x) >>> 4) &&& 0x1) > 0) = x) := by
  have := byte0_table ⟨v.toNat, hv⟩ ⟨cc, by omega⟩ p x
  simpa using this

/-! ### second header byte: M, PT -/

def byte1 (pt : UInt8) (m : Bool) : UInt8 := if m then pt ||| ((1 : UInt8) <<< 7) else pt

theorem byte1_table : ∀ pt : Fin 128, ∀ m : Bool,
    let b := byte1 (UInt8.ofNat pt.val) m
    (decide (((b >>> 7) &&& 0x1) > 0) = m) ∧ (b &&& 0x7F) = UInt8.ofNat pt.val := by
  decide +kernel

theorem byte1_fields (pt : UInt8) (m : Bool) (hpt : pt.toNat < 128) :
    (decide ((((byte1 pt m) >>> 7) &&& 0x1) > 0) = m) ∧ ((byte1 pt m) &&& 0x7F) = pt := by
  have := byte1_table ⟨pt.toNat, hpt⟩ m
  simpa using this

/-! ### one-byte element header: id 1–14, length 1–16 -/

theorem oneByteHdr_table : ∀ id : Fin 15, ∀ len : Fin 17, 1 ≤ id.val → 1 ≤ len.val →
    let b := oneByteHdr (UInt8.ofNat id.val) len.val
    b ≠ 0 ∧ (b >>> 4) = UInt8.ofNat id.val ∧ (b >>> 4) ≠ 15 ∧ (b &&& 0x0F).toNat + 1 = len.val := by
  decide +kernel

theorem oneByteHdr_fields (id : UInt8) (len : Nat) (h1 : 1 ≤ id.toNat) (h2 : id.toNat ≤ 14)
    (h3 : 1 ≤ len) (h4 : len ≤ 16) :
    oneByteHdr id len ≠ 0 ∧ (oneByteHdr id len >>> 4) = id ∧ (oneByteHdr id len >>> 4) ≠ 15 ∧
    (oneByteHdr id len &&& 0x0F).toNat + 1 = len := by
  have := oneByteHdr_table ⟨id.toNat, by omega⟩ ⟨len, by omega⟩ h1 h3
  simpa using this

/-- two-byte element: the length byte reads back -/
theorem lenByte_roundtrip (len : Nat) (h : len ≤ 255) : len.toUInt8.toNat = len := by
  simp only [Nat.toUInt8, UInt8.toNat_ofNat']; omega

theorem fixedBytes_eq (h : Header) :
    fixedBytes h = byte0 h.version h.csrc.length h.padding h.extension :: byte1 h.payloadType h.marker ::
      (be16 h.seq ++ (be32 h.ts ++ (be32 h.ssrc ++ (h.csrc.map be32).flatten))) := by
  simp [fixedBytes, byte0, byte1]

end Rtp.Proofs.PacketRt
