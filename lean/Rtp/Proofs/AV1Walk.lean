/-
  Rtp/Proofs/AV1Walk.lean — the OBU-stream scanner of Payload on a serialised well-formed OBU sequence.
-/
import Rtp.Proofs.AV1PayTop
namespace Rtp.Model.AV1
open Rtp Rtp.Model Rtp.Spec.Av1Rtp
open Rtp.Model.ObuLemmas

theorem toUInt64_toNat_small (n : Nat) (h : n < 2 ^ 56) : n.toUInt64.toNat = n := by
  simp [Nat.toUInt64]; omega

theorem wire_length_pos (o : Obu) : 1 ≤ o.wire.length := by
  have := size_pos o.hdr
  simp [Obu.wire, marshal_length]; omega

/-- scanning what `serialise` produced gives back the OBUs, header and payload -/
theorem walk_serialise (hleb : LebGoSpec) (obus : List Obu) (hwf : obusWF obus = true) (fuel : Nat)
    (hf : (serialise obus).length ≤ fuel) :
    walk fuel (serialise obus) = obus.map (fun o => (o.hdr, o.payload)) := by
  induction obus generalizing fuel with
  | nil => cases fuel <;> simp [serialise, walk, parseObuHeader]
  | cons o os ih =>
    have hwl := wire_length_pos o
    have hser : serialise (o :: os) = o.wire ++ serialise os := by simp [serialise]
    rw [hser] at hf ⊢
    simp only [List.length_append] at hf
    match fuel, hf with
    | 0, hf => omega
    | f + 1, hf =>
      have hhdr : hdrWF o.hdr = true ∧ o.payload.length < 2 ^ 56 ∧ (os ≠ [] → o.hdr.hasSize = true) ∧
          obusWF os = true := by
        cases os with
        | nil => simp only [obusWF, Bool.and_eq_true, decide_eq_true_eq] at hwf; exact ⟨hwf.1, hwf.2, fun h => absurd rfl h, rfl⟩
        | cons o' os' =>
          simp only [obusWF, Bool.and_eq_true, decide_eq_true_eq] at hwf
          exact ⟨hwf.1.1.1, hwf.1.2, fun _ => hwf.1.1.2, hwf.2⟩
      obtain ⟨hh, hsmall, hsz, hrest⟩ := hhdr
      have hparse : parseObuHeader (o.wire ++ serialise os) = .ok o.hdr := by
        simp only [Obu.wire, List.append_assoc]
        exact parse_marshal o.hdr hh _
      have hdrop : (o.wire ++ serialise os).drop o.hdr.size =
          (if o.hdr.hasSize then writeLeb o.payload.length else []) ++ o.payload ++ serialise os := by
        simp only [Obu.wire, List.append_assoc]
        rw [List.drop_left' (marshal_length o.hdr)]
      unfold walk
      rw [hparse]
      dsimp only
      rw [hdrop]
      by_cases hs : o.hdr.hasSize = true
      · simp only [hs, if_true, List.append_assoc]
        rw [hleb o.payload.length _ hsmall]
        dsimp only
        rw [List.drop_left' rfl, toUInt64_toNat_small _ hsmall]
        have hle : ¬ o.payload.length > (o.payload ++ serialise os).length := by simp
        rw [if_neg hle, List.take_left' rfl, List.drop_left' rfl]
        rw [ih hrest f (by
          have : o.wire.length = o.hdr.size + (writeLeb o.payload.length).length + o.payload.length := by
            simp [Obu.wire, hs, marshal_length]; omega
          omega)]
        simp
      · have hs' : o.hdr.hasSize = false := by simpa using hs
        have hos : os = [] := by
          cases os with
          | nil => rfl
          | cons a b => exact absurd (hsz (by simp)) hs
        subst hos
        simp [hs', serialise]

theorem not_dropped_eq_kept (o : Obu) : (!dropped o.hdr) = o.kept := by
  simp only [dropped, Obu.kept, bne]
  cases (o.hdr.type == obuTileList) <;> cases (o.hdr.type == obuTemporalDelimiter) <;> rfl

theorem flushedOf_map (obus : List Obu) :
    flushedOf (obus.map (fun o => (o.hdr, o.payload))) = normalise obus := by
  unfold flushedOf normalise
  induction obus with
  | nil => rfl
  | cons o os ih =>
    simp only [List.map_cons, List.filter_cons, not_dropped_eq_kept]
    cases o.kept
    · simpa using ih
    · simp only [if_true, List.map_cons, ih]
      rfl

end Rtp.Model.AV1
