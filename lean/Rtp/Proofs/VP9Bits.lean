/-
  Rtp/Proofs/VP9Bits.lean — the bit reader of codecs/vp9/bits.go against the bit-string semantics of
  Spec/Vp9Bits.lean (`c12_bits`).
-/
import Rtp.Model.VP9Header
import Rtp.Spec.Vp9Bits
namespace Rtp.Proofs.VP9Bits
open Rtp Rtp.Model Rtp.Spec.Vp9Bits

/-! ### bit strings -/

theorem natOfBits_foldl (bs : List Bool) (a : Nat) :
    bs.foldl (fun a b => 2 * a + b.toNat) a = a * 2 ^ bs.length + natOfBits bs := by
  induction bs generalizing a with
  | nil => simp [natOfBits]
  | cons b bs ih =>
    simp only [List.foldl_cons, List.length_cons, natOfBits, ih (2 * a + b.toNat), ih (2 * 0 + b.toNat)]
    rw [Nat.pow_succ]
    simp only [Nat.mul_zero, Nat.zero_add]
    generalize 2 ^ bs.length = k
    have : (2 * a + b.toNat) * k = a * (k * 2) + b.toNat * k := by
      rw [Nat.add_mul, Nat.mul_comm 2 a, Nat.mul_assoc, Nat.mul_comm 2 k]
    omega

theorem natOfBits_cons (b : Bool) (bs : List Bool) :
    natOfBits (b :: bs) = b.toNat * 2 ^ bs.length + natOfBits bs := by
  have := natOfBits_foldl bs (2 * 0 + b.toNat)
  simpa [natOfBits] using this

theorem natOfBits_append (xs ys : List Bool) :
    natOfBits (xs ++ ys) = natOfBits xs * 2 ^ ys.length + natOfBits ys := by
  induction xs with
  | nil => simp [natOfBits]
  | cons b xs ih =>
    simp only [List.cons_append, natOfBits_cons, ih, List.length_append, Nat.pow_add]
    rw [Nat.add_mul, Nat.mul_assoc, Nat.add_assoc]

theorem natOfBits_lt (bs : List Bool) : natOfBits bs < 2 ^ bs.length := by
  induction bs with
  | nil => simp [natOfBits]
  | cons b bs ih =>
    rw [natOfBits_cons, List.length_cons, Nat.pow_succ]
    cases b <;> simp <;> omega

theorem bitsOfNat_length (n v : Nat) : (bitsOfNat n v).length = n := by
  induction n with
  | zero => rfl
  | succ n ih => simp [bitsOfNat, ih]

/-- `natOfBits (bitsOfNat n v) = v mod 2^n` -/
theorem natOfBits_bitsOfNat (n v : Nat) : natOfBits (bitsOfNat n v) = v % 2 ^ n := by
  induction n with
  | zero => simp [bitsOfNat, natOfBits, Nat.mod_one]
  | succ n ih =>
    rw [bitsOfNat, natOfBits_cons, bitsOfNat_length, ih]
    have h2 : (v / 2 ^ n % 2 == 1).toNat = v / 2 ^ n % 2 := by
      rcases Nat.mod_two_eq_zero_or_one (v / 2 ^ n) with h | h <;> simp [h]
    rw [h2, Nat.pow_succ, Nat.mod_mul, Nat.add_comm, Nat.mul_comm]

theorem drop_bitsOfNat (m v : Nat) : ∀ r, r ≤ m → (bitsOfNat m v).drop r = bitsOfNat (m - r) v := by
  induction m with
  | zero => intro r hr; have : r = 0 := by omega
            subst this; rfl
  | succ m ih =>
    intro r hr
    cases r with
    | zero => rfl
    | succ r =>
      rw [bitsOfNat, List.drop_succ_cons, ih r (by omega)]
      congr 1; omega

theorem take_bitsOfNat (m v : Nat) : ∀ n, n ≤ m → (bitsOfNat m v).take n = bitsOfNat n (v / 2 ^ (m - n)) := by
  induction m with
  | zero => intro n hn; have : n = 0 := by omega
            subst this; rfl
  | succ m ih =>
    intro n hn
    cases n with
    | zero => rfl
    | succ n =>
      rw [bitsOfNat, List.take_succ_cons, ih n (by omega), bitsOfNat]
      have e : m + 1 - (n + 1) = m - n := by omega
      rw [e, Nat.div_div_eq_div_mul, ← Nat.pow_add]
      have e2 : m - n + n = m := by omega
      rw [e2]

/-- bits `r … r+n` of an `m`-bit number -/
theorem slice_bitsOfNat (m v r n : Nat) (h : r + n ≤ m) :
    natOfBits (((bitsOfNat m v).drop r).take n) = v / 2 ^ (m - r - n) % 2 ^ n := by
  rw [drop_bitsOfNat m v r (by omega), take_bitsOfNat (m - r) v n (by omega), natOfBits_bitsOfNat]

theorem byteBits_length (b : UInt8) : (byteBits b).length = 8 := bitsOfNat_length 8 _

theorem bitsOf_length (buf : Bytes) : (bitsOf buf).length = 8 * buf.length := by
  induction buf with
  | nil => rfl
  | cons b r ih => simp only [bitsOf, List.length_append, byteBits_length, ih, List.length_cons]; omega

/-- dropping whole bytes -/
theorem drop_bitsOf (buf : Bytes) : ∀ q, (bitsOf buf).drop (8 * q) = bitsOf (buf.drop q) := by
  induction buf with
  | nil => intro q; simp [bitsOf]
  | cons b r ih =>
    intro q
    cases q with
    | zero => rfl
    | succ q =>
      have e : 8 * (q + 1) = 8 + 8 * q := by omega
      have h8 : (byteBits b ++ bitsOf r).drop 8 = bitsOf r := by
        have := @List.drop_left _ (byteBits b) (bitsOf r)
        rwa [byteBits_length] at this
      rw [bitsOf, e, ← List.drop_drop, h8, List.drop_succ_cons]
      exact ih q

/-- the value of `n` bits at bit offset `pos` -/
def bitsVal (buf : Bytes) (pos n : Nat) : Nat := natOfBits (((bitsOf buf).drop pos).take n)

/-- bits at `pos`, expressed from the byte they start in -/
theorem drop_pos (buf : Bytes) (pos : Nat) :
    (bitsOf buf).drop pos = (bitsOf (buf.drop (pos / 8))).drop (pos % 8) := by
  have : pos = 8 * (pos / 8) + pos % 8 := by omega
  rw [← drop_bitsOf, List.drop_drop]
  congr 1

/-- a read that stays inside one byte -/
theorem bitsVal_in_byte (buf : Bytes) (pos n : Nat) (b : UInt8) (hb : buf[pos / 8]? = some b)
    (h : pos % 8 + n ≤ 8) : bitsVal buf pos n = b.toNat / 2 ^ (8 - pos % 8 - n) % 2 ^ n := by
  unfold bitsVal
  rw [drop_pos]
  have hd : buf.drop (pos / 8) = b :: buf.drop (pos / 8 + 1) := by
    rw [List.getElem?_eq_some_iff] at hb
    obtain ⟨hlt, hbe⟩ := hb
    rw [← hbe]; exact List.drop_eq_getElem_cons hlt
  rw [hd, bitsOf, List.drop_append, List.take_append]
  have hl : ((byteBits b).drop (pos % 8)).length = 8 - pos % 8 := by
    rw [List.length_drop, byteBits_length]
  rw [hl]
  have h0 : n - (8 - pos % 8) = 0 := by omega
  rw [h0, List.take_zero, List.append_nil]
  exact slice_bitsOfNat 8 b.toNat (pos % 8) n h

/-- splitting a read -/
theorem bitsVal_split (buf : Bytes) (pos a b : Nat) (h : pos + a + b ≤ 8 * buf.length) :
    bitsVal buf pos (a + b) = bitsVal buf pos a * 2 ^ b + bitsVal buf (pos + a) b := by
  unfold bitsVal
  have hlen : ((bitsOf buf).drop pos).length = 8 * buf.length - pos := by
    rw [List.length_drop, bitsOf_length]
  rw [List.take_add, natOfBits_append, List.drop_drop]
  congr 2
  rw [List.length_take, List.length_drop, bitsOf_length, Nat.min_eq_left (by omega)]

theorem bitsVal_lt (buf : Bytes) (pos n : Nat) : bitsVal buf pos n < 2 ^ n := by
  unfold bitsVal
  have := natOfBits_lt (((bitsOf buf).drop pos).take n)
  have hl : (((bitsOf buf).drop pos).take n).length ≤ n := List.length_take_le _ _
  exact Nat.lt_of_lt_of_le this (Nat.pow_le_pow_right (by decide) hl)

theorem bitsVal_zero (buf : Bytes) (pos : Nat) : bitsVal buf pos 0 = 0 := by
  simp [bitsVal, natOfBits]

/-! ### the reader -/

theorem byteAt_ok (buf : Bytes) (i : Nat) (h : i < buf.length) :
    vp9ByteAt buf i = .ok buf[i] ∧ buf[i]? = some buf[i] := by
  simp [vp9ByteAt, List.getElem?_eq_getElem h]

/-- readFlagUnsafe reads bit `pos` -/
theorem readFlagUnsafe_eq (buf : Bytes) (pos : Nat) (h : pos < 8 * buf.length) :
    vp9ReadFlagUnsafe buf pos = .ok (bitsVal buf pos 1 == 1, pos + 1) := by
  have hi : pos / 8 < buf.length := by omega
  obtain ⟨h1, h2⟩ := byteAt_ok buf (pos / 8) hi
  have hv := bitsVal_in_byte buf pos 1 _ h2 (by omega)
  have e : 8 - pos % 8 - 1 = 7 - pos % 8 := by omega
  simp only [vp9ReadFlagUnsafe, h1, Res.bind_ok, Res.pure_eq, hv, e, Nat.pow_one]

theorem loop_eq (buf : Bytes) : ∀ (fuel bits pos n : Nat), pos % 8 = 0 → pos + n ≤ 8 * buf.length →
    n / 8 ≤ fuel →
    vp9ReadBytesLoop buf fuel bits pos n =
      .ok (bits * 2 ^ (8 * (n / 8)) + bitsVal buf pos (8 * (n / 8)), pos + 8 * (n / 8), n % 8) := by
  intro fuel
  induction fuel with
  | zero =>
    intro bits pos n _ _ hf
    have h0 : n / 8 = 0 := by omega
    have hn : n % 8 = n := by omega
    simp [vp9ReadBytesLoop, h0, hn, bitsVal_zero]
  | succ f ih =>
    intro bits pos n hp hl hf
    by_cases h8 : 8 ≤ n
    · have hi : pos / 8 < buf.length := by omega
      obtain ⟨h1, h2⟩ := byteAt_ok buf (pos / 8) hi
      have hb := bitsVal_in_byte buf pos 8 _ h2 (by omega)
      have hb' : bitsVal buf pos 8 = buf[pos / 8].toNat := by
        rw [hb, hp]; simp only [Nat.sub_zero, Nat.sub_self, Nat.pow_zero, Nat.div_one]
        exact Nat.mod_eq_of_lt buf[pos / 8].toNat_lt
      have hk : n / 8 = (n - 8) / 8 + 1 := by omega
      have ih' := ih (bits * 256 + buf[pos / 8].toNat) (pos + 8) (n - 8) (by omega) (by omega) (by omega)
      simp only [vp9ReadBytesLoop, h8, if_true, h1, Res.bind_ok, ih']
      have hsplit := bitsVal_split buf pos 8 (8 * ((n - 8) / 8)) (by omega)
      have e1 : 8 * (n / 8) = 8 + 8 * ((n - 8) / 8) := by omega
      have e2 : (n - 8) % 8 = n % 8 := by omega
      have e3 : pos + 8 + 8 * ((n - 8) / 8) = pos + 8 * (n / 8) := by omega
      have hval : (bits * 256 + buf[pos / 8].toNat) * 2 ^ (8 * ((n - 8) / 8)) +
          bitsVal buf (pos + 8) (8 * ((n - 8) / 8)) =
          bits * 2 ^ (8 * (n / 8)) + bitsVal buf pos (8 * (n / 8)) := by
        rw [e1, hsplit, hb', Nat.pow_add]
        generalize 2 ^ (8 * ((n - 8) / 8)) = K
        generalize bitsVal buf (pos + 8) (8 * ((n - 8) / 8)) = V
        have : (2 : Nat) ^ 8 = 256 := by decide
        rw [this, Nat.add_mul, Nat.mul_assoc]
        omega
      rw [hval, e2, e3]
    · have h0 : n / 8 = 0 := by omega
      have hn : n % 8 = n := by omega
      simp [vp9ReadBytesLoop, h8, h0, hn, bitsVal_zero]

/-- `c12_bits`: readBitsUnsafe returns the `n` bits at bit offset `pos`, most significant first -/
theorem readBitsUnsafe_eq (buf : Bytes) (pos n : Nat) (hn : 0 < n) (h64 : n ≤ 64)
    (h : pos + n ≤ 8 * buf.length) :
    vp9ReadBitsUnsafe buf pos n = .ok (bitsVal buf pos n, pos + n) := by
  have hi : pos / 8 < buf.length := by omega
  obtain ⟨h1, h2⟩ := byteAt_ok buf (pos / 8) hi
  by_cases hlt : n < 8 - pos % 8
  · have hv := bitsVal_in_byte buf pos n _ h2 (by omega)
    simp only [vp9ReadBitsUnsafe, h1, Res.bind_ok, hlt, if_true, Res.pure_eq, hv]
  · have hres := bitsVal_in_byte buf pos (8 - pos % 8) _ h2 (by omega)
    simp only [Nat.sub_self, Nat.pow_zero, Nat.div_one] at hres
    have hloop := loop_eq buf (n / 8 + 1) (buf[pos / 8].toNat % 2 ^ (8 - pos % 8)) (pos + (8 - pos % 8))
      (n - (8 - pos % 8)) (by omega) (by omega) (by omega)
    rw [← hres] at hloop
    simp only [vp9ReadBitsUnsafe, h1, Res.bind_ok, hlt, if_false, ← hres, hloop]
    have hsp1 := bitsVal_split buf pos (8 - pos % 8) (8 * ((n - (8 - pos % 8)) / 8)) (by omega)
    by_cases hn2 : 0 < (n - (8 - pos % 8)) % 8
    · have hi2 : (pos + (8 - pos % 8) + 8 * ((n - (8 - pos % 8)) / 8)) / 8 < buf.length := by omega
      obtain ⟨h3, h4⟩ := byteAt_ok buf _ hi2
      have hv2 := bitsVal_in_byte buf (pos + (8 - pos % 8) + 8 * ((n - (8 - pos % 8)) / 8))
        ((n - (8 - pos % 8)) % 8) _ h4 (by omega)
      have hal : (pos + (8 - pos % 8) + 8 * ((n - (8 - pos % 8)) / 8)) % 8 = 0 := by omega
      rw [hal, Nat.sub_zero] at hv2
      have hsm : buf[(pos + (8 - pos % 8) + 8 * ((n - (8 - pos % 8)) / 8)) / 8].toNat /
          2 ^ (8 - (n - (8 - pos % 8)) % 8) < 2 ^ ((n - (8 - pos % 8)) % 8) := by
        rw [Nat.div_lt_iff_lt_mul (Nat.two_pow_pos _), ← Nat.pow_add]
        have : (n - (8 - pos % 8)) % 8 + (8 - (n - (8 - pos % 8)) % 8) = 8 := by omega
        rw [this]; exact UInt8.toNat_lt _
      rw [Nat.mod_eq_of_lt hsm] at hv2
      simp only [hn2, if_true, h3, Res.bind_ok, Res.pure_eq, ← hv2, ← hsp1]
      have hsp2 := bitsVal_split buf pos ((8 - pos % 8) + 8 * ((n - (8 - pos % 8)) / 8))
        ((n - (8 - pos % 8)) % 8) (by omega)
      have etot : (8 - pos % 8) + 8 * ((n - (8 - pos % 8)) / 8) + (n - (8 - pos % 8)) % 8 = n := by omega
      have epos : pos + ((8 - pos % 8) + 8 * ((n - (8 - pos % 8)) / 8)) =
          pos + (8 - pos % 8) + 8 * ((n - (8 - pos % 8)) / 8) := by omega
      rw [etot, epos] at hsp2
      rw [← hsp2]
      have hlt64 : bitsVal buf pos n < 2 ^ 64 :=
        Nat.lt_of_lt_of_le (bitsVal_lt buf pos n) (Nat.pow_le_pow_right (by decide) h64)
      rw [Nat.mod_eq_of_lt hlt64]
      congr 2; omega
    · have hz : (n - (8 - pos % 8)) % 8 = 0 := by omega
      have etot : (8 - pos % 8) + 8 * ((n - (8 - pos % 8)) / 8) = n := by omega
      rw [etot] at hsp1
      simp only [hz, Nat.lt_irrefl, if_false, Res.pure_eq, ← hsp1]
      have hlt64 : bitsVal buf pos n < 2 ^ 64 :=
        Nat.lt_of_lt_of_le (bitsVal_lt buf pos n) (Nat.pow_le_pow_right (by decide) h64)
      rw [Nat.mod_eq_of_lt hlt64]
      congr 2; omega

end Rtp.Proofs.VP9Bits
