/-
  Rtp/Proofs/HeaderExtId0.lean — one-byte (0xBEDE) blocks that carry elements with id 0.

  The one-byte parser treats a header byte 0x00 as padding and 0x01–0x0F as an element with id 0
  and 2–16 bytes; so an element with id 0 and ONE byte never comes out of the parser, and every
  id-0 element that does (2–16 bytes) is written back by Marshal as the same header byte
  (`0<<4 | (len-1)` = 0x01–0x0F) and parsed again as the same element.  Hence the header round
  trip of C01 extends from ids 1–14 to ids 0–14 with "id 0 ⇒ at least two bytes" (`ok0`), and
  C05's invariant extends accordingly (`legal0`): SetExtension still refuses id 0, DelExtension
  removes such elements like any other.
-/
import Rtp.Proofs.HeaderExtStart
import Rtp.Proofs.PacketRtHeader
namespace Rtp.Proofs.HeaderExtId0
open Rtp Rtp.Model Rtp.Pred Rtp.Pred.C05 Rtp.Proofs.HeaderExt Rtp.Proofs.PacketRt Rtp.Proofs.PacketParse
open Rtp.Spec.OrderedMap (Map Op)

/-! ### the elements a one-byte block can carry across the wire -/

/-- id 0–14, 1–16 bytes, and id 0 only with at least two bytes (header byte 0x00 is padding) -/
def ok0 (e : Ext) : Bool :=
  e.id.toNat ≤ 14 && 1 ≤ e.payload.length && e.payload.length ≤ 16 &&
    (e.id.toNat != 0 || 2 ≤ e.payload.length)

theorem ok0_iff (e : Ext) : ok0 e = true ↔
    e.id.toNat ≤ 14 ∧ 1 ≤ e.payload.length ∧ e.payload.length ≤ 16 ∧
      (e.id.toNat = 0 → 2 ≤ e.payload.length) := by
  simp only [ok0, Bool.and_eq_true, Bool.or_eq_true, decide_eq_true_eq, bne_iff_ne, ne_eq]
  constructor
  · rintro ⟨⟨⟨a, b⟩, c⟩, d⟩; exact ⟨a, b, c, fun h0 => by rcases d with d | d; exact absurd h0 d; exact d⟩
  · rintro ⟨a, b, c, d⟩
    refine ⟨⟨⟨a, b⟩, c⟩, ?_⟩
    by_cases h0 : e.id.toNat = 0
    · exact Or.inr (d h0)
    · exact Or.inl h0

/-- the element header byte, ids 0–14: everything reads back unless it is id 0 with one byte -/
theorem oneByteHdr_table0 : ∀ id : Fin 15, ∀ len : Fin 17, 1 ≤ len.val → (id.val = 0 → 2 ≤ len.val) →
    let b := oneByteHdr (UInt8.ofNat id.val) len.val
    b ≠ 0 ∧ (b >>> 4) = UInt8.ofNat id.val ∧ (b >>> 4) ≠ 15 ∧ (b &&& 0x0F).toNat + 1 = len.val := by
  decide +kernel

theorem oneByteHdr_fields0 (id : UInt8) (len : Nat) (h2 : id.toNat ≤ 14)
    (h3 : 1 ≤ len) (h4 : len ≤ 16) (h0 : id.toNat = 0 → 2 ≤ len) :
    oneByteHdr id len ≠ 0 ∧ (oneByteHdr id len >>> 4) = id ∧ (oneByteHdr id len >>> 4) ≠ 15 ∧
    (oneByteHdr id len &&& 0x0F).toNat + 1 = len := by
  have := oneByteHdr_table0 ⟨id.toNat, by omega⟩ ⟨len, by omega⟩ h3 h0
  simpa using this

/-- what happens to the excluded case: id 0 with one byte is written as 0x00, i.e. as padding -/
theorem oneByteHdr_id0_len1 : oneByteHdr 0 1 = 0 := by decide

/-- one serialised element in front of anything -/
theorem parseOneByte_elem0 (e : Ext) (he : ok0 e = true) (l : Bytes) :
    parseOneByte ((oneByteHdr e.id e.payload.length :: e.payload) ++ l) =
      match parseOneByte l with
      | .ok (es, left) => .ok (e :: es, left)
      | .err k => .err k
      | .panic => .panic := by
  obtain ⟨h2, h3, h4, h0⟩ := (ok0_iff e).mp he
  obtain ⟨hb, hid, h15, hlen⟩ := oneByteHdr_fields0 e.id e.payload.length h2 h3 h4 h0
  rw [List.cons_append, parseOneByte]
  have hb' : (oneByteHdr e.id e.payload.length == 0) = false := by simpa using hb
  have h15' : (e.id == 15) = false := by
    have : e.id ≠ 15 := by intro h0; rw [h0] at h2; simp at h2
    simpa using this
  simp only [hb', Bool.false_eq_true, if_false, h15', hlen, hid, List.length_append,
    List.take_left', List.drop_left']
  rw [if_neg (by omega)]
  rfl

theorem parseOneByte_body0 (es : List Ext) (hes : ∀ e ∈ es, ok0 e = true) (k : Nat) :
    parseOneByte ((es.map fun e => (oneByteHdr e.id e.payload.length :: e.payload)).flatten ++ rep k 0)
      = .ok (es, 0) := by
  induction es with
  | nil => simpa using parseOneByte_zeros k
  | cons e es ih =>
    simp only [List.map_cons, List.flatten_cons, List.append_assoc]
    rw [parseOneByte_elem0 e (hes e (by simp)), ih (fun e' h' => hes e' (by simp [h']))]

/-- the domain of the extended header round trip: sane fixed fields, X on, one-byte profile, every
    element `ok0`, block within the 16-bit word count -/
def wf0 (h : Header) : Bool :=
  fixedOk h && h.extension && h.extProfile == profileOneByte && h.exts.all ok0 &&
    extBodySize h ≤ 65535 * 4

theorem wf0_iff (h : Header) : wf0 h = true ↔
    fixedOk h = true ∧ h.extension = true ∧ h.extProfile = profileOneByte ∧ h.exts.all ok0 = true ∧
      extBodySize h ≤ 65535 * 4 := by
  simp only [wf0, Bool.and_eq_true, beq_iff_eq, decide_eq_true_eq]
  constructor
  · rintro ⟨⟨⟨⟨a, b⟩, c⟩, d⟩, e⟩; exact ⟨a, b, c, d, e⟩
  · rintro ⟨a, b, c, d, e⟩; exact ⟨⟨⟨⟨a, b⟩, c⟩, d⟩, e⟩

theorem ser_of_wf0 (h : Header) (hw : wf0 h = true) : Ser h := by
  obtain ⟨_, _, hp, _, _⟩ := (wf0_iff h).mp hw
  intro _
  have h1 : (h.extProfile == profileOneByte) = true := by simp [hp]
  simp [wireBody, extBodyBytes, h1]

theorem hdrMarshal_wf0 (h : Header) (hw : wf0 h = true) : hdrMarshal h = .ok (hdrWire h) :=
  hdrMarshal_ser h (ser_of_wf0 h hw)

theorem hdrWire_length0 (h : Header) (hw : wf0 h = true) : (hdrWire h).length = hdrMarshalSize h :=
  hdrWire_length_ser h (ser_of_wf0 h hw)

/-- `Header.Unmarshal` of the serialised header, into any receiver, whatever follows: the header
    itself and its size — for one-byte blocks with ids 0–14 (id 0: at least two bytes) -/
theorem hdrUnmarshal_wire0 (h : Header) (hw : wf0 h = true) (r : Header) (tail : Bytes) :
    hdrUnmarshal r (hdrWire h ++ tail) = .ok (h, hdrMarshalSize h) := by
  obtain ⟨hf, hx, hp, hall, hsz⟩ := (wf0_iff h).mp hw
  simp only [fixedOk, Bool.and_eq_true, decide_eq_true_eq] at hf
  obtain ⟨⟨hv, hpt⟩, hc⟩ := hf
  obtain ⟨f01, f02, f03, f04⟩ := byte0_fields h.version h.csrc.length h.padding h.extension hv hc
  obtain ⟨f11, f12⟩ := byte1_fields h.payloadType h.marker hpt
  rw [hx] at f01 f02 f03 f04
  have hbw : extBodyBytes h = .ok (wireBody h) := ser_of_wf0 h hw hx
  have hbl := extBody_length h _ hbw
  have hbody : wireBody h = (h.exts.map fun e => (oneByteHdr e.id e.payload.length :: e.payload)).flatten := by
    have h1 : (h.extProfile == profileOneByte) = true := by simp [hp]
    simp [wireBody, extBodyBytes, h1]
  generalize hbd : wireBody h = body at *
  have hge := round4_ge body.length
  have hw' : hdrWire h ++ tail =
      byte0 h.version h.csrc.length h.padding true :: byte1 h.payloadType h.marker ::
        (be16 h.seq ++ (be32 h.ts ++ (be32 h.ssrc ++ ((h.csrc.map be32).flatten ++
          (((h.extProfile >>> 8).toUInt8 :: h.extProfile.toUInt8 ::
            ((round4 body.length / 4).toUInt16 >>> 8).toUInt8 :: (round4 body.length / 4).toUInt16.toUInt8 ::
            ((body ++ rep (round4 body.length - body.length) 0) ++ tail))))))) := by
    simp [hdrWire, hdrBytes, hx, fixedBytes_eq, extPart, hbd, be16]
  rw [hw', hdrUnmarshal_fixed _ _ _ _ _ _ _ _ f01]
  have hblock : (body ++ rep (round4 body.length - body.length) 0).length = round4 body.length := by
    simp [rep]; omega
  have hwc : (round4 body.length / 4).toUInt16.toNat * 4 = round4 body.length :=
    wordCount_roundtrip _ (round4_mod _) (by have := round4_lt body.length; have := round4_mod body.length; omega)
  simp only [f02, f03, f04, f11, f12, if_true, rd16_be16, hwc]
  rw [if_neg (by simp only [List.length_append, hblock]; omega)]
  rw [show List.take (round4 body.length) ((body ++ rep (round4 body.length - body.length) 0) ++ tail)
      = body ++ rep (round4 body.length - body.length) 0 by
    rw [List.take_append_of_le_length (by omega), List.take_of_length_le (by omega)]]
  have hparse : parseExtBlock h.extProfile (body ++ rep (round4 body.length - body.length) 0)
      = .ok (h.exts, round4 body.length) := by
    unfold parseExtBlock
    rw [if_pos (by simp [hp]), hbody, parseOneByte_body0 h.exts (fun e he => List.all_eq_true.mp hall e he)]
    simp only [← hbody, hblock]; rfl
  rw [hparse]
  have hs : hdrMarshalSize h = 12 + h.csrc.length * 4 + 4 + round4 body.length := by
    simp [hdrMarshalSize, hx, round4_add4, hbl]; omega
  rw [hs]
  congr 2
  cases h; simp_all

/-- the extended header round trip: Marshal succeeds and the bytes decode, into any receiver, to
    the very same header -/
theorem header_roundtrip0 (h : Header) (hw : wf0 h = true) :
    ∃ bs, hdrMarshal h = .ok bs ∧ bs.length = hdrMarshalSize h ∧
      ∀ r : Header, hdrUnmarshal r bs = .ok (h, bs.length) := by
  refine ⟨hdrWire h, hdrMarshal_wf0 h hw, hdrWire_length0 h hw, fun r => ?_⟩
  have := hdrUnmarshal_wire0 h hw r []
  rw [List.append_nil] at this
  rw [this, hdrWire_length0 h hw]

/-! ### what the one-byte parser produces -/

/-- a non-zero header byte with id nibble 0 has a non-zero length nibble -/
theorem id0_len_ge (b : UInt8) (hb : b ≠ 0) (hid : (b >>> 4).toNat = 0) : 1 ≤ (b &&& 0x0F).toNat := by
  have h : ∀ x : UInt8, x ≠ 0 → (x >>> 4).toNat = 0 → 1 ≤ (x &&& 0x0F).toNat := by
    apply Rtp.Bits.forall_u8
    decide +kernel
  exact h b hb hid

/-- every element the one-byte parser produces is `ok0`: id ≤ 14, 1–16 bytes, id 0 ⇒ ≥ 2 bytes -/
theorem parseOneByteL_ok0 (off : Nat) (l : Bytes) :
    ∀ es left, C02.parseOneByteL off l = .ok (es, left) → ∀ x ∈ es, ok0 x.1 = true := by
  fun_induction C02.parseOneByteL off l with
  | case1 off => intro es left h; simp at h; obtain ⟨rfl, rfl⟩ := h; simp
  | case2 off b rest hb ih => intro es left h; exact ih es left h
  | case3 off b rest hb id hid => intro es left h; simp at h; obtain ⟨rfl, rfl⟩ := h; simp
  | case4 => intro es left h; simp at h
  | case5 off b rest hb id len hid hlen es' left' heq ih =>
    intro es left h
    simp only [Res.ok.injEq, Prod.mk.injEq] at h
    obtain ⟨rfl, rfl⟩ := h
    intro x hx
    rcases List.mem_cons.mp hx with rfl | hx
    · have h1 := shr4_le b
      have h2 := and15_le b
      have h3 : (b >>> 4).toNat ≠ 15 := by
        intro hc; apply hid
        simp only [id, beq_iff_eq]
        exact UInt8.toNat_inj.mp (by simpa using hc)
      have hb0 : b ≠ 0 := by simpa using hb
      have h4 := id0_len_ge b hb0
      rw [ok0_iff]
      simp only [List.length_take]
      simp only [len, id] at hlen ⊢
      refine ⟨by omega, by omega, by omega, fun h0 => ?_⟩
      have := h4 h0
      omega
    · exact ih es' left' heq x hx
  | case6 => intro es left h; simp at h
  | case7 => intro es left h; simp at h

/-- every header Header.Unmarshal produces with X on and the one-byte profile has `ok0` elements -/
theorem hdrUnmarshal_ok0 (r : Header) (buf : Bytes) (h : Header) (n : Nat)
    (hok : hdrUnmarshal r buf = .ok (h, n)) (hx : h.extension = true)
    (hp : h.extProfile = profileOneByte) : h.exts.all ok0 = true := by
  have hf := hdrUnmarshalL_fst r buf
  rw [hok] at hf
  cases hl : C02.hdrUnmarshalL r buf with
  | err e => rw [hl] at hf; simp [Res.map] at hf
  | panic => rw [hl] at hf; simp [Res.map] at hf
  | ok x =>
    obtain ⟨h', n', locs⟩ := x
    rw [hl] at hf
    simp only [Res.map, fstH, Res.ok.injEq, Prod.mk.injEq] at hf
    obtain ⟨rfl, rfl⟩ := hf
    obtain ⟨start, block, tail, es, used, _, hpb, he, _, _, _⟩ := hdrUnmarshalL_ok_ext r buf h' n' locs hl hx
    unfold C02.parseExtBlockL at hpb
    have h1 : (h'.extProfile == profileOneByte) = true := by simp [hp]
    simp only [h1, if_true] at hpb
    split at hpb
    · rename_i es' left heq
      simp only [Res.ok.injEq, Prod.mk.injEq] at hpb
      obtain ⟨rfl, rfl⟩ := hpb
      rw [List.all_eq_true]
      intro e hem
      rw [he] at hem
      obtain ⟨x, hxm, rfl⟩ := List.mem_map.mp hem
      exact parseOneByteL_ok0 _ _ es' left heq x hxm
    · simp at hpb
    · simp at hpb

/-! ### the invariant with id-0 elements -/

/-- `Inv` extended: … or X on, one-byte profile and every element `ok0` (what the one-byte parser
    produces; contains the one-byte case of `legal`) -/
def legal0 (h : Header) : Bool :=
  legal h || (h.extension && h.extProfile == profileOneByte && h.exts.all ok0)

theorem validate_one_ok0 (id : UInt8) (v : Bytes) (hv : validateExt profileOneByte id v.length = none) :
    ok0 { id := id, payload := v } = true := by
  have h := validate_accepts profileOneByte id v.length
  rw [hv] at h
  simp only [Option.isNone_none, Spec.OrderedMap.accepts, Spec.OrderedMap.oneByte, profileOneByte,
    beq_self_eq_true, if_true] at h
  have h' := h.symm
  simp only [Bool.and_eq_true, decide_eq_true_eq] at h'
  rw [ok0_iff]
  simp only
  omega

theorem legal0_set (h : Header) (id : UInt8) (v : Bytes) (hl : legal0 h = true) :
    legal0 (setExtension h id v).2 = true := by
  unfold legal0 at hl
  rcases (Bool.or_eq_true _ _).mp hl with hl | hl
  · unfold legal0; rw [legal_set h id v hl]; rfl
  · simp only [Bool.and_eq_true, beq_iff_eq] at hl
    obtain ⟨⟨hx, hp⟩, hall⟩ := hl
    rw [setExtension_eq]
    have hsp : setProfile h v.length = profileOneByte := by simp [setProfile, hx, hp]
    rw [hsp]
    cases hv : validateExt profileOneByte id v.length with
    | some e => simp [legal0, hx, hp, hall]
    | none =>
      have hu := all_upsert ok0 h.exts id v hall (fun e he => by subst he; exact validate_one_ok0 e.id v hv)
      simp [legal0, hx, hp, hu]

theorem legal0_del (h : Header) (id : UInt8) (hl : legal0 h = true) :
    legal0 (delExtension h id).2 = true := by
  unfold legal0 at hl
  rcases (Bool.or_eq_true _ _).mp hl with hl | hl
  · unfold legal0; rw [legal_del h id hl]; rfl
  · simp only [Bool.and_eq_true, beq_iff_eq] at hl
    obtain ⟨⟨hx, hp⟩, hall⟩ := hl
    unfold delExtension
    simp only [hx, Bool.not_true, Bool.false_eq_true, if_false]
    cases he : eraseExt h.exts id with
    | none => simp [legal0, hx, hp, hall]
    | some es =>
      have hu := all_erase ok0 h.exts es id hall he
      simp [legal0, hp, hu]

theorem legal0_step (h : Header) (op : Op) (hl : legal0 h = true) : legal0 (modelStep h op).2 = true := by
  cases op with
  | set id v => exact legal0_set h id v hl
  | del id => exact legal0_del h id hl

theorem legal0_steps (ops : List Op) (h : Header) (hl : legal0 h = true) :
    legal0 (modelSteps h ops).2 = true := by
  induction ops generalizing h with
  | nil => exact hl
  | cons op ops ih => rw [modelSteps_cons]; exact ih _ (legal0_step h op hl)

theorem legal0_noGhost (h : Header) (hl : legal0 h = true) : noGhost h = true := by
  unfold legal0 at hl
  rcases (Bool.or_eq_true _ _).mp hl with hl | hl
  · exact legal_noGhost h hl
  · simp only [Bool.and_eq_true] at hl
    simp [noGhost, hl.1.1]

/-- every start state of the property satisfies the extended invariant and has sane fixed fields -/
theorem startDomain_legal0 (s : Start) (hd : startDomain s = true) :
    ∃ h, startHeader s = some h ∧ legal0 h = true ∧ fixedOk h = true := by
  cases s with
  | hdr h =>
    simp only [startDomain, Bool.and_eq_true] at hd
    exact ⟨h, rfl, by simp [legal0, hd.1], hd.2⟩
  | wire prevs bs =>
    simp only [startDomain] at hd
    cases hs : startHeader (.wire prevs bs) with
    | none => simp [hs] at hd
    | some h =>
      have hu : ∃ n, hdrUnmarshal (C02.usedHeader prevs) bs = .ok (h, n) := by
        simp only [startHeader] at hs
        cases hh : hdrUnmarshal (C02.usedHeader prevs) bs with
        | ok x => obtain ⟨h', n⟩ := x; simp only [hh, Option.some.injEq] at hs; subst hs; exact ⟨n, rfl⟩
        | err e => simp [hh] at hs
        | panic => simp [hh] at hs
      obtain ⟨n, hu⟩ := hu
      refine ⟨h, rfl, ?_, hdrUnmarshal_fixedOk _ _ _ _ hu⟩
      by_cases hx : h.extension = true
      · by_cases hp : h.extProfile = profileOneByte
        · have := hdrUnmarshal_ok0 _ _ _ _ hu hx hp
          simp [legal0, hx, hp, this]
        · have := hdrUnmarshal_legal _ _ _ _ hu (fun hp' => absurd hp' hp)
          simp [legal0, this]
      · have hx' : h.extension = false := by simpa using hx
        have hn := hdrUnmarshal_noExts _ _ _ _ hu hx'
        have := hdrUnmarshal_legal _ _ _ _ hu (fun _ e he => by rw [hn] at he; simp at he)
        simp [legal0, this]

/-! ### the final clause of the predicate -/

/-- the final part of the predicate holds of the model for every header that satisfies the
    extended invariant, has sane fixed fields and fits the 16-bit word count -/
theorem finalOk_model0 (hrt : HeaderRoundTrip) (h : Header) (hl : legal0 h = true)
    (hf : fixedOk h = true) (hs : extBodySize h ≤ 65535 * 4) :
    finalOk (view h) (modelFinal h) = true := by
  unfold legal0 at hl
  rcases (Bool.or_eq_true _ _).mp hl with hl | hl
  · exact finalOk_model hrt h (finalWfH_of_legal h hl hf hs)
  · simp only [Bool.and_eq_true, beq_iff_eq] at hl
    obtain ⟨⟨hx, hp⟩, hall⟩ := hl
    have hw : wf0 h = true := (wf0_iff h).mpr ⟨hf, hx, hp, hall, hs⟩
    obtain ⟨bs, hm, _, hun⟩ := header_roundtrip0 h hw
    simp only [finalOk, modelFinal, hm, Res.coarse, hun {}, Res.map, beq_self_eq_true, Bool.or_true,
      Bool.true_and, beq_iff_eq]
    rw [ids_view]
    apply List.map_congr_left
    intro k _
    rw [get_view]

end Rtp.Proofs.HeaderExtId0
