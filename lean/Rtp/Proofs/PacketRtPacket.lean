/-
  Rtp/Proofs/PacketRtPacket.lean — `Packet.Unmarshal` of a serialised well-formed packet: the
  payload / padding split (DESIGN §6 C01 step 4).
-/
import Rtp.Proofs.PacketRtHeader
namespace Rtp.Proofs.PacketRt
open Rtp Rtp.Model

theorem decoded_padding (r h : Header) : (decoded r h).padding = h.padding := by
  unfold decoded; split <;> rfl

theorem canonH_decoded (r h : Header) : Pred.C01.canonH (decoded r h) = Pred.C01.canonH h := by
  unfold decoded Pred.C01.canonH
  cases hx : h.extension <;> simp [hx]

theorem getLastD_append_singleton (l : Bytes) (a d : UInt8) : (l ++ [a]).getLastD d = a := by
  induction l with
  | nil => rfl
  | cons x xs ih =>
    cases xs with
    | nil => rfl
    | cons y ys => simpa [List.getLastD] using ih

/-- `Packet.Unmarshal` into any receiver `r` of the bytes `Packet.Marshal` produces -/
theorem pktUnmarshal_wire (p : Packet) (hwf : Pred.C01.wfP p = true) (r : Packet) :
    pktUnmarshal r (pktWire p) =
      .ok { header := decoded r.header p.header, payload := p.payload, paddingSize := p.paddingSize } := by
  obtain ⟨hh, hp⟩ := (wfP_iff p).1 hwf
  have hW := hdrWire_length _ hh
  have hpl := padBytes_length p hp
  unfold pktUnmarshal
  rw [show pktWire p = hdrWire p.header ++ (p.payload ++ padBytes p) from rfl,
    hdrUnmarshal_wire _ hh]
  simp only [decoded_padding]
  by_cases hpad : p.header.padding = true
  · have hps : 1 ≤ p.paddingSize.toNat := by simpa [hpad] using hp.symm
    have hpb : padBytes p = rep (p.paddingSize.toNat - 1) 0 ++ [p.paddingSize] := by simp [padBytes, hpad]
    have hlast : (hdrWire p.header ++ (p.payload ++ padBytes p)).getLastD 0 = p.paddingSize := by
      rw [hpb, ← List.append_assoc, ← List.append_assoc]; exact getLastD_append_singleton _ _ _
    simp only [hpad, if_true, hlast, List.length_append, hW, hpl]
    rw [if_neg (by omega), if_neg (by omega)]
    have hsl : slice (hdrWire p.header ++ (p.payload ++ padBytes p)) (hdrMarshalSize p.header)
        (hdrMarshalSize p.header + (p.payload.length + p.paddingSize.toNat) - p.paddingSize.toNat) = p.payload := by
      unfold slice
      rw [drop_left' _ _ _ hW.symm,
        show hdrMarshalSize p.header + (p.payload.length + p.paddingSize.toNat) - p.paddingSize.toNat
          - hdrMarshalSize p.header = p.payload.length by omega]
      exact List.take_left
    rw [hsl]
  · have hps : p.paddingSize.toNat = 0 := by
      have : ¬ (1 ≤ p.paddingSize.toNat) := by
        intro h1; apply hpad; rw [hp]; simpa using h1
      omega
    have hps' : p.paddingSize = 0 := UInt8.toNat_inj.mp (by simpa using hps)
    have hz : padBytes p = [] := by simp [padBytes, hpad]
    simp only [hpad, Bool.false_eq_true, if_false, hz, List.append_nil]
    rw [drop_left' _ _ _ hW.symm, hps']

/-- elements held while `Extension` is false are invisible: no accessor shows them and the
    encoder never looks at them -/
def dropHidden (p : Packet) : Packet :=
  if p.header.extension then p else { p with header := { p.header with exts := [] } }

/-- round trip on one packet, as a Bool -/
def rt (p : Packet) : Bool :=
  match pktMarshal p with
  | .ok bs => (pktUnmarshal {} bs).map Pred.C01.canonP == .ok (Pred.C01.canonP p)
  | _ => false


end Rtp.Proofs.PacketRt
