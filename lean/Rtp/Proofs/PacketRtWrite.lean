/-
  Rtp/Proofs/PacketRtWrite.lean — `writeAt` lemmas and the closed form of the write sequence
  of `Header.MarshalTo` / `Packet.MarshalTo` (DESIGN §6 C01 step 1, C04).
-/
import Rtp.Model.Packet
import Rtp.Pred.C01
namespace Rtp.Proofs.PacketRt
open Rtp Rtp.Model

/-! ### writeAt -/

theorem writeAt_length (dst : Bytes) (off : Nat) (src : Bytes) :
    (writeAt dst off src).length = dst.length := by
  simp only [writeAt, List.length_append, List.length_take, List.length_drop]
  omega

/-- a write behind a prefix leaves the prefix alone -/
theorem writeAt_right (a b src : Bytes) (k : Nat) :
    writeAt (a ++ b) (a.length + k) src = a ++ writeAt b k src := by
  simp only [writeAt, List.length_append]
  have h1 : (a ++ b).take (a.length + k) = a ++ b.take k := by
    rw [List.take_append, List.take_of_length_le (by omega)]; simp
  have h2 : a.length + b.length - (a.length + k) = b.length - k := by omega
  have h3 : (a ++ b).drop (a.length + k + src.length) = b.drop (k + src.length) := by
    rw [List.drop_append]; simp [Nat.add_assoc]
  rw [h1, h2, h3]; simp [List.append_assoc]

/-- a write of exactly the length of the leading segment replaces it -/
theorem writeAt_head (m b src : Bytes) (h : m.length = src.length) :
    writeAt (m ++ b) 0 src = src ++ b := by
  simp only [writeAt, List.length_append, List.take_zero, List.nil_append, Nat.sub_zero, Nat.zero_add]
  rw [List.take_of_length_le (by omega), ← h]; simp

theorem writeAt_nil (dst : Bytes) (off : Nat) : writeAt dst off [] = dst := by
  simp [writeAt]

theorem split_at (l : Bytes) (k : Nat) (h : k ≤ l.length) :
    ∃ a b, l = a ++ b ∧ a.length = k :=
  ⟨l.take k, l.drop k, (List.take_append_drop k l).symm, by simp; omega⟩

theorem drop_left' (a b : Bytes) (k : Nat) (h : k = a.length) : (a ++ b).drop k = b := by
  subst h; exact List.drop_left

/-! ### sizes -/

theorem csrcBytes_length (cs : List UInt32) : (cs.map be32).flatten.length = cs.length * 4 := by
  induction cs with
  | nil => rfl
  | cons c cs ih => simp only [List.map_cons, List.flatten_cons, List.length_append, ih, be32,
      List.length_cons, List.length_nil]; omega

theorem fixedBytes_length (h : Header) : (fixedBytes h).length = 12 + h.csrc.length * 4 := by
  simp only [fixedBytes, List.length_append, csrcBytes_length, be16, be32, List.length_cons, List.length_nil]

theorem round4_ge (n : Nat) : n ≤ round4 n := by unfold round4; omega
theorem round4_lt (n : Nat) : round4 n < n + 4 := by unfold round4; omega
theorem round4_mod (n : Nat) : round4 n % 4 = 0 := by unfold round4; omega
theorem round4_of_mod (n : Nat) (h : n % 4 = 0) : round4 n = n := by unfold round4; omega
theorem round4_add4 (n : Nat) : round4 (4 + n) = 4 + round4 n := by unfold round4; omega

theorem oneByteBody_length (es : List Ext) :
    ((es.map fun e => (oneByteHdr e.id e.payload.length :: e.payload)).flatten).length =
      (es.map fun e => 1 + e.payload.length).sum := by
  induction es with
  | nil => rfl
  | cons e es ih => simp only [List.map_cons, List.flatten_cons, List.length_append, ih,
      List.length_cons, List.sum_cons]; omega

theorem twoByteBody_length (es : List Ext) :
    ((es.map fun e => (e.id :: e.payload.length.toUInt8 :: e.payload)).flatten).length =
      (es.map fun e => 2 + e.payload.length).sum := by
  induction es with
  | nil => rfl
  | cons e es ih => simp only [List.map_cons, List.flatten_cons, List.length_append, ih,
      List.length_cons, List.sum_cons]; omega

/-- whenever the element bytes exist, they are as many as `MarshalSize` counted (no
    well-formedness needed: the two loops of packet.go agree by construction) -/
theorem extBody_length (h : Header) (body : Bytes) (hb : extBodyBytes h = .ok body) :
    body.length = extBodySize h := by
  unfold extBodyBytes at hb
  unfold extBodySize
  split at hb
  · next h1 => rw [if_pos h1]; injection hb with hb; rw [← hb]; exact oneByteBody_length _
  · next h1 =>
    rw [if_neg h1]
    split at hb
    · next h2 => rw [if_pos h2]; injection hb with hb; rw [← hb]; exact twoByteBody_length _
    · next h2 =>
      rw [if_neg h2]
      split at hb
      · injection hb with hb; rw [← hb]; rfl
      · split at hb
        · cases hb
        · injection hb with hb; rw [← hb]

/-! ### closed form of Header.MarshalTo -/

/-- the extension block as serialised: profile, length in words, element bytes, zero padding -/
def extPart (h : Header) (body : Bytes) : Bytes :=
  be16 h.extProfile ++ (be16 (round4 body.length / 4).toUInt16 ++
    (body ++ rep (round4 body.length - body.length) 0))

theorem extPart_length (h : Header) (body : Bytes) : (extPart h body).length = 4 + round4 body.length := by
  have := round4_ge body.length
  simp only [extPart, List.length_append, be16, List.length_cons, List.length_nil, rep, List.length_replicate]
  omega

/-- the serialised header: what `Header.Marshal` returns (`body` = the element bytes) -/
def hdrBytes (h : Header) (body : Bytes) : Bytes :=
  fixedBytes h ++ (if h.extension then extPart h body else [])

theorem hdrBytes_length (h : Header) (body : Bytes) (hb : body.length = extBodySize h) :
    (hdrBytes h body).length = hdrMarshalSize h := by
  unfold hdrBytes hdrMarshalSize
  rw [List.length_append, fixedBytes_length]
  split
  · rw [extPart_length, round4_add4, hb]
  · rfl

/-- no extension: one write -/
theorem hdrMarshalTo_noext (h : Header) (dst : Bytes) (hx : h.extension = false)
    (hl : hdrMarshalSize h ≤ dst.length) :
    hdrMarshalTo h dst = .ok (fixedBytes h ++ dst.drop (hdrMarshalSize h), hdrMarshalSize h) := by
  have hs : hdrMarshalSize h = 12 + h.csrc.length * 4 := by simp [hdrMarshalSize, hx]
  unfold hdrMarshalTo
  rw [if_neg (by omega)]
  simp only [hx]
  obtain ⟨x0, r0, rfl, hx0⟩ := split_at dst (hdrMarshalSize h) hl
  rw [writeAt_head x0 r0 _ (by rw [fixedBytes_length]; omega), ← hs, drop_left' _ _ _ hx0.symm]
  simp

/-- with an extension: the five writes of packet.go (fixed part, profile, elements, back-patched
    word count, zero padding) produce `hdrBytes` whatever the destination held -/
theorem hdrMarshalTo_ext (h : Header) (body dst : Bytes) (hx : h.extension = true)
    (hb : extBodyBytes h = .ok body) (hl : hdrMarshalSize h ≤ dst.length) :
    hdrMarshalTo h dst = .ok (hdrBytes h body ++ dst.drop (hdrMarshalSize h), hdrMarshalSize h) := by
  have hbl := extBody_length h body hb
  have hs : hdrMarshalSize h = 12 + h.csrc.length * 4 + (4 + round4 body.length) := by
    simp [hdrMarshalSize, hx, round4_add4, hbl]
  have hge := round4_ge body.length
  -- cut the destination into the segments the writes address
  obtain ⟨x0, r0, rfl, hx0⟩ := split_at dst (12 + h.csrc.length * 4) (by omega)
  obtain ⟨x1, r1, rfl, hx1⟩ := split_at r0 2 (by simp only [List.length_append] at hl; omega)
  obtain ⟨x2, r2, rfl, hx2⟩ := split_at r1 2 (by simp only [List.length_append] at hl; omega)
  obtain ⟨x3, r3, rfl, hx3⟩ := split_at r2 body.length (by simp only [List.length_append] at hl; omega)
  obtain ⟨x4, r4, rfl, hx4⟩ := split_at r3 (round4 body.length - body.length)
    (by simp only [List.length_append] at hl; omega)
  have hF := fixedBytes_length h
  generalize hn : 12 + h.csrc.length * 4 = n at *
  generalize hFd : fixedBytes h = F at *
  generalize hPd : be16 h.extProfile = P at *
  have hP : P.length = 2 := by rw [← hPd]; rfl
  generalize hLd : be16 (round4 body.length / 4).toUInt16 = L at *
  have hL : L.length = 2 := by rw [← hLd]; rfl
  generalize hZd : rep (round4 body.length - body.length) 0 = Z at *
  have hZ : Z.length = round4 body.length - body.length := by rw [← hZd]; simp [rep]
  -- write 1: fixed part and CSRCs
  have e1 : ∀ R, writeAt (x0 ++ R) 0 F = F ++ R := fun R => writeAt_head x0 R F (by omega)
  -- write 2: profile
  have e2 : ∀ R, writeAt (F ++ (x1 ++ R)) n P = F ++ (P ++ R) := by
    intro R
    rw [show n = F.length + 0 by omega, writeAt_right, writeAt_head x1 _ _ (by omega)]
  -- write 3: element bytes
  have e3 : ∀ R, writeAt (F ++ (P ++ (x2 ++ (x3 ++ R)))) (n + 4) body = F ++ (P ++ (x2 ++ (body ++ R))) := by
    intro R
    rw [show n + 4 = F.length + (P.length + (x2.length + 0)) by omega,
      writeAt_right, writeAt_right, writeAt_right, writeAt_head x3 _ _ (by omega)]
  -- write 4: the word count
  have e4 : ∀ R, writeAt (F ++ (P ++ (x2 ++ R))) (n + 2) L = F ++ (P ++ (L ++ R)) := by
    intro R
    rw [show n + 2 = F.length + (P.length + 0) by omega,
      writeAt_right, writeAt_right, writeAt_head x2 _ _ (by omega)]
  -- write 5: zero padding
  have e5 : ∀ R, writeAt (F ++ (P ++ (L ++ (body ++ (x4 ++ R))))) (n + 4 + body.length) Z
      = F ++ (P ++ (L ++ (body ++ (Z ++ R)))) := by
    intro R
    rw [show n + 4 + body.length = F.length + (P.length + (L.length + (body.length + 0))) by omega,
      writeAt_right, writeAt_right, writeAt_right, writeAt_right, writeAt_head x4 _ _ (by omega)]
  have hdrop : (x0 ++ (x1 ++ (x2 ++ (x3 ++ (x4 ++ r4))))).drop (hdrMarshalSize h) = r4 := by
    rw [show x0 ++ (x1 ++ (x2 ++ (x3 ++ (x4 ++ r4)))) = (x0 ++ (x1 ++ (x2 ++ (x3 ++ x4)))) ++ r4 by
      simp only [List.append_assoc]]
    exact drop_left' _ _ _ (by simp only [List.length_append]; omega)
  unfold hdrMarshalTo
  rw [if_neg (by omega)]
  simp only [hx, hb, if_true, hn, hFd, hPd, hLd, hZd]
  rw [e1, e2, e3, e4, e5, hdrop]
  simp only [hdrBytes, hx, if_true, extPart, List.append_assoc, hFd, hPd, hLd, hZd]
  congr 2
  omega

/-! ### well-formed headers: the element bytes exist; one statement for both cases -/

open Rtp.Pred.C01 in
/-- a well-formed header has serialisable elements (the legacy payload is whole words) -/
theorem extBodyBytes_isOk (h : Header) (hwf : wfH h = true) (hx : h.extension = true) :
    ∃ body, extBodyBytes h = .ok body := by
  unfold extBodyBytes
  split
  · exact ⟨_, rfl⟩
  · next h1 =>
    split
    · exact ⟨_, rfl⟩
    · next h2 =>
      simp only [wfH, extsLegal, hx, Bool.not_true, Bool.false_eq_true, if_false, h1, h2,
        Bool.and_eq_true, decide_eq_true_eq] at hwf
      obtain ⟨⟨⟨_, _⟩, hl⟩, _⟩ := hwf
      split
      · exact ⟨_, rfl⟩
      · next e es =>
        split at hl
        · next e' heq =>
          rw [es] at heq
          simp only [List.cons.injEq] at heq
          obtain ⟨rfl, rfl⟩ := heq
          simp only [Bool.and_eq_true, beq_iff_eq] at hl
          simp [hl.2]
        · cases hl

/-- the element bytes of a header (`[]` where `extBodyBytes` fails) -/
def wireBody (h : Header) : Bytes := match extBodyBytes h with | .ok b => b | _ => []

/-- the serialised form of a header -/
def hdrWire (h : Header) : Bytes := hdrBytes h (wireBody h)

theorem extBodyBytes_wire (h : Header) (hwf : Pred.C01.wfH h = true) (hx : h.extension = true) :
    extBodyBytes h = .ok (wireBody h) := by
  obtain ⟨b, hb⟩ := extBodyBytes_isOk h hwf hx
  simp [wireBody, hb]

/-- a header whose elements can be serialised (the legacy payload is whole words); nothing about
    ids, lengths, version, payload type or CSRC count -/
def Ser (h : Header) : Prop := h.extension = true → extBodyBytes h = .ok (wireBody h)

/-- the padding flag is set exactly when the padding size is 1–255 -/
def PadOK (p : Packet) : Prop := p.header.padding = decide (1 ≤ p.paddingSize.toNat)

theorem ser_of_wf (h : Header) (hwf : Pred.C01.wfH h = true) : Ser h := fun hx => extBodyBytes_wire h hwf hx

theorem hdrWire_length_ser (h : Header) (hs : Ser h) :
    (hdrWire h).length = hdrMarshalSize h := by
  cases hx : h.extension
  · simp [hdrWire, hdrBytes, hdrMarshalSize, hx, fixedBytes_length]
  · exact hdrBytes_length h _ (extBody_length h _ (hs hx))

/-- `Header.MarshalTo` of a serialisable header into a sufficient destination -/
theorem hdrMarshalTo_ser (h : Header) (hs : Ser h) (dst : Bytes)
    (hl : hdrMarshalSize h ≤ dst.length) :
    hdrMarshalTo h dst = .ok (hdrWire h ++ dst.drop (hdrMarshalSize h), hdrMarshalSize h) := by
  cases hx : h.extension
  · rw [hdrMarshalTo_noext h dst hx hl]; simp [hdrWire, hdrBytes, hx]
  · exact hdrMarshalTo_ext h _ dst hx (hs hx) hl

/-- `Header.MarshalTo` into a destination that is too short (any header) -/
theorem hdrMarshalTo_short (h : Header) (dst : Bytes) (hl : dst.length < hdrMarshalSize h) :
    hdrMarshalTo h dst = .err .shortBuffer := by
  unfold hdrMarshalTo; rw [if_pos hl]

/-- `Header.Marshal` of a serialisable header -/
theorem hdrMarshal_ser (h : Header) (hs : Ser h) : hdrMarshal h = .ok (hdrWire h) := by
  unfold hdrMarshal
  rw [hdrMarshalTo_ser h hs _ (by simp [rep])]
  simp only [rep, Res.ok.injEq]
  rw [List.drop_of_length_le (by simp), List.append_nil, ← hdrWire_length_ser h hs, List.take_length]

/-! ### closed form of Packet.MarshalTo -/

/-- the RTP padding trailer: zeros and the count -/
def padBytes (p : Packet) : Bytes :=
  if p.header.padding then rep (p.paddingSize.toNat - 1) 0 ++ [p.paddingSize] else []

theorem padBytes_length (p : Packet) (hp : p.header.padding = decide (1 ≤ p.paddingSize.toNat)) :
    (padBytes p).length = p.paddingSize.toNat := by
  unfold padBytes
  by_cases h : 1 ≤ p.paddingSize.toNat
  · simp [hp, h, rep]
  · simp [hp, h]; omega

/-- the serialised form of a packet -/
def pktWire (p : Packet) : Bytes := hdrWire p.header ++ (p.payload ++ padBytes p)

theorem pktWire_length_ser (p : Packet) (hs : Ser p.header) (hp : PadOK p) :
    (pktWire p).length = pktMarshalSize p := by
  simp only [pktWire, List.length_append, hdrWire_length_ser _ hs, padBytes_length p hp, pktMarshalSize]
  omega

theorem padding_ok (p : Packet) (hp : p.header.padding = decide (1 ≤ p.paddingSize.toNat)) :
    (p.header.padding && p.paddingSize == 0) = false := by
  by_cases h : 1 ≤ p.paddingSize.toNat
  · have : p.paddingSize ≠ 0 := by intro h0; rw [h0] at h; simp at h
    simp [hp, h, this]
  · simp [hp, h]

/-- `Packet.MarshalTo` of a serialisable packet with a consistent padding flag into a sufficient destination -/
theorem pktMarshalTo_ser (p : Packet) (hs' : Ser p.header) (hp : PadOK p) (dst : Bytes)
    (hl : pktMarshalSize p ≤ dst.length) :
    pktMarshalTo p dst = .ok (pktWire p ++ dst.drop (pktMarshalSize p), pktMarshalSize p) := by
  have hpl := padBytes_length p hp
  have hW := hdrWire_length_ser _ hs'
  have hs : pktMarshalSize p = hdrMarshalSize p.header + p.payload.length + p.paddingSize.toNat := rfl
  unfold pktMarshalTo
  rw [padding_ok p hp]
  simp only [Bool.false_eq_true, if_false]
  rw [hdrMarshalTo_ser _ hs' dst (by omega)]
  simp only
  rw [if_neg (by omega)]
  -- cut the rest of the destination into payload segment, padding segment, remainder
  obtain ⟨x0, r0, rfl, hx0⟩ := split_at dst (hdrMarshalSize p.header) (by omega)
  obtain ⟨x1, r1, rfl, hx1⟩ := split_at r0 p.payload.length (by simp only [List.length_append] at hl; omega)
  obtain ⟨x2, r2, rfl, hx2⟩ := split_at r1 p.paddingSize.toNat (by simp only [List.length_append] at hl; omega)
  rw [drop_left' _ _ _ hx0.symm]
  have hdrop : (x0 ++ (x1 ++ (x2 ++ r2))).drop (pktMarshalSize p) = r2 := by
    rw [show x0 ++ (x1 ++ (x2 ++ r2)) = (x0 ++ (x1 ++ x2)) ++ r2 by simp only [List.append_assoc]]
    exact drop_left' _ _ _ (by simp only [List.length_append]; omega)
  rw [hdrop]
  have e1 : writeAt (hdrWire p.header ++ (x1 ++ (x2 ++ r2))) (hdrMarshalSize p.header) p.payload
      = hdrWire p.header ++ (p.payload ++ (x2 ++ r2)) := by
    rw [show hdrMarshalSize p.header = (hdrWire p.header).length + 0 by omega, writeAt_right,
      writeAt_head x1 _ _ (by omega)]
  rw [e1]
  by_cases hpad : p.header.padding = true
  · have e2 : writeAt (hdrWire p.header ++ (p.payload ++ (x2 ++ r2)))
        (hdrMarshalSize p.header + p.payload.length) (rep (p.paddingSize.toNat - 1) 0 ++ [p.paddingSize])
        = hdrWire p.header ++ (p.payload ++ (padBytes p ++ r2)) := by
      rw [show hdrMarshalSize p.header + p.payload.length
          = (hdrWire p.header).length + (p.payload.length + 0) by omega, writeAt_right, writeAt_right,
        writeAt_head x2 _ _ (by rw [hx2, ← hpl]; simp [padBytes, hpad, rep])]
      simp [padBytes, hpad]
    simp only [hpad, if_true, e2, pktWire, List.append_assoc, hs]
  · have hz : padBytes p = [] := by simp [padBytes, hpad]
    have hx2' : x2 = [] := by
      apply List.eq_nil_of_length_eq_zero; rw [hx2, ← hpl, hz]; rfl
    simp only [hpad, pktWire, hz, hx2', List.append_nil, List.nil_append, List.append_assoc, hs]
    simp

/-- `Packet.Marshal` of a serialisable packet with a consistent padding flag -/
theorem pktMarshal_ser (p : Packet) (hs' : Ser p.header) (hp : PadOK p) : pktMarshal p = .ok (pktWire p) := by
  unfold pktMarshal
  rw [pktMarshalTo_ser p hs' hp _ (by simp [rep])]
  simp only [rep, Res.ok.injEq]
  rw [List.drop_of_length_le (by simp), List.append_nil, ← pktWire_length_ser p hs' hp, List.take_length]

/-- `Packet.MarshalTo` into a destination that is too short -/
theorem pktMarshalTo_short_ser (p : Packet) (hs' : Ser p.header) (hp : PadOK p) (dst : Bytes)
    (hl : dst.length < pktMarshalSize p) : pktMarshalTo p dst = .err .shortBuffer := by
  have hs : pktMarshalSize p = hdrMarshalSize p.header + p.payload.length + p.paddingSize.toNat := rfl
  unfold pktMarshalTo
  rw [padding_ok p hp]
  simp only [Bool.false_eq_true, if_false]
  by_cases h1 : dst.length < hdrMarshalSize p.header
  · rw [hdrMarshalTo_short _ _ h1]
  · rw [hdrMarshalTo_ser _ hs' dst (by omega)]
    simp only
    rw [if_pos (by omega)]

theorem wfP_iff (p : Packet) : Pred.C01.wfP p = true ↔
    Pred.C01.wfH p.header = true ∧ p.header.padding = decide (1 ≤ p.paddingSize.toNat) := by
  simp [Pred.C01.wfP]


/-! ### the same for well-formed values (C01's domain implies both conditions) -/

theorem hdrWire_length (h : Header) (hwf : Pred.C01.wfH h = true) : (hdrWire h).length = hdrMarshalSize h :=
  hdrWire_length_ser h (ser_of_wf h hwf)

theorem hdrMarshalTo_wf (h : Header) (hwf : Pred.C01.wfH h = true) (dst : Bytes)
    (hl : hdrMarshalSize h ≤ dst.length) :
    hdrMarshalTo h dst = .ok (hdrWire h ++ dst.drop (hdrMarshalSize h), hdrMarshalSize h) :=
  hdrMarshalTo_ser h (ser_of_wf h hwf) dst hl

theorem hdrMarshal_wf (h : Header) (hwf : Pred.C01.wfH h = true) : hdrMarshal h = .ok (hdrWire h) :=
  hdrMarshal_ser h (ser_of_wf h hwf)

theorem pktWire_length (p : Packet) (hwf : Pred.C01.wfP p = true) : (pktWire p).length = pktMarshalSize p :=
  pktWire_length_ser p (ser_of_wf _ ((wfP_iff p).1 hwf).1) ((wfP_iff p).1 hwf).2

theorem pktMarshalTo_wf (p : Packet) (hwf : Pred.C01.wfP p = true) (dst : Bytes)
    (hl : pktMarshalSize p ≤ dst.length) :
    pktMarshalTo p dst = .ok (pktWire p ++ dst.drop (pktMarshalSize p), pktMarshalSize p) :=
  pktMarshalTo_ser p (ser_of_wf _ ((wfP_iff p).1 hwf).1) ((wfP_iff p).1 hwf).2 dst hl

theorem pktMarshal_wf (p : Packet) (hwf : Pred.C01.wfP p = true) : pktMarshal p = .ok (pktWire p) :=
  pktMarshal_ser p (ser_of_wf _ ((wfP_iff p).1 hwf).1) ((wfP_iff p).1 hwf).2

theorem pktMarshalTo_short (p : Packet) (hwf : Pred.C01.wfP p = true) (dst : Bytes)
    (hl : dst.length < pktMarshalSize p) : pktMarshalTo p dst = .err .shortBuffer :=
  pktMarshalTo_short_ser p (ser_of_wf _ ((wfP_iff p).1 hwf).1) ((wfP_iff p).1 hwf).2 dst hl

/-! ### without the padding flag (outside C01's domain when the size is not 0) -/

/-- no padding flag: header and payload are written, nothing else — whatever `PaddingSize` says -/
theorem pktMarshalTo_noflag (p : Packet) (hs' : Ser p.header) (hpad : p.header.padding = false) (dst : Bytes)
    (hl : pktMarshalSize p ≤ dst.length) :
    pktMarshalTo p dst = .ok (hdrWire p.header ++ (p.payload ++
      dst.drop (hdrMarshalSize p.header + p.payload.length)), pktMarshalSize p) := by
  have hW := hdrWire_length_ser _ hs'
  have hs : pktMarshalSize p = hdrMarshalSize p.header + p.payload.length + p.paddingSize.toNat := rfl
  unfold pktMarshalTo
  simp only [hpad, Bool.false_and, Bool.false_eq_true, if_false]
  rw [hdrMarshalTo_ser _ hs' dst (by omega)]
  simp only
  rw [if_neg (by omega)]
  obtain ⟨x0, r0, rfl, hx0⟩ := split_at dst (hdrMarshalSize p.header) (by omega)
  obtain ⟨x1, r1, rfl, hx1⟩ := split_at r0 p.payload.length (by simp only [List.length_append] at hl; omega)
  rw [drop_left' _ _ _ hx0.symm]
  have hdrop : (x0 ++ (x1 ++ r1)).drop (hdrMarshalSize p.header + p.payload.length) = r1 := by
    rw [show x0 ++ (x1 ++ r1) = (x0 ++ x1) ++ r1 by simp only [List.append_assoc]]
    exact drop_left' _ _ _ (by simp only [List.length_append]; omega)
  rw [hdrop]
  rw [show hdrMarshalSize p.header = (hdrWire p.header).length + 0 by omega, writeAt_right,
    writeAt_head x1 _ _ (by omega)]
  simp [hs, hW]

theorem rep_drop (n k : Nat) (b : UInt8) : (rep n b).drop k = rep (n - k) b := by
  simp [rep]

theorem pktMarshal_noflag (p : Packet) (hs' : Ser p.header) (hpad : p.header.padding = false) :
    pktMarshal p = .ok (hdrWire p.header ++ (p.payload ++ rep p.paddingSize.toNat 0)) := by
  have hW := hdrWire_length_ser _ hs'
  have hsz : pktMarshalSize p = hdrMarshalSize p.header + p.payload.length + p.paddingSize.toNat := rfl
  unfold pktMarshal
  rw [pktMarshalTo_noflag p hs' hpad _ (by simp [rep])]
  simp only [Res.ok.injEq, rep_drop]
  rw [show pktMarshalSize p - (hdrMarshalSize p.header + p.payload.length) = p.paddingSize.toNat by omega]
  apply List.take_of_length_le
  simp [rep]; omega

/-- …so a destination full of 0xFF comes back different from Marshal when the size is not 0 -/
theorem pktMarshalTo_noflag_dirty (p : Packet) (hs' : Ser p.header) (hpad : p.header.padding = false) :
    pktMarshalTo p (rep (pktMarshalSize p) 0xFF) =
      .ok (hdrWire p.header ++ (p.payload ++ rep p.paddingSize.toNat 0xFF), pktMarshalSize p) := by
  have hsz : pktMarshalSize p = hdrMarshalSize p.header + p.payload.length + p.paddingSize.toNat := rfl
  rw [pktMarshalTo_noflag p hs' hpad _ (by simp [rep]), rep_drop,
    show pktMarshalSize p - (hdrMarshalSize p.header + p.payload.length) = p.paddingSize.toNat by omega]


end Rtp.Proofs.PacketRt
