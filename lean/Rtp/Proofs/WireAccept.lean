/-
  Rtp/Proofs/WireAccept.lean — from the RFC well-formedness of Spec/Wire.lean to the hypotheses of
  the parse-of-encode lemmas (WireParse), and the canonical-observation bookkeeping.
-/
import Rtp.Proofs.WireParse
import Rtp.Pred.C03
namespace Rtp.Proofs.Wire
open Rtp Rtp.Model Rtp.Spec.Wire
open Rtp.Pred.C01 (canonP canonH)

theorem ok1_of_wf1 (it : Item) (h : it.wf1 = true) : Item.ok1 it = true := by
  cases it with
  | pad => rfl
  | elem id d =>
    simp only [Item.wf1, Bool.and_eq_true, decide_eq_true_eq] at h
    obtain ⟨⟨⟨h1, h2⟩, h3⟩, h4⟩ := h
    have : (id == 0) = false := by
      rw [Bool.eq_false_iff]; intro h0; simp at h0; subst h0; simp at h1
    simp [Item.ok1, h2, h3, h4, this]

theorem ok2_of_wf2 (it : Item) (h : it.wf2 = true) : Item.ok2 it = true := by
  cases it with
  | pad => rfl
  | elem id d =>
    simp only [Item.wf2, Bool.and_eq_true, decide_eq_true_eq] at h
    obtain ⟨h1, h2⟩ := h
    have : id ≠ 0 := by intro h0; subst h0; simp at h1
    simp [Item.ok2, h2, this]

theorem blockOk_of_WF (b : ExtBlock) (h : b.WF = true) : blockOk b = true := by
  cases b with
  | oneByte items =>
    simp only [ExtBlock.WF, Bool.and_eq_true, List.all_eq_true] at h
    simp only [blockOk, Bool.and_eq_true, List.all_eq_true]
    exact ⟨fun x hx => ok1_of_wf1 x (h.1 x hx), h.2⟩
  | twoByte items =>
    simp only [ExtBlock.WF, Bool.and_eq_true, List.all_eq_true] at h
    simp only [blockOk, Bool.and_eq_true, List.all_eq_true]
    exact ⟨fun x hx => ok2_of_wf2 x (h.1 x hx), h.2⟩
  | legacy p ws => exact h

theorem wireOk_of_WF (w : Wire) (h : w.WF = true) : wireOk w = true := by
  simp only [Wire.WF, Bool.and_eq_true] at h
  obtain ⟨⟨⟨⟨h1, h2⟩, h3⟩, h4⟩, h5⟩ := h
  simp only [wireOk, Bool.and_eq_true]
  refine ⟨⟨⟨⟨h1, h2⟩, h3⟩, ?_⟩, h5⟩
  cases hx : w.ext with
  | none => rfl
  | some b => simp only [hx] at h4; exact blockOk_of_WF b h4

theorem wireUnread_of_not_reserved (w : Wire) (h : w.reserved = false) : wireUnread w = 0 := by
  cases hx : w.ext with
  | none => simp [wireUnread, hx]
  | some b =>
    simp only [Wire.reserved, hx] at h
    cases b with
    | oneByte items => simpa [wireUnread, hx, blockUnread] using left1_noReserved items _ h
    | twoByte items => simp [wireUnread, hx, blockUnread]
    | legacy p ws => simp [wireUnread, hx, blockUnread]

theorem canonH_hdrOf (r : Header) (w : Wire) : canonH (hdrOf r w) = canonH w.toPacket.header := by
  cases hx : w.ext <;> simp [canonH, hdrOf, Wire.toPacket, hx]

/-! ### the reserved-id region -/

theorem left1_pos (items : List Item) (k : Nat) (hok : items.all Item.ok1 = true)
    (h : items.any Item.isReserved = true) : 0 < left1 items k := by
  induction items with
  | nil => simp at h
  | cons it r ih =>
    simp only [List.all_cons, Bool.and_eq_true] at hok
    simp only [List.any_cons, Bool.or_eq_true] at h
    cases it with
    | pad =>
      simp only [left1]
      exact ih hok.2 (by simpa [Item.isReserved] using h)
    | elem id d =>
      simp only [left1]
      by_cases h15 : id == 15
      · simp only [h15, ↓reduceIte]
        have := hok.1
        simp only [Item.ok1, Bool.and_eq_true, decide_eq_true_eq] at this
        omega
      · simp only [h15, Bool.false_eq_true, ↓reduceIte]
        exact ih hok.2 (by simpa [Item.isReserved, h15] using h)

/-- inside the region something is always left unread, and never more than the block holds -/
theorem wireUnread_reserved (w : Wire) (hw : w.WF = true) (hr : w.reserved = true) :
    0 < wireUnread w ∧ wireUnread w ≤ w.extEnd := by
  cases hx : w.ext with
  | none => simp [Wire.reserved, hx] at hr
  | some b =>
    have hb : b.WF = true := by
      simp only [Wire.WF, Bool.and_eq_true, hx] at hw; exact hw.1.2
    simp only [Wire.reserved, hx] at hr
    cases b with
    | oneByte items =>
      have hok := blockOk_of_WF _ hb
      simp only [blockOk, Bool.and_eq_true] at hok
      simp only [ExtBlock.reserved] at hr
      refine ⟨by simpa [wireUnread, hx, blockUnread] using left1_pos items _ hok.1 hr, ?_⟩
      have := left1_le items (padTo4 (body1 items).length)
      simp only [wireUnread, hx, blockUnread, Wire.extEnd, encodeExt, ExtBlock.encode, ExtBlock.body, be16,
        List.length_append, List.length_cons, List.length_nil, rep]
      simp only [List.length_replicate]
      omega
    | twoByte items => simp [ExtBlock.reserved] at hr
    | legacy p ws => simp [ExtBlock.reserved] at hr

end Rtp.Proofs.Wire
