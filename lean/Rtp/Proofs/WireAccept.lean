/-
  Rtp/Proofs/WireAccept.lean — from the RFC well-formedness of Spec/Wire.lean to the hypotheses of
  the parse-of-encode lemmas (WireParse), and the canonical-observation bookkeeping.
-/
import Rtp.Proofs.WireParse
import Rtp.Pred.C03
namespace Rtp.Proofs.Wire
open Rtp Rtp.Model Rtp.Spec.Wire
open Rtp.Pred.C01 (canonP canonH)

theorem ok1_of_wf1 (it : Item) (h : it.wf1 = true) : Item.ok1 it = true := by
  cases it with
  | pad => rfl
  | elem id d =>
    simp only [Item.wf1, Bool.and_eq_true, decide_eq_true_eq] at h
    obtain ⟨⟨⟨h1, h2⟩, h3⟩, h4⟩ := h
    have : (id == 0) = false := by
      rw [Bool.eq_false_iff]; intro h0; simp at h0; subst h0; simp at h1
    simp [Item.ok1, h2, h3, h4, this]

theorem ok2_of_wf2 (it : Item) (h : it.wf2 = true) : Item.ok2 it = true := by
  cases it with
  | pad => rfl
  | elem id d =>
    simp only [Item.wf2, Bool.and_eq_true, decide_eq_true_eq] at h
    obtain ⟨h1, h2⟩ := h
    have : id ≠ 0 := by intro h0; subst h0; simp at h1
    simp [Item.ok2, h2, this]

/-- a legacy profile is neither of the two RFC 8285 profiles -/
theorem legacy_profile (p : UInt16) (h : ((p &&& 0xFFF0) != 0x1000) = true) : p ≠ 0x1000 := by
  intro hp; subst hp; revert h; decide

/-- a well-formed block with zero appbits meets the hypotheses of the parse lemmas -/
theorem blockOk_of_WF (b : ExtBlock) (h : b.WF = true) (ha : b.appbits = false) : blockOk b = true := by
  cases b with
  | oneByte items stop =>
    simp only [ExtBlock.WF, Bool.and_eq_true, List.all_eq_true] at h
    simp only [blockOk, Bool.and_eq_true, List.all_eq_true]
    refine ⟨⟨fun x hx => ok1_of_wf1 x (h.1.1 x hx), ?_⟩, h.2⟩
    cases stop with
    | none => rfl
    | some st => exact h.1.2
  | twoByte a items =>
    simp only [ExtBlock.WF, Bool.and_eq_true, List.all_eq_true] at h
    simp only [ExtBlock.appbits, bne_eq_false_iff_eq] at ha
    simp only [blockOk, Bool.and_eq_true, List.all_eq_true, beq_iff_eq]
    exact ⟨⟨ha, fun x hx => ok2_of_wf2 x (h.1.2 x hx)⟩, h.2⟩
  | legacy p ws =>
    simp only [ExtBlock.WF, Bool.and_eq_true, bne_iff_ne, ne_eq, beq_iff_eq, decide_eq_true_eq] at h
    obtain ⟨⟨⟨h1, h2⟩, h3⟩, h4⟩ := h
    simp only [blockOk, Bool.and_eq_true, bne_iff_ne, ne_eq, beq_iff_eq, decide_eq_true_eq]
    exact ⟨⟨⟨h1, legacy_profile p (by simpa using h2)⟩, h3⟩, h4⟩

theorem wireOk_of_WF (w : Wire) (h : w.WF = true) (ha : w.appbits = false) : wireOk w = true := by
  simp only [Wire.WF, Bool.and_eq_true] at h
  obtain ⟨⟨⟨⟨h1, h2⟩, h3⟩, h4⟩, h5⟩ := h
  simp only [wireOk, Bool.and_eq_true]
  refine ⟨⟨⟨⟨h1, h2⟩, h3⟩, ?_⟩, h5⟩
  cases hx : w.ext with
  | none => rfl
  | some b =>
    simp only [hx] at h4
    simp only [Wire.appbits, hx] at ha
    exact blockOk_of_WF b h4 ha

theorem wireUnread_eq (w : Wire) : wireUnread w = w.ignored := by
  cases hx : w.ext <;> simp [wireUnread, Wire.ignored, hx, blockUnread]

theorem canonH_hdrOf (r : Header) (w : Wire) : canonH (hdrOf r w) = canonH w.toPacket.header := by
  cases hx : w.ext <;> simp [canonH, hdrOf, Wire.toPacket, hx]

theorem ignored_le_extEnd (w : Wire) : w.ignored ≤ w.extEnd := by
  cases hx : w.ext with
  | none => simp [Wire.ignored, hx]
  | some b =>
    have := blockUnread_le b
    simp only [blockUnread] at this
    simp only [Wire.ignored, hx, Wire.extEnd, encodeExt, ExtBlock.encode, be16, List.length_append, List.length_cons,
      List.length_nil] at this ⊢
    omega

end Rtp.Proofs.Wire
