/-
  Rtp/Proofs/AV1Abs.lean — the bridge between packets as records (`Pk`, what the payloader model
  builds) and packets as bytes (what the specification `Rtp.Spec.Av1Rtp` parses):
  `parsePacket (encode p) = toPacket p` for every packet that has the shape its W announces.
-/
import Rtp.Go.Bits
import Rtp.Proofs.Leb128
import Rtp.Model.AV1Obs
namespace Rtp.Model.AV1
open Rtp Rtp.Model Rtp.Spec.Av1Rtp

/-- the OBU elements of a packet, in order -/
def Pk.elems (p : Pk) : List Bytes := p.pre ++ p.last.toList

/-- the packet has the shape its W field announces: W = 0 and every element length-prefixed, or
    W = number of elements ≤ 3 and exactly the last one without length field -/
def Pk.shapeOK (p : Pk) : Prop :=
  (p.last = none ∧ p.w = 0) ∨ (p.last.isSome = true ∧ p.w = p.pre.length + 1 ∧ p.w ≤ 3)

def Pk.toPacket (p : Pk) : Packet := { hdr := ⟨p.z, p.y, p.w, p.n⟩, elems := p.elems }

theorem aggOf_aggHeader_fin : ∀ (z y n : Bool) (w : Fin 4),
    aggOf (aggHeader z y w.val n) = ⟨z, y, w.val, n⟩ := by decide +kernel

theorem aggOf_aggHeader (z y n : Bool) (w : Nat) (hw : w ≤ 3) :
    aggOf (aggHeader z y w n) = ⟨z, y, w, n⟩ :=
  aggOf_aggHeader_fin z y n ⟨w, by omega⟩

theorem lenPrefixed_length (e : Bytes) : (lenPrefixed e).length = (writeLeb e.length).length + e.length := by
  simp [lenPrefixed]

theorem lenPrefixed_ne_nil (e : Bytes) : lenPrefixed e ≠ [] := by
  simp [lenPrefixed, writeLeb_ne_nil]

theorem takePrefixed_lenPrefixed (e rest : Bytes) :
    takePrefixed (lenPrefixed e ++ rest) = some (e, rest) := by
  unfold takePrefixed lenPrefixed
  rw [List.append_assoc, readLebSpec_writeLeb]
  simp

theorem elemsAll_flatMap (pre : List Bytes) (fuel : Nat)
    (hf : (pre.flatMap lenPrefixed).length ≤ fuel) :
    elemsAll fuel (pre.flatMap lenPrefixed) = some pre := by
  induction pre generalizing fuel with
  | nil => cases fuel <;> simp [elemsAll]
  | cons e es ih =>
    have hne := lenPrefixed_ne_nil e
    match fuel with
    | 0 =>
      simp only [List.flatMap_cons, List.length_append] at hf
      have : (lenPrefixed e).length ≠ 0 := by simpa using hne
      omega
    | fuel + 1 =>
      simp only [List.flatMap_cons, List.length_append] at hf
      have h1 : (lenPrefixed e).length ≥ 1 := by
        have : (lenPrefixed e).length ≠ 0 := by simpa using hne
        omega
      simp only [elemsAll, List.flatMap_cons, takePrefixed_lenPrefixed]
      have hne2 : (lenPrefixed e ++ es.flatMap lenPrefixed).isEmpty = false := by
        cases h : lenPrefixed e with
        | nil => exact absurd h hne
        | cons a b => simp
      simp [hne2, ih fuel (by omega)]

theorem elemsW_flatMap (pre : List Bytes) (l : Bytes) :
    elemsW pre.length (pre.flatMap lenPrefixed ++ l) = some (pre ++ [l]) := by
  induction pre with
  | nil => simp [elemsW]
  | cons e es ih =>
    simp only [List.length_cons, elemsW, List.flatMap_cons, List.append_assoc,
      takePrefixed_lenPrefixed, ih]
    simp

/-- parse ∘ encode: the specification reads back the fields and elements the record holds -/
theorem parsePacket_encode (p : Pk) (h : p.shapeOK) : parsePacket p.encode = some p.toPacket := by
  obtain ⟨z, y, n, w, pre, last⟩ := p
  unfold Pk.shapeOK at h
  simp only at h
  rcases h with ⟨hl, hw⟩ | ⟨hl, hw, hw3⟩
  · subst hl; subst hw
    simp only [Pk.encode, parsePacket, aggOf_aggHeader z y n 0 (by omega), Pk.body, Option.getD_none,
      List.append_nil, elements, if_true, elemsAll_flatMap pre _ (Nat.le_refl _)]
    simp [Pk.toPacket, Pk.elems]
  · match last, hl with
    | some l, _ =>
      have hw0 : w ≠ 0 := by omega
      have hw1 : w - 1 = pre.length := by omega
      simp only [Pk.encode, parsePacket, aggOf_aggHeader z y n w hw3, Pk.body, Option.getD_some,
        elements, hw0, if_false, hw1, elemsW_flatMap]
      simp [Pk.toPacket, Pk.elems]

theorem parseAll_encode (pks : List Pk) (h : ∀ p ∈ pks, p.shapeOK) :
    parseAll (pks.map Pk.encode) = some (pks.map Pk.toPacket) := by
  unfold parseAll
  induction pks with
  | nil => rfl
  | cons p ps ih =>
    have hp := parsePacket_encode p (h p (by simp))
    have ih' := ih (fun q hq => h q (by simp [hq]))
    simp only [List.map_cons, List.mapM_cons, hp, ih']
    rfl

/-- what a list of well-shaped packets denotes -/
theorem denote_encode (pks : List Pk) (h : ∀ p ∈ pks, p.shapeOK) :
    denote (pks.map Pk.encode) = some ((units (pks.map Pk.toPacket)).map (·.bytes)) := by
  simp [denote, parseAll_encode pks h]

/-! ### vocabulary for the receive side -/

/-- what the receive-side theorems ask of one packet -/
structure PkGood (p : Pk) : Prop where
  shape : p.shapeOK
  ne : p.elems ≠ []
  nonempty : ∀ e ∈ p.elems, e ≠ []
  small : ∀ e ∈ p.elems, e.length < 2 ^ 56
  nz : ¬ (p.n = true ∧ p.z = true)

/-- a complete transmitted OBU the depacketizer passes on: header readable, no size field,
    neither temporal delimiter nor tile list -/
def goodUnit (u : Bytes) : Prop :=
  ∃ h : ObuHeader, parseObuHeader u = .ok h ∧ h.hasSize = false ∧
    h.type ≠ obuTemporalDelimiter ∧ h.type ≠ obuTileList

/-- the OBU with its size field put back: header with the flag set, LEB128 of the payload length,
    payload -/
def sizedOf (u : Bytes) : Bytes :=
  match parseObuHeader u with
  | .ok h => ({ h with hasSize := true }).marshal ++ writeLeb (u.length - h.size) ++ u.drop h.size
  | _ => []

/-- joining, one packet's worth of elements at a time: the OBUs completed and the one left open -/
def joinPkt : Option OUnit → List Elem → List OUnit × Option OUnit
  | op, [] => ([], op)
  | op, e :: es =>
    if e.contNext then joinPkt (some (extend op e)) es
    else ((extend op e) :: (joinPkt none es).1, (joinPkt none es).2)

theorem joinElems_append (op : Option OUnit) (a b : List Elem) :
    joinElems op (a ++ b) = (joinPkt op a).1 ++ joinElems (joinPkt op a).2 b := by
  induction a generalizing op with
  | nil => simp [joinPkt]
  | cons e es ih =>
    simp only [List.cons_append, joinElems, joinPkt]
    split <;> simp [ih]

end Rtp.Model.AV1
