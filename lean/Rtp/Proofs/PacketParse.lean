/-
  Rtp/Proofs/PacketParse.lean — lemmas about the parsers of Rtp/Model/Packet.lean and their located
  variants (Rtp/Pred/C02.lean): never panic, the located variants project onto the shared model,
  every located value is the input bytes at its offset.
-/
import Rtp.Model.Packet
import Rtp.Pred.C02
namespace Rtp.Proofs.PacketParse
open Rtp Rtp.Model Rtp.Pred.C02

/-! ### the block parsers never panic -/

theorem parseOneByte_ne_panic (l : Bytes) : parseOneByte l ≠ .panic := by
  fun_induction parseOneByte l <;> simp_all

theorem parseTwoByte_ne_panic (l : Bytes) : parseTwoByte l ≠ .panic := by
  fun_induction parseTwoByte l <;> simp_all

theorem parseExtBlock_ne_panic (p : UInt16) (l : Bytes) : parseExtBlock p l ≠ .panic := by
  unfold parseExtBlock
  have h1 := parseOneByte_ne_panic l
  have h2 := parseTwoByte_ne_panic l
  split
  · split <;> simp_all
  · split
    · split <;> simp_all
    · simp

/-! ### forgetting the offsets gives the shared parsers -/

def fstL (x : List (Ext × Nat) × Nat) : List Ext × Nat := (x.1.map (·.1), x.2)

theorem parseOneByteL_fst (off : Nat) (l : Bytes) :
    (parseOneByteL off l).map fstL = parseOneByte l := by
  fun_induction parseOneByteL off l <;> rw [parseOneByte] <;> simp_all +zetaDelta [Res.map, fstL]
  all_goals
    rename_i hlen _ ih
    rw [if_neg (by omega), ← ih]

theorem parseTwoByteL_fst (off : Nat) (l : Bytes) :
    (parseTwoByteL off l).map (fun es => es.map (·.1)) = parseTwoByte l := by
  fun_induction parseTwoByteL off l <;> rw [parseTwoByte.eq_def] <;> simp_all +zetaDelta [Res.map]
  all_goals
    rename_i hlen _ ih
    rw [if_neg (by omega), ← ih]

theorem parseExtBlockL_fst (p : UInt16) (off : Nat) (l : Bytes) :
    (parseExtBlockL p off l).map fstL = parseExtBlock p l := by
  unfold parseExtBlockL parseExtBlock
  split
  · rw [← parseOneByteL_fst off l]
    cases parseOneByteL off l <;> simp [Res.map, fstL]
  · split
    · rw [← parseTwoByteL_fst off l]
      cases parseTwoByteL off l <;> simp [Res.map, fstL]
    · simp [Res.map, fstL]

theorem hdrUnmarshal_ne_panic (r : Header) (buf : Bytes) : hdrUnmarshal r buf ≠ .panic := by
  unfold hdrUnmarshal
  simp only []
  repeat' split
  all_goals first
    | (intro h; cases h; done)
    | (rename_i h; exact absurd h (parseExtBlock_ne_panic _ _))
    | (rename_i h _; exact absurd h (parseExtBlock_ne_panic _ _))
    | simp_all [parseExtBlock_ne_panic]

def fstH (x : Header × Nat × List Nat) : Header × Nat := (x.1, x.2.1)

theorem hdrUnmarshalL_fst (r : Header) (buf : Bytes) :
    (hdrUnmarshalL r buf).map fstH = hdrUnmarshal r buf := by
  unfold hdrUnmarshalL hdrUnmarshal
  simp only []
  split
  · simp only []
    split
    · rfl
    · split
      · simp only []
        split
        · split
          · rename_i heq
            simp only [heq]
            split
            · rfl
            · rw [← parseExtBlockL_fst _ (12 + _ + 4)]
              cases parseExtBlockL _ _ _ <;> simp [Res.map, fstH, fstL]
          · rename_i hne
            split
            · rename_i heq; exact (hne _ _ _ _ _ heq).elim
            · rfl
        · rfl
      · rename_i hne
        split
        · exact (hne _ _ _ _ _ _ _ _ _ rfl).elim
        · rfl
  · rename_i hne
    split
    · exact (hne _ _ _ _ _ rfl).elim
    · rfl

/-! ### a used receiver only contributes its stale `ExtensionProfile`, and only while X = 0 -/

def withProfile (p : UInt16) (h : Header) : Header :=
  if h.extension then h else { h with extProfile := p }

theorem hdrUnmarshalL_receiver (r : Header) (buf : Bytes) :
    hdrUnmarshalL r buf =
      (hdrUnmarshalL {} buf).map (fun x => (withProfile r.extProfile x.1, x.2)) := by
  unfold hdrUnmarshalL
  simp only []
  split
  · split
    · rfl
    · split
      · split
        · split
          · split
            · rfl
            · rename_i hx _ _ _ _ _ _ _ _
              cases parseExtBlockL _ _ _ <;> simp [Res.map, withProfile, hx]
          · rfl
        · rename_i hx
          simp [Res.map, withProfile, hx]
      · rfl
  · rfl

/-! ### located values are the input bytes at their offsets -/

/-- element `x.1` was taken from `buf` at offset `x.2`, inside `[lo, hi)` -/
def LocIn (buf : Bytes) (lo hi : Nat) (x : Ext × Nat) : Prop :=
  lo ≤ x.2 ∧ x.2 + x.1.payload.length ≤ hi ∧ x.1.payload = slice buf x.2 (x.2 + x.1.payload.length)

theorem drop_add_of_drop_eq {buf l tail : Bytes} {off : Nat} (k : Nat) (h : buf.drop off = l ++ tail)
    (hk : k ≤ l.length) : buf.drop (off + k) = l.drop k ++ tail := by
  rw [← List.drop_drop, h, List.drop_append_of_le_length hk]

theorem slice_of_drop_eq {buf l tail : Bytes} {off : Nat} (k : Nat) (h : buf.drop off = l ++ tail)
    (hk : k ≤ l.length) : slice buf off (off + k) = l.take k := by
  unfold slice
  rw [h, Nat.add_sub_cancel_left, List.take_append_of_le_length hk]

theorem parseOneByteL_located (buf tail : Bytes) (off : Nat) (l : Bytes) :
    ∀ es left, buf.drop off = l ++ tail → parseOneByteL off l = .ok (es, left) →
      left ≤ l.length ∧ ∀ x ∈ es, LocIn buf off (off + l.length - left) x := by
  fun_induction parseOneByteL off l with
  | case1 off => intro es left _ h; simp at h; obtain ⟨rfl, rfl⟩ := h; simp
  | case2 off b rest hb ih =>
    intro es left hl h
    have hl' := drop_add_of_drop_eq 1 hl (by simp)
    obtain ⟨h1, h2⟩ := ih es left hl' h
    refine ⟨by simp; omega, fun x hx => ?_⟩
    obtain ⟨a, b, c⟩ := h2 x hx
    exact ⟨by omega, by simp; omega, c⟩
  | case3 off b rest hb id hid =>
    intro es left _ h; simp at h; obtain ⟨rfl, rfl⟩ := h; simp
  | case4 => intro es left _ h; simp at h
  | case5 off b rest hb id len hid hlen es' left' heq ih =>
    intro es left hl h
    simp only [Res.ok.injEq, Prod.mk.injEq] at h
    obtain ⟨rfl, rfl⟩ := h
    have hl1 := drop_add_of_drop_eq 1 hl (by simp)
    have hl' := drop_add_of_drop_eq len hl1 (by simp at hlen ⊢; omega)
    simp only [List.drop_one, List.tail_cons] at hl1 hl'
    obtain ⟨h1, h2⟩ := ih es' left' hl' heq
    simp only [List.length_drop] at h1 h2
    refine ⟨by simp; omega, fun x hx => ?_⟩
    rcases List.mem_cons.mp hx with rfl | hx
    · refine ⟨by simp, ?_, ?_⟩
      · simp only [List.length_take, List.length_cons]; omega
      · simp only [List.length_take]
        rw [Nat.min_eq_left (by omega)]
        exact (slice_of_drop_eq len hl1 (by omega)).symm
    · obtain ⟨a, b, c⟩ := h2 x hx
      exact ⟨by omega, by simp only [List.length_cons]; omega, c⟩
  | case6 => intro es left _ h; simp at h
  | case7 => intro es left _ h; simp at h

theorem parseTwoByteL_located (buf tail : Bytes) (off : Nat) (l : Bytes) :
    ∀ es, buf.drop off = l ++ tail → parseTwoByteL off l = .ok es →
      ∀ x ∈ es, LocIn buf off (off + l.length) x := by
  fun_induction parseTwoByteL off l with
  | case1 off => intro es _ h; simp at h; subst h; simp
  | case2 off b rest hb ih =>
    intro es hl h
    have hl' := drop_add_of_drop_eq 1 hl (by simp)
    intro x hx
    obtain ⟨a, b, c⟩ := ih es hl' h x hx
    exact ⟨by omega, by simp only [List.length_cons]; omega, c⟩
  | case3 => intro es _ h; simp at h
  | case4 => intro es _ h; simp at h
  | case5 off b hb lb rest2 len hlen es' heq ih =>
    intro es hl h
    simp only [Res.ok.injEq] at h
    subst h
    have hl2 := drop_add_of_drop_eq 2 hl (by simp)
    have hl' := drop_add_of_drop_eq len hl2 (by simp at hlen ⊢; omega)
    simp only [List.drop_succ_cons, List.drop_zero] at hl2 hl'
    have h2 := ih es' hl' heq
    simp only [List.length_drop] at h2
    intro x hx
    rcases List.mem_cons.mp hx with rfl | hx
    · refine ⟨by simp, ?_, ?_⟩
      · simp only [List.length_take, List.length_cons]; omega
      · simp only [List.length_take]
        rw [Nat.min_eq_left (by omega)]
        exact (slice_of_drop_eq len hl2 (by omega)).symm
    · obtain ⟨a, b, c⟩ := h2 x hx
      exact ⟨by omega, by simp only [List.length_cons]; omega, c⟩
  | case6 => intro es _ h; simp at h
  | case7 => intro es _ h; simp at h

theorem parseExtBlockL_located (buf tail : Bytes) (p : UInt16) (off : Nat) (l : Bytes)
    (es : List (Ext × Nat)) (used : Nat) (hl : buf.drop off = l ++ tail)
    (h : parseExtBlockL p off l = .ok (es, used)) :
    used ≤ l.length ∧ ∀ x ∈ es, LocIn buf off (off + used) x := by
  unfold parseExtBlockL at h
  split at h
  · split at h
    · rename_i es' left heq
      simp only [Res.ok.injEq, Prod.mk.injEq] at h
      obtain ⟨rfl, rfl⟩ := h
      obtain ⟨h1, h2⟩ := parseOneByteL_located buf tail off l es' left hl heq
      refine ⟨by omega, fun x hx => ?_⟩
      obtain ⟨a, b, c⟩ := h2 x hx
      exact ⟨a, by omega, c⟩
    · simp at h
    · simp at h
  · split at h
    · split at h
      · rename_i es' heq
        simp only [Res.ok.injEq, Prod.mk.injEq] at h
        obtain ⟨rfl, rfl⟩ := h
        exact ⟨Nat.le_refl _, parseTwoByteL_located buf tail off l es' hl heq⟩
      · simp at h
      · simp at h
    · simp only [Res.ok.injEq, Prod.mk.injEq] at h
      obtain ⟨rfl, rfl⟩ := h
      refine ⟨Nat.le_refl _, fun x hx => ?_⟩
      simp only [List.mem_singleton] at hx
      subst hx
      exact ⟨Nat.le_refl _, Nat.le_refl _, by
        simpa using (slice_of_drop_eq l.length hl (Nat.le_refl _)).symm⟩

/-! ### the values appear in the input in element order and do not overlap -/

/-- `x` ends before `y` starts -/
def Before (x y : Ext × Nat) : Prop := x.2 + x.1.payload.length ≤ y.2

theorem parseOneByteL_sorted (buf tail : Bytes) (off : Nat) (l : Bytes) :
    ∀ es left, buf.drop off = l ++ tail → parseOneByteL off l = .ok (es, left) →
      es.Pairwise Before := by
  fun_induction parseOneByteL off l with
  | case1 off => intro es left _ h; simp at h; obtain ⟨rfl, rfl⟩ := h; simp
  | case2 off b rest hb ih =>
    intro es left hl h
    exact ih es left (drop_add_of_drop_eq 1 hl (by simp)) h
  | case3 off b rest hb id hid =>
    intro es left _ h; simp at h; obtain ⟨rfl, rfl⟩ := h; simp
  | case4 => intro es left _ h; simp at h
  | case5 off b rest hb id len hid hlen es' left' heq ih =>
    intro es left hl h
    simp only [Res.ok.injEq, Prod.mk.injEq] at h
    obtain ⟨rfl, rfl⟩ := h
    have hl1 := drop_add_of_drop_eq 1 hl (by simp)
    have hl' := drop_add_of_drop_eq len hl1 (by simp at hlen ⊢; omega)
    simp only [List.drop_one, List.tail_cons] at hl1 hl'
    obtain ⟨_, h2⟩ := parseOneByteL_located buf tail _ _ es' left' hl' heq
    rw [List.pairwise_cons]
    refine ⟨fun y hy => ?_, ih es' left' hl' heq⟩
    obtain ⟨a, _, _⟩ := h2 y hy
    simp only [Before, List.length_take]
    omega
  | case6 => intro es left _ h; simp at h
  | case7 => intro es left _ h; simp at h

theorem parseTwoByteL_sorted (buf tail : Bytes) (off : Nat) (l : Bytes) :
    ∀ es, buf.drop off = l ++ tail → parseTwoByteL off l = .ok es → es.Pairwise Before := by
  fun_induction parseTwoByteL off l with
  | case1 off => intro es _ h; simp at h; subst h; simp
  | case2 off b rest hb ih =>
    intro es hl h
    exact ih es (drop_add_of_drop_eq 1 hl (by simp)) h
  | case3 => intro es _ h; simp at h
  | case4 => intro es _ h; simp at h
  | case5 off b hb lb rest2 len hlen es' heq ih =>
    intro es hl h
    simp only [Res.ok.injEq] at h
    subst h
    have hl2 := drop_add_of_drop_eq 2 hl (by simp)
    have hl' := drop_add_of_drop_eq len hl2 (by simp at hlen ⊢; omega)
    simp only [List.drop_succ_cons, List.drop_zero] at hl2 hl'
    have h2 := parseTwoByteL_located buf tail _ _ es' hl' heq
    rw [List.pairwise_cons]
    refine ⟨fun y hy => ?_, ih es' hl' heq⟩
    obtain ⟨a, _, _⟩ := h2 y hy
    simp only [Before, List.length_take]
    omega
  | case6 => intro es _ h; simp at h
  | case7 => intro es _ h; simp at h

theorem parseExtBlockL_sorted (buf tail : Bytes) (p : UInt16) (off : Nat) (l : Bytes)
    (es : List (Ext × Nat)) (used : Nat) (hl : buf.drop off = l ++ tail)
    (h : parseExtBlockL p off l = .ok (es, used)) : es.Pairwise Before := by
  unfold parseExtBlockL at h
  split at h
  · split at h
    · rename_i es' left heq
      simp only [Res.ok.injEq, Prod.mk.injEq] at h
      obtain ⟨rfl, rfl⟩ := h
      exact parseOneByteL_sorted buf tail off l es' left hl heq
    · simp at h
    · simp at h
  · split at h
    · split at h
      · rename_i es' heq
        simp only [Res.ok.injEq, Prod.mk.injEq] at h
        obtain ⟨rfl, rfl⟩ := h
        exact parseTwoByteL_sorted buf tail off l es' hl heq
      · simp at h
      · simp at h
    · simp only [Res.ok.injEq, Prod.mk.injEq] at h
      obtain ⟨rfl, rfl⟩ := h
      simp

theorem zip_map_fst_snd {α β} (l : List (α × β)) : (l.map (·.1)).zip (l.map (·.2)) = l := by
  induction l with
  | nil => rfl
  | cons a l ih => simp [ih]

theorem drop12 (a0 a1 a2 a3 a4 a5 a6 a7 a8 a9 a10 a11 : UInt8) (rest : Bytes) (k : Nat) :
    (a0 :: a1 :: a2 :: a3 :: a4 :: a5 :: a6 :: a7 :: a8 :: a9 :: a10 :: a11 :: rest).drop (12 + k) =
      rest.drop k := by
  rw [Nat.add_comm]; rfl

/-- what a successful `Header.Unmarshal` guarantees: the header length lies inside the input and
    after the 12 fixed bytes, there is one offset per extension element, every element value is the
    input bytes at its offset and lies between the extension header and the end of the header, and
    without the X bit there are no elements -/
theorem hdrUnmarshalL_bounds (r : Header) (buf : Bytes) (h : Header) (n : Nat) (locs : List Nat)
    (hok : hdrUnmarshalL r buf = .ok (h, n, locs)) :
    12 ≤ n ∧ n ≤ buf.length ∧ locs.length = h.exts.length ∧
    (∀ x ∈ h.exts.zip locs, LocIn buf 16 n x) ∧ (h.extension = false → h.exts = []) := by
  unfold hdrUnmarshalL at hok
  simp only [] at hok
  split at hok
  · split at hok
    · simp at hok
    · split at hok
      · split at hok
        · split at hok
          · split at hok
            · simp at hok
            · split at hok
              · rename_i _ b0 b1 s0 s1 _ t0 t1 t2 t3 c0 c1 c2 c3 rest12 hlen hx _ p0 p1 l0 l1 afterHdr heq hshort _ es used hparse
                simp only [Res.ok.injEq, Prod.mk.injEq] at hok
                obtain ⟨rfl, rfl, rfl⟩ := hok
                have hlenr := congrArg List.length heq
                simp only [List.length_drop, List.length_cons] at hlenr
                have hdrop : (b0 :: b1 :: s0 :: s1 :: t0 :: t1 :: t2 :: t3 :: c0 :: c1 :: c2 :: c3 :: rest12).drop
                    (12 + (b0 &&& 15).toNat * 4 + 4) =
                    afterHdr.take ((rd16 l0 l1).toNat * 4) ++ afterHdr.drop ((rd16 l0 l1).toNat * 4) := by
                  rw [Nat.add_assoc, drop12, ← List.drop_drop, heq, List.take_append_drop]
                  rfl
                obtain ⟨hu, hloc⟩ := parseExtBlockL_located _ _ _ _ _ es used hdrop hparse
                simp only [List.length_take] at hu
                refine ⟨by omega, ?_, by simp, ?_, by simp [hx]⟩
                · simp only [List.length_cons]; omega
                · simp only [zip_map_fst_snd]
                  intro x hxm
                  obtain ⟨a, b, c⟩ := hloc x hxm
                  exact ⟨by omega, b, c⟩
              · simp at hok
              · simp at hok
          · simp at hok
        · rename_i hlen hx
          simp only [Res.ok.injEq, Prod.mk.injEq] at hok
          obtain ⟨rfl, rfl, rfl⟩ := hok
          refine ⟨by omega, by omega, rfl, by simp, by simp⟩
      · simp at hok
  · simp at hok

/-- inversion of a successful `Header.Unmarshal` with the X bit: the elements come from one
    block parse at `start` (after the 4-byte extension header) -/
theorem hdrUnmarshalL_ok_ext (r : Header) (buf : Bytes) (h : Header) (n : Nat) (locs : List Nat)
    (hok : hdrUnmarshalL r buf = .ok (h, n, locs)) (hx : h.extension = true) :
    ∃ start block tail es used, buf.drop start = block ++ tail ∧
      parseExtBlockL h.extProfile start block = .ok (es, used) ∧
      h.exts = es.map (·.1) ∧ locs = es.map (·.2) ∧ n = start + used ∧ 16 ≤ start := by
  unfold hdrUnmarshalL at hok
  simp only [] at hok
  split at hok
  · split at hok
    · simp at hok
    · split at hok
      · split at hok
        · split at hok
          · split at hok
            · simp at hok
            · split at hok
              · rename_i _ b0 b1 s0 s1 _ t0 t1 t2 t3 c0 c1 c2 c3 rest12 hlen hx' _ p0 p1 l0 l1 afterHdr heq hshort _ es used hparse
                simp only [Res.ok.injEq, Prod.mk.injEq] at hok
                obtain ⟨rfl, rfl, rfl⟩ := hok
                have hdrop : (b0 :: b1 :: s0 :: s1 :: t0 :: t1 :: t2 :: t3 :: c0 :: c1 :: c2 :: c3 :: rest12).drop
                    (12 + (b0 &&& 15).toNat * 4 + 4) =
                    afterHdr.take ((rd16 l0 l1).toNat * 4) ++ afterHdr.drop ((rd16 l0 l1).toNat * 4) := by
                  rw [Nat.add_assoc, drop12, ← List.drop_drop, heq, List.take_append_drop]
                  rfl
                exact ⟨_, _, _, es, used, hdrop, hparse, rfl, rfl, rfl, by omega⟩
              · simp at hok
              · simp at hok
          · simp at hok
        · rename_i hlen hx'
          simp only [Res.ok.injEq, Prod.mk.injEq] at hok
          obtain ⟨rfl, rfl, rfl⟩ := hok
          exact absurd hx hx'
      · simp at hok
  · simp at hok

/-- the extension values lie in the input in element order, without overlap -/
theorem hdrUnmarshalL_sorted (r : Header) (buf : Bytes) (h : Header) (n : Nat) (locs : List Nat)
    (hok : hdrUnmarshalL r buf = .ok (h, n, locs)) : (h.exts.zip locs).Pairwise Before := by
  by_cases hx : h.extension = true
  · obtain ⟨start, block, tail, es, used, hd, hp, he, hl, _, _⟩ := hdrUnmarshalL_ok_ext r buf h n locs hok hx
    rw [he, hl, zip_map_fst_snd]
    exact parseExtBlockL_sorted buf tail _ start block es used hd hp
  · have := (hdrUnmarshalL_bounds r buf h n locs hok).2.2.2.2 (by simpa using hx)
    simp [this]

/-! ### the shape of parsed elements -/

theorem shr4_le (b : UInt8) : (b >>> 4).toNat ≤ 15 := by
  have := b.toNat_lt
  have h4 : (4 : UInt8).toNat % 8 = 4 := by decide
  rw [UInt8.toNat_shiftRight, h4, Nat.shiftRight_eq_div_pow]
  omega

theorem and15_le (b : UInt8) : (b &&& 15).toNat ≤ 15 := by
  rw [UInt8.toNat_and]
  exact Nat.and_le_right

/-- one-byte elements as parsed: id ≤ 14, 1–16 bytes -/
theorem parseOneByteL_shape (off : Nat) (l : Bytes) :
    ∀ es left, parseOneByteL off l = .ok (es, left) →
      ∀ x ∈ es, x.1.id.toNat ≤ 14 ∧ 1 ≤ x.1.payload.length ∧ x.1.payload.length ≤ 16 := by
  fun_induction parseOneByteL off l with
  | case1 off => intro es left h; simp at h; obtain ⟨rfl, rfl⟩ := h; simp
  | case2 off b rest hb ih => intro es left h; exact ih es left h
  | case3 off b rest hb id hid => intro es left h; simp at h; obtain ⟨rfl, rfl⟩ := h; simp
  | case4 => intro es left h; simp at h
  | case5 off b rest hb id len hid hlen es' left' heq ih =>
    intro es left h
    simp only [Res.ok.injEq, Prod.mk.injEq] at h
    obtain ⟨rfl, rfl⟩ := h
    intro x hx
    rcases List.mem_cons.mp hx with rfl | hx
    · have h1 := shr4_le b
      have h2 := and15_le b
      have h3 : (b >>> 4).toNat ≠ 15 := by
        intro hc; apply hid
        simp only [id, beq_iff_eq]
        exact UInt8.toNat_inj.mp (by simpa using hc)
      simp only [List.length_take]
      simp only [len, id] at hlen ⊢
      omega
    · exact ih es' left' heq x hx
  | case6 => intro es left h; simp at h
  | case7 => intro es left h; simp at h

/-- two-byte elements as parsed: id ≠ 0, ≤ 255 bytes -/
theorem parseTwoByteL_shape (off : Nat) (l : Bytes) :
    ∀ es, parseTwoByteL off l = .ok es →
      ∀ x ∈ es, x.1.id ≠ 0 ∧ x.1.payload.length ≤ 255 := by
  fun_induction parseTwoByteL off l with
  | case1 off => intro es h; simp at h; subst h; simp
  | case2 off b rest hb ih => intro es h; exact ih es h
  | case3 => intro es h; simp at h
  | case4 => intro es h; simp at h
  | case5 off b hb lb rest2 len hlen es' heq ih =>
    intro es h
    simp only [Res.ok.injEq] at h
    subst h
    intro x hx
    rcases List.mem_cons.mp hx with rfl | hx
    · have := lb.toNat_lt
      refine ⟨by simpa using hb, ?_⟩
      simp only [List.length_take, len]
      omega
    · exact ih es' heq x hx
  | case6 => intro es h; simp at h
  | case7 => intro es h; simp at h

/-! ### the fixed fields of a decoded header -/

theorem readCsrcs_length_le (n : Nat) (l : Bytes) : (readCsrcs n l).length ≤ n := by
  fun_induction readCsrcs n l with
  | case1 n a b c d rest ih => simp only [List.length_cons]; omega
  | case2 => simp

theorem and3_lt (b : UInt8) : (b &&& 3).toNat < 4 := by
  rw [UInt8.toNat_and]
  exact Nat.lt_of_le_of_lt Nat.and_le_right (by decide)

theorem and127_lt (b : UInt8) : (b &&& 127).toNat < 128 := by
  rw [UInt8.toNat_and]
  exact Nat.lt_of_le_of_lt Nat.and_le_right (by decide)

/-- version < 4, payload type < 128, at most 15 CSRCs — whatever the bytes were -/
theorem hdrUnmarshalL_fixed (r : Header) (buf : Bytes) (h : Header) (n : Nat) (locs : List Nat)
    (hok : hdrUnmarshalL r buf = .ok (h, n, locs)) :
    h.version.toNat < 4 ∧ h.payloadType.toNat < 128 ∧ h.csrc.length ≤ 15 := by
  unfold hdrUnmarshalL at hok
  simp only [] at hok
  split at hok
  · split at hok
    · simp at hok
    · split at hok
      · split at hok
        · split at hok
          · split at hok
            · simp at hok
            · split at hok
              · rename_i _ b0 b1 s0 s1 _ t0 t1 t2 t3 c0 c1 c2 c3 rest12 hlen hx _ p0 p1 l0 l1 afterHdr heq hshort _ es used hparse
                have hcc := and15_le b0
                have hcs := readCsrcs_length_le (b0 &&& 15).toNat rest12
                simp only [Res.ok.injEq, Prod.mk.injEq] at hok
                obtain ⟨rfl, _, _⟩ := hok
                exact ⟨and3_lt _, and127_lt _, by simp only; omega⟩
              · simp at hok
              · simp at hok
          · simp at hok
        · rename_i _ b0 b1 s0 s1 _ t0 t1 t2 t3 c0 c1 c2 c3 rest12 hlen hx
          have hcc := and15_le b0
          have hcs := readCsrcs_length_le (b0 &&& 15).toNat rest12
          simp only [Res.ok.injEq, Prod.mk.injEq] at hok
          obtain ⟨rfl, _, _⟩ := hok
          exact ⟨and3_lt _, and127_lt _, by simp only; omega⟩
      · simp at hok
  · simp at hok

/-! ### Packet.Unmarshal -/

theorem pktUnmarshal_ne_panic (r : Packet) (buf : Bytes) : pktUnmarshal r buf ≠ .panic := by
  unfold pktUnmarshal
  have := hdrUnmarshal_ne_panic r.header buf
  split
  · simp
  · contradiction
  · simp only []
    repeat' split
    all_goals simp

theorem pktUnmarshalL_fst (r : Packet) (buf : Bytes) :
    (pktUnmarshalL r buf).map (·.1) = pktUnmarshal r buf := by
  unfold pktUnmarshalL pktUnmarshal
  rw [← hdrUnmarshalL_fst]
  cases hdrUnmarshalL r.header buf with
  | err e => rfl
  | panic => rfl
  | ok x =>
    obtain ⟨h, n, locs⟩ := x
    simp only []
    generalize buf.getLastD 0 = ps
    by_cases hp : h.padding = true <;> by_cases h1 : buf.length ≤ n <;>
      by_cases h2 : buf.length < n + ps.toNat <;>
      simp [Res.map, fstH, hp, h1, h2]

theorem pktUnmarshalL_receiver (r : Packet) (buf : Bytes) :
    pktUnmarshalL r buf =
      (pktUnmarshalL {} buf).map
        (fun x => ({ x.1 with header := withProfile r.header.extProfile x.1.header }, x.2)) := by
  unfold pktUnmarshalL
  rw [hdrUnmarshalL_receiver r.header buf]
  cases hdrUnmarshalL ({} : Packet).header buf with
  | err e => rfl
  | panic => rfl
  | ok x =>
    obtain ⟨h, n, locs⟩ := x
    have hp : (withProfile r.header.extProfile h).padding = h.padding := by
      unfold withProfile; split <;> rfl
    simp only []
    generalize buf.getLastD 0 = ps
    by_cases hp' : h.padding = true <;> by_cases h1 : buf.length ≤ n <;>
      by_cases h2 : buf.length < n + ps.toNat <;>
      simp [Res.map, hp, hp', h1, h2]

/-- what a successful `Packet.Unmarshal` guarantees beyond its header part -/
theorem pktUnmarshalL_bounds (r : Packet) (buf : Bytes) (p : Packet) (n : Nat) (locs : List Nat)
    (hok : pktUnmarshalL r buf = .ok (p, n, locs)) :
    hdrUnmarshalL r.header buf = .ok (p.header, n, locs) ∧
    n + p.payload.length + p.paddingSize.toNat = buf.length ∧
    p.payload = slice buf n (n + p.payload.length) := by
  unfold pktUnmarshalL at hok
  split at hok
  · simp at hok
  · simp at hok
  · rename_i h n' locs' hh
    have hb := (hdrUnmarshalL_bounds _ _ _ _ _ hh).2.1
    simp only [] at hok
    split at hok
    · split at hok
      · simp at hok
      · split at hok
        · simp at hok
        · simp only [Res.ok.injEq, Prod.mk.injEq] at hok
          obtain ⟨rfl, rfl, rfl⟩ := hok
          refine ⟨hh, ?_, ?_⟩
          · simp only [slice, List.length_take, List.length_drop]; omega
          · simp only [slice, List.length_take, List.length_drop]
            congr 1; omega
    · simp only [Res.ok.injEq, Prod.mk.injEq] at hok
      obtain ⟨rfl, rfl, rfl⟩ := hok
      refine ⟨hh, ?_, ?_⟩
      · simp only [List.length_drop, UInt8.toNat_zero]; omega
      · simp only [slice, List.length_drop]
        rw [List.take_of_length_le]
        simp only [List.length_drop]; omega

end Rtp.Proofs.PacketParse
