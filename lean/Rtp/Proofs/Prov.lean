/-
  Rtp/Proofs/Prov.lean — the provenance layer (Rtp/Model/Prov.lean): what each operation does to
  the contents and to the origin, and `pEmitNalus` = `emitNalus` with the argument's origin on
  every emitted slice.
-/
import Rtp.Model.Prov
namespace Rtp.Proofs.Prov
open Rtp Rtp.Model Rtp.Model.Prov

/-! ### contents -/
@[simp] theorem bytes_ofInput (i : Nat) (b : Bytes) : (PBytes.ofInput i b).bytes = b := rfl
@[simp] theorem bytes_make (c : Bytes) : (PBytes.make c).bytes = c := rfl
@[simp] theorem bytes_nil : PBytes.nil.bytes = [] := rfl
@[simp] theorem bytes_take (x : PBytes) (n : Nat) : (x.take n).bytes = x.bytes.take n := rfl
@[simp] theorem bytes_drop (x : PBytes) (n : Nat) : (x.drop n).bytes = x.bytes.drop n := rfl
@[simp] theorem bytes_sub (x : PBytes) (a b : Nat) : (x.sub a b).bytes = slice x.bytes a b := rfl
@[simp] theorem bytes_copy (x : PBytes) : x.copy.bytes = x.bytes := rfl
@[simp] theorem bytes_append (x : PBytes) (y : Bytes) : (x.append y).bytes = x.bytes ++ y := rfl

/-! ### origins -/
@[simp] theorem origin_ofInput (i : Nat) (b : Bytes) : (PBytes.ofInput i b).origin = .input i := rfl
@[simp] theorem origin_make (c : Bytes) : (PBytes.make c).origin = .fresh := rfl
@[simp] theorem origin_nil : PBytes.nil.origin = .fresh := rfl
@[simp] theorem origin_take (x : PBytes) (n : Nat) : (x.take n).origin = x.origin := rfl
@[simp] theorem origin_drop (x : PBytes) (n : Nat) : (x.drop n).origin = x.origin := rfl
@[simp] theorem origin_sub (x : PBytes) (a b : Nat) : (x.sub a b).origin = x.origin := rfl
@[simp] theorem origin_copy (x : PBytes) : x.copy.origin = .fresh := rfl
@[simp] theorem origin_append (x : PBytes) (y : Bytes) : (x.append y).origin = x.origin := rfl

/-! ### lists of slices -/
@[simp] theorem forgetAll_nil : forgetAll [] = [] := rfl
@[simp] theorem forgetAll_cons (x : PBytes) (l : List PBytes) :
    forgetAll (x :: l) = x.bytes :: forgetAll l := rfl
@[simp] theorem forgetAll_append (a b : List PBytes) :
    forgetAll (a ++ b) = forgetAll a ++ forgetAll b := by simp [forgetAll]

@[simp] theorem allOwned_nil : AllOwned [] := by simp [AllOwned]
@[simp] theorem allOwned_cons (x : PBytes) (l : List PBytes) :
    AllOwned (x :: l) ↔ x.origin = .fresh ∧ AllOwned l := by simp [AllOwned]
@[simp] theorem allOwned_append (a b : List PBytes) :
    AllOwned (a ++ b) ↔ AllOwned a ∧ AllOwned b := by
  simp only [AllOwned, List.mem_append]
  exact ⟨fun h => ⟨fun x hx => h x (Or.inl hx), fun x hx => h x (Or.inr hx)⟩,
         fun h x hx => hx.elim (h.1 x) (h.2 x)⟩

@[simp] theorem optOwned_none : OptOwned none := trivial
@[simp] theorem optOwned_some (x : PBytes) : OptOwned (some x) ↔ x.origin = .fresh := Iff.rfl

/-! ### emitNalus -/

theorem splitRest_none (rest : Bytes) (h : indexSC rest = none) : splitRest rest = [rest] := by
  rw [splitRest]
  split
  · rfl
  · rename_i e he; rw [h] at he; cases he

theorem splitRest_some (rest : Bytes) (e : Nat) (h : indexSC rest = some e) :
    splitRest rest =
      rest.take (if (decide (0 < e) && (rest.getD (e - 1) 1 == 0)) then e - 1 else e) ::
        splitRest (rest.drop (e + 3)) := by
  rw [splitRest]
  split
  · rename_i he; rw [h] at he; cases he
  · rename_i e' he
    rw [h] at he
    cases he
    rfl

/-- the slices `pSplitRest` emits are those of `splitRest`, all with the argument's origin -/
theorem pSplitRest_eq (rest : PBytes) :
    pSplitRest rest = (splitRest rest.bytes).map (fun b => ⟨b, rest.origin⟩) := by
  fun_induction pSplitRest rest with
  | case1 rest h => simp [splitRest_none _ h]
  | case2 rest e h four ih =>
    rw [splitRest_some _ e h, ih]
    simp [PBytes.take, PBytes.drop, four]

theorem pEmitNalus_eq (nals : PBytes) :
    pEmitNalus nals = (emitNalus nals.bytes).map (fun b => ⟨b, nals.origin⟩) := by
  unfold pEmitNalus emitNalus
  split <;> simp_all [pSplitRest_eq]

theorem forgetAll_pEmitNalus (nals : PBytes) : forgetAll (pEmitNalus nals) = emitNalus nals.bytes := by
  simp [pEmitNalus_eq, forgetAll, Function.comp_def]

theorem origin_of_mem_pEmitNalus {nals x : PBytes} (h : x ∈ pEmitNalus nals) :
    x.origin = nals.origin := by
  rw [pEmitNalus_eq] at h
  simp at h
  obtain ⟨_, _, rfl⟩ := h
  rfl

end Rtp.Proofs.Prov
